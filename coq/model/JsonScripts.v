(** The script oracle of model/Json.v instantiated: what nodeOutputJSON.fromOutput / nodeInputJSON.fromInput
    obtain from bscript for a script - ToASM, len(Addresses()), ScriptType() - is the model of bscript's
    inspection code itself (model/Classify.v [node_output]: every index and slice expression of
    IsP2PKH / IsP2PK / IsData / IsMultiSigOut / IsP2PKHInscription / PublicKeyHash / DecodeParts / ToASM a
    checked primitive that yields [Panic]).  With it the node-dialect statements of C16 are about ANY script
    bytes without an assumption on an oracle: see proofs/JsonScriptsProofs.v. *)
From Coq Require Import List NArith String.
From Coq Require Import Strings.Byte.
From GoBT Require Import lib.Bytes lib.Hex lib.Checked model.Push model.Asm model.Classify model.Tx model.Amount model.Json.
Import ListNotations.
Local Open Scope string_scope.

(** bscript.ScriptType… constants *)
Definition stype_name (t : stype) : string :=
  match t with
  | TEmpty => "empty" | TPubKeyHash => "pubkeyhash" | TPubKey => "pubkey" | TNullData => "nulldata"
  | TMultiSig => "multisig" | TInscription => "pubkeyhashinscription" | TNonStandard => "nonstandard"
  end.

(** (asm, reqSigs, type) of a script, an error (ToASM / Addresses returned one), or a panic.  The fuel of the
    decoder model is a proof device; it is mapped to [JPanic] so that the no-panic theorem has to exclude it. *)
Definition script_info_bscript (s : bytes) : jres (string * N * string) :=
  match node_output s with
  | Ok (asm, n, t) => JOk (asm, n, stype_name t)
  | Err => JErr
  | Panic => JPanic
  | Fuel => JPanic
  end.

(** the node documents of one script as locking script of an output and as unlocking script of an input *)
Definition node_script_docs (s : bytes) : jres (node_output_j * node_input_j) :=
  jbind (from_output script_info_bscript 0 (mkGOutput 1 (Some s))) (fun o =>
  jbind (from_input script_info_bscript (mkGInput [] 0 (Some s) 0 0 None)) (fun i => JOk (o, i))).
