(** * State inventory: the Go struct definitions the model records were written against.

    [gen/Structs.v] is regenerated from /repo's source on every run (harness/gen/structs.go): every struct type of
    the library with its fields, name and type as written.  [modelled] below is the same table as it was when the
    model was written, each struct with the place in the model that represents it.  [inventory_ok pid] says that
    for every struct the model of property [pid] represents, the regenerated definition is field for field (names,
    types, order) the one the model was written against.  It is an obligation on the TIE, not a statement about
    behaviour: a field added to bt.Tx to remember a digest, a cache in a JSON wrapper, a remembered number in the
    interpreter's stack is state the model does not have; theorems such as "computing the hash leaves the
    transaction unchanged" or "decode (encode t) = t" then no longer speak about the whole object, and
    [Properties/Cxx.v : Cxx_state_inventory] stops checking.  (A harmless new field stops it too; the driver then
    searches for a failing input and reports what it finds, DESIGN.md section 3.) *)
From Coq Require Import List String Bool.
Import ListNotations.
Local Open Scope string_scope.

Definition sdef := (string * string * list (string * string))%type.

(** (package, type, fields, where the model represents it) *)
Definition modelled : list (string * string * list (string * string) * string) := [
  ("bt", "Fee", [("FeeType", "FeeType"); ("MiningFee", "FeeUnit"); ("RelayFee", "FeeUnit")],
     "model/Fees.v rate pairs of a quote (standard / data, mining fee; the relay fee is not read by the modelled functions)");
  ("bt", "FeeQuote", [("mu", "sync.RWMutex"); ("fees", "map[FeeType]*Fee"); ("expiryTime", "time.Time")],
     "model/Fees.v quote; model/Locks.v guarded fields fees, expiryTime under mu");
  ("bt", "FeeQuotes", [("mu", "sync.RWMutex"); ("quotes", "map[string]*FeeQuote")],
     "model/Locks.v guarded field quotes under mu");
  ("bt", "FeeUnit", [("Satoshis", "int"); ("Bytes", "int")],
     "model/Fees.v record rate (satoshis, bytes)");
  ("bt", "Input", [("previousTxID", "[]byte"); ("PreviousTxSatoshis", "uint64"); ("PreviousTxScript", "*bscript.Script"); ("UnlockingScript", "*bscript.Script"); ("PreviousTxOutIndex", "uint32"); ("SequenceNumber", "uint32")],
     "model/Tx.v record input (in_txid, in_vout, in_unlock, in_seq, in_sats, in_script)");
  ("bt", "Output", [("Satoshis", "uint64"); ("LockingScript", "*bscript.Script")],
     "model/Tx.v record output (out_sats, out_script)");
  ("bt", "Tx", [("Inputs", "[]*Input"); ("Outputs", "[]*Output"); ("Version", "uint32"); ("LockTime", "uint32")],
     "model/Tx.v record tx (tx_version, tx_ins, tx_outs, tx_lock)");
  ("bt", "TxFees", [("TotalFeePaid", "uint64"); ("StdFeePaid", "uint64"); ("DataFeePaid", "uint64")],
     "model/Fees.v record txfees");
  ("bt", "TxSize", [("TotalBytes", "uint64"); ("TotalStdBytes", "uint64"); ("TotalDataBytes", "uint64")],
     "model/Fees.v record txsize");
  ("bt", "UTXO", [("TxID", "[]byte"); ("Vout", "uint32"); ("LockingScript", "*bscript.Script"); ("Satoshis", "uint64"); ("SequenceNumber", "uint32"); ("Unlocker", "*Unlocker")],
     "model/Fund.v utxo (txid, vout, script, satoshis; sequence and unlocker are carried by the harness)");
  ("bt", "UnlockerParams", [("InputIdx", "uint32"); ("SigHashFlags", "sighash.Flag")],
     "model/Sign.v arguments of unlocking_script (index, flags)");
  ("bt", "changeOutput", [("lockingScript", "*bscript.Script"); ("newOutput", "bool")],
     "model/Change.v destination (script, new output or existing index)");
  ("bt", "inputJSON", [("UnlockingScript", "string"); ("TxID", "string"); ("Vout", "uint32"); ("Sequence", "uint32")],
     "model/Json.v document shape / wrapper of the same name");
  ("bt", "nodeInputJSON", [("ScriptSig", "*struct{Asm string; Hex string}"); ("TxID", "string"); ("Vout", "uint32"); ("Sequence", "uint32")],
     "model/Json.v document shape / wrapper of the same name");
  ("bt", "nodeOutputJSON", [("Value", "float64"); ("Index", "int"); ("ScriptPubKey", "*struct{Asm string; Hex string; ReqSigs int; Type string}")],
     "model/Json.v document shape / wrapper of the same name");
  ("bt", "nodeOutputWrapper", [("(embedded)", "*Output")],
     "model/Json.v document shape / wrapper of the same name");
  ("bt", "nodeTxJSON", [("Version", "uint32"); ("LockTime", "uint32"); ("TxID", "string"); ("Hash", "string"); ("Size", "int"); ("Hex", "string"); ("Inputs", "[]*nodeInputJSON"); ("Outputs", "[]*nodeOutputJSON")],
     "model/Json.v document shape / wrapper of the same name");
  ("bt", "nodeTxWrapper", [("(embedded)", "*Tx")],
     "model/Json.v document shape / wrapper of the same name");
  ("bt", "nodeUTXOWrapper", [("(embedded)", "*UTXO")],
     "model/Json.v document shape / wrapper of the same name");
  ("bt", "outputJSON", [("Satoshis", "uint64"); ("LockingScript", "string")],
     "model/Json.v document shape / wrapper of the same name");
  ("bt", "txJSON", [("TxID", "string"); ("Hex", "string"); ("Inputs", "[]*Input"); ("Outputs", "[]*Output"); ("Version", "uint32"); ("LockTime", "uint32")],
     "model/Json.v document shape / wrapper of the same name");
  ("bt", "utxoJSON", [("TxID", "string"); ("Vout", "uint32"); ("LockingScript", "string"); ("Satoshis", "uint64")],
     "model/Json.v document shape / wrapper of the same name");
  ("bt", "utxoNodeJSON", [("TxID", "string"); ("Vout", "uint32"); ("ScriptPubKey", "string"); ("Amount", "float64")],
     "model/Json.v document shape / wrapper of the same name");
  ("bscript", "Address", [("AddressString", "string"); ("PublicKeyHash", "string")],
     "model/Address.v address (string, hash)");
  ("bscript", "BIP276", [("Prefix", "string"); ("Version", "int"); ("Network", "int"); ("Data", "[]byte")],
     "model/Bip276.v record bip276");
  ("bscript", "EnrichedInscriptionArgs", [("OpReturnData", "[][]byte")],
     "model/Inscription.v (op-return data list)");
  ("bscript", "InscriptionArgs", [("LockingScriptPrefix", "*Script"); ("Data", "[]byte"); ("ContentType", "string"); ("EnrichedArgs", "*EnrichedInscriptionArgs")],
     "model/Inscription.v arguments of inscribe");
  ("interpreter", "DefaultOpcodeParser", [("ErrorOnCheckSig", "bool")],
     "model/Parser.v parse (ErrorOnCheckSig = no transaction context)");
  ("interpreter", "ParsedOpcode", [("op", "opcode"); ("Data", "[]byte")],
     "model/Parser.v pop (opcode byte, data)");
  ("interpreter", "State", [("DataStack", "[][]byte"); ("AltStack", "[][]byte"); ("ElseStack", "[][]byte"); ("CondStack", "[]int"); ("SavedFirstStack", "[][]byte"); ("Scripts", "[]ParsedScript"); ("ScriptIdx", "int"); ("OpcodeIdx", "int"); ("LastCodeSeparatorIdx", "int"); ("NumOps", "int"); ("Flags", "scriptflag.Flag"); ("IsFinished", "bool"); ("Genesis", "struct{AfterGenesis bool; EarlyReturn bool}")],
     "model/Debug.v snapshots (stacks, cond/else stacks, scripts, indices, flags)");
  ("interpreter", "afterGenesisConfig", [],
     "no fields: carries no state");
  ("interpreter", "beforeGenesisConfig", [],
     "no fields: carries no state");
  ("interpreter", "engine", [],
     "stateless: model/Locks.v engine_fields = []");
  ("interpreter", "execOpts", [("lockingScript", "*bscript.Script"); ("unlockingScript", "*bscript.Script"); ("previousTxOut", "*bt.Output"); ("tx", "*bt.Tx"); ("inputIdx", "int"); ("flags", "scriptflag.Flag"); ("debugger", "Debugger"); ("state", "*State")],
     "model/ExecOpts.v record of nil-able arguments");
  ("interpreter", "nopBoolStack", [],
     "no fields: carries no state");
  ("interpreter", "nopDebugger", [],
     "no fields: carries no state");
  ("interpreter", "nopStateHandler", [],
     "no fields: carries no state");
  ("interpreter", "opcode", [("val", "byte"); ("name", "string"); ("length", "int"); ("exec", "func(*ParsedOpcode, *thread) error")],
     "gen/OpTable.v rows (value, name, length, handler)");
  ("interpreter", "parsedSigInfo", [("signature", "[]byte"); ("parsedSignature", "*bec.Signature"); ("parsed", "bool")],
     "model/CheckSig.v multisig loop state (signature bytes, parsed flag, oracle answer)");
  ("interpreter", "scriptNumber", [("val", "*big.Int"); ("afterGenesis", "bool")],
     "model/ScriptNum.v numbers are Z; the era flag selects the conversion");
  ("interpreter", "stack", [("stk", "[][]byte"); ("maxNumLength", "int"); ("afterGenesis", "bool"); ("verifyMinimalData", "bool"); ("debug", "Debugger"); ("sh", "StateHandler")],
     "model/Interp.v stacks are lists of byte strings; model/Heap.v slices; number length / era / minimal-data come from the flags");
  ("interpreter", "thread", [("dstack", "stack"); ("astack", "stack"); ("elseStack", "boolStack"); ("cfg", "config"); ("debug", "Debugger"); ("state", "StateHandler"); ("scripts", "[]ParsedScript"); ("condStack", "[]int"); ("savedFirstStack", "[][]byte"); ("scriptParser", "OpcodeParser"); ("scriptIdx", "int"); ("scriptOff", "int"); ("lastCodeSep", "int"); ("tx", "*bt.Tx"); ("inputIdx", "int"); ("prevOutput", "*bt.Output"); ("numOps", "int"); ("flags", "scriptflag.Flag"); ("bip16", "bool"); ("afterGenesis", "bool"); ("earlyReturnAfterGenesis", "bool")],
     "model/Interp.v record st (dstack, astack, cond, else, scripts, sidx, off, last_sep, numops, flags, bip16, after_genesis, early_return, saved_first)");
  ("debug", "debugOpts", [("rewind", "bool")],
     "not modelled (rewind option of the debug helper)");
  ("debug", "debugger", [("beforeExecuteFns", "[]ThreadStateFunc"); ("afterExecuteFns", "[]ThreadStateFunc"); ("beforeStepFns", "[]ThreadStateFunc"); ("afterStepFns", "[]ThreadStateFunc"); ("beforeExecuteOpcodeFns", "[]ThreadStateFunc"); ("afterExecuteOpcodeFns", "[]ThreadStateFunc"); ("beforeScriptChangeFns", "[]ThreadStateFunc"); ("afterScriptChangeFns", "[]ThreadStateFunc"); ("afterSuccessFns", "[]ThreadStateFunc"); ("afterErrorFns", "[]ExecutionErrorFunc"); ("beforeStackPushFns", "[]StackFunc"); ("afterStackPushFns", "[]StackFunc"); ("beforeStackPopFns", "[]ThreadStateFunc"); ("afterStackPopFns", "[]StackFunc")],
     "model/Debug.v debugger D (one handler list per lifecycle event)");
  ("errs", "Error", [("ErrorCode", "ErrorCode"); ("Description", "string")],
     "error values are compared by class only");
  ("unlocker", "Getter", [("PrivateKey", "*bec.PrivateKey")],
     "model/Sign.v signer (key)");
  ("unlocker", "Simple", [("PrivateKey", "*bec.PrivateKey")],
     "model/Sign.v signer (key)");
  ("ord", "AcceptBid2DArgs", [("PSTx", "*bt.Tx"); ("SellerReceiveOrdinalScript", "*bscript.Script"); ("OrdinalUnlocker", "bt.Unlocker"); ("ExtraUTXOs", "[]*bt.UTXO")],
     "model/Ord.v arguments of the flow of the same name");
  ("ord", "AcceptBidArgs", [("PSTx", "*bt.Tx"); ("SellerReceiveScript", "*bscript.Script"); ("OrdinalUnlocker", "bt.Unlocker")],
     "model/Ord.v arguments of the flow of the same name");
  ("ord", "AcceptListingArgs", [("PSTx", "*bt.Tx"); ("UTXOs", "[]*bt.UTXO"); ("BuyerReceiveOrdinalScript", "*bscript.Script"); ("DummyOutputScript", "*bscript.Script"); ("ChangeScript", "*bscript.Script"); ("FQ", "*bt.FeeQuote")],
     "model/Ord.v arguments of the flow of the same name");
  ("ord", "ListOrdinalArgs", [("SellerReceiveOutput", "*bt.Output"); ("OrdinalUTXO", "*bt.UTXO"); ("OrdinalUnlocker", "bt.Unlocker")],
     "model/Ord.v arguments of the flow of the same name");
  ("ord", "MakeBid2DArgs", [("BidAmount", "uint64"); ("OrdinalTxID", "string"); ("OrdinalVOut", "uint32"); ("BidderUTXOs", "[]*bt.UTXO"); ("BuyerReceiveOrdinalScript", "*bscript.Script"); ("DummyOutputScript", "*bscript.Script"); ("ChangeScript", "*bscript.Script"); ("FQ", "*bt.FeeQuote")],
     "model/Ord.v arguments of the flow of the same name");
  ("ord", "MakeBidArgs", [("BidAmount", "uint64"); ("OrdinalTxID", "string"); ("OrdinalVOut", "uint32"); ("BidderUTXOs", "[]*bt.UTXO"); ("BuyerReceiveOrdinalScript", "*bscript.Script"); ("DummyOutputScript", "*bscript.Script"); ("ChangeScript", "*bscript.Script"); ("FQ", "*bt.FeeQuote")],
     "model/Ord.v arguments of the flow of the same name");
  ("ord", "ValidateBid2DArgs", [("PreviousUTXOs", "[]*bt.UTXO"); ("BidAmount", "uint64"); ("ExpectedFQ", "*bt.FeeQuote")],
     "model/Ord.v arguments of the flow of the same name");
  ("ord", "ValidateBidArgs", [("OrdinalUTXO", "*bt.UTXO"); ("BidAmount", "uint64"); ("ExpectedFQ", "*bt.FeeQuote")],
     "model/Ord.v arguments of the flow of the same name");
  ("ord", "ValidateListingArgs", [("ListedOrdinalUTXO", "*bt.UTXO")],
     "model/Ord.v arguments of the flow of the same name")
].

Definition field_eqb (a b : string * string) : bool := (fst a =? fst b) && (snd a =? snd b).
Fixpoint fields_eqb (a b : list (string * string)) : bool :=
  match a, b with
  | [], [] => true
  | x :: a', y :: b' => field_eqb x y && fields_eqb a' b'
  | _, _ => false
  end.

Definition key (p n : string) : string := p ++ "." ++ n.

Definition lookup_gen (gen : list sdef) (k : string) : option (list (string * string)) :=
  match find (fun d => let '(p, n, _) := d in key p n =? k) gen with
  | Some (_, _, f) => Some f | None => None end.
Definition lookup_model (k : string) : option (list (string * string)) :=
  match find (fun d => let '(p, n, _, _) := d in key p n =? k) modelled with
  | Some (_, _, f, _) => Some f | None => None end.

(** the struct named [k] exists in both tables with the same fields *)
Definition same_struct (gen : list sdef) (k : string) : bool :=
  match lookup_gen gen k, lookup_model k with
  | Some f, Some g => fields_eqb f g
  | _, _ => false
  end.

(** which structs the model of each property represents *)
Definition groups : list (string * list string) := [
  ("C01", ["bt.Tx"; "bt.Input"; "bt.Output"]);
  ("C02", ["bt.Tx"; "bt.Input"; "bt.Output"]);
  ("C03", ["bt.Tx"; "bt.Input"; "bt.Output"]);
  ("C04", ["unlocker.Simple"; "unlocker.Getter"; "bt.UnlockerParams"; "bt.Tx"; "bt.Input"; "bt.Output"]);
  ("C05", ["interpreter.thread"; "interpreter.stack"; "interpreter.scriptNumber"; "interpreter.ParsedOpcode"; "interpreter.opcode"; "interpreter.execOpts"; "interpreter.DefaultOpcodeParser"; "interpreter.beforeGenesisConfig"; "interpreter.afterGenesisConfig"; "interpreter.nopBoolStack"]);
  ("C06", ["interpreter.thread"; "interpreter.stack"; "interpreter.parsedSigInfo"; "interpreter.ParsedOpcode"; "bt.Tx"; "bt.Input"; "bt.Output"]);
  ("C07", ["interpreter.thread"; "interpreter.stack"; "interpreter.execOpts"; "interpreter.engine"; "interpreter.State"; "interpreter.ParsedOpcode"]);
  ("C08", ["interpreter.thread"; "interpreter.stack"; "interpreter.scriptNumber"; "interpreter.ParsedOpcode"; "bt.Tx"; "bt.Input"; "bt.Output"]);
  ("C09", ["bt.Tx"; "bt.Input"; "bt.Output"; "bt.UTXO"; "bt.txJSON"; "bt.inputJSON"; "bt.outputJSON"; "bt.nodeTxJSON"; "bt.nodeInputJSON"; "bt.nodeOutputJSON"; "bt.utxoJSON"; "bt.utxoNodeJSON"; "bt.nodeTxWrapper"; "bt.nodeOutputWrapper"; "bt.nodeUTXOWrapper"]);
  ("C10", ["bt.Tx"; "bt.Input"; "bt.Output"; "bt.changeOutput"; "bt.FeeQuote"; "bt.Fee"; "bt.FeeUnit"; "bt.TxSize"; "bt.TxFees"]);
  ("C11", ["bt.Tx"; "bt.Input"; "bt.Output"; "bt.FeeQuote"; "bt.Fee"; "bt.FeeUnit"; "bt.TxSize"; "bt.TxFees"]);
  ("C12", ["bt.Tx"; "bt.Input"; "bt.Output"; "bt.UTXO"; "bt.FeeQuote"; "bt.Fee"; "bt.FeeUnit"]);
  ("C13", ["interpreter.ParsedOpcode"; "interpreter.DefaultOpcodeParser"; "interpreter.opcode"]);
  ("C14", ["bscript.InscriptionArgs"; "bscript.EnrichedInscriptionArgs"; "bscript.Address"]);
  ("C15", ["bscript.Address"]);
  ("C16", ["bt.Tx"; "bt.Input"; "bt.Output"; "bt.UTXO"; "bt.txJSON"; "bt.inputJSON"; "bt.outputJSON"; "bt.nodeTxJSON"; "bt.nodeInputJSON"; "bt.nodeOutputJSON"; "bt.utxoJSON"; "bt.utxoNodeJSON"; "bt.nodeTxWrapper"; "bt.nodeOutputWrapper"; "bt.nodeUTXOWrapper"]);
  ("C17", ["bscript.BIP276"]);
  ("C18", ["bt.FeeQuotes"; "bt.FeeQuote"; "bt.Fee"; "bt.FeeUnit"; "interpreter.engine"; "interpreter.thread"; "interpreter.execOpts"]);
  ("C19", ["interpreter.State"; "interpreter.thread"; "interpreter.stack"; "debug.debugger"; "debug.debugOpts"; "interpreter.nopDebugger"; "interpreter.nopStateHandler"]);
  ("C20", ["ord.ListOrdinalArgs"; "ord.ValidateListingArgs"; "ord.AcceptListingArgs"; "ord.MakeBidArgs"; "ord.ValidateBidArgs"; "ord.AcceptBidArgs"; "ord.MakeBid2DArgs"; "ord.ValidateBid2DArgs"; "ord.AcceptBid2DArgs"; "bscript.InscriptionArgs"; "bscript.EnrichedInscriptionArgs"; "bt.UTXO"; "bt.Tx"; "bt.Input"; "bt.Output"])
].

Definition group_of (pid : string) : list string :=
  match find (fun g => fst g =? pid) groups with Some g => snd g | None => [] end.

Definition inventory_ok (gen : list sdef) (pid : string) : bool :=
  negb (match group_of pid with [] => true | _ => false end) && forallb (same_struct gen) (group_of pid).

(** every struct of the regenerated table is known to [modelled] (no new struct type) *)
Definition no_unknown_struct (gen : list sdef) : bool :=
  forallb (fun d => let '(p, n, _) := d in match lookup_model (key p n) with Some _ => true | None => false end) gen.

Lemma fields_eqb_eq : forall a b, fields_eqb a b = true -> a = b.
Proof.
  induction a as [|[x1 x2] a IH]; destruct b as [|[y1 y2] b]; cbn; intros H; try discriminate; auto.
  apply andb_prop in H as [H1 H2]. unfold field_eqb in H1. cbn in H1. apply andb_prop in H1 as [Ha Hb].
  apply String.eqb_eq in Ha, Hb. subst. f_equal. auto.
Qed.

Lemma inventory_ok_spec : forall gen pid, inventory_ok gen pid = true ->
  forall k, In k (group_of pid) -> exists f, lookup_gen gen k = Some f /\ lookup_model k = Some f.
Proof.
  intros gen pid H k Hk. unfold inventory_ok in H. apply andb_prop in H as [_ H].
  rewrite forallb_forall in H. specialize (H k Hk). unfold same_struct in H.
  destruct (lookup_gen gen k) as [f|]; [|discriminate]. destruct (lookup_model k) as [g|]; [|discriminate].
  apply fields_eqb_eq in H. subst. eauto.
Qed.

(* ------------------------------------------------------------------------------------------ *)
(** * Package-level state (gen/Globals.v, regenerated by harness/gen/globals.go)

    The models of the codec, digest, fee, script and address functions are FUNCTIONS: the same arguments give the
    same result, whatever was computed before and whatever other goroutines do.  That is true of the Go code only
    if no package-level variable of the packages involved can change after initialisation (a shared serialisation
    buffer, a "zero hash" constant that is written through, a package-level hasher, a memo table).  The scan
    classifies every package-level variable (mutated after init / a reference to it handed out); [pkg_state_ok]
    asks that none of the packages a property's code lives in has such a variable. *)
Definition rawglobal := (string * string * string * bool * bool * string)%type.
Definition rg_pkg (g : rawglobal) : string := let '(p, _, _, _, _, _) := g in p.
Definition rg_mutated (g : rawglobal) : bool := let '(_, _, _, m, _, _) := g in m.
Definition rg_escapes (g : rawglobal) : bool := let '(_, _, _, _, e, _) := g in e.

Definition packages : list (string * list string) := [
  ("C01", ["bt"; "bscript"]); ("C02", ["bt"; "bscript"; "sighash"]); ("C03", ["bt"; "bscript"; "sighash"]);
  ("C04", ["bt"; "bscript"; "sighash"; "unlocker"; "interpreter"; "errs"; "scriptflag"]);
  ("C05", ["interpreter"; "errs"; "scriptflag"; "bscript"; "bt"; "sighash"]);
  ("C06", ["interpreter"; "errs"; "scriptflag"; "bscript"; "bt"; "sighash"]);
  ("C07", ["interpreter"; "errs"; "scriptflag"; "bscript"; "bt"; "sighash"; "debug"]);
  ("C08", ["interpreter"; "errs"; "scriptflag"; "bscript"; "bt"; "sighash"]);
  ("C09", ["bt"; "bscript"]); ("C10", ["bt"; "bscript"]); ("C11", ["bt"; "bscript"]); ("C12", ["bt"; "bscript"]);
  ("C13", ["bscript"; "interpreter"; "errs"]); ("C14", ["bscript"; "bt"]); ("C15", ["bscript"; "bt"]);
  ("C16", ["bt"; "bscript"]); ("C17", ["bscript"]);
  ("C18", ["bt"; "interpreter"; "errs"; "scriptflag"; "bscript"; "sighash"]);
  ("C19", ["interpreter"; "errs"; "scriptflag"; "bscript"; "bt"; "sighash"; "debug"]);
  ("C20", ["ord"; "bt"; "bscript"; "sighash"; "unlocker"; "interpreter"; "errs"; "scriptflag"])
].
Definition packages_of (pid : string) : list string :=
  match find (fun g => fst g =? pid) packages with Some g => snd g | None => [] end.

Definition pkg_state_ok (gl : list rawglobal) (pid : string) : bool :=
  negb (match gl with [] => true | _ => false end) &&
  negb (match packages_of pid with [] => true | _ => false end) &&
  forallb (fun g => negb (existsb (String.eqb (rg_pkg g)) (packages_of pid)) || (negb (rg_mutated g) && negb (rg_escapes g))) gl.

Lemma pkg_state_ok_spec : forall gl pid, pkg_state_ok gl pid = true ->
  forall g, In g gl -> In (rg_pkg g) (packages_of pid) -> rg_mutated g = false /\ rg_escapes g = false.
Proof.
  intros gl pid H g Hg Hp. unfold pkg_state_ok in H. apply andb_prop in H as [_ H].
  rewrite forallb_forall in H. specialize (H g Hg). apply orb_prop in H as [H|H].
  - apply negb_true_iff in H. exfalso. assert (E : existsb (String.eqb (rg_pkg g)) (packages_of pid) = true).
    { apply existsb_exists. exists (rg_pkg g). split; [exact Hp | apply String.eqb_refl]. }
    congruence.
  - apply andb_prop in H as [H1 H2]. apply negb_true_iff in H1, H2. auto.
Qed.

(** property identifiers as constants (the theorem files open various notation scopes) *)
Definition pC01 : string := "C01".
Definition pC02 : string := "C02".
Definition pC03 : string := "C03".
Definition pC04 : string := "C04".
Definition pC05 : string := "C05".
Definition pC06 : string := "C06".
Definition pC07 : string := "C07".
Definition pC08 : string := "C08".
Definition pC09 : string := "C09".
Definition pC10 : string := "C10".
Definition pC11 : string := "C11".
Definition pC12 : string := "C12".
Definition pC13 : string := "C13".
Definition pC14 : string := "C14".
Definition pC15 : string := "C15".
Definition pC16 : string := "C16".
Definition pC17 : string := "C17".
Definition pC18 : string := "C18".
Definition pC19 : string := "C19".
Definition pC20 : string := "C20".
