(** Model of go-bt's signature-hash code, in the shape of the Go source:
    signaturehash.go (sigStrat, CalcInputSignatureHash, CalcInputPreimage, CalcInputPreimageLegacy,
    OutputsHash), txinput.go (PreviousOutHash, SequenceHash), output.go (BytesForSigHash),
    sighash/flag.go (Has, HasWithMask, the flag constants), tx.go (InputIdx, Clone).

    Every function returns the result AND the post-state of the caller's transaction, so that
    "computing the hash leaves the transaction unchanged" is a statement about the model (and is
    compared with the real post-state by the correspondence).  Go integer conversions that could
    wrap (uint32(len), int32(inputNumber), inputNumber+1 on uint32) are written out; slice/index
    expressions and nil dereferences that Go would panic on yield [SPanic]; log.Fatal in Clone
    yields [SFatal]. *)
From Coq Require Import List NArith ZArith Lia Bool.
From Coq Require Import Strings.Byte.
From GoBT Require Import lib.Bytes lib.Parse lib.VarInt lib.Sha256 model.Tx.
Import ListNotations.
Local Open Scope N_scope.

(** ** sighash/flag.go *)
Definition sh_all : N := 1.
Definition sh_none : N := 2.
Definition sh_single : N := 3.
Definition sh_anyonecanpay : N := 128.
Definition sh_forkid : N := 64.
Definition sh_mask : N := 31.

(** Flag.Has: f&shf == shf;  Flag.HasWithMask: f&Mask == shf *)
Definition flag_has (f shf : N) : bool := N.land f shf =? shf.
Definition flag_has_with_mask (f shf : N) : bool := N.land f sh_mask =? shf.

(** ** outcomes *)
Inductive sig_err := ErrInputNoExist | ErrEmptyPreviousTxID | ErrEmptyPreviousTxScript.
Inductive sres :=
| SOk (b : bytes)
| SErr (e : sig_err)
| SPanic            (* index / slice bounds / nil dereference *)
| SFatal            (* log.Fatal in Tx.Clone: re-parsing the tx's own bytes failed *)
| SFuel.            (* model artefact of the decoder inside Clone; proved unreachable *)

(** defaultHex: 1 as a little-endian 256-bit number *)
Definition default_hex : bytes := x01 :: repeat_byte 31 x00.
Definition zero32 : bytes := repeat_byte 32 x00.      (* make([]byte, 32) *)

(** ** small Go primitives *)
(** l[i] for an index held in an N (never converts a large N to nat) *)
Fixpoint nthN {A} (l : list A) (i : N) : option A :=
  match l with
  | [] => None
  | x :: r => if i =? 0 then Some x else nthN r (i - 1)
  end.

(** for j, x := range l { ... f j x ... } producing the updated slice *)
Fixpoint mapi_from {A B} (f : N -> A -> B) (k : N) (l : list A) : list B :=
  match l with
  | [] => []
  | x :: r => f k x :: mapi_from f (k + 1) r
  end.
Definition mapi {A B} (f : N -> A -> B) (l : list A) : list B := mapi_from f 0 l.

Definition uint32_of_len {A} (l : list A) : N := N.of_nat (length l) mod two32.   (* uint32(len(l)) *)
Definition int32_of_uint32 (v : N) : Z :=                                           (* int32(v) *)
  if v <? 2147483648 then Z.of_N v else (Z.of_N v - 4294967296)%Z.

(** Tx.InputIdx(int(i)): nil when i > InputCount()-1 (signed comparison: InputCount()-1 may be -1) *)
Definition input_idx (t : tx) (i : N) : option input :=
  if (Z.of_N i >? Z.of_nat (length (tx_ins t)) - 1)%Z then None else nthN (tx_ins t) i.

(** ** txinput.go / output.go *)
Definition previous_out_hash (t : tx) : bytes :=
  sha256d (concat (map (fun i => rev (in_txid i) ++ le_enc 4 (in_vout i)) (tx_ins t))).

Definition sequence_hash (t : tx) : bytes :=
  sha256d (concat (map (fun i => le_enc 4 (in_seq i)) (tx_ins t))).

Definition bytes_for_sighash (o : output) : bytes :=
  le_enc 8 (out_sats o) ++ varint_bytes (lenN (out_script o)) ++ out_script o.

(** Tx.OutputsHash(n int32): all outputs when n == -1, else tx.Outputs[n] (None = index panic) *)
Definition outputs_hash (t : tx) (n : Z) : option bytes :=
  if (n =? -1)%Z then Some (sha256d (concat (map bytes_for_sighash (tx_outs t))))
  else if (n <? 0)%Z then None
  else match nthN (tx_outs t) (Z.to_N n) with
       | Some o => Some (sha256d (bytes_for_sighash o))
       | None => None
       end.

(** ** CalcInputPreimage (FORKID digest) *)
Definition calc_input_preimage (t : tx) (i ht : N) : sres * tx :=
  match input_idx t i with
  | None => (SErr ErrInputNoExist, t)
  | Some inp =>
    if (length (in_txid inp) =? 0)%nat then (SErr ErrEmptyPreviousTxID, t) else
    match in_script inp with
    | None => (SErr ErrEmptyPreviousTxScript, t)
    | Some sc =>
      let no_acp := N.land ht sh_anyonecanpay =? 0 in
      let base := N.land ht 31 in
      let not_single := negb (base =? sh_single) in
      let not_none := negb (base =? sh_none) in
      let hash_prevouts := if no_acp then previous_out_hash t else zero32 in
      let hash_sequence := if no_acp && not_single && not_none then sequence_hash t else zero32 in
      let hash_outputs :=
        if not_single && not_none then outputs_hash t (-1)
        else if (base =? sh_single) && (i <? uint32_of_len (tx_outs t)) then outputs_hash t (int32_of_uint32 i)
        else Some zero32 in
      match hash_outputs with
      | None => (SPanic, t)
      | Some ho =>
        (SOk (le_enc 4 (tx_version t) ++ hash_prevouts ++ hash_sequence ++
              rev (in_txid inp) ++ le_enc 4 (in_vout inp) ++
              varint_bytes (lenN sc) ++ sc ++
              le_enc 8 (in_sats inp) ++ le_enc 4 (in_seq inp) ++
              ho ++ le_enc 4 (tx_lock t) ++ le_enc 4 ht), t)
      end
    end
  end.

(** ** CalcInputPreimageLegacy *)
Definition set_prev_script (inp : input) (s : option bytes) : input :=
  mkInput (in_txid inp) (in_vout inp) (in_unlock inp) (in_seq inp) (in_sats inp) s.
Definition blank_input (inp : input) : input :=        (* UnlockingScript = &Script{}; PreviousTxScript = &Script{} *)
  mkInput (in_txid inp) (in_vout inp) [] (in_seq inp) (in_sats inp) (Some []).
Definition zero_seq (inp : input) : input :=
  mkInput (in_txid inp) (in_vout inp) (in_unlock inp) 0 (in_sats inp) (in_script inp).

(** the hand-written serialisation loop at the end of CalcInputPreimageLegacy; *in.PreviousTxScript
    is a dereference (None = nil pointer panic) *)
Fixpoint legacy_inputs_bytes (ins : list input) : option bytes :=
  match ins with
  | [] => Some []
  | inp :: r =>
      match in_script inp, legacy_inputs_bytes r with
      | Some s, Some rest =>
          Some (rev (in_txid inp) ++ le_enc 4 (in_vout inp) ++ varint_bytes (lenN s) ++ s ++
                le_enc 4 (in_seq inp) ++ rest)
      | _, _ => None
      end
  end.
Definition legacy_output_bytes (o : output) : bytes :=
  le_enc 8 (out_sats o) ++ varint_bytes (lenN (out_script o)) ++ out_script o.

Definition max_u64 : N := 18446744073709551615.

Definition calc_input_preimage_legacy (t : tx) (i ht : N) : sres * tx :=
  match input_idx t i with
  | None => (SErr ErrInputNoExist, t)
  | Some inp =>
    if (length (in_txid inp) =? 0)%nat then (SErr ErrEmptyPreviousTxID, t) else
    match in_script inp with
    | None => (SErr ErrEmptyPreviousTxScript, t)
    | Some _ =>
      (* shf.HasWithMask(Single) && int(inputNumber) > len(tx.Outputs)-1 *)
      if flag_has_with_mask ht sh_single && (Z.of_N i >? Z.of_nat (length (tx_outs t)) - 1)%Z
      then (SOk default_hex, t) else
      match clone t with
      | RErr => (SFatal, t)
      | RFuel => (SFuel, t)
      | ROk cp =>
        (* all writes below go to the clone [cp]; the caller's [t] is only read *)
        let ins1 := mapi (fun j x => if j =? i then set_prev_script x (in_script inp) else blank_input x)
                         (tx_ins cp) in
        let zero_others := mapi (fun j x => if negb (j =? i) then zero_seq x else x) in
        let next := (i + 1) mod two32 in                       (* inputNumber+1 on uint32 *)
        let edited : option (list input * list output) :=
          if flag_has_with_mask ht sh_none then Some (zero_others ins1, [])
          else if flag_has_with_mask ht sh_single then
            (* txCopy.Outputs[:inputNumber+1], then Outputs[j] for every j < inputNumber *)
            if (N.of_nat (length (tx_outs cp)) <? next) || (next <? i) then None
            else Some (zero_others ins1,
                       mapi (fun j o => if j <? i then mkOutput max_u64 [] else o)
                            (firstn (N.to_nat next) (tx_outs cp)))
          else Some (ins1, tx_outs cp) in
        match edited with
        | None => (SPanic, t)
        | Some (ins2, outs2) =>
          let ins3 : option (list input) :=
            if negb (N.land ht sh_anyonecanpay =? 0) then
              (* txCopy.Inputs[inputNumber : inputNumber+1] *)
              if (next <? i) || (N.of_nat (length ins2) <? next) then None
              else Some (firstn (N.to_nat (next - i)) (skipn (N.to_nat i) ins2))
            else Some ins2 in
          match ins3 with
          | None => (SPanic, t)
          | Some ins3 =>
            match legacy_inputs_bytes ins3 with
            | None => (SPanic, t)
            | Some ib =>
              (SOk (le_enc 4 (tx_version t) ++
                    varint_bytes (N.of_nat (length ins3)) ++ ib ++
                    varint_bytes (N.of_nat (length outs2)) ++ concat (map legacy_output_bytes outs2) ++
                    le_enc 4 (tx_lock t) ++ le_enc 4 ht), t)
            end
          end
        end
      end
    end
  end.

(** ** sigStrat + CalcInputSignatureHash *)
Definition calc_input_signature_hash (t : tx) (i ht : N) : sres * tx :=
  let '(r, t') := if flag_has ht sh_forkid then calc_input_preimage t i ht
                  else calc_input_preimage_legacy t i ht in
  match r with
  | SOk buf => if bytes_eqb default_hex buf then (SOk buf, t') else (SOk (sha256d buf), t')
  | other => (other, t')
  end.
