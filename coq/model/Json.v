(** JSON interchange: value-level halves of the library dialect (txjson.go, utxojson.go: hex
    shortcut) and of the node dialect (txjson_node.go, utxojson.go: vin/vout objects, amounts as
    float64 coin values).

    encoding/json and strconv sit BETWEEN the halves and are trusted oracles: the marshal half ends
    at the Go struct handed to json.Marshal (txJSON, inputJSON, outputJSON, nodeTxJSON, ...), the
    unmarshal half starts at the struct json.Unmarshal filled in.  Trusted about them: a struct
    printed and re-read comes back field for field - strings and unsigned integers exactly, and a
    float64 exactly as well, because strconv prints the shortest decimal that ParseFloat maps
    back to the same binary64 value.  Documents json.Unmarshal itself rejects (mistyped fields)
    never reach the code modelled here.

    Pointers that may be nil are [option]; dereferencing is the checked primitive [deref], which
    yields [JPanic] on nil - so "does not panic" is a statement about these functions.  Used for
    C09 (struct-level decoding of arbitrary documents never panics) and C16 (round trips). *)
From Coq Require Import List NArith String Bool.
From Coq Require Import Strings.Byte.
From GoBT Require Import lib.Bytes lib.Hex lib.Parse lib.VarInt lib.Sha256 model.Tx model.Amount.
Import ListNotations.
Local Open Scope N_scope.

Inductive jres (A : Type) := JOk (a : A) | JErr | JPanic.
Arguments JOk {A}. Arguments JErr {A}. Arguments JPanic {A}.

Definition jbind {A B} (r : jres A) (f : A -> jres B) : jres B :=
  match r with JOk a => f a | JErr => JErr | JPanic => JPanic end.

(** for _, x := range xs { y, err := f(x); if err != nil { return err }; ys = append(ys, y) } *)
Fixpoint jmapM {A B} (f : A -> jres B) (l : list A) : jres (list B) :=
  match l with
  | [] => JOk []
  | x :: r => jbind (f x) (fun y => jbind (jmapM f r) (fun ys => JOk (y :: ys)))
  end.

(** *p *)
Definition deref {A} (p : option A) : jres A := match p with Some a => JOk a | None => JPanic end.
Definition is_nil {A} (p : option A) : bool := match p with Some _ => false | None => true end.

(** ** Go-level values: scripts are *bscript.Script and may be nil *)
Record ginput := mkGInput {
  gi_txid : bytes; gi_vout : N; gi_unlock : option bytes; gi_seq : N; gi_sats : N; gi_script : option bytes }.
Record goutput := mkGOutput { go_sats : N; go_lock : option bytes }.
Record gtx := mkGTx { g_version : N; g_ins : list ginput; g_outs : list goutput; g_lock : N }.
Record gutxo := mkGUtxo { u_txid : bytes; u_vout : N; u_lock : option bytes; u_sats : N; u_seq : N }.

Definition script_or_empty (s : option bytes) : bytes := match s with Some b => b | None => [] end.

(** Script.String(): "" for a nil receiver (the repaired behaviour), else hex *)
Definition script_string (s : option bytes) : string := hex_of (script_or_empty s).

(** Input.Bytes handles a nil UnlockingScript; Output.Bytes dereferences *o.LockingScript *)
Definition input_of (i : ginput) : input :=
  mkInput (gi_txid i) (gi_vout i) (script_or_empty (gi_unlock i)) (gi_seq i) (gi_sats i) (gi_script i).
Definition output_of (o : goutput) : jres output :=
  jbind (deref (go_lock o)) (fun s => JOk (mkOutput (go_sats o) s)).
Definition tx_of (g : gtx) : jres tx :=
  jbind (jmapM output_of (g_outs g)) (fun outs =>
  JOk (mkTx (g_version g) (map input_of (g_ins g)) outs (g_lock g))).
(** tx.Bytes() *)
Definition gtx_bytes (g : gtx) : jres bytes := jbind (tx_of g) (fun t => JOk (tx_bytes false t)).

(** what the binary decoder produces: every script pointer set (NewFromBytes) *)
Definition ginput_of_parsed (i : input) : ginput :=
  mkGInput (in_txid i) (in_vout i) (Some (in_unlock i)) (in_seq i) (in_sats i) (in_script i).
Definition goutput_of_parsed (o : output) : goutput := mkGOutput (out_sats o) (Some (out_script o)).
Definition gtx_of_tx (t : tx) : gtx :=
  mkGTx (tx_version t) (map ginput_of_parsed (tx_ins t)) (map goutput_of_parsed (tx_outs t)) (tx_lock t).

(** NewTxFromString: hex.DecodeString, then NewTxFromBytes.  The fuel artefact of the decoder
    model is mapped to JPanic so that the no-panic theorem has to exclude it. *)
Definition tx_from_hex (s : string) : jres gtx :=
  match hexdecode s with
  | None => JErr
  | Some b =>
      match tx_from_bytes b with
      | ROk p => JOk (gtx_of_tx (p_tx p))
      | RErr => JErr
      | RFuel => JPanic
      end
  end.

(** bscript.NewFromHexString / hex.DecodeString *)
Definition from_hex (s : string) : jres bytes :=
  match hexdecode s with Some b => JOk b | None => JErr end.

(** ** Library dialect (txjson.go, utxojson.go) *)
Record input_j := mkInputJ { ij_unlock : string; ij_txid : string; ij_vout : N; ij_seq : N }.
Record output_j := mkOutputJ { oj_sats : N; oj_lock : string }.
Record tx_j := mkTxJ {
  tj_txid : string; tj_hex : string;
  tj_ins : list (option input_j);     (* []*Input: a JSON null element stays a nil pointer *)
  tj_outs : list (option output_j);
  tj_version : N; tj_lock : N }.
Record utxo_j := mkUtxoJ { uj_txid : string; uj_vout : N; uj_lock : string; uj_sats : N }.

(** Input.MarshalJSON *)
Definition marshal_input (i : ginput) : jres input_j :=
  JOk (mkInputJ (script_string (gi_unlock i)) (hex_of (gi_txid i)) (gi_vout i) (gi_seq i)).
(** Output.MarshalJSON: LockingScriptHexString = hex.EncodeToString( *o.LockingScript ) *)
Definition marshal_output (o : goutput) : jres output_j :=
  jbind (deref (go_lock o)) (fun s => JOk (mkOutputJ (go_sats o) (hex_of s))).
(** Tx.MarshalJSON: TxID and Hex are computed first (tx.Bytes()), then encoding/json calls the
    element marshallers *)
Definition marshal_tx (g : gtx) : jres tx_j :=
  jbind (gtx_bytes g) (fun b =>
  jbind (jmapM marshal_input (g_ins g)) (fun ins =>
  jbind (jmapM marshal_output (g_outs g)) (fun outs =>
  JOk (mkTxJ (hex_of (rev (sha256d b))) (hex_of b) (map Some ins) (map Some outs) (g_version g) (g_lock g))))).

(** Input.UnmarshalJSON (into a fresh Input) *)
Definition unmarshal_input (j : input_j) : jres ginput :=
  jbind (from_hex (ij_txid j)) (fun t =>
  jbind (from_hex (ij_unlock j)) (fun s =>
  JOk (mkGInput t (ij_vout j) (Some s) (ij_seq j) 0 None))).
(** Output.UnmarshalJSON *)
Definition unmarshal_output (j : output_j) : jres goutput :=
  jbind (from_hex (oj_lock j)) (fun s => JOk (mkGOutput (oj_sats j) (Some s))).

Definition on_elem {A B} (f : A -> jres B) (x : option A) : jres (option B) :=
  match x with None => JOk None | Some a => jbind (f a) (fun b => JOk (Some b)) end.

(** Tx.UnmarshalJSON.  encoding/json has already run Input/Output.UnmarshalJSON on every non-null
    element of "inputs"/"outputs" (an error there aborts); the method itself then uses only hex,
    version and lockTime: without a hex string the decoded inputs and outputs are dropped. *)
Definition unmarshal_tx (prev : gtx) (j : tx_j) : jres gtx :=
  jbind (jmapM (on_elem unmarshal_input) (tj_ins j)) (fun _ =>
  jbind (jmapM (on_elem unmarshal_output) (tj_outs j)) (fun _ =>
  if String.eqb (tj_hex j) "" then JOk (mkGTx (tj_version j) (g_ins prev) (g_outs prev) (tj_lock j))
  else tx_from_hex (tj_hex j))).

(** UTXO.MarshalJSON / UnmarshalJSON (SequenceNumber and Unlocker are not part of the document) *)
Definition marshal_utxo (u : gutxo) : jres utxo_j :=
  JOk (mkUtxoJ (hex_of (u_txid u)) (u_vout u) (script_string (u_lock u)) (u_sats u)).
Definition unmarshal_utxo (prev : gutxo) (j : utxo_j) : jres gutxo :=
  jbind (from_hex (uj_txid j)) (fun t =>
  jbind (from_hex (uj_lock j)) (fun s =>
  JOk (mkGUtxo t (uj_vout j) (Some s) (uj_sats j) (u_seq prev)))).

(** ** Node dialect (txjson_node.go, utxojson.go) *)
Record scriptsig_j := mkSS { ss_asm : string; ss_hex : string }.
Record node_input_j := mkNI { ni_scriptsig : option scriptsig_j; ni_txid : string; ni_vout : N; ni_seq : N }.
Record spk_j := mkSPK { spk_asm : string; spk_hex : string; spk_reqsigs : N; spk_type : string }.
Record node_output_j := mkNO { no_value : f64; no_n : N; no_spk : option spk_j }.
Record node_tx_j := mkNT {
  nt_version : N; nt_lock : N; nt_txid : string; nt_hash : string; nt_size : N; nt_hex : string;
  nt_vin : list (option node_input_j); nt_vout : list (option node_output_j) }.
Record utxo_node_j := mkUtxoN { un_txid : string; un_vout : N; un_spk : string; un_amount : f64 }.

(** nodeOutputJSON.toOutput *)
Definition to_output (o : option node_output_j) : jres goutput :=
  (* if o == nil || o.ScriptPubKey == nil { return nil, errors.New(...) } *)
  if is_nil o then JErr else
  jbind (deref o) (fun o' =>
  if is_nil (no_spk o') then JErr else
  jbind (deref (no_spk o')) (fun spk =>
  jbind (from_hex (spk_hex spk)) (fun s =>
  JOk (mkGOutput (to_sat (no_value o')) (Some s))))).

(** nodeInputJSON.toInput; PreviousTxIDAddStr: hex, then exactly 32 bytes *)
Definition to_input (i : option node_input_j) : jres ginput :=
  if is_nil i then JErr else
  jbind (deref i) (fun i' =>
  if is_nil (ni_scriptsig i') then JErr else
  jbind (deref (ni_scriptsig i')) (fun ss =>
  jbind (from_hex (ss_hex ss)) (fun s =>
  jbind (from_hex (ni_txid i')) (fun t =>
  if Nat.eqb (List.length t) 32 then JOk (mkGInput t (ni_vout i') (Some s) (ni_seq i') 0 None)
  else JErr)))).

(** nodeTxWrapper.UnmarshalJSON *)
Definition node_unmarshal_tx (prev : gtx) (j : node_tx_j) : jres gtx :=
  if negb (String.eqb (nt_hex j) "") then tx_from_hex (nt_hex j) else
  jbind (jmapM to_output (nt_vout j)) (fun outs =>
  jbind (jmapM to_input (nt_vin j)) (fun ins =>
  JOk (mkGTx (nt_version j) ins outs (nt_lock j)))).

(** nodeOutputWrapper.UnmarshalJSON: oj may be nil (JSON null) *)
Definition node_unmarshal_output (j : option node_output_j) : jres goutput := to_output j.

(** nodeUTXOWrapper.MarshalJSON / UnmarshalJSON *)
Definition node_marshal_utxo (u : gutxo) : jres utxo_node_j :=
  JOk (mkUtxoN (hex_of (u_txid u)) (u_vout u) (script_string (u_lock u)) (of_sat (u_sats u))).
Definition node_unmarshal_utxo (prev : gutxo) (j : utxo_node_j) : jres gutxo :=
  jbind (from_hex (un_txid j)) (fun t =>
  jbind (from_hex (un_spk j)) (fun s =>
  JOk (mkGUtxo t (un_vout j) (Some s) (to_sat (un_amount j)) (u_seq prev)))).

(** NewTx() and the zero UTXO: what the list wrappers unmarshal each element into *)
Definition new_tx : gtx := mkGTx 1 [] [] 0.
Definition zero_utxo : gutxo := mkGUtxo [] 0 None 0 0.

(** nodeTxsWrapper / nodeUTXOsWrapper / plain slices: element-wise, the first error aborts *)
Definition node_unmarshal_txs (l : list node_tx_j) : jres (list gtx) := jmapM (node_unmarshal_tx new_tx) l.
Definition node_unmarshal_utxos (l : list utxo_node_j) : jres (list gutxo) := jmapM (node_unmarshal_utxo zero_utxo) l.
Definition unmarshal_txs (l : list tx_j) : jres (list gtx) := jmapM (unmarshal_tx (mkGTx 0 [] [] 0)) l.
Definition unmarshal_utxos (l : list utxo_j) : jres (list gutxo) := jmapM (unmarshal_utxo zero_utxo) l.
Definition marshal_txs (l : list gtx) : jres (list tx_j) := jmapM marshal_tx l.
Definition marshal_utxos (l : list gutxo) : jres (list utxo_j) := jmapM marshal_utxo l.
Definition node_marshal_utxos (l : list gutxo) : jres (list utxo_node_j) := jmapM node_marshal_utxo l.

(** ** Node marshalling needs bscript's ToASM / Addresses / ScriptType on the script bytes.  They
    are not part of this property (C13/C14 are about them): an oracle giving (asm, reqSigs, type),
    an error, or a panic.  None of the three values is read back by the unmarshal half. *)
Section NodeMarshal.
Variable script_info : bytes -> jres (string * N * string).

(** nodeOutputJSON.fromOutput: ToASM is nil-safe, Addresses()/IsP2PKH dereference the script *)
Definition from_output (idx : N) (o : goutput) : jres node_output_j :=
  jbind (deref (go_lock o)) (fun s =>
  jbind (script_info s) (fun info =>
  JOk (mkNO (of_sat (go_sats o)) idx
         (Some (mkSPK (fst (fst info)) (hex_of s) (snd (fst info)) (snd info)))))).

(** nodeInputJSON.fromInput: ToASM and String are nil-safe *)
Definition from_input (i : ginput) : jres node_input_j :=
  jbind (match gi_unlock i with None => JOk EmptyString
         | Some s => jbind (script_info s) (fun info => JOk (fst (fst info))) end) (fun asm =>
  JOk (mkNI (Some (mkSS asm (script_string (gi_unlock i)))) (hex_of (gi_txid i)) (gi_vout i) (gi_seq i))).

Fixpoint from_outputs (idx : N) (l : list goutput) : jres (list node_output_j) :=
  match l with
  | [] => JOk []
  | o :: r => jbind (from_output idx o) (fun y => jbind (from_outputs (idx + 1) r) (fun ys => JOk (y :: ys)))
  end.

(** nodeTxWrapper.MarshalJSON: outputs, inputs, then TxID / Size / Hex from tx.Bytes() *)
Definition node_marshal_tx (g : gtx) : jres node_tx_j :=
  jbind (from_outputs 0 (g_outs g)) (fun outs =>
  jbind (jmapM from_input (g_ins g)) (fun ins =>
  jbind (gtx_bytes g) (fun b =>
  let id := hex_of (rev (sha256d b)) in
  JOk (mkNT (g_version g) (g_lock g) id id (lenN b) (hex_of b) (map Some ins) (map Some outs))))).

Definition node_marshal_output (o : goutput) : jres node_output_j := from_output 0 o.
Definition node_marshal_txs (l : list gtx) : jres (list node_tx_j) := jmapM node_marshal_tx l.
End NodeMarshal.

(** ** well-formedness of what the library builds or decodes: locking scripts are never nil
    (every constructor and decoder sets them); unlocking scripts may be (tx.From before signing) *)
Definition wf_goutput (o : goutput) : Prop := go_lock o <> None.
Definition outs_set (g : gtx) : Prop := Forall wf_goutput (g_outs g).
Definition plain_tx (g : gtx) : tx :=
  mkTx (g_version g) (map input_of (g_ins g))
       (map (fun o => mkOutput (go_sats o) (script_or_empty (go_lock o))) (g_outs g)) (g_lock g).
Definition wf_gtx (g : gtx) : Prop := outs_set g /\ wf_tx (plain_tx g).
