(** C18 — calls that FAIL store nothing.

    "Every read returns a value that some write actually stored": a call that reports an error (UnmarshalJSON of a
    document with an unknown fee type, UpdateMinerFees for an unknown miner) is not such a write. In the lock machine
    of model/Locks.v a call is a path of atomic actions; the value a path may leave in memory is what its [GWEnd]
    actions store. So the statement about the code is: a control-flow path that ends in a return of a non-nil error
    contains no write action - not under the lock, not before it, not through a method it calls.

    - [rawfails]: the translator's second table (gen/Locks.v [fee_method_fails]): per method, per listed path, "may a
      call report failure after exactly these actions";
    - [failed_calls_store_nothing]: the computable checker over both tables (calls inlined by [expand], the same
      inlining the lock-discipline checker uses);
    - [call_fails]: the flag of the path a machine call takes (paths are flattened per method by [flat_table]);
    - proofs/FailedWritesProofs.v: a call flagged failing, of a table the checker accepts, is instantiated to a program
      without write actions, and every step a thread takes inside such a program leaves [mem] and the ghost history
      [written] exactly as they were (for every location, in every state, whatever the other threads do);
    - [rejected_unseen]: the same statement in the shape of the run-time harness' histories: no read returned a value
      that only a rejected call carried. *)
From Coq Require Import List String Bool Arith PeanoNat.
From GoBT Require Import model.Locks.
Import ListNotations.
Local Open Scope string_scope.
Local Open Scope list_scope.

Definition is_write {K} (a : gact K) : bool :=
  match a with GWBegin _ _ | GWEnd _ _ _ => true | _ => false end.

Definition stores_nothing {K} (p : list (gact K)) : bool := forallb (fun a => negb (is_write a)) p.

(** the second table, as generated, and decoded *)
Definition rawfails := list (string * string * list bool).
Definition failtable := list (ty * string * list bool).

Definition dec_fail (e : string * string * list bool) : option (ty * string * list bool) :=
  let '(t, n, fl) := e in option_map (fun t' => (t', n, fl)) (dec_ty t).
Definition dec_fails (r : rawfails) : option failtable := all_some (map dec_fail r).

Definition find_fails (ft : failtable) (T : ty) (n : string) : option (list bool) :=
  option_map snd (find (fun e => ty_eqb (fst (fst e)) T && (snd (fst e) =? n)) ft).

(** per source path: flagged failing => every expansion of it (calls inlined) stores nothing; the flag list is as long
    as the path list *)
Fixpoint paths_fail_ok (tbl : list method) (T : ty) (ps : list (list action)) (fl : list bool) : bool :=
  match ps, fl with
  | [], [] => true
  | q :: qs, f :: fs =>
      match expand (S (List.length tbl)) tbl T q with
      | Some es => (negb f || forallb stores_nothing es) && paths_fail_ok tbl T qs fs
      | None => false
      end
  | _, _ => false
  end.

Definition method_fail_ok (tbl : list method) (ft : failtable) (m : method) : bool :=
  match find_fails ft (m_ty m) (m_name m) with
  | Some fl => paths_fail_ok tbl (m_ty m) (m_paths m) fl
  | None => false
  end.

(** THE CHECKER: no path on which a call may report failure stores anything. *)
Definition failed_calls_store_nothing (tbl : list method) (ft : failtable) : bool :=
  forallb (method_fail_ok tbl ft) tbl.

Definition failed_calls_store_nothing_raw (r : rawtable) (rf : rawfails) : bool :=
  match dec_table r, dec_fails rf with
  | Some t, Some f => failed_calls_store_nothing t f
  | _, _ => false
  end.

(** the flags of the flattened paths of a method (the machine's [c_path] indexes these) *)
Fixpoint flat_flags (tbl : list method) (T : ty) (ps : list (list action)) (fl : list bool) : list bool :=
  match ps, fl with
  | q :: qs, f :: fs =>
      match expand (S (List.length tbl)) tbl T q with
      | Some es => repeat f (List.length es) ++ flat_flags tbl T qs fs
      | None => []
      end
  | _, _ => []
  end.

Definition call_fails (tbl : list method) (ft : failtable) (c : call) : bool :=
  match find_method tbl (c_ty c) (c_name c) with
  | Some m =>
      match find_fails ft (m_ty m) (m_name m) with
      | Some fl => nth (c_path c) (flat_flags tbl (m_ty m) (m_paths m) fl) false
      | None => false
      end
  | None => false
  end.

(** histories as the harness records them: [rejected] = (location, value) pairs that only calls which returned an error
    carried; no read may have returned one *)
Definition rejected_unseen {L V} (leqb : L -> L -> bool) (veqb : V -> V -> bool)
           (rejected reads : list (L * V)) : bool :=
  forallb (fun r => negb (existsb (fun w => leqb (fst w) (fst r) && veqb (snd w) (snd r)) rejected)) reads.
