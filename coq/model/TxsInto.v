(** Txs.ReadFrom with the destination explicit (tx.go: func (tt *Txs) ReadFrom).

    model/Tx.v gives [read_txs] as a function of the bytes alone.  The Go method writes into a slice the caller
    supplies, and callers keep one [bt.Txs] variable across reads (a block-reading loop).  Here the destination is
    an argument and a result, in the shape of the code:

      n, err := txCount.ReadFrom(r)          -- on error: return, tt untouched
      tt := make([]Tx, 0)                    -- the accumulator starts EMPTY, whatever tt held
      for i := 0; i < txCount; i++ { tx := new(Tx); tx.ReadFrom(r) ...; tt = append of tt and tx }

    proofs/TxsIntoProofs.v: on success the destination holds exactly what [read_txs] yields, for every previous
    content. *)
From Coq Require Import List NArith.
From Coq Require Import Strings.Byte.
From GoBT Require Import lib.Bytes lib.Parse lib.VarInt model.Tx.
Import ListNotations.
Local Open Scope N_scope.

(** what the destination holds afterwards, bytes consumed, remaining input *)
Inductive into_res :=
| IOk (dst : list parsed) (n : N) (rest : bytes)
| IErr (dst : list parsed) (n : N)
| IFuel.

(** the loop: [acc] is the slice tt points to, appended to one transaction at a time; the count is checked before the fuel exactly as
    in [read_many], so both run out of fuel on the same inputs (never: proofs) *)
Fixpoint read_txs_loop (fuel : nat) (count : N) (acc : list parsed) (n : N) (bs : bytes) : into_res :=
  if count =? 0 then IOk acc n bs else
  match fuel with
  | O => IFuel
  | S f =>
      match read_tx bs with
      | POk p m rest => read_txs_loop f (count - 1) (acc ++ [p]) (n + m) rest
      | PErr m => IErr acc (n + m)
      | PFuel => IFuel
      end
  end.

Definition read_txs_into (dst : list parsed) (bs : bytes) : into_res :=
  match read_varint bs with
  | POk c n r => read_txs_loop (S (length bs)) (fst c) [] n r
  | PErr n => IErr dst n
  | PFuel => IFuel
  end.

(** a destination of [k] transactions that are not part of any input (for the correspondence) *)
Definition some_parsed : parsed := mkParsed (mkTx 1397968460 [] [] 9) false true.
Definition dst_of (k : N) : list parsed := repeat some_parsed (N.to_nat k).
