(** What the stack callbacks are handed as their DATA argument (C19, round 8).

    model/DebugStack.v says where BeforeStackPush / AfterStackPush / BeforeStackPop / AfterStackPop may occur in
    the callback sequence and that they come in pairs.  This file is about what they carry: each of them is handed a
    snapshot of the two stacks (State.DataStack, State.AltStack) and - except BeforeStackPop - an item.

    [irun] is the instrumented two-stack machine in the shape of bscript/interpreter/stack.go:

      PushByteArray(so):  beforeStackPush(so); stk = append(stk, so); afterStackPush(so)        (deferred)
      PopByteArray():     beforeStackPop(); data, err := nipN(0); if err != nil { return err }; afterStackPop(data)

    every callback taking its snapshot of BOTH stacks at the moment it is called; everything else the engine does to
    the stacks (removals below the top: nipN(idx > 0), the per-script reset) happens without callbacks ([OSilent]) and
    the ten lifecycle callbacks are marks between stack events ([OMark]).  A failed pop (empty stack) has no
    AfterStackPop and ends the execution.

    [data_ok] is the checker of an observed event sequence; it is (a) proved to accept every trace of [irun]
    ([irun_data_ok]), (b) proved equivalent to the readable inductive specification [DataOK] ([data_ok_iff]), and
    (c) evaluated by corr/C19.v [check_data] on the stack events observed on the real engine.  The interpreter model
    (model/Interp.v, model/Debug.v) has no notion of individual pushes and pops, so as for the placement automaton
    this is an acceptor for observed traces plus a machine-level theorem, not a statement about engine_execute_dbg.

    Stacks are lists with the TOP AT THE HEAD (the harness writes State.DataStack / State.AltStack reversed). *)
From Coq Require Import List Bool Lia.
From GoBT Require Import lib.Bytes.
Import ListNotations.

Record stacks := mkStacks { s_data : list bytes; s_alt : list bytes }.

Inductive sev :=
| SBeforePush (st : stacks) (x : bytes)   (* BeforeStackPush(State, data) *)
| SAfterPush (st : stacks) (x : bytes)    (* AfterStackPush(State, data) *)
| SBeforePop (st : stacks)                (* BeforeStackPop(State) *)
| SAfterPop (st : stacks) (x : bytes)     (* AfterStackPop(State, data) *)
| SMark.                                  (* one or more lifecycle callbacks *)

Inductive which := WData | WAlt.

Definition stk_get (w : which) (st : stacks) : list bytes :=
  match w with WData => s_data st | WAlt => s_alt st end.
Definition stk_set (w : which) (st : stacks) (l : list bytes) : stacks :=
  match w with WData => mkStacks l (s_alt st) | WAlt => mkStacks (s_data st) l end.

(** ** the instrumented machine *)
Inductive sop :=
| OPush (w : which) (x : bytes)
| OPop (w : which)
| OSilent (st : stacks)   (* the stacks are changed without callbacks, to anything *)
| OMark.

Fixpoint irun (st : stacks) (ops : list sop) : list sev :=
  match ops with
  | [] => []
  | OPush w x :: r =>
      let st' := stk_set w st (x :: stk_get w st) in
      SBeforePush st x :: SAfterPush st' x :: irun st' r
  | OPop w :: r =>
      match stk_get w st with
      | [] => [SBeforePop st; SMark]
      | x :: l => SBeforePop st :: SAfterPop (stk_set w st l) x :: irun (stk_set w st l) r
      end
  | OSilent st' :: r => irun st' r
  | OMark :: r => SMark :: irun st r
  end.

(** ** the checker *)
Fixpoint stack_eqb (a b : list bytes) : bool :=
  match a, b with
  | [], [] => true
  | x :: a', y :: b' => bytes_eqb x y && stack_eqb a' b'
  | _, _ => false
  end.

Lemma stack_eqb_eq a : forall b, stack_eqb a b = true <-> a = b.
Proof.
  induction a as [|x a IH]; intros [|y b]; cbn [stack_eqb]; try (split; [discriminate|discriminate]); [tauto|].
  rewrite andb_true_iff, bytes_eqb_eq, IH. split; [intros [-> ->]|intros [= -> ->]]; auto.
Qed.
Lemma stack_eqb_refl a : stack_eqb a a = true.
Proof. apply stack_eqb_eq. reflexivity. Qed.

(** one stack grew by exactly [y], the other is unchanged, and [y] is what both callbacks carry *)
Definition push_ok (b : stacks) (x : bytes) (a : stacks) (y : bytes) : bool :=
  bytes_eqb x y &&
  ((stack_eqb (s_data a) (y :: s_data b) && stack_eqb (s_alt a) (s_alt b)) ||
   (stack_eqb (s_alt a) (y :: s_alt b) && stack_eqb (s_data a) (s_data b))).

(** one stack lost exactly its top [y], the other is unchanged *)
Definition pop_ok (b a : stacks) (y : bytes) : bool :=
  (stack_eqb (s_data b) (y :: s_data a) && stack_eqb (s_alt a) (s_alt b)) ||
  (stack_eqb (s_alt b) (y :: s_alt a) && stack_eqb (s_data a) (s_data b)).

Definition failed_pop_ok (b : stacks) : bool :=
  match s_data b, s_alt b with
  | [], _ => true
  | _, [] => true
  | _, _ => false
  end.

Definition is_mark (e : sev) : bool := match e with SMark => true | _ => false end.

Fixpoint data_ok (tr : list sev) : bool :=
  match tr with
  | [] => true
  | e :: r1 =>
      match e, r1 with
      | SMark, _ => data_ok r1
      | SBeforePush b x, SAfterPush a y :: r => push_ok b x a y && data_ok r
      | SBeforePop b, SAfterPop a y :: r => pop_ok b a y && data_ok r
      | SBeforePop b, SMark :: r => failed_pop_ok b && forallb is_mark r
      | _, _ => false
      end
  end.

(** ** every trace of the machine is accepted *)
Theorem irun_data_ok : forall ops st, data_ok (irun st ops) = true.
Proof.
  induction ops as [|o r IH]; intros st; [reflexivity|].
  destruct o as [w x|w|st'|]; cbn [irun].
  - cbn [data_ok]. rewrite IH, andb_true_r. unfold push_ok. rewrite bytes_eqb_refl.
    destruct w; cbn [stk_set stk_get s_data s_alt andb]; rewrite !stack_eqb_refl; cbn; auto using orb_true_r.
  - destruct (stk_get w st) as [|x l] eqn:E.
    + cbn [data_ok forallb]. rewrite andb_true_r. unfold failed_pop_ok.
      destruct w; cbn [stk_get] in E; rewrite E; [reflexivity|]. destruct (s_data st); reflexivity.
    + cbn [data_ok]. rewrite IH, andb_true_r. unfold pop_ok.
      destruct w; cbn [stk_set stk_get s_data s_alt] in *; rewrite E, !stack_eqb_refl; cbn; auto using orb_true_r.
  - apply IH.
  - cbn [data_ok]. apply IH.
Qed.

(** ** the checker is the readable specification *)
Inductive DataOK : list sev -> Prop :=
| DNil : DataOK []
| DMark r : DataOK r -> DataOK (SMark :: r)
| DPush w b x r : DataOK r ->
    DataOK (SBeforePush b x :: SAfterPush (stk_set w b (x :: stk_get w b)) x :: r)
| DPop w a x r : DataOK r ->
    DataOK (SBeforePop (stk_set w a (x :: stk_get w a)) :: SAfterPop a x :: r)
| DFail w b r : stk_get w b = [] -> Forall (fun e => e = SMark) r ->
    DataOK (SBeforePop b :: SMark :: r).

Lemma push_ok_spec b x a y :
  push_ok b x a y = true <-> x = y /\ exists w, a = stk_set w b (y :: stk_get w b).
Proof.
  unfold push_ok. rewrite andb_true_iff, orb_true_iff, !andb_true_iff, bytes_eqb_eq, !stack_eqb_eq.
  destruct a as [ad aa], b as [bd ba]; cbn [s_data s_alt]. split.
  - intros [-> [[-> ->]|[-> ->]]]; split; auto; [exists WData|exists WAlt]; reflexivity.
  - intros [-> [[|] E]]; cbn [stk_set stk_get s_data s_alt] in E; injection E as -> ->; auto.
Qed.

Lemma pop_ok_spec b a y :
  pop_ok b a y = true <-> exists w, b = stk_set w a (y :: stk_get w a).
Proof.
  unfold pop_ok. rewrite orb_true_iff, !andb_true_iff, !stack_eqb_eq.
  destruct a as [ad aa], b as [bd ba]; cbn [s_data s_alt]. split.
  - intros [[-> ->]|[-> ->]]; [exists WData|exists WAlt]; reflexivity.
  - intros [[|] E]; cbn [stk_set stk_get s_data s_alt] in E; injection E as -> ->; auto.
Qed.

Lemma failed_pop_ok_spec b : failed_pop_ok b = true <-> exists w, stk_get w b = [].
Proof.
  unfold failed_pop_ok. destruct b as [[|d0 d] [|a0 a]]; cbn [s_data s_alt]; split; intros H; try reflexivity;
    try (exists WData; reflexivity); try (exists WAlt; reflexivity); try discriminate.
  destruct H as [[|] H]; discriminate.
Qed.

Lemma forallb_is_mark r : forallb is_mark r = true <-> Forall (fun e => e = SMark) r.
Proof.
  rewrite forallb_forall, Forall_forall. split; intros H e He; specialize (H e He).
  - destruct e; try discriminate; reflexivity.
  - subst e. reflexivity.
Qed.

Lemma data_ok_DataOK_n : forall n tr, length tr <= n -> data_ok tr = true -> DataOK tr.
Proof.
  induction n as [|n IH]; intros tr Hn H.
  - destruct tr; [constructor|cbn in Hn; inversion Hn].
  - destruct tr as [|e r1]; [constructor|]. cbn [length] in Hn. apply le_S_n in Hn.
    destruct e as [b x|b x|b|b x|]; cbn [data_ok] in H.
    + destruct r1 as [|[a y|a y|a|a y|] r]; try discriminate.
      apply andb_true_iff in H as [Hp Hr]. apply push_ok_spec in Hp as [-> [w ->]].
      apply DPush. apply IH; [cbn [length] in Hn; lia|exact Hr].
    + destruct r1; discriminate.
    + destruct r1 as [|[a y|a y|a|a y|] r]; try discriminate.
      * apply andb_true_iff in H as [Hp Hr]. apply pop_ok_spec in Hp as [w ->].
        apply DPop. apply IH; [cbn [length] in Hn; lia|exact Hr].
      * apply andb_true_iff in H as [Hf Hr]. apply failed_pop_ok_spec in Hf as [w Hw].
        apply (DFail w); [exact Hw|apply forallb_is_mark; exact Hr].
    + destruct r1; discriminate.
    + apply DMark. apply IH; assumption.
Qed.

Theorem data_ok_iff tr : data_ok tr = true <-> DataOK tr.
Proof.
  split.
  - apply (data_ok_DataOK_n (length tr)). apply le_n.
  - induction 1 as [|r _ IH|w b x r _ IH|w a x r _ IH|w b r Hw Hr]; cbn [data_ok].
    + reflexivity.
    + exact IH.
    + rewrite IH, andb_true_r. apply push_ok_spec. split; [reflexivity|exists w; reflexivity].
    + rewrite IH, andb_true_r. apply pop_ok_spec. exists w. reflexivity.
    + apply andb_true_iff. split; [apply failed_pop_ok_spec; exists w; exact Hw|apply forallb_is_mark; exact Hr].
Qed.

(** ** a debugger that follows the stacks by the DATA of the callbacks alone is never wrong.
    [follow]: starting from the stacks of the first snapshot it is shown, apply each After callback's item to the stack
    that (according to the snapshots) grew or shrank; in an accepted trace what it has computed after every pair is
    what the After snapshot shows. Stated per pair: *)
Theorem data_ok_push_pair b x a y r :
  data_ok (SBeforePush b x :: SAfterPush a y :: r) = true ->
  x = y /\ ((s_data a = y :: s_data b /\ s_alt a = s_alt b) \/ (s_alt a = y :: s_alt b /\ s_data a = s_data b)).
Proof.
  cbn [data_ok]. intros H. apply andb_true_iff in H as [H _]. unfold push_ok in H.
  rewrite andb_true_iff, orb_true_iff, !andb_true_iff, bytes_eqb_eq, !stack_eqb_eq in H. exact H.
Qed.

Theorem data_ok_pop_pair b a y r :
  data_ok (SBeforePop b :: SAfterPop a y :: r) = true ->
  (s_data b = y :: s_data a /\ s_alt a = s_alt b) \/ (s_alt b = y :: s_alt a /\ s_data a = s_data b).
Proof.
  cbn [data_ok]. intros H. apply andb_true_iff in H as [H _]. unfold pop_ok in H.
  rewrite orb_true_iff, !andb_true_iff, !stack_eqb_eq in H. exact H.
Qed.

(** ** non-vacuity and refutations.  OP_1 OP_7 | OP_TOALTSTACK ... : the push of 07 onto the alt stack while 01 stays on
    the data stack. *)
Local Notation b1 := [Byte.x01].
Local Notation b7 := [Byte.x07].

Example data_ok_alt_push :
  data_ok [SMark; SBeforePush (mkStacks [] []) b1; SAfterPush (mkStacks [b1] []) b1; SMark;
           SBeforePush (mkStacks [b1] []) b7; SAfterPush (mkStacks [b7; b1] []) b7; SMark;
           SBeforePop (mkStacks [b7; b1] []); SAfterPop (mkStacks [b1] []) b7;
           SBeforePush (mkStacks [b1] []) b7; SAfterPush (mkStacks [b1] [b7]) b7; SMark] = true.
Proof. reflexivity. Qed.

(** AfterStackPush handed the top of the DATA stack instead of the item pushed (onto the alt stack): refused *)
Example data_ok_refuses_the_data_top_for_an_alt_push :
  data_ok [SBeforePush (mkStacks [b1] []) b7; SAfterPush (mkStacks [b1] [b7]) b1] = false.
Proof. reflexivity. Qed.

(** the item announced is not the item that arrived / the Before snapshot taken after the push / two items at once /
    AfterStackPop reporting the new top instead of the item removed / a failed pop with items on both stacks *)
Example data_ok_refutations :
  data_ok [SBeforePush (mkStacks [b1] []) b1; SAfterPush (mkStacks [b7; b1] []) b7] = false /\
  data_ok [SBeforePush (mkStacks [b7; b1] []) b7; SAfterPush (mkStacks [b7; b1] []) b7] = false /\
  data_ok [SBeforePush (mkStacks [] []) b7; SAfterPush (mkStacks [b7; b7] []) b7] = false /\
  data_ok [SBeforePop (mkStacks [b7; b1] []); SAfterPop (mkStacks [b1] []) b1] = false /\
  data_ok [SBeforePop (mkStacks [b1] [b7]); SMark] = false /\
  data_ok [SBeforePop (mkStacks [b1] []); SMark; SBeforePop (mkStacks [b1] []); SAfterPop (mkStacks [] []) b1] = false /\
  data_ok [SBeforePush (mkStacks [] []) b7; SMark; SAfterPush (mkStacks [b7] []) b7] = false.
Proof. repeat split; reflexivity. Qed.
