(** Model of bscript/address.go, bscript/addressvalidation.go and the P2PKH constructors /
    PublicKeyHash / Addresses of bscript/script.go (with the part of oppushdata.go they use),
    as coded. Address texts are Go strings ([string]); scripts, hashes and keys are [bytes].
    Public keys enter as their 33-byte compressed serialisation (bec.PublicKey.SerialiseCompressed
    is go-bk, outside go-bt). *)
From Coq Require Import String Ascii List NArith Bool.
From Coq Require Import Strings.Byte.
From GoBT Require Import lib.Bytes lib.Hex lib.Str lib.Sha256 lib.Ripemd160 lib.Numeral lib.Base58 model.Bip276.
Import ListNotations.
Local Open Scope N_scope.

Inductive aerr :=
| EAddrLength | EAddrUnsupported            (* addressToPubKeyHashStr *)
| EHexDecode | EPkLen | EPartTooBig         (* constructors *)
| EBadChar | ETooLong | EVersion | EChecksumFailed | ELeadingZeros   (* validA58 *)
| EEmptyScript | ENotP2PKH | EDataTooSmall  (* PublicKeyHash / DecodeParts *)
| EFuel.                                    (* model artefact, proved unreachable *)

Inductive res (A : Type) := Ok (a : A) | Err (e : aerr) | Panic.
Arguments Ok {A}. Arguments Err {A}. Arguments Panic {A}.

Definition is_ok {A} (r : res A) : bool := match r with Ok _ => true | _ => false end.

(** s[a:b] for in-range a <= b <= len *)
Definition slice (a b : nat) (l : bytes) : bytes := firstn (b - a) (skipn a l).

Definition hashP2PKH : byte := x00.
Definition hashTestNetP2PKH : byte := x6f.

(** ** address.go *)

Record address := mkAddress { a_string : string; a_pkh_hex : string }.

(** addressToPubKeyHashStr: Base58 decode, length and version check — NO checksum verification *)
Definition address_to_pkh_str (addr : string) : res string :=
  let decoded := b58_decode (bytes_of_string addr) in
  if negb (Nat.eqb (List.length decoded) 25) then Err EAddrLength
  else match decoded with
       | [] => Panic                          (* decoded[0] on an empty slice: excluded by the length check *)
       | v :: _ =>
           if byte_eqb v hashP2PKH then Ok (hex_of (slice 1 (List.length decoded - 4) decoded))
           else if byte_eqb v hashTestNetP2PKH then Ok (hex_of (slice 1 (List.length decoded - 4) decoded))
           else Err EAddrUnsupported          (* P2SH versions and everything else *)
       end.

Definition new_address_from_string (addr : string) : res address :=
  match address_to_pkh_str addr with
  | Ok pkh => Ok (mkAddress addr pkh)
  | Err e => Err e
  | Panic => Panic
  end.

Definition checksum4 (input : bytes) : bytes := firstn 4 (sha256d input).

Definition base58_encode_missing_checksum (input : bytes) : string :=
  string_of_bytes (b58_encode (input ++ checksum4 input)).

Definition version_byte (mainnet : bool) : byte := if mainnet then x00 else x6f.   (* bb[0] = 111 *)

Definition new_address_from_pkh (hash : bytes) (mainnet : bool) : address :=
  mkAddress (base58_encode_missing_checksum (version_byte mainnet :: hash)) (hex_of hash).

(** NewAddressFromPublicKey on the compressed serialisation of the key *)
Definition new_address_from_public_key (ser : bytes) (mainnet : bool) : address :=
  let hash := hash160 ser in
  mkAddress (base58_encode_missing_checksum (version_byte mainnet :: hash)) (hex_of hash).

Definition new_address_from_public_key_string (pubkey_hex : string) (mainnet : bool) : res address :=
  match hexdecode pubkey_hex with
  | None => Err EHexDecode
  | Some b => Ok (new_address_from_pkh (hash160 b) mainnet)
  end.

(** ** addressvalidation.go *)

(** one pass of the inner loop [for j := 24; j >= 0; j--] of set58: a := a*58 + c, carry out *)
Definition mul58_step (x : byte) (st : bytes * N) : bytes * N :=
  let '(done, c) := st in
  let c1 := c + 58 * b2n x in
  (n2b (c1 mod 256) :: done, c1 / 256).
Definition mul58_add (a : bytes) (c : N) : bytes * N := fold_right mul58_step ([], c) a.

Fixpoint set58_loop (a : bytes) (s : bytes) : res bytes :=
  match s with
  | [] => Ok a
  | s1 :: r =>
      match b58_index s1 with            (* bytes.IndexByte(tmpl, s1) *)
      | None => Err EBadChar
      | Some c =>
          let '(a', carry) := mul58_add a c in
          if 0 <? carry then Err ETooLong else set58_loop a' r
      end
  end.
Definition set58 (s : bytes) : res bytes := set58_loop (repeat x00 25) s.

Definition valid_a58 (a58 : bytes) : res unit :=
  match set58 a58 with
  | Err e => Err e
  | Panic => Panic
  | Ok a =>
      match a with
      | [] => Panic
      | v :: _ =>
          if negb (byte_eqb v x00) && negb (byte_eqb v x6f) then Err EVersion
          else if negb (bytes_eqb (skipn 21 a) (firstn 4 (sha256d (firstn 21 a)))) then Err EChecksumFailed
          else
            (* every leading zero byte is encoded as exactly one leading '1' *)
            if negb (Nat.eqb (count_leading x00 a) (count_leading alphabet_idx0 a58)) then Err ELeadingZeros
            else Ok tt
      end
  end.

Definition validate_address (addr : string) : bool :=
  validate_address_with (fun s => is_ok (valid_a58 (bytes_of_string s))) addr.

(** ** script.go / oppushdata.go *)

Definition OpDUP : byte := x76.
Definition OpHASH160 : byte := xa9.
Definition OpDATA20 : byte := x14.
Definition OpEQUALVERIFY : byte := x88.
Definition OpCHECKSIG : byte := xac.

Definition p2pkh_from_pkh (h : bytes) : bytes :=
  [OpDUP; OpHASH160; OpDATA20] ++ h ++ [OpEQUALVERIFY] ++ [OpCHECKSIG].

Definition p2pkh_from_pubkey_bytes (k : bytes) : res bytes :=
  if negb (Nat.eqb (List.length k) 33) then Err EPkLen else Ok (p2pkh_from_pkh (hash160 k)).

Definition p2pkh_from_pubkey_str (k_hex : string) : res bytes :=
  match hexdecode k_hex with None => Err EHexDecode | Some k => p2pkh_from_pubkey_bytes k end.

Definition p2pkh_from_pkh_str (h_hex : string) : res bytes :=
  match hexdecode h_hex with None => Err EHexDecode | Some h => Ok (p2pkh_from_pkh h) end.

(** PushDataPrefix *)
Definition push_data_prefix (d : bytes) : res bytes :=
  let l := lenN d in
  if l <=? 75 then Ok [n2b l]
  else if l <=? 255 then Ok [x4c; n2b l]
  else if l <=? 65535 then Ok (x4d :: le_enc 2 l)
  else if l <=? 4294967295 then Ok (x4e :: le_enc 4 l)
  else Err EPartTooBig.

Definition p2pkh_from_address (addr : string) : res bytes :=
  match new_address_from_string addr with
  | Err e => Err e
  | Panic => Panic
  | Ok a =>
      match hexdecode (a_pkh_hex a) with
      | None => Err EHexDecode
      | Some h =>
          match push_data_prefix h with      (* AppendPushData -> EncodeParts *)
          | Err e => Err e
          | Panic => Panic
          | Ok p => Ok ([OpDUP; OpHASH160] ++ (p ++ h) ++ [OpEQUALVERIFY; OpCHECKSIG])
          end
      end
  end.

(** DecodeParts; every iteration consumes at least one byte, the fuel is the input length *)
Fixpoint decode_parts_fuel (fuel : nat) (b : bytes) : res (list bytes) :=
  match b with
  | [] => Ok []
  | op :: rest =>
      match fuel with
      | O => Err EFuel
      | S f =>
          let continue (part : bytes) (b' : bytes) :=
            match decode_parts_fuel f b' with
            | Ok ps => Ok (part :: ps)
            | e => e
            end in
          let counted (hdr : nat) (l : N) :=
            (* b = b[hdr:]; if len(b) < l -> error; part = b[:l]; b = b[l:] *)
            let b1 := skipn hdr b in
            if lenN b1 <? l then Err EDataTooSmall
            else continue (firstn (N.to_nat l) b1) (skipn (N.to_nat l) b1) in
          if byte_eqb op x4c then
            if Nat.ltb (List.length b) 2 then Err EDataTooSmall
            else counted 2%nat (le_dec (slice 1 2 b))
          else if byte_eqb op x4d then
            if Nat.ltb (List.length b) 3 then Err EDataTooSmall
            else counted 3%nat (le_dec (slice 1 3 b))
          else if byte_eqb op x4e then
            if Nat.ltb (List.length b) 5 then Err EDataTooSmall
            else counted 5%nat (le_dec (slice 1 5 b))
          else if (1 <=? b2n op) && (b2n op <=? 78) then
            let l := N.to_nat (b2n op) in
            if Nat.ltb (List.length b) (1 + l) then Err EDataTooSmall
            else continue (slice 1 (l + 1) b) (skipn (1 + l) b)
          else continue [op] rest
      end
  end.
Definition decode_parts (b : bytes) : res (list bytes) := decode_parts_fuel (List.length b) b.

(** PublicKeyHash *)
Definition public_key_hash (s : bytes) : res bytes :=
  match s with
  | [] => Err EEmptyScript
  | s0 :: _ =>
      if negb (byte_eqb s0 OpDUP) || Nat.leb (List.length s) 2 || negb (byte_eqb (nth 1 s x00) OpHASH160)
      then Err ENotP2PKH
      else match decode_parts (skipn 2 s) with
           | Err e => Err e
           | Panic => Panic
           | Ok [] => Panic                  (* parts[0] on an empty result *)
           | Ok (p :: _) => Ok p
           end
  end.

Definition is_p2pkh (b : bytes) : bool :=
  Nat.eqb (List.length b) 25 && byte_eqb (nth 0 b x00) OpDUP && byte_eqb (nth 1 b x00) OpHASH160 &&
  byte_eqb (nth 2 b x00) OpDATA20 && byte_eqb (nth 23 b x00) OpEQUALVERIFY && byte_eqb (nth 24 b x00) OpCHECKSIG.

(** Addresses: the mainnet address of a P2PKH script, nothing for other scripts *)
Definition addresses (s : bytes) : res (list string) :=
  if is_p2pkh s then
    match public_key_hash s with
    | Err e => Err e
    | Panic => Panic
    | Ok pkh => Ok [a_string (new_address_from_pkh pkh true)]
    end
  else Ok [].

(** ** txoutput.go: PayToAddress = AddP2PKHOutputFromAddress: the locking script of the output that
    is appended, or the error (and then nothing is appended) *)
Definition pay_to_address_script (addr : string) : res bytes := p2pkh_from_address addr.
