(** C08 — the caller's TRANSACTION as a graph of objects: what a signature check of the ORIGINAL (non fork-id) digest
    does to it.

    model/Tx.v and model/CheckSig.v treat a transaction as a value; "the operation works on tx.Clone()" is then true by
    construction.  In Go a *bt.Tx is a graph: []*Input, []*Output, and on every input two *bscript.Script (the unlocking
    script, and PreviousTxScript: the spent output's script - recorded by Execute on the checked input, set by the
    caller on any input of an extended-format transaction, possibly ONE object on several inputs).  Tx.Clone (tx.go)
    parses the serialisation - new Input / Output structs, new unlocking and locking script objects - and then COPIES
    THE POINTERS of PreviousTxScript from the original:

        clone.Inputs[i].PreviousTxSatoshis = input.PreviousTxSatoshis
        clone.Inputs[i].PreviousTxScript   = input.PreviousTxScript

    so the script objects the caller put (or Execute recorded) on the inputs are reachable from every clone.
    opcodeCheckSig / opcodeCheckMultiSig clone the transaction, put the script code on the checked input OF THE CLONE,
    and call CalcInputSignatureHash; for the original digest CalcInputPreimageLegacy (signaturehash.go) clones again and
    rewrites the clone:

        other inputs:    UnlockingScript = &Script{};  PreviousTxScript = &Script{}      (NEW objects)
        NONE / SINGLE:   SequenceNumber = 0 on the other inputs; (SINGLE) Satoshis = 2^64-1 and
                         LockingScript = &Script{} on the outputs before the checked one  (fields of the clone's structs)

    Here: three heaps (script objects, input structs, output structs), a transaction = two lists of pointers, and the
    operations above as heap transformers.  proofs/TxPointersProofs.v: none of them writes an object that existed
    before - the caller's graph reads after the digest as before.  The alternative "empty the script THROUGH the
    pointer" ([blank_through_pointer]) writes the caller's object. *)
From Coq Require Import List NArith Arith Lia.
From GoBT Require Import lib.Bytes.
Import ListNotations.

Record pinput := mkPin {
  pi_outpoint : bytes * N;
  pi_unlock : option nat;          (* *bscript.Script, nil or an object of the script heap *)
  pi_seq : N;
  pi_prev_sats : N;
  pi_prev : option nat             (* PreviousTxScript *)
}.
Record poutput := mkPout { po_sats : N; po_lock : option nat }.

Record heap := mkHeap { h_scripts : list bytes; h_inputs : list pinput; h_outputs : list poutput }.
Record ptx := mkPtx { pt_ins : list nat; pt_outs : list nat }.

Definition dflt_in : pinput := mkPin ([], 0%N) None 0%N 0%N None.
Definition dflt_out : poutput := mkPout 0%N None.

Definition script_at (h : heap) (p : option nat) : bytes := match p with Some a => nth a (h_scripts h) [] | None => [] end.

(** allocation: a new object at the end of its heap *)
Definition new_script (h : heap) (b : bytes) : heap * nat :=
  (mkHeap (h_scripts h ++ [b]) (h_inputs h) (h_outputs h), length (h_scripts h)).
Definition new_input (h : heap) (i : pinput) : heap * nat :=
  (mkHeap (h_scripts h) (h_inputs h ++ [i]) (h_outputs h), length (h_inputs h)).
Definition new_output (h : heap) (o : poutput) : heap * nat :=
  (mkHeap (h_scripts h) (h_inputs h) (h_outputs h ++ [o]), length (h_outputs h)).

Fixpoint upd {X} (l : list X) (i : nat) (x : X) : list X :=
  match l, i with
  | [], _ => []
  | _ :: t, O => x :: t
  | h :: t, S i' => h :: upd t i' x
  end.

(** writes through a pointer *)
Definition set_input (h : heap) (p : nat) (i : pinput) : heap := mkHeap (h_scripts h) (upd (h_inputs h) p i) (h_outputs h).
Definition set_output (h : heap) (p : nat) (o : poutput) : heap := mkHeap (h_scripts h) (h_inputs h) (upd (h_outputs h) p o).
Definition set_script (h : heap) (p : nat) (b : bytes) : heap := mkHeap (upd (h_scripts h) p b) (h_inputs h) (h_outputs h).

(** ** Tx.Clone *)
Fixpoint clone_ins (h : heap) (ps : list nat) : heap * list nat :=
  match ps with
  | [] => (h, [])
  | p :: t =>
      let i := nth p (h_inputs h) dflt_in in
      let '(h1, u) := new_script h (script_at h (pi_unlock i)) in            (* parsed: a new unlocking script *)
      let '(h2, q) := new_input h1 (mkPin (pi_outpoint i) (Some u) (pi_seq i) (pi_prev_sats i) (pi_prev i)) in   (* the POINTER of the previous script *)
      let '(h3, qs) := clone_ins h2 t in (h3, q :: qs)
  end.
Fixpoint clone_outs (h : heap) (ps : list nat) : heap * list nat :=
  match ps with
  | [] => (h, [])
  | p :: t =>
      let o := nth p (h_outputs h) dflt_out in
      let '(h1, l) := new_script h (script_at h (po_lock o)) in
      let '(h2, q) := new_output h1 (mkPout (po_sats o) (Some l)) in
      let '(h3, qs) := clone_outs h2 t in (h3, q :: qs)
  end.
Definition clone (h : heap) (t : ptx) : heap * ptx :=
  let '(h1, ins) := clone_ins h (pt_ins t) in
  let '(h2, outs) := clone_outs h1 (pt_outs t) in (h2, mkPtx ins outs).

(** ** the rewriting of the clone in CalcInputPreimageLegacy.  [k] counts the position in the clone's input list. *)
Fixpoint blank_others (h : heap) (ps : list nat) (k idx : nat) (zero_seq : bool) : heap :=
  match ps with
  | [] => h
  | p :: t =>
      if Nat.eqb k idx then blank_others h t (S k) idx zero_seq
      else
        let i := nth p (h_inputs h) dflt_in in
        let '(h1, u) := new_script h [] in          (* UnlockingScript = &bscript.Script{} *)
        let '(h2, s) := new_script h1 [] in         (* PreviousTxScript = &bscript.Script{} *)
        let h3 := set_input h2 p (mkPin (pi_outpoint i) (Some u) (if zero_seq then 0%N else pi_seq i) (pi_prev_sats i) (Some s)) in
        blank_others h3 t (S k) idx zero_seq
  end.

(** SIGHASH_SINGLE: the outputs before the checked one *)
Fixpoint blank_outputs (h : heap) (ps : list nat) (n : nat) : heap :=
  match ps, n with
  | p :: t, S n' =>
      let '(h1, l) := new_script h [] in
      blank_outputs (set_output h1 p (mkPout 18446744073709551615%N (Some l))) t n'
  | _, _ => h
  end.

Inductive base_type := BAll | BNone | BSingle.

(** CalcInputPreimageLegacy up to the point where the bytes are written out (reading only from there on) *)
Definition legacy_prepare (h : heap) (t : ptx) (idx : nat) (bt : base_type) : heap * ptx :=
  let '(h1, c) := clone h t in
  let h2 := blank_others h1 (pt_ins c) 0 idx (match bt with BAll => false | _ => true end) in
  match bt with
  | BSingle => (blank_outputs h2 (pt_outs c) idx, mkPtx (pt_ins c) (firstn (S idx) (pt_outs c)))
  | BNone => (h2, mkPtx (pt_ins c) [])
  | BAll => (h2, c)
  end.

(** the signature opcode: clone, the script code (a new script object, the unparsed sub-script) on the checked input OF
    THE CLONE, then the digest.  An input index outside the transaction is an index-out-of-range panic in Go: nothing is
    written. *)
Definition checksig_digest (h : heap) (t : ptx) (idx : nat) (code : bytes) (bt : base_type) : heap * ptx :=
  let '(h1, c) := clone h t in
  match nth_error (pt_ins c) idx with
  | None => (h1, c)
  | Some p =>
      let i := nth p (h_inputs h1) dflt_in in
      let '(h2, s) := new_script h1 code in
      let h3 := set_input h2 p (mkPin (pi_outpoint i) (pi_unlock i) (pi_seq i) (pi_prev_sats i) (Some s)) in
      legacy_prepare h3 c idx bt
  end.

(** ** the alternative: the other inputs' scripts emptied through the pointers the clone holds *)
Fixpoint blank_through_pointer (h : heap) (ps : list nat) (k idx : nat) : heap :=
  match ps with
  | [] => h
  | p :: t =>
      if Nat.eqb k idx then blank_through_pointer h t (S k) idx
      else
        let i := nth p (h_inputs h) dflt_in in
        let h1 := match pi_unlock i with Some u => set_script h u [] | None => h end in
        let h2 := match pi_prev i with Some s => set_script h1 s [] | None => h1 end in
        blank_through_pointer h2 t (S k) idx
  end.

(** what the caller can read: every object that existed *)
Definition keeps (h0 h : heap) : Prop :=
  firstn (length (h_scripts h0)) (h_scripts h) = h_scripts h0 /\
  firstn (length (h_inputs h0)) (h_inputs h) = h_inputs h0 /\
  firstn (length (h_outputs h0)) (h_outputs h) = h_outputs h0.
