(** Model of bscript/interpreter/opcodeparser.go: DefaultOpcodeParser.Parse, Unparse and
    ParsedOpcode.bytes, in the shape of the code.  The per-opcode [length] field is looked up in the
    GENERATED table gen/OpTable.v (opcodeArray), so a change to that table changes this model.

    Parse walks the script with an index [i]; every access is relative to [i] ([script[i]],
    [script[i+1:]], [len(script[i:])] ...), so the model carries the remaining suffix [script[i:]].
    All index / slice expressions are checked primitives (lib/Checked.v); Go [int]/[uint] are 64 bits.

    [parsed_op] is the generic record other models (the interpreter) reuse: opcode value and pushed
    data, plus the two fields of the Go [opcode] struct that can differ from the table: the length
    (the synthetic "Unformatted Data" opcode after a top-level OP_RETURN carries the length of the
    whole tail) and whether it is that synthetic opcode (its [exec] is nil). *)
From Coq Require Import List NArith Lia ZifyN ZifyNat ZifyBool ZArith Bool String.
From Coq Require Import Strings.Byte.
From GoBT Require Import lib.Bytes lib.Checked gen.OpTable.
Import ListNotations.
Local Open Scope N_scope.
Local Open Scope bool_scope.

Record parsed_op := mkPop {
  p_op : N;          (* op.val *)
  p_data : bytes;    (* Data (nil and empty are not distinguished) *)
  p_len : Z;         (* op.length *)
  p_unf : bool       (* op.name = "Unformatted Data", op.exec = nil *)
}.

(** opcodeArray[v] *)
Definition op_entry (v : N) : N * string * Z * string :=
  nth (N.to_nat v) op_table (0, EmptyString, 0%Z, EmptyString).
Definition entry_val (e : N * string * Z * string) : N := fst (fst (fst e)).
Definition entry_name (e : N * string * Z * string) : string := snd (fst (fst e)).
Definition entry_len (e : N * string * Z * string) : Z := snd (fst e).
Definition entry_handler (e : N * string * Z * string) : string := snd e.
Definition op_length (v : N) : Z := entry_len (op_entry v).
Definition op_name_of (o : parsed_op) : string :=
  if p_unf o then "Unformatted Data"%string else entry_name (op_entry (p_op o)).

Definition OP_IF : N := 99.        Definition OP_NOTIF : N := 100.
Definition OP_VERIF : N := 101.    Definition OP_VERNOTIF : N := 102.
Definition OP_ELSE : N := 103.     Definition OP_ENDIF : N := 104.
Definition OP_RETURN : N := 106.
Definition OP_CHECKSIG : N := 172. Definition OP_CHECKSIGVERIFY : N := 173.
Definition OP_CHECKMULTISIG : N := 174. Definition OP_CHECKMULTISIGVERIFY : N := 175.
Definition OP_CHECKSEQUENCEVERIFY : N := 178.

(** ParsedOpcode.RequiresTx *)
Definition requires_tx (v : N) : bool :=
  (v =? OP_CHECKSIG) || (v =? OP_CHECKSIGVERIFY) || (v =? OP_CHECKMULTISIG) ||
  (v =? OP_CHECKMULTISIGVERIFY) || (v =? OP_CHECKSEQUENCEVERIFY).

Inductive pstep :=
| PSNext (o : parsed_op) (rest : bytes) (cb : Z)   (* appended one op; continue at [rest] *)
| PSStop (ops : list parsed_op)                     (* top-level OP_RETURN: append these and return *)
| PSErr
| PSPanic.

(** one iteration of [for i := 0; i < len(script); ] with [s = script[i:]] (non-empty) *)
Definition parse_step (eocs : bool) (cb : Z) (s : bytes) : pstep :=
  match idx s 0 with
  | None => PSPanic
  | Some instruction =>
      let e := op_entry (b2n instruction) in
      let val := entry_val e in
      let len := entry_len e in
      if eocs && requires_tx val then PSErr
      else
        let cb' := if (val =? OP_IF) || (val =? OP_NOTIF) then (cb + 1)%Z
                   else if val =? OP_ENDIF then (cb - 1)%Z else cb in
        if (val =? OP_RETURN) && (cb' =? 0)%Z then
          let op := mkPop val [] len false in
          if lenN s <? 2 then PSStop [op]                               (* (i+2) > totalLen *)
          else if lenN s <? 3 then                                      (* (i+3) > totalLen *)
            match idx s 1 with
            | Some d => PSStop [op; mkPop (b2n d) [] 1 true]
            | None => PSPanic
            end
          else
            match idx s 1, slice_from s 1, slice_from s 2 with
            | Some d, Some t1, Some t2 => PSStop [op; mkPop (b2n d) t2 (Z.of_N (lenN t1)) true]
            | _, _, _ => PSPanic
            end
        else if (len =? 1)%Z then PSNext (mkPop val [] len false) (skipn 1 s) cb'      (* i++ *)
        else if (1 <? len)%Z then
          let n := Z.to_N len in
          if lenN s <? n then PSErr
          else match slice s 1 n with
               | Some d => PSNext (mkPop val d len false) (skipn (N.to_nat n) s) cb'
               | None => PSPanic
               end
        else if (len <? 0)%Z then
          let h := Z.to_N (- len) in
          match slice_from s 1 with
          | None => PSPanic
          | Some t =>
              if lenN t <? h then PSErr
              else
                let lopt :=
                  if (len =? -1)%Z then match idx s 1 with Some a => Some (Some (b2n a)) | None => None end
                  else if (len =? -2)%Z then
                    match idx s 2, idx s 1 with
                    | Some b, Some a => Some (Some (N.lor (N.shiftl (b2n b) 8) (b2n a)))
                    | _, _ => None
                    end
                  else if (len =? -4)%Z then
                    match idx s 4, idx s 3, idx s 2, idx s 1 with
                    | Some d, Some c, Some b, Some a =>
                        Some (Some (N.lor (N.lor (N.lor (N.shiftl (b2n d) 24) (N.shiftl (b2n c) 16)) (N.shiftl (b2n b) 8)) (b2n a)))
                    | _, _, _, _ => None
                    end
                  else Some None in                                      (* "invalid opcode length" *)
                match lopt with
                | None => PSPanic
                | Some None => PSErr
                | Some (Some l) =>
                    let offset := 1 + h in
                    match slice_from s offset with
                    | None => PSPanic
                    | Some t2 =>
                        if lenN t2 <? l then PSErr
                        else match slice s offset (offset + l) with
                             | Some d => PSNext (mkPop val d len false) (skipn (N.to_nat (offset + l)) s) cb'
                             | None => PSPanic
                             end
                    end
                end
          end
        else PSNext (mkPop val [] len false) s cb'      (* length 0: no case applies, i is not advanced *)
  end.

Definition ocons {A} (a : A) (r : outcome (list A)) : outcome (list A) :=
  match r with Ok l => Ok (a :: l) | Err => Err | Panic => Panic | Fuel => Fuel end.

Fixpoint parse_loop (fuel : nat) (eocs : bool) (cb : Z) (s : bytes) : outcome (list parsed_op) :=
  match s with
  | [] => Ok []
  | _ :: _ =>
      match fuel with
      | O => Fuel
      | S f =>
          match parse_step eocs cb s with
          | PSNext o rest cb' => ocons o (parse_loop f eocs cb' rest)
          | PSStop ops => Ok ops
          | PSErr => Err
          | PSPanic => Panic
          end
      end
  end.

(** DefaultOpcodeParser{ErrorOnCheckSig: eocs}.Parse *)
Definition parse (eocs : bool) (s : bytes) : outcome (list parsed_op) := parse_loop (List.length s) eocs 0%Z s.

(** ParsedOpcode.bytes *)
Definition op_bytes (o : parsed_op) : outcome bytes :=
  let val := n2b (p_op o) in
  let len := p_len o in
  let data := p_data o in
  if (len =? 1)%Z then (if lenN data =? 0 then Ok [val] else Err)
  else
    let l := lenN data in
    let '(ret, nbytes) :=
      if (len <? 0)%Z then
        if (len =? -1)%Z then ([val; n2b l], Z.of_N (b2n (n2b l) + 2))
        else if (len =? -2)%Z then (val :: le_enc 2 l, Z.of_N (le_dec (le_enc 2 l) + 3))
        else if (len =? -4)%Z then (val :: le_enc 4 l, Z.of_N (le_dec (le_enc 4 l) + 5))
        else ([val], len)
      else ([val], len) in
    let ret := ret ++ data in
    if (Z.of_N (lenN ret) =? nbytes)%Z then Ok ret else Err.

(** DefaultOpcodeParser.Unparse *)
Fixpoint unparse (ops : list parsed_op) : outcome bytes :=
  match ops with
  | [] => Ok []
  | o :: r =>
      match op_bytes o with
      | Ok b => match unparse r with Ok t => Ok (b ++ t) | x => x end
      | Err => Err | Panic => Panic | Fuel => Fuel
      end
  end.

(** the DecodeParts view of a parsed op: a push is its data, any other opcode is the byte itself.
    (OP_0 has length 1 in the table: DecodeParts returns it as [[0x00]].) *)
Definition is_push_len (len : Z) : bool := negb (len =? 1)%Z.
Definition part_of (o : parsed_op) : bytes :=
  if is_push_len (p_len o) then p_data o else [n2b (p_op o)].
