(** Model of the PUBLIC debugger object of go-bt (C19): bscript/interpreter/debug/debugger.go (+ options.go).

    [debug.NewDebugger(opts...)] returns an object holding one list of handler functions per callback of
    interpreter.Debugger (14 lists); the 14 [Attach...] methods append a function at the END of one list
    ([d.xFns = append(d.xFns, fn)]); the 14 methods of interpreter.Debugger that the engine calls
    ([BeforeExecute(state)], ..., [AfterStackPop(state, data)]) are all the same loop

        for _, fn := range d.xFns { fn(state) }          resp.  fn(state, data)

    i.e. the handlers of THAT event only, in registration order, each once.

    What the handlers of one event are handed.  The engine builds ONE State per callback ([t.debug.X(t.state.State())],
    thread.go:814-850; [s.debug.X(s.sh.State(), s.debugData(bb))], stack.go:388-402: a fresh deep copy for every call of a
    Debugger method) and the loop above passes that SAME [*State] pointer, and for the stack callbacks the SAME [data]
    slice, to every handler of the event.  So the object is shared between the handlers of one occurrence of one event:
    whatever a handler leaves in the State (it holds a pointer: every field, including the length of the stacks) and in
    the bytes of [data] (it holds the slice by value: the bytes, not the length) is what the NEXT handler of the same
    event is shown.  Nothing survives to the next event (next callback = next copy), and nothing reaches the engine
    (model/Debug.v: a debugger only receives values; that the Go values are copies is the run-time fact decided by the
    harness's scribbling debuggers).  This is modelled precisely: a handler RETURNS what it leaves in the object it was
    handed, and [run_handlers] threads that through the handlers of the event.

    Not modelled: the [err] argument of the AfterError handlers (error values/strings are not modelled anywhere in
    C19); of the State only the two stacks ([snapshot]), as in model/Debug.v.

    The option: [WithRewind] sets [debugOpts.rewind], and NewDebugger drops the options record after the loop that
    fills it: the object returned does not depend on it ([new_debugger_ignores_rewind]). *)
From Coq Require Import ZArith NArith Lia List Bool.
From Coq Require Import Strings.Byte.
From GoBT Require Import lib.Bytes model.ScriptNum model.Interp model.Debug model.DebugStack.
Import ListNotations.

(** the 14 callbacks, in the order of the fields of the Go struct [debugger] *)
Inductive fevent :=
| HBeforeExecute | HAfterExecute
| HBeforeStep | HAfterStep
| HBeforeExecuteOpcode | HAfterExecuteOpcode
| HBeforeScriptChange | HAfterScriptChange
| HAfterSuccess | HAfterError
| HBeforeStackPush | HAfterStackPush
| HBeforeStackPop | HAfterStackPop.

Definition fevent_idx (e : fevent) : nat :=
  match e with
  | HBeforeExecute => 0 | HAfterExecute => 1 | HBeforeStep => 2 | HAfterStep => 3
  | HBeforeExecuteOpcode => 4 | HAfterExecuteOpcode => 5 | HBeforeScriptChange => 6 | HAfterScriptChange => 7
  | HAfterSuccess => 8 | HAfterError => 9 | HBeforeStackPush => 10 | HAfterStackPush => 11
  | HBeforeStackPop => 12 | HAfterStackPop => 13
  end.
Definition fevent_eqb (a b : fevent) : bool := Nat.eqb (fevent_idx a) (fevent_idx b).

Lemma fevent_eqb_spec a b : fevent_eqb a b = true <-> a = b.
Proof. split; [destruct a, b; (reflexivity || discriminate) | intros ->; destruct b; reflexivity]. Qed.
Lemma fevent_eqb_refl a : fevent_eqb a a = true.
Proof. apply fevent_eqb_spec. reflexivity. Qed.

(** the lifecycle callbacks of model/Debug.v among them *)
Definition hook_of (e : ev) : fevent :=
  match e with
  | BE => HBeforeExecute | AE => HAfterExecute | BS => HBeforeStep | AS => HAfterStep
  | BO => HBeforeExecuteOpcode | AO => HAfterExecuteOpcode | BC => HBeforeScriptChange | AC => HAfterScriptChange
  | EOK => HAfterSuccess | EER => HAfterError
  end.

(** ** Handlers.  [U]: whatever the closures registered with the object have captured (they may share it).
    A handler is given the State object (here: its two stacks) and, for three of the stack callbacks, the data; it
    returns what it LEAVES in the State object (and in the bytes of [data]) and the new user state.
    ThreadStateFunc / ExecutionErrorFunc: [tsf];  StackFunc: [stf]. *)
Definition tsf (U : Type) : Type := snapshot -> U -> snapshot * U.
Definition stf (U : Type) : Type := snapshot -> bytes -> U -> snapshot * bytes * U.

(** handlers that only look *)
Definition ro_ts {U} (f : snapshot -> U -> U) : tsf U := fun sn u => (sn, f sn u).
Definition ro_st {U} (f : snapshot -> bytes -> U -> U) : stf U := fun sn data u => (sn, data, f sn data u).

(** a ThreadStateFunc seen as a function of (state, data) that does not touch the data *)
Definition lift_ts {U} (f : tsf U) : stf U := fun sn data u => (fst (f sn u), data, snd (f sn u)).

Definition read_only {U} (h : stf U) : Prop := forall sn data u, fst (h sn data u) = (sn, data).

(** ** The object *)
Record fanout (U : Type) := mkFanout {
  beforeExecuteFns : list (tsf U);
  afterExecuteFns : list (tsf U);
  beforeStepFns : list (tsf U);
  afterStepFns : list (tsf U);
  beforeExecuteOpcodeFns : list (tsf U);
  afterExecuteOpcodeFns : list (tsf U);
  beforeScriptChangeFns : list (tsf U);
  afterScriptChangeFns : list (tsf U);
  afterSuccessFns : list (tsf U);
  afterErrorFns : list (tsf U);            (* ExecutionErrorFunc; the error argument is not modelled *)
  beforeStackPushFns : list (stf U);
  afterStackPushFns : list (stf U);
  beforeStackPopFns : list (tsf U);
  afterStackPopFns : list (stf U)
}.
Arguments mkFanout {U}.
Arguments beforeExecuteFns {U}. Arguments afterExecuteFns {U}. Arguments beforeStepFns {U}. Arguments afterStepFns {U}.
Arguments beforeExecuteOpcodeFns {U}. Arguments afterExecuteOpcodeFns {U}. Arguments beforeScriptChangeFns {U}.
Arguments afterScriptChangeFns {U}. Arguments afterSuccessFns {U}. Arguments afterErrorFns {U}.
Arguments beforeStackPushFns {U}. Arguments afterStackPushFns {U}. Arguments beforeStackPopFns {U}.
Arguments afterStackPopFns {U}.

(** NewDebugger: every list empty; the options are read into a record that is then dropped *)
Definition new_debugger {U} (rewind : bool) : fanout U := mkFanout [] [] [] [] [] [] [] [] [] [] [] [] [] [].

Lemma new_debugger_ignores_rewind {U} : forall r r', @new_debugger U r = @new_debugger U r'.
Proof. reflexivity. Qed.

(** the 14 Attach methods: one registration = the method called and the function passed *)
Inductive reg (U : Type) :=
| AttachBeforeExecute (f : tsf U) | AttachAfterExecute (f : tsf U)
| AttachBeforeStep (f : tsf U) | AttachAfterStep (f : tsf U)
| AttachBeforeExecuteOpcode (f : tsf U) | AttachAfterExecuteOpcode (f : tsf U)
| AttachBeforeScriptChange (f : tsf U) | AttachAfterScriptChange (f : tsf U)
| AttachAfterSuccess (f : tsf U) | AttachAfterError (f : tsf U)
| AttachBeforeStackPush (f : stf U) | AttachAfterStackPush (f : stf U)
| AttachBeforeStackPop (f : tsf U) | AttachAfterStackPop (f : stf U).
Arguments AttachBeforeExecute {U}. Arguments AttachAfterExecute {U}. Arguments AttachBeforeStep {U}.
Arguments AttachAfterStep {U}. Arguments AttachBeforeExecuteOpcode {U}. Arguments AttachAfterExecuteOpcode {U}.
Arguments AttachBeforeScriptChange {U}. Arguments AttachAfterScriptChange {U}. Arguments AttachAfterSuccess {U}.
Arguments AttachAfterError {U}. Arguments AttachBeforeStackPush {U}. Arguments AttachAfterStackPush {U}.
Arguments AttachBeforeStackPop {U}. Arguments AttachAfterStackPop {U}.

Definition reg_event {U} (r : reg U) : fevent :=
  match r with
  | AttachBeforeExecute _ => HBeforeExecute | AttachAfterExecute _ => HAfterExecute
  | AttachBeforeStep _ => HBeforeStep | AttachAfterStep _ => HAfterStep
  | AttachBeforeExecuteOpcode _ => HBeforeExecuteOpcode | AttachAfterExecuteOpcode _ => HAfterExecuteOpcode
  | AttachBeforeScriptChange _ => HBeforeScriptChange | AttachAfterScriptChange _ => HAfterScriptChange
  | AttachAfterSuccess _ => HAfterSuccess | AttachAfterError _ => HAfterError
  | AttachBeforeStackPush _ => HBeforeStackPush | AttachAfterStackPush _ => HAfterStackPush
  | AttachBeforeStackPop _ => HBeforeStackPop | AttachAfterStackPop _ => HAfterStackPop
  end.

(** the function registered, as a function of (state, data) *)
Definition reg_stf {U} (r : reg U) : stf U :=
  match r with
  | AttachBeforeExecute f | AttachAfterExecute f | AttachBeforeStep f | AttachAfterStep f
  | AttachBeforeExecuteOpcode f | AttachAfterExecuteOpcode f | AttachBeforeScriptChange f | AttachAfterScriptChange f
  | AttachAfterSuccess f | AttachAfterError f | AttachBeforeStackPop f => lift_ts f
  | AttachBeforeStackPush f | AttachAfterStackPush f | AttachAfterStackPop f => f
  end.

(** [d.xFns = append(d.xFns, fn)]: at the end of the list of that event, the other 13 lists untouched *)
Definition attach {U} (r : reg U) (d : fanout U) : fanout U :=
  let '(mkFanout be ae bs as_ bo ao bc ac ok er bpu apu bpo apo) := d in
  match r with
  | AttachBeforeExecute f => mkFanout (be ++ [f]) ae bs as_ bo ao bc ac ok er bpu apu bpo apo
  | AttachAfterExecute f => mkFanout be (ae ++ [f]) bs as_ bo ao bc ac ok er bpu apu bpo apo
  | AttachBeforeStep f => mkFanout be ae (bs ++ [f]) as_ bo ao bc ac ok er bpu apu bpo apo
  | AttachAfterStep f => mkFanout be ae bs (as_ ++ [f]) bo ao bc ac ok er bpu apu bpo apo
  | AttachBeforeExecuteOpcode f => mkFanout be ae bs as_ (bo ++ [f]) ao bc ac ok er bpu apu bpo apo
  | AttachAfterExecuteOpcode f => mkFanout be ae bs as_ bo (ao ++ [f]) bc ac ok er bpu apu bpo apo
  | AttachBeforeScriptChange f => mkFanout be ae bs as_ bo ao (bc ++ [f]) ac ok er bpu apu bpo apo
  | AttachAfterScriptChange f => mkFanout be ae bs as_ bo ao bc (ac ++ [f]) ok er bpu apu bpo apo
  | AttachAfterSuccess f => mkFanout be ae bs as_ bo ao bc ac (ok ++ [f]) er bpu apu bpo apo
  | AttachAfterError f => mkFanout be ae bs as_ bo ao bc ac ok (er ++ [f]) bpu apu bpo apo
  | AttachBeforeStackPush f => mkFanout be ae bs as_ bo ao bc ac ok er (bpu ++ [f]) apu bpo apo
  | AttachAfterStackPush f => mkFanout be ae bs as_ bo ao bc ac ok er bpu (apu ++ [f]) bpo apo
  | AttachBeforeStackPop f => mkFanout be ae bs as_ bo ao bc ac ok er bpu apu (bpo ++ [f]) apo
  | AttachAfterStackPop f => mkFanout be ae bs as_ bo ao bc ac ok er bpu apu bpo (apo ++ [f])
  end.

(** a sequence of Attach calls on one object, first call first *)
Definition attach_all {U} (rs : list (reg U)) (d : fanout U) : fanout U := fold_left (fun d r => attach r d) rs d.

(** the list the method of event [e] ranges over *)
Definition handlers_of {U} (d : fanout U) (e : fevent) : list (stf U) :=
  match e with
  | HBeforeExecute => map lift_ts (beforeExecuteFns d) | HAfterExecute => map lift_ts (afterExecuteFns d)
  | HBeforeStep => map lift_ts (beforeStepFns d) | HAfterStep => map lift_ts (afterStepFns d)
  | HBeforeExecuteOpcode => map lift_ts (beforeExecuteOpcodeFns d)
  | HAfterExecuteOpcode => map lift_ts (afterExecuteOpcodeFns d)
  | HBeforeScriptChange => map lift_ts (beforeScriptChangeFns d)
  | HAfterScriptChange => map lift_ts (afterScriptChangeFns d)
  | HAfterSuccess => map lift_ts (afterSuccessFns d) | HAfterError => map lift_ts (afterErrorFns d)
  | HBeforeStackPush => beforeStackPushFns d | HAfterStackPush => afterStackPushFns d
  | HBeforeStackPop => map lift_ts (beforeStackPopFns d) | HAfterStackPop => afterStackPopFns d
  end.

(** what a handler can do to the [data] slice it was passed by value: overwrite its bytes, not change its length *)
Definition keep_len (data left : bytes) : bytes := firstn (length data) left ++ skipn (length left) data.

(** [for _, fn := range fns { fn(state, data) }]: the same State object and the same data slice go to every handler,
    so each is shown what its predecessors left there *)
Fixpoint run_handlers {U} (hs : list (stf U)) (sn : snapshot) (data : bytes) (u : U) : snapshot * bytes * U :=
  match hs with
  | [] => (sn, data, u)
  | h :: r =>
      let res := h sn data u in
      run_handlers r (fst (fst res)) (keep_len data (snd (fst res))) (snd res)
  end.

(** one call of the Debugger method of event [e] by the engine; the State object dies with the call *)
Definition dispatch {U} (e : fevent) (sn : snapshot) (data : bytes) (d : fanout U) (u : U) : U :=
  snd (run_handlers (handlers_of d e) sn data u).

(** ** The object as a debugger of model/Debug.v: the engine's lifecycle callbacks (no data) *)
Definition fan_debugger {U} (d : fanout U) : debugger U :=
  mkDebugger (fun u e sn => dispatch (hook_of e) sn [] d u).

(** a call of one of the 14 methods: event, State shown, data (empty for the 11 methods without) *)
Definition fcall : Type := fevent * snapshot * bytes.
Definition fc_event (c : fcall) : fevent := fst (fst c).
Definition fc_state (c : fcall) : snapshot := snd (fst c).
Definition fc_data (c : fcall) : bytes := snd c.

(** a sequence of calls (lifecycle and stack callbacks) made on the object *)
Definition fan_replay {U} (d : fanout U) (tr : list fcall) (u : U) : U :=
  fold_left (fun u c => dispatch (fc_event c) (fc_state c) (fc_data c) d u) tr u.

(** the calls the model's engine makes *)
Definition lifecycle_calls (tr : list (ev * snapshot)) : list fcall :=
  map (fun es => (hook_of (fst es), snd es, [])) tr.

(** the stack callbacks of a full trace of model/DebugStack.v spelled out *)
Definition expand1 (e : fev) : list fevent :=
  match e with
  | FL x => [hook_of x]
  | FPush => [HBeforeStackPush; HAfterStackPush]
  | FPop => [HBeforeStackPop; HAfterStackPop]
  | FPopFail => [HBeforeStackPop]
  end.
Definition expand (tr : list fev) : list fevent := flat_map expand1 tr.

(** ** Recording handlers: each writes down its event and its label.  [L]: labels. *)
Definition rec_ts {L} (e : fevent) (l : L) : tsf (list (fevent * L)) := ro_ts (fun _ u => u ++ [(e, l)]).
Definition rec_st {L} (e : fevent) (l : L) : stf (list (fevent * L)) := ro_st (fun _ _ u => u ++ [(e, l)]).
Definition rec_reg {L} (e : fevent) (l : L) : reg (list (fevent * L)) :=
  match e with
  | HBeforeExecute => AttachBeforeExecute (rec_ts e l) | HAfterExecute => AttachAfterExecute (rec_ts e l)
  | HBeforeStep => AttachBeforeStep (rec_ts e l) | HAfterStep => AttachAfterStep (rec_ts e l)
  | HBeforeExecuteOpcode => AttachBeforeExecuteOpcode (rec_ts e l)
  | HAfterExecuteOpcode => AttachAfterExecuteOpcode (rec_ts e l)
  | HBeforeScriptChange => AttachBeforeScriptChange (rec_ts e l)
  | HAfterScriptChange => AttachAfterScriptChange (rec_ts e l)
  | HAfterSuccess => AttachAfterSuccess (rec_ts e l) | HAfterError => AttachAfterError (rec_ts e l)
  | HBeforeStackPush => AttachBeforeStackPush (rec_st e l) | HAfterStackPush => AttachAfterStackPush (rec_st e l)
  | HBeforeStackPop => AttachBeforeStackPop (rec_ts e l) | HAfterStackPop => AttachAfterStackPop (rec_st e l)
  end.

(** the object after the registrations [regs] (event, label), in that order, of recording handlers *)
Definition recording_fanout {L} (regs : list (fevent * L)) : fanout (list (fevent * L)) :=
  attach_all (map (fun el => rec_reg (fst el) (snd el)) regs) (new_debugger false).

(** labels registered for event [e], in registration order *)
Definition labels_for {L} (e : fevent) (regs : list (fevent * L)) : list L :=
  map snd (filter (fun el => fevent_eqb (fst el) e) regs).

(** what the documentation promises ("executed on a FIFO basis"): per call, the handlers of that event, in
    registration order, each once *)
Definition expected_log {L} (regs : list (fevent * L)) (events : list fevent) : list (fevent * L) :=
  flat_map (fun e => map (fun l => (e, l)) (labels_for e regs)) events.

(** the calls with nothing to show (recording handlers do not look) *)
Definition blank_calls (events : list fevent) : list fcall := map (fun e => (e, mkSnap [] [], [])) events.

(** ** Handlers with a state of their own.  Slot [k] of [nat -> H] belongs to the [k]-th registered handler: it reads
    and writes only that slot (closures that share nothing). *)
Definition upd {H} (k : nat) (v : H) (u : nat -> H) : nat -> H := fun j => if Nat.eqb j k then v else u j.

Definition slot_ts {H} (k : nat) (f : tsf H) : tsf (nat -> H) :=
  fun sn u => (fst (f sn (u k)), upd k (snd (f sn (u k))) u).
Definition slot_st {H} (k : nat) (h : stf H) : stf (nat -> H) :=
  fun sn data u => (fst (h sn data (u k)), upd k (snd (h sn data (u k))) u).

Definition slot_reg {H} (k : nat) (r : reg H) : reg (nat -> H) :=
  match r with
  | AttachBeforeExecute f => AttachBeforeExecute (slot_ts k f) | AttachAfterExecute f => AttachAfterExecute (slot_ts k f)
  | AttachBeforeStep f => AttachBeforeStep (slot_ts k f) | AttachAfterStep f => AttachAfterStep (slot_ts k f)
  | AttachBeforeExecuteOpcode f => AttachBeforeExecuteOpcode (slot_ts k f)
  | AttachAfterExecuteOpcode f => AttachAfterExecuteOpcode (slot_ts k f)
  | AttachBeforeScriptChange f => AttachBeforeScriptChange (slot_ts k f)
  | AttachAfterScriptChange f => AttachAfterScriptChange (slot_ts k f)
  | AttachAfterSuccess f => AttachAfterSuccess (slot_ts k f) | AttachAfterError f => AttachAfterError (slot_ts k f)
  | AttachBeforeStackPush f => AttachBeforeStackPush (slot_st k f) | AttachAfterStackPush f => AttachAfterStackPush (slot_st k f)
  | AttachBeforeStackPop f => AttachBeforeStackPop (slot_ts k f) | AttachAfterStackPop f => AttachAfterStackPop (slot_st k f)
  end.

(** registrations [rs] in that order, the first given slot [k] *)
Fixpoint slot_regs {H} (k : nat) (rs : list (reg H)) : list (reg (nat -> H)) :=
  match rs with
  | [] => []
  | r :: rest => slot_reg k r :: slot_regs (S k) rest
  end.

(** the object carrying all of [rs] / carrying only the [j]-th of them (in its slot [j]) *)
Definition fanout_of {H} (rs : list (reg H)) : fanout (nat -> H) := attach_all (slot_regs 0 rs) (new_debugger false).
Definition fanout_alone {H} (j : nat) (r : reg H) : fanout (nat -> H) := attach (slot_reg j r) (new_debugger false).

(** what handler [r] does with a sequence of calls when nobody else is there and nothing is between it and the
    engine: it is run on the calls of its event, shown what the engine handed out *)
Definition own_replay {H} (r : reg H) (tr : list fcall) (h : H) : H :=
  fold_left (fun h c => if fevent_eqb (reg_event r) (fc_event c) then snd (reg_stf r (fc_state c) (fc_data c) h) else h) tr h.
