(** Model of the script inspection queries of bscript/script.go (IsP2PKH, IsP2PK, IsP2SH, IsData,
    IsMultiSigOut, IsP2PKHInscription / isP2PKHInscriptionHelper, ScriptType, PublicKeyHash,
    Addresses up to the extracted hash, ParseInscription with isOpZeroPart and Slice) and of
    nodeOutputJSON.fromOutput (txjson_node.go), in the shape of the code.

    Every [parts[i]], [parts[i][j]], [b[i]], [b[i:j]] of the Go code is a checked primitive
    (lib/Checked.v): an out-of-range access makes the query return [Panic].  "Never panics" is then
    the theorem  query s <> Panic  (proofs/ClassifyProofs.v).  Go's [&&] / [||] short-circuit, so the
    right operand is only evaluated (and can only panic) when the left one does not decide. *)
From Coq Require Import List NArith Lia ZArith Bool String.
From Coq Require Import Strings.Byte.
From GoBT Require Import lib.Bytes lib.Checked model.Push model.Asm.
Import ListNotations.
Local Open Scope N_scope.
Local Open Scope bool_scope.

Definition OpDUP : N := 118.        Definition OpHASH160 : N := 169.
Definition OpDATA20 : N := 20.      Definition OpEQUALVERIFY : N := 136.
Definition OpEQUAL : N := 135.      Definition OpCHECKSIG : N := 172.
Definition OpCHECKMULTISIG : N := 174.
Definition OpRETURN : N := 106.     Definition OpFALSE : N := 0.
Definition OpIF : N := 99.          Definition OpENDIF : N := 104.
Definition OpTRUE : N := 81.        Definition Op16 : N := 96.

(** short-circuit conjunction / disjunction of computations that may panic *)
Definition oand (a b : outcome bool) : outcome bool := obind a (fun x => if x then b else Ok false).
Definition oor (a b : outcome bool) : outcome bool := obind a (fun x => if x then Ok true else b).
Notation "a &&& b" := (oand a b) (at level 40, left associativity).
Notation "a ||| b" := (oor a b) (at level 50, left associativity).

(** b[i] == v *)
Definition byte_is (b : bytes) (i v : N) : outcome bool := chk (idx b i) (fun x => Ok (b2n x =? v)).
(** len(parts[i]) *)
Definition part_len (parts : list bytes) (i : N) : outcome N := chk (idx parts i) (fun p => Ok (lenN p)).
(** parts[i][j] *)
Definition part_byte (parts : list bytes) (i j : N) : outcome N :=
  chk (idx parts i) (fun p => chk (idx p j) (fun x => Ok (b2n x))).
Definition part_byte_is (parts : list bytes) (i j v : N) : outcome bool :=
  obind (part_byte parts i j) (fun x => Ok (x =? v)).
Definition part_nonempty (parts : list bytes) (i : N) : outcome bool :=
  obind (part_len parts i) (fun l => Ok (0 <? l)).

(** IsP2PKH *)
Definition is_p2pkh (b : bytes) : outcome bool :=
  Ok (lenN b =? 25) &&& byte_is b 0 OpDUP &&& byte_is b 1 OpHASH160 &&& byte_is b 2 OpDATA20 &&&
  byte_is b 23 OpEQUALVERIFY &&& byte_is b 24 OpCHECKSIG.

(** IsP2SH *)
Definition is_p2sh (b : bytes) : outcome bool :=
  Ok (lenN b =? 23) &&& byte_is b 0 OpHASH160 &&& byte_is b 1 OpDATA20 &&& byte_is b 22 OpEQUAL.

(** IsData *)
Definition is_data (b : bytes) : outcome bool :=
  (Ok (0 <? lenN b) &&& byte_is b 0 OpRETURN) |||
  (Ok (1 <? lenN b) &&& byte_is b 0 OpFALSE &&& byte_is b 1 OpRETURN).

(** DecodeParts with [err != nil] as a value *)
Definition decoded (s : bytes) : outcome (option (list bytes)) :=
  match decode_parts s with
  | DOk parts => Ok (Some parts)
  | DErr _ => Ok None
  | DPanic => Panic
  | DFuel => Fuel
  end.

(** IsP2PK *)
Definition is_p2pk (s : bytes) : outcome bool :=
  obind (decoded s) (fun d =>
  match d with
  | None => Ok false
  | Some parts =>
      obind (Ok (lenNg parts =? 2) &&& part_nonempty parts 0 &&& part_nonempty parts 1 &&& part_byte_is parts 1 0 OpCHECKSIG)
        (fun guard =>
         if guard then
           chk (idx parts 0) (fun pubkey =>
           chk (idx pubkey 0) (fun v0 =>
             let version := b2n v0 in
             if ((version =? 4) || (version =? 6) || (version =? 7)) && (lenN pubkey =? 65) then Ok true
             else if ((version =? 3) || (version =? 2)) && (lenN pubkey =? 33) then Ok true
             else Ok false))
         else Ok false)
  end).

Definition is_small_int_op (op : N) : bool := (op =? 0) || ((OpTRUE <=? op) && (op <=? Op16)).

(** for i := 1; i < len(parts)-2; i++ { if len(parts[i]) < 1 { return false } } — [n] iterations from [i] *)
Fixpoint middle_nonempty (parts : list bytes) (i : N) (n : nat) : outcome bool :=
  match n with
  | O => Ok true
  | S k => obind (part_len parts i) (fun l => if l <? 1 then Ok false else middle_nonempty parts (i + 1) k)
  end.

(** IsMultiSigOut *)
Definition is_multisig_out (s : bytes) : outcome bool :=
  obind (is_data s) (fun data =>
  if data then Ok false
  else
    obind (decoded s) (fun d =>
    match d with
    | None => Ok false
    | Some parts =>
        let n := lenNg parts in
        if n <? 3 then Ok false
        else
          obind (obind (part_len parts 0) (fun l => if l <? 1 then Ok true
                                                      else obind (part_byte parts 0 0) (fun x => Ok (negb (is_small_int_op x)))))
            (fun bad_first =>
             if bad_first then Ok false
             else
               obind (middle_nonempty parts 1 (N.to_nat (n - 3))) (fun mid =>
               if negb mid then Ok false
               else
                 part_nonempty parts (n - 2) &&&
                 obind (part_byte parts (n - 2) 0) (fun x => Ok (is_small_int_op x)) &&&
                 part_nonempty parts (n - 1) &&&
                 part_byte_is parts (n - 1) 0 OpCHECKMULTISIG))
    end)).

(** for _, i := range []int{0, 1, 3, 4, 5, 6, 8, 10, 12} { if len(parts[i]) == 0 { return false } } *)
Fixpoint all_nonempty (parts : list bytes) (is : list N) : outcome bool :=
  match is with
  | [] => Ok true
  | i :: r => obind (part_len parts i) (fun l => if l =? 0 then Ok false else all_nonempty parts r)
  end.

(** isP2PKHInscriptionHelper *)
Definition inscription_helper (parts : list bytes) : outcome bool :=
  if lenNg parts <? 13 then Ok false
  else
    obind (all_nonempty parts [0; 1; 3; 4; 5; 6; 8; 10; 12]) (fun ne =>
    if negb ne then Ok false
    else
      obind (part_len parts 7) (fun l7 =>
      if l7 <? 3 then Ok false
      else
        let valid :=
          part_byte_is parts 0 0 OpDUP &&& part_byte_is parts 1 0 OpHASH160 &&&
          part_byte_is parts 3 0 OpEQUALVERIFY &&& part_byte_is parts 4 0 OpCHECKSIG &&&
          part_byte_is parts 5 0 OpFALSE &&& part_byte_is parts 6 0 OpIF &&&
          part_byte_is parts 7 0 111 &&& part_byte_is parts 7 1 114 &&& part_byte_is parts 7 2 100 &&&
          part_byte_is parts 8 0 OpTRUE &&& part_byte_is parts 10 0 OpFALSE &&& part_byte_is parts 12 0 OpENDIF in
        obind valid (fun v =>                      (* [valid] is computed before the [len(parts) > 13] test *)
        if 13 <? lenNg parts then
          part_nonempty parts 13 &&& part_byte_is parts 13 0 OpRETURN &&& Ok v
        else Ok v))).

(** IsP2PKHInscription *)
Definition is_p2pkh_inscription (s : bytes) : outcome bool :=
  obind (decoded s) (fun d => match d with None => Ok false | Some parts => inscription_helper parts end).

Inductive stype := TEmpty | TPubKeyHash | TPubKey | TNullData | TMultiSig | TInscription | TNonStandard.

(** ScriptType: the order of the tests is the precedence *)
Definition script_type (s : bytes) : outcome stype :=
  if lenN s =? 0 then Ok TEmpty
  else
    obind (is_p2pkh s) (fun a => if a then Ok TPubKeyHash else
    obind (is_p2pk s) (fun b => if b then Ok TPubKey else
    obind (is_data s) (fun c => if c then Ok TNullData else
    obind (is_multisig_out s) (fun d => if d then Ok TMultiSig else
    obind (is_p2pkh_inscription s) (fun e => if e then Ok TInscription else Ok TNonStandard))))).

(** PublicKeyHash: ErrEmptyScript / ErrNotP2PKH / decode error are all [Err] *)
Definition public_key_hash (s : bytes) : outcome bytes :=
  if lenN s =? 0 then Err
  else
    obind (byte_is s 0 OpDUP) (fun is_dup =>
    if negb is_dup then Err
    else if lenN s <=? 2 then Err
    else
      obind (byte_is s 1 OpHASH160) (fun is_h =>
      if negb is_h then Err
      else
        chk (slice_from s 2) (fun t =>
        obind (decoded t) (fun d =>
        match d with
        | None => Err
        | Some parts => chk (idx parts 0) (fun p => Ok p)
        end)))).

(** Addresses, up to the hash the address is made of: [] or [hash] *)
Definition addresses (s : bytes) : outcome (list bytes) :=
  obind (is_p2pkh s) (fun a =>
  if a then obind (public_key_hash s) (fun h => Ok [h]) else Ok []).

(** isOpZeroPart: walk over parts[:idx] re-deriving the offset of each token *)
Fixpoint walk_parts (b : bytes) (ps : list bytes) (pos : N) : outcome N :=
  match ps with
  | [] => Ok pos
  | part :: r =>
      chk (idx b pos) (fun o =>
        let op := b2n o in
        let step := if (1 <=? op) && (op <=? 75) then 1 + lenN part
                    else if op =? 76 then 2 + lenN part
                    else if op =? 77 then 3 + lenN part
                    else if op =? 78 then 5 + lenN part
                    else 1 in
        walk_parts b r (pos + step))
  end.
Definition is_op_zero_part (b : bytes) (parts : list bytes) (i : N) : outcome bool :=
  chk (slice_to parts i) (fun ps =>
  obind (walk_parts b ps 0) (fun pos => byte_is b pos 0)).

Record inscription := mkInscription { i_prefix : bytes; i_data : bytes; i_content_type : bytes }.

(** ParseInscription *)
Definition parse_inscription (s : bytes) : outcome inscription :=
  obind (decoded s) (fun d =>
  match d with
  | None => Err
  | Some p =>
      if lenN s <? 25 then Err
      else
        obind (is_p2pkh (firstn 25 s)) (fun isp =>      (* s.Slice(0, 25).IsP2PKH() *)
        if negb isp then Err
        else
        obind (inscription_helper p) (fun ok =>
        if negb ok then Err
        else
          chk (idx p 11) (fun data0 =>
          chk (idx p 9) (fun ct0 =>
          obind (is_op_zero_part s p 11) (fun z11 =>
          obind (is_op_zero_part s p 9) (fun z9 =>
          chk (slice s 0 25) (fun prefix =>
            Ok (mkInscription prefix (if z11 then [] else data0) (if z9 then [] else ct0)))))))))
  end).

(** nodeOutputJSON.fromOutput on the locking script: ToASM, Addresses (number of), ScriptType *)
Definition node_output (s : bytes) : outcome (string * N * stype) :=
  obind (to_asm s) (fun asm =>
  obind (addresses s) (fun a =>
  obind (script_type s) (fun t => Ok (asm, lenNg a, t)))).
