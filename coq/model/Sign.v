(** Model of go-bt's SIGNING path, in the shape of the code:
    unlocker/simple.go (Simple.UnlockingScript, Getter.Unlocker), bscript/unlockingscript.go
    (NewP2PKHUnlockingScript, through Script.AppendPushDataArray = EncodeParts of model/Push.v),
    txinput.go (InsertInputUnlockingScript, FillInput, FillAllInputs).

    The ECDSA signer (go-bk: bec.PrivateKey.Sign, Signature.Serialise, PubKey().SerialiseCompressed) is NOT
    modelled: it is the record [signer], the signing counterpart of [sig_oracle] of model/CheckSig.v; every
    theorem quantifies over all signers and the correspondence supplies the signatures go-bk produced.
    ScriptType is the model of model/Classify.v; CalcInputSignatureHash the one of model/SigHash.v.

    Go expressions that can panic are explicit: tx.Inputs[params.InputIdx] in UnlockingScript and
    tx.Inputs[index] in InsertInputUnlockingScript ([SgPanic]), and the panics / log.Fatal inside
    ScriptType and CalcInputSignatureHash are passed on ([SgPanic], [SgFatal]).
    sighash.Flag is a uint8: every [ht] below is meant to be < 256 (the theorems say so). *)
From Coq Require Import List NArith Bool.
From Coq Require Import Strings.Byte.
From GoBT Require Import lib.Bytes lib.VarInt lib.Checked model.Tx model.SigHash model.Push model.Classify.
Import ListNotations.
Local Open Scope N_scope.

(** ** the signer (a bec.PrivateKey as far as the unlocker uses it) *)
Record signer := mkSigner {
  sg_pub : bytes;                      (* PrivateKey.PubKey().SerialiseCompressed() *)
  sg_sign : bytes -> option bytes      (* PrivateKey.Sign(hash) then Signature.Serialise(): the DER bytes; None = Sign returned an error *)
}.

Inductive sign_err :=
| ENoUnlocker                 (* bt.ErrNoUnlocker *)
| EEmptyPrevScript            (* bt.ErrEmptyPreviousTxScript *)
| ENotP2PKH                   (* "currently only p2pkh supported" *)
| ESigHash (e : sig_err)      (* the error of CalcInputSignatureHash *)
| ESignFailed                 (* PrivateKey.Sign returned an error *)
| EPartTooBig                 (* NewP2PKHUnlockingScript: ErrPartTooBig *)
| EGetter.                    (* UnlockerGetter.Unlocker returned an error *)

Inductive sign_res (A : Type) :=
| SgOk (a : A)
| SgErr (e : sign_err)
| SgPanic                     (* index out of range *)
| SgFatal                     (* log.Fatal inside Tx.Clone (legacy digest) *)
| SgFuel.                     (* model artefact of the decoders underneath; proved unreachable elsewhere *)
Arguments SgOk {A}. Arguments SgErr {A}. Arguments SgPanic {A}. Arguments SgFatal {A}. Arguments SgFuel {A}.

(** sighash.AllForkID *)
Definition sh_all_forkid : N := 65.

(** [if params.SigHashFlags == 0 { params.SigHashFlags = sighash.AllForkID }] *)
Definition default_type (ht : N) : N := if ht =? 0 then sh_all_forkid else ht.

(** ** bscript.NewP2PKHUnlockingScript(pubKey, sig, sigHashFlag):
    sigBuf = sig ++ [uint8(flag)]; s.AppendPushDataArray([sigBuf, pubKey]) *)
Definition new_p2pkh_unlocking_script (pub sig : bytes) (ht : N) : sign_res bytes :=
  let sigBuf := sig ++ [n2b ht] in
  match encode_parts [sigBuf; pub] with
  | Some s => SgOk s
  | None => SgErr EPartTooBig
  end.

(** ** unlocker.Simple.UnlockingScript(ctx, tx, {InputIdx: idx, SigHashFlags: ht}) *)
Definition unlocking_script (s : signer) (t : tx) (idx ht : N) : sign_res bytes :=
  let ht := default_type ht in
  match nthN (tx_ins t) idx with
  | None => SgPanic                                              (* tx.Inputs[params.InputIdx] *)
  | Some inp =>
      match in_script inp with
      | None => SgErr EEmptyPrevScript
      | Some prev =>
          match script_type prev with
          | Ok TPubKeyHash | Ok TInscription =>
              match fst (calc_input_signature_hash t idx ht) with
              | SOk sh =>
                  match sg_sign s sh with
                  | None => SgErr ESignFailed
                  | Some sig => new_p2pkh_unlocking_script (sg_pub s) sig ht
                  end
              | SErr e => SgErr (ESigHash e)
              | SigHash.SPanic => SgPanic
              | SFatal => SgFatal
              | SFuel => SgFuel
              end
          | Ok _ => SgErr ENotP2PKH
          | Err => SgErr ENotP2PKH                               (* ScriptType has no error result *)
          | Panic => SgPanic
          | Fuel => SgFuel
          end
      end
  end.

(** a bt.Unlocker: the transaction as it stands, the input index, the hash type *)
Definition unlocker := tx -> N -> N -> sign_res bytes.

(** ** Tx.InsertInputUnlockingScript(index, s): tx.Inputs[index].UnlockingScript = s
    (the slice holds non-nil pointers, so the "no input at index" error is the index panic here) *)
Definition set_unlock (i : input) (u : bytes) : input :=
  mkInput (in_txid i) (in_vout i) u (in_seq i) (in_sats i) (in_script i).

Definition insert_input_unlocking_script (t : tx) (idx : N) (u : bytes) : sign_res tx :=
  match nthN (tx_ins t) idx with
  | None => SgPanic
  | Some _ =>
      SgOk (mkTx (tx_version t)
                 (mapi (fun j x => if j =? idx then set_unlock x u else x) (tx_ins t))
                 (tx_outs t) (tx_lock t))
  end.

(** ** Tx.FillInput(ctx, unlocker, {InputIdx: idx, SigHashFlags: ht}); [None] is the nil unlocker *)
Definition fill_input_with (u : option unlocker) (t : tx) (idx ht : N) : sign_res tx :=
  match u with
  | None => SgErr ENoUnlocker
  | Some unl =>
      let ht := default_type ht in
      match unl t idx ht with
      | SgOk us => insert_input_unlocking_script t idx us
      | SgErr e => SgErr e
      | SgPanic => SgPanic
      | SgFatal => SgFatal
      | SgFuel => SgFuel
      end
  end.

(** FillInput with an unlocker.Simple around the key [s] *)
Definition fill_input (s : option signer) (t : tx) (idx ht : N) : sign_res tx :=
  fill_input_with (option_map unlocking_script s) t idx ht.

(** ** Tx.FillAllInputs(ctx, ug).
    A bt.UnlockerGetter: the previous script of the input -> error ([None]) or an unlocker (possibly nil). *)
Definition getter := option bytes -> option (option unlocker).

(** [for i, in := range tx.Inputs { u, err := ug.Unlocker(ctx, in.PreviousTxScript); ...
      tx.FillInput(ctx, u, UnlockerParams{InputIdx: uint32(i), SigHashFlags: sighash.AllForkID}) }]
    [rest]: the inputs still to be visited (FillInput never touches PreviousTxScript), [i]: the loop counter *)
Fixpoint fill_all_from (ug : getter) (t : tx) (rest : list input) (i : N) : sign_res tx :=
  match rest with
  | [] => SgOk t
  | inp :: r =>
      match ug (in_script inp) with
      | None => SgErr EGetter
      | Some u =>
          match fill_input_with u t (i mod two32) sh_all_forkid with
          | SgOk t' => fill_all_from ug t' r (i + 1)
          | other => other
          end
      end
  end.

Definition fill_all_inputs (ug : getter) (t : tx) : sign_res tx := fill_all_from ug t (tx_ins t) 0.

(** getters that hand out unlocker.Simple values: unlocker.Getter (one key for every script) and a per-script
    key table ([None]: no key for this script, an error) *)
Definition simple_getter (key_of : option bytes -> option signer) : getter :=
  fun prev => match key_of prev with Some s => Some (Some (unlocking_script s)) | None => None end.
Definition unlocker_getter (s : signer) : getter := simple_getter (fun _ => Some s).
