(** The documented callback order including the stack callbacks (C19).

    model/Debug.v's traces contain the ten lifecycle callbacks; the engine also fires BeforeStackPush /
    AfterStackPush and BeforeStackPop / AfterStackPop around every push and pop of either stack.  Those are nested
    inside the lifecycle: "execute > step > opcode > stack push/pop > script change > success or error".  This
    file extends the lifecycle automaton [lstep] with them:

    - a push is the pair BeforeStackPush AfterStackPush, a pop the pair BeforeStackPop AfterStackPop, with nothing
      in between; a pop from an empty stack has no after-callback and is followed at once by AfterExecute (the
      opcode failed);
    - stack callbacks occur only while an opcode runs (after BeforeExecuteOpcode), between the opcode and the
      script change (after AfterExecuteOpcode: the alt stack is dropped at the end of a script; after
      BeforeExecuteOpcode on an early return likewise), in the final check (after AfterExecute of a completed
      run: the result is popped) and — in a pre-Genesis pay-to-script-hash run only — after a script change (the
      first script's result is popped and the saved stack installed after the shift to the redeem script).

    The interpreter model does not produce these events (it has no notion of individual pushes and pops); the
    observed full trace of every run is checked against this automaton inside Coq (corr/C19.v), and
    [full_ok_project] shows that acceptance here implies acceptance of the lifecycle part by [lifecycle_ok], the
    automaton the model's traces are proved to satisfy. *)
From Coq Require Import List Bool.
From GoBT Require Import model.Debug.
Import ListNotations.

Inductive fev :=
| FL (e : ev)     (* a lifecycle callback *)
| FPush           (* BeforeStackPush immediately followed by AfterStackPush *)
| FPop            (* BeforeStackPop immediately followed by AfterStackPop *)
| FPopFail.       (* BeforeStackPop with no AfterStackPop: the stack was empty *)

(** besides the lifecycle state: nothing special / a failed pop has just been seen (then only AfterExecute may
    follow) / the alt stack is being dropped at the end of a script (after AfterExecuteOpcode: then only further pops
    and the script change may follow — the checks that can still fail the step come BEFORE the stacks are touched) *)
Inductive fmode := MNormal | MFailed | MCleaning.

Definition stack_ok (p2sh : bool) (q : lstate) : bool :=
  match q with
  | QBO | QAO | QAEok => true
  | QACe => p2sh
  | _ => false
  end.

Definition lift (m : fmode) (o : option lstate) : option (lstate * fmode) :=
  match o with Some q' => Some (q', m) | None => None end.

Definition fstep (p2sh : bool) (st : lstate * fmode) (e : fev) : option (lstate * fmode) :=
  let '(q, m) := st in
  match m with
  | MFailed =>
      match e, q with
      | FL AE, QBO => lift MNormal (lstep q AE)
      | _, _ => None
      end
  | MCleaning =>
      match e with
      | FPop => Some (q, MCleaning)
      | FL BC => lift MNormal (lstep q BC)
      | _ => None
      end
  | MNormal =>
      match e with
      | FL e => lift MNormal (lstep q e)
      | FPush => match q with QAO => None | _ => if stack_ok p2sh q then Some (q, MNormal) else None end
      | FPop => match q with QAO => Some (q, MCleaning) | _ => if stack_ok p2sh q then Some (q, MNormal) else None end
      | FPopFail => match q with QBO => Some (q, MFailed) | _ => None end
      end
  end.

Fixpoint frun (p2sh : bool) (st : lstate * fmode) (tr : list fev) : option (lstate * fmode) :=
  match tr with
  | [] => Some st
  | e :: r => match fstep p2sh st e with Some st' => frun p2sh st' r | None => None end
  end.

Definition full_lifecycle_ok (p2sh : bool) (tr : list fev) : bool :=
  match frun p2sh (QStart, MNormal) tr with
  | Some (QOk, MNormal) | Some (QErr, MNormal) => true
  | _ => false
  end.

(** the lifecycle callbacks of a full trace *)
Fixpoint project (tr : list fev) : list ev :=
  match tr with
  | [] => []
  | FL e :: r => e :: project r
  | _ :: r => project r
  end.

Lemma fstep_project p2sh q m e q1 m1 :
  fstep p2sh (q, m) e = Some (q1, m1) ->
  match e with FL x => lstep q x = Some q1 | _ => q1 = q end.
Proof.
  unfold fstep, lift. destruct m.
  - destruct e as [x| | |].
    + destruct (lstep q x); intros [= <- _]; reflexivity.
    + destruct q; try (destruct (stack_ok p2sh _)); intros [= <- _] || discriminate; reflexivity.
    + destruct q; try (destruct (stack_ok p2sh _)); intros [= <- _] || discriminate; reflexivity.
    + destruct q; intros [= <- _] || discriminate; reflexivity.
  - destruct e as [x| | |]; try discriminate. destruct x; try discriminate. destruct q; try discriminate.
    destruct (lstep QBO AE); intros [= <- _]; reflexivity.
  - destruct e as [x| | |]; try discriminate.
    + destruct x; try discriminate. destruct (lstep q BC); intros [= <- _]; reflexivity.
    + intros [= <- _]. reflexivity.
Qed.

Lemma frun_project p2sh : forall tr q f q' f',
  frun p2sh (q, f) tr = Some (q', f') -> lrun q (project tr) = Some q'.
Proof.
  induction tr as [|e r IH]; intros q f q' f' H; cbn [frun project] in *.
  - inversion H; subst. reflexivity.
  - destruct (fstep p2sh (q, f) e) as [[q1 f1]|] eqn:Es; [|discriminate].
    pose proof (fstep_project _ _ _ _ _ _ Es) as Hp.
    destruct e as [x| | |].
    + cbn [project lrun]. rewrite Hp. eapply IH; eauto.
    + subst q1. eapply IH; eauto.
    + subst q1. eapply IH; eauto.
    + subst q1. eapply IH; eauto.
Qed.

(** a full trace accepted here has its lifecycle part accepted by the lifecycle automaton *)
Theorem full_ok_project p2sh tr : full_lifecycle_ok p2sh tr = true -> lifecycle_ok (project tr) = true.
Proof.
  unfold full_lifecycle_ok, lifecycle_ok. intros H.
  destruct (frun p2sh (QStart, MNormal) tr) as [[q f]|] eqn:E; [|discriminate].
  rewrite (frun_project p2sh tr QStart MNormal q f E).
  destruct q; destruct f; try discriminate; reflexivity.
Qed.

(** outside a pay-to-script-hash run nothing may touch the stacks between a script change and the next step *)
Lemma no_stack_callback_after_script_change tr1 e tr2 q :
  frun false (QStart, MNormal) tr1 = Some (q, MNormal) -> (q = QACe \/ q = QACr \/ q = QBCe \/ q = QBCr \/ q = QLoop \/ q = QBS \/ q = QBE) ->
  (e = FPush \/ e = FPop \/ e = FPopFail) -> full_lifecycle_ok false (tr1 ++ e :: tr2) = false.
Proof.
  intros H1 Hq He. unfold full_lifecycle_ok.
  assert (Hf : forall tr st, frun false st (tr ++ e :: tr2) =
            match frun false st tr with Some st' => frun false st' (e :: tr2) | None => None end).
  { induction tr as [|x r IH]; intros st; cbn [frun app]; [reflexivity|].
    destruct (fstep false st x); [apply IH|reflexivity]. }
  rewrite Hf, H1. cbn [frun].
  assert (Hs : fstep false (q, MNormal) e = None).
  { unfold fstep, lift. destruct Hq as [->|[->|[->|[->|[->|[->| ->]]]]]]; destruct He as [->|[->| ->]]; reflexivity. }
  rewrite Hs. reflexivity.
Qed.

(** once the alt stack is being dropped at the end of a script, the step can no longer fail: a trace in which an
    error (AfterExecute) follows such a pop is refused *)
Lemma no_failure_after_end_of_script_cleanup p2sh tr1 tr2 :
  frun p2sh (QStart, MNormal) tr1 = Some (QAO, MNormal) ->
  full_lifecycle_ok p2sh (tr1 ++ FPop :: FL AE :: tr2) = false.
Proof.
  intros H1. unfold full_lifecycle_ok.
  assert (Hf : forall tr st rest, frun p2sh st (tr ++ rest) =
            match frun p2sh st tr with Some st' => frun p2sh st' rest | None => None end).
  { induction tr as [|x r IH]; intros st rest; cbn [frun app]; [reflexivity|].
    destruct (fstep p2sh st x); [apply IH|reflexivity]. }
  rewrite Hf, H1. reflexivity.
Qed.
