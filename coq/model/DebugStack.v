(** The documented callback order including the stack callbacks (C19).

    model/Debug.v's traces contain the ten lifecycle callbacks; the engine also fires BeforeStackPush /
    AfterStackPush and BeforeStackPop / AfterStackPop around every push and pop of either stack.  Those are nested
    inside the lifecycle: "execute > step > opcode > stack push/pop > script change > success or error".  This
    file extends the lifecycle automaton [lstep] with them:

    - a push is the pair BeforeStackPush AfterStackPush, a pop the pair BeforeStackPop AfterStackPop, with nothing
      in between; a pop from an empty stack has no after-callback and is followed at once by AfterExecute (the
      opcode failed);
    - stack callbacks occur only while an opcode runs (after BeforeExecuteOpcode), between the opcode and the
      script change (after AfterExecuteOpcode: the alt stack is dropped at the end of a script; after
      BeforeExecuteOpcode on an early return likewise), in the final check (after AfterExecute of a completed
      run: the result is popped) and — in a pre-Genesis pay-to-script-hash run only — after a script change (the
      first script's result is popped and the saved stack installed after the shift to the redeem script).

    The interpreter model does not produce these events (it has no notion of individual pushes and pops); the
    observed full trace of every run is checked against this automaton inside Coq (corr/C19.v), and
    [full_ok_project] shows that acceptance here implies acceptance of the lifecycle part by [lifecycle_ok], the
    automaton the model's traces are proved to satisfy. *)
From Coq Require Import List Bool.
From GoBT Require Import model.Debug.
Import ListNotations.

Inductive fev :=
| FL (e : ev)     (* a lifecycle callback *)
| FPush           (* BeforeStackPush immediately followed by AfterStackPush *)
| FPop            (* BeforeStackPop immediately followed by AfterStackPop *)
| FPopFail.       (* BeforeStackPop with no AfterStackPop: the stack was empty *)

Definition stack_ok (p2sh : bool) (q : lstate) : bool :=
  match q with
  | QBO | QAO | QAEok => true
  | QACe => p2sh
  | _ => false
  end.

(** state: the lifecycle state, and whether a failed pop has just been seen (then only AfterExecute may follow) *)
Definition fstep (p2sh : bool) (st : lstate * bool) (e : fev) : option (lstate * bool) :=
  let '(q, failed) := st in
  if failed then
    match e, q with
    | FL AE, QBO => match lstep q AE with Some q' => Some (q', false) | None => None end
    | _, _ => None
    end
  else
    match e with
    | FL e => match lstep q e with Some q' => Some (q', false) | None => None end
    | FPush | FPop => if stack_ok p2sh q then Some (q, false) else None
    | FPopFail => match q with QBO => Some (q, true) | _ => None end
    end.

Fixpoint frun (p2sh : bool) (st : lstate * bool) (tr : list fev) : option (lstate * bool) :=
  match tr with
  | [] => Some st
  | e :: r => match fstep p2sh st e with Some st' => frun p2sh st' r | None => None end
  end.

Definition full_lifecycle_ok (p2sh : bool) (tr : list fev) : bool :=
  match frun p2sh (QStart, false) tr with
  | Some (QOk, false) | Some (QErr, false) => true
  | _ => false
  end.

(** the lifecycle callbacks of a full trace *)
Fixpoint project (tr : list fev) : list ev :=
  match tr with
  | [] => []
  | FL e :: r => e :: project r
  | _ :: r => project r
  end.

Lemma frun_project p2sh : forall tr q f q' f',
  frun p2sh (q, f) tr = Some (q', f') -> lrun q (project tr) = Some q'.
Proof.
  induction tr as [|e r IH]; intros q f q' f' H; cbn [frun project] in *.
  - inversion H; subst. reflexivity.
  - destruct (fstep p2sh (q, f) e) as [[q1 f1]|] eqn:Es; [|discriminate].
    unfold fstep in Es. destruct f.
    + destruct e as [e| | |]; try discriminate. destruct e; try discriminate. destruct q; try discriminate.
      destruct (lstep QBO AE) as [q2|] eqn:El; [|discriminate]. inversion Es; subst.
      cbn [project lrun]. rewrite El. eapply IH; eauto.
    + destruct e as [e| | |].
      * destruct (lstep q e) as [q2|] eqn:El; [|discriminate]. inversion Es; subst.
        cbn [project lrun]. rewrite El. eapply IH; eauto.
      * destruct (stack_ok p2sh q); [|discriminate]. inversion Es; subst. eapply IH; eauto.
      * destruct (stack_ok p2sh q); [|discriminate]. inversion Es; subst. eapply IH; eauto.
      * destruct q; try discriminate. inversion Es; subst. eapply IH; eauto.
Qed.

(** a full trace accepted here has its lifecycle part accepted by the lifecycle automaton *)
Theorem full_ok_project p2sh tr : full_lifecycle_ok p2sh tr = true -> lifecycle_ok (project tr) = true.
Proof.
  unfold full_lifecycle_ok, lifecycle_ok. intros H.
  destruct (frun p2sh (QStart, false) tr) as [[q f]|] eqn:E; [|discriminate].
  rewrite (frun_project p2sh tr QStart false q f E).
  destruct q; destruct f; try discriminate; reflexivity.
Qed.

(** outside a pay-to-script-hash run nothing may touch the stacks between a script change and the next step *)
Lemma no_stack_callback_after_script_change tr1 e tr2 q :
  frun false (QStart, false) tr1 = Some (q, false) -> (q = QACe \/ q = QACr \/ q = QBCe \/ q = QBCr \/ q = QLoop \/ q = QBS \/ q = QBE) ->
  (e = FPush \/ e = FPop \/ e = FPopFail) -> full_lifecycle_ok false (tr1 ++ e :: tr2) = false.
Proof.
  intros H1 Hq He. unfold full_lifecycle_ok.
  assert (Hf : forall tr st, frun false st (tr ++ e :: tr2) =
            match frun false st tr with Some st' => frun false st' (e :: tr2) | None => None end).
  { induction tr as [|x r IH]; intros st; cbn [frun app]; [reflexivity|].
    destruct (fstep false st x); [apply IH|reflexivity]. }
  rewrite Hf, H1. cbn [frun].
  assert (Hs : fstep false (q, false) e = None).
  { unfold fstep. destruct Hq as [->|[->|[->|[->|[->|[->| ->]]]]]]; destruct He as [->|[->| ->]]; reflexivity. }
  rewrite Hs. reflexivity.
Qed.
