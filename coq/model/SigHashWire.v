(** The node's wire view ([spec/DigestSpec.v] [transaction]) of a model transaction ([model/Tx.v] [tx]):
    the previous txid is stored by go-bt in display order, the wire carries it reversed; the
    unlocking script is the scriptSig.  Used to state "model = specification" and to evaluate the
    node's vectors (raw transaction bytes, decoded by the codec model proved correct in C01). *)
From Coq Require Import List NArith.
From Coq Require Import Strings.Byte.
From GoBT Require Import lib.Bytes lib.Parse model.Tx spec.DigestSpec.
Import ListNotations.
Local Open Scope N_scope.

Definition wire_in (i : input) : txin :=
  mkTxIn (mkOutPoint (rev (in_txid i)) (in_vout i)) (in_unlock i) (in_seq i).
Definition wire_out (o : output) : txout := mkTxOut (out_sats o) (out_script o).
Definition wire_tx (t : tx) : transaction :=
  mkTransaction (tx_version t) (map wire_in (tx_ins t)) (map wire_out (tx_outs t)) (tx_lock t).

(** raw standard-format bytes -> the node's transaction (None when they do not decode exactly) *)
Definition decode_wire (raw : bytes) : option transaction :=
  match tx_from_bytes raw with
  | ROk p => Some (wire_tx (p_tx p))
  | _ => None
  end.
