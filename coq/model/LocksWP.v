(** C18 — the interleaving machine of model/Locks.v WITH WRITER PREFERENCE (Go's sync.RWMutex).

    Go's RWMutex: "If any goroutine calls Lock while the lock is already held by one or more
    readers, concurrent calls to RLock will block until the writer has acquired (and released) the
    lock" — a writer that has arrived at Lock() keeps NEW readers out, readers that already hold
    continue. This is what makes recursive read-locking deadlock-prone in Go, and it is the one thing
    the machine of model/Locks.v does not have (there an RLock succeeds whenever no writer HOLDS).

    WHAT IS MODELLED. The state of the old machine ([base], untouched: threads, lock table, memory,
    ghost write history) plus, per mutex, the set [pend] of threads that have ANNOUNCED a pending
    Lock(). One step of thread [t] ([wstep]) is literally the old [step] except:
      - Lock() is split in two. ANNOUNCE: a thread positioned at [GAcq o MW] that is not yet in
        [pend o] enters it; this is always enabled and changes nothing else (the thread stays at
        the instruction). ACQUIRE: a thread positioned at [GAcq o MW] that is in [pend o] takes the
        old step (enabled iff no writer and no reader holds [o]) and leaves [pend o].
      - RLock() ([GAcq o MR]) takes the old step only when [pend o] is empty, i.e. it is enabled iff
        no writer holds [o] AND no writer is pending on [o].
      - everything else (RUnlock, Unlock, reads, the two halves of a write) is the old step.
    So the new machine only REMOVES behaviours of the old one, up to stuttering (an announce is
    invisible in [base]): proofs/LocksWPProofs.v, [wstep_projects], [wreachable_projects].

    WHAT IS NOT MODELLED, and why that is on the safe side for the deadlock theorem.
      - The order among several pending writers (Go serialises writers on an inner mutex [w]; only
        the one that owns [w] has made [readerCount] negative). Here every writer that has arrived
        may be in [pend] at once and any pending writer may acquire when the mutex is free. A Go
        writer queued on [w] corresponds to a thread that is, or is not yet, in [pend]: announcing
        is always enabled but never forced, so delaying the announce to the moment Go's writer
        subtracts from [readerCount] reproduces Go's history; more threads in [pend] only block
        MORE readers.
      - The hand-over at Unlock: Go's Unlock grants the read lock to the readers that queued while
        the writer held (they are counted in [readerCount]) before the next writer can announce.
        Here those readers take their RLock step themselves after the Unlock; a schedule that lets
        them do so before the next announce reproduces Go's history, other schedules have no Go
        counterpart (extra behaviours, harmless for "for every schedule" statements).
      - Fairness / starvation. The statement proved is the same as for the old machine: in every
        reachable state in which some thread has work left, some thread can take a step. A Go
        state in which every goroutine is blocked maps to a state of THIS machine in which no
        thread can step (readers: a writer holds or has announced; a writer queued on [w]: the
        owner of [w] holds the mutex or waits for readers that hold it, so after its own announce
        it cannot acquire either), so progress here excludes the all-blocked states of Go's mutex.
        This mapping is an argument on paper about the runtime, not a theorem.
      - TryLock / TryRLock, RLocker (not used by fees.go; the translator fails closed on them). *)
From Coq Require Import List String Bool Arith PeanoNat.
From GoBT Require Import model.Locks.
Import ListNotations.
Local Open Scope list_scope.

Record wstate := mkW { base : state; pend : obj -> list tid }.

Definition upd_pend (f : obj -> list tid) (o : obj) (x : list tid) : obj -> list tid :=
  fun o' => if obj_eqb o' o then x else f o'.

Definition lift (p : obj -> list tid) (r : option state) : option wstate :=
  match r with Some s' => Some (mkW s' p) | None => None end.

(** one step of thread [t] of the machine with writer preference *)
Definition wstep (w : wstate) (t : tid) (g : value) : option wstate :=
  let s := base w in
  match prog (thr s t) with
  | GAcq o MW :: _ =>
      if existsb (Nat.eqb t) (pend w o)
      then (* acquire: the old step (no reader, no writer holds), and leave the pending set *)
           lift (upd_pend (pend w) o (remove_all_tid t (pend w o))) (step s t g)
      else (* announce: always enabled, invisible in [base] *)
           Some (mkW s (upd_pend (pend w) o (t :: pend w o)))
  | GAcq o MR :: _ =>
      match pend w o with
      | [] => lift (pend w) (step s t g)     (* no writer holds (old step) and none is pending *)
      | _ :: _ => None                       (* a pending writer keeps new readers out *)
      end
  | _ => lift (pend w) (step s t g)
  end.

Inductive wreachable (w0 : wstate) : wstate -> Prop :=
| wreach_refl : wreachable w0 w0
| wreach_step : forall w t g w', wreachable w0 w -> wstep w t g = Some w' -> wreachable w0 w'.

Fixpoint wrun (w : wstate) (sched : list (tid * value)) : option wstate :=
  match sched with
  | [] => Some w
  | (t, g) :: r => match wstep w t g with Some w' => wrun w' r | None => None end
  end.

(** initial states: the old initial state, nobody pending *)
Definition winit (mem0 : loc -> value) (progs : tid -> list mact) : wstate :=
  mkW (init_state mem0 progs) (fun _ => []).

(** deadlock of the machine with writer preference: some thread has work left, no thread can step
    (a thread that has not announced its Lock() yet can always step, so in a stuck state every
    thread positioned at a Lock() has announced it) *)
Definition wstuck (w : wstate) : Prop :=
  (exists t, prog (thr (base w) t) <> []) /\ forall t g, wstep w t g = None.
