(** Pointer-level model of go-bt's signature-hash functions (C02 / C03, clause "the caller's
    transaction is never modified").

    model/SigHash.v works on immutable values: every branch returns the literal [t] it was given, so
    "leaves the transaction unchanged" holds there by construction and could not be false.  What the
    clause is about is Go's object graph: a *Tx holds slices of *Input / *Output, an Input holds two
    *bscript.Script pointers, an Output one; CalcInputPreimageLegacy obtains txCopy := tx.Clone() and
    then WRITES through txCopy (PreviousTxScript / UnlockingScript of every input, sequence numbers,
    Satoshis / LockingScript of outputs, the Inputs / Outputs slice headers).  Whether the caller sees
    those writes depends on which cells the clone shares with the original.

    This file makes that expressible.  A heap is a list of cells (script byte strings, input
    records, output records, transaction records); a pointer is an index; [alloc] appends a cell,
    [upd_input] / [upd_output] / [upd_tx] overwrite one.  CalcInputPreimageLegacy is transcribed
    as a heap program parametrised by the clone function, with two clones:
      - [clone_deep]    Tx.Clone as written in tx.go: through the codec, every *Input, *Output,
                        UnlockingScript and LockingScript cell of the result is fresh; the
                        PreviousTxScript POINTER of every input is copied from the original (tx.go:
                        clone.Inputs[i].PreviousTxScript = input.PreviousTxScript), so those script
                        cells ARE shared with the caller - the program never writes a script cell;
      - [clone_shallow] c := *tx (only the struct with its two slice headers is copied): the
                        refutation - with it the very same program changes the caller's cells.
    proofs/SigHeapProofs.v: frame (no pre-existing cell changes, any heap, any outcome), refinement
    (the bytes returned are those of model/SigHash.v on the abstraction of the heap), and the
    shallow-clone counterexample.

    Conventions.  A dereference that does not find a cell of the expected kind (nil, or - impossible
    in Go, whose pointers are typed - a cell of another kind) is a panic.  A slice of pointers is the
    address list held in the transaction record: the program never stores into an element of a
    backing array (no  txCopy.Inputs[i] = ...), only through the pointers and into the slice headers,
    so sharing of backing arrays is unobservable.  previousTxID ([]byte) is kept inside the input
    record: nothing in these functions writes into it. *)
From Coq Require Import List NArith ZArith Lia Bool.
From Coq Require Import Strings.Byte.
From GoBT Require Import lib.Bytes lib.Parse lib.VarInt lib.Sha256 model.Tx model.SigHash.
Import ListNotations.
Local Open Scope N_scope.

(** ** cells, heaps, primitives *)
Definition addr := nat.
Record input_rec := mkIR {
  ir_txid : bytes;               (* previousTxID *)
  ir_sats : N;                   (* PreviousTxSatoshis *)
  ir_prev : option addr;         (* PreviousTxScript *bscript.Script, nil = None *)
  ir_unlock : option addr;       (* UnlockingScript *bscript.Script *)
  ir_vout : N;                   (* PreviousTxOutIndex *)
  ir_seq : N                     (* SequenceNumber *)
}.
Record output_rec := mkOR { or_sats : N; or_lock : option addr (* LockingScript *bscript.Script *) }.
Record tx_rec := mkTR { tr_ins : list addr; tr_outs : list addr; tr_ver : N; tr_lock : N }.
Inductive hcell :=
| CScript (b : bytes)
| CInput (r : input_rec)
| COutput (r : output_rec)
| CTx (r : tx_rec).
Definition heap := list hcell.
Definition heap_size (h : heap) : nat := length h.
Definition cell (h : heap) (a : addr) : option hcell := nth_error h a.

(** new(T) / &T{...}: a cell nobody else points to yet *)
Definition alloc (h : heap) (c : hcell) : heap * addr := (h ++ [c], length h).
(** the store: overwrite cell [a] *)
Fixpoint set_nth (h : heap) (a : addr) (c : hcell) : heap :=
  match h, a with
  | [], _ => []
  | _ :: r, O => c :: r
  | x :: r, S a' => x :: set_nth r a' c
  end.

Definition get_script (h : heap) (a : addr) : option bytes :=
  match cell h a with Some (CScript b) => Some b | _ => None end.
Definition get_input (h : heap) (a : addr) : option input_rec :=
  match cell h a with Some (CInput r) => Some r | _ => None end.
Definition get_output (h : heap) (a : addr) : option output_rec :=
  match cell h a with Some (COutput r) => Some r | _ => None end.
Definition get_tx (h : heap) (a : addr) : option tx_rec :=
  match cell h a with Some (CTx r) => Some r | _ => None end.

(** p.field = v  (None: the dereference panics) *)
Definition upd_input (h : heap) (a : addr) (f : input_rec -> input_rec) : option heap :=
  match get_input h a with Some r => Some (set_nth h a (CInput (f r))) | None => None end.
Definition upd_output (h : heap) (a : addr) (f : output_rec -> output_rec) : option heap :=
  match get_output h a with Some r => Some (set_nth h a (COutput (f r))) | None => None end.
Definition upd_tx (h : heap) (a : addr) (f : tx_rec -> tx_rec) : option heap :=
  match get_tx h a with Some r => Some (set_nth h a (CTx (f r))) | None => None end.

Definition set_ir_prev (r : input_rec) (v : option addr) : input_rec :=
  mkIR (ir_txid r) (ir_sats r) v (ir_unlock r) (ir_vout r) (ir_seq r).
Definition set_ir_unlock (r : input_rec) (v : option addr) : input_rec :=
  mkIR (ir_txid r) (ir_sats r) (ir_prev r) v (ir_vout r) (ir_seq r).
Definition set_ir_seq (r : input_rec) (v : N) : input_rec :=
  mkIR (ir_txid r) (ir_sats r) (ir_prev r) (ir_unlock r) (ir_vout r) v.
Definition set_or_sats (r : output_rec) (v : N) : output_rec := mkOR v (or_lock r).
Definition set_or_lock (r : output_rec) (v : option addr) : output_rec := mkOR (or_sats r) v.
Definition set_tr_ins (r : tx_rec) (l : list addr) : tx_rec := mkTR l (tr_outs r) (tr_ver r) (tr_lock r).
Definition set_tr_outs (r : tx_rec) (l : list addr) : tx_rec := mkTR (tr_ins r) l (tr_ver r) (tr_lock r).

(** for j, x := range l { body }  over a slice of pointers: the heap reached and whether the loop
    completed (false: an iteration panicked; the heap is the one at the panic) *)
Fixpoint for_range (body : N -> addr -> heap -> option heap) (k : N) (l : list addr) (h : heap) : heap * bool :=
  match l with
  | [] => (h, true)
  | a :: r => match body k a h with
              | Some h1 => for_range body (k + 1) r h1
              | None => (h, false)
              end
  end.

(** ** abstraction: the value a pointer graph denotes (None: nil where the value model has no nil,
    dangling or ill-kinded pointer) *)
Definition deref_unlock (h : heap) (o : option addr) : option bytes :=      (* nil reads as empty *)
  match o with None => Some [] | Some s => get_script h s end.
Definition deref_prev (h : heap) (o : option addr) : option (option bytes) :=
  match o with None => Some None | Some s => option_map Some (get_script h s) end.
Definition abs_ir (h : heap) (r : input_rec) : option input :=
  match deref_unlock h (ir_unlock r), deref_prev h (ir_prev r) with
  | Some u, Some ps => Some (mkInput (ir_txid r) (ir_vout r) u (ir_seq r) (ir_sats r) ps)
  | _, _ => None
  end.
Definition abs_or (h : heap) (r : output_rec) : option output :=
  match or_lock r with
  | Some s => match get_script h s with Some b => Some (mkOutput (or_sats r) b) | None => None end
  | None => None
  end.
Definition abs_in (h : heap) (a : addr) : option input :=
  match get_input h a with Some r => abs_ir h r | None => None end.
Definition abs_out (h : heap) (a : addr) : option output :=
  match get_output h a with Some r => abs_or h r | None => None end.
Fixpoint abs_list {A} (f : addr -> option A) (l : list addr) : option (list A) :=
  match l with
  | [] => Some []
  | a :: r => match f a, abs_list f r with Some v, Some vs => Some (v :: vs) | _, _ => None end
  end.
Definition abs_tx (h : heap) (p : addr) : option tx :=
  match get_tx h p with
  | Some tr =>
      match abs_list (abs_in h) (tr_ins tr), abs_list (abs_out h) (tr_outs tr) with
      | Some ins, Some outs => Some (mkTx (tr_ver tr) ins outs (tr_lock tr))
      | _, _ => None
      end
  | None => None
  end.

(** ** the two clones *)
Inductive clone_res :=
| COk (h : heap) (q : addr)
| CFatal            (* log.Fatal: NewTxFromBytes rejected the transaction's own bytes *)
| CFuel             (* model artefact of the decoder (proved unreachable in proofs/TxProofs.v) *)
| CStuck.           (* tx.Bytes() dereferenced nil *)

(** what input.readFrom + the copy loop of Clone leave behind for one input: a fresh script cell for
    the unlocking script, a fresh input cell; satoshis and the previous-script POINTER of the original *)
Definition alloc_input (h : heap) (vr : input * input_rec) : heap * addr :=
  let '(h1, s) := alloc h (CScript (in_unlock (fst vr))) in
  alloc h1 (CInput (mkIR (in_txid (fst vr)) (ir_sats (snd vr)) (ir_prev (snd vr)) (Some s)
                         (in_vout (fst vr)) (in_seq (fst vr)))).
Definition alloc_output (h : heap) (v : output) : heap * addr :=
  let '(h1, s) := alloc h (CScript (out_script v)) in
  alloc h1 (COutput (mkOR (out_sats v) (Some s))).
Fixpoint alloc_many {A} (f : heap -> A -> heap * addr) (h : heap) (l : list A) : heap * list addr :=
  match l with
  | [] => (h, [])
  | x :: r => let '(h1, a) := f h x in let '(h2, as_) := alloc_many f h1 r in (h2, a :: as_)
  end.
Fixpoint get_inputs (h : heap) (l : list addr) : option (list input_rec) :=
  match l with
  | [] => Some []
  | a :: r => match get_input h a, get_inputs h r with Some x, Some xs => Some (x :: xs) | _, _ => None end
  end.

(** Tx.Clone (tx.go): bb := tx.Bytes() reads the whole graph; NewTxFromBytes(bb) builds a new graph
    from the bytes alone; the loop then copies PreviousTxSatoshis and the PreviousTxScript pointer
    input by input.  (The parse and the copy loop are fused into one allocation pass: the stores of
    the copy loop go to cells Clone has just allocated.)  Nothing that existed is written. *)
Definition clone_deep (h : heap) (p : addr) : clone_res :=
  match get_tx h p with
  | None => CStuck
  | Some tr =>
    match get_inputs h (tr_ins tr), abs_tx h p with
    | Some recs, Some t =>
      match tx_from_bytes (tx_bytes false t) with
      | ROk pr =>
          let '(h1, ia) := alloc_many alloc_input h (combine (tx_ins (p_tx pr)) recs) in
          let '(h2, oa) := alloc_many alloc_output h1 (tx_outs (p_tx pr)) in
          let '(h3, q) := alloc h2 (CTx (mkTR ia oa (tx_version (p_tx pr)) (tx_lock (p_tx pr)))) in
          COk h3 q
      | RErr => CFatal
      | RFuel => CFuel
      end
    | _, _ => CStuck
    end
  end.

(** c := *tx; return &c  - a new Tx struct whose Inputs / Outputs are the caller's pointers *)
Definition clone_shallow (h : heap) (p : addr) : clone_res :=
  match get_tx h p with
  | None => CStuck
  | Some tr => let '(h1, q) := alloc h (CTx tr) in COk h1 q
  end.

(** ** CalcInputPreimageLegacy, statement by statement *)
(** tx.InputIdx(int(i)) on the record *)
Definition input_idx_h (tr : tx_rec) (i : N) : option addr :=
  if (Z.of_N i >? Z.of_nat (length (tr_ins tr)) - 1)%Z then None else nthN (tr_ins tr) i.

(** for i := range txCopy.Inputs {
      if i == int(inputNumber) { txCopy.Inputs[i].PreviousTxScript = tx.Inputs[inputNumber].PreviousTxScript }
      else { txCopy.Inputs[i].UnlockingScript = &bscript.Script{}; txCopy.Inputs[i].PreviousTxScript = &bscript.Script{} } }
    ([p] is the CALLER's transaction: the right-hand side is read from it on that iteration; the two
    stores of the else branch go to the same cell) *)
Definition blank_body (p : addr) (i : N) (j : N) (a : addr) (h : heap) : option heap :=
  if j =? i then
    match get_tx h p with
    | None => None
    | Some tr =>
      match nthN (tr_ins tr) i with
      | None => None
      | Some ai =>
        match get_input h ai with
        | None => None
        | Some ri => upd_input h a (fun r => set_ir_prev r (ir_prev ri))
        end
      end
    end
  else
    let '(h1, s1) := alloc h (CScript []) in
    let '(h2, s2) := alloc h1 (CScript []) in
    upd_input h2 a (fun r => set_ir_prev (set_ir_unlock r (Some s1)) (Some s2)).

(** for i := range txCopy.Inputs { if i != int(inputNumber) { txCopy.Inputs[i].SequenceNumber = 0 } } *)
Definition zero_seq_body (i : N) (j : N) (a : addr) (h : heap) : option heap :=
  if negb (j =? i) then upd_input h a (fun r => set_ir_seq r 0) else Some h.

(** for i := 0; i < int(inputNumber); i++ { txCopy.Outputs[i].Satoshis = 1<<64-1; txCopy.Outputs[i].LockingScript = &bscript.Script{} }
    written as a range over the (already truncated, inputNumber+1 long) slice with the bound as a test *)
Definition blank_out_body (i : N) (j : N) (a : addr) (h : heap) : option heap :=
  if j <? i then
    let '(h1, s) := alloc h (CScript []) in
    upd_output h1 a (fun r => set_or_lock (set_or_sats r max_u64) (Some s))
  else Some h.

(** the NONE / SINGLE block.  [ia] [oa] are txCopy.Inputs / txCopy.Outputs as the function holds them
    (it is the only writer of txCopy's slice headers); every change of them is also stored into the
    clone's cell [q].  Bounds as in model/SigHash.v. *)
Definition flags_phase (h : heap) (q : addr) (ia oa : list addr) (i ht next : N) : heap * list addr * bool :=
  if flag_has_with_mask ht sh_none then
    (* txCopy.Outputs = txCopy.Outputs[0:0] *)
    match upd_tx h q (fun t => set_tr_outs t []) with
    | None => (h, oa, false)
    | Some ha => let '(hb, ok) := for_range (zero_seq_body i) 0 ia ha in (hb, [], ok)
    end
  else if flag_has_with_mask ht sh_single then
    (* txCopy.Outputs = txCopy.Outputs[:inputNumber+1] *)
    if (N.of_nat (length oa) <? next) || (next <? i) then (h, oa, false) else
    let oa1 := firstn (N.to_nat next) oa in
    match upd_tx h q (fun t => set_tr_outs t oa1) with
    | None => (h, oa, false)
    | Some ha =>
        let '(hb, ok) := for_range (blank_out_body i) 0 oa1 ha in
        if negb ok then (hb, oa1, false) else
        let '(hc, ok2) := for_range (zero_seq_body i) 0 ia hb in (hc, oa1, ok2)
    end
  else (h, oa, true).

(** if shf&sighash.AnyOneCanPay != 0 { txCopy.Inputs = txCopy.Inputs[inputNumber : inputNumber+1] } *)
Definition acp_phase (h : heap) (q : addr) (ia : list addr) (i ht next : N) : heap * bool :=
  if negb (N.land ht sh_anyonecanpay =? 0) then
    if (next <? i) || (N.of_nat (length ia) <? next) then (h, false) else
    match upd_tx h q (fun t => set_tr_ins t (firstn (N.to_nat (next - i)) (skipn (N.to_nat i) ia))) with
    | None => (h, false)
    | Some ha => (ha, true)
    end
  else (h, true).

(** the hand-written serialisation: reads txCopy's cell, every input cell with *in.PreviousTxScript,
    every output cell with *out.LockingScript (None: nil dereference) *)
Fixpoint ser_inputs (h : heap) (l : list addr) : option bytes :=
  match l with
  | [] => Some []
  | a :: r =>
      match get_input h a with
      | None => None
      | Some ri =>
        match ir_prev ri with
        | None => None
        | Some sp =>
          match get_script h sp, ser_inputs h r with
          | Some s, Some rest =>
              Some (rev (ir_txid ri) ++ le_enc 4 (ir_vout ri) ++ varint_bytes (lenN s) ++ s ++
                    le_enc 4 (ir_seq ri) ++ rest)
          | _, _ => None
          end
        end
      end
  end.
Fixpoint ser_outputs (h : heap) (l : list addr) : option bytes :=
  match l with
  | [] => Some []
  | a :: r =>
      match get_output h a with
      | None => None
      | Some ro =>
        match or_lock ro with
        | None => None
        | Some sp =>
          match get_script h sp, ser_outputs h r with
          | Some s, Some rest => Some ((le_enc 8 (or_sats ro) ++ varint_bytes (lenN s) ++ s) ++ rest)
          | _, _ => None
          end
        end
      end
  end.
(** Version and LockTime are read from the CALLER's transaction (tx.Version, tx.LockTime) *)
Definition serialise (h : heap) (p q : addr) (ht : N) : heap * sres :=
  match get_tx h p, get_tx h q with
  | Some tp, Some tq =>
      match ser_inputs h (tr_ins tq), ser_outputs h (tr_outs tq) with
      | Some ib, Some ob =>
          (h, SOk (le_enc 4 (tr_ver tp) ++
                   varint_bytes (N.of_nat (length (tr_ins tq))) ++ ib ++
                   varint_bytes (N.of_nat (length (tr_outs tq))) ++ ob ++
                   le_enc 4 (tr_lock tp) ++ le_enc 4 ht))
      | _, _ => (h, SPanic)
      end
  | _, _ => (h, SPanic)
  end.

(** everything after  txCopy := tx.Clone() ; [q] is txCopy *)
Definition legacy_body (h1 : heap) (p q : addr) (i ht : N) : heap * sres :=
  match get_tx h1 q with
  | None => (h1, SPanic)
  | Some tq =>
    let '(h2, ok) := for_range (blank_body p i) 0 (tr_ins tq) h1 in
    if negb ok then (h2, SPanic) else
    let next := (i + 1) mod two32 in                       (* inputNumber+1 on uint32 *)
    let '(h3, oa, ok3) := flags_phase h2 q (tr_ins tq) (tr_outs tq) i ht next in
    if negb ok3 then (h3, SPanic) else
    let '(h4, ok4) := acp_phase h3 q (tr_ins tq) i ht next in
    if negb ok4 then (h4, SPanic) else
    serialise h4 p q ht
  end.

(** CalcInputPreimageLegacy.  (The Go method has no script-code parameter: the script code is the
    PreviousTxScript pointer of the signed input.)  Result: the heap afterwards and the outcome. *)
Definition legacy_preimage_heap (clone : heap -> addr -> clone_res) (h : heap) (p : addr) (i ht : N)
  : heap * sres :=
  match get_tx h p with
  | None => (h, SPanic)                                     (* nil receiver *)
  | Some tr =>
    match input_idx_h tr i with
    | None => (h, SErr ErrInputNoExist)
    | Some ai =>
      match get_input h ai with
      | None => (h, SPanic)                                 (* nil element of tx.Inputs *)
      | Some ri =>
        if (length (ir_txid ri) =? 0)%nat then (h, SErr ErrEmptyPreviousTxID) else
        match ir_prev ri with
        | None => (h, SErr ErrEmptyPreviousTxScript)
        | Some _ =>
          if flag_has_with_mask ht sh_single && (Z.of_N i >? Z.of_nat (length (tr_outs tr)) - 1)%Z
          then (h, SOk default_hex) else
          match clone h p with
          | CFatal => (h, SFatal)
          | CFuel => (h, SFuel)
          | CStuck => (h, SPanic)
          | COk h1 q => legacy_body h1 p q i ht
          end
        end
      end
    end
  end.

(** ** CalcInputPreimage (FORKID): the method holds no clone and contains no store - PreviousOutHash,
    SequenceHash and OutputsHash range over the caller's cells and append to buffers of their own.
    Transcribed on the same machine: the heap is threaded through and returned, the bytes are
    computed from what the reads see. *)
Definition forkid_preimage_heap (h : heap) (p : addr) (i ht : N) : heap * sres :=
  match get_tx h p with
  | None => (h, SPanic)
  | Some _ =>
    match abs_tx h p with
    | None => (h, SPanic)
    | Some t => (h, fst (calc_input_preimage t i ht))
    end
  end.
