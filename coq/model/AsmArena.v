(** C14 — ToASM's rendering of the parts of a script, over the MEMORY the parts live in (additive to model/Asm.v).

    [DecodeParts] does not copy: every part it returns is a window of the script it was given, and the script is a
    window of whatever buffer the caller cut it from (a decoded transaction, a block, a hex-decoded arena), with the
    bytes that follow it — spare capacity, the next script — inside the window's CAPACITY. In model/Asm.v a part is a
    value ([bytes]) and rendering cannot change anything; here a part is a Go slice value [gslice] and Go's [append]
    has its real meaning: it writes IN PLACE behind the slice's length whenever the capacity allows and only
    otherwise moves to a fresh buffer. A renderer that pads, normalises or terminates a part it was handed therefore
    writes into the caller's script, and the renderer of this file (the code as it is: it copies the part into a
    buffer of its own before padding) provably does not: proofs/AsmArenaProofs.v.

    The harness states the same on the implementation (harness/cmd/c14/purity.go): every query runs on a script that
    is a window of a larger buffer, and the whole buffer must be byte-for-byte what it was. *)
From Coq Require Import List NArith Bool String Arith.
From Coq Require Import Strings.Byte.
From GoBT Require Import lib.Bytes lib.Hex lib.Checked model.Push model.Asm.
Import ListNotations.
Local Open Scope N_scope.
Local Open Scope bool_scope.

(** a Go slice value as the renderer holds it *)
Inductive gslice :=
| Win (off len cap : nat)   (* a window of the caller's buffer: bytes off .. off+len, capacity up to off+cap *)
| Loc (b : bytes).          (* a buffer the renderer allocated itself (make / a grown append): not shared *)

(** the bytes a slice value denotes in the caller's buffer [h] *)
Definition rd (h : bytes) (s : gslice) : bytes :=
  match s with Win o l _ => firstn l (skipn o h) | Loc b => b end.

(** h[i] = x *)
Fixpoint upd (h : bytes) (i : nat) (x : byte) : bytes :=
  match h, i with
  | [], _ => []
  | _ :: t, O => x :: t
  | a :: t, S j => a :: upd t j x
  end.

(** append(s, x): in place while the capacity lasts — this is the write — otherwise into a new buffer *)
Definition go_append (h : bytes) (s : gslice) (x : byte) : bytes * gslice :=
  match s with
  | Loc b => (h, Loc (b ++ [x]))
  | Win o l c => if (l <? c)%nat then (upd h (o + l) x, Win o (S l) c) else (h, Loc (rd h s ++ [x]))
  end.

(** append(s, xs...) / a loop of single appends *)
Fixpoint go_append_all (h : bytes) (s : gslice) (xs : bytes) : bytes * gslice :=
  match xs with
  | [] => (h, s)
  | x :: r => let '(h1, s1) := go_append h s x in go_append_all h1 s1 r
  end.

(** the text written for one part, code-shaped (script.go ToASM, loop body), returning the buffer afterwards *)
Definition asm_part_a (data : bool) (h : bytes) (p : gslice) : bytes * outcome string :=
  let pb := rd h p in
  if lenN pb =? 1 then
    (h, chk (idx pb 0) (fun p0 =>
      if data && negb (b2n p0 =? 106) then Ok (dec_of (b2n p0)) else Ok (op_name (b2n p0))))
  else if data && (lenN pb <=? 4) then
    (* b := make([]byte, 0); b = append(b, p...); for i := 0; i < 4-len(p); i++ { b = append(b, 0) } *)
    let '(h1, b1) := go_append_all h (Loc []) pb in
    let '(h2, b2) := go_append_all h1 b1 (repeat_byte (4 - List.length pb) x00) in
    (h2, Ok (dec_of (le_dec (firstn 4 (rd h2 b2)))))
  else (h, Ok (hex_of pb)).

(** for _, p := range parts: the buffer is threaded through *)
Fixpoint asm_parts_a (data : bool) (h : bytes) (parts : list gslice) : bytes * outcome string :=
  match parts with
  | [] => (h, Ok EmptyString)
  | p :: r =>
      let '(h1, t) := asm_part_a data h p in
      match t with
      | Ok t' =>
          let '(h2, u) := asm_parts_a data h1 r in
          (h2, obind u (fun u' => Ok (String sp (t' ++ u'))))
      | Err => (h1, Err) | Panic => (h1, Panic) | Fuel => (h1, Fuel)
      end
  end.

(** ** The shape this file is about: a renderer that pads the part it was HANDED.

    [binary.LittleEndian.Uint32(append(p, 0))] for a three-byte part: one allocation fewer, the same text — and a
    zero written over whatever follows the part in the caller's buffer. *)
Definition asm_part_padding_in_place (data : bool) (h : bytes) (p : gslice) : bytes * outcome string :=
  let pb := rd h p in
  if data && (lenN pb =? 3) then
    let '(h1, b1) := go_append h p x00 in
    (h1, Ok (dec_of (le_dec (firstn 4 (rd h1 b1)))))
  else asm_part_a data h p.

Fixpoint asm_parts_padding_in_place (data : bool) (h : bytes) (parts : list gslice) : bytes * outcome string :=
  match parts with
  | [] => (h, Ok EmptyString)
  | p :: r =>
      let '(h1, t) := asm_part_padding_in_place data h p in
      match t with
      | Ok t' =>
          let '(h2, u) := asm_parts_padding_in_place data h1 r in
          (h2, obind u (fun u' => Ok (String sp (t' ++ u'))))
      | Err => (h1, Err) | Panic => (h1, Panic) | Fuel => (h1, Fuel)
      end
  end.
