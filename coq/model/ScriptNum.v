(** Script numbers: model of bscript/interpreter/number.go (makeScriptNumber, Bytes, minimallyEncode,
    checkMinimalDataEncoding, Int/Int32/Int64) and stack.go's asBool / fromBool. Numbers are [Z]. *)
From Coq Require Import List NArith ZArith Lia Bool.
From Coq Require Import Strings.Byte.
From GoBT Require Import lib.Bytes.
Import ListNotations.
Local Open Scope Z_scope.

(** top bit of a byte *)
Definition hi_bit (b : byte) : bool := (128 <=? b2n b)%N.
Definition clear_hi (b : byte) : byte := n2b (b2n b mod 128)%N.
Definition set_hi (b : byte) : byte := n2b (b2n b mod 128 + 128)%N.

(** makeScriptNumber's value: little-endian magnitude, sign in the top bit of the last byte *)
Definition num_dec (bs : bytes) : Z :=
  match rev bs with
  | [] => 0
  | last :: _ =>
      let v := Z.of_N (le_dec bs) in
      if hi_bit last
      then - (v - 128 * 256 ^ (Z.of_nat (length bs) - 1))
      else v
  end.

(** number of bytes of the magnitude *)
Definition byte_len (n : N) : nat := N.to_nat ((N.size n + 7) / 8).

(** scriptNumber.Bytes: minimal sign-magnitude little-endian encoding *)
Definition num_enc (z : Z) : bytes :=
  if z =? 0 then [] else
  let m := Z.abs_N z in
  let bs := le_enc (byte_len m) m in
  match rev bs with
  | [] => []
  | last :: rest_rev =>
      if hi_bit last then bs ++ [if z <? 0 then x80 else x00]
      else if z <? 0 then rev (set_hi last :: rest_rev) else bs
  end.

(** checkMinimalDataEncoding: true = acceptable *)
Definition is_minimal (v : bytes) : bool :=
  match rev v with
  | [] => true
  | last :: rest =>
      if (b2n last mod 128 =? 0)%N then
        match rest with
        | [] => false
        | prev :: _ => hi_bit prev
        end
      else true
  end.

Inductive num_result := NumOk (z : Z) | NumTooBig | NumNotMinimal.

(** makeScriptNumber bb scriptNumLen requireMinimal *)
Definition make_num (bs : bytes) (maxlen : Z) (require_minimal : bool) : num_result :=
  if maxlen <? Z.of_nat (length bs) then NumTooBig
  else if require_minimal && negb (is_minimal bs) then NumNotMinimal
  else NumOk (num_dec bs).

(** minimallyEncode (OP_BIN2NUM) exactly as coded: strip redundant trailing zero bytes, keep the sign *)
Fixpoint strip_zeros_rev (l : bytes) : bytes :=   (* l is most-significant first *)
  match l with
  | [] => []
  | b :: r => if (b2n b =? 0)%N then strip_zeros_rev r else l
  end.

Definition minimally_encode (data : bytes) : bytes :=
  match rev data with
  | [] => data
  | last :: rest =>
      if negb (b2n last mod 128 =? 0)%N then data
      else match rest with
           | [] => []
           | prev :: _ =>
               if hi_bit prev then data
               else
                 (* scan down from the byte below [last] for the first non-zero byte *)
                 match strip_zeros_rev rest with
                 | [] => []
                 | top :: lower =>
                     if hi_bit top then rev (last :: top :: lower)
                     else rev (n2b (N.lor (b2n top) (b2n last)) :: lower)
                 end
           end
  end.

(** asBool: any non-zero byte, except a lone sign bit in the last position (negative zero) *)
Fixpoint as_bool (t : bytes) : bool :=
  match t with
  | [] => false
  | b :: r =>
      if (b2n b =? 0)%N then as_bool r
      else match r with
           | [] => negb (b2n b =? 128)%N
           | _ => true
           end
  end.
Definition from_bool (b : bool) : bytes := if b then [x01] else [].

(** integer conversions *)
Definition max_i32 : Z := 2147483647.
Definition min_i32 : Z := -2147483648.
Definition max_i64 : Z := 9223372036854775807.
Definition min_i64 : Z := -9223372036854775808.
Definition clamp (lo hi z : Z) : Z := if z <? lo then lo else if hi <? z then hi else z.
Definition to_int64 (z : Z) : Z := clamp min_i64 max_i64 z.
Definition to_int32 (z : Z) : Z := clamp min_i32 max_i32 (to_int64 z).
(** Int(): big.Int.Int64 on an out-of-range value keeps the low 64 bits of the magnitude (wrapping) *)
Definition to_int (z : Z) : Z :=
  let m := Z.abs z mod 2 ^ 64 in
  let s := if z <? 0 then - m else m in
  let w := s mod 2 ^ 64 in
  if w <? 2 ^ 63 then w else w - 2 ^ 64.
