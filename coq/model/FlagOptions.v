(** The way the FLAG SET of an execution is assembled from the options handed to Engine.Execute
    (bscript/interpreter/options.go, engine.go).

    Execute starts from a zero execOpts ([opts := &execOpts{}]) and applies the options in the order given.  Four
    of them touch the flag word, and every one of them does [p.flags.AddFlag(word)], i.e. [*s |= word]
    (scriptflag.go): WithFlags(w) adds w, WithAfterGenesis() adds UTXOAfterGenesis, WithForkID() adds
    EnableSighashForkID, WithP2SH() adds Bip16.  [flags_of_options] is that loop.  The other options (WithTx,
    WithScripts, WithDebugger, WithState) do not read or write the flag word, so where the flag options stand among
    them is immaterial; the flag word the interpreter then runs under ([ei_flags], before [normalise_flags]) is
    [flags_of_options l].

    Theorems: the word is the UNION of the options' words - a flag is in force exactly when some option of the list
    names it (no later option can drop what an earlier one set), the order of the options, repetitions and empty
    words do not matter, and two lists naming the same flags run every program identically. *)
From Coq Require Import List NArith ZArith Bool Permutation.
From Coq Require Import Strings.Byte.
From GoBT Require Import lib.Bytes model.ScriptNum model.Interp.
Import ListNotations.
Local Open Scope N_scope.

Inductive flag_option :=
| OptFlags (w : N)      (* WithFlags(w) *)
| OptAfterGenesis       (* WithAfterGenesis() *)
| OptForkID             (* WithForkID() *)
| OptP2SH.              (* WithP2SH() *)

Definition option_word (o : flag_option) : N :=
  match o with
  | OptFlags w => w
  | OptAfterGenesis => N.shiftl 1 F_GENESIS
  | OptForkID => N.shiftl 1 F_FORKID
  | OptP2SH => N.shiftl 1 F_BIP16
  end.

(** one option applied to the flag word collected so far: [p.flags.AddFlag(word)] *)
Definition apply_option (acc : N) (o : flag_option) : N := N.lor acc (option_word o).

(** [for _, o := range oo { o(opts) }] on the zero execOpts *)
Definition flags_of_options (l : list flag_option) : N := fold_left apply_option l 0.

(** Engine.Execute with the flags handed over as an option list *)
Definition with_flags (i : exec_input) (w : N) : exec_input :=
  mkExecInput (ei_unlock i) (ei_lock i) w (ei_has_tx i) (ei_has_prevout i) (ei_tx_lock i) (ei_tx_version i) (ei_in_seq i).
Definition engine_execute_opts (so : sigops) (l : list flag_option) (i : exec_input) : verdict * list snapshot :=
  engine_execute so (with_flags i (flags_of_options l)).

(** the options naming flag [n] *)
Definition names_flag (n : N) (o : flag_option) : bool := N.testbit (option_word o) n.

Lemma fold_apply_acc : forall l a, fold_left apply_option l a = N.lor a (fold_left apply_option l 0).
Proof.
  induction l as [|o l IH]; intros a; cbn [fold_left].
  - now rewrite N.lor_0_r.
  - rewrite IH. rewrite (IH (apply_option 0 o)). unfold apply_option.
    rewrite N.lor_0_l. now rewrite N.lor_assoc.
Qed.

Lemma flags_of_options_cons : forall o l, flags_of_options (o :: l) = N.lor (option_word o) (flags_of_options l).
Proof.
  intros o l. unfold flags_of_options. cbn [fold_left]. rewrite fold_apply_acc.
  unfold apply_option. now rewrite N.lor_0_l.
Qed.

Lemma flags_of_options_app : forall a b,
  flags_of_options (a ++ b) = N.lor (flags_of_options a) (flags_of_options b).
Proof.
  intros a b. unfold flags_of_options. rewrite fold_left_app. now rewrite fold_apply_acc.
Qed.

(** a flag is in force exactly when some option of the list names it: nothing an earlier option set is dropped by a
    later one, nothing is set that no option names *)
Lemma flags_of_options_testbit : forall l n,
  N.testbit (flags_of_options l) n = existsb (names_flag n) l.
Proof.
  induction l as [|o l IH]; intros n.
  - reflexivity.
  - rewrite flags_of_options_cons, N.lor_spec, IH. reflexivity.
Qed.

Lemma flags_of_options_single : forall w, flags_of_options [OptFlags w] = w.
Proof. intros w. unfold flags_of_options. cbn. reflexivity. Qed.

(** every option's word is contained in the result, wherever the option stands *)
Lemma option_word_kept : forall l o n,
  In o l -> N.testbit (option_word o) n = true -> N.testbit (flags_of_options l) n = true.
Proof.
  intros l o n Hin Hbit. rewrite flags_of_options_testbit. apply existsb_exists. exists o. split; assumption.
Qed.

Lemma flags_of_options_perm : forall l l', Permutation l l' -> flags_of_options l = flags_of_options l'.
Proof.
  intros l l' P. induction P as [|x l l' P IH|x y l|l l' l'' P1 IH1 P2 IH2].
  - reflexivity.
  - rewrite !flags_of_options_cons. now rewrite IH.
  - rewrite !flags_of_options_cons. rewrite !N.lor_assoc. now rewrite (N.lor_comm (option_word y)).
  - now rewrite IH1.
Qed.

(** two lists naming the same flags denote the same word *)
Lemma flags_of_options_same_names : forall l l',
  (forall n, existsb (names_flag n) l = existsb (names_flag n) l') -> flags_of_options l = flags_of_options l'.
Proof.
  intros l l' H. apply N.bits_inj. intros n. rewrite !flags_of_options_testbit. apply H.
Qed.

(** any list whose words add up to [w] runs every program as the single WithFlags(w) does *)
Lemma options_run_as_their_union : forall so l w i,
  flags_of_options l = w -> engine_execute_opts so l i = engine_execute so (with_flags i w).
Proof. intros so l w i H. unfold engine_execute_opts. now rewrite H. Qed.

Lemma options_same_names_same_run : forall so l l' i,
  (forall n, existsb (names_flag n) l = existsb (names_flag n) l') ->
  engine_execute_opts so l i = engine_execute_opts so l' i.
Proof.
  intros so l l' i H. unfold engine_execute_opts. now rewrite (flags_of_options_same_names l l' H).
Qed.

(** the named options are the one-flag words *)
Lemma named_options_are_words :
  flags_of_options [OptAfterGenesis] = 16384 /\ flags_of_options [OptForkID] = 2048 /\ flags_of_options [OptP2SH] = 1.
Proof. vm_compute. repeat split. Qed.

(** an era flag set by an earlier option is still in force after a later WithFlags of other flags *)
Lemma era_survives_later_with_flags : forall w rest,
  N.testbit (flags_of_options (OptAfterGenesis :: OptFlags w :: rest)) F_GENESIS = true /\
  N.testbit (flags_of_options (OptFlags (N.shiftl 1 F_GENESIS) :: OptFlags w :: rest)) F_GENESIS = true.
Proof.
  intros w rest. split; rewrite flags_of_options_testbit; cbn [existsb names_flag option_word];
    replace (N.testbit (N.shiftl 1 F_GENESIS) F_GENESIS) with true by (vm_compute; reflexivity); reflexivity.
Qed.
