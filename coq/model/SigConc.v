(** C02 — digests computed AT THE SAME TIME (txinput.go PreviousOutHash / SequenceHash, signaturehash.go
    OutputsHash, and the final buffer of CalcInputPreimage all have this shape):

        buf := make([]byte, 0)                 // or:  buf := hashBuf[:0]   (a package-level array)
        for _, x := range items { buf = append(buf, ser(x)...) }
        return crypto.Sha256d(buf)

    The value-level model (model/SigHash.v) is a function, so it cannot say what happens when two such
    loops run interleaved.  Here the loop is a THREAD on a small machine: a store of backing arrays, and per
    thread the array it appends into, its own slice length (a Go slice header is a local value: pointer, len),
    the chunks still to append, and the result.  One step = one statement of the loop (the reslice, one
    append, the final hash), and a schedule is any list of thread numbers.

    [append] onto a slice with spare capacity writes INTO the backing array at positions len.. and returns a
    longer header: [write_at].  With [make([]byte, 0)] every call owns its array ([th_arr] pairwise distinct);
    with [hashBuf[:0]] all calls share one. *)
From Coq Require Import List NArith Bool Arith Lia.
From Coq Require Import Strings.Byte.
From GoBT Require Import lib.Bytes lib.Sha256 model.Tx model.SigHash.
Import ListNotations.

Definition store := nat -> bytes.                    (* backing arrays by address *)
Definition upd (s : store) (a : nat) (v : bytes) : store := fun b => if Nat.eqb b a then v else s b.

(** arr[pos:pos+len(c)] = c, the array growing when the write ends past it (capacity is not modelled:
    a reallocation can only make threads MORE independent) *)
Definition write_at (arr : bytes) (pos : nat) (c : bytes) : bytes :=
  firstn pos arr ++ c ++ skipn (pos + length c) arr.

Record thr := mkThr {
  th_arr : nat;                 (* the array its slice points into *)
  th_started : bool;            (* has executed  buf := ...[:0]  *)
  th_len : nat;                 (* len(buf): local to the goroutine *)
  th_todo : list bytes;         (* serialised items still to append *)
  th_res : option bytes }.      (* Sha256d(buf), once computed *)

Definition thr_init (arr : nat) (chunks : list bytes) : thr := mkThr arr false 0 chunks None.

Definition step_thr (s : store) (t : thr) : store * thr :=
  if negb (th_started t) then (s, mkThr (th_arr t) true 0 (th_todo t) None)           (* buf := arr[:0] *)
  else match th_todo t with
       | c :: r => (upd s (th_arr t) (write_at (s (th_arr t)) (th_len t) c),            (* buf = append(buf, c...) *)
                    mkThr (th_arr t) true (th_len t + length c) r (th_res t))
       | [] => match th_res t with
               | None => (s, mkThr (th_arr t) true (th_len t) [] (Some (sha256d (firstn (th_len t) (s (th_arr t))))))
               | Some _ => (s, t)
               end
       end.

Fixpoint set_nth_thr (l : list thr) (k : nat) (t : thr) : list thr :=
  match l, k with
  | [], _ => []
  | _ :: r, O => t :: r
  | x :: r, S k' => x :: set_nth_thr r k' t
  end.

Definition machine := (store * list thr)%type.

Definition step (m : machine) (k : nat) : machine :=
  match nth_error (snd m) k with
  | None => m
  | Some t => let '(s', t') := step_thr (fst m) t in (s', set_nth_thr (snd m) k t')
  end.

Definition run (sched : list nat) (m : machine) : machine := fold_left step sched m.

(** the loops of the Go code as chunk lists *)
Definition prevout_chunks (t : tx) : list bytes := map (fun i => rev (in_txid i) ++ le_enc 4 (in_vout i)) (tx_ins t).
Definition sequence_chunks (t : tx) : list bytes := map (fun i => le_enc 4 (in_seq i)) (tx_ins t).
Definition outputs_chunks (t : tx) : list bytes := map bytes_for_sighash (tx_outs t).
