(** Model of go-bt's signature opcodes, in the shape of the code:
    bscript/interpreter/operations.go (opcodeCheckSig, opcodeCheckSigVerify, opcodeCheckMultiSig,
    opcodeCheckMultiSigVerify), thread.go (subScript, checkHashTypeEncoding, checkPubKeyEncoding,
    checkSignatureEncoding, the part of apply that records the previous output on the input),
    opcodeparser.go (removeOpcodeByData, removeOpcode, Unparse, ParsedOpcode.bytes), bscript/oppushdata.go
    (PushDataPrefix).

    ECDSA (go-bk/bec: ParsePubKey, ParseSignature / ParseDERSignature, Signature.Verify) is NOT
    modelled: it is an oracle record [sig_oracle]; every theorem quantifies over all oracles and the
    correspondence check supplies finite tables computed by calling go-bk directly.

    Go expressions that can panic are explicit ([EncPanic], [LPanic], [OPanic]): the indexing in
    checkSignatureEncoding, signatures[signatureIdx] / pubKeys[pubKeyIdx] in the matching loop,
    txCopy.Inputs[t.inputIdx], and the panics / log.Fatal of Tx.Clone and CalcInputSignatureHash.
    The data stack has its TOP AT THE HEAD (model/Interp.v). *)
From Coq Require Import List NArith ZArith Lia Bool.
From Coq Require Import Strings.Byte.
From GoBT Require Import lib.Bytes lib.VarInt lib.Sha256 model.Tx model.SigHash model.ScriptNum model.Interp.
Import ListNotations.
Local Open Scope Z_scope.

(** ** The ECDSA oracle (go-bk) *)
Record sig_oracle := mkOracle {
  orc_parse_pub : bytes -> bool;                (* bec.ParsePubKey succeeds *)
  orc_parse_sig : bool -> bytes -> bool;        (* true: bec.ParseDERSignature, false: bec.ParseSignature succeeds *)
  (* pubkey -> 32-byte hash -> signature (without hash type) -> parsed with the DER-strict parser ->
     Signature.Verify; [None]: the query is outside the supplied table (correspondence only) *)
  orc_verify : bytes -> bytes -> bytes -> bool -> option bool
}.

(** ** opcodeparser.go *)

(** ParsedOpcode.bytes; [None] = ErrInternal *)
Definition pop_bytes (p : pop) : option bytes :=
  let l := p_len p in
  let dl := N.of_nat (length (p_data p)) in
  let v := n2b (p_val p) in
  if l =? 1 then
    match p_data p with [] => Some [v] | _ => None end
  else
    let '(hdr, nbytes) :=
      if l =? -1 then let h := le_enc 1 dl in (h, Z.of_N (le_dec h) + 2)
      else if l =? -2 then let h := le_enc 2 dl in (h, Z.of_N (le_dec h) + 3)
      else if l =? -4 then let h := le_enc 4 dl in (h, Z.of_N (le_dec h) + 5)
      else ([], l) in
    let ret := v :: hdr ++ p_data p in
    if lenZ ret =? nbytes then Some ret else None.

(** DefaultOpcodeParser.Unparse *)
Fixpoint unparse (ops : list pop) : option bytes :=
  match ops with
  | [] => Some []
  | p :: r =>
      match pop_bytes p with
      | None => None
      | Some b => match unparse r with Some rest => Some (b ++ rest) | None => None end
      end
  end.

(** bscript.PushDataPrefix: the prefix of the push a script serialises [data] with (the smallest push
    instruction that fits; for empty data the single byte 00 = OP_0); [None] = ErrDataTooBig *)
Definition push_prefix (data : bytes) : option bytes :=
  let l := N.of_nat (length data) in
  if (l <=? 75)%N then Some [n2b l]
  else if (l <=? 255)%N then Some [n2b OP_PUSHDATA1; n2b l]
  else if (l <=? 65535)%N then Some (n2b OP_PUSHDATA2 :: le_enc 2 l)
  else if (l <=? 4294967295)%N then Some (n2b OP_PUSHDATA4 :: le_enc 4 l)
  else None.

(** pop.bytes() succeeds and equals [push], byte for byte *)
Definition is_push_of (push : bytes) (p : pop) : bool :=
  match pop_bytes p with Some b => bytes_eqb b push | None => false end.

(** ParsedScript.removeOpcodeByData: drop the opcodes whose serialisation is the push of [data] *)
Definition remove_by_data (ops : list pop) (data : bytes) : list pop :=
  match push_prefix data with
  | None => ops
  | Some pre => filter (fun p => negb (is_push_of (pre ++ data) p)) ops
  end.
(** ParsedScript.removeOpcode *)
Definition remove_opcode (ops : list pop) (v : N) : list pop :=
  filter (fun p => negb (p_val p =? v)%N) ops.

(** ** thread.go: the three encoding checks (true = nil error) *)

(** checkHashTypeEncoding; [shf] is the hash-type byte *)
Definition check_hash_type (c : ctx) (shf : N) : bool :=
  if negb (has_flag c F_STRICTENC) then true
  else
    let t0 := N.land shf 127 in                                     (* shf & ^AnyOneCanPay (uint8) *)
    let bip143 := has_flag c F_BIP143 in
    let t1 := if bip143 then N.lxor t0 sh_forkid else t0 in
    if bip143 && (N.land shf sh_forkid =? 0)%N then false
    else if negb (flag_has t1 sh_forkid) then
      if (t1 <? sh_all)%N || (sh_single <? t1)%N then false
      else if has_flag c F_FORKID && negb (flag_has shf sh_forkid) then false   (* must use the fork id digest *)
      else true
    else if (t1 <? 65)%N || (67 <? t1)%N then false
    else if negb (has_flag c F_FORKID) && flag_has shf sh_forkid then false
    else true.

(** checkPubKeyEncoding *)
Definition check_pubkey_enc (c : ctx) (pk : bytes) : bool :=
  if negb (has_flag c F_STRICTENC) then true
  else
    match pk with
    | [] => false
    | b0 :: _ =>
        (Nat.eqb (length pk) 33 && ((b2n b0 =? 2)%N || (b2n b0 =? 3)%N)) ||
        (Nat.eqb (length pk) 65 && (b2n b0 =? 4)%N)
    end.

(** halfOrder = S256().N >> 1 *)
Definition curve_order : N := 115792089237316195423570985008687907852837564279074904382605163141518161494337.
Definition half_order : N := N.shiftr curve_order 1.

Inductive enc_res := EncOk | EncErr | EncPanic.
(** sig[i]: a checked index *)
Definition at_ (sig : bytes) (i : nat) (k : N -> enc_res) : enc_res :=
  match nth_error sig i with Some b => k (b2n b) | None => EncPanic end.

(** checkSignatureEncoding, statement by statement *)
Definition check_sig_enc (c : ctx) (sig : bytes) : enc_res :=
  if negb (has_flag c F_DERSIG || has_flag c F_LOWS || has_flag c F_STRICTENC) then EncOk else
  let sigLen := length sig in
  if Nat.ltb sigLen 8 then EncErr else
  if Nat.ltb 72 sigLen then EncErr else
  at_ sig 0 (fun b0 => if negb (b0 =? 48)%N then EncErr else
  at_ sig 1 (fun b1 => if negb (N.to_nat b1 =? sigLen - 2)%nat then EncErr else
  at_ sig 3 (fun rLenN =>
    let rLen := N.to_nat rLenN in
    let sTypeOffset := (4 + rLen)%nat in
    let sLenOffset := (sTypeOffset + 1)%nat in
    if Nat.leb sigLen sTypeOffset then EncErr else
    if Nat.leb sigLen sLenOffset then EncErr else
    let sOffset := (sLenOffset + 1)%nat in
    at_ sig sLenOffset (fun sLenN =>
    let sLen := N.to_nat sLenN in
    if negb (sOffset + sLen =? sigLen)%nat then EncErr else
    at_ sig 2 (fun b2 => if negb (b2 =? 2)%N then EncErr else
    if Nat.eqb rLen 0 then EncErr else
    at_ sig 4 (fun r0 => if negb (N.land r0 128 =? 0)%N then EncErr else
    (* rLen > 1 && sig[rOffset] == 0 && sig[rOffset+1]&0x80 == 0, evaluated left to right *)
    let after_r_padding :=
      at_ sig sTypeOffset (fun st => if negb (st =? 2)%N then EncErr else
      if Nat.eqb sLen 0 then EncErr else
      at_ sig sOffset (fun s0 => if negb (N.land s0 128 =? 0)%N then EncErr else
      let after_s_padding :=
        if has_flag c F_LOWS then
          (* sig[rOffset : rOffset+rLen], sig[sOffset : sOffset+sLen] *)
          if Nat.ltb sigLen (4 + rLen) then EncPanic
          else if Nat.ltb sigLen (sOffset + sLen) then EncPanic
          else
            let rValue := be_dec (firstn rLen (skipn 4 sig)) in
            let sValue := be_dec (firstn sLen (skipn sOffset sig)) in
            (* rValue.Cmp(order) < 0 && sValue.Cmp(order) < 0 && sValue.Cmp(halfOrder) > 0 *)
            if (rValue <? curve_order)%N && (sValue <? curve_order)%N && (half_order <? sValue)%N then EncErr else EncOk
        else EncOk in
      if Nat.ltb 1 sLen && (s0 =? 0)%N
      then at_ sig (sOffset + 1) (fun s1 => if (N.land s1 128 =? 0)%N then EncErr else after_s_padding)
      else after_s_padding)) in
    if Nat.ltb 1 rLen && (r0 =? 0)%N
    then at_ sig 5 (fun r1 => if (N.land r1 128 =? 0)%N then EncErr else after_r_padding)
    else after_r_padding)))))).

(** ** the transaction the engine holds *)

(** apply: t.tx.InputIdx(idx).PreviousTxScript = prevOutput.LockingScript; PreviousTxSatoshis = prevOutput.Satoshis
    (the unlocking script executed is the input's own; the correspondence installs it from the case) *)
Definition engine_tx (t : tx) (i : N) (unlock lock : bytes) (sats : N) : tx :=
  mkTx (tx_version t)
       (mapi (fun j x => if (j =? i)%N then mkInput (in_txid x) (in_vout x) unlock (in_seq x) sats (Some lock) else x)
             (tx_ins t))
       (tx_outs t) (tx_lock t).

(** txCopy.Inputs[idx].PreviousTxScript = up; [None] = index out of range (panic) *)
Definition set_input_script (t : tx) (i : N) (up : bytes) : option tx :=
  match nthN (tx_ins t) i with
  | None => None
  | Some _ =>
      Some (mkTx (tx_version t)
                 (mapi (fun j x => if (j =? i)%N then set_prev_script x (Some up) else x) (tx_ins t))
                 (tx_outs t) (tx_lock t))
  end.

(** txCopy := t.tx.Clone(); txCopy.Inputs[t.inputIdx].PreviousTxScript = up;
    txCopy.CalcInputSignatureHash(uint32(t.inputIdx), shf) *)
Definition sighash_for (t : tx) (in_idx : N) (up : bytes) (shf : N) : sres :=
  match clone t with
  | ROk cp =>
      match set_input_script cp in_idx up with
      | None => SigHash.SPanic
      | Some cp' => fst (calc_input_signature_hash cp' (in_idx mod two32)%N shf)
      end
  | RErr => SFatal
  | RFuel => SFuel
  end.

(** ** opcodeCheckSig *)
Definition split_last (b : bytes) : option (bytes * byte) :=
  match rev b with
  | [] => None
  | l :: r => Some (rev r, l)
  end.

Definition uses_der_parser (c : ctx) : bool := has_flag c F_STRICTENC || has_flag c F_DERSIG.

(** the legacy stripping of one signature, as in opcodeCheckSig *)
Definition strip_sig (ops : list pop) (full_sig : bytes) : list pop :=
  remove_opcode (remove_by_data ops full_sig) OP_CODESEPARATOR.

(** subScript: t.scripts[t.scriptIdx][t.lastCodeSep:]  (lastCodeSep <= len always: it is only ever set to
    the index after an executed opcode of the current script and reset to 0 on a script change) *)
Definition sub_script (s : st) : list pop := skipn (last_sep s) (cur s).

(** the script code opcodeCheckSig hashes *)
Definition checksig_code_ops (c : ctx) (s : st) (full_sig : bytes) (shf : N) : list pop :=
  if negb (has_flag c F_FORKID) || negb (flag_has shf sh_forkid)
  then strip_sig (sub_script s) full_sig else sub_script s.

Definition finish_verify (vf : bool) (o : outcome) : outcome :=
  if vf then match o with OOk s' => verify_top s' | other => other end else o.

(** checkSigFailed: false is pushed, unless NULLFAIL is set and the signature (hash type included) is not empty *)
Definition checksig_failed (c : ctx) (s1 : st) (full : bytes) : outcome :=
  if has_flag c F_NULLFAIL && Nat.ltb 0 (length full) then OErr else push_bool s1 false.

(** [None] = the oracle has no answer for a Verify query *)
Definition checksig_run (orc : sig_oracle) (t : tx) (in_idx : N) (c : ctx) (s : st) (idx : nat) (vf : bool)
  : option outcome :=
  match ds s with
  | pk :: full :: r =>
      let s1 := set_ds s r in
      option_map (finish_verify vf)
      match split_last full with
      | None =>                                                         (* len(fullSigBytes) < 1: the key is still checked *)
          if negb (check_pubkey_enc c pk) then Some OErr else Some (push_bool s1 false)
      | Some (sig, hb) =>
          let shf := b2n hb in
          if negb (check_hash_type c shf) then Some OErr else
          match check_sig_enc c sig with
          | EncErr => Some OErr
          | EncPanic => Some OPanic
          | EncOk =>
              if negb (check_pubkey_enc c pk) then Some OErr else
              match unparse (checksig_code_ops c s full shf) with
              | None => Some OErr
              | Some up =>
                  match sighash_for t in_idx up shf with
                  | SOk h =>
                      if negb (orc_parse_pub orc pk) then Some (checksig_failed c s1 full) else
                      let der := uses_der_parser c in
                      if negb (orc_parse_sig orc der sig) then Some (checksig_failed c s1 full) else
                      match orc_verify orc pk h sig der with
                      | None => None
                      | Some ok => if ok then Some (push_bool s1 true) else Some (checksig_failed c s1 full)
                      end
                  | SigHash.SErr _ => Some OErr                                (* PushBool(false); return err *)
                  | SigHash.SPanic | SFatal | SFuel => Some OPanic
                  end
              end
          end
      end
  | _ => Some OErr
  end.

(** ** opcodeCheckMultiSig *)

(** n pops of PopByteArray: the popped items in pop order (first popped first) and the rest *)
Definition pop_n (n : Z) (d : list bytes) : option (list bytes * list bytes) :=
  if lenZ d <? n then None else Some (firstn (Z.to_nat n) d, skipn (Z.to_nat n) d).

(** l[i] for a Go int index *)
Definition nthZ {A} (l : list A) (i : Z) : option A :=
  if (i <? 0) || (lenZ l <=? i) then None else nth_error l (Z.to_nat i).
Fixpoint upd {A} (l : list A) (i : nat) (x : A) : list A :=
  match l, i with
  | [], _ => []
  | _ :: r, O => x :: r
  | y :: r, S k => y :: upd r k x
  end.

(** the per-signature removal loop before the matching loop, with the FORKID guard: only the pushes of
    the signatures are removed here, an empty signature (no hash type, hence no FORKID bit) included *)
Definition multisig_strip_one (c : ctx) (ops : list pop) (raw : bytes) : list pop :=
  match split_last raw with
  | Some (_, hb) =>
      if has_flag c F_FORKID && flag_has (b2n hb) sh_forkid then ops else remove_by_data ops raw
  | None => remove_by_data ops raw
  end.
Definition multisig_code_ops (c : ctx) (s : st) (sigs : list bytes) : list pop :=
  fold_left (multisig_strip_one c) sigs (sub_script s).

(** inside the matching loop: the separators are removed for the digest of a signature that does not
    use the FORKID digest, and for that signature only *)
Definition sig_code_ops (c : ctx) (script : list pop) (shf : N) : list pop :=
  if negb (has_flag c F_FORKID) || negb (flag_has shf sh_forkid)
  then remove_opcode script OP_CODESEPARATOR else script.

Inductive loop_res :=
| LDone (success : bool)
| LErr                      (* return err *)
| LPushFalse                (* PushBool(false); return nil *)
| LMiss                     (* oracle without an answer *)
| LPanic
| LFuel.                    (* model artefact; proved unreachable *)

(** the memo: parsedSigInfo.parsed / parsedSignature != nil per signature *)
Definition memo := list (option bool).   (* None: not parsed yet; Some ok: parsed, ok = parsedSignature != nil *)

Section Loop.
Variable orc : sig_oracle.
Variable t : tx.
Variable in_idx : N.
Variable c : ctx.
Variable script : list pop.         (* the script minus the removed signature pushes; [sig_code_ops] of it is unparsed for every verification *)
Variable pks sigs : list bytes.     (* pubKeys, signatures (raw) in pop order *)

(** for numSignatures > 0 { ... }: every iteration increments pubKeyIdx, so fuel = number of keys + 1 *)
Fixpoint ms_loop (fuel : nat) (m : memo) (pubKeyIdx numPubKeys signatureIdx numSignatures : Z) : loop_res :=
  if numSignatures <=? 0 then LDone true else
  match fuel with
  | O => LFuel
  | S f =>
      let pubKeyIdx := pubKeyIdx + 1 in
      let numPubKeys := numPubKeys - 1 in
      if numPubKeys <? numSignatures then LDone false else
      match nthZ sigs signatureIdx, nthZ pks pubKeyIdx, nthZ m signatureIdx with
      | Some rawSig, Some pubKey, Some parsed =>
          match split_last rawSig with
          | None =>                                                    (* empty: the key is still checked, then continue *)
              if negb (check_pubkey_enc c pubKey) then LErr
              else ms_loop f m pubKeyIdx numPubKeys signatureIdx numSignatures
          | Some (sig, hb) =>
              let shf := b2n hb in
              let der := uses_der_parser c in
              (* everything after the signature has been parsed successfully *)
              let with_parsed (m' : memo) : loop_res :=
                if negb (orc_parse_pub orc pubKey) then ms_loop f m' pubKeyIdx numPubKeys signatureIdx numSignatures else
                match unparse (sig_code_ops c script shf) with
                | None => LPushFalse
                | Some up =>
                    match sighash_for t in_idx up shf with
                    | SOk h =>
                        match orc_verify orc pubKey h sig der with
                        | None => LMiss
                        | Some true => ms_loop f m' pubKeyIdx numPubKeys (signatureIdx + 1) (numSignatures - 1)
                        | Some false => ms_loop f m' pubKeyIdx numPubKeys signatureIdx numSignatures
                        end
                    | SigHash.SErr _ => LPushFalse
                    | SigHash.SPanic | SFatal | SFuel => LPanic
                    end
                end in
              (* the signature encoding (only once), then the key encoding, then parsing (only once) *)
              match (match parsed with
                     | None =>
                         if negb (check_hash_type c shf) then EncErr else check_sig_enc c sig
                     | Some _ => EncOk
                     end) with
              | EncErr => LErr
              | EncPanic => LPanic
              | EncOk =>
                  if negb (check_pubkey_enc c pubKey) then LErr else
                  match parsed with
                  | None =>
                      let ok := orc_parse_sig orc der sig in
                      let m' := upd m (Z.to_nat signatureIdx) (Some ok) in
                      if ok then with_parsed m'
                      else ms_loop f m' pubKeyIdx numPubKeys signatureIdx numSignatures
                  | Some false => ms_loop f m pubKeyIdx numPubKeys signatureIdx numSignatures
                  | Some true => with_parsed m
                  end
              end
          end
      | _, _, _ => LPanic
      end
  end.
End Loop.

(** popMultiSigCount: the counts are numbers of at most 4 bytes, before and after genesis *)
Definition pop_count (c : ctx) (b : bytes) : option Z :=
  match make_num b 4 (has_flag c F_MINIMALDATA) with NumOk z => Some z | _ => None end.

Definition checkmultisig_run (orc : sig_oracle) (t : tx) (in_idx : N) (c : ctx) (s : st) (idx : nat) (vf : bool)
  : option outcome :=
  match ds s with
  | [] => Some OErr
  | nk :: d1 =>
      match pop_count c nk with
      | None => Some OErr
      | Some nkz =>
          let numPubKeys := to_int32 nkz in
          if numPubKeys <? 0 then Some OErr else
          if max_pubkeys c <? numPubKeys then Some OErr else
          let nops' := nops s + numPubKeys in
          if max_ops c <? nops' then Some OErr else
          match pop_n numPubKeys d1 with
          | None => Some OErr
          | Some (pks, d2) =>
              match d2 with
              | [] => Some OErr
              | ns :: d3 =>
                  match pop_count c ns with
                  | None => Some OErr
                  | Some nsz =>
                      let numSignatures := to_int32 nsz in
                      if numSignatures <? 0 then Some OErr else
                      if numPubKeys <? numSignatures then Some OErr else
                      match pop_n numSignatures d3 with
                      | None => Some OErr
                      | Some (sigs, d4) =>
                          match d4 with
                          | [] => Some OErr
                          | dummy :: d5 =>
                              if has_flag c F_STRICTMULTISIG && negb (Nat.eqb (length dummy) 0) then Some OErr else
                              let s1 := set_nops (set_ds s d5) nops' in
                              let script := multisig_code_ops c s sigs in
                              match ms_loop orc t in_idx c script pks sigs (S (length pks))
                                            (repeat None (length sigs)) (-1) (numPubKeys + 1) 0 numSignatures with
                              | LErr => Some OErr
                              | LPanic | LFuel => Some OPanic
                              | LMiss => None
                              | LPushFalse => Some (finish_verify vf (push_bool s1 false))
                              | LDone success =>
                                  if negb success && has_flag c F_NULLFAIL &&
                                     existsb (fun sg => Nat.ltb 0 (length sg)) sigs then Some OErr
                                  else Some (finish_verify vf (push_bool s1 success))
                              end
                          end
                      end
                  end
              end
          end
      end
  end.

(** ** the interpreter's signature operations.  A Verify query the oracle cannot answer is a script
    error here; the correspondence uses [mk_sigops_loud], which turns it into a panic verdict so that a
    missing table entry can never go unnoticed. *)
Definition mk_sigops (orc : sig_oracle) (t : tx) (in_idx : N) : sigops :=
  mkSigops (fun c s idx vf => match checksig_run orc t in_idx c s idx vf with Some o => o | None => OErr end)
           (fun c s idx vf => match checkmultisig_run orc t in_idx c s idx vf with Some o => o | None => OErr end).

Definition mk_sigops_loud (orc : sig_oracle) (t : tx) (in_idx : N) : sigops :=
  mkSigops (fun c s idx vf => match checksig_run orc t in_idx c s idx vf with Some o => o | None => OPanic end)
           (fun c s idx vf => match checkmultisig_run orc t in_idx c s idx vf with Some o => o | None => OPanic end).
