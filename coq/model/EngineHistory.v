(** The Engine OBJECT over a sequence of Execute calls (property C07).

    [engine_execute] / [engine_execute_opts] are one call of [Engine.Execute].  A caller that checks many inputs
    makes one engine with [interpreter.NewEngine()] and calls [Execute] on it again and again:

        type engine struct{}                                   // no fields (gen/Structs.v, C07_state_inventory)
        func NewEngine() Engine { return &engine{} }
        func (e *engine) Execute(oo ...ExecutionOptionFunc) error {
            opts := &execOpts{}                                // fresh options ...
            for _, o := range oo { o(opts) }
            t, err := createThread(opts)                       // ... a fresh thread with a fresh parser, stacks, config
            ...
        }

    Here the object is explicit: [engine] is the record of the fields of the Go struct (there are none), [execute]
    takes the engine before the call and returns the engine after it together with the result, and a history is the
    engine threaded through a list of calls.  What the totality theorem says about one call it then says about every
    call of every history ([history_no_panic]), because the n-th call of a history is the call on a new engine
    ([history_call_is_fresh_call]).  These two statements are what the history cases of the correspondence
    (corr/C07.v [KHist], harness/cmd/interp/c07_history.go) tie to the code: the results observed on ONE Go engine,
    call after call, are compared with [run_history]. *)
From Coq Require Import List NArith ZArith Bool.
From Coq Require Import Strings.Byte.
From GoBT Require Import lib.Bytes model.ScriptNum model.Interp model.ExecOpts.
Import ListNotations.

(** the fields of [type engine struct{}] *)
Record engine := mkEngine { }.
Definition new_engine : engine := mkEngine.

(** one call: a program in a context (the harness's Program: scripts, flags, the transaction fields the interpreter
    reads) or a full argument set of Execute *)
Inductive call :=
| CProg (i : exec_input)
| COpts (o : exec_opts).

Definition call_result (so : sigops) (c : call) : verdict * list snapshot :=
  match c with
  | CProg i => engine_execute so i
  | COpts o => engine_execute_opts so o
  end.

(** (e *engine) Execute: reads no field of [e], writes none.  The signature operations are those of the call's own
    transaction: every call carries its [sigops]. *)
Definition execute (e : engine) (sc : sigops * call) : engine * (verdict * list snapshot) :=
  (e, call_result (fst sc) (snd sc)).

Fixpoint run_history (e : engine) (calls : list (sigops * call)) : list (verdict * list snapshot) :=
  match calls with
  | [] => []
  | sc :: rest => let '(e', r) := execute e sc in r :: run_history e' rest
  end.

