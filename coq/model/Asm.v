(** Model of the textual script forms of bscript/script.go: ToASM, NewFromASM (over the GENERATED
    name tables gen/OpNames.v = opCodeStrings / opCodeValues), String / NewFromHexString,
    MarshalJSON / UnmarshalJSON.  Code-shaped; index expressions are checked primitives. *)
From Coq Require Import List NArith Lia ZifyN ZifyNat ZifyBool ZArith Bool String Ascii DecimalString.
From Coq Require Import Strings.Byte.
From GoBT Require Import lib.Bytes lib.Hex lib.Checked gen.OpNames model.Push.
Import ListNotations.
Local Open Scope N_scope.
Local Open Scope bool_scope.

(** opCodeValues[b]: the zero value "" when the key is absent *)
Definition op_name (b : N) : string :=
  match find (fun e => fst e =? b) op_code_values with Some (_, n) => n | None => EmptyString end.
(** opCodeStrings[s] with the comma-ok form *)
Definition op_value (s : string) : option N :=
  match find (fun e => String.eqb (fst e) s) op_code_strings with Some (_, v) => Some v | None => None end.

(** fmt.Sprintf("%d", n) *)
Definition dec_of (n : N) : string := NilZero.string_of_uint (N.to_uint n).

Definition sp : ascii := " "%char.

(** the text written for one part ([data] = the script starts with OP_RETURN or OP_FALSE OP_RETURN) *)
Definition asm_part (data : bool) (p : bytes) : outcome string :=
  if lenN p =? 1 then
    chk (idx p 0) (fun p0 =>
      if data && negb (b2n p0 =? 106) then Ok (dec_of (b2n p0)) else Ok (op_name (b2n p0)))
  else if data && (lenN p <=? 4) then
    (* pad to four bytes, binary.LittleEndian.Uint32 *)
    let b := p ++ repeat_byte (4 - List.length p) x00 in
    Ok (dec_of (le_dec (firstn 4 b)))
  else Ok (hex_of p).

Fixpoint asm_parts (data : bool) (parts : list bytes) : outcome string :=
  match parts with
  | [] => Ok EmptyString
  | p :: r =>
      obind (asm_part data p) (fun t =>
      obind (asm_parts data r) (fun u => Ok (String sp (t ++ u))))
  end.

(** s[1:] of a Go string *)
Definition str_tail (s : string) : option string :=
  match s with EmptyString => None | String _ r => Some r end.

(** Script.ToASM: never returns an error; an undecodable tail shows as " [error]" *)
Definition to_asm (s : bytes) : outcome string :=
  if lenN s =? 0 then Ok EmptyString
  else
    match decode_parts s with
    | DPanic => Panic
    | DFuel => Fuel
    | (DOk parts | DErr parts) as r =>
        let data_o : outcome bool :=
          if 1 <? lenN s then
            chk (idx s 0) (fun s0 =>
              if b2n s0 =? 106 then Ok true
              else if b2n s0 =? 0 then chk (idx s 1) (fun s1 => Ok (b2n s1 =? 106))
              else Ok false)
          else Ok false in
        obind data_o (fun data =>
        obind (asm_parts data parts) (fun body =>
          let asm := if dres_ok r then body else (body ++ " [error]")%string in
          chk (str_tail asm) (fun t => Ok t)))
    end.

(** strings.Split(str, " ") *)
Fixpoint split_on (c : ascii) (s : string) : list string :=
  match s with
  | EmptyString => [EmptyString]
  | String a r =>
      let l := split_on c r in
      if Ascii.eqb a c then EmptyString :: l
      else match l with
           | h :: t => String a h :: t
           | [] => [String a EmptyString]
           end
  end.

(** AppendOpcodes(val) with its error ignored ([_ = s.AppendOpcodes(val)]): push opcodes are refused,
    i.e. nothing is appended *)
Definition append_opcode (s : bytes) (v : N) : bytes :=
  if (1 <=? v) && (v <=? 78) then s else s ++ [n2b v].

Fixpoint from_asm_sections (secs : list string) (s : bytes) : outcome bytes :=
  match secs with
  | [] => Ok s
  | sec :: r =>
      match op_value sec with
      | Some v => from_asm_sections r (append_opcode s v)
      | None =>
          match hexdecode sec with
          | None => Err                                   (* ErrInvalidOpCode *)
          | Some h =>
              match encode_parts [h] with
              | None => Err
              | Some p => from_asm_sections r (s ++ p)
              end
          end
      end
  end.

(** NewFromASM *)
Definition new_from_asm (str : string) : outcome bytes :=
  match str with
  | EmptyString => Ok []
  | _ => from_asm_sections (split_on sp str) []
  end.

(** String() / NewFromHexString *)
Definition script_string (s : bytes) : string := hex_of s.
Definition new_from_hex (h : string) : outcome bytes :=
  match hexdecode h with Some b => Ok b | None => Err end.

(** MarshalJSON: the hex string between two double quotes (fmt.Sprintf);
    UnmarshalJSON: NewFromHexString of the input with all leading and trailing double quotes
    removed (bytes.Trim) *)
Definition dq : ascii := """"%char.
Definition marshal_json (s : bytes) : string := String dq (hex_of s ++ String dq EmptyString).

Fixpoint trim_left (c : ascii) (s : string) : string :=
  match s with
  | String a r => if Ascii.eqb a c then trim_left c r else s
  | EmptyString => EmptyString
  end.
Fixpoint rev_string (s acc : string) : string :=
  match s with EmptyString => acc | String a r => rev_string r (String a acc) end.
Definition trim (c : ascii) (s : string) : string :=
  rev_string (trim_left c (rev_string (trim_left c s) EmptyString)) EmptyString.
Definition unmarshal_json (bb : string) : outcome bytes := new_from_hex (trim dq bb).
