(** Model of bscript/bip276.go (EncodeBIP276, createBIP276, DecodeBIP276) and of the
    [bitcoin-script:] dispatch of ValidateAddress (bscript/addressvalidation.go), as coded.

    Go strings are byte sequences: Coq [string]. The BIP276 struct has Go [int] fields: [Z]. *)
From Coq Require Import String Ascii List NArith ZArith Bool.
From Coq Require Import Strings.Byte.
From GoBT Require Import lib.Bytes lib.Hex lib.Str lib.Sha256.
Import ListNotations.
Local Open Scope string_scope.

Record bip276 := mkBip276 { b_prefix : string; b_version : Z; b_network : Z; b_data : bytes }.

(** ** fmt verbs used by createBIP276 *)

(** hex digits of a natural number, most significant first, no leading zero ("" for 0) *)
Fixpoint hex_digits_fuel (fuel : nat) (n : N) (acc : string) : string :=
  match fuel with
  | O => acc
  | S f => if (n =? 0)%N then acc
           else hex_digits_fuel f (n / 16)%N (String (hexdigit_of (n mod 16)%N) acc)
  end.
Definition hex_digits (n : N) : string := hex_digits_fuel (N.to_nat (N.size n)) n "".

(** [%.2x] on an int: precision 2 = at least two digits, zero padded; sign in front *)
Definition pad2 (s : string) : string :=
  match s with
  | "" => "00"
  | String c "" => String "0" (String c "")
  | _ => s
  end.
Definition fmt_x2 (z : Z) : string :=
  match z with
  | Zneg p => String "-" (pad2 (hex_digits (Npos p)))
  | _ => pad2 (hex_digits (Z.to_N z))
  end.

(** hex.EncodeToString(crypto.Sha256d([]byte(payload))[:4]); the slice [:4] of 32 bytes cannot panic *)
Definition checksum_of (payload : string) : string :=
  hex_of (firstn 4 (sha256d (bytes_of_string payload))).

(** createBIP276: fmt.Sprintf("%s:%.2x%.2x%x", Prefix, Network, Version, Data) — the network is
    written BEFORE the version (argument order as coded) *)
Definition payload_of (s : bip276) : string :=
  b_prefix s ++ ":" ++ fmt_x2 (b_network s) ++ fmt_x2 (b_version s) ++ hex_of (b_data s).
Definition create_bip276 (s : bip276) : string * string :=
  let payload := payload_of s in (payload, checksum_of payload).

Definition encode_bip276 (s : bip276) : string :=
  if ((b_version s <? 1) || (b_version s >? 255) || (b_network s <? 1) || (b_network s >? 255))%Z
  then "ERROR"
  else let '(p, c) := create_bip276 s in p ++ c.

(** ** The regular expression
    ^(.+?):(H{2})(H{2})(H{0,})(H{8})$   where H = [0-9A-Fa-f]  (H{0,} is written with a star in the source)

    Go's regexp (RE2 syntax, leftmost-first submatch semantics = what a backtracking matcher
    finds first) on this pattern, no flags:
    - [^]/[$] anchor at the very beginning / very end of the text (no multi-line mode);
    - [.] is any character except newline; invalid UTF-8 bytes are decoded as one-byte U+FFFD
      runes and a multi-byte rune is consumed whole, so over the byte string [.+?] consumes
      one or more non-newline bytes (rune boundaries never matter here because the next
      pattern character [:] is ASCII and cannot be a UTF-8 continuation byte);
    - [(.+?)] is LAZY: candidates for the prefix are tried shortest first; a candidate ends
      in front of a [:] and is taken iff the whole remainder matches the four hex groups up
      to the end of the text;
    - the remainder must be hex digits only, at least 2+2+0+8 = 12 of them; the group
      boundaries are then forced (2, 2, all but the last 8, 8) although [*] is greedy.
    [lazy_prefix] is exactly that search (the accumulator is what [.+?] has consumed so far).
    Since a remainder that matches contains no colon, the split is at the LAST colon: lemma
    [lazy_prefix_last_colon] in proofs/Bip276Proofs.v. The correspondence check exercises
    texts with several colons, newlines and non-UTF-8 bytes in the prefix. *)
Definition newline : ascii := "010"%char.

Definition tail_ok (r : string) : bool :=
  string_forall is_hexdigit r && Nat.leb 12 (String.length r).

Fixpoint lazy_prefix (acc : string) (s : string) : option (string * string) :=
  match s with
  | "" => None
  | String c r =>
      if (negb (String.eqb acc "")) && Ascii.eqb c ":" && tail_ok r then Some (acc, r)
      else if Ascii.eqb c newline then None
      else lazy_prefix (acc ++ String c "") r
  end.

(** FindStringSubmatch: groups 1..5, or None *)
Definition find_submatch (text : string) : option (string * string * string * string * string) :=
  match lazy_prefix "" text with
  | None => None
  | Some (p, r) =>
      let n := String.length r in
      Some (p, stake 2 r, stake 2 (sdrop 2 r), stake (n - 12) (sdrop 4 r), sdrop (n - 8) r)
  end.

(** strconv.ParseUint(s, 16, 8): non-empty, hex digits of either case, value <= 255 *)
Fixpoint parse_hex_acc (s : string) (acc : N) : option N :=
  match s with
  | "" => Some acc
  | String c r => match hexval c with None => None | Some d => parse_hex_acc r (16 * acc + d)%N end
  end.
Definition parse_uint_hex8 (s : string) : option N :=
  match s with
  | "" => None
  | _ => match parse_hex_acc s 0 with
         | Some n => if (n <=? 255)%N then Some n else None
         | None => None
         end
  end.

Inductive derr := ENoMatch | EParseUint | EHexData | EChecksum.
Inductive dres := DOk (s : bip276) | DErr (e : derr).

Definition decode_bip276 (text : string) : dres :=
  match find_submatch text with
  | None => DErr ENoMatch
  | Some (g1, g2, g3, g4, g5) =>
      match parse_uint_hex8 g2 with
      | None => DErr EParseUint
      | Some network =>
          match parse_uint_hex8 g3 with
          | None => DErr EParseUint
          | Some version =>
              match hexdecode g4 with
              | None => DErr EHexData
              | Some data =>
                  (* payload := text[:len(text)-len(res[5])]; len(res[5]) = 8 <= len(text) *)
                  let payload := stake (String.length text - String.length g5) text in
                  if negb (String.eqb g5 (checksum_of payload)) then DErr EChecksum
                  else DOk (mkBip276 g1 (Z.of_N version) (Z.of_N network) data)
              end
          end
      end
  end.

(** ValidateAddress: BIP276 branch as coded; the Base58 branch is a parameter here and is
    instantiated with [valid_a58] in model/Address.v *)
Definition validate_address_with (valid_a58 : string -> bool) (address : string) : bool :=
  if has_prefix "bitcoin-script:" address then
    match decode_bip276 address with DErr _ => false | DOk _ => true end
  else valid_a58 address.
