(** Model of the inscription codec, in the shape of the code:
    inscriptions.go (Tx.Inscribe, Tx.InscribeSpecificOrdinal, rangeAbove, OrdinalsPrefix),
    bscript/script.go (AppendOpcodes, AppendPushData, AppendPushDataString, AppendPushDataArray,
    ParseInscription, isOpZeroPart, Slice) as they are now in /repo (after
    `fix: ParseInscription returns empty data and content type as empty`).

    The push codec (PushDataPrefix / EncodeParts / DecodeParts) is model/Push.v; the part-level
    recogniser isP2PKHInscriptionHelper is the one of model/Fees.v (tied to the code by C11 as well).
    Every index / slice expression of ParseInscription and isOpZeroPart is a checked primitive
    ([PIPanic] when out of range); uint64 / uint32 arithmetic of rangeAbove wraps explicitly. *)
From Coq Require Import List NArith Lia Bool.
From Coq Require Import Strings.Byte.
From GoBT Require Import lib.Bytes lib.Checked lib.VarInt model.Tx model.Push.
From GoBT Require model.Fees.
Import ListNotations.
Local Open Scope N_scope.
Local Open Scope bool_scope.

(** ** Script.AppendOpcodes / AppendPushData *)

(** AppendOpcodes refuses (and appends nothing) when one of the opcodes is OP_DATA_1 .. OP_PUSHDATA4 *)
Definition append_opcodes (s : bytes) (oo : bytes) : option bytes :=
  if existsb (fun o => (1 <=? b2n o) && (b2n o <=? 78)) oo then None else Some (s ++ oo).
(** [_ = s.AppendOpcodes(...)]: the error is dropped, the script is then unchanged *)
Definition append_opcodes_ign (s oo : bytes) : bytes :=
  match append_opcodes s oo with Some s' => s' | None => s end.

(** AppendPushData(d) = EncodeParts([][]byte{d}) appended; AppendPushDataArray(dd) = EncodeParts(dd) appended *)
Definition append_push_data_array (s : bytes) (dd : list bytes) : option bytes :=
  match encode_parts dd with Some p => Some (s ++ p) | None => None end.
Definition append_push_data (s d : bytes) : option bytes := append_push_data_array s [d].

(** OrdinalsPrefix = "ord" *)
Definition ordinals_prefix : bytes := [x6f; x72; x64].

Definition OpFALSE : byte := x00.
Definition OpIF : byte := x63.
Definition Op1 : byte := x51.
Definition Op0 : byte := x00.
Definition OpENDIF : byte := x68.
Definition OpRETURN : byte := x6a.

(** ** Tx.Inscribe: the locking script it builds ([None] = the error of an over-long push), and the
    transaction afterwards.  [enriched]: EnrichedArgs.OpReturnData ([None] = nil EnrichedArgs). *)
Definition inscribe_script (prefix ct data : bytes) (enriched : option (list bytes)) : option bytes :=
  let s := append_opcodes_ign prefix [OpFALSE; OpIF] in
  match append_push_data s ordinals_prefix with
  | None => None
  | Some s =>
    let s := append_opcodes_ign s [Op1] in
    match append_push_data s ct with
    | None => None
    | Some s =>
      let s := append_opcodes_ign s [Op0] in
      match append_push_data s data with
      | None => None
      | Some s =>
        let s := append_opcodes_ign s [OpENDIF] in
        match enriched with
        | Some ((_ :: _) as dd) => append_push_data_array (append_opcodes_ign s [OpRETURN]) dd
        | _ => Some s
        end
      end
    end
  end.

Definition add_out (t : tx) (o : output) : tx :=
  mkTx (tx_version t) (tx_ins t) (tx_outs t ++ [o]) (tx_lock t).

Definition inscribe (t : tx) (prefix ct data : bytes) (enriched : option (list bytes)) : option tx :=
  match inscribe_script prefix ct data enriched with
  | Some s => Some (add_out t (mkOutput 1 s))
  | None => None
  end.

(** ** rangeAbove / InscribeSpecificOrdinal *)
Inductive ra_err := RaNoExist | RaSatsZero | RaOutputsNotEmpty | RaPush.
Inductive ra_res (A : Type) := RaOk (a : A) | RaErr (e : ra_err).
Arguments RaOk {A}. Arguments RaErr {A}.

(** the loop [for i, in := range is { if uint32(i) >= inputIdx {break}; ... }]; [i] is the int index *)
Fixpoint range_above_loop (is : list input) (i : N) (input_idx : N) (acc : N) : ra_res N :=
  match is with
  | [] => RaOk acc
  | x :: r =>
      if input_idx <=? i mod two32 then RaOk acc
      else if in_sats x =? 0 then RaErr RaSatsZero
      else range_above_loop r (i + 1) input_idx ((acc + in_sats x) mod two64)
  end.

Definition range_above (is : list input) (input_idx sat_idx : N) : ra_res N :=
  if N.of_nat (length is) mod two32 <? input_idx then RaErr RaNoExist
  else match range_above_loop is 0 input_idx 0 with
       | RaOk acc => RaOk ((acc + sat_idx) mod two64)
       | RaErr e => RaErr e
       end.

Definition inscribe_specific_ordinal (t : tx) (prefix ct data : bytes) (enriched : option (list bytes))
    (input_idx sat_idx : N) (extra_script : bytes) : ra_res tx :=
  match range_above (tx_ins t) input_idx sat_idx with
  | RaErr e => RaErr e
  | RaOk amount =>
      match tx_outs t with
      | _ :: _ => RaErr RaOutputsNotEmpty
      | [] =>
          match inscribe (add_out t (mkOutput amount extra_script)) prefix ct data enriched with
          | Some t' => RaOk t'
          | None => RaErr RaPush
          end
      end
  end.

(** ** isOpZeroPart(b, parts, idx): walk the first [idx] parts over the script bytes, then test b[pos].
    [None]: an index out of range (parts[:idx] or b[pos]). *)
Fixpoint op_zero_pos (b : bytes) (parts : list bytes) (n : nat) (pos : N) : option N :=
  match n with
  | O => Some pos
  | S n' =>
      match parts with
      | [] => None                                        (* parts[:idx] with idx > len(parts) *)
      | part :: r =>
          match idx b pos with
          | None => None                                  (* b[pos] *)
          | Some op =>
              let o := b2n op in
              let pos' :=
                if (1 <=? o) && (o <=? 75) then pos + 1 + lenN part
                else if o =? OP_PUSHDATA1 then pos + 2 + lenN part
                else if o =? OP_PUSHDATA2 then pos + 3 + lenN part
                else if o =? OP_PUSHDATA4 then pos + 5 + lenN part
                else pos + 1 in
              op_zero_pos b r n' pos'
          end
      end
  end.

Definition is_op_zero_part (b : bytes) (parts : list bytes) (n : nat) : option bool :=
  match op_zero_pos b parts n 0 with
  | None => None
  | Some pos => match idx b pos with Some x => Some (b2n x =? 0) | None => None end
  end.

(** ** Script.ParseInscription: (content type, data, locking-script prefix) *)
Inductive pi_res := PIOk (content_type data prefix : bytes) | PIErr | PIPanic.

Definition parse_inscription (s : bytes) : pi_res :=
  match decode_parts s with
  | DErr _ => PIErr
  | DPanic | DFuel => PIPanic
  | DOk p =>
      if (lenN s <? 25) || negb (Fees.is_p2pkh (firstn 25 s)) || negb (Fees.is_p2pkh_inscription_parts p) then PIErr
      else
        match idx p 11, idx p 9 with
        | Some data, Some ct =>
            match is_op_zero_part s p 11, is_op_zero_part s p 9, slice s 0 25 with
            | Some z11, Some z9, Some pre =>
                PIOk (if z9 then [] else ct) (if z11 then [] else data) pre
            | _, _, _ => PIPanic
            end
        | _, _ => PIPanic
        end
  end.

(** a P2PKH locking script for a 20-byte public-key hash *)
Definition p2pkh_script (h20 : bytes) : bytes := [x76; xa9; x14] ++ h20 ++ [x88; xac].
