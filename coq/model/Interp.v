(** Model of go-bt's script interpreter: bscript/interpreter/{thread,operations,stack,opcodeparser,config}.go.
    Written in the shape of the code: executeOpcode's order of checks, one handler per opcode, Step's
    end-of-script logic (stack limit, unbalanced conditionals, alt-stack reset, P2SH re-entry, zero-length
    scripts), apply's validation.  Go expressions that can panic are explicit: [OPanic].
    The data stack is a list with the TOP AT THE HEAD (Go keeps the top at the end). *)
From Coq Require Import List NArith ZArith Lia Bool.
From Coq Require Import Strings.Byte.
From GoBT Require Import lib.Bytes lib.Sha256 lib.Sha1 lib.Ripemd160 model.ScriptNum.
Import ListNotations.
Local Open Scope Z_scope.

(** ** Opcodes *)
Definition OP_0 : N := 0.          Definition OP_PUSHDATA1 : N := 76. Definition OP_PUSHDATA2 : N := 77.
Definition OP_PUSHDATA4 : N := 78. Definition OP_1NEGATE : N := 79.   Definition OP_RESERVED : N := 80.
Definition OP_1 : N := 81.         Definition OP_16 : N := 96.        Definition OP_NOP : N := 97.
Definition OP_VER : N := 98.       Definition OP_IF : N := 99.        Definition OP_NOTIF : N := 100.
Definition OP_VERIF : N := 101.    Definition OP_VERNOTIF : N := 102. Definition OP_ELSE : N := 103.
Definition OP_ENDIF : N := 104.    Definition OP_VERIFY : N := 105.   Definition OP_RETURN : N := 106.
Definition OP_TOALTSTACK : N := 107. Definition OP_FROMALTSTACK : N := 108.
Definition OP_2DROP : N := 109.    Definition OP_2DUP : N := 110.     Definition OP_3DUP : N := 111.
Definition OP_2OVER : N := 112.    Definition OP_2ROT : N := 113.     Definition OP_2SWAP : N := 114.
Definition OP_IFDUP : N := 115.    Definition OP_DEPTH : N := 116.    Definition OP_DROP : N := 117.
Definition OP_DUP : N := 118.      Definition OP_NIP : N := 119.      Definition OP_OVER : N := 120.
Definition OP_PICK : N := 121.     Definition OP_ROLL : N := 122.     Definition OP_ROT : N := 123.
Definition OP_SWAP : N := 124.     Definition OP_TUCK : N := 125.
Definition OP_CAT : N := 126.      Definition OP_SPLIT : N := 127.    Definition OP_NUM2BIN : N := 128.
Definition OP_BIN2NUM : N := 129.  Definition OP_SIZE : N := 130.
Definition OP_INVERT : N := 131.   Definition OP_AND : N := 132.      Definition OP_OR : N := 133.
Definition OP_XOR : N := 134.      Definition OP_EQUAL : N := 135.    Definition OP_EQUALVERIFY : N := 136.
Definition OP_RESERVED1 : N := 137. Definition OP_RESERVED2 : N := 138.
Definition OP_1ADD : N := 139.     Definition OP_1SUB : N := 140.     Definition OP_2MUL : N := 141.
Definition OP_2DIV : N := 142.     Definition OP_NEGATE : N := 143.   Definition OP_ABS : N := 144.
Definition OP_NOT : N := 145.      Definition OP_0NOTEQUAL : N := 146.
Definition OP_ADD : N := 147.      Definition OP_SUB : N := 148.      Definition OP_MUL : N := 149.
Definition OP_DIV : N := 150.      Definition OP_MOD : N := 151.      Definition OP_LSHIFT : N := 152.
Definition OP_RSHIFT : N := 153.   Definition OP_BOOLAND : N := 154.  Definition OP_BOOLOR : N := 155.
Definition OP_NUMEQUAL : N := 156. Definition OP_NUMEQUALVERIFY : N := 157. Definition OP_NUMNOTEQUAL : N := 158.
Definition OP_LESSTHAN : N := 159. Definition OP_GREATERTHAN : N := 160. Definition OP_LESSTHANOREQUAL : N := 161.
Definition OP_GREATERTHANOREQUAL : N := 162. Definition OP_MIN : N := 163. Definition OP_MAX : N := 164.
Definition OP_WITHIN : N := 165.
Definition OP_RIPEMD160 : N := 166. Definition OP_SHA1 : N := 167.    Definition OP_SHA256 : N := 168.
Definition OP_HASH160 : N := 169.  Definition OP_HASH256 : N := 170.  Definition OP_CODESEPARATOR : N := 171.
Definition OP_CHECKSIG : N := 172. Definition OP_CHECKSIGVERIFY : N := 173.
Definition OP_CHECKMULTISIG : N := 174. Definition OP_CHECKMULTISIGVERIFY : N := 175.
Definition OP_NOP1 : N := 176.     Definition OP_CLTV : N := 177.     Definition OP_CSV : N := 178.
Definition OP_NOP4 : N := 179.     Definition OP_NOP10 : N := 185.

(** ** Script flags (bit positions of scriptflag.Flag) *)
Definition F_BIP16 : N := 0.          Definition F_STRICTMULTISIG : N := 1. Definition F_DISCOURAGE_NOPS : N := 2.
Definition F_CLTV : N := 3.           Definition F_CSV : N := 4.            Definition F_CLEANSTACK : N := 5.
Definition F_DERSIG : N := 6.         Definition F_LOWS : N := 7.           Definition F_MINIMALDATA : N := 8.
Definition F_NULLFAIL : N := 9.       Definition F_SIGPUSHONLY : N := 10.   Definition F_FORKID : N := 11.
Definition F_STRICTENC : N := 12.     Definition F_BIP143 : N := 13.        Definition F_GENESIS : N := 14.
Definition F_MINIMALIF : N := 15.

(** ** Parsed opcodes (opcodeparser.go) *)
Record pop := mkPop {
  p_val : N;            (* opcode value *)
  p_len : Z;            (* the table's length field: 1, n+1, -1/-2/-4; for "Unformatted Data": bytes left *)
  p_data : bytes;
  p_real : bool         (* false for the synthetic "Unformatted Data" opcode, whose exec is nil *)
}.

Definition op_length (v : N) : Z :=
  if (1 <=? v)%N && (v <=? 75)%N then Z.of_N v + 1
  else if (v =? 76)%N then -1 else if (v =? 77)%N then -2 else if (v =? 78)%N then -4 else 1.

Definition requires_tx (v : N) : bool :=
  (v =? OP_CHECKSIG)%N || (v =? OP_CHECKSIGVERIFY)%N || (v =? OP_CHECKMULTISIG)%N ||
  (v =? OP_CHECKMULTISIGVERIFY)%N || (v =? OP_CSV)%N.
Definition is_conditional (v : N) : bool :=
  (v =? OP_IF)%N || (v =? OP_NOTIF)%N || (v =? OP_ELSE)%N || (v =? OP_ENDIF)%N || (v =? OP_VERIF)%N || (v =? OP_VERNOTIF)%N.
Definition is_disabled (v : N) : bool := (v =? OP_2MUL)%N || (v =? OP_2DIV)%N.
Definition always_illegal (v : N) : bool := (v =? OP_VERIF)%N || (v =? OP_VERNOTIF)%N.

(** DefaultOpcodeParser.Parse; [None] = error. Recursion on fuel = number of remaining bytes. *)
Fixpoint parse_ops (fuel : nat) (err_on_checksig : bool) (bs : bytes) (depth : Z) : option (list pop) :=
  match fuel with
  | O => match bs with [] => Some [] | _ => None end
  | S f =>
      match bs with
      | [] => Some []
      | b :: r =>
          let v := b2n b in
          if err_on_checksig && requires_tx v then None else
          let depth' := if (v =? OP_IF)%N || (v =? OP_NOTIF)%N
                        then depth + 1 else if (v =? OP_ENDIF)%N then depth - 1 else depth in
          if (v =? OP_RETURN)%N && (depth =? 0) then
            Some (mkPop v 1 [] true ::
                  match r with
                  | [] => []
                  | [x] => [mkPop (b2n x) 1 [] false]
                  | x :: data => [mkPop (b2n x) (Z.of_nat (length r)) data false]
                  end)
          else
            let l := op_length v in
            if l =? 1 then
              option_map (cons (mkPop v 1 [] true)) (parse_ops f err_on_checksig r depth')
            else if 1 <? l then
              let n := Z.to_nat (l - 1) in
              if Nat.ltb (length r) n then None
              else option_map (cons (mkPop v l (firstn n r) true))
                     (parse_ops f err_on_checksig (skipn n r) depth')
            else
              let n := Z.to_nat (- l) in
              if Nat.ltb (length r) n then None
              else
                let dlN := le_dec (firstn n r) in
                let rest := skipn n r in
                if (N.of_nat (length rest) <? dlN)%N then None   (* compare before converting: dlN is attacker-chosen *)
                else let dl := N.to_nat dlN in option_map (cons (mkPop v l (firstn dl rest) true))
                       (parse_ops f err_on_checksig (skipn dl rest) depth')
      end
  end.
Definition parse_script (err_on_checksig : bool) (bs : bytes) : option (list pop) :=
  parse_ops (length bs) err_on_checksig bs 0.

Definition is_push_only (ops : list pop) : bool := forallb (fun p => (p_val p <=? OP_16)%N) ops.

(** Script.IsP2SH: OP_HASH160 <20 bytes> OP_EQUAL, exactly 23 bytes *)
Definition is_p2sh (s : bytes) : bool :=
  match s with
  | a :: b :: r => (b2n a =? 169)%N && (b2n b =? 20)%N && Nat.eqb (length r) 21 &&
                   match rev r with e :: _ => (b2n e =? 135)%N | [] => false end
  | _ => false
  end.

(** ** Execution context and state *)
Record ctx := mkCtx {
  c_flags : N;              (* scriptflag.Flag word after apply's normalisation *)
  c_has_tx : bool;          (* a transaction was supplied *)
  c_tx_lock : Z;            (* tx.LockTime *)
  c_tx_version : Z;         (* tx.Version *)
  c_in_seq : Z;             (* tx.Inputs[idx].SequenceNumber *)
  c_err_on_checksig : bool  (* parser flag: tx == nil || prevOutput == nil *)
}.
Definition has_flag (c : ctx) (f : N) : bool := N.testbit (c_flags c) f.
Definition after_genesis (c : ctx) : bool := has_flag c F_GENESIS.

Definition max_int32 : Z := 2147483647.
Definition max_ops (c : ctx) : Z := if after_genesis c then max_int32 else 500.
Definition max_stack (c : ctx) : Z := if after_genesis c then max_int32 else 1000.
Definition max_script_size (c : ctx) : Z := if after_genesis c then max_int32 else 10000.
Definition max_elem (c : ctx) : Z := if after_genesis c then max_int32 else 520.
Definition max_numlen (c : ctx) : Z := if after_genesis c then 750000 else 4.
Definition max_pubkeys (c : ctx) : Z := if after_genesis c then max_int32 else 20.

Definition COND_FALSE : N := 0. Definition COND_TRUE : N := 1. Definition COND_SKIP : N := 2.

Record st := mkSt {
  ds : list bytes;        (* data stack, top first *)
  als : list bytes;       (* alt stack, top first *)
  cond : list N;          (* condStack, top first *)
  els : list bool;        (* elseStack (after genesis only), top first *)
  nops : Z;               (* numOps *)
  last_sep : nat;         (* lastCodeSep: index of the opcode after the last executed separator *)
  early : bool;           (* earlyReturnAfterGenesis *)
  cur : list pop          (* the script being executed (for the script code of signature checks) *)
}.

Inductive outcome :=
| OOk (s : st)            (* continue with the next opcode *)
| OReturn (s : st)        (* post-genesis top-level OP_RETURN: successful early end of this script *)
| OErr                    (* script error *)
| OPanic.                 (* the Go code would panic here *)

Definition lenZ {A} (l : list A) : Z := Z.of_nat (length l).

Definition set_ds (s : st) (d : list bytes) : st := mkSt d (als s) (cond s) (els s) (nops s) (last_sep s) (early s) (cur s).
Definition set_als (s : st) (a : list bytes) : st := mkSt (ds s) a (cond s) (els s) (nops s) (last_sep s) (early s) (cur s).
Definition set_cond (s : st) (c : list N) (e : list bool) : st := mkSt (ds s) (als s) c e (nops s) (last_sep s) (early s) (cur s).
Definition set_nops (s : st) (n : Z) : st := mkSt (ds s) (als s) (cond s) (els s) n (last_sep s) (early s) (cur s).
Definition set_sep (s : st) (n : nat) : st := mkSt (ds s) (als s) (cond s) (els s) (nops s) n (early s) (cur s).
Definition set_early (s : st) (b : bool) : st := mkSt (ds s) (als s) (cond s) (els s) (nops s) (last_sep s) b (cur s).

(** isBranchExecuting / shouldExec *)
Definition branch_executing (s : st) : bool :=
  match cond s with [] => true | t :: _ => (t =? COND_TRUE)%N end.
Definition should_exec (c : ctx) (s : st) (v : N) : bool :=
  if negb (after_genesis c) then true
  else forallb (fun x => negb (x =? COND_FALSE)%N) (cond s) && (negb (early s) || (v =? OP_RETURN)%N).

(** PopInt on the data stack with the stack's limits *)
Definition pop_num (c : ctx) (b : bytes) : option Z :=
  match make_num b (max_numlen c) (has_flag c F_MINIMALDATA) with NumOk z => Some z | _ => None end.

(** ** Stack primitives (stack.go); [None] = ErrInvalidStackOperation *)
Definition dup_n (n : nat) (d : list bytes) : option (list bytes) :=
  if Nat.ltb (length d) n then None else Some (firstn n d ++ d).
Definition rot_n (n : nat) (d : list bytes) : option (list bytes) :=
  if Nat.ltb (length d) (3 * n) then None
  else Some (firstn n (skipn (2 * n) d) ++ firstn (2 * n) d ++ skipn (3 * n) d).
Definition swap_n (n : nat) (d : list bytes) : option (list bytes) :=
  if Nat.ltb (length d) (2 * n) then None
  else Some (firstn n (skipn n d) ++ firstn n d ++ skipn (2 * n) d).
Definition over_n (n : nat) (d : list bytes) : option (list bytes) :=
  if Nat.ltb (length d) (2 * n) then None
  else Some (firstn n (skipn n d) ++ d).
Definition pick_n (i : Z) (d : list bytes) : option (list bytes) :=
  if (i <? 0) || (lenZ d <=? i) then None
  else match nth_error d (Z.to_nat i) with Some x => Some (x :: d) | None => None end.
Definition roll_n (i : Z) (d : list bytes) : option (list bytes) :=
  if (i <? 0) || (lenZ d <=? i) then None
  else match nth_error d (Z.to_nat i) with
       | Some x => Some (x :: firstn (Z.to_nat i) d ++ skipn (S (Z.to_nat i)) d)
       | None => None
       end.

(** ** Byte-string operations *)
Definition bytes_map2 (f : N -> N -> N) (a b : bytes) : bytes :=
  map (fun xy => n2b (f (b2n (fst xy)) (b2n (snd xy)))) (combine a b).

(** OP_LSHIFT / OP_RSHIFT as coded: byte shift + bit shift into a fresh slice of the same length.
    [n] is already limited to 8*len (shiftCount). *)
Definition shl_bytes (x : bytes) (n : nat) : bytes :=
  let byte_shift := Nat.div n 8 in
  let bit_shift := N.of_nat (Nat.modulo n 8) in
  let src := skipn byte_shift x in               (* x[i+byteShift] for i = 0.. *)
  let nxt := skipn (S byte_shift) x in           (* x[i+byteShift+1] *)
  let body := map (fun i =>
                let a := b2n (nth i src x00) in
                let b := match nth_error nxt i with Some y => b2n y | None => 0%N end in
                n2b (N.lor (N.shiftl a bit_shift mod 256) (N.shiftr b (8 - bit_shift))))
              (seq 0 (length src)) in
  body ++ repeat_byte (length x - length src) x00.
Definition shr_bytes (x : bytes) (n : nat) : bytes :=
  let byte_shift := Nat.div n 8 in
  let bit_shift := N.of_nat (Nat.modulo n 8) in
  let keep := (length x - byte_shift)%nat in     (* res[i] for i >= byteShift uses x[i-byteShift] *)
  let src := firstn keep x in
  let body := map (fun j =>
                let a := b2n (nth j src x00) in
                let b := match j with O => 0%N | S j' => b2n (nth j' src x00) end in
                n2b (N.lor (N.shiftr a bit_shift) (N.shiftl b (8 - bit_shift) mod 256)))
              (seq 0 (length src)) in
  repeat_byte (length x - length src) x00 ++ body.

(** OP_NUM2BIN result for a target size [n] (already checked: n >= len b, n > len b here) *)
Definition num2bin_pad (b : bytes) (n : nat) : bytes :=
  match rev b with
  | [] => repeat_byte (n - 1) x00 ++ [x00]
  | last :: rest =>
      let sign := if hi_bit last then x80 else x00 in
      rev rest ++ [clear_hi last] ++ repeat_byte (n - length b - 1) x00 ++ [sign]
  end.

(** ** Signature operations are a parameter of the interpreter (model/CheckSig.v instantiates them) *)
Record sigops := mkSigops {
  so_checksig : ctx -> st -> nat (* current opcode index *) -> bool (* verify variant *) -> outcome;
  so_checkmultisig : ctx -> st -> nat -> bool -> outcome
}.

Definition verify_top (s : st) : outcome :=
  match ds s with
  | [] => OErr
  | t :: r => if as_bool t then OOk (set_ds s r) else OErr
  end.

Definition push (s : st) (x : bytes) : outcome := OOk (set_ds s (x :: ds s)).
Definition push_num (s : st) (z : Z) : outcome := push s (num_enc z).
Definition push_bool (s : st) (b : bool) : outcome := push s (from_bool b).

Definition unary_num (c : ctx) (s : st) (f : Z -> Z) : outcome :=
  match ds s with
  | a :: r => match pop_num c a with Some x => push_num (set_ds s r) (f x) | None => OErr end
  | _ => OErr
  end.
(** binary numeric: v0 is the top (popped first), v1 below it *)
Definition binary_num (c : ctx) (s : st) (f : Z -> Z -> option Z) : outcome :=
  match ds s with
  | a :: b :: r =>
      match pop_num c a with
      | Some v0 => match pop_num c b with
                   | Some v1 => match f v0 v1 with Some z => push_num (set_ds s r) z | None => OErr end
                   | None => OErr end
      | None => OErr
      end
  | [a] => match pop_num c a with Some _ => OErr | None => OErr end
  | [] => OErr
  end.
Definition b2z (b : bool) : Z := if b then 1 else 0.

(** popIfBool *)
Definition pop_if_bool (c : ctx) (s : st) : option (bool * st) :=
  match ds s with
  | [] => None
  | b :: r =>
      if has_flag c F_MINIMALIF then
        if Nat.ltb 1 (length b) then None
        else match b with
             | [x] => if (b2n x =? 1)%N then Some (as_bool b, set_ds s r) else None
             | _ => Some (as_bool b, set_ds s r)
             end
      else Some (as_bool b, set_ds s r)
  end.

Definition verify_locktime (tx_lt threshold lt : Z) : bool :=
  (((tx_lt <? threshold) && (lt <? threshold)) || ((threshold <=? tx_lt) && (threshold <=? lt))) && (lt <=? tx_lt).

Definition nop_like (c : ctx) (s : st) : outcome :=
  if has_flag c F_DISCOURAGE_NOPS then OErr else OOk s.

(** one handler per opcode: [idx] is the opcode's index in the current script *)
Definition exec_handler (so : sigops) (c : ctx) (p : pop) (idx : nat) (s : st) : outcome :=
  let v := p_val p in
  let d := ds s in
  if negb (p_real p) then OPanic                                    (* exec == nil *)
  else if (v =? OP_0)%N then push s []
  else if (v <=? OP_PUSHDATA4)%N then push s (p_data p)
  else if (v =? OP_1NEGATE)%N then push_num s (-1)
  else if (v =? OP_RESERVED)%N then OErr
  else if (v <=? OP_16)%N then push s [n2b (v - 80)]
  else if (v =? OP_NOP)%N then OOk s
  else if (v =? OP_VER)%N then OErr
  else if (v =? OP_IF)%N || (v =? OP_NOTIF)%N then
    if should_exec c s v then
      if branch_executing s then
        match pop_if_bool c s with
        | None => OErr
        | Some (ok, s') =>
            let taken := if (v =? OP_IF)%N then ok else negb ok in
            OOk (set_cond s' ((if taken then COND_TRUE else COND_FALSE) :: cond s')
                          (if after_genesis c then false :: els s' else els s'))
        end
      else OOk (set_cond s (COND_SKIP :: cond s) (if after_genesis c then false :: els s else els s))
    else OOk (set_cond s (COND_FALSE :: cond s) (if after_genesis c then false :: els s else els s))
  else if (v =? OP_VERIF)%N || (v =? OP_VERNOTIF)%N then
    if after_genesis c && negb (should_exec c s v) then OOk s else OErr
  else if (v =? OP_ELSE)%N then
    match cond s with
    | [] => OErr
    | t :: cr =>
        (* elseStack.PopBool: nopBoolStack before genesis returns false; a real stack after *)
        let popped := if after_genesis c then match els s with e :: er => Some (e, er) | [] => None end
                      else Some (false, els s) in
        match popped with
        | None => OErr
        | Some (seen_else, er) =>
            if seen_else then OErr
            else
              let t' := if (t =? COND_TRUE)%N then COND_FALSE else if (t =? COND_FALSE)%N then COND_TRUE else t in
              OOk (set_cond s (t' :: cr) (if after_genesis c then true :: er else er))
        end
    end
  else if (v =? OP_ENDIF)%N then
    match cond s with
    | [] => OErr
    | _ :: cr =>
        if after_genesis c then match els s with _ :: er => OOk (set_cond s cr er) | [] => OErr end
        else OOk (set_cond s cr (els s))
    end
  else if (v =? OP_VERIFY)%N then verify_top s
  else if (v =? OP_RETURN)%N then
    if negb (after_genesis c) then OErr
    else match cond s with [] => OReturn (set_early s true) | _ => OOk (set_early s true) end
  else if (v =? OP_CLTV)%N then
    if negb (has_flag c F_CLTV) || after_genesis c then nop_like c s
    else if negb (c_has_tx c) then OErr
    else match d with
         | [] => OErr
         | t :: _ =>
             match make_num t 5 (has_flag c F_MINIMALDATA) with
             | NumOk lt =>
                 if lt <? 0 then OErr
                 else if negb (verify_locktime (c_tx_lock c) 500000000 (to_int64 lt)) then OErr
                 else if c_in_seq c =? 4294967295 then OErr else OOk s
             | _ => OErr
             end
         end
  else if (v =? OP_CSV)%N then
    if negb (has_flag c F_CSV) || after_genesis c then nop_like c s
    else match d with
         | [] => OErr
         | t :: _ =>
             match make_num t 5 (has_flag c F_MINIMALDATA) with
             | NumOk sq =>
                 if sq <? 0 then OErr
                 else
                   let sequence := to_int64 sq in
                   if Z.testbit sequence 31 then OOk s
                   else if negb (c_has_tx c) then OPanic            (* t.tx.Version on a nil tx *)
                   else if c_tx_version c <? 2 then OErr
                   else if Z.testbit (c_in_seq c) 31 then OErr
                   else if verify_locktime (Z.land (c_in_seq c) 4259839) 4194304 (Z.land sequence 4259839)
                        then OOk s else OErr
             | _ => OErr
             end
         end
  else if (v =? OP_TOALTSTACK)%N then
    match d with t :: r => OOk (set_als (set_ds s r) (t :: als s)) | [] => OErr end
  else if (v =? OP_FROMALTSTACK)%N then
    match als s with t :: r => OOk (set_ds (set_als s r) (t :: d)) | [] => OErr end
  else if (v =? OP_2DROP)%N then match d with _ :: _ :: r => OOk (set_ds s r) | _ => OErr end
  else if (v =? OP_2DUP)%N then match dup_n 2 d with Some d' => OOk (set_ds s d') | None => OErr end
  else if (v =? OP_3DUP)%N then match dup_n 3 d with Some d' => OOk (set_ds s d') | None => OErr end
  else if (v =? OP_2OVER)%N then match over_n 2 d with Some d' => OOk (set_ds s d') | None => OErr end
  else if (v =? OP_2ROT)%N then match rot_n 2 d with Some d' => OOk (set_ds s d') | None => OErr end
  else if (v =? OP_2SWAP)%N then match swap_n 2 d with Some d' => OOk (set_ds s d') | None => OErr end
  else if (v =? OP_IFDUP)%N then
    match d with t :: _ => if as_bool t then push s t else OOk s | [] => OErr end
  else if (v =? OP_DEPTH)%N then push_num s (lenZ d)
  else if (v =? OP_DROP)%N then match d with _ :: r => OOk (set_ds s r) | [] => OErr end
  else if (v =? OP_DUP)%N then match dup_n 1 d with Some d' => OOk (set_ds s d') | None => OErr end
  else if (v =? OP_NIP)%N then match d with a :: _ :: r => OOk (set_ds s (a :: r)) | _ => OErr end
  else if (v =? OP_OVER)%N then match over_n 1 d with Some d' => OOk (set_ds s d') | None => OErr end
  else if (v =? OP_PICK)%N || (v =? OP_ROLL)%N then
    match d with
    | t :: r =>
        match pop_num c t with
        | Some n =>
            match (if (v =? OP_PICK)%N then pick_n else roll_n) (to_int32 n) r with
            | Some d' => OOk (set_ds s d') | None => OErr end
        | None => OErr
        end
    | [] => OErr
    end
  else if (v =? OP_ROT)%N then match rot_n 1 d with Some d' => OOk (set_ds s d') | None => OErr end
  else if (v =? OP_SWAP)%N then match swap_n 1 d with Some d' => OOk (set_ds s d') | None => OErr end
  else if (v =? OP_TUCK)%N then match d with x2 :: x1 :: r => OOk (set_ds s (x2 :: x1 :: x2 :: r)) | _ => OErr end
  else if (v =? OP_CAT)%N then
    match d with
    | b :: a :: r => if max_elem c <? lenZ (a ++ b) then OErr else push (set_ds s r) (a ++ b)
    | _ => OErr
    end
  else if (v =? OP_SPLIT)%N then
    match d with
    | nb :: r =>
        match pop_num c nb with
        | None => OErr
        | Some n =>
            match r with
            | x :: r' =>
                if lenZ x <? n then OErr
                else if n <? 0 then OErr
                else
                  (* 0 <= n <= len(c) <= MaxInt, so n.Int() is exact and c[:n] is in range *)
                  OOk (set_ds s (skipn (Z.to_nat n) x :: firstn (Z.to_nat n) x :: r'))
            | [] => OErr
            end
        end
    | [] => OErr
    end
  else if (v =? OP_NUM2BIN)%N then
    match d with
    | nb :: r =>
        match pop_num c nb with
        | None => OErr
        | Some n =>
            match r with
            | a :: r' =>
                if max_elem c <? n then OErr
                else
                  let b := num_enc (num_dec a) in
                  if n <? lenZ b then OErr
                  else if n =? lenZ b then push (set_ds s r') b
                  else push (set_ds s r') (num2bin_pad b (Z.to_nat n))
            | [] => OErr
            end
        end
    | [] => OErr
    end
  else if (v =? OP_BIN2NUM)%N then
    match d with
    | a :: r => let b := minimally_encode a in
                if max_numlen c <? lenZ b then OErr else push (set_ds s r) b
    | [] => OErr
    end
  else if (v =? OP_SIZE)%N then match d with t :: _ => push_num s (lenZ t) | [] => OErr end
  else if (v =? OP_INVERT)%N then
    match d with a :: r => push (set_ds s r) (map (fun x => n2b (N.lxor (b2n x) 255)) a) | [] => OErr end
  else if (v =? OP_AND)%N || (v =? OP_OR)%N || (v =? OP_XOR)%N then
    match d with
    | a :: b :: r =>
        if negb (Nat.eqb (length a) (length b)) then OErr
        else push (set_ds s r) (bytes_map2 (if (v =? OP_AND)%N then N.land else if (v =? OP_OR)%N then N.lor else N.lxor) a b)
    | _ => OErr
    end
  else if (v =? OP_EQUAL)%N then
    match d with a :: b :: r => push_bool (set_ds s r) (bytes_eqb a b) | _ => OErr end
  else if (v =? OP_EQUALVERIFY)%N then
    match d with a :: b :: r => if bytes_eqb a b then OOk (set_ds s r) else OErr | _ => OErr end
  else if (v =? OP_RESERVED1)%N || (v =? OP_RESERVED2)%N then OErr
  else if (v =? OP_1ADD)%N then unary_num c s (fun x => x + 1)
  else if (v =? OP_1SUB)%N then unary_num c s (fun x => x - 1)
  else if (v =? OP_2MUL)%N || (v =? OP_2DIV)%N then OErr
  else if (v =? OP_NEGATE)%N then unary_num c s Z.opp
  else if (v =? OP_ABS)%N then unary_num c s Z.abs
  else if (v =? OP_NOT)%N then unary_num c s (fun x => b2z (x =? 0))
  else if (v =? OP_0NOTEQUAL)%N then unary_num c s (fun x => b2z (negb (x =? 0)))
  else if (v =? OP_ADD)%N then binary_num c s (fun v0 v1 => Some (v0 + v1))
  else if (v =? OP_SUB)%N then binary_num c s (fun v0 v1 => Some (v1 - v0))
  else if (v =? OP_MUL)%N then binary_num c s (fun v0 v1 => Some (v0 * v1))
  else if (v =? OP_DIV)%N then binary_num c s (fun v0 v1 => if v0 =? 0 then None else Some (Z.quot v1 v0))
  else if (v =? OP_MOD)%N then binary_num c s (fun v0 v1 => if v0 =? 0 then None else Some (Z.rem v1 v0))
  else if (v =? OP_LSHIFT)%N || (v =? OP_RSHIFT)%N then
    match d with
    | nb :: r =>
        match pop_num c nb with
        | None => OErr
        | Some n =>
            if n <? 0 then OErr
            else match r with
                 | x :: r' =>
                     (* shiftCount: n limited to 8*len(x) <= MaxInt, so the conversion to int is exact *)
                     let bits := 8 * lenZ x in
                     let k := if n <? bits then n else bits in
                     push (set_ds s r') ((if (v =? OP_LSHIFT)%N then shl_bytes else shr_bytes) x (Z.to_nat k))
                 | [] => OErr
                 end
        end
    | [] => OErr
    end
  else if (v =? OP_BOOLAND)%N then binary_num c s (fun v0 v1 => Some (b2z (negb (v0 =? 0) && negb (v1 =? 0))))
  else if (v =? OP_BOOLOR)%N then binary_num c s (fun v0 v1 => Some (b2z (negb (v0 =? 0) || negb (v1 =? 0))))
  else if (v =? OP_NUMEQUAL)%N then binary_num c s (fun v0 v1 => Some (b2z (v0 =? v1)))
  else if (v =? OP_NUMEQUALVERIFY)%N then
    match binary_num c s (fun v0 v1 => Some (b2z (v0 =? v1))) with OOk s' => verify_top s' | o => o end
  else if (v =? OP_NUMNOTEQUAL)%N then binary_num c s (fun v0 v1 => Some (b2z (negb (v0 =? v1))))
  else if (v =? OP_LESSTHAN)%N then binary_num c s (fun v0 v1 => Some (b2z (v1 <? v0)))
  else if (v =? OP_GREATERTHAN)%N then binary_num c s (fun v0 v1 => Some (b2z (v0 <? v1)))
  else if (v =? OP_LESSTHANOREQUAL)%N then binary_num c s (fun v0 v1 => Some (b2z (v1 <=? v0)))
  else if (v =? OP_GREATERTHANOREQUAL)%N then binary_num c s (fun v0 v1 => Some (b2z (v0 <=? v1)))
  else if (v =? OP_MIN)%N then binary_num c s (fun v0 v1 => Some (if v1 <? v0 then v1 else v0))
  else if (v =? OP_MAX)%N then binary_num c s (fun v0 v1 => Some (if v0 <? v1 then v1 else v0))
  else if (v =? OP_WITHIN)%N then
    match d with
    | mx :: mn :: x :: r =>
        match pop_num c mx with
        | Some vmax => match pop_num c mn with
                       | Some vmin => match pop_num c x with
                                      | Some vx => push_num (set_ds s r) (b2z ((vmin <=? vx) && (vx <? vmax)))
                                      | None => OErr end
                       | None => OErr end
        | None => OErr
        end
    | [mx; mn] => OErr
    | _ => OErr
    end
  else if (v =? OP_RIPEMD160)%N then match d with a :: r => push (set_ds s r) (ripemd160 a) | [] => OErr end
  else if (v =? OP_SHA1)%N then match d with a :: r => push (set_ds s r) (sha1 a) | [] => OErr end
  else if (v =? OP_SHA256)%N then match d with a :: r => push (set_ds s r) (sha256 a) | [] => OErr end
  else if (v =? OP_HASH160)%N then match d with a :: r => push (set_ds s r) (hash160 a) | [] => OErr end
  else if (v =? OP_HASH256)%N then match d with a :: r => push (set_ds s r) (sha256d a) | [] => OErr end
  else if (v =? OP_CODESEPARATOR)%N then OOk (set_sep s (S idx))
  else if (v =? OP_CHECKSIG)%N then so_checksig so c s idx false
  else if (v =? OP_CHECKSIGVERIFY)%N then so_checksig so c s idx true
  else if (v =? OP_CHECKMULTISIG)%N then so_checkmultisig so c s idx false
  else if (v =? OP_CHECKMULTISIGVERIFY)%N then so_checkmultisig so c s idx true
  else if (v =? OP_NOP1)%N || ((OP_NOP4 <=? v)%N && (v <=? OP_NOP10)%N) then nop_like c s
  else OErr.                                                        (* opcodeInvalid: 186..255 *)

(** enforceMinimumDataPush; true = acceptable *)
Definition minimal_push_ok (p : pop) : bool :=
  let v := p_val p in
  let dl := length (p_data p) in
  match p_data p with
  | [] => (v =? OP_0)%N
  | [x] =>
      let xv := b2n x in
      if (1 <=? xv)%N && (xv <=? 16)%N then (v =? OP_1 + xv - 1)%N
      else if (xv =? 129)%N then (v =? OP_1NEGATE)%N
      else (v =? 1)%N
  | _ =>
      if (N.of_nat dl <=? 75)%N then (v =? N.of_nat dl)%N
      else if (N.of_nat dl <=? 255)%N then (v =? OP_PUSHDATA1)%N
      else if (N.of_nat dl <=? 65535)%N then (v =? OP_PUSHDATA2)%N
      else true
  end.

(** thread.executeOpcode *)
Definition execute_opcode (so : sigops) (c : ctx) (p : pop) (idx : nat) (s : st) : outcome :=
  let v := p_val p in
  if max_elem c <? lenZ (p_data p) then OErr else
  let exec := should_exec c s v in
  if is_disabled v && (negb (after_genesis c) || exec) then OErr else
  if always_illegal v && negb (after_genesis c) then OErr else
  let s1 := if (OP_16 <? v)%N then set_nops s (nops s + 1) else s in
  if (OP_16 <? v)%N && (max_ops c <? nops s1) then OErr else
  if negb (branch_executing s1) && negb (is_conditional v) then OOk s1 else
  if has_flag c F_MINIMALDATA && branch_executing s1 && (v <=? OP_PUSHDATA4)%N && exec && negb (minimal_push_ok p) then OErr else
  if negb exec && negb (is_conditional v) then OOk s1 else
  exec_handler so c p idx s1.

(** ** Running one script: the per-instruction part of thread.Step, and snapshots for debuggers *)
Record snapshot := mkSnap { sn_ds : list bytes; sn_as : list bytes }.   (* bottom first, as Go's State *)
Definition snap (s : st) : snapshot := mkSnap (rev (ds s)) (rev (als s)).

Inductive script_end :=
| SEnd (s : st)            (* ran off the end of the script *)
| SReturn (s : st)         (* early OP_RETURN success *)
| SErr
| SPanic.

(** executes ops (the remaining opcodes of the current script, the first having index [idx]);
    returns how the script ended and the AfterStep snapshots of the successfully completed steps
    that did not end the script *)
Fixpoint run_ops (so : sigops) (c : ctx) (ops : list pop) (idx : nat) (s : st) (acc : list snapshot)
  : script_end * list snapshot :=
  match ops with
  | [] => (SEnd s, acc)
  | p :: rest =>
      match execute_opcode so c p idx s with
      | OErr => (SErr, acc)
      | OPanic => (SPanic, acc)
      | OReturn s' => (SReturn s', acc)
      | OOk s' =>
          if max_stack c <? lenZ (ds s') + lenZ (als s') then (SErr, acc)
          else match rest with
               | [] => (SEnd s', acc)
               | _ => run_ops so c rest (S idx) s' (snap s' :: acc)
               end
      end
  end.

(** shiftScript's resets; [next] is the script that becomes current *)
Definition shift_script (s : st) (next : list pop) : st :=
  mkSt (ds s) (als s) (cond s) (els s) 0 0 false next.

Inductive verdict := VOk | VErr | VPanic.

(** CheckErrorCondition(finalScript) on a data stack *)
Definition check_error_condition (c : ctx) (final : bool) (d : list bytes) : bool :=
  match d with
  | [] => false
  | t :: r =>
      if final && has_flag c F_CLEANSTACK && negb (Nat.eqb (length d) 1) then false
      else as_bool t
  end.

Definition init_st (script : list pop) : st := mkSt [] [] [] [] 0 0 false script.

(** thread.execute over the parsed scripts.  [s0]/[s1]: unlocking / locking script; [bip16]: P2SH mode.
    Returns the verdict and all AfterStep snapshots in execution order. *)
Definition finish (c : ctx) (d : list bytes) (acc : list snapshot) : verdict * list snapshot :=
  ((if check_error_condition c true d then VOk else VErr), rev acc).

(** end-of-script part of Step for a script that ran off its end: conditionals balanced, alt stack cleared *)
Definition end_script (s : st) : option st :=
  match cond s with [] => Some (set_als s []) | _ => None end.

Definition run_redeem (so : sigops) (c : ctx) (saved : list bytes) (s : st) (acc : list snapshot)
  : verdict * list snapshot :=
  (* Step's case 2: CheckErrorCondition(false), then the last item of the saved stack is the script *)
  if negb (check_error_condition c false (ds s)) then (VErr, rev acc)
  else match saved with
       | [] => (VPanic, rev acc)                                   (* savedFirstStack[len-1] on an empty slice *)
       | script :: below =>
           match parse_script (c_err_on_checksig c) script with
           | None => (VErr, rev acc)
           | Some ops =>
               let s' := set_ds (shift_script s ops) below in
               match ops with
               | [] => finish c below (snap s' :: acc)             (* zero-length script is skipped *)
               | _ =>
                   match run_ops so c ops 0 s' (snap s' :: acc) with
                   | (SErr, acc') => (VErr, rev acc')
                   | (SPanic, acc') => (VPanic, rev acc')
                   | (SReturn s2, acc') => finish c (ds s2) (snap (shift_script (set_als s2 []) []) :: acc')
                   | (SEnd s2, acc') =>
                       match end_script s2 with
                       | None => (VErr, rev acc')
                       | Some s3 => finish c (ds s3) (snap (shift_script s3 []) :: acc')
                       end
                   end
               end
           end
       end.

Definition run_lock (so : sigops) (c : ctx) (bip16 : bool) (saved : list bytes) (lock : list pop)
    (s : st) (acc : list snapshot) : verdict * list snapshot :=
  (* [s] is positioned at the start of the (non-empty) locking script *)
  match run_ops so c lock 0 s acc with
  | (SErr, acc') => (VErr, rev acc')
  | (SPanic, acc') => (VPanic, rev acc')
  | (SReturn s2, acc') => finish c (ds s2) (snap (shift_script (set_als s2 []) []) :: acc')
  | (SEnd s2, acc') =>
      match end_script s2 with
      | None => (VErr, rev acc')
      | Some s3 =>
          if bip16 && negb (after_genesis c) then run_redeem so c saved s3 acc'
          else finish c (ds s3) (snap (shift_script s3 []) :: acc')
      end
  end.

Definition execute (so : sigops) (c : ctx) (bip16 : bool) (unlock lock : list pop) : verdict * list snapshot :=
  match unlock with
  | [] =>
      (* apply: scriptIdx++ when the unlocking script is empty; the locking script is then non-empty *)
      match lock with
      | [] => (VErr, [])
      | _ => run_lock so c bip16 [] lock (init_st lock) []
      end
  | _ =>
      match run_ops so c unlock 0 (init_st unlock) [] with
      | (SErr, acc) => (VErr, rev acc)
      | (SPanic, acc) => (VPanic, rev acc)
      | (SReturn s1, acc) =>
          (* early return: the alt stack is dropped, then shiftScript; no P2SH bookkeeping (post-genesis only) *)
          let s2 := shift_script (set_als s1 []) lock in
          match lock with
          | [] => finish c (ds s2) (snap s2 :: acc)               (* zero-length locking script is skipped *)
          | _ => run_lock so c bip16 [] lock s2 (snap s2 :: acc)
          end
      | (SEnd s1, acc) =>
          match end_script s1 with
          | None => (VErr, rev acc)
          | Some s2 =>
              let s3 := shift_script s2 lock in
              let saved := ds s3 in                                (* case 1: savedFirstStack = GetStack() *)
              match lock with
              | [] => finish c (ds s3) (snap s3 :: acc)            (* zero-length locking script is skipped *)
              | _ => run_lock so c bip16 saved lock s3 (snap s3 :: acc)
              end
          end
      end
  end.

(** ** thread.apply: validation before execution.  [flags0]: the caller's flag word. *)
Definition normalise_flags (flags0 : N) : N :=
  if N.testbit flags0 F_FORKID then N.lor flags0 (N.shiftl 1 F_STRICTENC) else flags0.

Record exec_input := mkExecInput {
  ei_unlock : bytes; ei_lock : bytes; ei_flags : N;
  ei_has_tx : bool; ei_has_prevout : bool; ei_tx_lock : Z; ei_tx_version : Z; ei_in_seq : Z
}.

Definition engine_execute (so : sigops) (i : exec_input) : verdict * list snapshot :=
  let flags := normalise_flags (ei_flags i) in
  let c := mkCtx flags (ei_has_tx i) (ei_tx_lock i) (ei_tx_version i) (ei_in_seq i)
                 (negb (ei_has_tx i) || negb (ei_has_prevout i)) in
  match ei_unlock i, ei_lock i with
  | [], [] => (VErr, [])
  | _, _ =>
      if has_flag c F_CLEANSTACK && negb (has_flag c F_BIP16) then (VErr, [])
      else if (max_script_size c <? lenZ (ei_unlock i)) || (max_script_size c <? lenZ (ei_lock i)) then (VErr, [])
      else
        match parse_script (c_err_on_checksig c) (ei_unlock i) with
        | None => (VErr, [])
        | Some u =>
            match parse_script (c_err_on_checksig c) (ei_lock i) with
            | None => (VErr, [])
            | Some l =>
                if has_flag c F_SIGPUSHONLY && negb (is_push_only u) then (VErr, [])
                else
                  let p2sh := has_flag c F_BIP16 && negb (after_genesis c) && is_p2sh (ei_lock i) in
                  if p2sh && negb (is_push_only u) then (VErr, [])
                  else execute so c p2sh u l
            end
        end
  end.

(** signature opcodes unavailable (no transaction context): the parser rejects them beforehand *)
Definition no_sigops : sigops := mkSigops (fun _ _ _ _ => OErr) (fun _ _ _ _ => OErr).
