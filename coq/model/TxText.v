(** Text entry points of the transaction codec (tx.go, txjson.go, txjson_node.go):
    - [bt.NewTxFromString]: hex.DecodeString of the whole text, then NewTxFromBytes (one transaction, nothing after it);
    - [Tx.String]: hex of the standard serialisation;
    - the [hex] member of both JSON dialects: a non-empty value is handed to NewTxFromString.
    Every way of handing text to the parser goes through [tx_from_string]; its acceptance rule is the one of
    [tx_from_bytes] on the decoded bytes and nothing else. *)
From Coq Require Import List NArith String.
From Coq Require Import Strings.Byte.
From GoBT Require Import lib.Bytes lib.Hex lib.Parse model.Tx.
Import ListNotations.
Local Open Scope N_scope.

(** bt.NewTxFromString *)
Definition tx_from_string (s : string) : result parsed :=
  match hexdecode s with
  | None => RErr
  | Some b => tx_from_bytes b
  end.

(** Tx.String *)
Definition tx_string (t : tx) : string := hex_of (tx_bytes false t).

(** Tx.UnmarshalJSON / nodeTxWrapper.UnmarshalJSON restricted to a document whose [hex] member is the non-empty text
    [s] ("quick convert"): the other members are not looked at *)
Definition tx_from_json_hex (s : string) : result parsed := tx_from_string s.
