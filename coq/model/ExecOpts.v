(** Engine.Execute's arguments as the caller hands them over (bscript/interpreter/options.go, execOpts in
    thread.go): nil-able scripts, a nil-able transaction with its inputs, a nil-able previous output whose
    locking script is itself nil-able, and a Go [int] input index of any value.  [validate] and the script
    selection at the head of thread.apply are written in the shape of the Go code; every slice index and
    pointer dereference the Go code performs is explicit here and yields [IPanic] when Go would panic.

    An element of tx.Inputs may be nil ([None]): validate rejects the call when the requested one is.
    Not represented: WithState, the debugger (debugging is C19). *)
From Coq Require Import List NArith ZArith Bool.
From Coq Require Import Strings.Byte.
From GoBT Require Import lib.Bytes model.ScriptNum model.Interp.
Import ListNotations.
Local Open Scope Z_scope.

Record o_input := mkOIn { oi_unlock : option bytes; oi_seq : Z }.
Record o_tx := mkOTx { ot_ins : list (option o_input); ot_lock : Z; ot_version : Z }.   (* None: a nil *Input *)

Record exec_opts := mkOpts {
  eo_lock : option bytes;            (* WithScripts: lockingScript *)
  eo_unlock : option bytes;          (* WithScripts: unlockingScript *)
  eo_prev : option (option bytes);   (* WithTx: previousTxOut, and its LockingScript *)
  eo_tx : option o_tx;               (* WithTx: tx *)
  eo_idx : Z;                        (* WithTx: inputIdx (Go int) *)
  eo_flags : N
}.

(** a Go slice index / pointer dereference *)
Inductive ires (A : Type) := IOk (a : A) | IPanic.
Arguments IOk {A} a. Arguments IPanic {A}.

Definition index {A} (l : list A) (i : Z) : ires A :=
  if (i <? 0) || (Z.of_nat (length l) <=? i) then IPanic
  else match nth_error l (Z.to_nat i) with Some a => IOk a | None => IPanic end.

Definition is_some {A} (o : option A) : bool := match o with Some _ => true | None => false end.

Inductive vres := VRok | VRerr | VRpanic.

(** dereferencing a possibly nil *Input *)
Definition deref {A} (x : ires (option A)) : ires A :=
  match x with IOk (Some a) => IOk a | _ => IPanic end.

(** execOpts.validate (thread.go), in source order *)
Definition validate (o : exec_opts) : vres :=
  if (eo_idx o <? 0) ||
     match eo_tx o with Some t => eo_idx o >? Z.of_nat (length (ot_ins t)) - 1 | None => false end
  then VRerr
  else
  (* o.tx != nil && o.tx.Inputs[o.inputIdx] == nil: the requested input must be there *)
  match (match eo_tx o with
         | None => IOk false
         | Some t => match index (ot_ins t) (eo_idx o) with IOk None => IOk true | IOk (Some _) => IOk false | IPanic => IPanic end
         end) with
  | IPanic => VRpanic
  | IOk true => VRerr
  | IOk false =>
    let output_has_lock := match eo_prev o with Some (Some _) => true | _ => false end in
    (* txHasUnlockingScript := tx != nil && Inputs != nil && len(Inputs) > 0 && Inputs[idx] != nil
                               && Inputs[idx].UnlockingScript != nil  (short-circuit, left to right) *)
    let tx_has_unlock :=
      match eo_tx o with
      | None => IOk false
      | Some t =>
          match ot_ins t with
          | [] => IOk false
          | _ => match index (ot_ins t) (eo_idx o) with
                 | IPanic => IPanic
                 | IOk None => IOk false                       (* Inputs[idx] != nil is tested first *)
                 | IOk (Some i) => IOk (is_some (oi_unlock i))
                 end
          end
      end in
    match tx_has_unlock with
    | IPanic => VRpanic
    | IOk tx_has =>
        if negb (is_some (eo_lock o)) && negb output_has_lock then VRerr
        else if negb (is_some (eo_unlock o)) && negb tx_has then VRerr
        else
          match eo_lock o, eo_prev o with
          | Some l, Some (Some pl) => if bytes_eqb l pl then VRok else VRerr
          | _, _ => VRok
          end
    end
  end.

(** the second comparison of validate: unlocking script against the input's; separated because it indexes again *)
Definition validate_unlock (o : exec_opts) : vres :=
  match eo_unlock o, eo_tx o with
  | Some u, Some t =>
      match ot_ins t with
      | [] => VRok
      | _ =>
          match index (ot_ins t) (eo_idx o) with
          | IPanic => VRpanic
          | IOk None => VRok
          | IOk (Some i) => match oi_unlock i with
                            | Some iu => if bytes_eqb u iu then VRok else VRerr
                            | None => VRok
                            end
          end
      end
  | _, _ => VRok
  end.

Inductive ares := ARrun (i : exec_input) | ARerr | ARpanic.

(** thread.apply up to the point [engine_execute] takes over: validation, then the scripts default to the
    input's / the previous output's, then the transaction fields the locktime opcodes read *)
Definition apply_opts (o : exec_opts) : ares :=
  match validate o with
  | VRerr => ARerr | VRpanic => ARpanic
  | VRok =>
  match validate_unlock o with
  | VRerr => ARerr | VRpanic => ARpanic
  | VRok =>
      (* opts.unlockingScript == nil  =>  opts.tx.Inputs[opts.inputIdx].UnlockingScript *)
      let unlock : ires (option bytes) :=
        match eo_unlock o with
        | Some u => IOk (Some u)
        | None => match eo_tx o with
                  | None => IPanic
                  | Some t => match deref (index (ot_ins t) (eo_idx o)) with IOk i => IOk (oi_unlock i) | IPanic => IPanic end
                  end
        end in
      (* opts.lockingScript == nil  =>  opts.previousTxOut.LockingScript *)
      let lock : ires (option bytes) :=
        match eo_lock o with
        | Some l => IOk (Some l)
        | None => match eo_prev o with None => IPanic | Some pl => IOk pl end
        end in
      match unlock, lock with
      | IPanic, _ | _, IPanic => ARpanic
      | IOk u, IOk l =>
          (* the input the locktime opcodes and the previous-output bookkeeping dereference:
             t.tx.InputIdx(t.inputIdx) / t.tx.Inputs[t.inputIdx] *)
          let fields : ires (Z * Z * Z) :=
            match eo_tx o with
            | None => IOk (0, 0, 0)
            | Some t => match deref (index (ot_ins t) (eo_idx o)) with
                        | IOk i => IOk (ot_lock t, ot_version t, oi_seq i)
                        | IPanic => IPanic
                        end
            end in
          match fields with
          | IPanic => ARpanic
          | IOk (lk, ver, sq) =>
              let empty (s : option bytes) := match s with None | Some [] => true | _ => false end in
              if empty u && empty l then ARerr     (* both scripts empty: EvalFalse, before any dereference *)
              else match u, l with
                   | Some ub, Some lb =>
                       ARrun (mkExecInput ub lb (eo_flags o) (is_some (eo_tx o)) (is_some (eo_prev o)) lk ver sq)
                   | _, _ => ARpanic                (* len( *uscript ) / len( *lscript ) on a nil script *)
                   end
          end
      end
  end end.

Definition engine_execute_opts (so : sigops) (o : exec_opts) : verdict * list snapshot :=
  match apply_opts o with
  | ARerr => (VErr, [])
  | ARpanic => (VPanic, [])
  | ARrun i => engine_execute so i
  end.
