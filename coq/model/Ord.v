(** Model of the ordinals sale / bid flows, in the shape of the code as it is now in /repo (after
    `fix: accepting an ordinal sale listing fails when the buyer's UTXOs do not cover the fee`):
    ord/list.go (ListOrdinalForSale, ValidateListingArgs.Validate, AcceptOrdinalSaleListing),
    ord/bid.go (MakeBidToBuy1SatOrdinal, ValidateBidArgs.Validate, AcceptBidToBuy1SatOrdinal),
    ord/2dummies.go (the three two-dummy variants), txinput.go (FromUTXOs, FillInput,
    InsertInputUnlockingScript), txoutput.go (AddOutput), tx.go (NewTx).

    The flows are transaction ASSEMBLY: which inputs and outputs in which order, with which amounts,
    and which checks decide between a transaction and an error.  Change / EstimateIsFeePaidEnough /
    IsFeePaidEnough / Clone are the models of C10 / C11 / C01 (model/Change.v, model/Fees.v,
    model/Tx.v).  Signing is abstract: [signer t j flags] is what the bt.Unlocker handed to FillInput
    returns for input [j] of the transaction as it stands ([None] = it returned an error); every
    theorem quantifies over all signers, the correspondence check instantiates it with the unlocking
    scripts the real unlocker.Simple produced.  uint64 arithmetic wraps explicitly.
    The two scripts MakeBid invents (the previous script it puts on the ordinal input so that fees can
    be estimated, and the P2PKH script of the payment output) are parameters. *)
From Coq Require Import List NArith ZArith Lia Bool.
From Coq Require Import Strings.Byte.
From GoBT Require Import lib.Bytes lib.VarInt model.Tx gen.Consts spec.FeeSpec model.Fees model.Change.
Import ListNotations.
Local Open Scope N_scope.
Local Open Scope bool_scope.

(** bt.UTXO (TxID, Vout, LockingScript, Satoshis); the Unlocker is the [signer] *)
Record utxo := mkUtxo { u_txid : bytes; u_vout : N; u_script : bytes; u_sats : N }.

Inductive flow_err :=
| EInvalidOffer           (* ErrInvalidSellOffer: Validate said no *)
| EInsufficientUTXOs | EEmptyScripts | EInsufficientUTXOValue
| EAddInput               (* FromUTXOs / PreviousTxIDAdd: not a 32-byte txid *)
| EChange                 (* Change returned an error *)
| EFeeCheck               (* (Estimate)IsFeePaidEnough returned an error *)
| EInsufficientFees
| EUTXOInputMismatch
| ESign                   (* the unlocker returned an error *)
| ENotP2PKH               (* two-dummy bid acceptance pays the seller to P2PKH only *)
| EDecode.                (* NewTxFromBytes of the partially signed transaction failed *)

(** ok / error / run-time panic or log.Fatal *)
Inductive flow (A : Type) := Done (a : A) | Fail (e : flow_err) | Crash.
Arguments Done {A}. Arguments Fail {A}. Arguments Crash {A}.
Definition fbind {A B} (x : flow A) (f : A -> flow B) : flow B :=
  match x with Done a => f a | Fail e => Fail e | Crash => Crash end.
Notation "'flet' x ':=' e 'in' k" := (fbind e (fun x => k)) (at level 200, x pattern, k at level 200).

Definition sub64 (a b : N) : N := (a + two64 - b) mod two64.

(** ** tx.go / txinput.go / txoutput.go *)
Definition new_tx : tx := mkTx 1 [] [] 0.

Definition add_input (t : tx) (i : input) : tx :=
  mkTx (tx_version t) (tx_ins t ++ [i]) (tx_outs t) (tx_lock t).

(** the input FromUTXOs builds: no unlocking script, final sequence number *)
Definition input_of (u : utxo) : input :=
  mkInput (u_txid u) (u_vout u) [] default_sequence_number (u_sats u) (Some (u_script u)).

(** Tx.FromUTXOs(us...): ErrInvalidTxID on the first UTXO whose txid is not 32 bytes *)
Fixpoint from_utxos (t : tx) (us : list utxo) : flow tx :=
  match us with
  | [] => Done t
  | u :: r => if Nat.eqb (length (u_txid u)) 32 then from_utxos (add_input t (input_of u)) r
              else Fail EAddInput
  end.

Fixpoint set_unlock_at (ins : list input) (j : nat) (u : bytes) : list input :=
  match ins, j with
  | [], _ => []
  | i :: r, O => with_unlock i u :: r
  | i :: r, S k => i :: set_unlock_at r k u
  end.

Section Flows.
(** the bt.Unlocker(s): transaction as it stands, input index, sighash flags *)
Variable signer : tx -> N -> N -> option bytes.

(** Tx.FillInput(unlocker, {InputIdx: j, SigHashFlags: flags}); flags 0 means ALL|FORKID;
    InsertInputUnlockingScript indexes tx.Inputs[j] *)
Definition fill_input (t : tx) (j : N) (flags : N) : flow tx :=
  let flags := if flags =? 0 then 65 else flags in
  match signer t j flags with
  | None => Fail ESign
  | Some u =>
      if j <? N.of_nat (length (tx_ins t))
      then Done (set_ins t (set_unlock_at (tx_ins t) (N.to_nat j) u))
      else Crash
  end.

(** the signing loop shared by the flows:
    [for i, u := range UTXOs { j := i; if i >= skip { j++ }; check txid; FillInput(j, flags) }] *)
Fixpoint sign_loop (t : tx) (us : list utxo) (i skip flags : N) : flow tx :=
  match us with
  | [] => Done t
  | u :: r =>
      let j := if skip <=? i then i + 1 else i in
      match nth_error (tx_ins t) (N.to_nat j) with
      | None => Crash                                            (* tx.Inputs[j] *)
      | Some inp =>
          if negb (bytes_eqb (u_txid u) (in_txid inp)) then Fail EUTXOInputMismatch
          else flet t' := fill_input t j flags in sign_loop t' r (i + 1) skip flags
      end
  end.

(** ** ListOrdinalForSale *)
Definition list_ordinal (ord_utxo : utxo) (seller_out : output) : flow tx :=
  flet t := from_utxos new_tx [ord_utxo] in
  let t := add_output t seller_out in
  fill_input t 0 195.                      (* sighash.SingleForkID | sighash.AnyOneCanPay *)

(** ValidateListingArgs.Validate ([listed = None]: nil ListedOrdinalUTXO) *)
Definition validate_listing (listed : option utxo) (pstx : tx) : bool :=
  match tx_ins pstx, tx_outs pstx, listed with
  | [i], [_], Some l => bytes_eqb (in_txid i) (u_txid l) && (in_vout i =? u_vout l)
  | _, _, _ => false
  end.

(** "check at least 1 utxo is larger than ...; move it to the beginning" *)
Fixpoint move_first_above (p : N) (before us : list utxo) : option (list utxo) :=
  match us with
  | [] => None
  | u :: r => if p <? u_sats u then Some (u :: before ++ r) else move_first_above p (before ++ [u]) r
  end.

(** what follows tx.Change in the two listing-acceptance flows *)
Definition change_then_check (t : tx) (q : quote) (change_script : bytes) : flow tx :=
  match change_new t q change_script with
  | (FOk _, t') =>
      match estimate_is_fee_paid_enough t' q with
      | FOk true => Done t'
      | FOk false => Fail EInsufficientFees
      | FErr _ => Fail EFeeCheck
      | FFatal | FPanic => Crash
      end
  | (FErr _, _) => Fail EChange
  | (FFatal, _) | (FPanic, _) => Crash
  end.

(** the assembled, unsigned transaction of AcceptOrdinalSaleListing, before Change:
    inputs [funding 0, seller's, funding 1..], outputs [dummy, seller's, buyer's 1 sat] *)
Definition accept_listing_assemble (seller_in : input) (seller_out : output) (us : list utxo)
    (buyer dummy : bytes) : flow tx :=
  match us with
  | [] => Crash                                                 (* asoa.UTXOs[0] *)
  | u0 :: rest =>
      flet t := from_utxos new_tx [u0] in
      let t := add_input t seller_in in
      flet t := from_utxos t rest in
      let t := add_output t (mkOutput (sub64 (u_sats u0) (out_sats seller_out)) dummy) in
      let t := add_output t seller_out in
      Done (add_output t (mkOutput 1 buyer))
  end.

(** AcceptOrdinalSaleListing *)
Definition accept_listing (listed : option utxo) (pstx : tx) (us : list utxo)
    (buyer dummy change_script : bytes) (q : quote) : flow tx :=
  if negb (validate_listing listed pstx) then Fail EInvalidOffer else
  match tx_ins pstx, tx_outs pstx with
  | seller_in :: _, seller_out :: _ =>
      if (length us <? 2)%nat then Fail EInsufficientUTXOs else
      match move_first_above (out_sats seller_out) [] us with
      | None => Fail EInsufficientUTXOValue
      | Some us' =>
          flet t := accept_listing_assemble seller_in seller_out us' buyer dummy in
          flet t := change_then_check t q change_script in
          sign_loop t us' 0 1 0
      end
  | _, _ => Crash                                               (* PSTx.Inputs[0] / Outputs[0] *)
  end.

(** AcceptOrdinalSaleListing2Dummies: inputs [dummy 0, dummy 1, seller's, payment..],
    outputs [dummies passed through, buyer's 1 sat, seller's] *)
Definition accept_listing_2d_assemble (seller_in : input) (seller_out : output) (us : list utxo)
    (buyer dummy : bytes) : flow tx :=
  match us with
  | u0 :: u1 :: rest =>
      flet t := from_utxos new_tx [u0; u1] in
      let t := add_input t seller_in in
      flet t := from_utxos t rest in
      let t := add_output t (mkOutput (add64 (u_sats u0) (u_sats u1)) dummy) in
      let t := add_output t (mkOutput 1 buyer) in
      Done (add_output t seller_out)
  | _ => Crash
  end.

Definition accept_listing_2d (listed : option utxo) (pstx : tx) (us : list utxo)
    (buyer dummy change_script : bytes) (q : quote) : flow tx :=
  if negb (validate_listing listed pstx) then Fail EInvalidOffer else
  match tx_ins pstx, tx_outs pstx with
  | seller_in :: _, seller_out :: _ =>
      if (length us <? 3)%nat then Fail EInsufficientUTXOs else
      flet t := accept_listing_2d_assemble seller_in seller_out us buyer dummy in
      flet t := change_then_check t q change_script in
      sign_loop t us 0 2 0
  | _, _ => Crash
  end.

(** ** MakeBidToBuy1SatOrdinal: the ordinal input is a placeholder (zero sequence number, zero value,
    [dummy_prev] as previous script), the payment output carries [dummy_pay] until the seller accepts *)
Definition placeholder_input (ord_txid : bytes) (ord_vout : N) (dummy_prev : bytes) : input :=
  mkInput ord_txid ord_vout [] 0 0 (Some dummy_prev).

Definition make_bid (bid : N) (ord_txid : bytes) (ord_vout : N) (us : list utxo)
    (buyer dummy change_script : bytes) (q : quote) (dummy_prev dummy_pay : bytes) : flow tx :=
  if (length us <? 2)%nat then Fail EInsufficientUTXOs else
  match move_first_above bid [] us with
  | None => Fail EInsufficientUTXOValue
  | Some [] => Crash
  | Some ((u0 :: rest) as us') =>
      flet t := from_utxos new_tx [u0] in
      if negb (Nat.eqb (length ord_txid) 32) then Fail EAddInput else
      let t := add_input t (placeholder_input ord_txid ord_vout dummy_prev) in
      flet t := from_utxos t rest in
      let t := add_output t (mkOutput (sub64 (u_sats u0) bid) dummy) in
      let t := add_output t (mkOutput bid dummy_pay) in
      let t := add_output t (mkOutput 1 buyer) in
      match change_new t q change_script with
      | (FOk _, t') => sign_loop t' us' 0 1 67                  (* sighash.SingleForkID *)
      | (FErr _, _) => Fail EChange
      | (FFatal, _) | (FPanic, _) => Crash
      end
  end.

Fixpoint set_out_at (outs : list output) (k : nat) (f : output -> output) : list output :=
  match outs, k with
  | [], _ => []
  | o :: r, O => f o :: r
  | o :: r, S k' => o :: set_out_at r k' f
  end.
Fixpoint set_in_at (ins : list input) (k : nat) (f : input -> input) : list input :=
  match ins, k with
  | [], _ => []
  | i :: r, O => f i :: r
  | i :: r, S k' => i :: set_in_at r k' f
  end.
Definition set_outs (t : tx) (outs : list output) : tx := mkTx (tx_version t) (tx_ins t) outs (tx_lock t).

(** ValidateBidArgs.Validate: the verdict, and the caller's transaction afterwards (it overwrites
    Outputs[1].Satoshis) *)
Definition validate_bid (ord_utxo : utxo) (bid : N) (expected : quote) (pstx : tx) : bool * tx :=
  if (length (tx_ins pstx) <? 3)%nat then (false, pstx) else
  if (length (tx_outs pstx) <? 3)%nat then (false, pstx) else
  match nth_error (tx_ins pstx) 1 with
  | None => (false, pstx)
  | Some oi =>
      if negb (bytes_eqb (in_txid oi) (u_txid ord_utxo)) then (false, pstx) else
      if negb (in_vout oi =? u_vout ord_utxo) then (false, pstx) else
      let p' := set_outs pstx (set_out_at (tx_outs pstx) 1 (fun o => mkOutput bid (out_script o))) in
      match is_fee_paid_enough p' expected with
      | FOk true => (true, p')
      | _ => (false, p')
      end
  end.

Definition with_prev (i : input) (s : bytes) (v : N) : input :=
  mkInput (in_txid i) (in_vout i) (in_unlock i) (in_seq i) v (Some s).

(** [enough, err := tx.EstimateIsFeePaidEnough(fq); if err != nil {return err}; if !enough {return ErrInsufficientFees}] *)
Definition estimate_check (t : tx) (q : quote) : flow tx :=
  match estimate_is_fee_paid_enough t q with
  | FOk true => Done t
  | FOk false => Fail EInsufficientFees
  | FErr _ => Fail EFeeCheck
  | FFatal | FPanic => Crash
  end.

(** AcceptBidToBuy1SatOrdinal (after `fix: accepting a bid to buy an ordinal fails when the bid does not
    cover the fee of the signed transaction`) *)
Definition accept_bid (ord_utxo : utxo) (bid : N) (expected : quote) (pstx : tx) (seller_script : bytes)
    : flow tx :=
  let '(ok, p') := validate_bid ord_utxo bid expected pstx in
  if negb ok then Fail EInvalidOffer else
  match clone p' with
  | ROk t =>
      let t := set_outs t (set_out_at (tx_outs t) 1 (fun o => mkOutput (out_sats o) seller_script)) in
      match is_fee_paid_enough t expected with
      | FOk true =>
          let t := set_ins t (set_in_at (tx_ins t) 1 (fun i => with_prev i (u_script ord_utxo) (u_sats ord_utxo))) in
          (* the checks above saw the ordinal input without its unlocking script *)
          flet t := estimate_check t expected in
          fill_input t 1 0
      | _ => Fail EInsufficientFees
      end
  | _ => Crash                                                  (* log.Fatal in Clone *)
  end.

(** ** the two-dummy bid *)
Definition make_bid_2d (bid : N) (ord_txid : bytes) (ord_vout : N) (us : list utxo)
    (buyer dummy change_script : bytes) (q : quote) (dummy_prev dummy_pay : bytes) : flow tx :=
  if (length us <? 3)%nat then Fail EInsufficientUTXOs else
  match us with
  | u0 :: u1 :: rest =>
      flet t := from_utxos new_tx [u0; u1] in
      if negb (Nat.eqb (length ord_txid) 32) then Fail EAddInput else
      let t := add_input t (placeholder_input ord_txid ord_vout dummy_prev) in
      flet t := from_utxos t rest in
      let t := add_output t (mkOutput (add64 (u_sats u0) (u_sats u1)) dummy) in
      let t := add_output t (mkOutput 1 buyer) in
      let t := add_output t (mkOutput bid dummy_pay) in
      match change_new t q change_script with
      | (FOk _, t') => sign_loop t' us 0 2 67
      | (FErr _, _) => Fail EChange
      | (FFatal, _) | (FPanic, _) => Crash
      end
  | _ => Crash
  end.

(** the loop of ValidateBid2DArgs.Validate over PreviousUTXOs and the inputs *)
Fixpoint prevs_match (prevs : list utxo) (ins : list input) : bool :=
  match prevs, ins with
  | [], _ => true
  | p :: pr, i :: ir => bytes_eqb (in_txid i) (u_txid p) && (in_vout i =? u_vout p) && prevs_match pr ir
  | _ :: _, [] => false
  end.

Definition validate_bid_2d (prevs : list utxo) (bid : N) (expected : quote) (pstx : tx) : bool * tx :=
  if (length (tx_ins pstx) <? 4)%nat then (false, pstx) else
  if (length (tx_outs pstx) <? 4)%nat then (false, pstx) else
  if negb (Nat.eqb (length prevs) (length (tx_ins pstx))) then (false, pstx) else
  if negb (prevs_match prevs (tx_ins pstx)) then (false, pstx) else
  match prevs, tx_outs pstx with
  | p0 :: p1 :: _, o0 :: _ =>
      if negb (add64 (u_sats p0) (u_sats p1) =? out_sats o0) then (false, pstx) else
      let p' := set_outs pstx (set_out_at (tx_outs pstx) 2 (fun o => mkOutput bid (out_script o))) in
      match is_fee_paid_enough p' expected with
      | FOk true => (true, p')
      | _ => (false, p')
      end
  | _, _ => (false, pstx)
  end.

(** [for i, in := range PSTx.Inputs { if i != skip { tx.Inputs[i].PreviousTxScript = in.PreviousTxScript; ...Satoshis } }] *)
Fixpoint restore_prevs (ins from : list input) (i skip : nat) : option (list input) :=
  match from, ins with
  | [], _ => Some ins
  | f :: fr, x :: xr =>
      match restore_prevs xr fr (S i) skip with
      | Some r => Some ((if Nat.eqb i skip then x
                         else mkInput (in_txid x) (in_vout x) (in_unlock x) (in_seq x) (in_sats f) (in_script f)) :: r)
      | None => None
      end
  | _ :: _, [] => None
  end.

(** AcceptBidToBuy1SatOrdinal2Dummies: the transaction is re-read from the standard serialisation
    (previous scripts and values of the bidder's inputs are gone) *)
Definition accept_bid_2d (prevs : list utxo) (bid : N) (expected : quote) (pstx : tx) (seller_script : bytes)
    : flow tx :=
  let '(ok, p') := validate_bid_2d prevs bid expected pstx in
  if negb ok then Fail EInvalidOffer else
  if negb (is_p2pkh seller_script) then Fail ENotP2PKH else
  match tx_from_bytes (tx_bytes false p'), nth_error prevs 2 with
  | ROk pr, Some ou =>
      let t := p_tx pr in
      let t := set_outs t (set_out_at (tx_outs t) 2 (fun o => mkOutput (out_sats o) seller_script)) in
      let t := set_ins t (set_in_at (tx_ins t) 2 (fun i => with_prev i (u_script ou) (u_sats ou))) in
      (* the other inputs get their previous outputs back from the partially signed transaction *)
      match restore_prevs (tx_ins t) (tx_ins p') 0 2 with
      | None => Crash                                           (* tx.Inputs[i] *)
      | Some ins =>
          flet t := estimate_check (set_ins t ins) expected in
          fill_input t 2 0
      end
  | ROk _, None => Crash
  | _, _ => Fail EDecode
  end.

End Flows.
