(** Model of the debugger hooks of go-bt's script interpreter (C19):
    bscript/interpreter/thread.go (execute, Step, shiftScript and the before*/after* hooks),
    engine.go (Execute calls afterError when execute fails), debug.go (the Debugger interface).

    An instrumented twin of [Interp.execute]/[Interp.engine_execute]: the SAME [execute_opcode], the SAME
    control structure as [run_ops]/[run_lock]/[run_redeem]/[execute] (clause by clause), which in addition
    returns the list of lifecycle callbacks in the order the Go code fires them.  In the model a debugger only
    ever RECEIVES values (events and snapshots): there is no way for it to reach the machine state, which
    is what [proofs/DebugProofs.debugger_irrelevant] makes precise.  (In Go the values handed out are deep
    copies made by thread.State(); that they really are copies is a run-time fact decided by the harness's
    scribbling debugger, not by this model.)

    Stack push/pop callbacks (BeforeStackPush, ...) are not lifecycle events: they are nested inside the
    opcode / end-of-script phases and are checked on the Go side only. *)
From Coq Require Import List NArith ZArith Bool.
From Coq Require Import Strings.Byte.
From GoBT Require Import lib.Bytes model.ScriptNum model.Interp.
Import ListNotations.
Local Open Scope Z_scope.

(** the lifecycle callbacks of interpreter.Debugger *)
Inductive ev :=
| BE    (* BeforeExecute *)        | AE   (* AfterExecute *)
| BS    (* BeforeStep *)           | AS   (* AfterStep *)
| BO    (* BeforeExecuteOpcode *)  | AO   (* AfterExecuteOpcode *)
| BC    (* BeforeScriptChange *)   | AC   (* AfterScriptChange *)
| EOK   (* AfterSuccess *)         | EER. (* AfterError *)

Definition dres : Type := verdict * list snapshot * list ev.

(** prefix the events of a continuation *)
Definition pre (evs : list ev) (r : dres) : dres := let '(v, sn, e) := r in (v, sn, evs ++ e).

(** [run_ops] with events.  The events returned are those of THIS call, in order.  The last step is left
    open exactly where Step leaves the per-instruction part:
    - [SEnd]    : ... BS BO AO          (the caller continues with Step's end-of-script part)
    - [SReturn] : ... BS BO             (executeOpcode returned ErrOK: the caller does shiftScript)
    - [SErr]/[SPanic] : ... BS BO  or  ... BS BO AO (stack overflow is detected after afterExecuteOpcode) *)
Fixpoint run_ops_dbg (so : sigops) (c : ctx) (ops : list pop) (idx : nat) (s : st) (acc : list snapshot)
  : script_end * list snapshot * list ev :=
  match ops with
  | [] => (SEnd s, acc, [])
  | p :: rest =>
      (* execute: beforeStep; Step: beforeExecuteOpcode; executeOpcode *)
      match execute_opcode so c p idx s with
      | OErr => (SErr, acc, [BS; BO])
      | OPanic => (SPanic, acc, [BS; BO])
      | OReturn s' => (SReturn s', acc, [BS; BO])
      | OOk s' =>
          (* afterExecuteOpcode; then the combined stack size check *)
          if max_stack c <? lenZ (ds s') + lenZ (als s') then (SErr, acc, [BS; BO; AO])
          else match rest with
               | [] => (SEnd s', acc, [BS; BO; AO])
               | _ =>
                   (* Step returns (false, nil); execute: afterStep; next iteration *)
                   let '(e, acc', evs) := run_ops_dbg so c rest (S idx) s' (snap s' :: acc) in
                   (e, acc', BS :: BO :: AO :: AS :: evs)
               end
      end
  end.

(** the loop is left (done = true): deferred afterExecute, then CheckErrorCondition(true), which calls
    afterSuccess itself; any error is reported by Engine.Execute through afterError *)
Definition finish_dbg (c : ctx) (d : list bytes) (acc : list snapshot) : dres :=
  if check_error_condition c true d then (VOk, rev acc, [AE; EOK]) else (VErr, rev acc, [AE; EER]).

(** an error return from Step / a panic inside Step: the deferred afterExecute runs in both cases;
    afterError only when execute returns (a panic unwinds through Engine.Execute) *)
Definition err_dbg (acc : list snapshot) (evs : list ev) : dres := (VErr, rev acc, evs ++ [AE; EER]).
Definition panic_dbg (acc : list snapshot) (evs : list ev) : dres := (VPanic, rev acc, evs ++ [AE]).

(** [run_redeem]: entered inside Step's end-of-script part of the locking script, after shiftScript
    (BC AC already fired, the step is still open) *)
Definition run_redeem_dbg (so : sigops) (c : ctx) (saved : list bytes) (s : st) (acc : list snapshot) : dres :=
  if negb (check_error_condition c false (ds s)) then err_dbg acc []
  else match saved with
       | [] => panic_dbg acc []
       | script :: below =>
           match parse_script (c_err_on_checksig c) script with
           | None => err_dbg acc []
           | Some ops =>
               let s' := set_ds (shift_script s ops) below in
               match ops with
               | [] => pre [AS] (finish_dbg c below (snap s' :: acc))
               | _ =>
                   match run_ops_dbg so c ops 0 s' (snap s' :: acc) with
                   | (SErr, acc', evs) => err_dbg acc' (AS :: evs)
                   | (SPanic, acc', evs) => panic_dbg acc' (AS :: evs)
                   | (SReturn s2, acc', evs) =>
                       pre (AS :: evs ++ [BC; AC; AS]) (finish_dbg c (ds s2) (snap (shift_script (set_als s2 []) []) :: acc'))
                   | (SEnd s2, acc', evs) =>
                       match end_script s2 with
                       | None => err_dbg acc' (AS :: evs)
                       | Some s3 =>
                           pre (AS :: evs ++ [BC; AC; AS]) (finish_dbg c (ds s3) (snap (shift_script s3 []) :: acc'))
                       end
                   end
               end
           end
       end.

(** [run_lock]: entered at a step boundary (BeforeExecute or an AfterStep was the last event) *)
Definition run_lock_dbg (so : sigops) (c : ctx) (bip16 : bool) (saved : list bytes) (lock : list pop)
    (s : st) (acc : list snapshot) : dres :=
  match run_ops_dbg so c lock 0 s acc with
  | (SErr, acc', evs) => err_dbg acc' evs
  | (SPanic, acc', evs) => panic_dbg acc' evs
  | (SReturn s2, acc', evs) =>
      pre (evs ++ [BC; AC; AS]) (finish_dbg c (ds s2) (snap (shift_script (set_als s2 []) []) :: acc'))
  | (SEnd s2, acc', evs) =>
      match end_script s2 with
      | None => err_dbg acc' evs
      | Some s3 =>
          if bip16 && negb (after_genesis c) then pre (evs ++ [BC; AC]) (run_redeem_dbg so c saved s3 acc')
          else pre (evs ++ [BC; AC; AS]) (finish_dbg c (ds s3) (snap (shift_script s3 []) :: acc'))
      end
  end.

(** [execute]: thread.execute + the afterError of Engine.Execute *)
Definition execute_dbg (so : sigops) (c : ctx) (bip16 : bool) (unlock lock : list pop) : dres :=
  match unlock with
  | [] =>
      match lock with
      | [] => (VErr, [], [])                               (* rejected by apply: no thread, no callbacks *)
      | _ => pre [BE] (run_lock_dbg so c bip16 [] lock (init_st lock) [])
      end
  | _ =>
      match run_ops_dbg so c unlock 0 (init_st unlock) [] with
      | (SErr, acc, evs) => err_dbg acc (BE :: evs)
      | (SPanic, acc, evs) => panic_dbg acc (BE :: evs)
      | (SReturn s1, acc, evs) =>
          let s2 := shift_script (set_als s1 []) lock in
          match lock with
          | [] => pre (BE :: evs ++ [BC; AC; AS]) (finish_dbg c (ds s2) (snap s2 :: acc))   (* zero-length script skipped *)
          | _ => pre (BE :: evs ++ [BC; AC; AS]) (run_lock_dbg so c bip16 [] lock s2 (snap s2 :: acc))
          end
      | (SEnd s1, acc, evs) =>
          match end_script s1 with
          | None => err_dbg acc (BE :: evs)
          | Some s2 =>
              let s3 := shift_script s2 lock in
              let saved := ds s3 in
              match lock with
              | [] => pre (BE :: evs ++ [BC; AC; AS]) (finish_dbg c (ds s3) (snap s3 :: acc))
              | _ => pre (BE :: evs ++ [BC; AC; AS]) (run_lock_dbg so c bip16 saved lock s3 (snap s3 :: acc))
              end
          end
      end
  end.

Definition rejected : dres := (VErr, [], []).

(** [engine_execute] with events: createThread/apply failing means no debugger callback at all *)
Definition engine_execute_dbg (so : sigops) (i : exec_input) : dres :=
  let flags := normalise_flags (ei_flags i) in
  let c := mkCtx flags (ei_has_tx i) (ei_tx_lock i) (ei_tx_version i) (ei_in_seq i)
                 (negb (ei_has_tx i) || negb (ei_has_prevout i)) in
  match ei_unlock i, ei_lock i with
  | [], [] => rejected
  | _, _ =>
      if has_flag c F_CLEANSTACK && negb (has_flag c F_BIP16) then rejected
      else if (max_script_size c <? lenZ (ei_unlock i)) || (max_script_size c <? lenZ (ei_lock i)) then rejected
      else
        match parse_script (c_err_on_checksig c) (ei_unlock i) with
        | None => rejected
        | Some u =>
            match parse_script (c_err_on_checksig c) (ei_lock i) with
            | None => rejected
            | Some l =>
                if has_flag c F_SIGPUSHONLY && negb (is_push_only u) then rejected
                else
                  let p2sh := has_flag c F_BIP16 && negb (after_genesis c) && is_p2sh (ei_lock i) in
                  if p2sh && negb (is_push_only u) then rejected
                  else execute_dbg so c p2sh u l
            end
        end
  end.

Definition verdict_of (r : dres) : verdict := fst (fst r).
Definition snapshots_of (r : dres) : list snapshot := snd (fst r).
Definition events_of (r : dres) : list ev := snd r.

(** ** The documented lifecycle order as an automaton.

      BE (BS BO [AO [BC AC]] AS | BS BO BC AC AS)*  (BS [BO [AO [BC AC]]])?  AE (EOK | EER)

    with the side conditions: at least one BeforeStep; after an interrupted step (the optional group: invalid
    program counter, opcode error, stack overflow / unbalanced conditional, P2SH error after the script
    change) only AfterError may follow AfterExecute; AfterSuccess only when the last step completed. *)
Inductive lstate :=
| QStart            (* nothing yet *)
| QBE               (* BeforeExecute seen: a step must start *)
| QLoop             (* a step completed (AfterStep) *)
| QBS               (* BeforeStep *)
| QBO               (* BeforeExecuteOpcode; the opcode (and its stack callbacks) runs *)
| QAO               (* AfterExecuteOpcode *)
| QBCr | QACr       (* script change of an early OP_RETURN (no AfterExecuteOpcode) *)
| QBCe | QACe       (* script change at the end of a script *)
| QAEok             (* AfterExecute after a completed step *)
| QAEerr            (* AfterExecute after an interrupted step *)
| QOk | QErr.       (* AfterSuccess / AfterError: nothing may follow *)

Definition lstep (q : lstate) (e : ev) : option lstate :=
  match q, e with
  | QStart, BE => Some QBE
  | QBE, BS => Some QBS
  | QLoop, BS => Some QBS
  | QLoop, AE => Some QAEok
  | QBS, BO => Some QBO
  | QBS, AE => Some QAEerr          (* invalid program counter *)
  | QBO, AO => Some QAO
  | QBO, BC => Some QBCr            (* early return *)
  | QBO, AE => Some QAEerr          (* opcode failed *)
  | QAO, AS => Some QLoop
  | QAO, BC => Some QBCe
  | QAO, AE => Some QAEerr          (* stack overflow / unbalanced conditional *)
  | QBCr, AC => Some QACr
  | QACr, AS => Some QLoop
  | QBCe, AC => Some QACe
  | QACe, AS => Some QLoop
  | QACe, AE => Some QAEerr         (* P2SH: first script failed / redeem script does not parse *)
  | QAEok, EOK => Some QOk
  | QAEok, EER => Some QErr
  | QAEerr, EER => Some QErr
  | _, _ => None
  end.

Fixpoint lrun (q : lstate) (tr : list ev) : option lstate :=
  match tr with
  | [] => Some q
  | e :: r => match lstep q e with Some q' => lrun q' r | None => None end
  end.

Definition lifecycle_ok (tr : list ev) : bool :=
  match lrun QStart tr with Some QOk | Some QErr => true | _ => false end.

(** event equality / counting, used by the statements and the correspondence check *)
Definition ev_eqb (a b : ev) : bool :=
  match a, b with
  | BE, BE | AE, AE | BS, BS | AS, AS | BO, BO | AO, AO | BC, BC | AC, AC | EOK, EOK | EER, EER => true
  | _, _ => false
  end.
Fixpoint evs_eqb (a b : list ev) : bool :=
  match a, b with
  | [], [] => true
  | x :: a', y :: b' => ev_eqb x y && evs_eqb a' b'
  | _, _ => false
  end.
Fixpoint count_AS (tr : list ev) : nat :=
  match tr with [] => O | AS :: r => S (count_AS r) | _ :: r => count_AS r end.

(** ** An explicit debugger object (C19: "attaching a debugger never changes the verdict", for EVERY debugger).

    A debugger is a value of any type [D] with one method: it is handed the callback and the snapshot current at
    that callback (thread.State(): copies of the two stacks) and returns its new self.  It is THREADED through the run
    below: the hooks are called where thread.go calls them, between the instructions, and everything the machine does
    afterwards is computed in the presence of the debugger's state.

    The run is written once, over an arbitrary "emit" function [em : ev -> st -> D -> D] on machine states
    ([engine_execute_em]); a debugger is the instance that sees only the snapshot of the state
    ([engine_execute_with]); the instance that records the states themselves ([engine_states]) is the whole-run
    trace used for statements about every step of a run.

    States shown at the callbacks: BeforeStep / BeforeExecuteOpcode: the state the instruction starts from;
    AfterExecuteOpcode / AfterStep: the state it produced; BeforeScriptChange: after the alt stack was dropped;
    AfterScriptChange: after shiftScript's resets; AfterExecute: the last state; AfterSuccess / AfterError after
    CheckErrorCondition: with the result item popped (PopBool).  After a FAILING instruction the Go handlers may
    already have consumed operands ("the result of calling Step or any other method is undefined if an error is
    returned"); the model has no state for a failed instruction and shows the state the instruction started from.
    The theorems quantify over all debuggers, so they do not depend on this choice. *)
Record debugger (D : Type) := mkDebugger { on_event : D -> ev -> snapshot -> D }.
Arguments on_event {D} _ _ _ _.
Arguments mkDebugger {D} _.

(** the data stack after CheckErrorCondition(final): the result item is popped unless the check failed before *)
Definition after_cec (c : ctx) (final : bool) (s : st) : st :=
  match ds s with
  | [] => s
  | t :: r => if final && has_flag c F_CLEANSTACK && negb (Nat.eqb (length (ds s)) 1) then s else set_ds s r
  end.

Section Em.
  Context {D : Type} (em : ev -> st -> D -> D).

  (** [run_ops] with the hooks; also returns the last state the model has, for the callbacks after an error *)
  Fixpoint run_ops_em (so : sigops) (c : ctx) (ops : list pop) (idx : nat) (s : st) (acc : list snapshot) (d : D)
    : script_end * list snapshot * (st * D) :=
    match ops with
    | [] => (SEnd s, acc, (s, d))
    | p :: rest =>
        let d1 := em BO s (em BS s d) in
        match execute_opcode so c p idx s with
        | OErr => (SErr, acc, (s, d1))
        | OPanic => (SPanic, acc, (s, d1))
        | OReturn s' => (SReturn s', acc, (s', d1))
        | OOk s' =>
            let d2 := em AO s' d1 in
            if max_stack c <? lenZ (ds s') + lenZ (als s') then (SErr, acc, (s', d2))
            else match rest with
                 | [] => (SEnd s', acc, (s', d2))
                 | _ => run_ops_em so c rest (S idx) s' (snap s' :: acc) (em AS s' d2)
                 end
        end
    end.

  (** [s]: the final state (the last AfterStep was taken of it) *)
  Definition finish_em (c : ctx) (s : st) (acc : list snapshot) (d : D) : verdict * list snapshot * D :=
    let d1 := em AE s d in
    if check_error_condition c true (ds s) then (VOk, rev acc, em EOK (after_cec c true s) d1)
    else (VErr, rev acc, em EER (after_cec c true s) d1).
  Definition err_em (s : st) (acc : list snapshot) (d : D) : verdict * list snapshot * D :=
    (VErr, rev acc, em EER s (em AE s d)).
  Definition panic_em (s : st) (acc : list snapshot) (d : D) : verdict * list snapshot * D :=
    (VPanic, rev acc, em AE s d).

  (** the script change at the end of a script ([s]: conditionals balanced, alt stack dropped) *)
  Definition change_em (s s' : st) (d : D) : D := em AC s' (em BC s d).

  (** [s]: the state the locking script ended in, alt stack dropped, before shiftScript (BC / AC already fired) *)
  Definition run_redeem_em (so : sigops) (c : ctx) (saved : list bytes) (s : st) (acc : list snapshot) (d : D)
    : verdict * list snapshot * D :=
    let sh := after_cec c false (shift_script s []) in
    if negb (check_error_condition c false (ds s)) then err_em sh acc d
    else match saved with
         | [] => panic_em sh acc d
         | script :: below =>
             match parse_script (c_err_on_checksig c) script with
             | None => err_em sh acc d
             | Some ops =>
                 let s' := set_ds (shift_script s ops) below in
                 match ops with
                 | [] => finish_em c s' (snap s' :: acc) (em AS s' d)
                 | _ =>
                     match run_ops_em so c ops 0 s' (snap s' :: acc) (em AS s' d) with
                     | (SErr, acc', (sl, d')) => err_em sl acc' d'
                     | (SPanic, acc', (sl, d')) => panic_em sl acc' d'
                     | (SReturn s2, acc', (_, d')) =>
                         let s4 := shift_script (set_als s2 []) [] in
                         finish_em c s4 (snap s4 :: acc') (em AS s4 (change_em (set_als s2 []) s4 d'))
                     | (SEnd s2, acc', (_, d')) =>
                         match end_script s2 with
                         | None => err_em s2 acc' d'
                         | Some s3 =>
                             let s4 := shift_script s3 [] in
                             finish_em c s4 (snap s4 :: acc') (em AS s4 (change_em s3 s4 d'))
                         end
                     end
                 end
             end
         end.

  Definition run_lock_em (so : sigops) (c : ctx) (bip16 : bool) (saved : list bytes) (lock : list pop)
      (s : st) (acc : list snapshot) (d : D) : verdict * list snapshot * D :=
    match run_ops_em so c lock 0 s acc d with
    | (SErr, acc', (sl, d')) => err_em sl acc' d'
    | (SPanic, acc', (sl, d')) => panic_em sl acc' d'
    | (SReturn s2, acc', (_, d')) =>
        let s4 := shift_script (set_als s2 []) [] in
        finish_em c s4 (snap s4 :: acc') (em AS s4 (change_em (set_als s2 []) s4 d'))
    | (SEnd s2, acc', (_, d')) =>
        match end_script s2 with
        | None => err_em s2 acc' d'
        | Some s3 =>
            let s4 := shift_script s3 [] in
            if bip16 && negb (after_genesis c) then run_redeem_em so c saved s3 acc' (change_em s3 s4 d')
            else finish_em c s4 (snap s4 :: acc') (em AS s4 (change_em s3 s4 d'))
        end
    end.

  Definition execute_em (so : sigops) (c : ctx) (bip16 : bool) (unlock lock : list pop) (d : D)
    : verdict * list snapshot * D :=
    match unlock with
    | [] =>
        match lock with
        | [] => (VErr, [], d)                                  (* rejected by apply: no thread, no callbacks *)
        | _ => run_lock_em so c bip16 [] lock (init_st lock) [] (em BE (init_st lock) d)
        end
    | _ =>
        match run_ops_em so c unlock 0 (init_st unlock) [] (em BE (init_st unlock) d) with
        | (SErr, acc, (sl, d')) => err_em sl acc d'
        | (SPanic, acc, (sl, d')) => panic_em sl acc d'
        | (SReturn s1, acc, (_, d')) =>
            let s2 := shift_script (set_als s1 []) lock in
            let d2 := em AS s2 (change_em (set_als s1 []) s2 d') in
            match lock with
            | [] => finish_em c s2 (snap s2 :: acc) d2
            | _ => run_lock_em so c bip16 [] lock s2 (snap s2 :: acc) d2
            end
        | (SEnd s1, acc, (_, d')) =>
            match end_script s1 with
            | None => err_em s1 acc d'
            | Some s2 =>
                let s3 := shift_script s2 lock in
                let d2 := em AS s3 (change_em s2 s3 d') in
                match lock with
                | [] => finish_em c s3 (snap s3 :: acc) d2
                | _ => run_lock_em so c bip16 (ds s3) lock s3 (snap s3 :: acc) d2
                end
            end
        end
    end.

  Definition engine_execute_em (so : sigops) (i : exec_input) (d : D) : verdict * list snapshot * D :=
    let flags := normalise_flags (ei_flags i) in
    let c := mkCtx flags (ei_has_tx i) (ei_tx_lock i) (ei_tx_version i) (ei_in_seq i)
                   (negb (ei_has_tx i) || negb (ei_has_prevout i)) in
    match ei_unlock i, ei_lock i with
    | [], [] => (VErr, [], d)
    | _, _ =>
        if has_flag c F_CLEANSTACK && negb (has_flag c F_BIP16) then (VErr, [], d)
        else if (max_script_size c <? lenZ (ei_unlock i)) || (max_script_size c <? lenZ (ei_lock i)) then (VErr, [], d)
        else
          match parse_script (c_err_on_checksig c) (ei_unlock i) with
          | None => (VErr, [], d)
          | Some u =>
              match parse_script (c_err_on_checksig c) (ei_lock i) with
              | None => (VErr, [], d)
              | Some l =>
                  if has_flag c F_SIGPUSHONLY && negb (is_push_only u) then (VErr, [], d)
                  else
                    let p2sh := has_flag c F_BIP16 && negb (after_genesis c) && is_p2sh (ei_lock i) in
                    if p2sh && negb (is_push_only u) then (VErr, [], d)
                    else execute_em so c p2sh u l d
              end
          end
    end.
End Em.

(** the run with a debugger attached: it is shown the snapshot of the state at each callback *)
Definition engine_execute_with {D : Type} (dbg : debugger D) (d0 : D) (so : sigops) (i : exec_input)
  : verdict * list snapshot * D :=
  engine_execute_em (fun e s d => on_event dbg d e (snap s)) so i d0.

(** the debugger that writes everything down; with states instead of snapshots: the whole-run trace *)
Definition record {V : Type} (view : st -> V) : ev -> st -> list (ev * V) -> list (ev * V) :=
  fun e s l => l ++ [(e, view s)].
Definition recorder : debugger (list (ev * snapshot)) := mkDebugger (fun l e sn => l ++ [(e, sn)]).
Definition engine_states (so : sigops) (i : exec_input) : list (ev * st) :=
  snd (engine_execute_em (record (fun s => s)) so i []).

(** a recorded trace shown to a debugger, one callback after the other *)
Definition replay {D V : Type} (f : D -> ev -> V -> D) (tr : list (ev * V)) (d : D) : D :=
  fold_left (fun d es => f d (fst es) (snd es)) tr d.
