(** C11 — fee quotes as the Go OBJECTS they are (fees.go): a FeeQuote is a map from fee type to *Fee, a Fee is a
    mutable object on the heap, and [FeeQuote.Fee] hands out the pointer itself, so the rates of a quote can be (and are)
    edited in place through it.  model/Fees.v sees a quote as a VALUE (two optional rates); that is what a quote says at
    one moment.  Here is how it comes to say it: a history of operations over the quotes the library has handed out.

      NewFeeQuote()                      two FRESH Fee objects holding the defaults (defaultStandardFee / defaultDataFee
                                         build a new &Fee{...} on every call), registered in a fresh quote
                                         (NewFeeQuotes(m) and AddMinerWithDefault(m) call NewFeeQuote())
      q.AddQuote(t, &Fee{...})           the slot t of q points to the (fresh) object of the caller; nil: no fee of type t
      q.AddQuote(t, q2.Fee(t2))          caller-made sharing: the slot points to the object q2 holds (nothing when q2 has none)
      q.Fee(t).MiningFee = r / RelayFee  a write to the object the slot points to (nothing when there is none)

    The heap is a list of Fee objects, an address is an index, allocation appends.  [view] reads a quote of the pool back
    as the value model/Fees.v computes fees from.  proofs/QuoteHeapProofs.v: as long as the caller does not itself register
    one quote's Fee object in ANOTHER quote, the quotes of the pool never share an object, so nothing done to the other
    quotes (before or after) changes what a quote says, and a new quote says the defaults whatever happened before. *)
From Coq Require Import List NArith Bool.
From GoBT Require Import gen.Consts spec.FeeSpec model.Fees.
Import ListNotations.

(** a Fee object: MiningFee and RelayFee (FeeType is a label nothing computes with) *)
Record fee_obj := mkFeeObj { fo_mining : rate; fo_relay : rate }.
Definition heap := list fee_obj.

(** a FeeQuote object: FeeQuote.fees, restricted to the two fee types there are; [None] = absent or nil *)
Record qobj := mkQObj { qo_std : option nat; qo_data : option nat }.
Definition no_quote : qobj := mkQObj None None.

(** the heap and the pool of quotes handed out so far, in creation order *)
Record qstate := mkQState { qs_heap : heap; qs_quotes : list qobj }.
Definition empty_state : qstate := mkQState [] [].

(** fees.go defaultStandardFee / defaultDataFee (mining fee units regenerated from the source; the relay fee, which no
    fee computation reads, is the same literal there) *)
Definition default_std_fee : fee_obj :=
  mkFeeObj (mkRate default_std_fee_sat default_std_fee_bytes) (mkRate default_std_fee_sat default_std_fee_bytes).
Definition default_data_fee : fee_obj :=
  mkFeeObj (mkRate default_data_fee_sat default_data_fee_bytes) (mkRate default_data_fee_sat default_data_fee_bytes).
Definition default_quote : quote :=
  mkQuote (Some (mkRate default_std_fee_sat default_std_fee_bytes)) (Some (mkRate default_data_fee_sat default_data_fee_bytes)).

Fixpoint set_nth {A} (n : nat) (x : A) (l : list A) : list A :=
  match l, n with
  | [], _ => []
  | _ :: t, O => x :: t
  | h :: t, S k => h :: set_nth k x t
  end.

(** fee types: [true] = FeeTypeStandard, [false] = FeeTypeData *)
Definition slot (o : qobj) (std : bool) : option nat := if std then qo_std o else qo_data o.
Definition set_slot (o : qobj) (std : bool) (a : option nat) : qobj :=
  if std then mkQObj a (qo_data o) else mkQObj (qo_std o) a.

Definition get_q (st : qstate) (q : nat) : qobj := nth q (qs_quotes st) no_quote.
Definition put_q (st : qstate) (q : nat) (o : qobj) : list qobj := set_nth q o (qs_quotes st).
Definition get_fee_obj (h : heap) (a : nat) : fee_obj := nth a h default_std_fee.

Inductive hop :=
| HNew                                                   (* NewFeeQuote() *)
| HAdd (q : nat) (std : bool) (f : option (rate * rate)) (* pool[q].AddQuote(t, &Fee{mining, relay}) / AddQuote(t, nil) *)
| HShare (q : nat) (std : bool) (q2 : nat) (std2 : bool) (* pool[q].AddQuote(t, pool[q2].Fee(t2)) *)
| HEditMining (q : nat) (std : bool) (r : rate)          (* pool[q].Fee(t).MiningFee = r *)
| HEditRelay (q : nat) (std : bool) (r : rate)           (* pool[q].Fee(t).RelayFee = r *)
| HFees (q : nat).                                       (* fees computed from pool[q]: an observation, no effect *)

Definition step (st : qstate) (o : hop) : qstate :=
  let h := qs_heap st in
  match o with
  | HNew =>
      let n := length h in
      mkQState (h ++ [default_std_fee; default_data_fee]) (qs_quotes st ++ [mkQObj (Some n) (Some (S n))])
  | HAdd q std None => mkQState h (put_q st q (set_slot (get_q st q) std None))
  | HAdd q std (Some (m, r)) =>
      mkQState (h ++ [mkFeeObj m r]) (put_q st q (set_slot (get_q st q) std (Some (length h))))
  | HShare q std q2 std2 =>
      match slot (get_q st q2) std2 with
      | None => st
      | Some a => mkQState h (put_q st q (set_slot (get_q st q) std (Some a)))
      end
  | HEditMining q std r =>
      match slot (get_q st q) std with
      | None => st
      | Some a => mkQState (set_nth a (mkFeeObj r (fo_relay (get_fee_obj h a))) h) (qs_quotes st)
      end
  | HEditRelay q std r =>
      match slot (get_q st q) std with
      | None => st
      | Some a => mkQState (set_nth a (mkFeeObj (fo_mining (get_fee_obj h a)) r) h) (qs_quotes st)
      end
  | HFees _ => st
  end.

Definition run (st : qstate) (ops : list hop) : qstate := fold_left step ops st.

(** what FeeQuote.Fee(t) finds, as feesPaid reads it: the mining fee unit of the object the slot points to *)
Definition deref (h : heap) (a : option nat) : option rate :=
  match a with
  | None => None
  | Some n => match nth_error h n with Some f => Some (fo_mining f) | None => None end
  end.

(** the quote of the pool as the value model/Fees.v computes with *)
Definition view (st : qstate) (q : nat) : quote :=
  let o := get_q st q in mkQuote (deref (qs_heap st) (qo_std o)) (deref (qs_heap st) (qo_data o)).

(** the values of the quotes asked by the [HFees] steps of a history, in order *)
Fixpoint views (st : qstate) (ops : list hop) : list quote :=
  match ops with
  | [] => []
  | o :: r =>
      let st' := step st o in
      match o with HFees q => view st' q :: views st' r | _ => views st' r end
  end.
