(** Tx.Inscribe at the level of its ARGUMENT OBJECT (bscript.InscriptionArgs), where Go distinguishes a nil slice
    from an empty one, a nil *EnrichedInscriptionArgs from one whose OpReturnData is nil, an empty list from a list
    with nil elements.  model/Inscription.v is written over byte strings (a payload is [bytes]); this file says, in
    the shape of the code, what the code does with each of the "nothing there" values, so that the correspondence
    can hand the model the arguments exactly as Go was given them:

    - [EncodeParts] (bscript/oppushdata.go) ranges over the parts; for every part, nil or not, it writes
      [PushDataPrefix(part)] - computed from [len(part)], 0 for nil - and then [append(b, part...)], nothing for
      nil: a nil part is pushed exactly like an empty one, as the single byte OP_0 ([encode_parts_go]);
    - [Inscribe] (inscriptions.go) pushes [ia.Data] through [AppendPushData] = EncodeParts of the one-element list,
      whatever it is; it looks at [ia.EnrichedArgs] only when the pointer is not nil, and writes OP_RETURN and the
      pushes only when [len(OpReturnData) > 0] - false for the nil list and for the empty one
      ([inscribe_args_script]). *)
From Coq Require Import List NArith Bool.
From Coq Require Import Strings.Byte.
From GoBT Require Import lib.Bytes model.Push model.Inscription.
Import ListNotations.
Local Open Scope N_scope.

(** a Go [[]byte] that may be nil *)
Definition go_slice := option bytes.
(** what [len], [range] and [append(b, d...)] see of it *)
Definition slice_bytes (d : go_slice) : bytes := match d with Some b => b | None => [] end.

(** EncodeParts over parts that may be nil, part by part as the loop does *)
Fixpoint encode_parts_go (parts : list go_slice) : option bytes :=
  match parts with
  | [] => Some []
  | p :: r =>
      match push_data_prefix (slice_bytes p) with        (* PushDataPrefix(part): only len(part) is read *)
      | None => None
      | Some pd => match encode_parts_go r with Some t => Some (pd ++ slice_bytes p ++ t) | None => None end
      end
  end.

(** ia.EnrichedArgs: a nil pointer, or an object whose OpReturnData is a nil list or a list of parts *)
Definition go_enriched := option (option (list go_slice)).

Record insc_args := mkInscArgs {
  ia_prefix : bytes;          (* *LockingScriptPrefix (a nil pointer is outside the model: the code dereferences it) *)
  ia_data : go_slice;         (* Data *)
  ia_ct : bytes;              (* ContentType: a Go string, never nil *)
  ia_enriched : go_enriched   (* EnrichedArgs *)
}.

(** the tail Inscribe writes after OP_ENDIF: [None] = the push error *)
Definition enriched_tail (e : go_enriched) : option bytes :=
  match e with
  | None => Some []                                       (* ia.EnrichedArgs == nil *)
  | Some None => Some []                                  (* len(nil) > 0 is false *)
  | Some (Some []) => Some []                             (* len([]) > 0 is false *)
  | Some (Some dd) =>
      match encode_parts_go dd with Some p => Some (OpRETURN :: p) | None => None end
  end.

(** the locking script of the output Inscribe adds *)
Definition inscribe_args_script (a : insc_args) : option bytes :=
  match inscribe_script (ia_prefix a) (ia_ct a) (slice_bytes (ia_data a)) None with
  | None => None
  | Some s => match enriched_tail (ia_enriched a) with Some t => Some (s ++ t) | None => None end
  end.

(** the same arguments with every "nothing there" written as the empty value model/Inscription.v knows *)
Definition norm_enriched (e : go_enriched) : option (list bytes) :=
  match e with
  | None => None
  | Some None => Some []
  | Some (Some dd) => Some (map slice_bytes dd)
  end.
