(** Model of how go-bt's interpreter HOLDS its stack items (C08): in Go an item is a slice — a view
    (array, offset, length) of a backing array — and several items, the scripts the caller passed and the
    parsed opcodes' push data may be views of the same array (stack.go: "Objects may be shared, therefore in
    usage if a value is to be changed it *must* be deep-copied first").  model/Interp.v works on values and
    cannot express sharing; this file adds it.  A heap is a list of byte arrays, a stack is a list of
    slices, and every opcode is given the memory behaviour its Go handler has:

      - the stack movers (DUP, OVER, PICK, ROLL, ROT, SWAP, TUCK, NIP, the alt-stack moves, IFDUP ...) move
        or duplicate SLICES: the copies share storage (stack.go DupN/OverN/PickN/Tuck/nipN);
      - a data push is a view of the script's own bytes (opcodeparser.go: ParsedOpcode.Data = script[i:j]);
      - OP_SPLIT pushes two views of its operand (operations.go opcodeSplit: c[:n], c[n:]);
      - OP_BIN2NUM pushes its operand itself when the encoding is already minimal, a fresh copy otherwise
        (number.go minimallyEncode);
      - every other opcode that pushes a result pushes a freshly allocated array (scriptNumber.Bytes,
        make+loop in INVERT/AND/OR/XOR/LSHIFT/RSHIFT, bytes.Join in CAT, the hash functions, fromBool);
      - P2SH: the saved stack shares its items (thread.go getStack), the redeem script is a view of the
        saved top item.

    The heap machine is driven by the value machine of model/Interp.v (all control decisions are the value
    machine's); after every step it checks that its slices read back exactly the value machine's stacks and
    is [Stuck] otherwise.  proofs/HeapRefine.v proves that it never writes to an existing array, so every
    item reads the same bytes for ever after, and that it is never stuck on non-signature opcodes.
    The correspondence (corr/C08.v) compares the sharing structure predicted here with the addresses
    observed in the Go interpreter after every step. *)
From Coq Require Import List NArith ZArith Lia Bool.
From Coq Require Import Strings.Byte.
From GoBT Require Import lib.Bytes model.ScriptNum model.Interp.
Import ListNotations.
Local Open Scope Z_scope.

(** ** Slices and heaps *)
Record slice := mkSl { sl_arr : nat; sl_off : nat; sl_len : nat }.
Definition heap := list bytes.

Definition rd (h : heap) (x : slice) : bytes :=
  firstn (sl_len x) (skipn (sl_off x) (nth (sl_arr x) h [])).
Definition in_bounds (h : heap) (x : slice) : bool :=
  Nat.ltb (sl_arr x) (length h) && Nat.leb (sl_off x + sl_len x) (length (nth (sl_arr x) h [])).
(** make([]byte, n) / a composite literal / the result of a library call: a new array *)
Definition alloc (h : heap) (v : bytes) : heap * slice := (h ++ [v], mkSl (length h) 0 (length v)).
(** x[off : off+len] *)
Definition sub (x : slice) (off len : nat) : slice := mkSl (sl_arr x) (sl_off x + off) len.

(** ** The stack primitives of stack.go, for any item type: they never look inside an item *)
Section Poly.
  Context {A : Type}.
  Definition pdup_n (n : nat) (d : list A) : option (list A) :=
    if Nat.ltb (length d) n then None else Some (firstn n d ++ d).
  Definition prot_n (n : nat) (d : list A) : option (list A) :=
    if Nat.ltb (length d) (3 * n) then None
    else Some (firstn n (skipn (2 * n) d) ++ firstn (2 * n) d ++ skipn (3 * n) d).
  Definition pswap_n (n : nat) (d : list A) : option (list A) :=
    if Nat.ltb (length d) (2 * n) then None
    else Some (firstn n (skipn n d) ++ firstn n d ++ skipn (2 * n) d).
  Definition pover_n (n : nat) (d : list A) : option (list A) :=
    if Nat.ltb (length d) (2 * n) then None
    else Some (firstn n (skipn n d) ++ d).
  Definition ppick_n (i : Z) (d : list A) : option (list A) :=
    if (i <? 0) || (lenZ d <=? i) then None
    else match nth_error d (Z.to_nat i) with Some x => Some (x :: d) | None => None end.
  Definition proll_n (i : Z) (d : list A) : option (list A) :=
    if (i <? 0) || (lenZ d <=? i) then None
    else match nth_error d (Z.to_nat i) with
         | Some x => Some (x :: firstn (Z.to_nat i) d ++ skipn (S (Z.to_nat i)) d)
         | None => None
         end.

  Definition on_ds (a : list A) (o : option (list A)) : option (list A * list A) :=
    match o with Some d' => Some (d', a) | None => None end.

  (** the opcodes that only move or duplicate items.  [arg]: the decoded count of PICK / ROLL;
      [tb]: the truth value of the top item (IFDUP) *)
  Definition move (v : N) (arg : Z) (tb : bool) (d a : list A) : option (list A * list A) :=
    if (v =? OP_TOALTSTACK)%N then match d with t :: r => Some (r, t :: a) | [] => None end
    else if (v =? OP_FROMALTSTACK)%N then match a with t :: r => Some (t :: d, r) | [] => None end
    else if (v =? OP_2DROP)%N then match d with _ :: _ :: r => Some (r, a) | _ => None end
    else if (v =? OP_2DUP)%N then on_ds a (pdup_n 2 d)
    else if (v =? OP_3DUP)%N then on_ds a (pdup_n 3 d)
    else if (v =? OP_2OVER)%N then on_ds a (pover_n 2 d)
    else if (v =? OP_2ROT)%N then on_ds a (prot_n 2 d)
    else if (v =? OP_2SWAP)%N then on_ds a (pswap_n 2 d)
    else if (v =? OP_IFDUP)%N then match d with t :: _ => Some ((if tb then t :: d else d), a) | [] => None end
    else if (v =? OP_DROP)%N then match d with _ :: r => Some (r, a) | [] => None end
    else if (v =? OP_DUP)%N then on_ds a (pdup_n 1 d)
    else if (v =? OP_NIP)%N then match d with x :: _ :: r => Some (x :: r, a) | _ => None end
    else if (v =? OP_OVER)%N then on_ds a (pover_n 1 d)
    else if (v =? OP_PICK)%N then match d with _ :: r => on_ds a (ppick_n arg r) | [] => None end
    else if (v =? OP_ROLL)%N then match d with _ :: r => on_ds a (proll_n arg r) | [] => None end
    else if (v =? OP_ROT)%N then on_ds a (prot_n 1 d)
    else if (v =? OP_SWAP)%N then on_ds a (pswap_n 1 d)
    else if (v =? OP_TUCK)%N then match d with x2 :: x1 :: r => Some (x2 :: x1 :: x2 :: r, a) | _ => None end
    else None.
End Poly.

Definition is_mover (v : N) : bool :=
  ((OP_TOALTSTACK <=? v)%N && (v <=? OP_TUCK)%N) && negb (v =? OP_DEPTH)%N.

(** the opcodes whose handler pushes exactly one newly allocated result *)
Definition is_producer (v : N) : bool :=
  (v =? OP_1NEGATE)%N || ((OP_1 <=? v)%N && (v <=? OP_16)%N) || (v =? OP_DEPTH)%N ||
  (v =? OP_CAT)%N || (v =? OP_NUM2BIN)%N || (v =? OP_SIZE)%N ||
  (v =? OP_INVERT)%N || (v =? OP_AND)%N || (v =? OP_OR)%N || (v =? OP_XOR)%N || (v =? OP_EQUAL)%N ||
  ((OP_1ADD <=? v)%N && (v <=? OP_WITHIN)%N && negb (v =? OP_NUMEQUALVERIFY)%N) ||
  ((OP_RIPEMD160 <=? v)%N && (v <=? OP_HASH256)%N) ||
  (v =? OP_CHECKSIG)%N || (v =? OP_CHECKMULTISIG)%N.

(** minimallyEncode returns its argument itself on these paths *)
Definition bin2num_shares (data : bytes) : bool :=
  match rev data with
  | [] => true
  | last :: rest =>
      negb (b2n last mod 128 =? 0)%N || match rest with prev :: _ => hi_bit prev | [] => false end
  end.

(** ** Heap states *)
Record hst := mkH { h_heap : heap; h_ds : list slice; h_as : list slice }.   (* tops at the head *)

Fixpoint lbytes_eqb (a b : list bytes) : bool :=
  match a, b with
  | [], [] => true
  | x :: a', y :: b' => bytes_eqb x y && lbytes_eqb a' b'
  | _, _ => false
  end.

(** the heap state reads back the value state, through slices that lie inside their arrays *)
Definition reads (hs : hst) (d a : list bytes) : bool :=
  forallb (in_bounds (h_heap hs)) (h_ds hs) && forallb (in_bounds (h_heap hs)) (h_as hs) &&
  lbytes_eqb (map (rd (h_heap hs)) (h_ds hs)) d && lbytes_eqb (map (rd (h_heap hs)) (h_as hs)) a.

(** bytes before the push data inside the opcode's encoding *)
Definition data_off (p : pop) : nat := if 0 <? p_len p then 1%nat else (1 + Z.to_nat (- p_len p))%nat.
(** encoded size of an opcode *)
Definition op_size (p : pop) : nat :=
  if 0 <? p_len p then Z.to_nat (p_len p) else (1 + Z.to_nat (- p_len p) + length (p_data p))%nat.

(** the handler was reached (executeOpcode's two early returns not taken) *)
Definition reaches_handler (c : ctx) (s : st) (v : N) : bool :=
  negb (negb (branch_executing s) && negb (is_conditional v)) &&
  negb (negb (should_exec c s v) && negb (is_conditional v)).

(** the slices after one successfully executed opcode.  [sc]: the slice holding the current script,
    [off]: the opcode's byte offset in it, [s]: the value state before, [d']: the value data stack after *)
Definition rebuild (c : ctx) (sc : slice) (off : nat) (p : pop) (s : st) (d' : list bytes) (hs : hst) : option hst :=
  let v := p_val p in
  let h := h_heap hs in
  if negb (reaches_handler c s v) then Some hs
  else if (v =? OP_0)%N then Some (mkH h (mkSl 0 0 0 :: h_ds hs) (h_as hs))              (* PushByteArray(nil) *)
  else if (v <=? OP_PUSHDATA4)%N then
    Some (mkH h (sub sc (off + data_off p) (length (p_data p)) :: h_ds hs) (h_as hs))    (* op.Data *)
  else if is_mover v then
    let arg := match ds s with t :: _ => match pop_num c t with Some n => to_int32 n | None => 0 end | [] => 0 end in
    let tb := match ds s with t :: _ => as_bool t | [] => false end in
    match move v arg tb (h_ds hs) (h_as hs) with
    | Some (d1, a1) => Some (mkH h d1 a1)
    | None => None
    end
  else if (v =? OP_SPLIT)%N then
    match h_ds hs, ds s with
    | _ :: x :: r, nb :: _ =>
        match pop_num c nb with
        | Some n => let k := Z.to_nat n in Some (mkH h (sub x k (sl_len x - k) :: sub x 0 k :: r) (h_as hs))
        | None => None
        end
    | _, _ => None
    end
  else if (v =? OP_BIN2NUM)%N then
    match h_ds hs, ds s, d' with
    | x :: r, a :: _, b :: _ =>
        if bin2num_shares a then Some (mkH h (x :: r) (h_as hs))
        else let (h', y) := alloc h b in Some (mkH h' (y :: r) (h_as hs))
    | _, _, _ => None
    end
  else
    let k := if is_producer v then 1%nat else 0%nat in
    let keep := (length d' - k)%nat in
    let kept := skipn (length (h_ds hs) - keep) (h_ds hs) in
    match k, d' with
    | S _, x :: _ => let (h', y) := alloc h x in Some (mkH h' (y :: kept) (h_as hs))
    | S _, [] => None
    | O, _ => Some (mkH h kept (h_as hs))
    end.

Inductive houtcome :=
| HOk (s : st) (hs : hst)
| HReturn (s : st) (hs : hst)
| HErr
| HPanic
| HStuck.                     (* the sharing model cannot follow the value model: never happens (HeapRefine.v) *)

Definition h_step (so : sigops) (c : ctx) (sc : slice) (off : nat) (p : pop) (idx : nat) (s : st) (hs : hst) : houtcome :=
  match execute_opcode so c p idx s with
  | OErr => HErr
  | OPanic => HPanic
  | OOk s' =>
      match rebuild c sc off p s (ds s') hs with
      | Some hs' => if reads hs' (ds s') (als s') then HOk s' hs' else HStuck
      | None => HStuck
      end
  | OReturn s' =>
      match rebuild c sc off p s (ds s') hs with
      | Some hs' => if reads hs' (ds s') (als s') then HReturn s' hs' else HStuck
      | None => HStuck
      end
  end.

(** ** Running scripts: the drivers of model/Interp.v with the heap state carried along *)
Definition hsnapshot := (list slice * list slice)%type.        (* bottom first, like [snapshot] *)
Definition hsnap (hs : hst) : hsnapshot := (rev (h_ds hs), rev (h_as hs)).

Inductive hscript_end :=
| HSEnd (s : st) (hs : hst)
| HSReturn (s : st) (hs : hst)
| HSErr (h : heap)
| HSPanic (h : heap)
| HSStuck.

Fixpoint h_run_ops (so : sigops) (c : ctx) (sc : slice) (ops : list pop) (idx off : nat) (s : st) (hs : hst)
    (acc : list hsnapshot) : hscript_end * list hsnapshot :=
  match ops with
  | [] => (HSEnd s hs, acc)
  | p :: rest =>
      match h_step so c sc off p idx s hs with
      | HErr => (HSErr (h_heap hs), acc)
      | HPanic => (HSPanic (h_heap hs), acc)
      | HStuck => (HSStuck, acc)
      | HReturn s' hs' => (HSReturn s' hs', acc)
      | HOk s' hs' =>
          if max_stack c <? lenZ (ds s') + lenZ (als s') then (HSErr (h_heap hs'), acc)
          else match rest with
               | [] => (HSEnd s' hs', acc)
               | _ => h_run_ops so c sc rest (S idx) (off + op_size p) s' hs' (hsnap hs' :: acc)
               end
      end
  end.

Definition clear_alt (hs : hst) : hst := mkH (h_heap hs) (h_ds hs) [].

(** result of a whole execution: the verdict, the snapshots in execution order and the final heap *)
Inductive hresult :=
| HRes (v : verdict) (snaps : list hsnapshot) (h : heap)
| HResStuck.

Definition h_finish (c : ctx) (d : list bytes) (hs : hst) (acc : list hsnapshot) : hresult :=
  HRes (if check_error_condition c true d then VOk else VErr) (rev acc) (h_heap hs).

Definition h_run_redeem (so : sigops) (c : ctx) (saved : list bytes) (hsaved : list slice) (s : st) (hs : hst)
    (acc : list hsnapshot) : hresult :=
  if negb (check_error_condition c false (ds s)) then HRes VErr (rev acc) (h_heap hs)
  else match saved, hsaved with
       | [], _ => HRes VPanic (rev acc) (h_heap hs)
       | script :: below, hscript :: hbelow =>
           match parse_script (c_err_on_checksig c) script with
           | None => HRes VErr (rev acc) (h_heap hs)
           | Some ops =>
               let s' := set_ds (shift_script s ops) below in
               let hs' := mkH (h_heap hs) hbelow (h_as hs) in
               match ops with
               | [] => h_finish c below hs' (hsnap hs' :: acc)
               | _ =>
                   match h_run_ops so c hscript ops 0 0 s' hs' (hsnap hs' :: acc) with
                   | (HSErr h, acc') => HRes VErr (rev acc') h
                   | (HSPanic h, acc') => HRes VPanic (rev acc') h
                   | (HSStuck, _) => HResStuck
                   | (HSReturn s2 hs2, acc') => h_finish c (ds s2) (clear_alt hs2) (hsnap (clear_alt hs2) :: acc')
                   | (HSEnd s2 hs2, acc') =>
                       match end_script s2 with
                       | None => HRes VErr (rev acc') (h_heap hs2)
                       | Some s3 => h_finish c (ds s3) (clear_alt hs2) (hsnap (clear_alt hs2) :: acc')
                       end
                   end
               end
           end
       | _ :: _, [] => HResStuck
       end.

Definition h_run_lock (so : sigops) (c : ctx) (bip16 : bool) (saved : list bytes) (hsaved : list slice)
    (sc : slice) (lock : list pop) (s : st) (hs : hst) (acc : list hsnapshot) : hresult :=
  match h_run_ops so c sc lock 0 0 s hs acc with
  | (HSErr h, acc') => HRes VErr (rev acc') h
  | (HSPanic h, acc') => HRes VPanic (rev acc') h
  | (HSStuck, _) => HResStuck
  | (HSReturn s2 hs2, acc') => h_finish c (ds s2) (clear_alt hs2) (hsnap (clear_alt hs2) :: acc')
  | (HSEnd s2 hs2, acc') =>
      match end_script s2 with
      | None => HRes VErr (rev acc') (h_heap hs2)
      | Some s3 =>
          if bip16 && negb (after_genesis c) then h_run_redeem so c saved hsaved s3 (clear_alt hs2) acc'
          else h_finish c (ds s3) (clear_alt hs2) (hsnap (clear_alt hs2) :: acc')
      end
  end.

(** the caller's scripts are arrays 0 (unlocking) and 1 (locking) of the initial heap *)
Definition whole (arr : nat) (b : bytes) : slice := mkSl arr 0 (length b).

Definition h_execute (so : sigops) (c : ctx) (bip16 : bool) (ub lb : bytes) (unlock lock : list pop) : hresult :=
  let h0 : heap := [ub; lb] in
  let hs0 := mkH h0 [] [] in
  match unlock with
  | [] =>
      match lock with
      | [] => HRes VErr [] h0
      | _ => h_run_lock so c bip16 [] [] (whole 1 lb) lock (init_st lock) hs0 []
      end
  | _ =>
      match h_run_ops so c (whole 0 ub) unlock 0 0 (init_st unlock) hs0 [] with
      | (HSErr h, acc) => HRes VErr (rev acc) h
      | (HSPanic h, acc) => HRes VPanic (rev acc) h
      | (HSStuck, _) => HResStuck
      | (HSReturn s1 hs1, acc) =>
          let s2 := shift_script (set_als s1 []) lock in
          let hs2 := clear_alt hs1 in
          match lock with
          | [] => h_finish c (ds s2) hs2 (hsnap hs2 :: acc)
          | _ => h_run_lock so c bip16 [] [] (whole 1 lb) lock s2 hs2 (hsnap hs2 :: acc)
          end
      | (HSEnd s1 hs1, acc) =>
          match end_script s1 with
          | None => HRes VErr (rev acc) (h_heap hs1)
          | Some s2 =>
              let s3 := shift_script s2 lock in
              let hs3 := clear_alt hs1 in
              match lock with
              | [] => h_finish c (ds s3) hs3 (hsnap hs3 :: acc)
              | _ => h_run_lock so c bip16 (ds s3) (h_ds hs3) (whole 1 lb) lock s3 hs3 (hsnap hs3 :: acc)
              end
          end
      end
  end.

(** Engine.Execute with the caller's script buffers in the heap *)
Definition h_engine_execute (so : sigops) (i : exec_input) : hresult :=
  let flags := normalise_flags (ei_flags i) in
  let c := mkCtx flags (ei_has_tx i) (ei_tx_lock i) (ei_tx_version i) (ei_in_seq i)
                 (negb (ei_has_tx i) || negb (ei_has_prevout i)) in
  let h0 : heap := [ei_unlock i; ei_lock i] in
  match ei_unlock i, ei_lock i with
  | [], [] => HRes VErr [] h0
  | _, _ =>
      if has_flag c F_CLEANSTACK && negb (has_flag c F_BIP16) then HRes VErr [] h0
      else if (max_script_size c <? lenZ (ei_unlock i)) || (max_script_size c <? lenZ (ei_lock i)) then HRes VErr [] h0
      else
        match parse_script (c_err_on_checksig c) (ei_unlock i) with
        | None => HRes VErr [] h0
        | Some u =>
            match parse_script (c_err_on_checksig c) (ei_lock i) with
            | None => HRes VErr [] h0
            | Some l =>
                if has_flag c F_SIGPUSHONLY && negb (is_push_only u) then HRes VErr [] h0
                else
                  let p2sh := has_flag c F_BIP16 && negb (after_genesis c) && is_p2sh (ei_lock i) in
                  if p2sh && negb (is_push_only u) then HRes VErr [] h0
                  else h_execute so c p2sh (ei_unlock i) (ei_lock i) u l
            end
        end
  end.

(** ** What a Go harness can observe of the sharing: for each item, which backing array it lies in and
    where, up to renaming of the arrays.  Arrays are numbered in order of first appearance in the scan
    (the two scripts first, then every snapshot, data stack before alt stack, bottom first); a slice is
    reported as (array number, start relative to the first slice seen of that array, length).  Empty
    slices have no storage and are reported as (0, 0, 0) whatever they were cut from. *)
Record seen := mkSeen { sn_arr : nat; sn_base : nat }.
Fixpoint lookup (tbl : list seen) (a : nat) (k : nat) : option (nat * nat) :=   (* canonical number (1-based), base *)
  match tbl with
  | [] => None
  | e :: r => if Nat.eqb (sn_arr e) a then Some (k, sn_base e) else lookup r a (S k)
  end.

Definition canon1 (tbl : list seen) (x : slice) : list seen * (Z * Z * Z) :=
  if Nat.eqb (sl_len x) 0 then (tbl, (0, 0, 0))
  else match lookup tbl (sl_arr x) 1 with
       | Some (k, base) => (tbl, (Z.of_nat k, Z.of_nat (sl_off x) - Z.of_nat base, Z.of_nat (sl_len x)))
       | None => (tbl ++ [mkSeen (sl_arr x) (sl_off x)], (Z.of_nat (S (length tbl)), 0, Z.of_nat (sl_len x)))
       end.

Fixpoint canon_list (tbl : list seen) (xs : list slice) : list seen * list (Z * Z * Z) :=
  match xs with
  | [] => (tbl, [])
  | x :: r => let (t1, y) := canon1 tbl x in let (t2, ys) := canon_list t1 r in (t2, y :: ys)
  end.

Fixpoint canon_snaps (tbl : list seen) (sn : list hsnapshot) : list (list (Z * Z * Z) * list (Z * Z * Z)) :=
  match sn with
  | [] => []
  | (d, a) :: r =>
      let (t1, cd) := canon_list tbl d in
      let (t2, ca) := canon_list t1 a in
      (cd, ca) :: canon_snaps t2 r
  end.

Definition canon_trace (ub lb : bytes) (sn : list hsnapshot) : list (list (Z * Z * Z) * list (Z * Z * Z)) :=
  let (t0, _) := canon_list [] [whole 0 ub; whole 1 lb] in
  canon_snaps t0 sn.
