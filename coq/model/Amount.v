(** Satoshi amounts in node-style JSON: model of the float64 arithmetic in txjson_node.go
    (fromOutput / toOutput) and utxojson.go (nodeUTXOWrapper.MarshalJSON / UnmarshalJSON).

      marshal:    Value  = float64(sat) / 100000000
      unmarshal:  sat'   = uint64(math.Round(Value * 100000000))

    IEEE-754 binary64 is Flocq's computable [binary_float 53 1024] (BinarySingleNaN: one NaN,
    payloads are irrelevant here).  The same definitions are evaluated by the correspondence
    (corr/C16.v, vm_compute) and reasoned about in proofs/AmountProofs.v. *)
From Coq Require Import ZArith NArith.
From Flocq Require Import Core IEEE754.BinarySingleNaN.

#[global] Instance prec53_gt_0 : Prec_gt_0 53 := eq_refl.
#[global] Instance prec53_lt_emax : Prec_lt_emax 53 1024 := eq_refl.

Definition f64 := binary_float 53 1024.

(** float64(n) for an integer: round to nearest even (exact below 2^53) *)
Definition f64_of_Z (z : Z) : f64 := binary_normalize 53 1024 _ _ mode_NE z 0 false.

(** the literal 100000000 (an untyped Go constant converted to float64; exactly representable) *)
Definition f1e8 : f64 := f64_of_Z 100000000.

(** Value: float64(out.Satoshis) / 100000000 *)
Definition of_sat (sat : N) : f64 := Bdiv mode_NE (f64_of_Z (Z.of_N sat)) f1e8.

(** math.Round: nearest integer, halves away from zero; NaN, infinities and zeros unchanged *)
Definition go_round (v : f64) : f64 := Bnearbyint mode_NA v.

(** uint64(f) of an integral float inside the uint64 range (outside it Go's result is
    implementation-specific; the model clamps and the correspondence never compares there) *)
Definition f64_to_u64 (v : f64) : N := Z.to_N (Btrunc v) mod 18446744073709551616.

(** uint64(math.Round(Value * 100000000)) *)
Definition to_sat (v : f64) : N := f64_to_u64 (go_round (Bmult mode_NE v f1e8)).

(** the pre-repair conversion uint64(Value * 100000000) (truncation), kept to show the
    rounding is what makes the round trip hold *)
Definition to_sat_trunc (v : f64) : N := f64_to_u64 (Bmult mode_NE v f1e8).

(** the IEEE-754 bit pattern (math.Float64bits) of a finite or infinite value; the single NaN is
    mapped to Go's canonical quiet NaN *)
Definition f64_bits (v : f64) : N :=
  let sgn (s : bool) : N := if s then 9223372036854775808%N else 0%N in
  match v with
  | B754_zero s => sgn s
  | B754_infinity s => (sgn s + 9218868437227405312)%N
  | B754_nan => 9221120237041090561%N
  | B754_finite s m e _ =>
      if (Z.pos m <? 4503599627370496)%Z then (sgn s + Npos m)%N
      else (sgn s + Z.to_N (e + 1075) * 4503599627370496 + (Npos m - 4503599627370496))%N
  end.

(** 21 million coins: the amounts the property quantifies over *)
Definition max_money : N := 2100000000000000%N.
