(** The single-field mutations of spec/CommitSpec.v applied to a go-bt transaction object
    ([model/Tx.v]) in which the signed input records the spent output (PreviousTxScript /
    PreviousTxSatoshis), i.e. the object the harness mutates and the library re-hashes; and the
    signing context ([spec/CommitSpec.v] [sign_ctx]) such an object denotes.  Byte order: the
    mutation carries previous-transaction hashes in wire order (as the digest sees them), go-bt
    stores them reversed. *)
From Coq Require Import List NArith.
From Coq Require Import Strings.Byte.
From GoBT Require Import lib.Bytes model.Tx spec.DigestSpec spec.CommitSpec model.SigHashWire.
Import ListNotations.
Local Open Scope N_scope.

Definition in_set_hash (h : bytes) (x : input) : input :=
  mkInput (rev h) (in_vout x) (in_unlock x) (in_seq x) (in_sats x) (in_script x).
Definition in_set_vout (n : N) (x : input) : input :=
  mkInput (in_txid x) n (in_unlock x) (in_seq x) (in_sats x) (in_script x).
Definition in_set_seq (s : N) (x : input) : input :=
  mkInput (in_txid x) (in_vout x) (in_unlock x) s (in_sats x) (in_script x).
Definition in_set_sats (v : N) (x : input) : input :=
  mkInput (in_txid x) (in_vout x) (in_unlock x) (in_seq x) v (in_script x).
Definition in_set_script (s : bytes) (x : input) : input :=
  mkInput (in_txid x) (in_vout x) (in_unlock x) (in_seq x) (in_sats x) (Some s).
Definition out_set_value (v : N) (o : output) : output := mkOutput v (out_script o).
Definition out_set_script (s : bytes) (o : output) : output := mkOutput (out_sats o) s.

(** a fresh input / output as the harness adds it: no recorded previous output *)
Definition unwire_in (i : txin) : input :=
  mkInput (rev (op_hash (ti_prevout i))) (op_n (ti_prevout i)) (ti_script_sig i) (ti_sequence i) 0 None.
Definition unwire_out (o : txout) : output := mkOutput (to_value o) (to_script o).

Definition tx_with_ins (t : tx) (ins : list input) : tx := mkTx (tx_version t) ins (tx_outs t) (tx_lock t).
Definition tx_with_outs (t : tx) (outs : list output) : tx := mkTx (tx_version t) (tx_ins t) outs (tx_lock t).

(** the mutated transaction and the new position of the signed input *)
Definition apply_tx (m : mutation) (t : tx) (i : nat) : tx * nat :=
  match m with
  | MVersion v => (mkTx v (tx_ins t) (tx_outs t) (tx_lock t), i)
  | MLocktime v => (mkTx (tx_version t) (tx_ins t) (tx_outs t) v, i)
  | MInHash j h => (tx_with_ins t (set_nth j (in_set_hash h) (tx_ins t)), i)
  | MInVout j n => (tx_with_ins t (set_nth j (in_set_vout n) (tx_ins t)), i)
  | MInSequence j s => (tx_with_ins t (set_nth j (in_set_seq s) (tx_ins t)), i)
  | MOutValue j v => (tx_with_outs t (set_nth j (out_set_value v) (tx_outs t)), i)
  | MOutScript j s => (tx_with_outs t (set_nth j (out_set_script s) (tx_outs t)), i)
  | MOutInsert j o => (tx_with_outs t (insert_at j (unwire_out o) (tx_outs t)), i)
  | MOutRemove j => (tx_with_outs t (remove_at j (tx_outs t)), i)
  | MInInsert j x => (tx_with_ins t (insert_at j (unwire_in x) (tx_ins t)), if Nat.leb j i then S i else i)
  | MInRemove j => (tx_with_ins t (remove_at j (tx_ins t)), if Nat.ltb j i then pred i else i)
  | MSpentValue v => (tx_with_ins t (set_nth i (in_set_sats v) (tx_ins t)), i)
  | MSpentScript s => (tx_with_ins t (set_nth i (in_set_script s) (tx_ins t)), i)
  end.

(** what the library signs for input [i] of [t]: the node's view of the transaction, the recorded
    previous script as script code, the recorded previous value *)
Definition sign_ctx_of (t : tx) (i : nat) : sign_ctx :=
  match nth_error (tx_ins t) i with
  | Some inp => mkSignCtx (wire_tx t) i (match in_script inp with Some s => s | None => [] end) (in_sats inp)
  | None => mkSignCtx (wire_tx t) i [] 0
  end.
