(** Reader discipline of the decoders (C09): the obligation on the regenerated table gen/ReaderUse.v.

    model/Reader.v and proofs/ReaderProofs.v show that a decoder whose only access to its io.Reader is io.ReadFull
    computes a function of the bytes the reader supplies - which is what model/Tx.v and model/Alloc.v are.  Whether
    the Go decoders ARE of that shape is a fact about the source: the translator (harness/gen/readeruse.go) lists
    every occurrence of every io.Reader parameter in the library's packages with what is done to it, and
    [discipline_ok] asks, for the packages this property's code lives in, that each occurrence is the first argument
    of io.ReadFull, or hands the reader on - as the reader argument - to a function that is itself in the table (so
    that its own occurrences are under the same obligation); and that the table is about the code the models are
    about (the exported reader-based entry points occur in it).  A type assertion on the reader, a direct r.Read, a
    wrapper put around it, a reader stored or returned: "other", and the obligation stops checking. *)
From Coq Require Import List String Bool.
From GoBT Require Import model.StateInventory.
Import ListNotations.
Local Open Scope string_scope.

Definition rawuse := (string * string * string * string * string * string)%type.
Definition ru_pkg (u : rawuse) : string := let '(p, _, _, _, _, _) := u in p.
Definition ru_func (u : rawuse) : string := let '(_, _, f, _, _, _) := u in f.
Definition ru_kind (u : rawuse) : string := let '(_, _, _, _, k, _) := u in k.
Definition ru_detail (u : rawuse) : string := let '(_, _, _, _, _, d) := u in d.

(** "Input.readFrom" -> "readFrom"; "readBytes" -> "readBytes" *)
Definition bare (f : string) : string :=
  match index 0 "." f with
  | Some n => substring (S n) (length f - S n) f
  | None => f
  end.

(** the reader-based entry points the models represent (exported API: the harness calls each of them by name) *)
Definition entry_points : list string :=
  ["Tx.ReadFrom"; "Txs.ReadFrom"; "Input.ReadFrom"; "Input.ReadFromExtended"; "Output.ReadFrom"; "VarInt.ReadFrom"].

Definition in_scope (pid : string) (u : rawuse) : bool := existsb (String.eqb (ru_pkg u)) (packages_of pid).

Definition use_ok (tbl : list rawuse) (u : rawuse) : bool :=
  (ru_kind u =? "readfull") || (ru_kind u =? "unused") ||
  ((ru_kind u =? "pass") &&
   existsb (fun v => (ru_pkg v =? ru_pkg u) && (bare (ru_func v) =? ru_detail u)) tbl).

Definition discipline_ok (tbl : list rawuse) (pid : string) : bool :=
  forallb (fun u => negb (in_scope pid u) || use_ok tbl u) tbl &&
  forallb (fun f => existsb (fun u => in_scope pid u && (ru_func u =? f)) tbl) entry_points.

Lemma discipline_ok_spec : forall tbl pid, discipline_ok tbl pid = true ->
  (forall u, In u tbl -> In (ru_pkg u) (packages_of pid) ->
     ru_kind u = "readfull" \/ ru_kind u = "unused" \/
     (ru_kind u = "pass" /\ exists v, In v tbl /\ ru_pkg v = ru_pkg u /\ bare (ru_func v) = ru_detail u)) /\
  (forall f, In f entry_points -> exists u, In u tbl /\ In (ru_pkg u) (packages_of pid) /\ ru_func u = f).
Proof.
  intros tbl pid H. unfold discipline_ok in H. apply andb_prop in H as [H1 H2].
  rewrite forallb_forall in H1, H2. split.
  - intros u Hu Hp. specialize (H1 u Hu). apply orb_prop in H1 as [H1|H1].
    + apply negb_true_iff in H1. exfalso.
      assert (E : in_scope pid u = true).
      { unfold in_scope. apply existsb_exists. exists (ru_pkg u). split; [exact Hp | apply String.eqb_refl]. }
      congruence.
    + unfold use_ok in H1. apply orb_prop in H1 as [H1|H1]; [apply orb_prop in H1 as [H1|H1]|].
      * left. apply String.eqb_eq. exact H1.
      * right. left. apply String.eqb_eq. exact H1.
      * right. right. apply andb_prop in H1 as [Hk Hv]. split; [apply String.eqb_eq; exact Hk|].
        apply existsb_exists in Hv as (v & Hv & Hc). apply andb_prop in Hc as [Hc1 Hc2].
        exists v. repeat split; [exact Hv | apply String.eqb_eq; exact Hc1 | apply String.eqb_eq; exact Hc2].
  - intros f Hf. specialize (H2 f Hf). apply existsb_exists in H2 as (u & Hu & Hc).
    apply andb_prop in Hc as [Hs Hn]. exists u. repeat split; [exact Hu | | apply String.eqb_eq; exact Hn].
    unfold in_scope in Hs. apply existsb_exists in Hs as (p & Hp & He). apply String.eqb_eq in He. subst p. exact Hp.
Qed.
