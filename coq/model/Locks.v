(** C18 — model of lock-based concurrency for the "thread safe" fee-quote types and the script engine.

    1. Syntax of the translator's table (coq/gen/Locks.v is plain strings; decoded here).
    2. [expand]: inlining of calls to other methods of the guarded types, all control-flow paths.
    3. [well_locked]: the computable lock-discipline checker (on the symbolic paths).
    4. The machine: any number of threads (thread ids are [nat], a state maps every id to a
       thread), each running a list of atomic actions; RW-mutex semantics (writer exclusive,
       readers shared, acquire blocks); non-atomic writes: a write is two steps ([GWBegin],
       [GWEnd]); a read that overlaps a write in flight, or a write that overlaps another,
       yields an arbitrary value ([g], chosen by the schedule) — this is how a data race shows in
       the model (Go: torn multi-word values, `concurrent map read and map write`).

    Nothing here is specific to fees.go except the two type names. *)
From Coq Require Import List String Bool Arith PeanoNat.
Import ListNotations.
Local Open Scope string_scope.
Local Open Scope list_scope.

(* ------------------------------------------------------------------------------------------ *)
(** * Table syntax *)

Inductive mode := MR | MW.
Inductive ty := TFeeQuote | TFeeQuotes | TGlobal | TEngine | TPrivate.
Inductive oref := Self | Elem.

Inductive action :=
| Acquire (o : oref) (m : mode)
| Release (o : oref) (m : mode)
| Read (o : oref) (f : string)
| Write (o : oref) (f : string)
| Call (o : oref) (name : string).

Record method := mkMethod { m_ty : ty; m_name : string; m_paths : list (list action) }.

Definition mode_eqb (a b : mode) : bool :=
  match a, b with MR, MR | MW, MW => true | _, _ => false end.
Definition ty_eqb (a b : ty) : bool :=
  match a, b with
  | TFeeQuote, TFeeQuote | TFeeQuotes, TFeeQuotes | TGlobal, TGlobal | TEngine, TEngine | TPrivate, TPrivate => true
  | _, _ => false
  end.
Definition oref_eqb (a b : oref) : bool :=
  match a, b with Self, Self | Elem, Elem => true | _, _ => false end.

(** raw table, as generated *)
Definition rawaction := (string * string * string)%type.
Definition rawtable := list (string * string * list (list rawaction)).

Definition dec_oref (s : string) : option oref :=
  if s =? "self" then Some Self else if s =? "elem" then Some Elem else None.
Definition dec_mode (s : string) : option mode :=
  if s =? "R" then Some MR else if s =? "W" then Some MW else None.
Definition dec_ty (s : string) : option ty :=
  if s =? "FeeQuote" then Some TFeeQuote else if s =? "FeeQuotes" then Some TFeeQuotes else None.

Definition dec_action (a : rawaction) : option action :=
  let '(k, o, x) := a in
  match dec_oref o with
  | None => None
  | Some o =>
      if k =? "acquire" then option_map (Acquire o) (dec_mode x)
      else if k =? "release" then option_map (Release o) (dec_mode x)
      else if k =? "read" then Some (Read o x)
      else if k =? "write" then Some (Write o x)
      else if k =? "call" then Some (Call o x)
      else None
  end.

Fixpoint all_some {A} (l : list (option A)) : option (list A) :=
  match l with
  | [] => Some []
  | None :: _ => None
  | Some a :: r => option_map (cons a) (all_some r)
  end.

Definition dec_method (m : string * string * list (list rawaction)) : option method :=
  let '(t, n, ps) := m in
  match dec_ty t, all_some (map (fun p => all_some (map dec_action p)) ps) with
  | Some t, Some ps => Some (mkMethod t n ps)
  | _, _ => None
  end.

Definition dec_table (r : rawtable) : option (list method) := all_some (map dec_method r).

(* ------------------------------------------------------------------------------------------ *)
(** * Atomic actions, generic in the type of object names (symbolic [oref] or concrete [obj]) *)

Definition value := nat.

Inductive gact (K : Type) :=
| GAcq (k : K) (m : mode)
| GRel (k : K) (m : mode)
| GRead (k : K) (f : string)
| GWBegin (k : K) (f : string)
| GWEnd (k : K) (f : string) (v : value).
Arguments GAcq {K}. Arguments GRel {K}. Arguments GRead {K}. Arguments GWBegin {K}. Arguments GWEnd {K}.

Definition gmap {K K'} (rho : K -> K') (v : value) (a : gact K) : gact K' :=
  match a with
  | GAcq k m => GAcq (rho k) m
  | GRel k m => GRel (rho k) m
  | GRead k f => GRead (rho k) f
  | GWBegin k f => GWBegin (rho k) f
  | GWEnd k f _ => GWEnd (rho k) f v
  end.

(** the lock-discipline checker: [h] is the list of mutexes held (with their mode).
    - an acquire needs the mutex not to be held already, in any mode (sync.RWMutex is not
      re-entrant: Lock under Lock/RLock self-deadlocks, RLock under RLock deadlocks as soon as a
      writer is waiting);
    - a release needs the mutex held in that mode;
    - a read needs the object's mutex held (R or W), a write needs it held in W mode;
    - a write is [GWBegin] immediately followed by its [GWEnd]. *)
Section Discipline.
  Context {K : Type} (keqb : K -> K -> bool).

  Definition holds_obj (k : K) (h : list (K * mode)) : bool := existsb (fun x => keqb (fst x) k) h.
  Definition holds (k : K) (m : mode) (h : list (K * mode)) : bool :=
    existsb (fun x => keqb (fst x) k && mode_eqb (snd x) m) h.
  Fixpoint remove1 (k : K) (m : mode) (h : list (K * mode)) : list (K * mode) :=
    match h with
    | [] => []
    | x :: r => if keqb (fst x) k && mode_eqb (snd x) m then r else x :: remove1 k m r
    end.
  Definition next_is_wend (k : K) (f : string) (p : list (gact K)) : bool :=
    match p with
    | GWEnd k' f' _ :: _ => keqb k' k && (f' =? f)
    | _ => false
    end.

  Fixpoint wl (h : list (K * mode)) (p : list (gact K)) : option (list (K * mode)) :=
    match p with
    | [] => Some h
    | GAcq k m :: r => if holds_obj k h then None else wl ((k, m) :: h) r
    | GRel k m :: r => if holds k m h then wl (remove1 k m h) r else None
    | GRead k f :: r => if holds_obj k h then wl h r else None
    | GWBegin k f :: r => if holds k MW h && next_is_wend k f r then wl h r else None
    | GWEnd k f v :: r => if holds k MW h then wl h r else None
    end.
End Discipline.

(* ------------------------------------------------------------------------------------------ *)
(** * Inlining calls: every method becomes a list of call-free symbolic paths *)

Definition spath := list (gact oref).

Definition callee_ty (T : ty) (o : oref) : option ty :=
  match o with
  | Self => Some T
  | Elem => match T with TFeeQuotes => Some TFeeQuote | _ => None end
  end.

Definition find_method (tbl : list method) (T : ty) (n : string) : option method :=
  find (fun m => ty_eqb (m_ty m) T && (m_name m =? n)) tbl.

Definition mentions_elem (a : gact oref) : bool :=
  match a with
  | GAcq k _ | GRel k _ | GRead k _ | GWBegin k _ | GWEnd k _ _ => oref_eqb k Elem
  end.

Definition rename_self (o : oref) (a : gact oref) : gact oref :=
  gmap (fun k => match k with Self => o | Elem => Elem end) 0 a.

(** [expand fuel tbl T p]: all call-free paths of path [p] of a method of type [T]. [None]: a
    call that cannot be resolved, an element of an element, a callee that itself reaches into an
    element (its element would be a different one), or recursion deeper than [fuel]. *)
Fixpoint expand (fuel : nat) (tbl : list method) (T : ty) (p : list action) {struct fuel} : option (list spath) :=
  match fuel with
  | 0 => None
  | S fuel' =>
      (fix go (p : list action) : option (list spath) :=
         match p with
         | [] => Some [[]]
         | a :: r =>
             match go r with
             | None => None
             | Some rs =>
                 let pre (o : oref) (xs : spath) :=
                   match callee_ty T o with
                   | None => None
                   | Some _ => Some (map (app xs) rs)
                   end in
                 match a with
                 | Acquire o m => pre o [GAcq o m]
                 | Release o m => pre o [GRel o m]
                 | Read o f => pre o [GRead o f]
                 | Write o f => pre o [GWBegin o f; GWEnd o f 0]
                 | Call o n =>
                     match callee_ty T o with
                     | None => None
                     | Some T' =>
                         match find_method tbl T' n with
                         | None => None
                         | Some m =>
                             match (fix all (ps : list (list action)) : option (list spath) :=
                                      match ps with
                                      | [] => Some []
                                      | q :: qs =>
                                          match expand fuel' tbl T' q, all qs with
                                          | Some a, Some b => Some (a ++ b)
                                          | _, _ => None
                                          end
                                      end) (m_paths m) with
                             | None => None
                             | Some cs =>
                                 if existsb (existsb mentions_elem) cs then None
                                 else Some (flat_map (fun c => map (app (map (rename_self o) c)) rs) cs)
                             end
                         end
                     end
                 end
             end
         end) p
  end.

Definition expand_method (tbl : list method) (m : method) : option (list spath) :=
  (fix all (ps : list (list action)) : option (list spath) :=
     match ps with
     | [] => Some []
     | q :: qs =>
         match expand (S (List.length tbl)) tbl (m_ty m) q, all qs with
         | Some a, Some b => Some (a ++ b)
         | _, _ => None
         end
     end) (m_paths m).

Definition path_ok (p : spath) : bool :=
  match wl oref_eqb [] p with Some [] => true | _ => false end.

Definition method_ok (tbl : list method) (m : method) : bool :=
  match expand_method tbl m with
  | Some ps => forallb path_ok ps
  | None => false
  end.

(** THE CHECKER. Every path of every method, calls inlined: every read of a guarded field happens
    with its object's mutex held (R or W), every write with it held in W mode, no acquire of a
    mutex already held, releases match, nothing is held when the method returns. *)
Definition well_locked (tbl : list method) : bool := forallb (method_ok tbl) tbl.

Definition well_locked_raw (r : rawtable) : bool :=
  match dec_table r with Some t => well_locked t | None => false end.

(** the flattened table the machine runs: the paths that pass, per method *)
Definition flat_method (tbl : list method) (m : method) : ty * string * list spath :=
  (m_ty m, m_name m, match expand_method tbl m with Some ps => ps | None => [] end).
Definition flat_table (tbl : list method) := map (flat_method tbl) tbl.

Definition lookup_path (ft : list (ty * string * list spath)) (T : ty) (n : string) (k : nat) : spath :=
  match find (fun e => ty_eqb (fst (fst e)) T && (snd (fst e) =? n)) ft with
  | Some e => nth k (snd e) []
  | None => []
  end.

(* ------------------------------------------------------------------------------------------ *)
(** * The machine *)

Definition tid := nat.
Definition obj := (ty * nat)%type.
Definition loc := (obj * string)%type.
Definition mact := gact obj.

Definition obj_eqb (a b : obj) : bool := ty_eqb (fst a) (fst b) && (snd a =? snd b)%nat.
Definition loc_eqb (a b : loc) : bool := obj_eqb (fst a) (fst b) && (snd a =? snd b).

(** a call of a method by a thread: which method, which of its paths the control flow takes,
    the receiver object, the element fetched from the receiver (if the path uses one), and the
    value the call writes *)
Record call := mkCall { c_ty : ty; c_name : string; c_path : nat; c_self : nat; c_elem : nat; c_val : value }.

Definition rho (c : call) (o : oref) : obj :=
  match o with Self => (c_ty c, c_self c) | Elem => (TFeeQuote, c_elem c) end.
Definition call_ok (c : call) : bool := negb (obj_eqb (rho c Self) (rho c Elem)).

Definition inst (ft : list (ty * string * list spath)) (c : call) : list mact :=
  map (gmap (rho c) (c_val c)) (lookup_path ft (c_ty c) (c_name c) (c_path c)).

Record thread := mkThread { prog : list mact; held : list (obj * mode); log : list (loc * value) }.
Record lockst := mkLock { lw : option tid; lr : list tid }.
Record cell := mkCell { cval : value; cwr : list tid }.
Record state := mkState {
  thr : tid -> thread;
  lk : obj -> lockst;
  mem : loc -> cell;
  written : loc -> list value   (* ghost: every value a completed write meant to store, newest first *)
}.

Definition upd_thr (f : tid -> thread) (t : tid) (x : thread) : tid -> thread :=
  fun t' => if (t' =? t)%nat then x else f t'.
Definition upd_lk (f : obj -> lockst) (o : obj) (x : lockst) : obj -> lockst :=
  fun o' => if obj_eqb o' o then x else f o'.
Definition upd_loc {A} (f : loc -> A) (l : loc) (x : A) : loc -> A :=
  fun l' => if loc_eqb l' l then x else f l'.

Fixpoint remove_tid (t : tid) (l : list tid) : list tid :=
  match l with [] => [] | x :: r => if (x =? t)%nat then r else x :: remove_tid t r end.
Definition remove_all_tid (t : tid) (l : list tid) : list tid := filter (fun x => negb (x =? t)%nat) l.

(** one step of thread [t]; [g] is the arbitrary value a racy access produces. [None]: the
    thread has finished, is blocked on a mutex, or unlocks a mutex it does not hold (a fatal
    error in Go). *)
Definition step (s : state) (t : tid) (g : value) : option state :=
  let th := thr s t in
  match prog th with
  | [] => None
  | a :: rest =>
      match a with
      | GAcq o MW =>
          match lw (lk s o), lr (lk s o) with
          | None, [] =>
              Some (mkState (upd_thr (thr s) t (mkThread rest ((o, MW) :: held th) (log th)))
                            (upd_lk (lk s) o (mkLock (Some t) [])) (mem s) (written s))
          | _, _ => None
          end
      | GAcq o MR =>
          match lw (lk s o) with
          | None =>
              Some (mkState (upd_thr (thr s) t (mkThread rest ((o, MR) :: held th) (log th)))
                            (upd_lk (lk s) o (mkLock None (t :: lr (lk s o)))) (mem s) (written s))
          | Some _ => None
          end
      | GRel o MW =>
          match lw (lk s o) with
          | Some t' =>
              if (t' =? t)%nat then
                Some (mkState (upd_thr (thr s) t (mkThread rest (remove1 obj_eqb o MW (held th)) (log th)))
                              (upd_lk (lk s) o (mkLock None (lr (lk s o)))) (mem s) (written s))
              else None
          | None => None
          end
      | GRel o MR =>
          if existsb (Nat.eqb t) (lr (lk s o)) then
            Some (mkState (upd_thr (thr s) t (mkThread rest (remove1 obj_eqb o MR (held th)) (log th)))
                          (upd_lk (lk s) o (mkLock (lw (lk s o)) (remove_tid t (lr (lk s o))))) (mem s) (written s))
          else None
      | GRead o f =>
          let c := mem s (o, f) in
          let v := match cwr c with [] => cval c | _ => g end in
          Some (mkState (upd_thr (thr s) t (mkThread rest (held th) (((o, f), v) :: log th)))
                        (lk s) (mem s) (written s))
      | GWBegin o f =>
          let c := mem s (o, f) in
          Some (mkState (upd_thr (thr s) t (mkThread rest (held th) (log th)))
                        (lk s) (upd_loc (mem s) (o, f) (mkCell (cval c) (t :: cwr c))) (written s))
      | GWEnd o f v =>
          let c := mem s (o, f) in
          let clean := forallb (Nat.eqb t) (cwr c) in
          Some (mkState (upd_thr (thr s) t (mkThread rest (held th) (log th)))
                        (lk s)
                        (upd_loc (mem s) (o, f) (mkCell (if clean then v else g) (remove_all_tid t (cwr c))))
                        (upd_loc (written s) (o, f) (v :: written s (o, f))))
      end
  end.

Inductive reachable (s0 : state) : state -> Prop :=
| reach_refl : reachable s0 s0
| reach_step : forall s t g s', reachable s0 s -> step s t g = Some s' -> reachable s0 s'.

(** executable form: a schedule is a list of (thread, arbitrary value) *)
Fixpoint run (s : state) (sched : list (tid * value)) : option state :=
  match sched with
  | [] => Some s
  | (t, g) :: r => match step s t g with Some s' => run s' r | None => None end
  end.

(** initial states: no mutex held, memory [mem0], nothing written yet *)
Definition init_state (mem0 : loc -> value) (progs : tid -> list mact) : state :=
  mkState (fun t => mkThread (progs t) [] [])
          (fun _ => mkLock None [])
          (fun l => mkCell (mem0 l) [])
          (fun _ => []).

(** threads running method calls of a table *)
Definition call_progs (tbl : list method) (P : tid -> list call) : tid -> list mact :=
  fun t => flat_map (inst (flat_table tbl)) (P t).

(* ------------------------------------------------------------------------------------------ *)
(** * Programs without locks: confinement (the script engine)

    [G]: names of package-level variables some function writes after init; [F]: fields of the
    engine struct. Thread [t] may read package-level variables and its own allocations
    [(TPrivate, t)], and write its own allocations; it may touch a shared location only if that
    location is in [G] / [F]. *)
Definition writable (G F : list string) (t : tid) (o : obj) (f : string) : bool :=
  match fst o with
  | TPrivate => (snd o =? t)%nat
  | TGlobal => existsb (String.eqb f) G
  | TEngine => existsb (String.eqb f) F
  | _ => false
  end.
Definition readable (G F : list string) (t : tid) (o : obj) (f : string) : bool :=
  writable G F t o f || ty_eqb (fst o) TGlobal.

Fixpoint confined (G F : list string) (t : tid) (p : list mact) : bool :=
  match p with
  | [] => true
  | GRead o f :: r => readable G F t o f && confined G F t r
  | GWBegin o f :: r => writable G F t o f && next_is_wend obj_eqb o f r && confined G F t r
  | GWEnd o f _ :: r => writable G F t o f && confined G F t r
  | _ => false
  end.

(* ------------------------------------------------------------------------------------------ *)
(** * Reading coq/gen/Globals.v *)

Definition rawglobal := (string * string * string * bool * bool * string)%type.
Definition g_pkg (g : rawglobal) : string := let '(p, _, _, _, _, _) := g in p.
Definition g_name (g : rawglobal) : string := let '(_, n, _, _, _, _) := g in n.
Definition g_mutated (g : rawglobal) : bool := let '(_, _, _, m, _, _) := g in m.
Definition g_escapes (g : rawglobal) : bool := let '(_, _, _, _, e, _) := g in e.

Definition mutated_names (gl : list rawglobal) : list string :=
  map (fun g => g_pkg g ++ "." ++ g_name g)%string (filter g_mutated gl).

(** escapes looked at by hand (part of the trusted base, listed in props.d/C18.json): none.
    (Until fix bc5d8f1 bt.defaultHex was on this list: CalcInputPreimageLegacy returned that package-level slice
    itself for the SIGHASH_SINGLE out-of-range case, "a caller of the public API could write into it" — which is
    exactly what made every later digest of that kind wrong; the library now returns a copy and the scan finds
    no escape.) *)
Definition audited_escapes : list (string * string) := [].

Definition shares_nothing (gl : list rawglobal) (engine_fields : list string) (fresh : list (string * bool)) : bool :=
  forallb (fun g => negb (g_mutated g) &&
                    (negb (g_escapes g) ||
                     existsb (fun a => (fst a =? g_pkg g) && (snd a =? g_name g)) audited_escapes)) gl
  && match engine_fields with [] => true | _ => false end
  && forallb snd fresh
  && negb (match gl with [] => true | _ => false end).
