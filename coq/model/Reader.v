(** io.Reader as the decoders may see it, and io.ReadFull on top of it (C09).

    The models of the reader-based decoders (model/Tx.v, model/Alloc.v) are functions of the BYTES a reader
    supplies.  That is an abstraction of the Go code, which is handed an [io.Reader]: something that answers each
    [Read(p)] with some of the bytes (as few as one; none at all with a nil error is allowed), and ends with
    [io.EOF] or another error - given together with the last bytes or on the call after.  This file models such a
    reader as the list of answers it is going to give, [io.ReadFull] (io.ReadAtLeast's loop) on top of its [Read],
    and a decoder as a program whose ONLY access to the reader is [io.ReadFull] (which is what the regenerated
    table gen/ReaderUse.v says of the Go source, see model/ReaderUse.v).  proofs/ReaderProofs.v shows that such a
    program cannot tell two readers with the same content and the same final error apart: however the bytes are
    cut up, stalled, or wrapped (bufio, io.LimitedReader with a limit at or above the data, io.MultiReader, ...),
    it computes what it computes on the plain byte string.  What this model has NO room for is the reader's dynamic
    type: a decoder that looks at it is not a [prog]. *)
From Coq Require Import List Arith Bool Lia.
From Coq Require Import Strings.Byte.
From GoBT Require Import lib.Bytes.
Import ListNotations.

(** how a reader ends: io.EOF, or any other error (a broken connection) *)
Inductive rerr := REOF | ROther.

(** one future answer of Read: some bytes, or (0, nil) *)
Inductive event := EData (c : bytes) | EStall.

Record reader := mkReader {
  evs : list event;      (* what the next calls are going to answer, in order *)
  fin : rerr;            (* the error once everything has been handed out *)
  eager : bool           (* true: the error comes together with the last bytes (iotest.DataErrReader), not after *)
}.

Definition with_evs (r : reader) (l : list event) : reader := mkReader l (fin r) (eager r).

Definition is_nil {A} (l : list A) : bool := match l with [] => true | _ => false end.

(** [Read(p)] with [len(p) = k], k > 0: bytes, error, the reader afterwards.  A chunk longer than [p] is handed out
    in pieces. *)
Definition read (k : nat) (r : reader) : bytes * option rerr * reader :=
  match evs r with
  | [] => ([], Some (fin r), r)
  | EStall :: t => ([], None, with_evs r t)
  | EData c :: t =>
      if length c <=? k
      then (c, if eager r && is_nil t then Some (fin r) else None, with_evs r t)
      else (firstn k c, None, with_evs r (EData (skipn k c) :: t))
  end.

(** what io.ReadFull reports *)
Inductive status :=
| SFull              (* err == nil: the buffer was filled *)
| SEOF               (* io.EOF: nothing was read *)
| SUnexpectedEOF     (* io.ErrUnexpectedEOF: some, not all *)
| SOther             (* the reader's own error *)
| SStuck.            (* fuel artefact; never returned, see [read_full_not_stuck] *)

(** io.ReadAtLeast(r, buf, min) with len(buf) = min = need:
      for n < min && err == nil { nn, err = r.Read(buf[n:]); n += nn }
      if n >= min { err = nil } else if n > 0 && err == EOF { err = ErrUnexpectedEOF }
    [acc] is buf[:n].  With need = 0 Read is not called at all. *)
Fixpoint read_at_least (fuel need : nat) (acc : bytes) (r : reader) : bytes * status * reader :=
  match need with
  | 0 => (acc, SFull, r)
  | _ =>
    match fuel with
    | 0 => (acc, SStuck, r)
    | S f =>
        let '(c, e, r') := read need r in
        let acc' := acc ++ c in
        let need' := need - length c in
        match e with
        | None => read_at_least f need' acc' r'
        | Some e =>
            match need' with
            | 0 => (acc', SFull, r')
            | _ => (acc', match e with
                          | REOF => if is_nil acc' then SEOF else SUnexpectedEOF
                          | ROther => SOther
                          end, r')
            end
        end
    end
  end.

(** every call of Read either uses up an answer or completes the request *)
Definition read_full (n : nat) (r : reader) : bytes * status * reader :=
  read_at_least (length (evs r) + 2) n [] r.

(** the bytes a reader is going to supply *)
Fixpoint content_evs (l : list event) : bytes :=
  match l with
  | [] => []
  | EData c :: t => c ++ content_evs t
  | EStall :: t => content_evs t
  end.
Definition content (r : reader) : bytes := content_evs (evs r).

(** *bytes.Reader over [b]: everything at once, io.EOF on the call after *)
Definition plain (b : bytes) (e : rerr) : reader := mkReader [EData b] e false.

(** A decoder that touches its reader through io.ReadFull only: it asks for [n] bytes, looks at what it got and at
    the error, and goes on - or returns.  ([n] may depend on everything read so far: a length field.) *)
Inductive prog (A : Type) :=
| Ret (a : A)
| ReadFull (n : nat) (k : bytes -> status -> prog A).
Arguments Ret {A} a.
Arguments ReadFull {A} n k.

Fixpoint run {A} (p : prog A) (r : reader) : A * reader :=
  match p with
  | Ret a => (a, r)
  | ReadFull n k => let '(got, st, r') := read_full n r in run (k got st) r'
  end.
