(** Model of go-bt's size and fee accounting:
    tx.go (Size, SizeWithTypes, EstimateSize, EstimateSizeWithTypes, estimatedFinalTx, IsFeePaidEnough,
    EstimateIsFeePaidEnough, EstimateFeesPaid, feesPaid, estimateDeficit), fees.go (FeeQuote.Fee),
    txinput.go / txoutput.go (TotalInputSatoshis, TotalOutputSatoshis), bscript/script.go (IsData, IsP2PKH,
    IsP2PKHInscription), bscript/oppushdata.go (DecodeParts, PushDataPrefix), bscript/unlockingscript.go
    (NewP2PKHUnlockingScript) and, as the specification of what the library's signer emits, the DER
    serialisation of go-bk's bec.Signature.Serialise.  uint64 arithmetic wraps explicitly ([mod two64]). *)
From Coq Require Import List NArith Lia Bool.
From Coq Require Import Strings.Byte.
From GoBT Require Import lib.Bytes lib.Parse lib.VarInt model.Tx gen.Consts spec.FeeSpec.
Import ListNotations.
Local Open Scope N_scope.
Local Open Scope bool_scope.

(** ** Outcomes.  [FFatal]: log.Fatal inside Tx.Clone (process exit); [FPanic]: a Go run-time panic
    (integer division by zero, index out of range). *)
Inductive err :=
| ErrEmptyPreviousTxScript | ErrUnsupportedScript | ErrFeeTypeNotFound | ErrInsufficientInputs
| ErrOutputNoExist | ErrInvalidTxID | ErrInsufficientFunds | ErrSupplier | ErrBadAddress.
Inductive outcome (A : Type) := FOk (a : A) | FErr (e : err) | FFatal | FPanic.
Arguments FOk {A}. Arguments FErr {A}. Arguments FFatal {A}. Arguments FPanic {A}.

Definition obind {A B} (x : outcome A) (f : A -> outcome B) : outcome B :=
  match x with FOk a => f a | FErr e => FErr e | FFatal => FFatal | FPanic => FPanic end.
Notation "'olet' x ':=' e 'in' k" := (obind e (fun x => k)) (at level 200, x pattern, k at level 200).

Definition err_eqb (a b : err) : bool :=
  match a, b with
  | ErrEmptyPreviousTxScript, ErrEmptyPreviousTxScript | ErrUnsupportedScript, ErrUnsupportedScript
  | ErrFeeTypeNotFound, ErrFeeTypeNotFound | ErrInsufficientInputs, ErrInsufficientInputs
  | ErrOutputNoExist, ErrOutputNoExist | ErrInvalidTxID, ErrInvalidTxID
  | ErrInsufficientFunds, ErrInsufficientFunds | ErrSupplier, ErrSupplier | ErrBadAddress, ErrBadAddress => true
  | _, _ => false
  end.

(** ** Script classification *)

(** Script.IsData: starts with OP_RETURN, or with OP_FALSE OP_RETURN *)
Definition is_data (s : bytes) : bool :=
  match s with
  | b0 :: r =>
      byte_eqb b0 x6a ||
      match r with b1 :: _ => byte_eqb b0 x00 && byte_eqb b1 x6a | [] => false end
  | [] => false
  end.

Definition byte_at (s : bytes) (i : nat) : byte := nth i s x00.

(** Script.IsP2PKH *)
Definition is_p2pkh (s : bytes) : bool :=
  Nat.eqb (length s) 25 && byte_eqb (byte_at s 0) x76 && byte_eqb (byte_at s 1) xa9 &&
  byte_eqb (byte_at s 2) x14 && byte_eqb (byte_at s 23) x88 && byte_eqb (byte_at s 24) xac.

(** bscript.DecodeParts; an error ([DErr]) is all IsP2PKHInscription looks at. Fuel = bytes left. *)
Inductive dres := DOk (parts : list bytes) | DErr | DFuel.
Definition dcons (p : bytes) (r : dres) : dres :=
  match r with DOk ps => DOk (p :: ps) | DErr => DErr | DFuel => DFuel end.

Fixpoint decode_parts_fuel (fuel : nat) (b : bytes) : dres :=
  match fuel with
  | O => DFuel
  | S f =>
      match b with
      | [] => DOk []
      | op :: rest =>
          let o := b2n op in
          if o =? 76 then                                   (* OP_PUSHDATA1 *)
            match rest with
            | [] => DErr
            | l :: r2 =>
                let n := b2n l in
                if lenN r2 <? n then DErr
                else dcons (firstn (N.to_nat n) r2) (decode_parts_fuel f (skipn (N.to_nat n) r2))
            end
          else if o =? 77 then                              (* OP_PUSHDATA2 *)
            if Nat.ltb (length rest) 2 then DErr
            else let n := le_dec (firstn 2 rest) in
                 let r2 := skipn 2 rest in
                 if lenN r2 <? n then DErr      (* compare before converting: the claimed length may be 2^32-1 *)
                 else dcons (firstn (N.to_nat n) r2) (decode_parts_fuel f (skipn (N.to_nat n) r2))
          else if o =? 78 then                              (* OP_PUSHDATA4 *)
            if Nat.ltb (length rest) 4 then DErr
            else let n := le_dec (firstn 4 rest) in
                 let r2 := skipn 4 rest in
                 if lenN r2 <? n then DErr      (* compare before converting: the claimed length may be 2^32-1 *)
                 else dcons (firstn (N.to_nat n) r2) (decode_parts_fuel f (skipn (N.to_nat n) r2))
          else if (1 <=? o) && (o <=? 78) then              (* direct push of o bytes *)
            if lenN rest <? o then DErr
            else dcons (firstn (N.to_nat o) rest) (decode_parts_fuel f (skipn (N.to_nat o) rest))
          else dcons [op] (decode_parts_fuel f rest)
      end
  end.
Definition decode_parts (b : bytes) : dres := decode_parts_fuel (S (length b)) b.

Definition part (ps : list bytes) (i : nat) : bytes := nth i ps [].
Definition part_starts (ps : list bytes) (i : nat) (c : byte) : bool :=
  match part ps i with h :: _ => byte_eqb h c | [] => false end.
Definition nonempty (b : bytes) : bool := match b with [] => false | _ => true end.

(** isP2PKHInscriptionHelper *)
Definition is_p2pkh_inscription_parts (ps : list bytes) : bool :=
  if Nat.ltb (length ps) 13 then false
  else if negb (forallb (fun i => nonempty (part ps i)) [0; 1; 3; 4; 5; 6; 8; 10; 12]%nat) then false
  else if Nat.ltb (length (part ps 7)) 3 then false
  else
    let valid :=
      part_starts ps 0 x76 && part_starts ps 1 xa9 && part_starts ps 3 x88 && part_starts ps 4 xac &&
      part_starts ps 5 x00 && part_starts ps 6 x63 &&
      byte_eqb (byte_at (part ps 7) 0) x6f && byte_eqb (byte_at (part ps 7) 1) x72 &&
      byte_eqb (byte_at (part ps 7) 2) x64 &&
      part_starts ps 8 x51 && part_starts ps 10 x00 && part_starts ps 12 x68 in
    if Nat.ltb 13 (length ps) then part_starts ps 13 x6a && valid else valid.

Definition is_p2pkh_inscription (s : bytes) : bool :=
  match decode_parts s with DOk ps => is_p2pkh_inscription_parts ps | _ => false end.

(** the previous scripts estimatedFinalTx knows how to size an unlocking script for *)
Definition supported (s : bytes) : bool := is_p2pkh s || is_p2pkh_inscription s.

(** ** Sizes *)
Record txsize := mkSize { sz_total : N; sz_std : N; sz_data : N }.

Definition tx_size (t : tx) : N := lenN (tx_bytes false t).

(** script bytes of the data-carrier outputs *)
Definition data_len (outs : list output) : N :=
  fold_left (fun a o => if is_data (out_script o) then a + lenN (out_script o) else a) outs 0.

(** Tx.SizeWithTypes *)
Definition size_with_types (t : tx) : txsize :=
  let tot := tx_size t in
  let d := data_len (tx_outs t) in
  mkSize tot (tot - d) d.

(** ** Totals (uint64 accumulators) *)
Definition add64 (a b : N) : N := (a + b) mod two64.
Definition total_in (t : tx) : N := fold_left (fun a i => add64 a (in_sats i)) (tx_ins t) 0.
Definition total_out (t : tx) : N := fold_left (fun a o => add64 a (out_sats o)) (tx_outs t) 0.

(** ** Quotes.  A fee unit is a [rate] (FeeUnit.Satoshis, FeeUnit.Bytes, already converted to uint64);
    a quote may lack a fee type (FeeQuote.Fee then returns ErrFeeTypeNotFound). *)
Record quote := mkQuote { q_std : option rate; q_data : option rate }.

Definition get_fee (o : option rate) : outcome rate :=
  match o with Some f => FOk f | None => FErr ErrFeeTypeNotFound end.

(** bytes * Satoshis / Bytes in uint64; a zero denominator is Go's integer-divide-by-zero panic *)
Definition fee_of (n : N) (f : rate) : outcome N :=
  if r_bytes f =? 0 then FPanic else FOk (((n * r_sat f) mod two64) / r_bytes f).

Record txfees := mkFees { fee_total : N; fee_std : N; fee_data : N }.

(** Tx.feesPaid *)
Definition fees_paid (sz : txsize) (q : quote) : outcome txfees :=
  olet sf := get_fee (q_std q) in
  olet df := get_fee (q_data q) in
  olet s := fee_of (sz_std sz) sf in
  olet d := fee_of (sz_data sz) df in
  FOk (mkFees (add64 s d) s d).

(** ** estimatedFinalTx: Clone, then every input must carry a supported previous script (first offender
    in input order decides the error); unsigned inputs get the dummy unlocking script *)
Definition unsigned (i : input) : bool := match in_unlock i with [] => true | _ => false end.
Definition with_unlock (i : input) (u : bytes) : input :=
  mkInput (in_txid i) (in_vout i) u (in_seq i) (in_sats i) (in_script i).

Fixpoint fill_dummy (ins : list input) : outcome (list input) :=
  match ins with
  | [] => FOk []
  | i :: r =>
      match in_script i with
      | None => FErr ErrEmptyPreviousTxScript
      | Some s =>
          if negb (supported s) then FErr ErrUnsupportedScript
          else
            let i' := if unsigned i then with_unlock i dummy_unlocking_script else i in
            olet r' := fill_dummy r in FOk (i' :: r')
      end
  end.

Definition set_ins (t : tx) (ins : list input) : tx := mkTx (tx_version t) ins (tx_outs t) (tx_lock t).

Definition estimated_final_tx (t : tx) : outcome tx :=
  match clone t with
  | ROk c => olet ins := fill_dummy (tx_ins c) in FOk (set_ins c ins)
  | _ => FFatal
  end.

(** Tx.EstimateSize / EstimateSizeWithTypes / EstimateFeesPaid *)
Definition estimate_size (t : tx) : outcome N := olet te := estimated_final_tx t in FOk (tx_size te).
Definition estimate_size_with_types (t : tx) : outcome txsize :=
  olet te := estimated_final_tx t in FOk (size_with_types te).
Definition estimate_fees_paid (t : tx) (q : quote) : outcome txfees :=
  olet sz := estimate_size_with_types t in fees_paid sz q.

(** Tx.IsFeePaidEnough / EstimateIsFeePaidEnough *)
Definition is_fee_paid_enough (t : tx) (q : quote) : outcome bool :=
  olet f := fees_paid (size_with_types t) q in
  let i := total_in t in
  let o := total_out t in
  if i <? o then FOk false else FOk (fee_total f <=? i - o).
Definition estimate_is_fee_paid_enough (t : tx) (q : quote) : outcome bool :=
  olet te := estimated_final_tx t in is_fee_paid_enough te q.

(** Tx.estimateDeficit *)
Definition estimate_deficit (t : tx) (q : quote) : outcome N :=
  let i := total_in t in
  let o := total_out t in
  olet f := estimate_fees_paid t q in
  let need := add64 o (fee_total f) in
  if need <? i then FOk 0 else FOk (need - i).

(** ** What the library's P2PKH signer produces *)

(** bscript.PushDataPrefix (error above 2^32-1 bytes: not reachable for the sizes below) *)
Definition push_prefix (d : bytes) : bytes :=
  let l := lenN d in
  if l <=? 75 then [n2b l]
  else if l <=? 255 then [x4c; n2b l]
  else if l <=? 65535 then x4d :: le_enc 2 l
  else x4e :: le_enc 4 l.
Definition push_data (d : bytes) : bytes := push_prefix d ++ d.

(** bscript.NewP2PKHUnlockingScript: push (DER signature ++ hash type), push public key *)
Definition p2pkh_unlocking (pk sig : bytes) (flag : byte) : bytes :=
  push_data (sig ++ [flag]) ++ push_data pk.

(** big.Int.Bytes: minimal big-endian bytes (empty for 0) *)
Definition be_min (v : N) : bytes := be_enc (N.to_nat ((N.size v + 7) / 8)) v.

(** go-bk canonicalizeInt: at least one byte; a leading zero when the top bit is set *)
Definition canonicalize_int (v : N) : bytes :=
  let b := match be_min v with [] => [x00] | b => b end in
  match b with
  | h :: _ => if 128 <=? b2n h then x00 :: b else b
  | [] => b
  end.

(** DER: 0x30 len 0x02 len(r) r 0x02 len(s) s *)
Definition der (r s : N) : bytes :=
  let rb := canonicalize_int r in
  let sb := canonicalize_int s in
  x30 :: n2b (4 + lenN rb + lenN sb) :: x02 :: n2b (lenN rb) :: rb ++ x02 :: n2b (lenN sb) :: sb.

Definition secp256k1_n : N := 115792089237316195423570985008687907852837564279074904382605163141518161494337.
Definition half_order : N := secp256k1_n / 2.

(** bec.Signature.Serialise: low-S normalisation, then DER *)
Definition serialise (r s : N) : bytes := der r (if half_order <? s then secp256k1_n - s else s).

(** ** Hypotheses of the theorems, as booleans the correspondence evaluates on every generated case *)
Definition bytes_wf (s : bytes) : bool := lenN s <? two64.
Definition wf_inputb (i : input) : bool :=
  Nat.eqb (length (in_txid i)) 32 && (in_vout i <? two32) && (in_seq i <? two32) && (in_sats i <? two64) &&
  bytes_wf (in_unlock i) && match in_script i with Some s => bytes_wf s | None => true end.
Definition wf_outputb (o : output) : bool := (out_sats o <? two64) && bytes_wf (out_script o).
Definition wf_txb (t : tx) : bool :=
  (tx_version t <? two32) && (tx_lock t <? two32) && forallb wf_inputb (tx_ins t) &&
  forallb wf_outputb (tx_outs t) && (N.of_nat (length (tx_ins t)) <? two64) &&
  (N.of_nat (length (tx_outs t)) <? two64).
Definition ambiguousb (t : tx) : bool :=
  match tx_ins t, tx_outs t with
  | [], [] => be_dec (le_enc 4 (tx_lock t)) =? 239
  | _, _ => false
  end.

Definition sum_in (t : tx) : N := fold_left (fun a i => a + in_sats i) (tx_ins t) 0.
Definition sum_out (t : tx) : N := fold_left (fun a o => a + out_sats o) (tx_outs t) 0.
Definition sat_of (o : option rate) : N := match o with Some f => r_sat f | None => 0 end.

(** an upper bound of every byte count the fee code multiplies: the serialised size, a dummy unlocking
    script for every input, and [extra] bytes for an output about to be added *)
Definition size_bound (t : tx) (extra : N) : N :=
  tx_size t + (lenN dummy_unlocking_script + 8) * N.of_nat (length (tx_ins t)) + extra.

(** no uint64 operation of the fee / change / funding code wraps on (t, q) *)
Definition no_overflow (q : quote) (t : tx) (extra : N) : bool :=
  (sum_in t <? two64) && (sum_out t <? two64) &&
  (N.of_nat (length (tx_outs t)) + 1 <? two64) &&
  (size_bound t extra <? two64) &&
  (size_bound t extra * sat_of (q_std q) + size_bound t extra * sat_of (q_data q) + sum_out t <? two64).
