(** Model of go-bt's transaction wire codec: tx.go (ReadFrom, toBytesHelper, NewTxFromBytes,
    NewTxFromStream, Txs.ReadFrom, TxID, Clone), input.go (readFrom, Bytes), output.go (ReadFrom, Bytes). *)
From Coq Require Import List NArith Lia.
From Coq Require Import Strings.Byte.
From GoBT Require Import lib.Bytes lib.Parse lib.VarInt lib.Sha256.
Import ListNotations.
Local Open Scope N_scope.

Record input := mkInput {
  in_txid : bytes;                 (* previousTxID as stored: display order (reverse of wire) *)
  in_vout : N;                     (* PreviousTxOutIndex, uint32 *)
  in_unlock : bytes;               (* UnlockingScript (nil and empty are the same bytes) *)
  in_seq : N;                      (* SequenceNumber, uint32 *)
  in_sats : N;                     (* PreviousTxSatoshis, uint64 *)
  in_script : option bytes         (* PreviousTxScript, nil = None *)
}.
Record output := mkOutput { out_sats : N; out_script : bytes }.
Record tx := mkTx { tx_version : N; tx_ins : list input; tx_outs : list output; tx_lock : N }.

(** ** Serialisation *)
Definition script_bytes (s : bytes) : bytes := varint_bytes (lenN s) ++ s.

Definition input_bytes (ext : bool) (i : input) : bytes :=
  rev (in_txid i) ++ le_enc 4 (in_vout i) ++ script_bytes (in_unlock i) ++ le_enc 4 (in_seq i) ++
  (if ext then le_enc 8 (in_sats i) ++
     match in_script i with Some s => script_bytes s | None => [x00] end
   else []).

Definition output_bytes (o : output) : bytes := le_enc 8 (out_sats o) ++ script_bytes (out_script o).

Definition ext_marker : bytes := [x00; x00; x00; x00; x00; xef].

Definition tx_bytes (ext : bool) (t : tx) : bytes :=
  le_enc 4 (tx_version t) ++ (if ext then ext_marker else []) ++
  varint_bytes (N.of_nat (length (tx_ins t))) ++ concat (map (input_bytes ext) (tx_ins t)) ++
  varint_bytes (N.of_nat (length (tx_outs t))) ++ concat (map output_bytes (tx_outs t)) ++
  le_enc 4 (tx_lock t).

Definition txid (t : tx) : bytes := rev (sha256d (tx_bytes false t)).

(** ** Parsing.  Every parser also returns whether all varints it read were minimal. *)
Definition read_script : parser (bytes * bool) := fun bs =>
  plet lm := read_varint on bs as r in
  plet s := read_exact (N.to_nat (fst lm)) on r as r2 in pret (s, snd lm) r2.

(** guard: Go does make([]byte, l) / reads l bytes; a length above the remaining input is a short read.
    [N.to_nat] on a huge claimed length must not be evaluated: compare first. *)
Definition read_script_safe : parser (bytes * bool) := fun bs =>
  plet lm := read_varint on bs as r in
  if lenN r <? fst lm then PErr (lenN r)
  else plet s := read_exact (N.to_nat (fst lm)) on r as r2 in pret (s, snd lm) r2.

Definition read_input (ext : bool) : parser (input * bool) := fun bs =>
  plet txidw := read_exact 32 on bs as r1 in
  plet vout := read_exact 4 on r1 as r2 in
  plet sm := read_script_safe on r2 as r3 in
  plet sq := read_exact 4 on r3 as r4 in
  if ext then
    plet sats := read_exact 8 on r4 as r5 in
    plet pm := read_script_safe on r5 as r6 in
    pret (mkInput (rev txidw) (le_dec vout) (fst sm) (le_dec sq) (le_dec sats) (Some (fst pm)),
          snd sm && snd pm)%bool r6
  else pret (mkInput (rev txidw) (le_dec vout) (fst sm) (le_dec sq) 0 None, snd sm) r4.

Definition read_output : parser (output * bool) := fun bs =>
  plet sats := read_exact 8 on bs as r1 in
  plet sm := read_script_safe on r1 as r2 in
  pret (mkOutput (le_dec sats) (fst sm), snd sm) r2.

(** read [count] items; recursion on fuel (never on the attacker-controlled count) *)
Fixpoint read_many {A} (fuel : nat) (p : parser (A * bool)) (count : N) : parser (list A * bool) :=
  fun bs =>
  if count =? 0 then pret ([], true) bs else
  match fuel with
  | O => PFuel
  | S f =>
      plet xm := p on bs as r in
      plet rest := read_many f p (count - 1) on r as r2 in
      pret (fst xm :: fst rest, snd xm && snd rest)%bool r2
  end.

Record parsed := mkParsed { p_tx : tx; p_ext : bool; p_min : bool }.

(** Tx.ReadFrom, second half: inputs, (re-read) output count, outputs, locktime *)
Definition read_tx_body (fuel : nat) (ver : bytes) (ext : bool) (icount : N) (ocount_known : option N)
    (m0 : bool) : parser parsed := fun r =>
  plet ins := read_many fuel (read_input ext) icount on r as ra in
  plet oc := (match ocount_known with
              | Some c => pret (c, true)
              | None => read_varint end) on ra as rb in
  plet outs := read_many fuel read_output (fst oc) on rb as rc in
  plet lt := read_exact 4 on rc as rd in
  pret (mkParsed (mkTx (le_dec ver) (fst ins) (fst outs) (le_dec lt)) ext
          (m0 && snd ins && snd oc && snd outs)%bool) rd.

(** Tx.ReadFrom *)
Definition read_tx : parser parsed := fun bs =>
  let fuel := S (length bs) in
  plet ver := read_exact 4 on bs as r1 in
  plet ic := read_varint on r1 as r2 in
  if fst ic =? 0 then
    plet oc := read_varint on r2 as r3 in
    if fst oc =? 0 then
      plet lt := read_exact 4 on r3 as r4 in
      if be_dec lt =? 239 then
        plet ic2 := read_varint on r4 as r5 in
        read_tx_body fuel ver true (fst ic2) None (snd ic && snd oc && snd ic2)%bool r5
      else pret (mkParsed (mkTx (le_dec ver) [] [] (le_dec lt)) false (snd ic && snd oc)%bool) r4
    else read_tx_body fuel ver false 0 (Some (fst oc)) (snd ic && snd oc)%bool r3
  else read_tx_body fuel ver false (fst ic) None (snd ic) r2.

(** NewTxFromStream: tx and bytes used; NewTxFromBytes: additionally rejects trailing bytes *)
Inductive result (A : Type) := ROk (a : A) | RErr | RFuel.
Arguments ROk {A}. Arguments RErr {A}. Arguments RFuel {A}.

Definition tx_from_bytes (bs : bytes) : result parsed :=
  match read_tx bs with
  | POk p n rest => if n =? lenN bs then ROk p else RErr
  | PErr _ => RErr
  | PFuel => RFuel
  end.

(** Txs.ReadFrom: varint count, then that many transactions *)
Definition read_txs : parser (list parsed * bool) := fun bs =>
  plet c := read_varint on bs as r in
  plet l := read_many (S (length bs)) (fun b => pmap (fun p => (p, p_min p)) (read_tx b)) (fst c) on r as r2 in
  pret (fst l, snd c && snd l)%bool r2.

Definition txs_bytes (l : list (bool * tx)) : bytes :=
  varint_bytes (N.of_nat (length l)) ++ concat (map (fun et => tx_bytes (fst et) (snd et)) l).

(** what a standard-format round trip preserves *)
Definition strip_input (i : input) : input :=
  mkInput (in_txid i) (in_vout i) (in_unlock i) (in_seq i) 0 None.
Definition strip_tx (t : tx) : tx :=
  mkTx (tx_version t) (map strip_input (tx_ins t)) (tx_outs t) (tx_lock t).
(** extended format turns a nil previous script into an empty one *)
Definition norm_input (i : input) : input :=
  mkInput (in_txid i) (in_vout i) (in_unlock i) (in_seq i) (in_sats i)
          (Some (match in_script i with Some s => s | None => [] end)).
Definition norm_tx (t : tx) : tx :=
  mkTx (tx_version t) (map norm_input (tx_ins t)) (tx_outs t) (tx_lock t).

(** Tx.Clone: re-parse the standard bytes, then copy the previous-output fields across *)
Definition clone (t : tx) : result tx :=
  match tx_from_bytes (tx_bytes false t) with
  | ROk p =>
      ROk (mkTx (tx_version (p_tx p))
             (map (fun ab : input * input =>
                     mkInput (in_txid (fst ab)) (in_vout (fst ab)) (in_unlock (fst ab)) (in_seq (fst ab))
                             (in_sats (snd ab)) (in_script (snd ab)))
                  (combine (tx_ins (p_tx p)) (tx_ins t)))
             (tx_outs (p_tx p)) (tx_lock (p_tx p)))
  | RErr => RErr
  | RFuel => RFuel
  end.

(** well-formedness: field ranges of the Go types; 32-byte txids *)
Definition wf_script (s : bytes) : Prop := lenN s < two64.
Definition wf_input (i : input) : Prop :=
  length (in_txid i) = 32%nat /\ in_vout i < two32 /\ in_seq i < two32 /\ in_sats i < two64 /\
  wf_script (in_unlock i) /\ match in_script i with Some s => wf_script s | None => True end.
Definition wf_output (o : output) : Prop := out_sats o < two64 /\ wf_script (out_script o).
Definition wf_tx (t : tx) : Prop :=
  tx_version t < two32 /\ tx_lock t < two32 /\ Forall wf_input (tx_ins t) /\ Forall wf_output (tx_outs t) /\
  N.of_nat (length (tx_ins t)) < two64 /\ N.of_nat (length (tx_outs t)) < two64.

(** the one shape the extended-format marker makes ambiguous *)
Definition ambiguous (t : tx) : Prop :=
  tx_ins t = [] /\ tx_outs t = [] /\ be_dec (le_enc 4 (tx_lock t)) = 239.
