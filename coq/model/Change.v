(** Model of txchange.go as it is now in /repo (after `fix: cost the change output by its real size`):
    Tx.change, Change, ChangeToAddress, ChangeToExistingOutput; varint.go UpperLimitInc (lib/VarInt.v).
    A call is a function from the transaction (and quote, destination) to the error result and the
    transaction afterwards, so "pre-existing outputs are untouched" is a statement about values. *)
From Coq Require Import List NArith ZArith Lia Bool.
From Coq Require Import Strings.Byte.
From GoBT Require Import lib.Bytes lib.VarInt model.Tx gen.Consts spec.FeeSpec model.Fees.
Import ListNotations.
Local Open Scope N_scope.
Local Open Scope bool_scope.

Definition add_output (t : tx) (o : output) : tx :=
  mkTx (tx_version t) (tx_ins t) (tx_outs t ++ [o]) (tx_lock t).

(** Tx.change(f, output): [dest = Some s] is a changeOutput{lockingScript: s, newOutput: true},
    [dest = None] is the nil changeOutput of ChangeToExistingOutput.
    Result: (available, hasChange, transaction afterwards). *)
Definition change (t : tx) (q : quote) (dest : option bytes) : outcome (N * bool * tx) :=
  let input_amount := total_in t in
  let output_amount := total_out t in
  if input_amount <? output_amount then FErr ErrInsufficientInputs else
  let available := input_amount - output_amount in
  olet size := estimate_size_with_types t in
  olet std_fee := get_fee (q_std q) in
  olet data_fee := get_fee (q_data q) in
  let var_int_upper := upper_limit_inc (N.of_nat (length (tx_outs t))) in
  if (var_int_upper =? -1)%Z then FOk (0, false, t) else
  let '(std_bytes, data_bytes) :=
    match dest with
    | Some s =>
        (* the new output is satoshis(8) + script length varint + script, and it can push the
           output count varint over to its next size *)
        let script_len := lenN s in
        let std := add64 (sz_std size) (add64 (add64 8 (varint_len script_len)) (Z.to_N var_int_upper)) in
        if is_data s then (std, add64 (sz_data size) script_len)
        else (add64 std script_len, sz_data size)
    | None => (sz_std size, sz_data size)
    end in
  olet s_fees := fee_of std_bytes std_fee in
  olet d_fees := fee_of data_bytes data_fee in
  let tx_fees := add64 s_fees d_fees in
  (* not enough to add change, no change to add *)
  if (available <=? tx_fees) || (available - tx_fees <=? dust_limit) then FOk (0, false, t) else
  let available := available - tx_fees in
  match dest with
  | Some s => FOk (available, true, add_output t (mkOutput available s))
  | None => FOk (available, true, t)
  end.

(** Tx.Change(s, f): error result (has-change is kept for the theorems) and the transaction afterwards;
    on error the transaction is the one passed in *)
Definition change_new (t : tx) (q : quote) (s : bytes) : outcome bool * tx :=
  match change t q (Some s) with
  | FOk (_, has, t') => (FOk has, t')
  | FErr e => (FErr e, t)
  | FFatal => (FFatal, t)
  | FPanic => (FPanic, t)
  end.

(** Tx.ChangeToAddress: [decoded] is what bscript.NewP2PKHFromAddress(addr) yields (None = error) *)
Definition change_to_address (t : tx) (q : quote) (decoded : option bytes) : outcome bool * tx :=
  match decoded with
  | None => (FErr ErrBadAddress, t)
  | Some s => change_new t q s
  end.

(** int(index) for a Go uint *)
Definition uint_to_int (i : N) : Z := if i <? 2 ^ 63 then Z.of_N i else (Z.of_N i - 2 ^ 64)%Z.

Fixpoint add_sats_at (outs : list output) (i : nat) (v : N) : list output :=
  match outs, i with
  | [], _ => []
  | o :: r, O => mkOutput (add64 (out_sats o) v) (out_script o) :: r
  | o :: r, S k => o :: add_sats_at r k v
  end.

(** Tx.ChangeToExistingOutput(index, f).  An index of 2^63 or more passes the `int(index) > count-1`
    guard as a negative number and then indexes out of range: a panic, when there is change to add. *)
Definition change_existing (t : tx) (q : quote) (index : N) : outcome bool * tx :=
  if (uint_to_int index >? Z.of_nat (length (tx_outs t)) - 1)%Z then (FErr ErrOutputNoExist, t) else
  match change t q None with
  | FOk (available, has, _) =>
      if has then
        if index <? N.of_nat (length (tx_outs t))
        then (FOk true, mkTx (tx_version t) (tx_ins t) (add_sats_at (tx_outs t) (N.to_nat index) available) (tx_lock t))
        else (FPanic, t)
      else (FOk false, t)
  | FErr e => (FErr e, t)
  | FFatal => (FFatal, t)
  | FPanic => (FPanic, t)
  end.
