(** C18 — script objects shared between DIFFERENT transactions (additive to model/Locks.v).

    A wallet or an indexer that interns scripts hands one *bscript.Script to every output with that script; the
    transactions spending those outputs are different transactions, validated by different goroutines of one engine.
    The parser slices the script, so a constant pushed by the script is, on the interpreter's stack, the caller's
    script memory itself. In the machine of model/Locks.v such a script object is a location every thread may READ and
    no thread may write: a [TGlobal] location that is not among the written package-level names [G] (this is what
    [readable] / [writable] say about [TGlobal]).

    This file names that location and the shape of code that breaks the abstraction while staying invisible to every
    sequential test: an opcode that rearranges the operand it popped IN PLACE, uses it, and puts the old bytes back
    ([restoring]; e.g. a number decoder that reverses the little-endian operand for a big-endian reader and reverses
    it again). Alone it leaves the script as it found it and reads what a copy would have given; beside a second
    validation that reads the same script object it is a data race, and the other validation can read the
    rearranged bytes - or anything at all. proofs/SharedScriptProofs.v proves exactly that, and that [confined]
    (the hypothesis of C18_concurrent_equals_sequential) rejects the shape.

    [read_only_ok] is the run-time side: the harness executes the engine with every script it hands over stored
    in read-only memory pages; a write into a script, undone or not, is a memory fault it counts. *)
From Coq Require Import String List NArith Bool Arith.
From GoBT Require Import model.Locks.
Import ListNotations.

Definition script_obj (k : nat) : obj := (TGlobal, k).
Definition script_bytes : string := "caller.script".
Definition script_loc (k : nat) : loc := (script_obj k, script_bytes).

(** rearrange the operand in place ([tmp]), read it, put the original bytes back ([orig]) *)
Definition restoring (k : nat) (tmp orig : value) : list mact :=
  [GWBegin (script_obj k) script_bytes; GWEnd (script_obj k) script_bytes tmp;
   GRead (script_obj k) script_bytes;
   GWBegin (script_obj k) script_bytes; GWEnd (script_obj k) script_bytes orig].

(** another validation whose script pushes the same object's constant and reads it *)
Definition reading (k : nat) : list mact := [GRead (script_obj k) script_bytes].

(** two validations: thread 0 and thread 1 *)
Definition two (A B : list mact) (t : tid) : list mact :=
  match t with 0 => A | 1 => B | _ => [] end.

(** what the read-only-memory probe of the harness reports: [programs] executions, [faults] of which wrote into
    a script they were handed *)
Definition read_only_ok (programs faults : N) : bool := N.eqb faults 0 && N.ltb 0 programs.
