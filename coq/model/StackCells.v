(** C08 — the storage of a stack ITSELF (bscript/interpreter/stack.go: the field [stk [][]byte]) as Go slices of cells.

    model/Heap.v models what the ITEMS of a stack share (the bytes).  This file models what the STACK shares: the
    backing array of item headers that [stk] is a view of.  It matters when the items of a stack come from the
    caller - interpreter.WithState: thread.SetState receives State.DataStack / State.AltStack, slices the caller
    (a debugger that keeps the frames of a run) goes on holding.

    Exactly two functions of the package write [stk] (stack.go):

      PushByteArray   s.stk = append(s.stk, so)
      nipN(idx)       idx = 0:        s.stk = s.stk[:sz-1]
                      idx = sz-1:     s1 := make([][]byte, sz-1); copy(s1, s.stk[1:]); s.stk = s1
                      otherwise:      s1 := s.stk[sz-idx : sz]; s.stk = s.stk[:sz-idx-1]; s.stk = append(s.stk, s1...)

    (every other stack method - DropN, DupN, RotN, SwapN, OverN, PickN, RollN, Tuck, the Pop* / Push* family - goes
    through these two).  Go's append writes IN PLACE when the capacity allows and moves to a new array otherwise;
    the middle branch of nipN always writes in place.

    SetState builds the running stack with setStack: DropN(Depth) and one PushByteArray per item of the frame,
    starting from the nil slice of newStack.  [set_state_push] below.  The alternative - adopting the caller's slice,
    [set_state_adopt] - makes the caller's array the array those two functions write. *)
From Coq Require Import List Arith Lia Bool.
Import ListNotations.

Section Cells.
Variable A : Type.
Variable dflt : A.     (* what a cell of a new array holds beyond the copied items *)
Variable grow : nat -> nat.   (* the capacity append would like for a slice of capacity c (any policy); it takes at
                                 least what the new length needs *)

Definition mem := list (list A).
Record slice := mkS { s_arr : nat; s_len : nat; s_cap : nat }.   (* offset 0: stk is always a prefix of its array *)

Fixpoint upd {X} (l : list X) (i : nat) (x : X) : list X :=
  match l, i with
  | [], _ => []
  | _ :: t, O => x :: t
  | h :: t, S i' => h :: upd t i' x
  end.

(** copy(dst[i:], xs) inside one array *)
Fixpoint upd_many (l : list A) (i : nat) (xs : list A) : list A :=
  match xs with
  | [] => l
  | x :: t => upd_many (upd l i x) (S i) t
  end.

Definition arr_of (m : mem) (a : nat) : list A := nth a m [].
Definition view (m : mem) (s : slice) : list A := firstn (s_len s) (arr_of m (s_arr s)).

(** append(s, x) *)
Definition go_append (m : mem) (s : slice) (x : A) : mem * slice :=
  if s_len s <? s_cap s
  then (upd m (s_arr s) (upd (arr_of m (s_arr s)) (s_len s) x), mkS (s_arr s) (S (s_len s)) (s_cap s))
  else let c := Nat.max (grow (s_cap s)) (S (s_len s)) in
       (m ++ [view m s ++ x :: repeat dflt (c - S (s_len s))], mkS (length m) (S (s_len s)) c).

(** nipN(idx); an invalid index is an error that leaves the stack as it is *)
Definition go_nip (m : mem) (s : slice) (idx : nat) : mem * slice :=
  let sz := s_len s in
  if sz <=? idx then (m, s)
  else if idx =? 0 then (m, mkS (s_arr s) (sz - 1) (s_cap s))
  else if idx =? sz - 1 then (m ++ [skipn 1 (view m s)], mkS (length m) (sz - 1) (sz - 1))
  else let s1 := firstn idx (skipn (sz - idx) (arr_of m (s_arr s))) in   (* read before the move: memmove *)
       (upd m (s_arr s) (upd_many (arr_of m (s_arr s)) (sz - idx - 1) s1), mkS (s_arr s) (sz - 1) (s_cap s)).

Inductive sop := SPush (x : A) | SNip (idx : nat).

Definition step (o : sop) (m : mem) (s : slice) : mem * slice :=
  match o with SPush x => go_append m s x | SNip i => go_nip m s i end.

Fixpoint run (ops : list sop) (m : mem) (s : slice) : mem * slice :=
  match ops with
  | [] => (m, s)
  | o :: t => let '(m', s') := step o m s in run t m' s'
  end.

(** newStack: the nil slice (no array yet; modelled as a new array of no cells) *)
Definition new_stack (m : mem) : mem * slice := (m ++ [[]], mkS (length m) 0 0).

(** setStack on a new stack: one PushByteArray per item *)
Definition set_state_push (m : mem) (items : list A) : mem * slice :=
  let '(m0, s0) := new_stack m in run (map SPush items) m0 s0.

(** the alternative: the stack IS the caller's slice *)
Definition set_state_adopt (m : mem) (frame : slice) : mem * slice := (m, frame).

(** what the two functions mean on the list of items *)
Definition pure_op (v : list A) (o : sop) : list A :=
  match o with
  | SPush x => v ++ [x]
  | SNip idx => if length v <=? idx then v else firstn (length v - idx - 1) v ++ skipn (length v - idx) v
  end.

(** a slice whose array exists, is as long as the capacity says, and holds the slice *)
Definition wf (m : mem) (s : slice) : Prop :=
  s_arr s < length m /\ length (arr_of m (s_arr s)) = s_cap s /\ s_len s <= s_cap s.

End Cells.
