(** Whole-run invariants: a property of machine states that every script starts with, that one instruction keeps and
    that the script changes keep holds of EVERY state of a whole run ([Debug.engine_states]: the states current at
    all callbacks, from BeforeExecute to AfterSuccess / AfterError, across script changes).
    Instances: the operation count (C05), the else-stack invariant (C05). *)
From Coq Require Import List NArith ZArith Lia Bool.
From Coq Require Import Strings.Byte.
From GoBT Require Import lib.Bytes model.Tx model.ScriptNum model.Interp model.CheckSig model.Debug
  proofs.InterpTotal proofs.DebugProofs proofs.DebugWith proofs.OpCount proofs.VerifyRefine proofs.InterpLimits
  proofs.CheckSigProofs proofs.MultisigProofs.
Import ListNotations.
Local Open Scope Z_scope.

Section Inv.
  Variable so : sigops.
  Variable c : ctx.
  Variable P : st -> Prop.
  Hypothesis Hstep : forall p idx s s', P s ->
    (execute_opcode so c p idx s = OOk s' \/ execute_opcode so c p idx s = OReturn s') -> P s'.
  Hypothesis Hals : forall s, P s -> P (set_als s []).
  Hypothesis Hds : forall s d, P s -> P (set_ds s d).
  Hypothesis Hshift : forall s next, P s -> P (shift_script s next).
  Hypothesis Hinit : forall script, P (init_st script).

  Definition FP (l : list (ev * st)) : Prop := Forall (fun es => P (snd es)) l.

  Lemma FP_rec e s l : FP l -> P s -> FP (rec e s l).
  Proof. intros Hl Hs. unfold rec, record. apply Forall_app. split; [exact Hl|]. constructor; [exact Hs|constructor]. Qed.

  Lemma P_after_cec final s : P s -> P (after_cec c final s).
  Proof.
    intros Hs. unfold after_cec. destruct (ds s) as [|t r]; [exact Hs|].
    destruct (final && has_flag c F_CLEANSTACK && _); [exact Hs|apply Hds; exact Hs].
  Qed.
  Lemma P_end_script s s' : end_script s = Some s' -> P s -> P s'.
  Proof. unfold end_script. destruct (cond s); [|discriminate]. intros [= <-]. apply Hals. Qed.

  Lemma run_ops_em_inv : forall ops idx s acc l, FP l -> P s ->
    FP (snd (snd (run_ops_em rec so c ops idx s acc l))) /\ P (fst (snd (run_ops_em rec so c ops idx s acc l))) /\
    match fst (fst (run_ops_em rec so c ops idx s acc l)) with
    | SEnd s' | SReturn s' => P s'
    | SErr | SPanic => True
    end.
  Proof.
    induction ops as [|p rest IH]; intros idx s acc l Hl Hs; [cbn; auto|].
    cbn [run_ops_em].
    pose proof (Hstep p idx s) as Hp.
    destruct (execute_opcode so c p idx s) as [s'|s'| |]; cbn [fst snd].
    - assert (Hs' : P s') by (apply Hp; auto).
      destruct (max_stack c <? lenZ (ds s') + lenZ (als s')); cbn [fst snd];
        [repeat split; auto; repeat apply FP_rec; auto|].
      destruct rest as [|q rest2]; cbn [fst snd]; [repeat split; auto; repeat apply FP_rec; auto|].
      apply IH; [repeat apply FP_rec; auto|exact Hs'].
    - assert (Hs' : P s') by (apply Hp; auto). repeat split; auto; repeat apply FP_rec; auto.
    - repeat split; auto; repeat apply FP_rec; auto.
    - repeat split; auto; repeat apply FP_rec; auto.
  Qed.

  Lemma finish_em_inv s acc l : FP l -> P s -> FP (snd (finish_em rec c s acc l)).
  Proof.
    intros Hl Hs. unfold finish_em. destruct (check_error_condition c true (ds s)); cbn [snd];
      repeat apply FP_rec; auto; apply P_after_cec; exact Hs.
  Qed.
  Lemma err_em_inv s acc l : FP l -> P s -> FP (snd (err_em rec s acc l)).
  Proof. intros Hl Hs. unfold err_em. cbn [snd]. repeat apply FP_rec; auto. Qed.
  Lemma panic_em_inv s acc l : FP l -> P s -> FP (snd (panic_em rec s acc l)).
  Proof. intros Hl Hs. unfold panic_em. cbn [snd]. repeat apply FP_rec; auto. Qed.

  Ltac use_run_ops_inv Hl Hs :=
    match goal with |- context [run_ops_em rec so c ?ops ?i ?s ?acc ?l] =>
      let A := fresh "A" in let B := fresh "B" in let C := fresh "C" in
      assert (A : FP l) by (unfold change_em; repeat apply FP_rec; auto);
      assert (B : P s) by auto;
      destruct (run_ops_em_inv ops i s acc l A B) as (Hl' & Hsl & Hend);
      destruct (run_ops_em rec so c ops i s acc l) as [[e acc'] [sl l']];
      cbn [fst snd] in Hl', Hsl, Hend
    end.

  Lemma run_redeem_em_inv saved s acc l : FP l -> P s -> FP (snd (run_redeem_em rec so c saved s acc l)).
  Proof.
    intros Hl Hs. unfold run_redeem_em.
    assert (Hsh : P (after_cec c false (shift_script s []))) by (apply P_after_cec, Hshift, Hs).
    destruct (negb (check_error_condition c false (ds s))); [apply err_em_inv; auto|].
    destruct saved as [|script below]; [apply panic_em_inv; auto|].
    destruct (parse_script (c_err_on_checksig c) script) as [ops|]; [|apply err_em_inv; auto].
    cbv zeta.
    assert (Hs' : P (set_ds (shift_script s ops) below)) by (apply Hds, Hshift, Hs).
    destruct ops as [|p rest]; [apply finish_em_inv; [apply FP_rec|]; auto|].
    use_run_ops_inv Hl Hs.
    destruct e as [s2|s2| |]; [| |apply err_em_inv; auto|apply panic_em_inv; auto].
    - destruct (end_script s2) as [s3|] eqn:Ee; [|apply err_em_inv; auto].
      pose proof (P_end_script _ _ Ee Hend) as H3.
      apply finish_em_inv; [unfold change_em; repeat apply FP_rec; auto|auto].
    - apply finish_em_inv; [unfold change_em; repeat apply FP_rec; auto|auto].
  Qed.

  Lemma run_lock_em_inv bip16 saved lock s acc l : FP l -> P s ->
    FP (snd (run_lock_em rec so c bip16 saved lock s acc l)).
  Proof.
    intros Hl Hs. unfold run_lock_em. use_run_ops_inv Hl Hs.
    destruct e as [s2|s2| |]; [| |apply err_em_inv; auto|apply panic_em_inv; auto].
    - destruct (end_script s2) as [s3|] eqn:Ee; [|apply err_em_inv; auto].
      pose proof (P_end_script _ _ Ee Hend) as H3. cbv zeta.
      destruct (bip16 && negb (after_genesis c)).
      + apply run_redeem_em_inv; [unfold change_em; repeat apply FP_rec; auto|auto].
      + apply finish_em_inv; [unfold change_em; repeat apply FP_rec; auto|auto].
    - apply finish_em_inv; [unfold change_em; repeat apply FP_rec; auto|auto].
  Qed.

  Lemma execute_em_inv bip16 unlock lock l : FP l -> FP (snd (execute_em rec so c bip16 unlock lock l)).
  Proof.
    intros Hl. unfold execute_em. destruct unlock as [|u urest].
    - destruct lock as [|lo lrest]; [exact Hl|]. apply run_lock_em_inv; [apply FP_rec|]; auto.
    - use_run_ops_inv Hl Hl.
      destruct e as [s1|s1| |]; [| |apply err_em_inv; auto|apply panic_em_inv; auto].
      + destruct (end_script s1) as [s2|] eqn:Ee; [|apply err_em_inv; auto].
        pose proof (P_end_script _ _ Ee Hend) as H2. cbv zeta.
        destruct lock as [|lo lrest]; [apply finish_em_inv|apply run_lock_em_inv];
          try (unfold change_em; repeat apply FP_rec; auto); auto.
      + cbv zeta.
        destruct lock as [|lo lrest]; [apply finish_em_inv|apply run_lock_em_inv];
          try (unfold change_em; repeat apply FP_rec; auto); auto.
  Qed.
End Inv.

(** at engine level, with the context Engine.Execute builds *)
Theorem engine_states_invariant : forall so i (P : st -> Prop),
  (forall p idx s s', P s ->
     (execute_opcode so (engine_ctx i) p idx s = OOk s' \/ execute_opcode so (engine_ctx i) p idx s = OReturn s') -> P s') ->
  (forall s, P s -> P (set_als s [])) -> (forall s d, P s -> P (set_ds s d)) ->
  (forall s next, P s -> P (shift_script s next)) -> (forall script, P (init_st script)) ->
  Forall (fun es => P (snd es)) (engine_states so i).
Proof.
  intros so i P H1 H2 H3 H4 H5. unfold engine_states. fold rec. unfold engine_execute_em.
  fold (engine_ctx i). set (c := engine_ctx i) in *.
  assert (Hnil : FP P []) by constructor.
  destruct (ei_unlock i) as [|ub ur]; destruct (ei_lock i) as [|lb lr]; [exact Hnil| | |];
    (destruct (has_flag c F_CLEANSTACK && negb (has_flag c F_BIP16)); [exact Hnil|];
     destruct ((max_script_size c <? _) || (max_script_size c <? _)); [exact Hnil|];
     match goal with |- context [match parse_script ?a ?b with _ => _ end] => destruct (parse_script a b) as [u|] end;
       [|exact Hnil];
     match goal with |- context [match parse_script ?a ?b with _ => _ end] => destruct (parse_script a b) as [lk|] end;
       [|exact Hnil];
     destruct (has_flag c F_SIGPUSHONLY && _); [exact Hnil|];
     cbv zeta;
     match goal with |- context [if ?b then _ else _] => destruct b end;
       [exact Hnil|]; apply execute_em_inv; auto).
Qed.

(** ** C05: the operation count at every state of a whole run *)
Theorem op_count_bounded_whole_run : forall so i, sigops_counted so ->
  Forall (fun es => nops (snd es) <= max_ops (engine_ctx i)) (engine_states so i).
Proof.
  intros so i Hso. apply (engine_states_invariant so i (fun s => nops s <= max_ops (engine_ctx i))).
  - intros p idx s s' Hs H. exact (proj2 (execute_opcode_counted so _ p idx s Hso s' H Hs)).
  - intros s Hs. exact Hs.
  - intros s d Hs. exact Hs.
  - intros s next _. apply shift_counted.
  - intros script. cbn. pose proof (max_ops_pos (engine_ctx i)). lia.
Qed.

(** ** C05: the else stack is as deep as the condition stack after Genesis and empty before, at every state *)
Theorem else_stack_invariant_whole_run : forall so i, sigops_ok so -> sigops_els_ok so ->
  Forall (fun es => els_inv (engine_ctx i) (snd es)) (engine_states so i).
Proof.
  intros so i Hso Hse. apply (engine_states_invariant so i (els_inv (engine_ctx i))).
  - intros p idx s s' Hs H. exact (execute_opcode_inv so _ p idx s Hso Hse Hs s' H).
  - intros s Hs. exact Hs.
  - intros s d Hs. exact Hs.
  - intros s next Hs. exact Hs.
  - intros script. unfold els_inv. destruct (after_genesis (engine_ctx i)); reflexivity.
Qed.

Print Assumptions op_count_bounded_whole_run.
Print Assumptions else_stack_invariant_whole_run.

(** the two instances of the signature operations *)
Corollary op_count_bounded_whole_run_plain : forall i,
  Forall (fun es => nops (snd es) <= max_ops (engine_ctx i)) (engine_states no_sigops i).
Proof. intros i. apply op_count_bounded_whole_run, no_sigops_counted. Qed.
Corollary op_count_bounded_whole_run_mk : forall orc t n i,
  Forall (fun es => nops (snd es) <= max_ops (engine_ctx i)) (engine_states (mk_sigops orc t n) i).
Proof. intros orc t n i. apply op_count_bounded_whole_run, mk_sigops_counted. Qed.
Corollary else_stack_invariant_whole_run_plain : forall i,
  Forall (fun es => els_inv (engine_ctx i) (snd es)) (engine_states no_sigops i).
Proof. intros i. apply else_stack_invariant_whole_run; [exact no_sigops_ok|exact no_sigops_els_ok]. Qed.
Corollary else_stack_invariant_whole_run_mk : forall orc t n i, tx_ctx_ok t n ->
  Forall (fun es => els_inv (engine_ctx i) (snd es)) (engine_states (mk_sigops orc t n) i).
Proof. intros orc t n i Hok. apply else_stack_invariant_whole_run; [apply sigops_ok_mk; exact Hok|apply sigops_els_ok_mk]. Qed.
