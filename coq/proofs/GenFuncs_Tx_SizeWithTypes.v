(** Tx.SizeWithTypes (tx.go), as printed from the Go source, is [size_with_types] of model/Fees.v.  The Go code computes
    [totBytes - dataLen] in int and converts to uint64; the model subtracts in N: they agree because the data bytes are
    part of the serialisation ([data_le_size]).  Hypothesis beyond the ranges of the Go types: the serialised size
    is below 2^63 -- it is the length of a Go slice. *)
From Coq Require Import List ZArith NArith Bool Lia ZifyN ZifyNat ZifyBool.
From Coq Require Import Strings.Byte.
From GoBT Require Import lib.Bytes lib.VarInt lib.GoSem lib.GoTx gen.Funcs proofs.GenFuncsTac proofs.GenFuncsTxTac model.Tx model.Fees.
From GoBT Require Import proofs.FeesProofs proofs.GenFuncs_Script_IsData proofs.GenFuncs_Tx_Size.
Import ListNotations.
Ltac Zify.zify_post_hook ::= Z.div_mod_to_equations.
Local Open Scope Z_scope.

Definition size_to_go (s : txsize) : go_TxSize := mk_go_TxSize (Z.of_N (sz_total s)) (Z.of_N (sz_std s)) (Z.of_N (sz_data s)).

Ltac tx_extra ::=
  first
  [ match goal with
    | |- context [Tx_Size (map Some ?ins) (map Some ?outs) ?v ?l] => rewrite (Tx_Size_is_model ins outs v l) by assumption
    end
  | rewrite Script_IsData_is_fees_model ].

Definition data_step (a : Z) (g : go_Output) : Z :=
  if is_data (script_of (Output_LockingScript g)) then go_add I64 a (go_len (script_of (Output_LockingScript g))) else a.

Lemma fold_data_step outs (a : N) :
  Z.of_N (a + data_len (map output_of_go outs)) < 9223372036854775808 ->
  fold_left data_step outs (Z.of_N a) = Z.of_N (a + data_len (map output_of_go outs)).
Proof.
  revert a. induction outs as [|g r IH]; intros a H; cbn [fold_left map] in *.
  - unfold data_len. cbn [fold_left]. f_equal. lia.
  - rewrite data_len_cons in *. cbn [output_of_go out_script] in *. unfold data_step at 2.
    destruct (is_data (script_of (Output_LockingScript g))).
    + replace (go_add I64 (Z.of_N a) (go_len (script_of (Output_LockingScript g))))
        with (Z.of_N (a + lenN (script_of (Output_LockingScript g)))) by (rewrite go_len_lenN; unfold go_add, go_wrap; lia).
      rewrite IH; [f_equal; lia | lia].
    + rewrite IH; [f_equal; lia | lia].
Qed.

Lemma fold_data_step0 outs :
  Z.of_N (data_len (map output_of_go outs)) < 9223372036854775808 ->
  fold_left data_step outs 0 = Z.of_N (data_len (map output_of_go outs)).
Proof. intros H. exact (fold_data_step outs 0%N H). Qed.

Lemma Tx_SizeWithTypes_is_model ins outs ver lock :
  Forall go_input_ok ins -> Forall go_output_ok outs -> u32 ver -> u32 lock -> len_ok ins -> len_ok outs ->
  Z.of_N (tx_size (tx_of_go ins outs ver lock)) < 9223372036854775808 ->
  Tx_SizeWithTypes (map Some ins) (map Some outs) ver lock = Val (Some (size_to_go (size_with_types (tx_of_go ins outs ver lock)))).
Proof.
  intros Hins Houts Hv Hl Hli Hlo Hsz. unfold Tx_SizeWithTypes. tx_norm.
  pose proof (data_le_size (tx_of_go ins outs ver lock)) as Hle. cbn [tx_of_go tx_outs] in Hle.
  tx_loop outs data_step go_output_ok Houts;
    [ tx_norm; apply Val_inj; f_equal;
      rewrite (fold_data_step0 outs) by lia;
      unfold size_to_go, size_with_types; cbn [sz_total sz_std sz_data tx_of_go tx_outs N.add];
      unfold go_conv, go_sub, go_wrap; f_equal; lia
    | intros i [sats [s|]] a (Hs & Hn & Hlen); try intros Hidx;
      cbn [Output_Satoshis Output_LockingScript script_of] in *; [|congruence];
      tx_norm; unfold data_step; cbn [Output_LockingScript script_of];
      destruct (is_data s); tx_norm; first [ reflexivity | (tx_next_eq; unfold go_add; f_equal; lia) ] ].
Qed.
