(** Script.IsP2SH (bscript/script.go), as printed from the Go source, is [is_p2sh] of model/Classify.v (C14; the
    outcome includes the panic case). *)
From Coq Require Import List ZArith NArith Bool Lia ZifyN ZifyNat ZifyBool.
From Coq Require Import Strings.Byte.
From GoBT Require Import lib.Bytes lib.GoSem gen.Funcs proofs.GenFuncsTac proofs.GenFuncsClassifyTac.
From GoBT Require lib.Checked model.Classify.
Import ListNotations.
Ltac Zify.zify_post_hook ::= Z.div_mod_to_equations.
Local Open Scope Z_scope.

Lemma Script_IsP2SH_is_model (b : bytes) : to_outcome (Script_IsP2SH b) = Classify.is_p2sh b.
Proof.
  unfold Script_IsP2SH, Classify.is_p2sh. cbv zeta.
  unfold Classify.OpHASH160, Classify.OpDATA20, Classify.OpEQUAL.
  destruct (N.eqb_spec (lenN b) 23) as [E|E].
  - explicit_list b E 23. classify_norm. classify_finish.
  - unfold Classify.byte_is, Classify.oand, Classify.oor, go_andthen, go_orelse. rewrite go_len_lenN.
    cbn [bind Checked.obind]. go_decide. reflexivity.
Qed.
