(** opcodeVerify (bscript/interpreter/operations.go), as printed from the Go source, is the branch of [Interp.exec_handler]
    for OP_VERIFY: for every context and state (data stack of fewer than 2^31 - 16 items, items shorter than 2^63 bytes), the printed
    function applied to the thread fields it uses -- the data stack in Go order, [rev (ds s)] --
    yields the model's outcome (ok with the new stack / script error / panic), and never runs out of fuel. *)
From Coq Require Import List ZArith NArith Bool Lia ZifyN ZifyNat ZifyBool.
From Coq Require Import Strings.Byte.
From GoBT Require Import lib.Bytes lib.GoSem lib.GoInterp gen.Funcs proofs.GenFuncsTac proofs.GenFuncsInterpTac proofs.GenFuncs_stack_PopBool proofs.GenFuncs_asBool.
From GoBT Require model.Interp model.ScriptNum.
Import ListNotations.
Ltac Zify.zify_post_hook ::= Z.div_mod_to_equations.
Local Open Scope Z_scope.

(** the branch of the model this handler is compared with (opcode OP_VERIFY; proofs/DispatchProofs.v ties the table) *)
Lemma exec_at_opcodeVerify so c p idx s : Interp.p_real p = true -> Interp.p_val p = Interp.OP_VERIFY ->
  Interp.exec_handler so c p idx s = Interp.verify_top s.
Proof. intros Hr Hv. unfold Interp.exec_handler. rewrite Hr, Hv. reflexivity. Qed.

Lemma opcodeVerify_is_model so c p idx s : small (Interp.ds s) -> items_ok (Interp.ds s) -> Interp.p_real p = true -> Interp.p_val p = Interp.OP_VERIFY ->
  h_view s (opcodeVerify (rev (Interp.ds s))) = Some (Interp.exec_handler so c p idx s).
Proof.
  intros Hs Hi Hr Hv. rewrite (exec_at_opcodeVerify so c p idx s Hr Hv).
  destruct s as [d a cd el no ls ea cu]. cbn [Interp.ds Interp.als] in *. h_model.
  go_list_cases d 1%nat; h_items; unfold opcodeVerify, abstractVerify; stk_run; try h_done.
  repeat (match goal with |- context [asBool ?x] => rewrite (asBool_is_model x) by (first [assumption | (repeat match goal with |- context [bytes_eqb ?u ?v] => destruct (bytes_eqb u v) | |- context [Z.eqb ?u ?v] => destruct (Z.eqb u v) end; vm_compute; reflexivity)]) end; stk_run). destruct (ScriptNum.as_bool x); stk_run; h_done.
Qed.
