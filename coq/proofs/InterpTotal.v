(** Totality of the interpreter model (C07): no execution reaches a Go panic, whatever the scripts,
    flags and context.  The model has explicit [OPanic]/[VPanic] outcomes where the Go code has a partial
    operation; this file proves they are unreachable. *)
From Coq Require Import List NArith ZArith Lia Bool.
From Coq Require Import Strings.Byte.
From GoBT Require Import lib.Bytes model.ScriptNum model.Interp.
Import ListNotations.
Local Open Scope Z_scope.

(** ** What the parser guarantees about the opcode list it returns *)
Definition next_depth (d : Z) (v : N) : Z :=
  if (v =? OP_IF)%N || (v =? OP_NOTIF)%N then d + 1
  else if (v =? OP_ENDIF)%N then d - 1 else d.

Inductive wf_ops (eoc : bool) : Z -> list pop -> Prop :=
| wf_nil d : wf_ops eoc d []
| wf_real d p rest :
    p_real p = true -> (eoc = true -> requires_tx (p_val p) = false) ->
    ((p_val p =? OP_RETURN)%N && (d =? 0) = false) ->
    wf_ops eoc (next_depth d (p_val p)) rest -> wf_ops eoc d (p :: rest)
| wf_return p rest :
    p_real p = true -> p_val p = OP_RETURN -> p_data p = [] ->
    (rest = [] \/ exists q, rest = [q]) ->
    wf_ops eoc 0 (p :: rest).

Lemma parse_ops_wf eoc : forall fuel bs d ops, parse_ops fuel eoc bs d = Some ops -> wf_ops eoc d ops.
Proof.
  induction fuel as [|f IH]; intros bs d ops H; cbn [parse_ops] in H.
  - destruct bs; inversion H; constructor.
  - destruct bs as [|b r]; [inversion H; constructor|].
    set (v := b2n b) in *.
    destruct (eoc && requires_tx v) eqn:Ereq; [discriminate|].
    assert (Hreq : eoc = true -> requires_tx v = false).
    { intros ->. cbn in Ereq. exact Ereq. }
    destruct ((v =? OP_RETURN)%N && (d =? 0)) eqn:Eret.
    + apply andb_true_iff in Eret. destruct Eret as [Ev Ed].
      apply N.eqb_eq in Ev. apply Z.eqb_eq in Ed. subst d.
      inversion H; subst ops; clear H.
      apply wf_return; cbn; auto.
      destruct r as [|x [|y r']]; [left; reflexivity| right; eauto | right; eauto].
    + fold (next_depth d v) in H.
      destruct (op_length v =? 1).
      * destruct (parse_ops f eoc r (next_depth d v)) as [l|] eqn:E; [|discriminate].
        inversion H; subst ops. apply wf_real; cbn; auto. eapply IH; eauto.
      * destruct (1 <? op_length v).
        -- destruct (Nat.ltb _ _); [discriminate|].
           match type of H with option_map _ ?X = _ => destruct X as [l|] eqn:E end; [|discriminate].
           inversion H; subst ops. apply wf_real; cbn; auto. eapply IH; eauto.
        -- destruct (Nat.ltb _ _); [discriminate|].
           destruct (_ <? _)%N; [discriminate|].
           match type of H with option_map _ ?X = _ => destruct X as [l|] eqn:E end; [|discriminate].
           inversion H; subst ops. apply wf_real; cbn; auto. eapply IH; eauto.
Qed.

Lemma parse_script_wf eoc bs ops : parse_script eoc bs = Some ops -> wf_ops eoc 0 ops.
Proof. apply parse_ops_wf. Qed.

(** ** Signature operations: what the interpreter needs from them *)
Definition sigops_ok (so : sigops) : Prop :=
  forall c s idx vf,
    so_checksig so c s idx vf <> OPanic /\ so_checkmultisig so c s idx vf <> OPanic /\
    (forall s', so_checksig so c s idx vf <> OReturn s' /\ so_checkmultisig so c s idx vf <> OReturn s') /\
    (forall s', (so_checksig so c s idx vf = OOk s' \/ so_checksig so c s idx vf = OReturn s' \/
                 so_checkmultisig so c s idx vf = OOk s' \/ so_checkmultisig so c s idx vf = OReturn s') ->
                cond s' = cond s).

Lemma no_sigops_ok : sigops_ok no_sigops.
Proof. intros c s idx vf. cbn. repeat split; try discriminate. intros s' [H|[H|[H|H]]]; discriminate. Qed.

(** ** One opcode *)
Ltac break_if :=
  match goal with
  | |- context [if ?b then _ else _] => destruct b eqn:?
  end.
Ltac break_match :=
  match goal with
  | |- context [match ?x with _ => _ end] => destruct x eqn:?
  end.

Lemma verify_top_facts s : verify_top s <> OPanic /\ forall s', (verify_top s = OOk s' \/ verify_top s = OReturn s') -> cond s' = cond s.
Proof.
  unfold verify_top. destruct (ds s) as [|t r]; [split; [discriminate|intros s' [H|H]; discriminate]|].
  destruct (as_bool t); split; try discriminate; intros s' [H|H]; try discriminate.
  inversion H; reflexivity.
Qed.

Definition keeps_cond (s : st) (o : outcome) : Prop :=
  o <> OPanic /\ forall s', (o = OOk s' \/ o = OReturn s') -> cond s' = cond s.

Lemma keeps_ok s s' : cond s' = cond s -> keeps_cond s (OOk s').
Proof. intros E. split; [discriminate|]. intros s2 [H|H]; inversion H; subst; exact E. Qed.
Lemma keeps_ret s s' : cond s' = cond s -> keeps_cond s (OReturn s').
Proof. intros E. split; [discriminate|]. intros s2 [H|H]; inversion H; subst; exact E. Qed.
Lemma keeps_err s : keeps_cond s OErr.
Proof. split; [discriminate|]. intros s2 [H|H]; discriminate. Qed.
Lemma keeps_push s s0 x : cond s0 = cond s -> keeps_cond s (push s0 x).
Proof. intros E. apply keeps_ok. exact E. Qed.
Lemma keeps_push_num s s0 z : cond s0 = cond s -> keeps_cond s (push_num s0 z).
Proof. intros E. apply keeps_ok. exact E. Qed.
Lemma keeps_push_bool s s0 b : cond s0 = cond s -> keeps_cond s (push_bool s0 b).
Proof. intros E. apply keeps_ok. exact E. Qed.
Lemma keeps_verify s s0 : cond s0 = cond s -> keeps_cond s (verify_top s0).
Proof.
  intros E. destruct (verify_top_facts s0) as [Hn Hc]. split; [exact Hn|].
  intros s' H. rewrite (Hc s' H). exact E.
Qed.
Lemma keeps_unary c s f : keeps_cond s (unary_num c s f).
Proof.
  unfold unary_num. destruct (ds s) as [|a r]; [apply keeps_err|].
  destruct (pop_num c a); [apply keeps_push_num; reflexivity|apply keeps_err].
Qed.
Lemma keeps_binary c s f : keeps_cond s (binary_num c s f).
Proof.
  unfold binary_num. destruct (ds s) as [|a [|b r]]; [apply keeps_err| |].
  - destruct (pop_num c a); apply keeps_err.
  - destruct (pop_num c a); [|apply keeps_err]. destruct (pop_num c b); [|apply keeps_err].
    destruct (f z z0); [apply keeps_push_num; reflexivity|apply keeps_err].
Qed.
Lemma keeps_nop c s : keeps_cond s (nop_like c s).
Proof. unfold nop_like. destruct (has_flag c F_DISCOURAGE_NOPS); [apply keeps_err|apply keeps_ok; reflexivity]. Qed.

#[local] Hint Resolve keeps_ok keeps_ret keeps_err keeps_push keeps_push_num keeps_push_bool keeps_verify
  keeps_unary keeps_binary keeps_nop : keeps.

Ltac keeps_tac :=
  repeat first
    [ solve [auto with keeps]
    | solve [apply keeps_ok; reflexivity]
    | solve [apply keeps_push; reflexivity]
    | solve [apply keeps_push_num; reflexivity]
    | solve [apply keeps_push_bool; reflexivity]
    | break_if
    | break_match ].

(** every handler other than the conditionals leaves the condition stack alone and never panics,
    provided the opcode is a real one and OP_CHECKSEQUENCEVERIFY is only met with a transaction *)
Lemma handler_keeps_cond so c p idx s :
  sigops_ok so -> p_real p = true ->
  (c_has_tx c = false -> (p_val p =? OP_CSV)%N = false) ->
  is_conditional (p_val p) = false ->
  keeps_cond s (exec_handler so c p idx s).
Proof.
  intros Hso Hreal Hcsv Hnc. unfold exec_handler. rewrite Hreal. cbn [negb].
  unfold is_conditional in Hnc.
  repeat (apply orb_false_iff in Hnc; destruct Hnc as [Hnc ?]).
  destruct (Hso c s idx false) as (Hs1 & Hm1 & _ & Hc1).
  destruct (Hso c s idx true) as (Hs2 & Hm2 & _ & Hc2).
  repeat match goal with
  | |- keeps_cond _ (if (?v =? ?k)%N then _ else _) => destruct (v =? k)%N eqn:?
  | |- keeps_cond _ (if (?v <=? ?k)%N then _ else _) => destruct (v <=? k)%N eqn:?
  | |- keeps_cond _ (if ((?v =? ?k)%N || _) then _ else _) => destruct (v =? k)%N eqn:?; cbn [orb]
  | |- keeps_cond _ (if (_ || _) then _ else _) => break_if
  end;
  try congruence;
  try solve [keeps_tac].
  - (* OP_CHECKSEQUENCEVERIFY: only met with a transaction *)
    destruct (c_has_tx c) eqn:Htx; [|specialize (Hcsv eq_refl); congruence].
    cbn [negb]. keeps_tac.
  - (* OP_NUMEQUALVERIFY *)
    destruct (keeps_binary c s (fun v0 v1 : Z => Some (b2z (v0 =? v1)))) as [Hn Hk].
    destruct (binary_num c s _) as [s1|s1| |] eqn:E.
    + apply keeps_verify. apply Hk. left; reflexivity.
    + apply keeps_ret. apply Hk. right; reflexivity.
    + apply keeps_err.
    + congruence.
  - split; [exact Hs1|]. intros s' [H'|H']; apply Hc1; auto.
  - split; [exact Hs2|]. intros s' [H'|H']; apply Hc2; auto.
  - split; [exact Hm1|]. intros s' [H'|H']; apply Hc1; auto.
  - split; [exact Hm2|]. intros s' [H'|H']; apply Hc2; auto.
Qed.

Lemma lenZ_cons {A} (x : A) l : lenZ (x :: l) = lenZ l + 1.
Proof. unfold lenZ. cbn [length]. lia. Qed.
Lemma lenZ_nonneg {A} (l : list A) : 0 <= lenZ l.
Proof. unfold lenZ. lia. Qed.

Lemma set_cond_cond s c e : cond (set_cond s c e) = c. Proof. reflexivity. Qed.

Lemma handler_conditional so c p idx s d :
  p_real p = true -> is_conditional (p_val p) = true -> lenZ (cond s) <= d ->
  exec_handler so c p idx s <> OPanic /\
  forall s', (exec_handler so c p idx s = OOk s' \/ exec_handler so c p idx s = OReturn s') ->
             lenZ (cond s') <= next_depth d (p_val p).
Proof.
  intros Hreal Hc Hd. unfold exec_handler. rewrite Hreal. cbn [negb].
  unfold is_conditional in Hc.
  destruct (p_val p =? OP_0)%N eqn:E0; [apply N.eqb_eq in E0; rewrite E0 in Hc; discriminate|].
  destruct (p_val p <=? OP_PUSHDATA4)%N eqn:E1.
  { apply N.leb_le in E1. exfalso. unfold OP_PUSHDATA4 in E1.
    repeat (apply orb_true_iff in Hc; destruct Hc as [Hc|Hc]); apply N.eqb_eq in Hc; rewrite Hc in E1;
      vm_compute in E1; congruence. }
  destruct (p_val p =? OP_1NEGATE)%N eqn:E2; [apply N.eqb_eq in E2; rewrite E2 in Hc; discriminate|].
  destruct (p_val p =? OP_RESERVED)%N eqn:E3; [apply N.eqb_eq in E3; rewrite E3 in Hc; discriminate|].
  destruct (p_val p <=? OP_16)%N eqn:E4.
  { apply N.leb_le in E4. exfalso. unfold OP_16 in E4.
    repeat (apply orb_true_iff in Hc; destruct Hc as [Hc|Hc]); apply N.eqb_eq in Hc; rewrite Hc in E4;
      vm_compute in E4; congruence. }
  destruct (p_val p =? OP_NOP)%N eqn:E5; [apply N.eqb_eq in E5; rewrite E5 in Hc; discriminate|].
  destruct (p_val p =? OP_VER)%N eqn:E6; [apply N.eqb_eq in E6; rewrite E6 in Hc; discriminate|].
  destruct ((p_val p =? OP_IF)%N || (p_val p =? OP_NOTIF)%N) eqn:Eif.
  - (* IF / NOTIF push one entry *)
    assert (Hnd : next_depth d (p_val p) = d + 1) by (unfold next_depth; rewrite Eif; reflexivity).
    rewrite Hnd.
    destruct (should_exec c s (p_val p)).
    + destruct (branch_executing s).
      * unfold pop_if_bool. destruct (ds s) as [|b r]; [split; [discriminate|intros s' [H|H]; discriminate]|].
        destruct (has_flag c F_MINIMALIF).
        -- destruct (Nat.ltb 1 (length b)); [split; [discriminate|intros s' [H|H]; discriminate]|].
           destruct b as [|x [|y b']].
           ++ split; [discriminate|]. intros s' [H|H]; inversion H; subst. rewrite set_cond_cond, lenZ_cons. cbn. lia.
           ++ destruct (b2n x =? 1)%N; split; try discriminate; intros s' [H|H]; try discriminate.
              inversion H; subst. rewrite set_cond_cond, lenZ_cons. cbn. lia.
           ++ split; [discriminate|]. intros s' [H|H]; inversion H; subst. rewrite set_cond_cond, lenZ_cons. cbn. lia.
        -- split; [discriminate|]. intros s' [H|H]; inversion H; subst. rewrite set_cond_cond, lenZ_cons. cbn. lia.
      * split; [discriminate|]. intros s' [H|H]; inversion H; subst. rewrite set_cond_cond, lenZ_cons. lia.
    + split; [discriminate|]. intros s' [H|H]; inversion H; subst. rewrite set_cond_cond, lenZ_cons. lia.
  - apply orb_false_iff in Eif. destruct Eif as [Ei En].
    destruct ((p_val p =? OP_VERIF)%N || (p_val p =? OP_VERNOTIF)%N) eqn:Ever.
    + (* VERIF / VERNOTIF: no change or error *)
      assert (Hnd : next_depth d (p_val p) = d).
      { unfold next_depth. rewrite Ei, En. cbn [orb].
        apply orb_true_iff in Ever. destruct Ever as [Ev|Ev]; apply N.eqb_eq in Ev; rewrite Ev; reflexivity. }
      rewrite Hnd.
      destruct (after_genesis c && negb (should_exec c s (p_val p))); split; try discriminate;
        intros s' [H|H]; try discriminate. inversion H; subst. lia.
    + destruct (p_val p =? OP_ELSE)%N eqn:Eelse.
      * destruct (cond s) as [|t cr] eqn:Ec; [split; [discriminate|intros s' [H|H]; discriminate]|].
        assert (Hnd : next_depth d (p_val p) = d).
        { unfold next_depth. rewrite Ei, En. cbn [orb]. apply N.eqb_eq in Eelse. rewrite Eelse. reflexivity. }
        rewrite Hnd.
        destruct (after_genesis c).
        -- destruct (els s) as [|e er]; [split; [discriminate|intros s' [H|H]; discriminate]|].
           destruct e; split; try discriminate; intros s' [H|H]; try discriminate.
           inversion H; subst. rewrite set_cond_cond. rewrite lenZ_cons in *. lia.
        -- split; [discriminate|]. intros s' [H|H]; try discriminate.
           inversion H; subst. rewrite set_cond_cond. rewrite lenZ_cons in *. lia.
      * destruct (p_val p =? OP_ENDIF)%N eqn:Eend.
        -- destruct (cond s) as [|t cr] eqn:Ec; [split; [discriminate|intros s' [H|H]; discriminate]|].
           rewrite lenZ_cons in Hd.
           assert (Hnd : next_depth d (p_val p) = d - 1).
           { unfold next_depth. rewrite Ei, En. cbn [orb]. rewrite Eend. reflexivity. }
           rewrite Hnd.
           destruct (after_genesis c).
           ++ destruct (els s); split; try discriminate; intros s' [H|H]; try discriminate.
              inversion H; subst. rewrite set_cond_cond. lia.
           ++ split; [discriminate|]. intros s' [H|H]; try discriminate.
              inversion H; subst. rewrite set_cond_cond. lia.
        -- exfalso. apply orb_false_iff in Ever. destruct Ever as [Ev1 Ev2].
           rewrite ?Ei, ?En, ?Ev1, ?Ev2, ?Eelse, ?Eend in Hc. cbn in Hc. discriminate.
Qed.

(** thread.executeOpcode: never panics on a real opcode; tracks the nesting depth *)
Lemma execute_opcode_facts so c p idx s d :
  sigops_ok so -> p_real p = true ->
  (c_has_tx c = false -> (p_val p =? OP_CSV)%N = false) ->
  lenZ (cond s) <= d ->
  execute_opcode so c p idx s <> OPanic /\
  forall s', (execute_opcode so c p idx s = OOk s' \/ execute_opcode so c p idx s = OReturn s') ->
             lenZ (cond s') <= next_depth d (p_val p).
Proof.
  intros Hso Hreal Hcsv Hd. unfold execute_opcode.
  destruct (max_elem c <? lenZ (p_data p)); [split; [discriminate|intros s' [H|H]; discriminate]|].
  destruct (is_disabled (p_val p) && _); [split; [discriminate|intros s' [H|H]; discriminate]|].
  destruct (always_illegal (p_val p) && _); [split; [discriminate|intros s' [H|H]; discriminate]|].
  set (s1 := if (OP_16 <? p_val p)%N then set_nops s (nops s + 1) else s).
  assert (Hs1 : cond s1 = cond s) by (subst s1; destruct (OP_16 <? p_val p)%N; reflexivity).
  destruct ((OP_16 <? p_val p)%N && (max_ops c <? nops s1)); [split; [discriminate|intros s' [H|H]; discriminate]|].
  destruct (is_conditional (p_val p)) eqn:Econd.
  - (* conditionals always reach their handler *)
    cbn [negb andb]. rewrite !andb_false_r.
    destruct (has_flag c F_MINIMALDATA && _ && _ && _ && _);
      [split; [discriminate|intros s' [H|H]; discriminate]|].
    apply handler_conditional; auto. rewrite Hs1. exact Hd.
  - assert (Hnd : next_depth d (p_val p) = d).
    { unfold next_depth. unfold is_conditional in Econd.
      repeat (apply orb_false_iff in Econd; destruct Econd as [Econd ?]).
      repeat match goal with H : (_ =? _)%N = false |- _ => rewrite H; clear H end. reflexivity. }
    rewrite Hnd. cbn [negb].
    assert (Hskip : forall o, keeps_cond s1 o ->
              o <> OPanic /\ forall s', (o = OOk s' \/ o = OReturn s') -> lenZ (cond s') <= d).
    { intros o [Hn Hk]. split; [exact Hn|]. intros s' H. rewrite (Hk s' H), Hs1. exact Hd. }
    destruct (negb (branch_executing s1) && true); [apply Hskip; apply keeps_ok; reflexivity|].
    destruct (has_flag c F_MINIMALDATA && _ && _ && _ && _); [apply Hskip; apply keeps_err|].
    destruct (negb (should_exec c s (p_val p)) && true); [apply Hskip; apply keeps_ok; reflexivity|].
    apply Hskip. apply handler_keeps_cond; auto.
Qed.

(** a top-level OP_RETURN (the parser's static depth is 0, hence no open conditional) ends the script:
    the synthetic "Unformatted Data" opcode that follows it is never executed *)
Lemma execute_return_ends so c p idx s :
  p_real p = true -> p_val p = OP_RETURN -> p_data p = [] -> cond s = [] ->
  (exists s', execute_opcode so c p idx s = OReturn s') \/ execute_opcode so c p idx s = OErr.
Proof.
  intros Hreal Hv Hdata Hc. unfold execute_opcode. rewrite Hv, Hdata.
  change (lenZ (@nil byte)) with 0.
  destruct (max_elem c <? 0); [right; reflexivity|].
  change (is_disabled OP_RETURN) with false. change (always_illegal OP_RETURN) with false. cbn [andb].
  change (OP_16 <? OP_RETURN)%N with true. cbn [andb].
  destruct (max_ops c <? nops (set_nops s (nops s + 1))); [right; reflexivity|].
  assert (Hb : branch_executing (set_nops s (nops s + 1)) = true) by (unfold branch_executing; cbn; rewrite Hc; reflexivity).
  rewrite Hb. cbn [negb andb]. change (is_conditional OP_RETURN) with false.
  change (OP_RETURN <=? OP_PUSHDATA4)%N with false. rewrite !andb_false_r. cbn [andb].
  assert (Hex : should_exec c s OP_RETURN = true).
  { unfold should_exec. destruct (after_genesis c); [|reflexivity]. cbn [negb].
    rewrite Hc. cbn. rewrite orb_true_r. reflexivity. }
  rewrite Hex. cbn [negb andb].
  unfold exec_handler. rewrite Hreal, Hv. cbn [negb].
  change (OP_RETURN =? OP_0)%N with false. change (OP_RETURN <=? OP_PUSHDATA4)%N with false.
  change (OP_RETURN =? OP_1NEGATE)%N with false. change (OP_RETURN =? OP_RESERVED)%N with false.
  change (OP_RETURN <=? OP_16)%N with false. change (OP_RETURN =? OP_NOP)%N with false.
  change (OP_RETURN =? OP_VER)%N with false. change (OP_RETURN =? OP_IF)%N with false.
  change (OP_RETURN =? OP_NOTIF)%N with false. change (OP_RETURN =? OP_VERIF)%N with false.
  change (OP_RETURN =? OP_VERNOTIF)%N with false. change (OP_RETURN =? OP_ELSE)%N with false.
  change (OP_RETURN =? OP_ENDIF)%N with false. change (OP_RETURN =? OP_VERIFY)%N with false.
  change (OP_RETURN =? OP_RETURN)%N with true. cbn [orb].
  destruct (after_genesis c); cbn [negb]; [|right; reflexivity].
  cbn [cond set_nops]. rewrite Hc. left. eauto.
Qed.

Lemma run_ops_no_panic so c eoc :
  sigops_ok so -> (c_has_tx c = false -> eoc = true) ->
  forall ops d idx s acc, wf_ops eoc d ops -> lenZ (cond s) <= d ->
  fst (run_ops so c ops idx s acc) <> SPanic.
Proof.
  intros Hso Htx. induction ops as [|p rest IH]; intros d idx s acc Hwf Hd; cbn [run_ops].
  - cbn. discriminate.
  - inversion Hwf as [| d' p' rest' Hreal Hreq Hnr Hrest | p' rest' Hreal Hv Hdata Hshape]; subst.
    + assert (Hcsv : c_has_tx c = false -> (p_val p =? OP_CSV)%N = false).
      { intros Hno. specialize (Hreq (Htx Hno)). unfold requires_tx in Hreq.
        repeat (apply orb_false_iff in Hreq; destruct Hreq as [Hreq ?]). assumption. }
      destruct (execute_opcode_facts so c p idx s d Hso Hreal Hcsv Hd) as [Hnp Hk].
      destruct (execute_opcode so c p idx s) as [s'|s'| |] eqn:E; cbn; try discriminate; [|congruence].
      destruct (max_stack c <? lenZ (ds s') + lenZ (als s')); [cbn; discriminate|].
      destruct rest as [|q rest2]; [cbn; discriminate|].
      eapply IH; eauto.
    + assert (Hc : cond s = []).
      { destruct (cond s) as [|t r]; [reflexivity|]. rewrite lenZ_cons in Hd. pose proof (lenZ_nonneg r). lia. }
      destruct (execute_return_ends so c p idx s Hreal Hv Hdata Hc) as [[s' E]|E]; rewrite E; cbn; discriminate.
Qed.

(** ** Pay-to-script-hash: the saved first stack cannot be empty when the redeem script is fetched *)
Lemma parse_ops_hash160 f eoc b r d : b2n b = 169%N ->
  parse_ops (S f) eoc (b :: r) d = option_map (cons (mkPop 169 1 [] true)) (parse_ops f eoc r d).
Proof.
  intros H. change (parse_ops (S f) eoc (b :: r) d) with
    (let v := b2n b in
     if eoc && requires_tx v then None else
     let depth' := if (v =? OP_IF)%N || (v =? OP_NOTIF)%N
                   then d + 1 else if (v =? OP_ENDIF)%N then d - 1 else d in
     if (v =? OP_RETURN)%N && (d =? 0) then
       Some (mkPop v 1 [] true ::
             match r with
             | [] => []
             | [x] => [mkPop (b2n x) 1 [] false]
             | x :: data => [mkPop (b2n x) (Z.of_nat (length r)) data false]
             end)
     else
       let l := op_length v in
       if l =? 1 then option_map (cons (mkPop v 1 [] true)) (parse_ops f eoc r depth')
       else if 1 <? l then
         let n := Z.to_nat (l - 1) in
         if Nat.ltb (length r) n then None
         else option_map (cons (mkPop v l (firstn n r) true)) (parse_ops f eoc (skipn n r) depth')
       else
         let n := Z.to_nat (- l) in
         if Nat.ltb (length r) n then None
         else
           let dlN := le_dec (firstn n r) in
           let rest := skipn n r in
           if (N.of_nat (length rest) <? dlN)%N then None
           else let dl := N.to_nat dlN in
                option_map (cons (mkPop v l (firstn dl rest) true)) (parse_ops f eoc (skipn dl rest) depth')).
  cbv zeta. rewrite H.
  change (requires_tx 169) with false. rewrite andb_false_r.
  change (op_length 169 =? 1) with true.
  cbn [N.eqb Pos.eqb OP_IF OP_NOTIF OP_VERIF OP_VERNOTIF OP_ENDIF OP_RETURN orb andb]. reflexivity.
Qed.

Lemma p2sh_lock_needs_an_item so c eoc lock_bytes lock s acc :
  is_p2sh lock_bytes = true -> parse_script eoc lock_bytes = Some lock ->
  ds s = [] -> cond s = [] -> after_genesis c = false ->
  fst (run_ops so c lock 0 s acc) = SErr.
Proof.
  intros Hp Hparse Hds Hc Hag.
  unfold is_p2sh in Hp. destruct lock_bytes as [|a [|b r]]; try discriminate.
  apply andb_true_iff in Hp. destruct Hp as [Hp _].
  apply andb_true_iff in Hp. destruct Hp as [Hp _].
  apply andb_true_iff in Hp. destruct Hp as [Ha _].
  apply N.eqb_eq in Ha.
  unfold parse_script in Hparse. cbn [length] in Hparse. rewrite (parse_ops_hash160 _ _ _ _ _ Ha) in Hparse.
  destruct (parse_ops _ eoc (b :: r) 0) as [rest|]; [|discriminate].
  inversion Hparse; subst lock; clear Hparse.
  cbn [run_ops]. unfold execute_opcode. cbn [p_val p_data].
  change (lenZ (@nil byte)) with 0.
  assert (Hme : max_elem c <? 0 = false) by (unfold max_elem; rewrite Hag; reflexivity).
  rewrite Hme.
  change (is_disabled 169) with false. change (always_illegal 169) with false. cbn [andb].
  change (OP_16 <? 169)%N with true. cbn [andb].
  destruct (max_ops c <? nops (set_nops s (nops s + 1))); [reflexivity|].
  assert (Hb : branch_executing (set_nops s (nops s + 1)) = true) by (unfold branch_executing; cbn; rewrite Hc; reflexivity).
  rewrite Hb. cbn [negb andb]. change (is_conditional 169) with false.
  change (169 <=? OP_PUSHDATA4)%N with false. rewrite !andb_false_r. cbn [andb].
  assert (Hex : should_exec c s 169 = true) by (unfold should_exec; rewrite Hag; reflexivity).
  rewrite Hex. cbn [negb andb].
  unfold exec_handler. cbn [p_real p_val negb].
  repeat match goal with
  | |- context [(169 =? ?k)%N] => let r := eval vm_compute in (169 =? k)%N in change (169 =? k)%N with r
  | |- context [(169 <=? ?k)%N] => let r := eval vm_compute in (169 <=? k)%N in change (169 <=? k)%N with r
  end.
  cbn [orb andb]. cbn [ds set_nops]. rewrite Hds. reflexivity.
Qed.

(** an early successful return is only produced by a post-genesis OP_RETURN outside any conditional *)
Lemma helper_not_return :
  (forall s s', verify_top s <> OReturn s') /\
  (forall c s f s', unary_num c s f <> OReturn s') /\
  (forall c s f s', binary_num c s f <> OReturn s') /\
  (forall c s s', nop_like c s <> OReturn s').
Proof.
  repeat split; intros.
  - unfold verify_top. repeat break_match; discriminate.
  - unfold unary_num, push_num, push. repeat break_match; discriminate.
  - unfold binary_num, push_num, push. repeat break_match; discriminate.
  - unfold nop_like. break_if; discriminate.
Qed.

Lemma handler_return so c p idx s s' :
  sigops_ok so -> exec_handler so c p idx s = OReturn s' -> after_genesis c = true /\ cond s' = [].
Proof.
  intros Hso. destruct helper_not_return as (Hv & Hu & Hb & Hn).
  destruct (Hso c s idx false) as (_ & _ & Hr1 & _).
  destruct (Hso c s idx true) as (_ & _ & Hr2 & _).
  unfold exec_handler, push_num, push_bool, push.
  repeat match goal with
  | |- (if ?b then _ else _) = _ -> _ => destruct b eqn:?
  end; try discriminate;
  try (intros H; exfalso; first [eapply Hv; eassumption | eapply Hu; eassumption | eapply Hb; eassumption
                               | eapply Hn; eassumption | eapply Hr1; eassumption | eapply Hr2; eassumption]);
  try solve [repeat break_match; discriminate].
  - (* OP_RETURN itself *)
    destruct (cond s) eqn:Ec; [|discriminate]. intros [= <-]. split; [|exact Ec].
    match goal with H : negb (after_genesis c) = false |- _ => apply negb_false_iff in H; exact H end.
  - destruct (binary_num c s _) eqn:E; try discriminate.
    + intros H. exfalso. eapply Hv; eassumption.
    + exfalso. eapply Hb; eassumption.
  - intros H. exfalso. eapply (proj1 (Hr1 _)); eassumption.
  - intros H. exfalso. eapply (proj1 (Hr2 _)); eassumption.
Qed.

Lemma execute_opcode_return so c p idx s s' :
  sigops_ok so -> execute_opcode so c p idx s = OReturn s' -> after_genesis c = true /\ cond s' = [].
Proof.
  intros Hso. unfold execute_opcode.
  repeat match goal with |- (if ?b then _ else _) = _ -> _ => destruct b eqn:? end; try discriminate.
  apply handler_return; auto.
Qed.

Lemma run_ops_return so c : sigops_ok so ->
  forall ops idx s acc s' acc', run_ops so c ops idx s acc = (SReturn s', acc') ->
  after_genesis c = true /\ cond s' = [].
Proof.
  intros Hso. induction ops as [|p rest IH]; intros idx s acc s' acc' H; cbn [run_ops] in H; [discriminate|].
  destruct (execute_opcode so c p idx s) as [s1|s1| |] eqn:E; try discriminate.
  - destruct (max_stack c <? _); [discriminate|]. destruct rest; [discriminate|]. eapply IH; eauto.
  - inversion H; subst. eapply execute_opcode_return; eauto.
Qed.

(** ** Whole executions *)
Lemma finish_no_panic c d acc : fst (finish c d acc) <> VPanic.
Proof. unfold finish. cbn. destruct (check_error_condition c true d); discriminate. Qed.

Lemma end_script_cond s s' : end_script s = Some s' -> cond s' = [] /\ ds s' = ds s.
Proof. unfold end_script. destruct (cond s) eqn:E; [|discriminate]. intros [= <-]. cbn. auto. Qed.

Lemma run_redeem_no_panic so c saved s acc :
  sigops_ok so -> (c_has_tx c = false -> c_err_on_checksig c = true) ->
  saved <> [] -> cond s = [] -> fst (run_redeem so c saved s acc) <> VPanic.
Proof.
  intros Hso Htx Hs Hc. unfold run_redeem.
  destruct (negb (check_error_condition c false (ds s))); [cbn; discriminate|].
  destruct saved as [|script below]; [congruence|].
  destruct (parse_script (c_err_on_checksig c) script) as [ops|] eqn:Ep; [|cbn; discriminate].
  destruct ops as [|p rest]; [apply finish_no_panic|].
  pose proof (run_ops_no_panic so c (c_err_on_checksig c) Hso Htx (p :: rest) 0 0%nat
                (set_ds (shift_script s (p :: rest)) below)
                (snap (set_ds (shift_script s (p :: rest)) below) :: acc)
                (parse_script_wf _ _ _ Ep)) as Hr.
  assert (Hle : lenZ (cond (set_ds (shift_script s (p :: rest)) below)) <= 0) by (cbn; rewrite Hc; cbn; lia).
  specialize (Hr Hle).
  destruct (run_ops so c (p :: rest) 0 _ _) as [[s2|s2| |] acc'] eqn:E; cbv iota beta; cbn [fst] in *.
  - destruct (end_script s2); [apply finish_no_panic|discriminate].
  - apply finish_no_panic.
  - discriminate.
  - congruence.
Qed.

Lemma run_lock_no_panic so c bip16 saved lock_bytes lock s acc :
  sigops_ok so -> (c_has_tx c = false -> c_err_on_checksig c = true) ->
  parse_script (c_err_on_checksig c) lock_bytes = Some lock ->
  cond s = [] ->
  (* in P2SH mode before genesis, an empty saved stack means the locking script starts on an empty stack *)
  (bip16 = true -> after_genesis c = false -> is_p2sh lock_bytes = true /\ (saved = [] -> ds s = [])) ->
  fst (run_lock so c bip16 saved lock s acc) <> VPanic.
Proof.
  intros Hso Htx Hparse Hc Hp2sh. unfold run_lock.
  pose proof (run_ops_no_panic so c (c_err_on_checksig c) Hso Htx lock 0 0%nat s acc
                (parse_script_wf _ _ _ Hparse)) as Hr.
  assert (Hle : lenZ (cond s) <= 0) by (rewrite Hc; cbn; lia). specialize (Hr Hle).
  destruct (run_ops so c lock 0 s acc) as [[s2|s2| |] acc'] eqn:E; cbv iota beta; cbn [fst] in *.
  - destruct (end_script s2) as [s3|] eqn:Ee; [|cbn; discriminate].
    destruct (bip16 && negb (after_genesis c)) eqn:Eb; [|apply finish_no_panic].
    apply andb_true_iff in Eb. destruct Eb as [Eb Eg]. apply negb_true_iff in Eg.
    destruct (Hp2sh Eb Eg) as [Hp Hsaved].
    destruct saved as [|x saved'].
    + (* impossible: OP_HASH160 on the empty stack is an error, so the script cannot have ended normally *)
      exfalso. pose proof (p2sh_lock_needs_an_item so c _ _ _ s acc Hp Hparse (Hsaved eq_refl) Hc Eg) as Hf.
      rewrite E in Hf. discriminate.
    + apply run_redeem_no_panic; auto; [discriminate|]. apply end_script_cond in Ee. tauto.
  - apply finish_no_panic.
  - discriminate.
  - congruence.
Qed.

(** thread.execute never panics *)
Theorem execute_no_panic so c bip16 unlock_bytes lock_bytes unlock lock :
  sigops_ok so -> (c_has_tx c = false -> c_err_on_checksig c = true) ->
  parse_script (c_err_on_checksig c) unlock_bytes = Some unlock ->
  parse_script (c_err_on_checksig c) lock_bytes = Some lock ->
  (bip16 = true -> is_p2sh lock_bytes = true) ->
  fst (execute so c bip16 unlock lock) <> VPanic.
Proof.
  intros Hso Htx Hpu Hpl Hb. unfold execute.
  destruct unlock as [|u urest].
  - destruct lock as [|l lrest]; [cbn; discriminate|].
    eapply run_lock_no_panic; eauto; try reflexivity;
      try (intros Eb Eg; split; [auto|reflexivity]).
  - pose proof (run_ops_no_panic so c (c_err_on_checksig c) Hso Htx (u :: urest) 0 0%nat (init_st (u :: urest)) []
                  (parse_script_wf _ _ _ Hpu)) as Hr.
    assert (Hle : lenZ (cond (init_st (u :: urest))) <= 0) by (cbn; lia). specialize (Hr Hle).
    destruct (run_ops so c (u :: urest) 0 _ _) as [[s1|s1| |] acc] eqn:E; cbv iota beta; cbn [fst] in *.
    + destruct (end_script s1) as [s2|] eqn:Ee; [|cbn; discriminate].
      apply end_script_cond in Ee. destruct Ee as [Ec Ed].
      destruct lock as [|l lrest]; [apply finish_no_panic|].
      eapply run_lock_no_panic; eauto;
        try (intros Eb Eg; split; [auto|cbn; tauto]).
    + (* early return: only after genesis, with no conditional open *)
      destruct (run_ops_return so c Hso _ _ _ _ _ _ E) as [Hag Hc1].
      destruct lock as [|l lrest]; [apply finish_no_panic|].
      eapply run_lock_no_panic; eauto; try (intros Eb Eg; congruence).
    + discriminate.
    + congruence.
Qed.

(** Engine.Execute (after argument validation) never panics: every pair of scripts, every flag word,
    with or without a transaction / previous output *)
Theorem engine_execute_no_panic so i :
  sigops_ok so -> fst (engine_execute so i) <> VPanic.
Proof.
  intros Hso. unfold engine_execute.
  set (c := mkCtx _ _ _ _ _ _).
  assert (Htx : c_has_tx c = false -> c_err_on_checksig c = true).
  { subst c. cbn. intros ->. reflexivity. }
  assert (Hbody : forall ubytes lbytes,
    fst (if has_flag c F_CLEANSTACK && negb (has_flag c F_BIP16) then (VErr, [])
         else if (max_script_size c <? lenZ ubytes) || (max_script_size c <? lenZ lbytes) then (VErr, [])
         else match parse_script (c_err_on_checksig c) ubytes with
              | None => (VErr, [])
              | Some u =>
                  match parse_script (c_err_on_checksig c) lbytes with
                  | None => (VErr, [])
                  | Some l =>
                      if has_flag c F_SIGPUSHONLY && negb (is_push_only u) then (VErr, [])
                      else
                        let p2sh := has_flag c F_BIP16 && negb (after_genesis c) && is_p2sh lbytes in
                        if p2sh && negb (is_push_only u) then (VErr, [])
                        else execute so c p2sh u l
                  end
              end) <> VPanic).
  { intros ubytes lbytes.
    destruct (has_flag c F_CLEANSTACK && negb (has_flag c F_BIP16)); [cbn; discriminate|].
    destruct ((max_script_size c <? lenZ ubytes) || (max_script_size c <? lenZ lbytes)); [cbn; discriminate|].
    destruct (parse_script (c_err_on_checksig c) ubytes) as [u|] eqn:Epu; [|cbn; discriminate].
    destruct (parse_script (c_err_on_checksig c) lbytes) as [l|] eqn:Epl; [|cbn; discriminate].
    destruct (has_flag c F_SIGPUSHONLY && negb (is_push_only u)); [cbn; discriminate|].
    cbv zeta.
    destruct (has_flag c F_BIP16 && negb (after_genesis c) && is_p2sh lbytes && negb (is_push_only u)); [cbn; discriminate|].
    eapply (execute_no_panic so c); eauto.
    intros Hb. apply andb_true_iff in Hb. tauto. }
  destruct (ei_unlock i) as [|ub ur] eqn:Eu; destruct (ei_lock i) as [|lb lr] eqn:El;
    try (cbn; discriminate); apply Hbody.
Qed.

(** the parser's fuel is a proof device: any amount at least the script length gives the same result *)
Lemma parse_ops_fuel eoc : forall f1 f2 bs d, (length bs <= f1)%nat -> (length bs <= f2)%nat ->
  parse_ops f1 eoc bs d = parse_ops f2 eoc bs d.
Proof.
  induction f1 as [|f1 IH]; intros f2 bs d H1 H2.
  - destruct bs; [|cbn in H1; lia]. destruct f2; reflexivity.
  - destruct f2 as [|f2]; [destruct bs; [reflexivity|cbn in H2; lia]|].
    cbn [parse_ops]. destruct bs as [|b r]; [reflexivity|]. cbn [length] in H1, H2.
    destruct (eoc && _); [reflexivity|]. destruct (_ && _); [reflexivity|].
    destruct (op_length (b2n b) =? 1).
    + f_equal. apply IH; lia.
    + destruct (1 <? op_length (b2n b)).
      * destruct (Nat.ltb _ _); [reflexivity|]. f_equal. apply IH; rewrite skipn_length; lia.
      * destruct (Nat.ltb _ _); [reflexivity|]. destruct (_ <? _)%N; [reflexivity|].
        f_equal. apply IH; rewrite !skipn_length; lia.
Qed.
