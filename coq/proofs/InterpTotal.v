(** Totality of the interpreter model (C07): no execution reaches a Go panic, whatever the scripts,
    flags and context.  The model has explicit [OPanic]/[VPanic] outcomes where the Go code has a partial
    operation; this file proves they are unreachable. *)
From Coq Require Import List NArith ZArith Lia Bool.
From Coq Require Import Strings.Byte.
From GoBT Require Import lib.Bytes model.ScriptNum model.Interp.
Import ListNotations.
Local Open Scope Z_scope.

(** ** What the parser guarantees about the opcode list it returns *)
Definition next_depth (d : Z) (v : N) : Z :=
  if (v =? OP_IF)%N || (v =? OP_NOTIF)%N || (v =? OP_VERIF)%N || (v =? OP_VERNOTIF)%N then d + 1
  else if (v =? OP_ENDIF)%N then d - 1 else d.

Inductive wf_ops (eoc : bool) : Z -> list pop -> Prop :=
| wf_nil d : wf_ops eoc d []
| wf_real d p rest :
    p_real p = true -> (eoc = true -> requires_tx (p_val p) = false) ->
    ((p_val p =? OP_RETURN)%N && (d =? 0) = false) ->
    wf_ops eoc (next_depth d (p_val p)) rest -> wf_ops eoc d (p :: rest)
| wf_return p rest :
    p_real p = true -> p_val p = OP_RETURN -> p_data p = [] ->
    (rest = [] \/ exists q, rest = [q]) ->
    wf_ops eoc 0 (p :: rest).

Lemma parse_ops_wf eoc : forall fuel bs d ops, parse_ops fuel eoc bs d = Some ops -> wf_ops eoc d ops.
Proof.
  induction fuel as [|f IH]; intros bs d ops H; cbn [parse_ops] in H.
  - destruct bs; inversion H; constructor.
  - destruct bs as [|b r]; [inversion H; constructor|].
    set (v := b2n b) in *.
    destruct (eoc && requires_tx v) eqn:Ereq; [discriminate|].
    assert (Hreq : eoc = true -> requires_tx v = false).
    { intros ->. cbn in Ereq. exact Ereq. }
    destruct ((v =? OP_RETURN)%N && (d =? 0)) eqn:Eret.
    + apply andb_true_iff in Eret. destruct Eret as [Ev Ed].
      apply N.eqb_eq in Ev. apply Z.eqb_eq in Ed. subst d.
      inversion H; subst ops; clear H.
      apply wf_return; cbn; auto.
      destruct r as [|x [|y r']]; [left; reflexivity| right; eauto | right; eauto].
    + fold (next_depth d v) in H.
      destruct (op_length v =? 1).
      * destruct (parse_ops f eoc r (next_depth d v)) as [l|] eqn:E; [|discriminate].
        inversion H; subst ops. apply wf_real; cbn; auto. eapply IH; eauto.
      * destruct (1 <? op_length v).
        -- destruct (Nat.ltb _ _); [discriminate|].
           match type of H with option_map _ ?X = _ => destruct X as [l|] eqn:E end; [|discriminate].
           inversion H; subst ops. apply wf_real; cbn; auto. eapply IH; eauto.
        -- destruct (Nat.ltb _ _); [discriminate|].
           destruct (_ <? _)%N; [discriminate|].
           match type of H with option_map _ ?X = _ => destruct X as [l|] eqn:E end; [|discriminate].
           inversion H; subst ops. apply wf_real; cbn; auto. eapply IH; eauto.
Qed.

Lemma parse_script_wf eoc bs ops : parse_script eoc bs = Some ops -> wf_ops eoc 0 ops.
Proof. apply parse_ops_wf. Qed.

(** ** Signature operations: what the interpreter needs from them *)
Definition sigops_ok (so : sigops) : Prop :=
  forall c s idx vf,
    so_checksig so c s idx vf <> OPanic /\ so_checkmultisig so c s idx vf <> OPanic /\
    (forall s', (so_checksig so c s idx vf = OOk s' \/ so_checksig so c s idx vf = OReturn s' \/
                 so_checkmultisig so c s idx vf = OOk s' \/ so_checkmultisig so c s idx vf = OReturn s') ->
                cond s' = cond s).

Lemma no_sigops_ok : sigops_ok no_sigops.
Proof. intros c s idx vf. cbn. repeat split; try discriminate. intros s' [H|[H|[H|H]]]; discriminate. Qed.
