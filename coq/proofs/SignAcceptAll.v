(** C04, signing path, second part:
    (1) every input of a FillAllInputs result is accepted by the interpreter model run on the RESULT
        ([fill_all_inputs_every_input_accepted]: C04_fill_all_inputs_signs_each_input_independently composed with
        the acceptance theorem, through [self_signed_input_accepted_forkid] of proofs/OrdSignProofs.v);
    (2) the locking script Tx.Inscribe builds on a P2PKH prefix is classified TInscription by ScriptType
        ([inscribe_script_classified]), so FillInput SUCCEEDS on an input spending it
        ([fill_input_inscription_succeeds]) and the inscription case of the acceptance theorem can be stated
        without assuming that FillInput returned ([inscription_input_signed_and_accepted]). *)
From Coq Require Import List NArith ZArith Lia ZifyN ZifyNat ZifyBool Bool.
From Coq Require Import Strings.Byte.
From GoBT Require Import lib.Bytes lib.VarInt lib.Checked lib.Sha256 lib.Ripemd160 model.Tx model.SigHash model.Push
  model.Classify model.ScriptNum model.Interp model.CheckSig model.Sign model.Inscription spec.PushSpec spec.TemplateSpec
  proofs.PushProofs proofs.TxProofs proofs.SigHashProofs proofs.TemplateProofs proofs.InscriptionProofs
  proofs.AddressProofs proofs.P2PKHProofs proofs.AuditAC04 proofs.AuditASigHash proofs.SignProofs proofs.OrdSignProofs.
Import ListNotations.
Local Open Scope N_scope.

Local Opaque hash160 sha256 sha256d.

(** * 1. FillAllInputs: every input accepted *)
Section All.
Local Open Scope Z_scope.

Theorem fill_all_inputs_every_input_accepted : forall (orc : sig_oracle) key_of (t t' : tx) (flags : N),
  wf_tx t -> (N.of_nat (length (tx_ins t)) < two32)%N ->
  (forall prev s, key_of prev = Some s -> signer_ok s) ->
  fill_all_inputs (simple_getter key_of) t = SgOk t' ->
  forall (j : nat) (inp : input) (s : Sign.signer) (body : bytes) (insc : bool) (bops : list pop),
  let pk := sg_pub s in
  let lock := p2pkh_lock (hash160 pk) ++ (if insc then inscription_suffix body else []) in
  let c := mkCtx (normalise_flags flags) true (Z.of_N (tx_lock t')) (Z.of_N (tx_version t')) (Z.of_N (in_seq inp)) false in
  (* input j of the transaction handed in spends a P2PKH(-inscription) output paying to the key the getter
     hands out for it *)
  nth_error (tx_ins t) j = Some inp -> key_of (in_script inp) = Some s -> in_script inp = Some lock ->
  has_flag c F_FORKID = true ->
  (has_flag c F_CLEANSTACK = true -> has_flag c F_BIP16 = true) ->
  lenZ lock <= max_script_size c ->
  (insc = true -> parse_ops (length body) false body 1 = Some bops /\ is_push_only bops = true /\
                  Forall (fun p => lenZ (p_data p) <= max_elem c) bops) ->
  (forall h, fst (calc_input_signature_hash t' (N.of_nat j) 65) = SOk h -> oracle_accepts_signer orc c s h) ->
  exists inp', nth_error (tx_ins t') j = Some inp' /\
    in_script inp' = Some lock /\ in_sats inp' = in_sats inp /\ in_seq inp' = in_seq inp /\
    fst (engine_execute (mk_sigops orc (engine_tx t' (N.of_nat j) (in_unlock inp') lock (in_sats inp')) (N.of_nat j))
           (mkExecInput (in_unlock inp') lock flags true true (Z.of_N (tx_lock t')) (Z.of_N (tx_version t'))
                        (Z.of_N (in_seq inp')))) = VOk.
Proof.
  intros orc key_of t t' flags Hwf Hlen Hkeys H j inp s body insc bops pk lock c Hn Hk Hsc Hfk Hcs Hsz Hbody Horc.
  destruct (fill_all_inputs_signs_each_input_independently key_of t t' Hwf Hlen Hkeys H)
    as (_ & _ & _ & _ & _ & Hwf' & Hall).
  destruct (Hall j inp Hn) as (s' & u & Hk' & _ & Hu' & Hn').
  rewrite Hk in Hk'. injection Hk' as <-.
  assert (Hjl : (j < length (tx_ins t))%nat) by (apply nth_error_Some; congruence).
  exists (set_unlock inp u). split; [exact Hn'|]. cbn [set_unlock in_script in_sats in_seq in_unlock].
  split; [exact Hsc|]. split; [reflexivity|]. split; [reflexivity|].
  apply (self_signed_input_accepted_forkid orc s t' (N.of_nat j) (set_unlock inp u) flags 65%N body insc bops);
    try assumption.
  - lia.
  - left. reflexivity.
  - rewrite nthN_nth_error, Nat2N.id. exact Hn'.
  - apply (Hkeys _ _ Hk).
Qed.
End All.

(** * 2. What Inscribe builds is an inscription for ScriptType *)
Lemma push_tok_min_push d : lenN d < 4294967296 -> min_push d (tok_bytes (push_tok d)).
Proof.
  intros H. destruct d as [|x r]; [left; split; reflexivity|]. right.
  destruct (push_prefix_some (x :: r) H) as (p & E). exists p.
  assert (Hpos : 1 <= lenN (x :: r)) by (rewrite lenN_cons; lia).
  split; [exact Hpos|]. split; [apply push_prefix_shortest; assumption|].
  cbn [push_tok tok_bytes]. rewrite E. reflexivity.
Qed.

Lemma tokens_of_push_toks dd : Forall (fun d => lenN d < 4294967296) dd -> tokens (toks_bytes (map push_tok dd)).
Proof.
  induction 1 as [|d dd Hd _ IH]; [apply tok_nil|]. cbn [map]. rewrite toks_bytes_cons. destruct d as [|x r].
  - cbn [push_tok tok_bytes app]. apply tok_op; [left; reflexivity|exact IH].
  - destruct (push_prefix_some (x :: r) Hd) as (p & E). cbn [push_tok tok_bytes]. rewrite E, <- app_assoc.
    apply tok_push; [|exact IH]. apply push_prefix_header; [exact E|rewrite lenN_cons; lia].
Qed.

(** the bytes between OP_IF and OP_ENDIF of the envelope Inscribe writes: "ord" OP_1 <content type> OP_0 <data> *)
Definition ord_body (ct data : bytes) : bytes :=
  [x03; x6f; x72; x64; x51] ++ tok_bytes (push_tok ct) ++ [x00] ++ tok_bytes (push_tok data).

Lemma inscription_toks_bytes h20 ct data enriched :
  toks_bytes (inscription_toks h20 ct data enriched) =
  Inscription.p2pkh_script h20 ++ ord_header ++ tok_bytes (push_tok ct) ++ [x00] ++ tok_bytes (push_tok data) ++ [x68] ++
  toks_bytes (enriched_toks enriched).
Proof.
  rewrite toks_prefix. f_equal.
Qed.

Theorem inscribe_script_is_inscription_t h20 ct data enriched s : length h20 = 20%nat -> enriched_ok enriched ->
  inscribe_script (Inscription.p2pkh_script h20) ct data enriched = Some s -> is_inscription_t s.
Proof.
  intros H20 He H.
  destruct (N.ltb_spec (lenN ct) 4294967296) as [Hct|Hct]; [|rewrite inscribe_script_too_big in H by lia; discriminate].
  destruct (N.ltb_spec (lenN data) 4294967296) as [Hd|Hd]; [|rewrite inscribe_script_too_big in H by lia; discriminate].
  rewrite (inscribe_script_toks h20 ct data enriched Hct Hd He) in H. injection H as <-.
  exists h20, ct, data, (tok_bytes (push_tok ct)), (tok_bytes (push_tok data)), (toks_bytes (enriched_toks enriched)).
  split; [exact H20|]. split; [apply push_tok_min_push; exact Hct|]. split; [apply push_tok_min_push; exact Hd|].
  split; [|exact (inscription_toks_bytes h20 ct data enriched)].
  destruct enriched as [[|d dd]|]; cbn [enriched_toks]; try (left; reflexivity).
  right. exists (toks_bytes (map push_tok (d :: dd))). split; [reflexivity|]. apply tokens_of_push_toks. exact He.
Qed.

(** ScriptType of the script Inscribe appends (P2PKH prefix, with or without the OP_RETURN tail) is
    ScriptTypeInscription: the gate of unlocker.Simple lets it through *)
Theorem inscribe_script_classified h20 ct data enriched s : length h20 = 20%nat -> enriched_ok enriched ->
  inscribe_script (Inscription.p2pkh_script h20) ct data enriched = Some s -> script_type s = Ok TInscription.
Proof. intros H20 He H. apply inscription_classified. apply (inscribe_script_is_inscription_t h20 ct data enriched); assumption. Qed.

(** the 13-part layout (no OP_RETURN tail) is the lock shape of the acceptance theorem:
    p2pkh_lock pkh ++ OP_FALSE OP_IF body OP_ENDIF with body = [ord_body ct data] *)
Theorem inscribe_script_is_lock pkh ct data s : inscribe_script (p2pkh_lock pkh) ct data None = Some s ->
  s = p2pkh_lock pkh ++ inscription_suffix (ord_body ct data).
Proof.
  intros H.
  destruct (N.ltb_spec (lenN ct) 4294967296) as [Hct|Hct]; [|rewrite inscribe_script_too_big in H by lia; discriminate].
  destruct (N.ltb_spec (lenN data) 4294967296) as [Hd|Hd]; [|rewrite inscribe_script_too_big in H by lia; discriminate].
  change (p2pkh_lock pkh) with (Inscription.p2pkh_script pkh) in *.
  rewrite (inscribe_script_toks pkh ct data None Hct Hd I) in H. injection H as <-.
  rewrite inscription_toks_bytes. cbn [enriched_toks toks_bytes map concat]. f_equal.
  unfold inscription_suffix, ord_body, ord_header. cbn [app]. rewrite <- !app_assoc. cbn [app]. reflexivity.
Qed.

(** * 3. FillInput on an input whose previous script passes the gate *)
Theorem fill_input_signable_succeeds s t idx ht inp prev h sig : signer_ok s ->
  nthN (tx_ins t) idx = Some inp -> in_script inp = Some prev -> signable_type prev ->
  fst (calc_input_signature_hash t idx (default_type ht)) = SOk h -> sg_sign s h = Some sig ->
  fill_input (Some s) t idx ht = SgOk (with_unlock_at t idx (p2pkh_unlock sig (default_type ht) (sg_pub s))).
Proof.
  intros Hok Hn Hs Hty Hh Hsg. unfold fill_input, fill_input_with. cbn [option_map].
  assert (Hh' : fst (calc_input_signature_hash t idx (default_type (default_type ht))) = SOk h)
    by (rewrite default_type_idem; exact Hh).
  rewrite (unlocking_script_run s t idx (default_type ht) inp prev h sig Hn Hs Hty Hh' Hsg).
  rewrite default_type_idem.
  pose proof (signer_ok_pub_len s Hok) as Hpl. destruct Hok as [_ Hsl]. specialize (Hsl h sig Hsg).
  rewrite new_p2pkh_unlocking_script_eq by lia.
  unfold insert_input_unlocking_script. rewrite Hn. reflexivity.
Qed.

(** ... in particular on an input spending what Inscribe built: FillInput succeeds whenever the digest exists
    and the key signs *)
Theorem fill_input_inscription_succeeds s t idx ht inp pkh ct data enriched lock h sig : signer_ok s ->
  nthN (tx_ins t) idx = Some inp -> length pkh = 20%nat -> enriched_ok enriched ->
  inscribe_script (p2pkh_lock pkh) ct data enriched = Some lock -> in_script inp = Some lock ->
  fst (calc_input_signature_hash t idx (default_type ht)) = SOk h -> sg_sign s h = Some sig ->
  fill_input (Some s) t idx ht = SgOk (with_unlock_at t idx (p2pkh_unlock sig (default_type ht) (sg_pub s))).
Proof.
  intros Hok Hn Hl He Hi Hs Hh Hsg.
  apply (fill_input_signable_succeeds s t idx ht inp lock h sig Hok Hn Hs); try assumption.
  right. apply (inscribe_script_classified pkh ct data enriched lock Hl He Hi).
Qed.

(** * 4. The inscription case of the acceptance theorem, FillInput's success PROVED instead of assumed:
    an input spending the 13-part script Inscribe built for the signing key's hash, signed by FillInput with a
    standard FORKID type, is filled and accepted *)
Section InscriptionAccepted.
Local Open Scope Z_scope.

Theorem inscription_input_signed_and_accepted : forall (orc : sig_oracle) (s : Sign.signer) (t : tx) (idx : N) (inp : input)
    (flags ht : N) (ct data lock : bytes) (bops : list pop) (h sig : bytes),
  let ht' := default_type ht in
  let pk := sg_pub s in
  let body := ord_body ct data in
  let c := mkCtx (normalise_flags flags) true (Z.of_N (tx_lock t)) (Z.of_N (tx_version t)) (Z.of_N (in_seq inp)) false in
  wf_tx t -> (idx + 1 < two32)%N -> In ht' [0x41; 0x42; 0x43; 0xc1; 0xc2; 0xc3]%N ->
  nthN (tx_ins t) idx = Some inp ->
  (* the spent output is what Inscribe built on the P2PKH script of the signing key *)
  inscribe_script (p2pkh_lock (hash160 pk)) ct data None = Some lock -> in_script inp = Some lock ->
  signer_ok s ->
  (* the digest exists and the key signs it *)
  fst (calc_input_signature_hash t idx ht') = SOk h -> sg_sign s h = Some sig ->
  has_flag c F_FORKID = true ->
  (has_flag c F_CLEANSTACK = true -> has_flag c F_BIP16 = true) ->
  lenZ lock <= max_script_size c ->
  parse_ops (length body) false body 1 = Some bops -> is_push_only bops = true ->
  Forall (fun p => lenZ (p_data p) <= max_elem c) bops ->
  oracle_accepts_signer orc c s h ->
  exists t' inp', Sign.fill_input (Some s) t idx ht = SgOk t' /\ nthN (tx_ins t') idx = Some inp' /\
    in_script inp' = Some lock /\ in_sats inp' = in_sats inp /\ in_seq inp' = in_seq inp /\
    fst (engine_execute (mk_sigops orc (engine_tx t' idx (in_unlock inp') lock (in_sats inp')) idx)
           (mkExecInput (in_unlock inp') lock flags true true (Z.of_N (tx_lock t')) (Z.of_N (tx_version t'))
                        (Z.of_N (in_seq inp')))) = VOk.
Proof.
  intros orc s t idx inp flags ht ct data lock bops h sig ht' pk body c
         Hwf Hidx Hin Hn Hi Hsc Hok Hh Hsg Hfk Hcs Hsz Hp Hpo Hel Horc.
  assert (Hht : (ht < 256)%N).
  { unfold ht', default_type, sh_all_forkid in Hin. cbn [In] in Hin. destruct (N.eqb_spec ht 0); lia. }
  assert (Hl20 : length (hash160 pk) = 20%nat) by apply hash160_length.
  pose proof (fill_input_inscription_succeeds s t idx ht inp (hash160 pk) ct data None lock h sig Hok Hn Hl20 I Hi Hsc Hh Hsg) as Hfill.
  pose proof (inscribe_script_is_lock (hash160 pk) ct data lock Hi) as Elock. subst lock.
  eexists.
  destruct (filled_input_accepted orc s t _ idx inp flags ht body true bops Hwf Hidx Hht Hn Hsc Hok Hfill Hcs)
    as (inp' & Hn' & S1 & S2 & S3 & Hacc).
  - exact Hsz.
  - intros _. repeat split; assumption.
  - apply hash_type_ok_forkid; assumption.
  - left. fold c ht'. rewrite Hfk. cbn [andb]. cbn [In] in Hin.
    repeat (destruct Hin as [<-|Hin]; [vm_compute; reflexivity|]). destruct Hin.
  - intros h' Hh'. fold ht' in Hh'. rewrite Hh in Hh'. injection Hh' as <-. exact Horc.
  - exists inp'. split; [exact Hfill|]. split; [exact Hn'|]. split; [exact S1|]. split; [exact S2|]. split; [exact S3|exact Hacc].
Qed.
End InscriptionAccepted.

Print Assumptions fill_all_inputs_every_input_accepted.
Print Assumptions inscribe_script_classified.
Print Assumptions inscription_input_signed_and_accepted.
