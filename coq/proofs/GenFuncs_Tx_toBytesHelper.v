(** Tx.toBytesHelper (tx.go), as printed from the Go source, with a nil [lockingScript] (what Tx.Bytes and
    Tx.ExtendedBytes pass) is [tx_bytes ext] of model/Tx.v, for every transaction whose Inputs / Outputs hold no nil
    element and whose outputs all have a LockingScript (otherwise the Go code panics: [go_field] / [go_deref]).
    The calls of Input.Bytes, Output.Bytes, VarInt.Bytes and LittleEndianBytes are calls of the PRINTED functions. *)
From Coq Require Import List ZArith NArith Bool Lia ZifyN ZifyNat ZifyBool.
From Coq Require Import Strings.Byte.
From GoBT Require Import lib.Bytes lib.VarInt lib.GoSem lib.GoTx gen.Funcs proofs.GenFuncsTac proofs.GenFuncsTxTac model.Tx.
From GoBT Require Import proofs.GenFuncs_LittleEndianBytes proofs.GenFuncs_Input_Bytes proofs.GenFuncs_Output_Bytes.
Import ListNotations.
Ltac Zify.zify_post_hook ::= Z.div_mod_to_equations.
Local Open Scope Z_scope.

Ltac tx_extra ::=
  first
  [ rewrite LittleEndianBytes_4
  | match goal with
    | |- context [Input_Bytes ?c ?a ?b ?u ?s] => rewrite (Input_Bytes_is_model c a b u s 0%N None) by tx_arith
    | |- context [Output_Bytes ?a (Some ?s)] => rewrite (Output_Bytes_is_model a s) by tx_arith
    end ].

(** one iteration of the input loop / of the output loop *)
Definition in_step (ext : bool) (h : bytes) (g : go_Input) : bytes := h ++ input_bytes ext (input_of_go g).
Definition out_step (h : bytes) (g : go_Output) : bytes := h ++ output_bytes (output_of_go g).

Lemma Tx_toBytesHelper_is_model index (ext : bool) ins outs ver lock :
  Forall go_input_ok ins -> Forall go_output_ok outs -> u32 ver -> u32 lock -> len_ok ins -> len_ok outs ->
  Tx_toBytesHelper index None ext (map Some ins) (map Some outs) ver lock = Val (tx_bytes ext (tx_of_go ins outs ver lock)).
Proof.
  intros Hins Houts Hv Hl Hli Hlo. unfold Tx_toBytesHelper.
  destruct ext eqn:Eext; tx_norm;
  match goal with _ : _ = ?e |- _ =>
  tx_loop ins (in_step e) go_input_ok Hins;
    [ tx_norm; tx_loop outs out_step go_output_ok Houts;
      [ tx_norm; apply Val_inj; unfold in_step, out_step; rewrite !fold_left_app_concat;
        unfold tx_bytes, tx_of_go, ext_marker; cbn [tx_version tx_ins tx_outs tx_lock];
        rewrite !map_length, !map_map; tx_bytes_eq
      | intros i [sats [s|]] h (Hs & Hn & Hlen); try intros Hidx;
        cbn [Output_Satoshis Output_LockingScript script_of] in *; [|congruence];
        tx_norm; reflexivity ]
    | intros i [txid sats ps us vout sq] h (Hvo & Hsq & Hsa & Hlu & Hlp); try intros Hidx;
      cbn [Input_previousTxID Input_PreviousTxSatoshis Input_PreviousTxScript Input_UnlockingScript
           Input_PreviousTxOutIndex Input_SequenceNumber] in *;
      destruct ps as [p|]; cbn [script_of] in *; tx_norm; tx_next_eq;
      unfold in_step, input_of_go, input_bytes, script_bytes, lenN;
      cbn [in_txid in_vout in_unlock in_seq in_sats in_script Input_previousTxID Input_PreviousTxSatoshis
           Input_PreviousTxScript Input_UnlockingScript Input_PreviousTxOutIndex Input_SequenceNumber];
      tx_bytes_eq ] end.
Qed.
