(** stack.PushByteArray (bscript/interpreter/stack.go), as printed from the Go source: the item becomes the new top.
    The Go stack is [rev d], [d] being the stack of model/Interp.v (top first). *)
From Coq Require Import List ZArith NArith Bool Lia ZifyN ZifyNat ZifyBool.
From Coq Require Import Strings.Byte.
From GoBT Require Import lib.Bytes lib.GoSem lib.GoInterp gen.Funcs proofs.GenFuncsTac proofs.GenFuncsInterpTac.
From GoBT Require model.Interp model.ScriptNum.
Import ListNotations.
Ltac Zify.zify_post_hook ::= Z.div_mod_to_equations.
Local Open Scope Z_scope.

Lemma stack_PushByteArray_spec (x : bytes) (d : list bytes) :
  stack_PushByteArray x (rev d) = Val (rev (x :: d)).
Proof. unfold stack_PushByteArray, go_append_item. reflexivity. Qed.

#[global] Hint Rewrite stack_PushByteArray_spec : stk.
