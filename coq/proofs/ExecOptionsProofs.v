(** Option lists denote the union of their flag words (model/ExecOptions.v): no option removes a flag another option
    set, the order of the options and the way a word is cut into options do not matter, naming a flag twice or adding
    the empty word changes nothing. *)
From Coq Require Import List NArith Bool Permutation.
From GoBT Require Import model.Interp model.ExecOptions.
Import ListNotations.
Local Open Scope N_scope.

Lemma apply_option_lor : forall f o, apply_option f o = N.lor f (option_word o).
Proof. intros f o. destruct o; cbn [apply_option option_word add_flag]; try reflexivity. now rewrite N.lor_0_r. Qed.

Lemma fold_apply_from : forall oo f, fold_left apply_option oo f = N.lor f (options_union oo).
Proof.
  induction oo as [|o oo IH]; intro f; cbn [fold_left options_union fold_right].
  - now rewrite N.lor_0_r.
  - rewrite IH, apply_option_lor, N.lor_assoc. reflexivity.
Qed.

Theorem flags_of_options_is_union : forall oo, flags_of_options oo = options_union oo.
Proof. intro oo. unfold flags_of_options. rewrite fold_apply_from. apply N.lor_0_l. Qed.

Lemma options_union_testbit : forall oo b,
  N.testbit (options_union oo) b = existsb (fun o => N.testbit (option_word o) b) oo.
Proof.
  induction oo as [|o oo IH]; intro b; cbn [options_union fold_right existsb].
  - apply N.bits_0.
  - rewrite N.lor_spec. f_equal. apply IH.
Qed.

(** a flag is on exactly when some option of the list names it *)
Theorem flags_of_options_testbit : forall oo b,
  N.testbit (flags_of_options oo) b = existsb (fun o => N.testbit (option_word o) b) oo.
Proof. intros. rewrite flags_of_options_is_union. apply options_union_testbit. Qed.

(** every option only adds: the flags set by a prefix of the list are still set at the end *)
Theorem flags_of_options_monotone : forall oo oo' b,
  N.testbit (flags_of_options oo) b = true -> N.testbit (flags_of_options (oo ++ oo')) b = true.
Proof.
  intros oo oo' b H. rewrite flags_of_options_testbit in *. rewrite existsb_app, H. reflexivity.
Qed.

Theorem flags_of_options_app : forall oo oo',
  flags_of_options (oo ++ oo') = N.lor (flags_of_options oo) (flags_of_options oo').
Proof.
  intros. apply N.bits_inj. intro b. rewrite N.lor_spec, !flags_of_options_testbit. apply existsb_app.
Qed.

Lemma existsb_perm : forall (A : Type) (p : A -> bool) l l', Permutation l l' -> existsb p l = existsb p l'.
Proof.
  intros A p l l' H. induction H; cbn [existsb].
  - reflexivity.
  - now rewrite IHPermutation.
  - rewrite !orb_assoc. f_equal. apply orb_comm.
  - congruence.
Qed.

(** the order of the options does not matter *)
Theorem flags_of_options_perm : forall oo oo', Permutation oo oo' -> flags_of_options oo = flags_of_options oo'.
Proof.
  intros oo oo' H. apply N.bits_inj. intro b. rewrite !flags_of_options_testbit. now apply existsb_perm.
Qed.

(** two lists naming the same flags configure the same execution; in particular every list whose words add up to
    [f] is [WithFlags(f)] *)
Theorem flags_of_options_denote : forall oo f, options_union oo = f -> flags_of_options oo = flags_of_options [OptFlags f].
Proof.
  intros oo f H. rewrite !flags_of_options_is_union, H. cbn [options_union fold_right option_word].
  now rewrite N.lor_0_r.
Qed.

Theorem engine_execute_options_denote : forall so oo f i,
  options_union oo = f ->
  engine_execute_options so oo i = engine_execute_options so [OptFlags f] i.
Proof. intros so oo f i H. unfold engine_execute_options. now rewrite (flags_of_options_denote oo f H). Qed.

(** [WithFlags(f)] alone hands [f] to the engine unchanged *)
Theorem engine_execute_options_single : forall so f i,
  ei_flags i = f -> engine_execute_options so [OptFlags f] i = engine_execute so i.
Proof.
  intros so f i H. unfold engine_execute_options, flags_of_options. cbn [fold_left apply_option option_word add_flag].
  rewrite N.lor_0_l, <- H. destruct i; reflexivity.
Qed.

(** the named options next to the rest of the word, in either order, and the word cut in two *)
Corollary forkid_then_rest : forall w,
  flags_of_options [OptForkID; OptFlags w] = N.lor (N.shiftl 1 F_FORKID) w /\
  flags_of_options [OptFlags w; OptForkID] = N.lor (N.shiftl 1 F_FORKID) w.
Proof.
  intro w. rewrite !flags_of_options_is_union. cbn [options_union fold_right option_word].
  rewrite !N.lor_0_r. split; [reflexivity|apply N.lor_comm].
Qed.

Corollary genesis_then_rest : forall w,
  flags_of_options [OptAfterGenesis; OptFlags w] = N.lor (N.shiftl 1 F_GENESIS) w /\
  flags_of_options [OptFlags w; OptAfterGenesis] = N.lor (N.shiftl 1 F_GENESIS) w.
Proof.
  intro w. rewrite !flags_of_options_is_union. cbn [options_union fold_right option_word].
  rewrite !N.lor_0_r. split; [reflexivity|apply N.lor_comm].
Qed.

Corollary two_words : forall a b,
  flags_of_options [OptFlags a; OptFlags b] = N.lor a b /\ flags_of_options [OptFlags b; OptFlags a] = N.lor a b.
Proof.
  intros a b. rewrite !flags_of_options_is_union. cbn [options_union fold_right option_word].
  rewrite !N.lor_0_r. split; [reflexivity|apply N.lor_comm].
Qed.
