(** C18 — proofs about model/LocksWP.v, the lock machine WITH WRITER PREFERENCE (Go's sync.RWMutex:
    a writer that has announced its Lock() keeps new readers out).

    (a) SAFETY transfers from the machine without writer preference: a step of the new machine is a
        step of the old one or invisible in the old state ([wstep_projects]), so every reachable
        state of the new machine lies over a reachable state of the old one
        ([wreachable_projects]); race freedom and reads-see-(newest)-writes follow for every table
        accepted by [well_locked].
    (b) DEADLOCK FREEDOM does not transfer (the new machine has one more way of waiting: a reader
        behind a pending writer) and is proved again, for every table accepted by [well_locked] and
        [lock_ordered] — the existing order checker is strong enough, no extra condition is needed.
        The argument: a thread positioned at an acquire of [o] that cannot step waits, directly or
        through a pending writer on [o] (which is itself positioned at its Lock of [o], [PInv]), for
        a thread that HOLDS [o] — or else that pending writer can acquire right now. From there the
        order argument of proofs/LocksDeadlock.v applies unchanged: the holder has work left; if it
        is blocked it is acquiring a leaf (a FeeQuote's mutex) under a non-leaf; whoever holds that
        leaf acquires nothing, and releases, reads and writes never block.
    (c) The rule of [well_locked] "no acquire of a mutex already held" is what writer preference
        makes necessary for READ locks: with a nested RLock on one mutex the new machine reaches a
        stuck state (reader holds, writer announces, reader's second RLock is kept out), the old
        machine does not. *)
From Coq Require Import ZArith NArith Lia List Bool String Arith PeanoNat.
From GoBT Require Import model.Locks spec.RaceSpec proofs.LocksProofs proofs.AuditD18 proofs.LocksDeadlock.
From GoBT Require Import model.LocksWP.
From GoBT Require gen.Locks.
Import ListNotations.
Local Open Scope list_scope.

(* ------------------------------------------------------------------------------------------ *)
(** * (a) Projection onto the machine without writer preference *)

Lemma lift_some : forall p r w', lift p r = Some w' -> exists s', r = Some s' /\ w' = mkW s' p.
Proof. intros p [s'|] w' H; simpl in H; inversion H; eauto. Qed.

Lemma lift_none : forall p r, lift p r = None -> r = None.
Proof. intros p [s'|] H; simpl in H; [discriminate | reflexivity]. Qed.

(** a step of the machine with writer preference is an announce (invisible below) or a step of the
    old machine by the same thread with the same arbitrary value *)
Lemma wstep_projects : forall w t g w', wstep w t g = Some w' ->
  base w' = base w \/ step (base w) t g = Some (base w').
Proof.
  intros w t g w' H. unfold wstep in H.
  destruct (prog (thr (base w) t)) as [|a rest] eqn:Hp.
  - apply lift_some in H as (s' & Hs & ->). right; exact Hs.
  - destruct a as [o m|o m|o f|o f|o f v];
      try (apply lift_some in H as (s' & Hs & ->); right; exact Hs).
    destruct m.
    + destruct (pend w o); [|discriminate]. apply lift_some in H as (s' & Hs & ->). right; exact Hs.
    + destruct (existsb (Nat.eqb t) (pend w o)).
      * apply lift_some in H as (s' & Hs & ->). right; exact Hs.
      * inversion H; subst w'; left; reflexivity.
Qed.

(** every schedule of the new machine projects to a schedule of the old one: writer preference
    only removes behaviours *)
Lemma wreachable_projects : forall w0 w, wreachable w0 w -> reachable (base w0) (base w).
Proof.
  intros w0 w Hr; induction Hr as [|w t g w' Hr IH Hs]; [constructor|].
  destruct (wstep_projects w t g w' Hs) as [Heq|Hst]; [rewrite Heq; exact IH | eapply reach_step; eauto].
Qed.

Lemma wrun_wreachable : forall sched w w', wrun w sched = Some w' -> wreachable w w'.
Proof.
  intros sched w w' H.
  assert (G : forall w0, wreachable w0 w -> wreachable w0 w').
  { revert w H. induction sched as [|[t g] r IH]; simpl; intros w H w0 Hr.
    - inversion H; subst; auto.
    - destruct (wstep w t g) as [w1|] eqn:Hs; try discriminate.
      eapply IH; eauto. eapply wreach_step; eauto. }
  apply G. constructor.
Qed.

(** the executable form of the projection: erase the announce steps *)
Lemma wrun_projects : forall sched w w', wrun w sched = Some w' ->
  exists sched', run (base w) sched' = Some (base w') /\ (List.length sched' <= List.length sched)%nat.
Proof.
  induction sched as [|[t g] r IH]; simpl; intros w w' H.
  - inversion H; subst. exists []; split; [reflexivity | simpl; lia].
  - destruct (wstep w t g) as [w1|] eqn:Hs; try discriminate.
    destruct (IH w1 w' H) as (sched' & Hr & Hl).
    destruct (wstep_projects w t g w1 Hs) as [Heq|Hst].
    + exists sched'. rewrite <- Heq. split; [exact Hr | lia].
    + exists ((t, g) :: sched'). simpl. rewrite Hst. split; [exact Hr | lia].
Qed.

(* ------------------------------------------------------------------------------------------ *)
(** * Safety of well-locked tables, in the machine with writer preference *)

Theorem wp_well_locked_race_free_proof : forall tbl, well_locked tbl = true ->
  forall (mem0 : loc -> value) (P : tid -> list call), (forall t, forallb call_ok (P t) = true) ->
  forall w, wreachable (winit mem0 (call_progs tbl P)) w -> ~ racy (base w).
Proof.
  intros tbl Hwl mem0 P Hok w Hr. apply wreachable_projects in Hr. simpl in Hr.
  eapply well_locked_race_free_proof; eauto.
Qed.

Theorem wp_reads_see_writes_proof : forall tbl, well_locked tbl = true ->
  forall (mem0 : loc -> value) (P : tid -> list call), (forall t, forallb call_ok (P t) = true) ->
  forall w, wreachable (winit mem0 (call_progs tbl P)) w -> reads_from_writes mem0 (base w).
Proof.
  intros tbl Hwl mem0 P Hok w Hr. apply wreachable_projects in Hr. simpl in Hr.
  eapply reads_see_writes_proof; eauto.
Qed.

Theorem wp_reads_see_newest_proof : forall tbl, well_locked tbl = true ->
  forall (mem0 : loc -> value) (P : tid -> list call), (forall t, forallb call_ok (P t) = true) ->
  forall w, wreachable (winit mem0 (call_progs tbl P)) w ->
  forall t g w' o f rest, prog (thr (base w) t) = GRead o f :: rest -> wstep w t g = Some w' ->
  log (thr (base w') t) = ((o, f), newest mem0 (base w) (o, f)) :: log (thr (base w) t).
Proof.
  intros tbl Hwl mem0 P Hok w Hr t g w' o f rest Hp Hs.
  apply wreachable_projects in Hr. simpl in Hr.
  unfold wstep in Hs. rewrite Hp in Hs. apply lift_some in Hs as (s' & Hs & ->). simpl.
  eapply reads_see_newest_proof; eauto.
Qed.

(* ------------------------------------------------------------------------------------------ *)
(** * (b) The third invariant: a pending writer is positioned at its Lock() *)

Definition PInv (w : wstate) : Prop :=
  forall o t, In t (pend w o) -> exists rest, prog (thr (base w) t) = GAcq o MW :: rest.

Lemma step_prog_other : forall s t g s' t', step s t g = Some s' -> t' <> t ->
  prog (thr s' t') = prog (thr s t').
Proof.
  intros s t g s' t' Hs Hne. unfold step in Hs.
  destruct (prog (thr s t)) as [|a rest] eqn:Hp; try discriminate.
  destruct a as [o m|o m|o f|o f|o f v'].
  - destruct m; [destruct (lw (lk s o)) | destruct (lw (lk s o)); [|destruct (lr (lk s o))]];
      inversion Hs; subst; simpl; rewrite ?upd_thr_other; auto.
  - destruct m; [destruct (existsb _ _) | destruct (lw (lk s o)) as [tw|]; [destruct (tw =? t)%nat|]];
      inversion Hs; subst; simpl; rewrite ?upd_thr_other; auto.
  - inversion Hs; subst; simpl; rewrite upd_thr_other; auto.
  - inversion Hs; subst; simpl; rewrite upd_thr_other; auto.
  - inversion Hs; subst; simpl; rewrite upd_thr_other; auto.
Qed.

Lemma winit_PInv : forall mem0 progs, PInv (winit mem0 progs).
Proof. intros mem0 progs o t Hin. simpl in Hin. contradiction. Qed.

(** steps that leave [pend] alone, by a thread that is not pending anywhere *)
Lemma PInv_lift : forall w t g w', PInv w -> (forall o, ~ In t (pend w o)) ->
  lift (pend w) (step (base w) t g) = Some w' -> PInv w'.
Proof.
  intros w t g w' HP Hnp H. apply lift_some in H as (s' & Hs & ->).
  intros o t' Hin; simpl in *.
  assert (Hne : t' <> t) by (intros ->; eapply Hnp; eauto).
  rewrite (step_prog_other _ _ _ _ _ Hs Hne). apply HP; exact Hin.
Qed.

Lemma wstep_PInv : forall w t g w', PInv w -> wstep w t g = Some w' -> PInv w'.
Proof.
  intros w t g w' HP H. unfold wstep in H.
  destruct (prog (thr (base w) t)) as [|a rest] eqn:Hp.
  { eapply PInv_lift; eauto. intros o Hin. apply HP in Hin as (r & E). rewrite Hp in E. discriminate. }
  assert (Hnp : (forall o, a <> GAcq o MW) -> forall o, ~ In t (pend w o)).
  { intros Hne o Hin. apply HP in Hin as (r & E). rewrite Hp in E. inversion E; subst a. eapply Hne; eauto. }
  destruct a as [o m|o m|o f|o f|o f v];
    try (eapply PInv_lift; eauto; apply Hnp; intros; discriminate).
  destruct m.
  - destruct (pend w o) eqn:Hpd; [|discriminate]. eapply PInv_lift; eauto. apply Hnp; intros; discriminate.
  - destruct (existsb (Nat.eqb t) (pend w o)) eqn:Hex.
    + (* acquire *)
      apply lift_some in H as (s' & Hs & ->). intros o' t' Hin; simpl in *.
      unfold upd_pend in Hin. destruct (obj_eqb o' o) eqn:Eo.
      * apply obj_eqb_eq in Eo; subst o'. apply remove_all_tid_In in Hin as [Hin Hne].
        rewrite (step_prog_other _ _ _ _ _ Hs Hne). apply HP; exact Hin.
      * assert (Hne : t' <> t).
        { intros ->. apply HP in Hin as (r & E). rewrite Hp in E. inversion E; subst o'.
          rewrite obj_eqb_refl in Eo. discriminate. }
        rewrite (step_prog_other _ _ _ _ _ Hs Hne). apply HP; exact Hin.
    + (* announce *)
      inversion H; subst w'; clear H. intros o' t' Hin; simpl in *.
      unfold upd_pend in Hin. destruct (obj_eqb o' o) eqn:Eo.
      * apply obj_eqb_eq in Eo; subst o'. destruct Hin as [<-|Hin]; [eauto | apply HP; exact Hin].
      * apply HP; exact Hin.
Qed.

Lemma wreachable_PInv : forall w0 w, PInv w0 -> wreachable w0 w -> PInv w.
Proof. intros w0 w H0 Hr; induction Hr; auto. eapply wstep_PInv; eauto. Qed.

(* ------------------------------------------------------------------------------------------ *)
(** * Progress of the machine with writer preference *)

(** a pending writer on [o] can acquire right now, or some thread holds [o] *)
Lemma pending_acquires_or_held : forall mem0 w o tw, Inv mem0 (base w) -> J (base w) -> PInv w ->
  In tw (pend w o) ->
  (exists w', wstep w tw 0 = Some w') \/ (exists t' m', In (o, m') (held (thr (base w) t'))).
Proof.
  intros mem0 w o tw HI HJ HP Hin. pose proof (HP o tw Hin) as (rw & Hpw).
  assert (Hex : existsb (Nat.eqb tw) (pend w o) = true) by (apply existsb_eqb_In; exact Hin).
  destruct (step (base w) tw 0) as [s'|] eqn:Es.
  - left. unfold wstep. rewrite Hpw, Hex, Es. simpl. eauto.
  - right. assert (Hne : prog (thr (base w) tw) <> []) by (rewrite Hpw; discriminate).
    destruct (blocked_waits mem0 (base w) tw HI HJ Hne Es) as (o' & m' & r' & t' & m'' & Hp' & Hh).
    rewrite Hpw in Hp'. inversion Hp'; subst. eauto.
Qed.

(** a thread with work left that cannot step is positioned at an acquire of a mutex that some
    thread holds — unless the pending writer it waits behind can acquire right now *)
Lemma wblocked_waits : forall mem0 w t, Inv mem0 (base w) -> J (base w) -> PInv w ->
  prog (thr (base w) t) <> [] -> wstep w t 0 = None ->
  exists o m rest, prog (thr (base w) t) = GAcq o m :: rest /\
    ((exists t' m', In (o, m') (held (thr (base w) t'))) \/ (exists t' w', wstep w t' 0 = Some w')).
Proof.
  intros mem0 w t HI HJ HP Hne Hs.
  assert (Hold : step (base w) t 0 = None ->
            exists o m rest, prog (thr (base w) t) = GAcq o m :: rest /\
              ((exists t' m', In (o, m') (held (thr (base w) t'))) \/ (exists t' w', wstep w t' 0 = Some w'))).
  { intros Es. destruct (blocked_waits mem0 (base w) t HI HJ Hne Es) as (o & m & r & t' & m' & Hp & Hh).
    exists o, m, r. split; [exact Hp | left; eauto]. }
  unfold wstep in Hs.
  destruct (prog (thr (base w) t)) as [|a rest] eqn:Hp; [contradiction|].
  destruct a as [o m|o m|o f|o f|o f v]; try (apply lift_none in Hs; apply Hold in Hs; exact Hs).
  destruct m.
  - (* RLock *)
    destruct (pend w o) as [|tw r] eqn:Hpd.
    + apply lift_none in Hs. apply Hold in Hs. exact Hs.
    + (* kept out by a pending writer *)
      exists o, MR, rest. split; [reflexivity|].
      assert (Hin : In tw (pend w o)) by (rewrite Hpd; left; reflexivity).
      destruct (pending_acquires_or_held mem0 w o tw HI HJ HP Hin) as [(w' & Hw)|Hh]; [right; eauto | left; exact Hh].
  - (* Lock *)
    destruct (existsb (Nat.eqb t) (pend w o)); [|discriminate].
    apply lift_none in Hs. apply Hold in Hs. exact Hs.
Qed.

Lemma winv_progress : forall mem0 w, Inv mem0 (base w) -> J (base w) -> PInv w ->
  (exists t, prog (thr (base w) t) <> []) -> exists t w', wstep w t 0 = Some w'.
Proof.
  intros mem0 w HI HJ HP (t0 & H0).
  destruct (wstep w t0 0) as [w'|] eqn:E0; [eauto|].
  destruct (wblocked_waits mem0 w t0 HI HJ HP H0 E0) as (o0 & m0 & r0 & Hp0 & [(t1 & m0' & Hh1)|Hstep]); [|exact Hstep].
  pose proof (holder_has_work mem0 (base w) t1 o0 m0' HI Hh1) as H1.
  destruct (wstep w t1 0) as [w'|] eqn:E1; [eauto|].
  destruct (wblocked_waits mem0 w t1 HI HJ HP H1 E1) as (o1 & m1 & r1 & Hp1 & [(t2 & m1' & Hh2)|Hstep]); [|exact Hstep].
  destruct (acquiring_holds (base w) t1 o1 m1 r1 HJ Hp1 o0 m0' Hh1) as [Hl1 _].
  pose proof (holder_has_work mem0 (base w) t2 o1 m1' HI Hh2) as H2.
  destruct (wstep w t2 0) as [w'|] eqn:E2; [eauto|].
  destruct (wblocked_waits mem0 w t2 HI HJ HP H2 E2) as (o2 & m2 & r2 & Hp2 & _).
  destruct (acquiring_holds (base w) t2 o2 m2 r2 HJ Hp2 o1 m1' Hh2) as [_ Hl1'].
  congruence.
Qed.

Lemma wordered_reachable_inv : forall tbl, well_locked tbl = true -> lock_ordered tbl = true ->
  forall (mem0 : loc -> value) (P : tid -> list call), (forall t, forallb call_ok (P t) = true) ->
  forall w, wreachable (winit mem0 (call_progs tbl P)) w -> Inv mem0 (base w) /\ J (base w) /\ PInv w.
Proof.
  intros tbl Hwl Hlo mem0 P Hok w Hr.
  pose proof (wreachable_PInv _ _ (winit_PInv mem0 (call_progs tbl P)) Hr) as HP.
  apply wreachable_projects in Hr. simpl in Hr.
  destruct (ordered_reachable_inv tbl Hwl Hlo mem0 P Hok (base w) Hr) as [HI HJ]. auto.
Qed.

(** PROGRESS under writer preference: in every reachable state in which some thread has work left,
    some thread can step *)
Theorem wp_progress_proof : forall tbl, well_locked tbl = true -> lock_ordered tbl = true ->
  forall (mem0 : loc -> value) (P : tid -> list call), (forall t, forallb call_ok (P t) = true) ->
  forall w, wreachable (winit mem0 (call_progs tbl P)) w ->
  (exists t, prog (thr (base w) t) <> []) -> exists t w', wstep w t 0 = Some w'.
Proof.
  intros tbl Hwl Hlo mem0 P Hok w Hr.
  destruct (wordered_reachable_inv tbl Hwl Hlo mem0 P Hok w Hr) as (HI & HJ & HP). eapply winv_progress; eauto.
Qed.

(** DEADLOCK FREEDOM under writer preference *)
Theorem wp_deadlock_free_proof : forall tbl, well_locked tbl = true -> lock_ordered tbl = true ->
  forall (mem0 : loc -> value) (P : tid -> list call), (forall t, forallb call_ok (P t) = true) ->
  forall w, wreachable (winit mem0 (call_progs tbl P)) w -> ~ wstuck w.
Proof.
  intros tbl Hwl Hlo mem0 P Hok w Hr [Hw Hn].
  destruct (wp_progress_proof tbl Hwl Hlo mem0 P Hok w Hr Hw) as (t & w' & Hs).
  rewrite Hn in Hs. discriminate.
Qed.

(** what writer preference adds, and why it resolves: a reader kept out ONLY by writer preference
    (no writer holds the mutex) waits behind a pending writer that can acquire right now, or the
    mutex is held by readers each of which can step or is itself acquiring a FeeQuote's mutex under
    this (container's) one, whose holders can all step *)
Theorem wp_reader_behind_writer_proof : forall tbl, well_locked tbl = true -> lock_ordered tbl = true ->
  forall (mem0 : loc -> value) (P : tid -> list call), (forall t, forallb call_ok (P t) = true) ->
  forall w, wreachable (winit mem0 (call_progs tbl P)) w ->
  forall t o rest tw, prog (thr (base w) t) = GAcq o MR :: rest -> In tw (pend w o) ->
    wstep w t 0 = None /\
    ((exists w', wstep w tw 0 = Some w') \/
     (exists t1 m1, In (o, m1) (held (thr (base w) t1)) /\ t1 <> t /\
        ((exists w', wstep w t1 0 = Some w') \/
         (exists o1 m r1, prog (thr (base w) t1) = GAcq o1 m :: r1 /\ is_leaf o = false /\ is_leaf o1 = true /\
            forall t2 m2, In (o1, m2) (held (thr (base w) t2)) -> exists w', wstep w t2 0 = Some w')))).
Proof.
  intros tbl Hwl Hlo mem0 P Hok w Hr t o rest tw Hp Hin.
  destruct (wordered_reachable_inv tbl Hwl Hlo mem0 P Hok w Hr) as (HI & HJ & HP).
  split.
  { unfold wstep. rewrite Hp. destruct (pend w o); [contradiction | reflexivity]. }
  destruct (pending_acquires_or_held mem0 w o tw HI HJ HP Hin) as [Hw|(t1 & m1 & Hh1)]; [left; exact Hw|].
  right. exists t1, m1. split; [exact Hh1|]. split.
  { (* the blocked reader does not hold the mutex it is acquiring *)
    intros ->. pose proof (inv_wl mem0 (base w) HI t) as Hw. rewrite Hp in Hw. simpl in Hw.
    assert (Hho : holds_obj obj_eqb o (held (thr (base w) t)) = true)
      by (apply (holds_obj_In obj_eqb obj_eqb_eq); eauto).
    rewrite Hho in Hw. discriminate. }
  pose proof (holder_has_work mem0 (base w) t1 o m1 HI Hh1) as H1.
  destruct (wstep w t1 0) as [w'|] eqn:E1; [left; eauto|]. right.
  destruct (wblocked_waits mem0 w t1 HI HJ HP H1 E1) as (o1 & m & r1 & Hp1 & _).
  destruct (acquiring_holds (base w) t1 o1 m r1 HJ Hp1 o m1 Hh1) as [Hl1 Hl0].
  exists o1, m, r1. split; [exact Hp1|]. split; [exact Hl0|]. split; [exact Hl1|].
  intros t2 m2 Hh2. pose proof (holder_has_work mem0 (base w) t2 o1 m2 HI Hh2) as H2.
  destruct (wstep w t2 0) as [w'|] eqn:E2; [eauto|].
  destruct (wblocked_waits mem0 w t2 HI HJ HP H2 E2) as (o2 & m2' & r2 & Hp2 & _).
  destruct (acquiring_holds (base w) t2 o2 m2' r2 HJ Hp2 o1 m2 Hh2) as [_ Hl1']. congruence.
Qed.

(** ... for fees.go as it is now, from the two obligations on the GENERATED table *)
Theorem wp_fee_quotes_race_free_from :
  well_locked_raw gen.Locks.fee_methods = true ->
  forall tbl, dec_table gen.Locks.fee_methods = Some tbl ->
  forall (mem0 : loc -> value) (P : tid -> list call), (forall t, forallb call_ok (P t) = true) ->
  forall w, wreachable (winit mem0 (call_progs tbl P)) w -> ~ racy (base w) /\ reads_from_writes mem0 (base w).
Proof.
  intros Hw tbl Hd mem0 P Hok w Hr. unfold well_locked_raw in Hw. rewrite Hd in Hw.
  split; [eapply wp_well_locked_race_free_proof | eapply wp_reads_see_writes_proof]; eauto.
Qed.

Theorem wp_fee_quotes_deadlock_free_from :
  well_locked_raw gen.Locks.fee_methods = true -> lock_ordered fee_table = true /\ fee_table <> [] ->
  forall tbl, dec_table gen.Locks.fee_methods = Some tbl ->
  forall (mem0 : loc -> value) (P : tid -> list call), (forall t, forallb call_ok (P t) = true) ->
  forall w, wreachable (winit mem0 (call_progs tbl P)) w ->
  ~ wstuck w /\ ((exists t, prog (thr (base w) t) <> []) -> exists t w', wstep w t 0 = Some w').
Proof.
  intros Hw [Ho _] tbl Hd mem0 P Hok w Hr.
  unfold well_locked_raw in Hw. unfold fee_table in Ho. rewrite Hd in Hw, Ho.
  split; [eapply wp_deadlock_free_proof | eapply wp_progress_proof]; eauto.
Qed.

(* ------------------------------------------------------------------------------------------ *)
(** * (c) Nested read locks: stuck with writer preference, never stuck without

    The table is fees.go's FeeQuote with [Expired] written as "RLock; call Expiry(); RUnlock" where
    [Expiry] read-locks the same mutex (the nested pattern). *)
Local Open Scope string_scope.

Definition rr_raw : rawtable :=
  [("FeeQuote", "Expired", [[("acquire","self","R"); ("call","self","Expiry"); ("release","self","R")]]);
   ("FeeQuote", "Expiry", [[("acquire","self","R"); ("read","self","expiryTime"); ("release","self","R")]]);
   ("FeeQuote", "UpdateExpiry", [[("acquire","self","W"); ("write","self","expiryTime"); ("release","self","W")]])].
(** the same with the nesting removed: accepted *)
Definition rr_flat_raw : rawtable :=
  [("FeeQuote", "Expired", [[("acquire","self","R"); ("read","self","expiryTime"); ("release","self","R")]]);
   ("FeeQuote", "Expiry", [[("acquire","self","R"); ("read","self","expiryTime"); ("release","self","R")]]);
   ("FeeQuote", "UpdateExpiry", [[("acquire","self","W"); ("write","self","expiryTime"); ("release","self","W")]])].
Definition rr_table : list method := match dec_table rr_raw with Some t => t | None => [] end.
Definition rr_P (t : tid) : list call :=
  match t with
  | 0 => [mkCall TFeeQuote "Expired" 0 7 0 0]
  | 1 => [mkCall TFeeQuote "UpdateExpiry" 0 7 0 9]
  | _ => []
  end.

Definition o7 : obj := (TFeeQuote, 7).
Definition rr_p0 : list mact :=
  [GAcq o7 MR; GAcq o7 MR; GRead o7 "expiryTime"; GRel o7 MR; GRel o7 MR].
Definition rr_p1 : list mact :=
  [GAcq o7 MW; GWBegin o7 "expiryTime"; GWEnd o7 "expiryTime" 9; GRel o7 MW].

Lemma rr_progs : call_progs rr_table rr_P 0 = rr_p0 /\ call_progs rr_table rr_P 1 = rr_p1 /\
  forall t, call_progs rr_table rr_P (S (S t)) = [].
Proof. repeat split. Qed.

(** with writer preference: reader RLocks, writer announces, reader's nested RLock is kept out,
    the writer waits for the reader — nobody can step. [well_locked] rejects the table (and accepts
    it once the nesting is removed). *)
Theorem wp_recursive_rlock_deadlocks_proof :
  well_locked_raw rr_raw = false /\ well_locked_raw rr_flat_raw = true /\
  (forall t, forallb call_ok (rr_P t) = true) /\
  exists w, wreachable (winit (fun _ => 0) (call_progs rr_table rr_P)) w /\ wstuck w /\
            prog (thr (base w) 0) = tl rr_p0 /\ prog (thr (base w) 1) = rr_p1 /\ pend w o7 = [1].
Proof.
  split; [vm_compute; reflexivity|]. split; [vm_compute; reflexivity|].
  split; [intros [|[|t]]; reflexivity|].
  destruct (wrun (winit (fun _ => 0) (call_progs rr_table rr_P)) [(0,0);(1,0)]) as [w|] eqn:E; [|vm_compute in E; discriminate].
  exists w. split; [eapply wrun_wreachable; eauto|].
  vm_compute in E. inversion E; subst w; clear E.
  split; [|repeat split].
  split; [exists 0; simpl; discriminate|].
  intros [|[|t]] g; reflexivity.
Qed.

(** without writer preference the same program never gets stuck: in every reachable state in which
    some thread has work left, some thread can step *)
Definition rr_allowed : list (nat * nat) :=
  [(0,0);(1,0);(2,0);(3,0);(4,0);(5,0);
   (0,4);(1,4);(2,4);(3,4);(4,4);(5,4);
   (0,1);(0,2);(0,3);(5,1);(5,2);(5,3)].
Definition rr_rdrs (i : nat) : list tid :=
  match i with 1 | 4 => [0] | 2 | 3 => [0; 0] | _ => [] end.
Definition rr_wr (j : nat) : option tid :=
  match j with 1 | 2 | 3 => Some 1 | _ => None end.

Definition RInv (s : state) : Prop :=
  (exists i j, In (i, j) rr_allowed /\ prog (thr s 0) = skipn i rr_p0 /\ prog (thr s 1) = skipn j rr_p1 /\
               lk s o7 = mkLock (rr_wr j) (rr_rdrs i)) /\
  forall t, prog (thr s (S (S t))) = [].

Lemma rr_init_RInv : RInv (init_state (fun _ => 0) (call_progs rr_table rr_P)).
Proof. split; [exists 0, 0; repeat split; left; reflexivity | intros t; reflexivity]. Qed.

Ltac rr_cases Hin :=
  cbv [rr_allowed In] in Hin;
  repeat (destruct Hin as [Hin|Hin]; [inversion Hin; subst; clear Hin|]); try contradiction.

Lemma rr_step_RInv : forall s t g s', RInv s -> step s t g = Some s' -> RInv s'.
Proof.
  intros s t g s' ((i & j & Hin & H0 & H1 & Hl) & Hrest) Hs.
  destruct t as [|[|t]].
  - (* the reader *)
    assert (G : In (S i, j) rr_allowed /\ prog (thr s' 0) = skipn (S i) rr_p0 /\ prog (thr s' 1) = skipn j rr_p1 /\
                lk s' o7 = mkLock (rr_wr j) (rr_rdrs (S i)) /\ forall t, prog (thr s' (S (S t))) = []).
    { rr_cases Hin;
        cbv [skipn rr_p0 rr_p1 rr_wr rr_rdrs o7] in *; unfold step in Hs; rewrite H0 in Hs;
        cbv beta iota in Hs; rewrite ?Hl in Hs; cbn [lw lr existsb Nat.eqb orb] in Hs; try discriminate;
        inversion Hs; subst s'; clear Hs; cbn [thr lk prog]; unfold upd_thr, upd_lk;
        cbn [Nat.eqb obj_eqb ty_eqb fst snd andb remove_tid lw lr];
        (split; [|split; [|split; [|split]]]; [cbv [rr_allowed In]; tauto | try assumption; reflexivity | try assumption; reflexivity | try (rewrite Hl); reflexivity | intros t; apply Hrest]). }
    destruct G as (G1 & G2 & G3 & G4 & G5). split; [exists (S i), j; auto | exact G5].
  - (* the writer *)
    assert (G : In (i, S j) rr_allowed /\ prog (thr s' 0) = skipn i rr_p0 /\ prog (thr s' 1) = skipn (S j) rr_p1 /\
                lk s' o7 = mkLock (rr_wr (S j)) (rr_rdrs i) /\ forall t, prog (thr s' (S (S t))) = []).
    { rr_cases Hin;
        cbv [skipn rr_p0 rr_p1 rr_wr rr_rdrs o7] in *; unfold step in Hs; rewrite H1 in Hs;
        cbv beta iota in Hs; rewrite ?Hl in Hs; cbn [lw lr existsb Nat.eqb orb] in Hs; try discriminate;
        inversion Hs; subst s'; clear Hs; cbn [thr lk prog]; unfold upd_thr, upd_lk;
        cbn [Nat.eqb obj_eqb ty_eqb fst snd andb remove_tid lw lr];
        (split; [|split; [|split; [|split]]]; [cbv [rr_allowed In]; tauto | try assumption; reflexivity | try assumption; reflexivity | try (rewrite Hl); reflexivity | intros t; apply Hrest]). }
    destruct G as (G1 & G2 & G3 & G4 & G5). split; [exists i, (S j); auto | exact G5].
  - unfold step in Hs. rewrite Hrest in Hs. discriminate.
Qed.

Lemma rr_reachable_RInv : forall s, reachable (init_state (fun _ => 0) (call_progs rr_table rr_P)) s -> RInv s.
Proof. intros s Hr; induction Hr; [apply rr_init_RInv | eapply rr_step_RInv; eauto]. Qed.

Theorem old_machine_recursive_rlock_progresses_proof :
  (forall s, reachable (init_state (fun _ => 0) (call_progs rr_table rr_P)) s ->
     (exists t, prog (thr s t) <> []) -> exists t s', step s t 0 = Some s') /\
  (forall s, reachable (init_state (fun _ => 0) (call_progs rr_table rr_P)) s -> ~ stuck s) /\
  (* the very schedule that is stuck above, with the announce erased, goes on to the end *)
  option_map (fun s => (prog (thr s 0), prog (thr s 1), log (thr s 0)))
    (run (init_state (fun _ => 0) (call_progs rr_table rr_P)) [(0,0);(0,0);(0,0);(0,0);(0,0);(1,0);(1,0);(1,0);(1,0)])
  = Some ([], [], [((o7, "expiryTime"), 0)]).
Proof.
  assert (P1 : forall s, reachable (init_state (fun _ => 0) (call_progs rr_table rr_P)) s ->
     (exists t, prog (thr s t) <> []) -> exists t s', step s t 0 = Some s').
  { intros s Hr (t0 & Hw). destruct (rr_reachable_RInv s Hr) as ((i & j & Hin & H0 & H1 & Hl) & Hrest).
    rr_cases Hin; cbv [skipn rr_p0 rr_p1 rr_wr rr_rdrs o7] in *;
      first [ exists 0; eexists; unfold step; rewrite H0; cbv beta iota; rewrite ?Hl; cbn [lw lr existsb Nat.eqb orb]; reflexivity
            | exists 1; eexists; unfold step; rewrite H1; cbv beta iota; rewrite ?Hl; cbn [lw lr existsb Nat.eqb orb]; reflexivity
            | exfalso; destruct t0 as [|[|t0]]; [apply Hw; exact H0 | apply Hw; exact H1 | apply Hw; apply Hrest] ]. }
  split; [exact P1|]. split; [|vm_compute; reflexivity].
  intros s Hr [Hw Hn]. destruct (P1 s Hr Hw) as (t & s' & Hs). rewrite Hn in Hs. discriminate.
Qed.

(* ------------------------------------------------------------------------------------------ *)
(** * Non-vacuity on the GENERATED table: the machine with writer preference runs, and differs *)

Definition wp_P (t : tid) : list call :=
  match t with
  | 0 => [mkCall TFeeQuotes "UpdateMinerFees" 2 0 7 42]
  | 1 => [mkCall TFeeQuotes "Fee" 3 0 7 0]
  | 2 => [mkCall TFeeQuote "Fee" 1 7 0 0; mkCall TFeeQuote "MarshalJSON" 0 7 0 0]
  | 3 => [mkCall TFeeQuotes "Fee" 3 0 7 0]
  | _ => []
  end.
Definition wp_sched : list (tid * value) :=
  map (fun t => (t, 99))
      [1;0; 1;1;2;1;1;1; 0;0;0; 2;2; 0;0;0;0;0; 2;2;2; 3;3;3;3;3;3].

(** four threads on FeeQuotes 0 holding FeeQuote 7 (a writer through the container, two readers
    through the container, a direct reader). After "thread 1 RLocks the container, thread 0 announces
    its Lock" thread 3's RLock of the container is kept out in this machine although only a reader
    holds (in the old machine it can step); the writer, having acquired the container, announces on
    the FeeQuote and waits for the direct reader; the whole schedule — two announce steps included —
    runs to completion, nobody is left pending, and the reads are 5 before / 42 after the write *)
Theorem wp_model_runs_proof :
  (forall t, forallb call_ok (wp_P t) = true) /\
  option_map (fun w => (wstep w 3 0, match step (base w) 3 0 with Some _ => true | None => false end,
                        pend w (TFeeQuotes, 0)))
    (wrun (winit (fun _ => 5) (call_progs fee_table wp_P)) [(1,99);(0,99)])
  = Some (None, true, [0]) /\
  option_map (fun w => (wstep w 0 0, pend w (TFeeQuote, 7)))
    (wrun (winit (fun _ => 5) (call_progs fee_table wp_P)) (firstn 11 wp_sched))
  = Some (None, [0]) /\
  option_map (fun w => (map (fun t => (prog (thr (base w) t), log (thr (base w) t))) [0;1;2;3],
                        pend w (TFeeQuotes, 0), pend w (TFeeQuote, 7)))
    (wrun (winit (fun _ => 5) (call_progs fee_table wp_P)) wp_sched)
  = Some ([([], [((TFeeQuotes, 0, "quotes"), 5)]);
           ([], [((TFeeQuote, 7, "fees"), 5); ((TFeeQuotes, 0, "quotes"), 5)]);
           ([], [((TFeeQuote, 7, "fees"), 42); ((TFeeQuote, 7, "fees"), 5)]);
           ([], [((TFeeQuote, 7, "fees"), 42); ((TFeeQuotes, 0, "quotes"), 5)])], [], []).
Proof.
  split; [intros [|[|[|[|t]]]]; reflexivity|].
  split; [vm_compute; reflexivity|]. split; vm_compute; reflexivity.
Qed.

(** both checkers reject the nested table (the order checker too: its rule for an element is "no
    element held", for a receiver "nothing held") *)
Lemma rr_rejected_by_both : well_locked_raw rr_raw = false /\ lock_ordered rr_table = false.
Proof. split; vm_compute; reflexivity. Qed.
