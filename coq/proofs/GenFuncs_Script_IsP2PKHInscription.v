(** Script.IsP2PKHInscription (bscript/script.go), as printed from the Go source (it calls the PRINTED DecodeParts and
    isP2PKHInscriptionHelper), is [is_p2pkh_inscription] of model/Classify.v (C14, C20), panic outcome included. *)
From Coq Require Import List ZArith NArith Bool Lia ZifyN ZifyNat ZifyBool.
From Coq Require Import Strings.Byte.
From GoBT Require Import lib.Bytes lib.GoSem gen.Funcs proofs.GenFuncsTac proofs.GenFuncsLoopTac proofs.GenFuncsScriptTac proofs.GenFuncsPartsTac
  proofs.GenFuncs_DecodeParts proofs.GenFuncs_isP2PKHInscriptionHelper.
From GoBT Require lib.Checked model.Push model.Classify.
Import ListNotations.
Local Open Scope Z_scope.

Lemma Script_IsP2PKHInscription_is_model (b : bytes) :
  to_outcome (Script_IsP2PKHInscription b) = Classify.is_p2pkh_inscription b.
Proof.
  unfold Script_IsP2PKHInscription, Classify.is_p2pkh_inscription, Classify.decoded. cbv zeta.
  rewrite DecodeParts_is_model.
  destruct (Push.decode_parts b) as [parts|parts| |]; cbn [of_dres bind to_outcome Checked.obind]; try reflexivity.
  rewrite <- isP2PKHInscriptionHelper_is_model.
  destruct (isP2PKHInscriptionHelper parts); reflexivity.
Qed.
