(** bscript.MinPushSize (bscript/script.go), as printed from the Go source, is [min_push_size] of model/Push.v.
    The hypothesis is Go's: a slice has fewer than 2^63 elements. *)
From Coq Require Import List ZArith NArith Bool Lia ZifyN ZifyNat ZifyBool.
From Coq Require Import Strings.Byte.
From GoBT Require Import lib.Bytes lib.GoSem gen.Funcs proofs.GenFuncsTac proofs.GenFuncsLoopTac.
From GoBT Require model.Push.
Import ListNotations.
Ltac Zify.zify_post_hook ::= Z.div_mod_to_equations.
Local Open Scope Z_scope.

Lemma MinPushSize_is_model (bb : bytes) : (lenN bb < 9223372036854775808)%N ->
  MinPushSize bb = Val (Z.of_N (Push.min_push_size bb)).
Proof.
  intros Hl. unfold MinPushSize, Push.min_push_size. cbv zeta. unfold go_orelse.
  destruct bb as [|b [|c r]].
  - vm_compute. reflexivity.
  - go_index_norm. change (go_len [b]) with 1. change (lenN [b]) with 1%N. pose proof (b2z_range b) as Hb.
    go_cases; go_close.
  - go_index_norm. rewrite (go_len_lenN (b :: c :: r)).
    assert (H2 : (2 <= lenN (b :: c :: r))%N) by (unfold lenN; cbn [length]; lia).
    remember (lenN (b :: c :: r)) as l eqn:El. clear El.
    go_cases; go_close.
Qed.
