(** stack.DropN (bscript/interpreter/stack.go), as printed from the Go source, for EVERY argument: on a stack of fewer than
    2^31 items, for every int32 [n], the printed function is [StackOpsSpec.drop_n] (the top n items removed; an error when
    there are fewer; spec/StackOpsSpec.v), and an error for n < 1.  The loop runs n times (the fuel suffices); each
    iteration pops one item. *)
From Coq Require Import List ZArith NArith Bool Lia ZifyN ZifyNat ZifyBool.
From Coq Require Import Strings.Byte.
From GoBT Require Import lib.Bytes lib.GoSem lib.GoInterp gen.Funcs proofs.GenFuncsTac proofs.GenFuncsInterpTac proofs.GenFuncsStackLoopTac proofs.GenFuncs_stack_PopByteArray.
From GoBT Require model.Interp model.ScriptNum spec.StackOpsSpec.
Import ListNotations.
Ltac Zify.zify_post_hook ::= Z.div_mod_to_equations.
Local Open Scope Z_scope.

Lemma stack_DropN_all_n (n : Z) (d : list bytes) : Interp.lenZ d < 2147483648 -> in31 n ->
  st_view (stack_DropN n (rev d)) = Val (if n <? 1 then None else StackOpsSpec.drop_n (Z.to_nat n) d).
Proof.
  intros Hs Hn. unfold in31 in *. unfold stack_DropN. destruct (n <? 1) eqn:E1; [reflexivity|]. cbv zeta.
  match goal with |- context [go_for ?fuel (n, rev d) ?cnd ?bdy ?pst] =>
    set (CND := cnd); set (BDY := bdy); set (PST := pst); set (FUEL := fuel)
  end.
  destruct (go_for_count_down pop_step (fun _ d0 => Interp.lenZ d0 < 2147483648) CND BDY PST) with (fuel := FUEL) (k := Z.to_nat n) (d := d)
    as [r [Hr Hres]].
  - intros i g. reflexivity.
  - intros i g Hi. subst PST. cbv beta iota zeta. apply Val_inj. f_equal. unfold go_sub, go_add, go_conv, go_wrap. lia.
  - intros k d0 Hinv. subst BDY. cbv beta iota.
    rewrite stack_PopByteArray_spec by assumption. unfold go_st.
    destruct d0 as [|x d']; cbn [pop_model pop_step bind fst snd].
    + eexists. reflexivity.
    + split; [reflexivity|]. rewrite lenZ_cons in Hinv. lia.
  - subst FUEL. lia.
  - lia.
  - exact Hs.
  - rewrite Z2Nat.id in Hr by lia. rewrite Hr. loop_finish r.
    unfold StackOpsSpec.drop_n. rewrite <- iter_pop. exact Hres.
Qed.

(** the instances the opcode handlers use (OP_DROP, OP_2DROP) *)
Corollary stack_DropN_1 (d : list bytes) : Interp.lenZ d < 2147483648 ->
  st_view (stack_DropN 1 (rev d)) = Val (match d with _ :: r => Some r | _ => None end).
Proof. intros H. rewrite (stack_DropN_all_n 1 d H) by (unfold in31; lia). cbn [Z.ltb Z.compare Z.to_nat Pos.to_nat Pos.iter_op]. rewrite StackOpsSpec.drop_n_1. reflexivity. Qed.
Corollary stack_DropN_2 (d : list bytes) : Interp.lenZ d < 2147483648 ->
  st_view (stack_DropN 2 (rev d)) = Val (match d with _ :: _ :: r => Some r | _ => None end).
Proof. intros H. rewrite (stack_DropN_all_n 2 d H) by (unfold in31; lia). change (Z.to_nat 2) with 2%nat. cbn [Z.ltb Z.compare]. rewrite StackOpsSpec.drop_n_2. reflexivity. Qed.
