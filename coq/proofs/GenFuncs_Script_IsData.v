(** Script.IsData (bscript/script.go), as printed from the Go source, is [is_data] of model/Classify.v (C14; the
    outcome includes the panic case) and [is_data] of model/Fees.v (C11). *)
From Coq Require Import List ZArith NArith Bool Lia ZifyN ZifyNat ZifyBool.
From Coq Require Import Strings.Byte.
From GoBT Require Import lib.Bytes lib.GoSem gen.Funcs proofs.GenFuncsTac proofs.GenFuncsClassifyTac.
From GoBT Require lib.Checked model.Classify model.Fees.
Import ListNotations.
Ltac Zify.zify_post_hook ::= Z.div_mod_to_equations.
Local Open Scope Z_scope.

Lemma Script_IsData_is_model (b : bytes) : to_outcome (Script_IsData b) = Classify.is_data b.
Proof.
  unfold Script_IsData, Classify.is_data. cbv zeta. unfold Classify.OpRETURN, Classify.OpFALSE.
  destruct b as [|x0 [|x1 r]]; classify_norm; try (pose proof (go_len_nonneg r)); classify_finish.
Qed.

Lemma Script_IsData_is_fees_model (b : bytes) : Script_IsData b = Val (Fees.is_data b).
Proof.
  unfold Script_IsData, Fees.is_data. cbv zeta.
  destruct b as [|x0 [|x1 r]]; classify_norm; try (pose proof (go_len_nonneg r)); byte_eqb_norm; classify_finish.
Qed.
