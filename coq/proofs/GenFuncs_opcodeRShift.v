(** opcodeRShift (bscript/interpreter/operations.go), as printed from the Go source, is the branch of [Interp.exec_handler]
    for OP_RSHIFT: for every context and state (data stack of fewer than 2^31 - 16 items, items not longer than 2^48 bytes --
    Go's maxAlloc: the handler allocates the result), the printed
    function applied to the thread fields it uses -- the data stack in Go order, [rev (ds s)], the limits of the stack's number conversion --
    yields the model's outcome (ok with the new stack / script error / panic), and never runs out of fuel. *)
From Coq Require Import List ZArith NArith Bool Lia ZifyN ZifyNat ZifyBool.
From Coq Require Import Strings.Byte.
From GoBT Require Import lib.Bytes lib.GoSem lib.GoInterp gen.Funcs proofs.GenFuncsTac proofs.GenFuncsLoopTac proofs.GenFuncsInterpTac proofs.GenFuncsBytesTac proofs.GenFuncsShiftTac proofs.GenFuncs_stack_PopInt proofs.GenFuncs_stack_PopByteArray proofs.GenFuncs_stack_PushByteArray proofs.GenFuncs_shiftCount.
From GoBT Require model.Interp model.ScriptNum.
Import ListNotations.
Ltac Zify.zify_post_hook ::= Z.div_mod_to_equations.
Local Open Scope Z_scope.

(** the branch of the model this handler is compared with (opcode OP_RSHIFT; proofs/DispatchProofs.v ties the table) *)
Lemma exec_at_opcodeRShift so c p idx s : Interp.p_real p = true -> Interp.p_val p = Interp.OP_RSHIFT ->
  Interp.exec_handler so c p idx s =
  match Interp.ds s with
  | nb :: r =>
      match Interp.pop_num c nb with
      | None => Interp.OErr
      | Some n =>
          if n <? 0 then Interp.OErr
          else match r with
               | x :: r' =>
                   let bits := 8 * Interp.lenZ x in
                   let k := if n <? bits then n else bits in
                   Interp.push (Interp.set_ds s r') (Interp.shr_bytes x (Z.to_nat k))
               | [] => Interp.OErr
               end
      end
  | [] => Interp.OErr
  end.
Proof. intros Hr Hv. unfold Interp.exec_handler. rewrite Hr, Hv. reflexivity. Qed.

(** the byte the loop writes at position [p >= bs]: [x[p-bs] >> bit | x[p-bs-1] << (8 - bit)], the second part only when that byte exists *)
Definition shr_at (x : bytes) (bs : nat) (bit : N) (p : nat) : byte :=
  let j := (p - bs)%nat in
  n2b (N.lor (N.shiftr (b2n (nth j x x00)) bit)
             (N.shiftl (match j with O => 0%N | Datatypes.S j' => b2n (nth j' x x00) end) (8 - bit) mod 256)).

Lemma map_seq_from {B} (f : nat -> B) n : forall a, map f (seq a n) = map (fun j => f (a + j)%nat) (seq 0 n).
Proof.
  revert f. induction n as [|n IH]; intros f a; cbn [seq map]; [reflexivity|]. f_equal; [f_equal; lia|].
  rewrite (IH f (Datatypes.S a)), (IH (fun j => f (a + j)%nat) 1%nat). apply map_ext. intros j. f_equal. lia.
Qed.
Lemma nth_firstn' {A} (l : list A) d : forall n j, (j < n)%nat -> nth j (firstn n l) d = nth j l d.
Proof.
  induction l as [|a l IH]; intros [|n] j Hj; cbn [firstn nth]; try reflexivity; try lia.
  destruct j as [|j]; [reflexivity|]. apply IH. lia.
Qed.
Lemma firstn_repeat_byte (k n : nat) b : (k <= n)%nat -> firstn k (repeat_byte n b) = repeat_byte k b.
Proof. revert k. induction n as [|n IH]; intros [|k] H; cbn [firstn repeat_byte]; try reflexivity; try lia. f_equal. apply IH. lia. Qed.

Lemma shr_bytes_as_map (x : bytes) (n : nat) : (n / 8 <= length x)%nat ->
  Interp.shr_bytes x n =
  repeat_byte (n / 8) x00 ++ map (shr_at x (n / 8) (N.of_nat (n mod 8))) (seq (n / 8) (length x - n / 8)).
Proof.
  intros H. unfold Interp.shr_bytes. cbv zeta. rewrite firstn_length.
  replace (Nat.min (length x - n / 8) (length x)) with (length x - n / 8)%nat by lia.
  replace (length x - (length x - n / 8))%nat with (n / 8)%nat by lia. apply f_equal.
  rewrite (map_seq_from (shr_at x (n / 8) (N.of_nat (n mod 8))) _ (n / 8)%nat). apply map_ext_in. intros j Hj. apply in_seq in Hj. unfold shr_at.
  replace (n / 8 + j - n / 8)%nat with j by lia.
  rewrite nth_firstn' by lia. destruct j as [|j']; [reflexivity|]. rewrite nth_firstn' by lia. reflexivity.
Qed.

(** decide the conditions of a loop body that are arithmetic facts about positions and the shift *)
Ltac sh_dec :=
  repeat match goal with
  | |- context [if ?c then _ else _] =>
      first [ replace c with true by (symmetry; unfold go_wrap, go_len; lia)
            | replace c with false by (symmetry; unfold go_wrap, go_len; lia) ]; cbv iota
  end.

Lemma opcodeRShift_is_model so c p idx s : small (Interp.ds s) -> items_alloc (Interp.ds s) -> Interp.p_real p = true -> Interp.p_val p = Interp.OP_RSHIFT ->
  h_view s (opcodeRShift (Interp.max_numlen c) (Interp.has_flag c Interp.F_MINIMALDATA) (Interp.after_genesis c) (rev (Interp.ds s))) = Some (Interp.exec_handler so c p idx s).
Proof.
  intros Hs Hi Hr Hv. rewrite (exec_at_opcodeRShift so c p idx s Hr Hv).
  destruct s as [d a cd el no ls ea cu]. cbn [Interp.ds Interp.als] in *. h_model.
  go_list_cases d 2%nat; h_alloc; unfold opcodeRShift, sn_lt; stk_run; h_nums; try h_done.
  all: destruct (z <? 0) eqn:Ez; stk_run; try h_done.
  rewrite shiftCount_is_model by (assumption || lia). cbv zeta. stk_run.
  (* the shift count: a natural number [n] not above the number of bits *)
  assert (HL : 0 <= Interp.lenZ x0 <= 281474976710656) by (unfold Interp.lenZ, lenN in *; lia).
  assert (Hk : exists n : nat, (if z <? 8 * Interp.lenZ x0 then z else 8 * Interp.lenZ x0) = Z.of_nat n /\ (n <= 8 * length x0)%nat).
  { exists (Z.to_nat (if z <? 8 * Interp.lenZ x0 then z else 8 * Interp.lenZ x0)).
    destruct (z <? 8 * Interp.lenZ x0) eqn:E; unfold Interp.lenZ in *; lia. }
  destruct Hk as [n [-> Hn]]. rewrite Nat2Z.id.
  assert (Hbs : (n / 8 <= length x0)%nat) by (pose proof (Nat.div_mod_eq n 8); lia).
  assert (Hbit : (n mod 8 < 8)%nat) by (apply Nat.mod_upper_bound; lia).
  rewrite (shr_bytes_as_map x0 n Hbs).
  unfold go_div, go_rem. change (8 =? 0) with false. cbv iota.
  rewrite Z.quot_div_nonneg, Z.rem_mod_nonneg by lia.
  replace (Z.of_nat n / 8) with (Z.of_nat (n / 8)) by (rewrite Nat2Z.inj_div; reflexivity).
  replace (Z.of_nat n mod 8) with (Z.of_nat (n mod 8)) by (rewrite Nat2Z.inj_mod; reflexivity).
  set (bs := (n / 8)%nat) in *. set (bit := (n mod 8)%nat) in *. clearbody bs bit. clear Hn.
  unfold Interp.lenZ in HL.
  rewrite (go_wrap_I64_in (Z.of_nat bs)) by lia. stk_beta.
  rewrite (go_wrap_I64_in (Z.of_nat bit)) by lia. stk_beta.
  replace (go_wrap U64 (Z.of_nat bit)) with (Z.of_nat bit) by (unfold go_wrap; lia).
  rewrite go_make_bytes_len by assumption. stk_beta.
  (* the loop *)
  match goal with |- context [go_for ?fuel (?i0, ?buf) ?cnd ?bdy ?pst] =>
    set (CND := cnd); set (BDY := bdy); set (PST := pst); set (FUEL := fuel);
    replace i0 with (Z.of_nat (length x0) - 1) by (unfold go_wrap, go_len; lia)
  end.
  assert (HF := go_for_fill_down (R := list bytes * bool) (shr_at x0 bs (N.of_nat bit)) bs (length x0) CND BDY PST Hbs).
  assert (Hc : forall (k : nat) (buf : bytes), (bs <= k <= length x0)%nat -> length buf = length x0 ->
            CND (Z.of_nat k - 1, buf) = Val (Nat.ltb bs k)).
  { intros k buf Hk Hb. subst CND. cbv beta iota. apply Val_inj. unfold go_wrap, go_len. lia. }
  specialize (HF Hc).
  assert (Hbd : forall (k : nat) (buf : bytes), (bs < k <= length x0)%nat -> length buf = length x0 ->
            BDY (Z.of_nat k - 1, buf) = Val (Next (Z.of_nat k - 1, upd buf (k - 1) (shr_at x0 bs (N.of_nat bit) (k - 1)%nat)))).
  { intros k buf Hk Hb. subst BDY. cbv beta iota.
    unfold shr_at. cbv zeta. set (i := (k - 1)%nat). set (j := (i - bs)%nat).
    assert (Hxa : nth_error x0 j = Some (nth j x0 x00)) by (apply nth_error_nth_some; lia).
    remember (nth j x0 x00) as xa eqn:Exa. clear Exa.
    assert (Hb8 : (bit = 0 \/ bit = 1 \/ bit = 2 \/ bit = 3 \/ bit = 4 \/ bit = 5 \/ bit = 6 \/ bit = 7)%nat) by lia.
    unfold go_shl, go_shr.
    destruct j as [|j'] eqn:Ej.
    - repeat (sh_dec; cbn [bind];
        repeat match goal with
        | |- context [go_index_b x0 ?e] => rewrite (go_index_b_at x0 e 0%nat xa Hxa) by (unfold go_wrap, go_len; lia)
        | |- context [go_set_index buf ?e ?v] => rewrite (go_set_index_at buf e i v) by lia
        end).
      apply next_upd_eq.
      clear - Hb8. destruct Hb8 as [->|[->|[->|[->|[->|[->|[->| ->]]]]]]]; byte_sweep1 xa.
    - assert (Hxb : nth_error x0 j' = Some (nth j' x0 x00)) by (apply nth_error_nth_some; lia).
      remember (nth j' x0 x00) as xb eqn:Exb. clear Exb.
      repeat (sh_dec; cbn [bind];
        repeat match goal with
        | |- context [go_index_b (upd buf i ?v) ?e] =>
            rewrite (go_index_b_at (upd buf i v) e i v (nth_error_upd_same buf i v ltac:(lia))) by lia
        | |- context [go_index_b x0 ?e] =>
            first [ rewrite (go_index_b_at x0 e (Datatypes.S j') xa Hxa) by (unfold go_wrap, go_len; lia)
                  | rewrite (go_index_b_at x0 e j' xb Hxb) by (unfold go_wrap, go_len; lia) ]
        | |- context [go_set_index (upd buf i ?u) ?e ?v] => rewrite (go_set_index_at (upd buf i u) e i v) by (rewrite ?upd_length; lia)
        | |- context [go_set_index buf ?e ?v] => rewrite (go_set_index_at buf e i v) by lia
        end).
      rewrite ?upd_upd by lia. apply next_upd_eq.
      clear - Hb8. destruct Hb8 as [->|[->|[->|[->|[->|[->|[->| ->]]]]]]]; byte_sweep2 xa xb. }
  specialize (HF Hbd).
  assert (Hp : forall (k : nat) (buf : bytes), (bs < k <= length x0)%nat -> length buf = length x0 ->
            PST (Z.of_nat k - 1, buf) = Val (Z.of_nat (k - 1) - 1, buf)).
  { intros k buf Hk Hb. subst PST. cbv beta iota. apply Val_inj. f_equal. unfold go_wrap. lia. }
  specialize (HF Hp FUEL (length x0) (repeat_byte (length x0) x00) [] ltac:(lia)).
  rewrite repeat_byte_length in HF. specialize (HF eq_refl ltac:(cbn [length]; lia)).
  rewrite !app_nil_r in HF. rewrite HF by (subst FUEL; unfold go_wrap, go_len; lia).
  stk_run. cbn [h_view]. h_model. rewrite rev_involutive, firstn_repeat_byte by lia. reflexivity.
Qed.
