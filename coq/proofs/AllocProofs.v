(** C09: proofs about the allocation-counting decoders (model/Alloc.v).
    1. erasing the counter gives back the decoders of model/Tx.v (so the C01 theorems apply);
    2. every decoding entry point answers POk or PErr (never the fuel artefact);
    3. bytes reported as consumed never exceed the bytes supplied, on success and on error;
    4. allocation is bounded by [alloc_bound (length input)] = 32 * length + 16384;
    5. no entry point panics on an input of at most [input_limit] = 2^42 bytes;
    6. the bound in 5 is needed: a script that really is 2^46 bytes long makes readBytes panic in the model. *)
From Coq Require Import List NArith ZArith Lia ZifyN ZifyNat ZifyBool Bool.
From Coq Require Import Strings.Byte.
From GoBT Require Import lib.Bytes lib.Parse lib.VarInt lib.Sha256 model.Tx proofs.TxProofs model.Alloc.
Import ListNotations.
Local Open Scope N_scope.

(** * 1. Erasure.
    [ert r p]: the allocation-counting result [r] is a panic, or it is [p] with a counter.  (Section 5
    excludes the panic for inputs below [input_limit]; [erase_*] at the end of that section are the equations.) *)

Definition ert {A} (r : ares A) (p : pres A) : Prop := r = APanic \/ erase r = p.

Lemma erase_abind {A B} (p : ares A) (f : A -> bytes -> ares B) :
  erase (abind p f) = pbind (erase p) (fun a r => erase (f a r)).
Proof.
  destruct p as [a n rest al|n al| |]; cbn; auto.
  destruct (f a rest) as [b m r al2|m al2| |]; cbn; auto.
Qed.

Lemma ert_eq {A} (r : ares A) p : erase r = p -> ert r p.
Proof. intros H; right; exact H. Qed.

Lemma ert_conv {A} (r : ares A) p p' : ert r p -> p = p' -> ert r p'.
Proof. intros H <-. exact H. Qed.

Lemma ert_abind {A B} (p : ares A) pp (f : A -> bytes -> ares B) g :
  ert p pp -> (forall a r, ert (f a r) (g a r)) -> ert (abind p f) (pbind pp g).
Proof.
  intros [->|<-] Hf; [left; reflexivity|].
  destruct p as [a n rest al|n al| |]; cbn; try (right; reflexivity).
  destruct (Hf a rest) as [E|E]; [rewrite E; left; reflexivity|].
  rewrite <- E. destruct (f a rest); cbn; [right|right|right|left]; reflexivity.
Qed.

Lemma ert_request {A} x (r : ares A) p : ert r p -> ert (a_request x r) p.
Proof. unfold a_request. destruct (alloc_limit <=? x); [left; reflexivity|auto]. Qed.
Lemma ert_int {A} x (r : ares A) p : ert r p -> ert (a_int_of_u64 x r) p.
Proof. unfold a_int_of_u64. destruct (two63 <=? x); [left; reflexivity|auto]. Qed.
Lemma ert_slice {A} lo hi c (r : ares A) p : ert r p -> ert (a_slice lo hi c r) p.
Proof. unfold a_slice. destruct (andb _ _); [auto|left; reflexivity]. Qed.
Lemma ert_index {A} i l (r : ares A) p : ert r p -> ert (a_index i l r) p.
Proof. unfold a_index. destruct (i <? l); [auto|left; reflexivity]. Qed.

Lemma ert_acharge {A} x (r : ares A) p : ert r p -> ert (acharge x r) p.
Proof.
  intros H. unfold acharge. apply ert_request. destruct H as [->|<-]; [left; reflexivity|].
  destruct r; [right|right|right|left]; reflexivity.
Qed.

Lemma ert_if {A} (c : bool) (a b : ares A) pa pb :
  ert a pa -> ert b pb -> ert (if c then a else b) (if c then pa else pb).
Proof. destruct c; auto. Qed.

Lemma pbind_ext {A B} (p : pres A) (f g : A -> bytes -> pres B) :
  (forall a r, f a r = g a r) -> pbind p f = pbind p g.
Proof. intros H. destruct p; cbn; auto. rewrite H. reflexivity. Qed.

Lemma erase_read_full k bs : erase (a_read_full k bs) = read_exact k bs.
Proof. unfold a_read_full, read_exact. destruct (Nat.leb k (length bs)); reflexivity. Qed.

Lemma ert_read_full k bs : ert (a_read_full k bs) (read_exact k bs).
Proof. apply ert_eq, erase_read_full. Qed.

Lemma ert_read_exact k bs : ert (a_read_exact k bs) (read_exact k bs).
Proof. unfold a_read_exact. apply ert_acharge, ert_read_full. Qed.

Ltac ert_wrap :=
  repeat first [apply ert_index | apply ert_acharge | apply ert_request | apply ert_int | apply ert_slice].

Lemma ert_read_varint bs : ert (a_read_varint bs) (read_varint bs).
Proof.
  unfold a_read_varint, read_varint. apply ert_abind; [apply ert_read_exact|]. intros b r. ert_wrap.
  repeat (apply ert_if; [apply ert_abind; [apply ert_read_exact|]; intros; ert_wrap; apply ert_eq; reflexivity|]).
  apply ert_eq; reflexivity.
Qed.

Lemma firstn_add {A} (a b : nat) (l : list A) : firstn (a + b) l = firstn a l ++ firstn b (skipn a l).
Proof.
  revert l; induction a as [|a IH]; intros l; [reflexivity|].
  destruct l as [|x l]; cbn [Nat.add firstn skipn app]; [destruct b; reflexivity|].
  rewrite IH. reflexivity.
Qed.

Lemma skipn_add {A} (a b : nat) (l : list A) : skipn b (skipn a l) = skipn (a + b) l.
Proof.
  revert l; induction a as [|a IH]; intros l; [reflexivity|].
  destruct l as [|x l]; cbn [Nat.add skipn]; [destruct b; reflexivity|]. apply IH.
Qed.

Lemma lenN_firstn (k : N) (bs : bytes) : k <= lenN bs -> lenN (firstn (N.to_nat k) bs) = k.
Proof. unfold lenN. intros H. rewrite firstn_length. lia. Qed.

Lemma lenN_skipn (k : N) (bs : bytes) : lenN (skipn (N.to_nat k) bs) = lenN bs - k.
Proof. unfold lenN. rewrite skipn_length. lia. Qed.

(** what one pass of the loop is when it does not panic *)
Lemma read_into_spec have chunk bs :
  a_read_into have chunk bs = APanic \/
  a_read_into have chunk bs =
    if lenN bs <? chunk then AErr (lenN bs) (grow_cost have chunk + err_cost)
    else AOk (firstn (N.to_nat chunk) bs) chunk (skipn (N.to_nat chunk) bs) (grow_cost have chunk + 0).
Proof.
  unfold a_read_into, a_int_of_u64, acharge, a_request, a_slice.
  destruct (two63 <=? chunk); [left; reflexivity|].
  destruct (alloc_limit <=? grow_cost have chunk); [left; reflexivity|].
  destruct (andb (have <=? have + chunk) (have + chunk <=? have + chunk)); [|left; reflexivity].
  destruct (lenN bs <? chunk); [|right; reflexivity].
  destruct (andb (0 <=? have + lenN bs) (have + lenN bs <=? have + chunk)); [right|left]; reflexivity.
Qed.

Lemma ert_chunks fuel l acc bs : (length bs < fuel)%nat -> lenN acc < l ->
  ert (a_read_chunks fuel l acc bs)
  (if lenN bs <? l - lenN acc then PErr (lenN bs)
   else POk (acc ++ firstn (N.to_nat (l - lenN acc)) bs) (l - lenN acc) (skipn (N.to_nat (l - lenN acc)) bs)).
Proof.
  revert acc bs. induction fuel as [|f IH]; intros acc bs Hf Hacc; [lia|].
  cbn [a_read_chunks]. set (have := lenN acc) in *.
  set (chunk := N.min (l - have) (have + chunk_size)).
  assert (Hc1 : 1 <= chunk) by (unfold chunk, chunk_size; lia).
  assert (Hc2 : chunk <= l - have) by (unfold chunk; lia).
  destruct (read_into_spec have chunk bs) as [E|E]; rewrite E; [left; reflexivity|]. clear E.
  destruct (N.ltb_spec (lenN bs) chunk) as [Hs|Hs]; cbn [abind].
  - right. cbn [erase]. destruct (N.ltb_spec (lenN bs) (l - have)); [reflexivity|lia].
  - set (x := firstn (N.to_nat chunk) bs). set (r := skipn (N.to_nat chunk) bs).
    assert (Hx : lenN x = chunk) by (apply lenN_firstn; exact Hs).
    assert (Hr : lenN r = lenN bs - chunk) by apply lenN_skipn.
    assert (Hacc' : lenN (acc ++ x) = have + chunk).
    { unfold lenN in *. rewrite app_length. fold have. lia. }
    destruct (N.ltb_spec (lenN (acc ++ x)) l) as [Hl|Hl].
    + destruct (IH (acc ++ x) r) as [E2|E2]; [unfold lenN in *; lia|exact Hl|rewrite E2; left; reflexivity|].
      right. rewrite Hacc' in E2.
      replace (l - (have + chunk)) with (l - have - chunk) in E2 by lia.
      destruct (N.ltb_spec (lenN r) (l - have - chunk)) as [H1|H1];
        destruct (N.ltb_spec (lenN bs) (l - have)) as [H2|H2]; try lia;
        destruct (a_read_chunks f l (acc ++ x) r) as [b m r' al2|m al2| |]; cbn [erase] in E2 |- *; try discriminate.
      * injection E2 as ->. f_equal. lia.
      * injection E2 as -> -> ->. f_equal; [| lia |].
        -- rewrite <- app_assoc. f_equal.
           replace (N.to_nat (l - have)) with (N.to_nat chunk + N.to_nat (l - have - chunk))%nat by lia.
           apply eq_sym, firstn_add.
        -- unfold r. rewrite skipn_add. f_equal. lia.
    + right. cbn [aret erase]. assert (chunk = l - have) as E by lia.
      destruct (N.ltb_spec (lenN bs) (l - have)); [lia|].
      rewrite <- E. f_equal. lia.
Qed.

Lemma ert_read_bytes l bs :
  ert (a_read_bytes l bs) (if lenN bs <? l then PErr (lenN bs) else read_exact (N.to_nat l) bs).
Proof.
  unfold a_read_bytes. destruct (N.leb_spec l chunk_size) as [H|H].
  - apply ert_int. eapply ert_conv; [apply ert_read_exact|]. unfold read_exact.
    destruct (N.ltb_spec (lenN bs) l) as [H1|H1]; [|reflexivity].
    destruct (Nat.leb_spec (N.to_nat l) (length bs)); [unfold lenN in *; lia|reflexivity].
  - eapply ert_conv; [apply ert_chunks; [lia|unfold chunk_size in *; cbn; lia]|].
    change (lenN []) with 0. rewrite N.sub_0_r.
    destruct (N.ltb_spec (lenN bs) l) as [H1|H1]; [reflexivity|].
    unfold read_exact. destruct (Nat.leb_spec (N.to_nat l) (length bs)); [|unfold lenN in *; lia].
    cbn [app]. f_equal. lia.
Qed.

Lemma ert_read_script bs : ert (a_read_script bs) (read_script_safe bs).
Proof.
  unfold a_read_script, read_script_safe. apply ert_abind; [apply ert_read_varint|]. intros lm r.
  eapply ert_conv; [apply ert_abind; [apply ert_read_bytes|intros; apply ert_eq; reflexivity]|].
  destruct (lenN r <? fst lm); reflexivity.
Qed.

Ltac ert_step :=
  first [ apply ert_abind; [first [apply ert_read_exact | apply ert_read_full | apply ert_read_script | apply ert_read_varint]|]; intros
        | apply ert_index | apply ert_acharge | apply ert_request
        | apply ert_eq; reflexivity ].

Ltac ert_case := match goal with |- ert (if ?c then _ else _) _ => destruct c end.

Lemma ert_read_input ext bs : ert (a_read_input ext bs) (read_input ext bs).
Proof.
  unfold a_read_input, read_input. do 4 ert_step. do 3 ert_step.
  destruct ext; repeat ert_step.
Qed.

Lemma ert_read_output bs : ert (a_read_output bs) (read_output bs).
Proof. unfold a_read_output, read_output. repeat ert_step. Qed.

Lemma ert_read_many {A} (ap : aparser (A * bool)) (p : parser (A * bool)) cost :
  (forall b, ert (ap b) (p b)) ->
  forall fuel count done bs, ert (a_read_many fuel cost ap count done bs) (read_many fuel p count bs).
Proof.
  intros Hp. induction fuel as [|f IH]; intros count done bs; cbn [a_read_many read_many];
    destruct (count =? 0); try (apply ert_eq; reflexivity).
  apply ert_abind; [apply ert_acharge, Hp|]. intros xm r. apply ert_request.
  apply ert_abind; [apply IH|]. intros. apply ert_eq; reflexivity.
Qed.

Lemma ert_read_tx_body fuel ver ext ic oc m0 bs :
  ert (a_read_tx_body fuel ver ext ic oc m0 bs) (read_tx_body fuel ver ext ic oc m0 bs).
Proof.
  unfold a_read_tx_body, read_tx_body.
  apply ert_abind; [apply ert_read_many, ert_read_input|]. intros ins ra.
  apply ert_abind; [destruct oc; [apply ert_eq; reflexivity|apply ert_read_varint]|]. intros ocv rb.
  apply ert_abind; [apply ert_read_many, ert_read_output|]. intros outs rc.
  repeat ert_step.
Qed.

Theorem ert_read_tx bs : ert (a_read_tx bs) (read_tx bs).
Proof.
  unfold a_read_tx, read_tx. do 4 ert_step.
  ert_case; [|apply ert_read_tx_body].
  ert_step. ert_case; [|apply ert_read_tx_body].
  do 2 ert_step. ert_case; [|ert_step].
  ert_step. apply ert_read_tx_body.
Qed.

Theorem ert_tx_from_stream bs : ert (a_tx_from_stream bs) (read_tx bs).
Proof. unfold a_tx_from_stream. apply ert_acharge, ert_read_tx. Qed.

Theorem ert_read_txs bs : ert (a_read_txs bs) (read_txs bs).
Proof.
  unfold a_read_txs, read_txs. ert_step.
  apply ert_abind; [|intros; apply ert_eq; reflexivity].
  apply ert_read_many. intros b. destruct (ert_read_tx b) as [E|E]; [rewrite E; left; reflexivity|].
  rewrite <- E. destruct (a_read_tx b); [right|right|right|left]; reflexivity.
Qed.

(** * 2. Termination: no entry point answers with the fuel artefact of the count loops
    (panics - the partial operations of the decoders - are section 5). *)

Definition answers {A} (r : pres A) : Prop :=
  match r with POk _ _ _ => True | PErr _ => True | PFuel => False end.

Lemma answers_iff {A} (r : pres A) : answers r <-> r <> PFuel.
Proof. destruct r; cbn; split; intros; try congruence; auto. Qed.

Lemma read_tx_progress : progresses read_tx.
Proof.
  intros bs a n rest H. pose proof (read_tx_ok bs) as Hok. rewrite H in Hok.
  destruct Hok as (pre & -> & ->). unfold read_tx in H.
  apply pbind_len in H. destruct H as (x & n1 & r1 & m1 & H1 & _ & Hn).
  apply read_exact_inv in H1. destruct H1 as (_ & _ & ->).
  rewrite app_length. unfold lenN in Hn. lia.
Qed.

Theorem read_txs_never_out_of_fuel bs : read_txs bs <> PFuel.
Proof.
  unfold read_txs.
  destruct (read_varint bs) as [c n1 r|?|] eqn:E1; cbn [pbind]; [|discriminate|exfalso; eapply read_varint_nf; eauto].
  assert (L1 : (length r <= length bs)%nat).
  { pose proof (read_varint_ok bs) as H. rewrite E1 in H. eapply consumed_ok_len; eauto. }
  set (p := fun b => pmap (fun p => (p, p_min p)) (read_tx b)).
  assert (Hp : progresses p).
  { intros b a n rest H. unfold p in H. destruct (read_tx b) as [q m r'|?|] eqn:E; cbn in H; try discriminate.
    injection H as <- <- <-. eapply read_tx_progress; eauto. }
  assert (Hn : no_fuel p).
  { intros b H. unfold p in H. pose proof (read_tx_never_out_of_fuel b) as K.
    destruct (read_tx b); cbn in H; congruence. }
  pose proof (read_many_nf p Hp Hn (S (length bs)) (fst c) r ltac:(lia)) as K.
  destruct (read_many (S (length bs)) p (fst c) r); cbn; congruence.
Qed.

Theorem decode_total_tx bs : answers (read_tx bs).
Proof. apply answers_iff, read_tx_never_out_of_fuel. Qed.
Theorem decode_total_txs bs : answers (read_txs bs).
Proof. apply answers_iff, read_txs_never_out_of_fuel. Qed.
Theorem decode_total_input ext bs : answers (read_input ext bs).
Proof. apply answers_iff, read_input_nf. Qed.
Theorem decode_total_output bs : answers (read_output bs).
Proof. apply answers_iff, read_output_nf. Qed.
Theorem decode_total_from_bytes bs : tx_from_bytes bs <> RFuel.
Proof.
  unfold tx_from_bytes. pose proof (read_tx_never_out_of_fuel bs).
  destruct (read_tx bs) as [p n r|?|]; try congruence. destruct (n =? lenN bs); discriminate.
Qed.

(** the same for the allocation-counting versions (section 1) *)
Lemma ert_not_fuel {A} (r : ares A) p : ert r p -> p <> PFuel -> r <> AFuel.
Proof. intros [->|<-] H E; [discriminate|]. apply H. rewrite E. reflexivity. Qed.
Theorem a_decode_total bs :
  a_read_tx bs <> AFuel /\ a_tx_from_stream bs <> AFuel /\ a_read_txs bs <> AFuel /\
  a_read_input false bs <> AFuel /\ a_read_input true bs <> AFuel /\ a_read_output bs <> AFuel.
Proof.
  repeat split;
    [eapply ert_not_fuel; [apply ert_read_tx|apply read_tx_never_out_of_fuel]
    |eapply ert_not_fuel; [apply ert_tx_from_stream|apply read_tx_never_out_of_fuel]
    |eapply ert_not_fuel; [apply ert_read_txs|apply read_txs_never_out_of_fuel]
    |eapply ert_not_fuel; [apply ert_read_input|apply read_input_nf]
    |eapply ert_not_fuel; [apply ert_read_input|apply read_input_nf]
    |eapply ert_not_fuel; [apply ert_read_output|apply read_output_nf]].
Qed.

(** * 3. Bytes consumed never exceed bytes supplied, on success and on error *)

Definition consumed_le {A} (bs : bytes) (r : pres A) : Prop :=
  match r with POk _ n _ => n <= lenN bs | PErr n => n <= lenN bs | PFuel => True end.

Lemma consumed_ok_le {A} bs (r : pres A) : consumed_ok bs r -> consumed_le bs r.
Proof.
  destruct r as [a n rest|n|]; cbn; auto. intros (pre & -> & ->). unfold lenN. rewrite app_length. lia.
Qed.

Theorem consumed_le_tx bs : consumed_le bs (read_tx bs).
Proof. apply consumed_ok_le, read_tx_ok. Qed.
Theorem consumed_le_txs bs : consumed_le bs (read_txs bs).
Proof. apply consumed_ok_le, read_txs_ok. Qed.
Theorem consumed_le_input ext bs : consumed_le bs (read_input ext bs).
Proof. apply consumed_ok_le, read_input_ok. Qed.
Theorem consumed_le_output bs : consumed_le bs (read_output bs).
Proof. apply consumed_ok_le, read_output_ok. Qed.

(** the short varint read that used to report 9/5/3: 1 + what was there *)
Theorem varint_short_read_count bs n : read_varint bs = PErr n -> n <= lenN bs.
Proof. intros H. pose proof (read_varint_ok bs) as K. rewrite H in K. exact K. Qed.

(** * 4. Allocation is linear in the bytes consumed.
    [Q D E r]: on success  alloc <= 32 * consumed + D,  on error  alloc <= 32 * consumed + E.
    D is negative for reads (a k-byte field allocates k and pays for 32k): the surplus pays for the
    per-item structs, so that items satisfy [Q 0 _] and can be repeated by the count loops. *)
Local Open Scope Z_scope.

Definition Q {A} (D E : Z) (r : ares A) : Prop :=
  match r with
  | AOk _ n _ al => Z.of_N al <= 32 * Z.of_N n + D
  | AErr n al => Z.of_N al <= 32 * Z.of_N n + E
  | AFuel => True
  | APanic => True
  end.

Lemma Q_weaken {A} D E D' E' (r : ares A) : Q D E r -> D <= D' -> E <= E' -> Q D' E' r.
Proof. destruct r; cbn; lia. Qed.

Lemma Q_abind {A B} D1 E1 D2 E2 (p : ares A) (f : A -> bytes -> ares B) :
  Q D1 E1 p -> (forall a r, Q D2 E2 (f a r)) -> Q (D1 + D2) (Z.max E1 (D1 + E2)) (abind p f).
Proof.
  intros Hp Hf. destruct p as [a n rest al|n al| |]; cbn [Q abind] in *; try lia.
  specialize (Hf a rest). destruct (f a rest) as [b m r al2|m al2| |]; cbn [Q abind] in *; lia.
Qed.

Lemma Q_request {A} D E x (r : ares A) : Q D E r -> Q D E (a_request x r).
Proof. unfold a_request. destruct (alloc_limit <=? x)%N; [intros; exact I|auto]. Qed.
Lemma Q_int {A} D E x (r : ares A) : Q D E r -> Q D E (a_int_of_u64 x r).
Proof. unfold a_int_of_u64. destruct (two63 <=? x)%N; [intros; exact I|auto]. Qed.
Lemma Q_slice {A} D E lo hi c (r : ares A) : Q D E r -> Q D E (a_slice lo hi c r).
Proof. unfold a_slice. destruct (andb _ _); [auto|intros; exact I]. Qed.
Lemma Q_index {A} D E i l (r : ares A) : Q D E r -> Q D E (a_index i l r).
Proof. unfold a_index. destruct (i <? l)%N; [auto|intros; exact I]. Qed.

Lemma Q_acharge {A} D E x (r : ares A) : Q D E r -> Q (D + Z.of_N x) (E + Z.of_N x) (acharge x r).
Proof. intros H. unfold acharge. apply Q_request. destruct r; cbn [Q] in *; lia. Qed.

Lemma Q_aret {A} (a : A) bs : Q 0 0 (aret a bs).
Proof. cbn [Q aret]. lia. Qed.

Lemma Q_if {A} D1 E1 D2 E2 (c : bool) (a b : ares A) :
  Q D1 E1 a -> Q D2 E2 b -> Q (Z.max D1 D2) (Z.max E1 E2) (if c then a else b).
Proof. intros Ha Hb. destruct c; [eapply Q_weaken; [exact Ha|lia|lia]|eapply Q_weaken; [exact Hb|lia|lia]]. Qed.

Lemma Q_read_full k bs : Q (- 32 * Z.of_nat k) (Z.of_N err_cost) (a_read_full k bs).
Proof.
  unfold a_read_full. destruct (Nat.leb_spec k (length bs)); cbn [Q]; unfold lenN, err_cost; lia.
Qed.

Lemma Q_read_exact k bs :
  Q (16 - 30 * Z.of_nat (S k)) (2 * Z.of_nat (S k) + 16 + Z.of_N err_cost) (a_read_exact (S k) bs).
Proof.
  unfold a_read_exact.
  replace (msize (N.of_nat (S k))) with (2 * N.of_nat (S k) + 16)%N
    by (unfold msize; destruct (N.eqb_spec (N.of_nat (S k)) 0); [lia|reflexivity]).
  eapply Q_weaken; [apply Q_acharge, Q_read_full|lia|lia].
Qed.

(** any width, zero included: never more than it pays for *)
Lemma Q_read_exact_any k bs : Q 0 (2 * Z.of_nat k + 16 + Z.of_N err_cost) (a_read_exact k bs).
Proof.
  unfold a_read_exact. unfold msize. destruct (N.eqb_spec (N.of_nat k) 0).
  - eapply Q_weaken; [apply Q_acharge, Q_read_full|lia|lia].
  - eapply Q_weaken; [apply Q_acharge, Q_read_full|lia|lia].
Qed.

Lemma Q_read_varint bs : Q (-14) 2066 (a_read_varint bs).
Proof.
  unfold a_read_varint.
  eapply Q_weaken;
    [eapply Q_abind; [apply Q_read_exact|]; intros b r; apply Q_index;
     repeat (eapply Q_if; [eapply Q_abind; [apply Q_read_exact|intros; apply Q_index, Q_aret]|]); apply Q_aret
    | unfold err_cost; lia | unfold err_cost; lia].
Qed.

Local Open Scope N_scope.
Lemma chunks_bound fuel l acc bs : lenN acc < l ->
  match a_read_chunks fuel l acc bs with
  | AOk _ n _ al => al <= 6 * n + 2 * lenN acc
  | AErr n al => al <= 8 * n + 4 * lenN acc + 8192 + err_cost
  | AFuel => True
  | APanic => True
  end.
Proof.
  revert acc bs. induction fuel as [|f IH]; intros acc bs Hacc; [exact I|].
  cbn [a_read_chunks]. set (have := lenN acc) in *.
  set (chunk := N.min (l - have) (have + chunk_size)).
  assert (Hc1 : 1 <= chunk) by (unfold chunk, chunk_size; lia).
  assert (Hc2 : chunk <= l - have) by (unfold chunk; lia).
  assert (Hc3 : chunk <= have + 4096) by (unfold chunk, chunk_size; lia).
  destruct (read_into_spec have chunk bs) as [E|E]; rewrite E; [exact I|]. clear E.
  destruct (N.ltb_spec (lenN bs) chunk) as [Hs|Hs]; cbn [abind].
  - unfold grow_cost. lia.
  - set (x := firstn (N.to_nat chunk) bs). set (r := skipn (N.to_nat chunk) bs).
    assert (Hx : lenN x = chunk) by (apply lenN_firstn; exact Hs).
    assert (Hacc' : lenN (acc ++ x) = have + chunk).
    { unfold lenN in *. rewrite app_length. fold have. lia. }
    destruct (N.ltb_spec (lenN (acc ++ x)) l) as [Hl|Hl].
    + specialize (IH (acc ++ x) r Hl). rewrite Hacc' in IH.
      assert (chunk = have + chunk_size) as Hfull by (unfold chunk in *; lia).
      unfold chunk_size in Hfull.
      destruct (a_read_chunks f l (acc ++ x) r) as [b m r' al2|m al2| |]; auto; unfold grow_cost; lia.
    + cbn [aret]. unfold grow_cost. lia.
Qed.
Local Open Scope Z_scope.

Lemma Q_read_bytes l bs : Q 0 10256 (a_read_bytes l bs).
Proof.
  unfold a_read_bytes. destruct (N.leb_spec l chunk_size) as [H|H].
  - apply Q_int. eapply Q_weaken; [apply Q_read_exact_any| |]; unfold err_cost, chunk_size in *; lia.
  - pose proof (chunks_bound (S (length bs)) l [] bs) as K.
    change (lenN []) with 0%N in K. specialize (K ltac:(unfold chunk_size in H; lia)).
    destruct (a_read_chunks (S (length bs)) l [] bs); cbn [Q]; unfold err_cost in *; lia.
Qed.

Lemma Q_read_script bs : Q (-14) 10256 (a_read_script bs).
Proof.
  unfold a_read_script.
  eapply Q_weaken;
    [eapply Q_abind; [apply Q_read_varint|]; intros lm r;
     eapply Q_abind; [apply Q_read_bytes|]; intros; apply Q_aret | lia | lia].
Qed.

Ltac q_step :=
  first [ eapply Q_abind; [first [apply Q_read_exact | apply Q_read_full | apply Q_read_script | apply Q_read_varint]|]; intros
        | apply Q_acharge
        | apply Q_index
        | apply Q_aret ].

(** one input: at most 32 bytes per byte read, with at least 1102 bytes to spare on success *)
Lemma Q_read_input ext bs : Q (-1102) 10256 (a_read_input ext bs).
Proof.
  unfold a_read_input.
  eapply Q_weaken.
  - do 4 q_step. do 3 q_step. eapply Q_if.
    + do 2 q_step. do 3 q_step.
    + q_step.
  - unfold script_hdr, err_cost. lia.
  - unfold script_hdr, err_cost. lia.
Qed.

Lemma Q_read_output bs : Q (-206) 10256 (a_read_output bs).
Proof.
  unfold a_read_output.
  eapply Q_weaken.
  - do 2 q_step. do 3 q_step.
  - unfold script_hdr, err_cost. lia.
  - unfold script_hdr, err_cost. lia.
Qed.

Lemma Q_read_many {A} (p : aparser (A * bool)) Di Ei cost :
  (forall b, Q Di Ei (p b)) -> Di + Z.of_N cost <= 0 -> 0 <= Ei + Z.of_N cost ->
  forall fuel count done bs, Q 0 (Ei + Z.of_N cost) (a_read_many fuel cost p count done bs).
Proof.
  intros Hp HD HE. induction fuel as [|f IH]; intros count done bs; cbn [a_read_many];
    destruct (count =? 0)%N; try (eapply Q_weaken; [apply Q_aret|lia|lia]); [exact I|].
  eapply Q_weaken.
  - eapply Q_abind; [apply Q_acharge, Hp|]. intros xm r. apply Q_request.
    eapply Q_abind; [apply IH|]. intros. apply Q_aret.
  - lia.
  - lia.
Qed.

Lemma Q_read_tx_body fuel ver ext ic oc m0 bs : Q (-128) 10384 (a_read_tx_body fuel ver ext ic oc m0 bs).
Proof.
  unfold a_read_tx_body.
  eapply Q_weaken.
  - eapply Q_abind; [apply (Q_read_many (a_read_input ext) (-1102) 10256 (input_struct + append_cost));
                     [intros; apply Q_read_input|cbn; lia|cbn; lia]|]. intros ins ra.
    eapply Q_abind; [instantiate (1 := 2066); instantiate (1 := 0);
                     destruct oc; [eapply Q_weaken; [apply Q_aret|lia|lia]
                                  |eapply Q_weaken; [apply Q_read_varint|lia|lia]]|]. intros ocv rb.
    eapply Q_abind; [apply (Q_read_many a_read_output (-206) 10256 (output_struct + append_cost));
                     [intros; apply Q_read_output|cbn; lia|cbn; lia]|]. intros outs rc.
    q_step. q_step. q_step.
  - cbn. lia.
  - cbn. lia.
Qed.

Lemma Q_read_tx bs : Q (-222) 10500 (a_read_tx bs).
Proof.
  unfold a_read_tx.
  eapply Q_weaken.
  - q_step. q_step. q_step. q_step.
    eapply Q_if; [|apply Q_read_tx_body].
    q_step. eapply Q_if; [|apply Q_read_tx_body].
    q_step. q_step. eapply Q_if; [|q_step].
    q_step. apply Q_read_tx_body.
  - cbn. lia.
  - cbn. lia.
Qed.

Lemma Q_tx_from_stream bs : Q 0 10700 (a_tx_from_stream bs).
Proof.
  unfold a_tx_from_stream. eapply Q_weaken; [apply Q_acharge, Q_read_tx|cbn; lia|cbn; lia].
Qed.

Lemma Q_read_txs bs : Q 0 10700 (a_read_txs bs).
Proof.
  unfold a_read_txs.
  eapply Q_weaken.
  - q_step.
    eapply Q_abind; [apply (Q_read_many _ (-222) 10500 (tx_struct + append_cost));
                     [intros b; pose proof (Q_read_tx b) as K; destruct (a_read_tx b); exact K|cbn; lia|cbn; lia]|].
    intros. q_step.
  - cbn. lia.
  - cbn. lia.
Qed.

(** ** the statements: allocation against the length of the input *)
Local Open Scope N_scope.

Lemma Q_alloc_bound {A} D E (r : ares A) p bs :
  Q D E r -> ert r p -> consumed_le bs p -> (D <= 16384)%Z -> (E <= 16384)%Z -> alloc_of r <= alloc_bound (lenN bs).
Proof.
  unfold alloc_bound, alloc_c, alloc_k. intros HQ [->|<-]; [cbn; lia|].
  destruct r; cbn [Q alloc_of erase consumed_le] in *; lia.
Qed.

(** (a panic counts as no allocation here: section 5 shows there is none below [input_limit]) *)
Theorem alloc_linear_tx bs : alloc_of (a_read_tx bs) <= alloc_bound (lenN bs).
Proof.
  eapply Q_alloc_bound; [apply Q_read_tx|apply ert_read_tx|apply consumed_le_tx|lia|lia].
Qed.
Theorem alloc_linear_stream bs : alloc_of (a_tx_from_stream bs) <= alloc_bound (lenN bs).
Proof.
  eapply Q_alloc_bound; [apply Q_tx_from_stream|apply ert_tx_from_stream|apply consumed_le_tx|lia|lia].
Qed.
Theorem alloc_linear_txs bs : alloc_of (a_read_txs bs) <= alloc_bound (lenN bs).
Proof.
  eapply Q_alloc_bound; [apply Q_read_txs|apply ert_read_txs|apply consumed_le_txs|lia|lia].
Qed.
Theorem alloc_linear_input ext bs : alloc_of (a_read_input ext bs) <= alloc_bound (lenN bs).
Proof.
  eapply Q_alloc_bound; [apply Q_read_input|apply ert_read_input|apply consumed_le_input|lia|lia].
Qed.
Theorem alloc_linear_output bs : alloc_of (a_read_output bs) <= alloc_bound (lenN bs).
Proof.
  eapply Q_alloc_bound; [apply Q_read_output|apply ert_read_output|apply consumed_le_output|lia|lia].
Qed.

(** in particular no allocation request comes near Go's maxAlloc (2^48 on linux/amd64) for any
    input shorter than 2^42 bytes: every single request is a summand of the total *)
Theorem alloc_below_maxalloc bs : lenN bs < 2 ^ 42 ->
  alloc_of (a_read_tx bs) < 2 ^ 48 /\ alloc_of (a_read_txs bs) < 2 ^ 48.
Proof.
  intros H. pose proof (alloc_linear_tx bs). pose proof (alloc_linear_txs bs).
  unfold alloc_bound, alloc_c, alloc_k in *. lia.
Qed.

(** * 5. No panic: on an input of at most [input_limit] = 2^42 bytes no entry point answers [APanic],
    whatever the length and count fields claim.
    [safeP P d bs r]: [r] is not a panic, and when it is a value, the value satisfies [P] and the remaining
    input is at least [d] bytes shorter than [bs] (what the loops need: a script chunk is sized by the bytes
    already read, the slice of pointers by the items already read, and each item is at least a byte). *)

Definition safeP {A} (P : A -> Prop) (d : nat) (bs : bytes) (r : ares A) : Prop :=
  match r with
  | APanic => False
  | AOk a _ rest _ => P a /\ (length rest + d <= length bs)%nat
  | _ => True
  end.
Notation safe := (safeP (fun _ => True)).

Lemma alloc_limit_val : alloc_limit = 140737488355328. Proof. reflexivity. Qed.
Lemma two63_val : two63 = 9223372036854775808. Proof. reflexivity. Qed.
Lemma input_limit_val : input_limit = 4398046511104. Proof. reflexivity. Qed.

Lemma safeP_abind {A B} (P : A -> Prop) (R : B -> Prop) d1 d bs (p : ares A) (f : A -> bytes -> ares B) :
  safeP P d1 bs p ->
  (forall a rest, P a -> (length rest + d1 <= length bs)%nat -> safeP R 0 rest (f a rest)) ->
  (d <= d1)%nat -> safeP R d bs (abind p f).
Proof.
  intros Hp Hf Hd. destruct p as [a n rest al|n al| |]; cbn in *; auto. destruct Hp as [Pa Hl].
  specialize (Hf a rest Pa Hl). destruct (f a rest); cbn in *; auto. destruct Hf; split; auto; lia.
Qed.

Lemma safeP_weaken {A} (P R : A -> Prop) d d' bs (r : ares A) :
  safeP P d bs r -> (forall a, P a -> R a) -> (d' <= d)%nat -> safeP R d' bs r.
Proof. destruct r; cbn; auto. intros [Pa Hl] H Hd; split; auto; lia. Qed.

Lemma safe_request {A} (P : A -> Prop) d bs x (r : ares A) :
  x < alloc_limit -> safeP P d bs r -> safeP P d bs (a_request x r).
Proof. intros H. unfold a_request. destruct (N.leb_spec alloc_limit x); [lia|auto]. Qed.
Lemma safe_int {A} (P : A -> Prop) d bs x (r : ares A) :
  x < two63 -> safeP P d bs r -> safeP P d bs (a_int_of_u64 x r).
Proof. intros H. unfold a_int_of_u64. destruct (N.leb_spec two63 x); [lia|auto]. Qed.
Lemma safe_slice {A} (P : A -> Prop) d bs lo hi c (r : ares A) :
  lo <= hi -> hi <= c -> safeP P d bs r -> safeP P d bs (a_slice lo hi c r).
Proof.
  intros H1 H2. unfold a_slice. destruct (N.leb_spec lo hi); [|lia]. destruct (N.leb_spec hi c); [|lia]. auto.
Qed.
Lemma safe_index {A} (P : A -> Prop) d bs i l (r : ares A) :
  i < l -> safeP P d bs r -> safeP P d bs (a_index i l r).
Proof. intros H. unfold a_index. destruct (N.ltb_spec i l); [auto|lia]. Qed.
Lemma safe_acharge {A} (P : A -> Prop) d bs x (r : ares A) :
  x < alloc_limit -> safeP P d bs r -> safeP P d bs (acharge x r).
Proof. intros H Hr. unfold acharge. apply safe_request; [exact H|]. destruct r; cbn in *; auto. Qed.
Lemma safe_aret {A} (P : A -> Prop) (a : A) bs : P a -> safeP P 0 bs (aret a bs).
Proof. intros H. cbn. split; [exact H|lia]. Qed.

Lemma safe_read_full k bs : safeP (fun x => length x = k) k bs (a_read_full k bs).
Proof.
  unfold a_read_full. destruct (Nat.leb_spec k (length bs)); cbn; [|exact I].
  rewrite firstn_length, skipn_length. lia.
Qed.

Lemma msize_small k : k <= chunk_size -> msize k < alloc_limit.
Proof. rewrite alloc_limit_val. unfold msize, chunk_size. destruct (k =? 0); lia. Qed.

Lemma safe_read_exact k bs : msize (N.of_nat k) < alloc_limit ->
  safeP (fun x => length x = k) k bs (a_read_exact k bs).
Proof. intros H. unfold a_read_exact. apply safe_acharge; [exact H|apply safe_read_full]. Qed.

Ltac lenlia := unfold lenN in *; rewrite ?input_limit_val in *; lia.

Lemma safe_read_varint bs : safe 1 bs (a_read_varint bs).
Proof.
  unfold a_read_varint.
  eapply safeP_abind; [apply safe_read_exact; reflexivity| |lia]. intros b r Hb Hl.
  apply safe_index; [lenlia|].
  repeat match goal with |- safeP _ _ _ (if ?c then _ else _) => destruct c end;
    try (eapply safeP_abind; [apply safe_read_exact; reflexivity| |apply Nat.le_0_l]; intros x r2 Hx Hl2;
         apply safe_index; [lenlia|apply safe_aret; exact I]);
    apply safe_aret; exact I.
Qed.

(** one pass of the readBytes loop when its sizes are in range *)
Lemma read_into_ok have chunk bs : chunk < two63 -> grow_cost have chunk < alloc_limit ->
  a_read_into have chunk bs =
    if lenN bs <? chunk then AErr (lenN bs) (grow_cost have chunk + err_cost)
    else AOk (firstn (N.to_nat chunk) bs) chunk (skipn (N.to_nat chunk) bs) (grow_cost have chunk + 0).
Proof.
  intros H1 H2. unfold a_read_into, a_int_of_u64, acharge, a_request, a_slice.
  destruct (N.leb_spec two63 chunk); [lia|]. destruct (N.leb_spec alloc_limit (grow_cost have chunk)); [lia|].
  destruct (N.leb_spec have (have + chunk)); [|lia]. destruct (N.leb_spec (have + chunk) (have + chunk)); [|lia].
  cbn [andb]. destruct (N.ltb_spec (lenN bs) chunk); [|reflexivity].
  destruct (N.leb_spec 0 (have + lenN bs)); [|lia].
  destruct (N.leb_spec (have + lenN bs) (have + chunk)); [|lia]. reflexivity.
Qed.

Lemma safe_chunks fuel l acc bs : lenN acc + lenN bs <= input_limit -> lenN acc < l ->
  safe 0 bs (a_read_chunks fuel l acc bs).
Proof.
  revert acc bs. induction fuel as [|f IH]; intros acc bs HL Hacc; [exact I|].
  cbn [a_read_chunks]. set (have := lenN acc) in *.
  set (chunk := N.min (l - have) (have + chunk_size)).
  assert (Hc3 : chunk <= have + 4096) by (unfold chunk, chunk_size; lia).
  rewrite read_into_ok;
    [|rewrite two63_val; rewrite input_limit_val in HL; lia
     |rewrite alloc_limit_val; unfold grow_cost; rewrite input_limit_val in HL; lia].
  destruct (N.ltb_spec (lenN bs) chunk) as [Hs|Hs]; cbn [abind]; [exact I|].
  set (x := firstn (N.to_nat chunk) bs). set (r := skipn (N.to_nat chunk) bs).
  assert (Hx : lenN x = chunk) by (apply lenN_firstn; exact Hs).
  assert (Hr : lenN r = lenN bs - chunk) by apply lenN_skipn.
  assert (Hacc' : lenN (acc ++ x) = have + chunk).
  { unfold lenN in *. rewrite app_length. fold have. lia. }
  destruct (N.ltb_spec (lenN (acc ++ x)) l) as [Hl|Hl].
  - specialize (IH (acc ++ x) r ltac:(lia) Hl).
    destruct (a_read_chunks f l (acc ++ x) r); cbn in *; auto. destruct IH as [_ IH]. split; [exact I|]. lenlia.
  - cbn. split; [exact I|]. lenlia.
Qed.

Lemma safe_read_bytes l bs : lenN bs <= input_limit -> safe 0 bs (a_read_bytes l bs).
Proof.
  intros HL. unfold a_read_bytes. destruct (N.leb_spec l chunk_size) as [H|H].
  - apply safe_int; [rewrite two63_val; unfold chunk_size in H; lia|].
    eapply safeP_weaken; [apply safe_read_exact; apply msize_small; lia|auto|lia].
  - apply safe_chunks; [change (lenN []) with 0; lia|change (lenN []) with 0; unfold chunk_size in H; lia].
Qed.

Lemma safe_read_script bs : lenN bs <= input_limit -> safe 1 bs (a_read_script bs).
Proof.
  intros HL. unfold a_read_script.
  eapply safeP_abind; [apply safe_read_varint| |lia]. intros lm r _ Hl.
  eapply safeP_abind; [apply safe_read_bytes; lenlia| |lia]. intros s r2 _ Hl2. apply safe_aret; exact I.
Qed.

Ltac sf_step :=
  first [ eapply safeP_abind;
            [first [apply safe_read_exact; reflexivity | apply safe_read_full
                   | apply safe_read_script; lenlia | apply safe_read_varint]
            |intros ? ? ? ?|lia]
        | apply safe_acharge; [reflexivity|]
        | apply safe_index; [lenlia|]
        | apply safe_aret; exact I ].

Ltac sf_case := match goal with |- safeP _ _ _ (if ?c then _ else _) => destruct c end.

Lemma safe_read_input ext bs : lenN bs <= input_limit -> safe 1 bs (a_read_input ext bs).
Proof.
  intros HL. unfold a_read_input. do 4 sf_step. do 3 sf_step. destruct ext; repeat sf_step.
Qed.

Lemma safe_read_output bs : lenN bs <= input_limit -> safe 1 bs (a_read_output bs).
Proof. intros HL. unfold a_read_output. repeat sf_step. Qed.

Lemma safe_read_many {A} (p : aparser (A * bool)) cost :
  (forall b, lenN b <= input_limit -> safe 1 b (p b)) -> cost < alloc_limit ->
  forall fuel count done bs, done + lenN bs <= input_limit -> safe 0 bs (a_read_many fuel cost p count done bs).
Proof.
  intros Hp Hc. induction fuel as [|f IH]; intros count done bs HL; cbn [a_read_many];
    destruct (count =? 0); try (apply safe_aret; exact I); [exact I|].
  eapply safeP_abind; [apply safe_acharge; [exact Hc|apply Hp; lia]| |lia]. intros xm r _ Hl.
  apply safe_request; [rewrite alloc_limit_val; unfold slice_grow; rewrite input_limit_val in HL; lia|].
  eapply safeP_abind; [apply IH; lenlia| |lia]. intros. apply safe_aret; exact I.
Qed.

Lemma safe_read_tx_body fuel ver ext ic oc m0 bs : lenN bs <= input_limit ->
  safe 0 bs (a_read_tx_body fuel ver ext ic oc m0 bs).
Proof.
  intros HL. unfold a_read_tx_body.
  eapply safeP_abind; [apply (safe_read_many (a_read_input ext));
                       [intros; apply safe_read_input; assumption|reflexivity|lia]| |lia]. intros ins ra _ Hl1.
  eapply safeP_abind with (d1 := 0%nat) (P := fun _ => True);
    [destruct oc; [apply safe_aret; exact I|eapply safeP_weaken; [apply safe_read_varint|auto|lia]]| |lia].
  intros ocv rb _ Hl2.
  eapply safeP_abind; [apply (safe_read_many a_read_output);
                       [intros; apply safe_read_output; assumption|reflexivity|lenlia]| |lia]. intros outs rc _ Hl3.
  repeat sf_step.
Qed.

Lemma safe_read_tx bs : lenN bs <= input_limit -> safe 1 bs (a_read_tx bs).
Proof.
  intros HL. unfold a_read_tx. do 4 sf_step.
  sf_case; [|apply safe_read_tx_body; lenlia].
  sf_step. sf_case; [|apply safe_read_tx_body; lenlia].
  do 2 sf_step. sf_case; [|sf_step].
  sf_step. apply safe_read_tx_body; lenlia.
Qed.

Lemma safe_tx_from_stream bs : lenN bs <= input_limit -> safe 1 bs (a_tx_from_stream bs).
Proof. intros HL. unfold a_tx_from_stream. apply safe_acharge; [reflexivity|apply safe_read_tx; exact HL]. Qed.

Lemma safe_read_txs bs : lenN bs <= input_limit -> safe 1 bs (a_read_txs bs).
Proof.
  intros HL. unfold a_read_txs. sf_step.
  eapply safeP_abind; [apply safe_read_many; [|reflexivity|lenlia]| |lia].
  - intros b Hb. pose proof (safe_read_tx b Hb) as K. destruct (a_read_tx b); cbn in *; auto.
  - intros. apply safe_aret; exact I.
Qed.

Lemma safe_not_panic {A} (P : A -> Prop) d bs (r : ares A) : safeP P d bs r -> r <> APanic.
Proof. intros H E. rewrite E in H. exact H. Qed.

Theorem no_panic_tx bs : lenN bs <= input_limit -> a_read_tx bs <> APanic.
Proof. intros H. eapply safe_not_panic, safe_read_tx, H. Qed.
Theorem no_panic_stream bs : lenN bs <= input_limit -> a_tx_from_stream bs <> APanic.
Proof. intros H. eapply safe_not_panic, safe_tx_from_stream, H. Qed.
Theorem no_panic_txs bs : lenN bs <= input_limit -> a_read_txs bs <> APanic.
Proof. intros H. eapply safe_not_panic, safe_read_txs, H. Qed.
Theorem no_panic_input ext bs : lenN bs <= input_limit -> a_read_input ext bs <> APanic.
Proof. intros H. eapply safe_not_panic, safe_read_input, H. Qed.
Theorem no_panic_output bs : lenN bs <= input_limit -> a_read_output bs <> APanic.
Proof. intros H. eapply safe_not_panic, safe_read_output, H. Qed.

(** the pieces, for every input (no hypothesis): the fixed-width reads and the varint never panic *)
Theorem no_panic_varint bs : a_read_varint bs <> APanic.
Proof. eapply safe_not_panic, safe_read_varint. Qed.

(** ** with the panic excluded, the erasure statements of section 1 are equations *)
Lemma ert_erase {A} (r : ares A) p : ert r p -> r <> APanic -> erase r = p.
Proof. intros [E|E] H; [contradiction|exact E]. Qed.

Theorem erase_read_tx bs : lenN bs <= input_limit -> erase (a_read_tx bs) = read_tx bs.
Proof. intros H. apply ert_erase; [apply ert_read_tx|apply no_panic_tx, H]. Qed.
Theorem erase_tx_from_stream bs : lenN bs <= input_limit -> erase (a_tx_from_stream bs) = read_tx bs.
Proof. intros H. apply ert_erase; [apply ert_tx_from_stream|apply no_panic_stream, H]. Qed.
Theorem erase_read_txs bs : lenN bs <= input_limit -> erase (a_read_txs bs) = read_txs bs.
Proof. intros H. apply ert_erase; [apply ert_read_txs|apply no_panic_txs, H]. Qed.
Theorem erase_read_input ext bs : lenN bs <= input_limit -> erase (a_read_input ext bs) = read_input ext bs.
Proof. intros H. apply ert_erase; [apply ert_read_input|apply no_panic_input, H]. Qed.
Theorem erase_read_output bs : lenN bs <= input_limit -> erase (a_read_output bs) = read_output bs.
Proof. intros H. apply ert_erase; [apply ert_read_output|apply no_panic_output, H]. Qed.

(** every entry point answers with a value or an error - not a panic, not the fuel artefact *)
Definition a_answers {A} (r : ares A) : Prop :=
  match r with AOk _ _ _ _ => True | AErr _ _ => True | AFuel => False | APanic => False end.

Lemma a_answers_intro {A} (r : ares A) : r <> APanic -> r <> AFuel -> a_answers r.
Proof. destruct r; cbn; auto. Qed.

Theorem a_answers_all bs : lenN bs <= input_limit ->
  a_answers (a_read_tx bs) /\ a_answers (a_tx_from_stream bs) /\ a_answers (a_read_txs bs) /\
  a_answers (a_read_input false bs) /\ a_answers (a_read_input true bs) /\ a_answers (a_read_output bs).
Proof.
  intros H. destruct (a_decode_total bs) as (F1 & F2 & F3 & F4 & F5 & F6).
  repeat split; apply a_answers_intro; auto using no_panic_tx, no_panic_stream, no_panic_txs, no_panic_input, no_panic_output.
Qed.

(** * 6. The bound of section 5 is needed: a script that is really there and is 2^46 bytes long or more
    makes readBytes panic in the model (the chunk loop asks for twice what it has read, plus 4096). *)

Lemma chunks_panic fuel l acc bs : (length bs < fuel)%nat -> lenN acc < l -> l - lenN acc <= lenN bs ->
  2 ^ 46 <= l -> l < two63 -> a_read_chunks fuel l acc bs = APanic.
Proof.
  change (2 ^ 46) with 70368744177664. rewrite two63_val.
  revert acc bs. induction fuel as [|f IH]; intros acc bs Hf Hacc Hd Hl1 Hl2; [lia|].
  cbn [a_read_chunks]. set (have := lenN acc) in *.
  set (chunk := N.min (l - have) (have + chunk_size)).
  assert (Hc1 : 1 <= chunk) by (unfold chunk, chunk_size; lia).
  assert (Hc2 : chunk <= l - have) by (unfold chunk; lia).
  destruct (N.leb_spec alloc_limit (grow_cost have chunk)) as [Hg|Hg].
  - assert (E : a_read_into have chunk bs = APanic).
    { unfold a_read_into, a_int_of_u64, acharge, a_request. destruct (two63 <=? chunk); [reflexivity|].
      destruct (N.leb_spec alloc_limit (grow_cost have chunk)); [reflexivity|lia]. }
    rewrite E. reflexivity.
  - rewrite read_into_ok; [|rewrite two63_val; lia|exact Hg].
    destruct (N.ltb_spec (lenN bs) chunk) as [Hs|Hs]; [lia|]. cbn [abind].
    set (x := firstn (N.to_nat chunk) bs). set (r := skipn (N.to_nat chunk) bs).
    assert (Hx : lenN x = chunk) by (apply lenN_firstn; exact Hs).
    assert (Hr : lenN r = lenN bs - chunk) by apply lenN_skipn.
    assert (Hacc' : lenN (acc ++ x) = have + chunk).
    { unfold lenN in *. rewrite app_length. fold have. lia. }
    destruct (N.ltb_spec (lenN (acc ++ x)) l) as [Hl|Hl].
    + rewrite IH; [reflexivity|unfold lenN in *; lia|exact Hl|lia|lia|lia].
    + exfalso. rewrite alloc_limit_val in Hg. unfold grow_cost in Hg. lia.
Qed.

Theorem huge_script_panics l bs : 2 ^ 46 <= l -> l < two63 -> l <= lenN bs -> a_read_bytes l bs = APanic.
Proof.
  intros H1 H2 H3. unfold a_read_bytes.
  assert (H1' : 70368744177664 <= l) by exact H1.
  destruct (N.leb_spec l chunk_size) as [H|H]; [unfold chunk_size in H; lia|].
  apply chunks_panic; [lia|change (lenN []) with 0; lia|change (lenN []) with 0; lia|exact H1|exact H2].
Qed.

Lemma a_read_exact_app k pre rest : length pre = k -> msize (N.of_nat k) < alloc_limit ->
  a_read_exact k (pre ++ rest) = AOk pre (N.of_nat k) rest (msize (N.of_nat k) + 0).
Proof.
  intros Hk Hm. unfold a_read_exact, a_read_full, acharge, a_request.
  destruct (N.leb_spec alloc_limit (msize (N.of_nat k))); [lia|].
  rewrite app_length. destruct (Nat.leb_spec k (length pre + length rest)); [|lia].
  subst k. rewrite firstn_app, Nat.sub_diag, firstn_all, skipn_app, Nat.sub_diag, skipn_all. cbn [firstn skipn].
  rewrite app_nil_r. reflexivity.
Qed.

(** an output whose script length field says 2^46 and whose script IS 2^46 bytes long: Output.ReadFrom
    panics in the model, on an input of 2^46 + 17 bytes *)
Theorem huge_output_panics sats data : length sats = 8%nat -> lenN data = 2 ^ 46 ->
  a_read_output (sats ++ [xff] ++ le_enc 8 (2 ^ 46) ++ data) = APanic.
Proof.
  intros Hs Hd. unfold a_read_output.
  rewrite (a_read_exact_app 8 sats) by (auto; reflexivity). cbn [abind].
  assert (E : a_read_script ([xff] ++ le_enc 8 (2 ^ 46) ++ data) = APanic).
  { unfold a_read_script, a_read_varint.
    rewrite (a_read_exact_app 1 [xff]) by (auto; reflexivity). cbn [abind].
    change (a_index 0 (lenN [xff])) with (fun r : ares (N * bool) => r). cbv beta.
    change (match [xff] with c :: _ => b2n c | [] => 0 end =? 255) with true. cbv iota.
    rewrite (a_read_exact_app 8 (le_enc 8 (2 ^ 46))) by (auto; reflexivity). cbn [abind].
    change (lenN (le_enc 8 (2 ^ 46))) with 8. change (a_index 7 8) with (fun r : ares (N * bool) => r). cbv beta.
    cbn [aret fst snd]. rewrite le_dec_enc by reflexivity.
    change (b2n xff =? 255) with true. cbv iota. cbn [abind fst].
    rewrite huge_script_panics; [reflexivity|lia|reflexivity|lia]. }
  rewrite E. reflexivity.
Qed.
