(** C09: proofs about the allocation-counting decoders (model/Alloc.v).
    1. erasing the counter gives back the decoders of model/Tx.v (so the C01 theorems apply);
    2. every decoding entry point answers POk or PErr (never the fuel artefact);
    3. bytes reported as consumed never exceed the bytes supplied, on success and on error;
    4. allocation is bounded by [alloc_bound (length input)] = 32 * length + 16384. *)
From Coq Require Import List NArith ZArith Lia ZifyN ZifyNat ZifyBool Bool.
From Coq Require Import Strings.Byte.
From GoBT Require Import lib.Bytes lib.Parse lib.VarInt lib.Sha256 model.Tx proofs.TxProofs model.Alloc.
Import ListNotations.
Local Open Scope N_scope.

(** * 1. Erasure *)

Lemma erase_abind {A B} (p : ares A) (f : A -> bytes -> ares B) :
  erase (abind p f) = pbind (erase p) (fun a r => erase (f a r)).
Proof.
  destruct p as [a n rest al|n al|]; cbn; auto.
  destruct (f a rest) as [b m r al2|m al2|]; cbn; auto.
Qed.

Lemma erase_acharge {A} x (r : ares A) : erase (acharge x r) = erase r.
Proof. destruct r; reflexivity. Qed.

Lemma pbind_ext {A B} (p : pres A) (f g : A -> bytes -> pres B) :
  (forall a r, f a r = g a r) -> pbind p f = pbind p g.
Proof. intros H. destruct p; cbn; auto. rewrite H. reflexivity. Qed.

Lemma erase_read_full k bs : erase (a_read_full k bs) = read_exact k bs.
Proof. unfold a_read_full, read_exact. destruct (Nat.leb k (length bs)); reflexivity. Qed.

Lemma erase_read_exact k bs : erase (a_read_exact k bs) = read_exact k bs.
Proof. unfold a_read_exact. rewrite erase_acharge. apply erase_read_full. Qed.

Lemma erase_read_varint bs : erase (a_read_varint bs) = read_varint bs.
Proof.
  unfold a_read_varint, read_varint. rewrite erase_abind, erase_read_exact.
  apply pbind_ext. intros b r.
  repeat match goal with |- context [if ?c then _ else _] => destruct c end;
    try (rewrite erase_abind, erase_read_exact; apply pbind_ext; intros; reflexivity); reflexivity.
Qed.

Lemma firstn_add {A} (a b : nat) (l : list A) : firstn (a + b) l = firstn a l ++ firstn b (skipn a l).
Proof.
  revert l; induction a as [|a IH]; intros l; [reflexivity|].
  destruct l as [|x l]; cbn [Nat.add firstn skipn app]; [destruct b; reflexivity|].
  rewrite IH. reflexivity.
Qed.

Lemma skipn_add {A} (a b : nat) (l : list A) : skipn b (skipn a l) = skipn (a + b) l.
Proof.
  revert l; induction a as [|a IH]; intros l; [reflexivity|].
  destruct l as [|x l]; cbn [Nat.add skipn]; [destruct b; reflexivity|]. apply IH.
Qed.

Lemma lenN_firstn (k : N) (bs : bytes) : k <= lenN bs -> lenN (firstn (N.to_nat k) bs) = k.
Proof. unfold lenN. intros H. rewrite firstn_length. lia. Qed.

Lemma lenN_skipn (k : N) (bs : bytes) : lenN (skipn (N.to_nat k) bs) = lenN bs - k.
Proof. unfold lenN. rewrite skipn_length. lia. Qed.

Lemma erase_chunks fuel l acc bs : (length bs < fuel)%nat -> lenN acc < l ->
  erase (a_read_chunks fuel l acc bs) =
  if lenN bs <? l - lenN acc then PErr (lenN bs)
  else POk (acc ++ firstn (N.to_nat (l - lenN acc)) bs) (l - lenN acc) (skipn (N.to_nat (l - lenN acc)) bs).
Proof.
  revert acc bs. induction fuel as [|f IH]; intros acc bs Hf Hacc; [lia|].
  cbn [a_read_chunks]. set (have := lenN acc) in *.
  set (chunk := N.min (l - have) (have + chunk_size)).
  assert (Hc1 : 1 <= chunk) by (unfold chunk, chunk_size; lia).
  assert (Hc2 : chunk <= l - have) by (unfold chunk; lia).
  rewrite erase_abind. unfold a_read_into.
  destruct (N.ltb_spec (lenN bs) chunk) as [Hs|Hs]; cbn [erase pbind].
  - destruct (N.ltb_spec (lenN bs) (l - have)); [reflexivity|lia].
  - set (x := firstn (N.to_nat chunk) bs). set (r := skipn (N.to_nat chunk) bs).
    assert (Hx : lenN x = chunk) by (apply lenN_firstn; exact Hs).
    assert (Hr : lenN r = lenN bs - chunk) by apply lenN_skipn.
    assert (Hacc' : lenN (acc ++ x) = have + chunk).
    { unfold lenN in *. rewrite app_length. fold have. lia. }
    destruct (N.ltb_spec (lenN (acc ++ x)) l) as [Hl|Hl].
    + rewrite IH; [|unfold lenN in *; lia|exact Hl].
      rewrite Hacc'.
      replace (l - (have + chunk)) with (l - have - chunk) by lia.
      destruct (N.ltb_spec (lenN r) (l - have - chunk)) as [H1|H1];
        destruct (N.ltb_spec (lenN bs) (l - have)) as [H2|H2]; try lia.
      * f_equal. lia.
      * f_equal; [| lia |].
        -- rewrite <- app_assoc. f_equal.
           replace (N.to_nat (l - have)) with (N.to_nat chunk + N.to_nat (l - have - chunk))%nat by lia.
           apply eq_sym, firstn_add.
        -- unfold r. rewrite skipn_add. f_equal. lia.
    + cbn [aret erase]. assert (chunk = l - have) as E by lia.
      destruct (N.ltb_spec (lenN bs) (l - have)); [lia|].
      rewrite <- E. f_equal. lia.
Qed.

Lemma erase_read_bytes l bs :
  erase (a_read_bytes l bs) = if lenN bs <? l then PErr (lenN bs) else read_exact (N.to_nat l) bs.
Proof.
  unfold a_read_bytes. destruct (N.leb_spec l chunk_size) as [H|H].
  - rewrite erase_read_exact. unfold read_exact.
    destruct (N.ltb_spec (lenN bs) l) as [H1|H1]; [|reflexivity].
    destruct (Nat.leb_spec (N.to_nat l) (length bs)); [unfold lenN in *; lia|reflexivity].
  - rewrite erase_chunks; [|lia|unfold chunk_size in *; cbn; lia].
    change (lenN []) with 0. rewrite N.sub_0_r.
    destruct (N.ltb_spec (lenN bs) l) as [H1|H1]; [reflexivity|].
    unfold read_exact. destruct (Nat.leb_spec (N.to_nat l) (length bs)); [|unfold lenN in *; lia].
    cbn [app]. f_equal. lia.
Qed.

Lemma erase_read_script bs : erase (a_read_script bs) = read_script_safe bs.
Proof.
  unfold a_read_script, read_script_safe. rewrite erase_abind, erase_read_varint.
  apply pbind_ext. intros lm r. rewrite erase_abind, erase_read_bytes.
  destruct (lenN r <? fst lm); reflexivity.
Qed.

Lemma erase_read_input ext bs : erase (a_read_input ext bs) = read_input ext bs.
Proof.
  unfold a_read_input, read_input.
  rewrite erase_abind, erase_read_exact. apply pbind_ext; intros txidw r1.
  rewrite erase_abind, erase_read_exact. apply pbind_ext; intros vout r2.
  rewrite erase_abind, erase_read_script. apply pbind_ext; intros sm r3.
  rewrite erase_abind, erase_read_exact. apply pbind_ext; intros sq r4.
  rewrite erase_acharge. destruct ext; [|reflexivity].
  rewrite erase_abind, erase_read_exact. apply pbind_ext; intros sats r5.
  rewrite erase_abind, erase_read_script. apply pbind_ext; intros pm r6.
  rewrite erase_acharge. reflexivity.
Qed.

Lemma erase_read_output bs : erase (a_read_output bs) = read_output bs.
Proof.
  unfold a_read_output, read_output.
  rewrite erase_abind, erase_read_exact. apply pbind_ext; intros sats r1.
  rewrite erase_abind, erase_read_script. apply pbind_ext; intros sm r2.
  rewrite erase_acharge. reflexivity.
Qed.

Lemma erase_read_many {A} (ap : aparser (A * bool)) (p : parser (A * bool)) cost :
  (forall b, erase (ap b) = p b) ->
  forall fuel count bs, erase (a_read_many fuel cost ap count bs) = read_many fuel p count bs.
Proof.
  intros Hp. induction fuel as [|f IH]; intros count bs; cbn [a_read_many read_many];
    destruct (count =? 0); try reflexivity.
  rewrite erase_abind, erase_acharge, Hp. apply pbind_ext; intros xm r.
  rewrite erase_abind, IH. reflexivity.
Qed.

Lemma erase_read_tx_body fuel ver ext ic oc m0 bs :
  erase (a_read_tx_body fuel ver ext ic oc m0 bs) = read_tx_body fuel ver ext ic oc m0 bs.
Proof.
  unfold a_read_tx_body, read_tx_body.
  rewrite erase_abind, (erase_read_many _ (read_input ext)) by apply erase_read_input.
  apply pbind_ext; intros ins ra.
  rewrite erase_abind.
  replace (erase (match oc with Some c => aret (c, true) | None => a_read_varint end ra))
    with ((match oc with Some c => pret (c, true) | None => read_varint end) ra)
    by (destruct oc; [reflexivity|symmetry; apply erase_read_varint]).
  apply pbind_ext; intros ocv rb.
  rewrite erase_abind, (erase_read_many _ read_output) by apply erase_read_output.
  apply pbind_ext; intros outs rc.
  rewrite erase_abind, erase_read_full. reflexivity.
Qed.

Theorem erase_read_tx bs : erase (a_read_tx bs) = read_tx bs.
Proof.
  unfold a_read_tx, read_tx.
  rewrite erase_abind, erase_read_exact. apply pbind_ext; intros ver r1.
  rewrite erase_abind, erase_read_varint. apply pbind_ext; intros ic r2.
  rewrite erase_acharge.
  destruct (fst ic =? 0); [|apply erase_read_tx_body].
  rewrite erase_abind, erase_read_varint. apply pbind_ext; intros oc r3.
  destruct (fst oc =? 0); [|apply erase_read_tx_body].
  rewrite erase_abind, erase_read_full. apply pbind_ext; intros lt r4.
  destruct (be_dec lt =? 239); [|reflexivity].
  rewrite erase_abind, erase_read_varint. apply pbind_ext; intros ic2 r5.
  apply erase_read_tx_body.
Qed.

Theorem erase_tx_from_stream bs : erase (a_tx_from_stream bs) = read_tx bs.
Proof. unfold a_tx_from_stream. rewrite erase_acharge. apply erase_read_tx. Qed.

Theorem erase_read_txs bs : erase (a_read_txs bs) = read_txs bs.
Proof.
  unfold a_read_txs, read_txs.
  rewrite erase_abind, erase_read_varint. apply pbind_ext; intros c r.
  rewrite erase_abind.
  rewrite (erase_read_many _ (fun b => pmap (fun p => (p, p_min p)) (read_tx b))).
  - reflexivity.
  - intros b. rewrite <- erase_read_tx. destruct (a_read_tx b); reflexivity.
Qed.

(** * 2. Totality: every entry point answers with a value or an error.
    The decoders of the current code contain no partial operation: every slice expression and every
    [make] is sized by a constant, by [min(l - have, have + 4096)] or by the bytes just read, so the
    only way for the model not to answer is the fuel artefact of the count loops, excluded here. *)

Definition answers {A} (r : pres A) : Prop :=
  match r with POk _ _ _ => True | PErr _ => True | PFuel => False end.

Lemma answers_iff {A} (r : pres A) : answers r <-> r <> PFuel.
Proof. destruct r; cbn; split; intros; try congruence; auto. Qed.

Lemma read_tx_progress : progresses read_tx.
Proof.
  intros bs a n rest H. pose proof (read_tx_ok bs) as Hok. rewrite H in Hok.
  destruct Hok as (pre & -> & ->). unfold read_tx in H.
  apply pbind_len in H. destruct H as (x & n1 & r1 & m1 & H1 & _ & Hn).
  apply read_exact_inv in H1. destruct H1 as (_ & _ & ->).
  rewrite app_length. unfold lenN in Hn. lia.
Qed.

Theorem read_txs_never_out_of_fuel bs : read_txs bs <> PFuel.
Proof.
  unfold read_txs.
  destruct (read_varint bs) as [c n1 r|?|] eqn:E1; cbn [pbind]; [|discriminate|exfalso; eapply read_varint_nf; eauto].
  assert (L1 : (length r <= length bs)%nat).
  { pose proof (read_varint_ok bs) as H. rewrite E1 in H. eapply consumed_ok_len; eauto. }
  set (p := fun b => pmap (fun p => (p, p_min p)) (read_tx b)).
  assert (Hp : progresses p).
  { intros b a n rest H. unfold p in H. destruct (read_tx b) as [q m r'|?|] eqn:E; cbn in H; try discriminate.
    injection H as <- <- <-. eapply read_tx_progress; eauto. }
  assert (Hn : no_fuel p).
  { intros b H. unfold p in H. pose proof (read_tx_never_out_of_fuel b) as K.
    destruct (read_tx b); cbn in H; congruence. }
  pose proof (read_many_nf p Hp Hn (S (length bs)) (fst c) r ltac:(lia)) as K.
  destruct (read_many (S (length bs)) p (fst c) r); cbn; congruence.
Qed.

Theorem decode_total_tx bs : answers (read_tx bs).
Proof. apply answers_iff, read_tx_never_out_of_fuel. Qed.
Theorem decode_total_txs bs : answers (read_txs bs).
Proof. apply answers_iff, read_txs_never_out_of_fuel. Qed.
Theorem decode_total_input ext bs : answers (read_input ext bs).
Proof. apply answers_iff, read_input_nf. Qed.
Theorem decode_total_output bs : answers (read_output bs).
Proof. apply answers_iff, read_output_nf. Qed.
Theorem decode_total_from_bytes bs : tx_from_bytes bs <> RFuel.
Proof.
  unfold tx_from_bytes. pose proof (read_tx_never_out_of_fuel bs).
  destruct (read_tx bs) as [p n r|?|]; try congruence. destruct (n =? lenN bs); discriminate.
Qed.

(** the same for the allocation-counting versions (they are the same functions: section 1) *)
Lemma erase_fuel {A} (r : ares A) : r = AFuel <-> erase r = PFuel.
Proof. destruct r; cbn; split; congruence. Qed.
Theorem a_decode_total bs :
  a_read_tx bs <> AFuel /\ a_tx_from_stream bs <> AFuel /\ a_read_txs bs <> AFuel /\
  a_read_input false bs <> AFuel /\ a_read_input true bs <> AFuel /\ a_read_output bs <> AFuel.
Proof.
  repeat split; intros H; apply erase_fuel in H; revert H;
    rewrite ?erase_read_tx, ?erase_tx_from_stream, ?erase_read_txs, ?erase_read_input, ?erase_read_output;
    first [apply read_tx_never_out_of_fuel | apply read_txs_never_out_of_fuel | apply read_input_nf | apply read_output_nf].
Qed.

(** * 3. Bytes consumed never exceed bytes supplied, on success and on error *)

Definition consumed_le {A} (bs : bytes) (r : pres A) : Prop :=
  match r with POk _ n _ => n <= lenN bs | PErr n => n <= lenN bs | PFuel => True end.

Lemma consumed_ok_le {A} bs (r : pres A) : consumed_ok bs r -> consumed_le bs r.
Proof.
  destruct r as [a n rest|n|]; cbn; auto. intros (pre & -> & ->). unfold lenN. rewrite app_length. lia.
Qed.

Theorem consumed_le_tx bs : consumed_le bs (read_tx bs).
Proof. apply consumed_ok_le, read_tx_ok. Qed.
Theorem consumed_le_txs bs : consumed_le bs (read_txs bs).
Proof. apply consumed_ok_le, read_txs_ok. Qed.
Theorem consumed_le_input ext bs : consumed_le bs (read_input ext bs).
Proof. apply consumed_ok_le, read_input_ok. Qed.
Theorem consumed_le_output bs : consumed_le bs (read_output bs).
Proof. apply consumed_ok_le, read_output_ok. Qed.

(** the short varint read that used to report 9/5/3: 1 + what was there *)
Theorem varint_short_read_count bs n : read_varint bs = PErr n -> n <= lenN bs.
Proof. intros H. pose proof (read_varint_ok bs) as K. rewrite H in K. exact K. Qed.

(** * 4. Allocation is linear in the bytes consumed.
    [Q D E r]: on success  alloc <= 32 * consumed + D,  on error  alloc <= 32 * consumed + E.
    D is negative for reads (a k-byte field allocates k and pays for 32k): the surplus pays for the
    per-item structs, so that items satisfy [Q 0 _] and can be repeated by the count loops. *)
Local Open Scope Z_scope.

Definition Q {A} (D E : Z) (r : ares A) : Prop :=
  match r with
  | AOk _ n _ al => Z.of_N al <= 32 * Z.of_N n + D
  | AErr n al => Z.of_N al <= 32 * Z.of_N n + E
  | AFuel => True
  end.

Lemma Q_weaken {A} D E D' E' (r : ares A) : Q D E r -> D <= D' -> E <= E' -> Q D' E' r.
Proof. destruct r; cbn; lia. Qed.

Lemma Q_abind {A B} D1 E1 D2 E2 (p : ares A) (f : A -> bytes -> ares B) :
  Q D1 E1 p -> (forall a r, Q D2 E2 (f a r)) -> Q (D1 + D2) (Z.max E1 (D1 + E2)) (abind p f).
Proof.
  intros Hp Hf. destruct p as [a n rest al|n al|]; cbn [Q abind] in *; try lia.
  specialize (Hf a rest). destruct (f a rest) as [b m r al2|m al2|]; cbn [Q abind] in *; lia.
Qed.

Lemma Q_acharge {A} D E x (r : ares A) : Q D E r -> Q (D + Z.of_N x) (E + Z.of_N x) (acharge x r).
Proof. destruct r; cbn [Q acharge]; lia. Qed.

Lemma Q_aret {A} (a : A) bs : Q 0 0 (aret a bs).
Proof. cbn [Q aret]. lia. Qed.

Lemma Q_if {A} D1 E1 D2 E2 (c : bool) (a b : ares A) :
  Q D1 E1 a -> Q D2 E2 b -> Q (Z.max D1 D2) (Z.max E1 E2) (if c then a else b).
Proof. intros Ha Hb. destruct c; [eapply Q_weaken; [exact Ha|lia|lia]|eapply Q_weaken; [exact Hb|lia|lia]]. Qed.

Lemma Q_read_full k bs : Q (- 32 * Z.of_nat k) (Z.of_N err_cost) (a_read_full k bs).
Proof.
  unfold a_read_full. destruct (Nat.leb_spec k (length bs)); cbn [Q]; unfold lenN, err_cost; lia.
Qed.

Lemma Q_read_exact k bs :
  Q (16 - 30 * Z.of_nat (S k)) (2 * Z.of_nat (S k) + 16 + Z.of_N err_cost) (a_read_exact (S k) bs).
Proof.
  unfold a_read_exact.
  replace (msize (N.of_nat (S k))) with (2 * N.of_nat (S k) + 16)%N
    by (unfold msize; destruct (N.eqb_spec (N.of_nat (S k)) 0); [lia|reflexivity]).
  eapply Q_weaken; [apply Q_acharge, Q_read_full|lia|lia].
Qed.

(** any width, zero included: never more than it pays for *)
Lemma Q_read_exact_any k bs : Q 0 (2 * Z.of_nat k + 16 + Z.of_N err_cost) (a_read_exact k bs).
Proof.
  unfold a_read_exact. unfold msize. destruct (N.eqb_spec (N.of_nat k) 0).
  - eapply Q_weaken; [apply Q_acharge, Q_read_full|lia|lia].
  - eapply Q_weaken; [apply Q_acharge, Q_read_full|lia|lia].
Qed.

Lemma Q_read_varint bs : Q (-14) 2066 (a_read_varint bs).
Proof.
  unfold a_read_varint.
  eapply Q_weaken;
    [eapply Q_abind; [apply Q_read_exact|]; intros b r;
     repeat (eapply Q_if; [eapply Q_abind; [apply Q_read_exact|intros; apply Q_aret]|]); apply Q_aret
    | unfold err_cost; lia | unfold err_cost; lia].
Qed.

Local Open Scope N_scope.
Lemma chunks_bound fuel l acc bs : lenN acc < l ->
  match a_read_chunks fuel l acc bs with
  | AOk _ n _ al => al <= 6 * n + 2 * lenN acc
  | AErr n al => al <= 8 * n + 4 * lenN acc + 8192 + err_cost
  | AFuel => True
  end.
Proof.
  revert acc bs. induction fuel as [|f IH]; intros acc bs Hacc; [exact I|].
  cbn [a_read_chunks]. set (have := lenN acc) in *.
  set (chunk := N.min (l - have) (have + chunk_size)).
  assert (Hc1 : 1 <= chunk) by (unfold chunk, chunk_size; lia).
  assert (Hc2 : chunk <= l - have) by (unfold chunk; lia).
  assert (Hc3 : chunk <= have + 4096) by (unfold chunk, chunk_size; lia).
  unfold a_read_into.
  destruct (N.ltb_spec (lenN bs) chunk) as [Hs|Hs]; cbn [abind].
  - unfold grow_cost. lia.
  - set (x := firstn (N.to_nat chunk) bs). set (r := skipn (N.to_nat chunk) bs).
    assert (Hx : lenN x = chunk) by (apply lenN_firstn; exact Hs).
    assert (Hacc' : lenN (acc ++ x) = have + chunk).
    { unfold lenN in *. rewrite app_length. fold have. lia. }
    destruct (N.ltb_spec (lenN (acc ++ x)) l) as [Hl|Hl].
    + specialize (IH (acc ++ x) r Hl). rewrite Hacc' in IH.
      assert (chunk = have + chunk_size) as Hfull by (unfold chunk in *; lia).
      unfold chunk_size in Hfull.
      destruct (a_read_chunks f l (acc ++ x) r) as [b m r' al2|m al2|]; auto; unfold grow_cost; lia.
    + cbn [aret]. unfold grow_cost. lia.
Qed.
Local Open Scope Z_scope.

Lemma Q_read_bytes l bs : Q 0 10256 (a_read_bytes l bs).
Proof.
  unfold a_read_bytes. destruct (N.leb_spec l chunk_size) as [H|H].
  - eapply Q_weaken; [apply Q_read_exact_any| |]; unfold err_cost, chunk_size in *; lia.
  - pose proof (chunks_bound (S (length bs)) l [] bs) as K.
    change (lenN []) with 0%N in K. specialize (K ltac:(unfold chunk_size in H; lia)).
    destruct (a_read_chunks (S (length bs)) l [] bs); cbn [Q]; unfold err_cost in *; lia.
Qed.

Lemma Q_read_script bs : Q (-14) 10256 (a_read_script bs).
Proof.
  unfold a_read_script.
  eapply Q_weaken;
    [eapply Q_abind; [apply Q_read_varint|]; intros lm r;
     eapply Q_abind; [apply Q_read_bytes|]; intros; apply Q_aret | lia | lia].
Qed.

Ltac q_step :=
  first [ eapply Q_abind; [first [apply Q_read_exact | apply Q_read_full | apply Q_read_script | apply Q_read_varint]|]; intros
        | apply Q_acharge
        | apply Q_aret ].

(** one input: at most 32 bytes per byte read, with at least 1102 bytes to spare on success *)
Lemma Q_read_input ext bs : Q (-1102) 10256 (a_read_input ext bs).
Proof.
  unfold a_read_input.
  eapply Q_weaken.
  - do 4 q_step. q_step. eapply Q_if.
    + do 2 q_step. q_step. q_step.
    + q_step.
  - unfold script_hdr, err_cost. lia.
  - unfold script_hdr, err_cost. lia.
Qed.

Lemma Q_read_output bs : Q (-206) 10256 (a_read_output bs).
Proof.
  unfold a_read_output.
  eapply Q_weaken.
  - do 2 q_step. q_step. q_step.
  - unfold script_hdr, err_cost. lia.
  - unfold script_hdr, err_cost. lia.
Qed.

Lemma Q_read_many {A} (p : aparser (A * bool)) Di Ei cost :
  (forall b, Q Di Ei (p b)) -> Di + Z.of_N cost <= 0 -> 0 <= Ei + Z.of_N cost ->
  forall fuel count bs, Q 0 (Ei + Z.of_N cost) (a_read_many fuel cost p count bs).
Proof.
  intros Hp HD HE. induction fuel as [|f IH]; intros count bs; cbn [a_read_many];
    destruct (count =? 0)%N; try (eapply Q_weaken; [apply Q_aret|lia|lia]); [exact I|].
  eapply Q_weaken.
  - eapply Q_abind; [apply Q_acharge, Hp|]. intros xm r.
    eapply Q_abind; [apply IH|]. intros. apply Q_aret.
  - lia.
  - lia.
Qed.

Lemma Q_read_tx_body fuel ver ext ic oc m0 bs : Q (-128) 10384 (a_read_tx_body fuel ver ext ic oc m0 bs).
Proof.
  unfold a_read_tx_body.
  eapply Q_weaken.
  - eapply Q_abind; [apply (Q_read_many (a_read_input ext) (-1102) 10256 (input_struct + append_cost));
                     [intros; apply Q_read_input|cbn; lia|cbn; lia]|]. intros ins ra.
    eapply Q_abind; [instantiate (1 := 2066); instantiate (1 := 0);
                     destruct oc; [eapply Q_weaken; [apply Q_aret|lia|lia]
                                  |eapply Q_weaken; [apply Q_read_varint|lia|lia]]|]. intros ocv rb.
    eapply Q_abind; [apply (Q_read_many a_read_output (-206) 10256 (output_struct + append_cost));
                     [intros; apply Q_read_output|cbn; lia|cbn; lia]|]. intros outs rc.
    q_step. q_step.
  - cbn. lia.
  - cbn. lia.
Qed.

Lemma Q_read_tx bs : Q (-222) 10500 (a_read_tx bs).
Proof.
  unfold a_read_tx.
  eapply Q_weaken.
  - do 2 q_step. q_step.
    eapply Q_if; [|apply Q_read_tx_body].
    q_step. eapply Q_if; [|apply Q_read_tx_body].
    q_step. eapply Q_if; [|q_step].
    q_step. apply Q_read_tx_body.
  - cbn. lia.
  - cbn. lia.
Qed.

Lemma Q_tx_from_stream bs : Q 0 10700 (a_tx_from_stream bs).
Proof.
  unfold a_tx_from_stream. eapply Q_weaken; [apply Q_acharge, Q_read_tx|cbn; lia|cbn; lia].
Qed.

Lemma Q_read_txs bs : Q 0 10700 (a_read_txs bs).
Proof.
  unfold a_read_txs.
  eapply Q_weaken.
  - q_step.
    eapply Q_abind; [apply (Q_read_many _ (-222) 10500 (tx_struct + append_cost));
                     [intros b; pose proof (Q_read_tx b) as K; destruct (a_read_tx b); exact K|cbn; lia|cbn; lia]|].
    intros. q_step.
  - cbn. lia.
  - cbn. lia.
Qed.

(** ** the statements: allocation against the length of the input *)
Local Open Scope N_scope.

Lemma Q_alloc_bound {A} D E (r : ares A) bs :
  Q D E r -> consumed_le bs (erase r) -> (D <= 16384)%Z -> (E <= 16384)%Z -> alloc_of r <= alloc_bound (lenN bs).
Proof.
  unfold alloc_bound, alloc_c, alloc_k. destruct r; cbn [Q alloc_of erase consumed_le]; lia.
Qed.

Theorem alloc_linear_tx bs : alloc_of (a_read_tx bs) <= alloc_bound (lenN bs).
Proof.
  eapply Q_alloc_bound; [apply Q_read_tx|rewrite erase_read_tx; apply consumed_le_tx|lia|lia].
Qed.
Theorem alloc_linear_stream bs : alloc_of (a_tx_from_stream bs) <= alloc_bound (lenN bs).
Proof.
  eapply Q_alloc_bound; [apply Q_tx_from_stream|rewrite erase_tx_from_stream; apply consumed_le_tx|lia|lia].
Qed.
Theorem alloc_linear_txs bs : alloc_of (a_read_txs bs) <= alloc_bound (lenN bs).
Proof.
  eapply Q_alloc_bound; [apply Q_read_txs|rewrite erase_read_txs; apply consumed_le_txs|lia|lia].
Qed.
Theorem alloc_linear_input ext bs : alloc_of (a_read_input ext bs) <= alloc_bound (lenN bs).
Proof.
  eapply Q_alloc_bound; [apply Q_read_input|rewrite erase_read_input; apply consumed_le_input|lia|lia].
Qed.
Theorem alloc_linear_output bs : alloc_of (a_read_output bs) <= alloc_bound (lenN bs).
Proof.
  eapply Q_alloc_bound; [apply Q_read_output|rewrite erase_read_output; apply consumed_le_output|lia|lia].
Qed.

(** in particular no allocation request comes near Go's maxAlloc (2^48 on linux/amd64) for any
    input shorter than 2^42 bytes: every single request is a summand of the total *)
Theorem alloc_below_maxalloc bs : lenN bs < 2 ^ 42 ->
  alloc_of (a_read_tx bs) < 2 ^ 48 /\ alloc_of (a_read_txs bs) < 2 ^ 48.
Proof.
  intros H. pose proof (alloc_linear_tx bs). pose proof (alloc_linear_txs bs).
  unfold alloc_bound, alloc_c, alloc_k in *. lia.
Qed.
