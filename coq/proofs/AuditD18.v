(** Audit D, property C18 (all by computation on the GENERATED table gen/Locks.v).
    [every_lock_is_needed]: deleting any single RLock/Lock, or any single RUnlock/Unlock, from any path
    of any method of fees.go makes the lock-discipline checker answer false (15 + 15 mutants).
    [guarded_fields_all_accessed]: the table is not trivially well locked: every guarded field is both
    read and written somewhere in it.
    [fee_table_lock_ordered]: the lock order certificate: a receiver's mutex is only acquired with
    nothing held, an element's mutex only with at most the receiver's held, and nothing is acquired
    while an element's mutex is held (container before element, never the other way round).
    That [well_locked] + [lock_ordered] exclude deadlock is proved in proofs/LocksDeadlock.v. *)
From Coq Require Import List String Bool Arith PeanoNat.
From GoBT Require Import model.Locks spec.RaceSpec proofs.LocksProofs.
From GoBT Require gen.Locks.
Import ListNotations.
Local Open Scope string_scope.
Local Open Scope list_scope.

(** all lists obtained by deleting exactly one element satisfying [p] *)
Fixpoint del_each {A} (p : A -> bool) (l : list A) : list (list A) :=
  match l with
  | [] => []
  | a :: r => (if p a then [r] else []) ++ map (cons a) (del_each p r)
  end.
Definition is_kind (k : string) (a : rawaction) : bool := let '(k', _, _) := a in k' =? k.
Fixpoint mutate_paths (k : string) (ps : list (list rawaction)) : list (list (list rawaction)) :=
  match ps with
  | [] => []
  | p :: r => map (fun p' => p' :: r) (del_each (is_kind k) p) ++ map (cons p) (mutate_paths k r)
  end.
Fixpoint mutate_table (k : string) (t : rawtable) : list rawtable :=
  match t with
  | [] => []
  | (ty, n, ps) :: r => map (fun ps' => (ty, n, ps') :: r) (mutate_paths k ps) ++ map (cons (ty, n, ps)) (mutate_table k r)
  end.

Theorem every_lock_is_needed :
  forallb (fun t => negb (well_locked_raw t)) (mutate_table "acquire" gen.Locks.fee_methods) = true /\
  forallb (fun t => negb (well_locked_raw t)) (mutate_table "release" gen.Locks.fee_methods) = true /\
  (0 < List.length (mutate_table "acquire" gen.Locks.fee_methods))%nat /\
  List.length (mutate_table "acquire" gen.Locks.fee_methods) = List.length (mutate_table "release" gen.Locks.fee_methods).
Proof. vm_compute. repeat split. apply Nat.leb_le. reflexivity. Qed.

Definition touches (k f : string) (t : rawtable) : bool :=
  existsb (fun m => existsb (existsb (fun a : rawaction => let '(k', _, x) := a in (k' =? k) && (x =? f))) (snd m)) t.
Theorem guarded_fields_all_accessed :
  forallb (fun gf => touches "read" (snd gf) gen.Locks.fee_methods && touches "write" (snd gf) gen.Locks.fee_methods)
          gen.Locks.guarded_fields = true /\ gen.Locks.guarded_fields <> [].
Proof. split; [vm_compute; reflexivity|discriminate]. Qed.

Fixpoint ordered (h : list oref) (p : spath) : bool :=
  match p with
  | [] => true
  | GAcq Self _ :: r => match h with [] => ordered [Self] r | _ => false end
  | GAcq Elem _ :: r => negb (existsb (oref_eqb Elem) h) && ordered (Elem :: h) r
  | GRel k _ :: r => ordered (filter (fun x => negb (oref_eqb x k)) h) r
  | _ :: r => ordered h r
  end.
Definition lock_ordered (tbl : list method) : bool :=
  forallb (fun e => forallb (ordered []) (snd e)) (flat_table tbl).
Definition fee_table : list method :=
  match dec_table gen.Locks.fee_methods with Some t => t | None => [] end.
Theorem fee_table_lock_ordered : lock_ordered fee_table = true /\ fee_table <> [].
Proof. split; [vm_compute; reflexivity|discriminate]. Qed.
