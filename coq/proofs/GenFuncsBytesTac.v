(** Lemmas shared by the equivalence proofs of the byte-string handlers of operations.go (proofs/GenFuncs_opcodeInvert.v,
    _opcodeAnd.v, _opcodeOr.v, _opcodeXor.v, _opcodeLShift.v, _opcodeRShift.v): a printed loop that FILLS a freshly made
    buffer position by position ([res[i] = g i ...]) computes the list [mapi g].

    As in proofs/GenFuncsLoopTac.v the printed loop body is compared with a pure step chosen by the proof -- here "write
    [g i x] at position [i]" -- by rewriting the reads and the write with the facts about [go_index_b] / [go_set_index]
    at positions given by arbitrary integer expressions; nothing matches the shape of the printed body. *)
From Coq Require Import List ZArith NArith Bool Lia ZifyN ZifyNat ZifyBool.
From Coq Require Import Strings.Byte.
From GoBT Require Import lib.Bytes lib.GoSem proofs.GenFuncsTac proofs.GenFuncsLoopTac.
Import ListNotations.
Ltac Zify.zify_post_hook ::= Z.div_mod_to_equations.
Local Open Scope Z_scope.

(** [g k x; g (k+1) y; ...] *)
Fixpoint mapi {A B} (g : nat -> A -> B) (k : nat) (xs : list A) : list B :=
  match xs with [] => [] | x :: r => g k x :: mapi g (Datatypes.S k) r end.

Lemma mapi_length {A B} (g : nat -> A -> B) xs : forall k, length (mapi g k xs) = length xs.
Proof. induction xs as [|x r IH]; intros k; cbn [mapi length]; [reflexivity|]. rewrite IH. reflexivity. Qed.

Lemma mapi_map {A B} (g : nat -> A -> B) (h : A -> B) xs : forall k, (forall i x, g i x = h x) -> mapi g k xs = map h xs.
Proof. induction xs as [|x r IH]; intros k H; cbn [mapi map]; [reflexivity|]. rewrite H, IH by exact H. reflexivity. Qed.

Lemma mapi_ext {A B} (g h : nat -> A -> B) xs : forall k,
  (forall i x, nth_error xs i = Some x -> g (k + i)%nat x = h (k + i)%nat x) -> mapi g k xs = mapi h k xs.
Proof.
  induction xs as [|x r IH]; intros k H; cbn [mapi]; [reflexivity|]. f_equal.
  - specialize (H 0%nat x eq_refl). rewrite Nat.add_0_r in H. exact H.
  - apply IH. intros i y Hy. specialize (H (Datatypes.S i) y Hy). replace (Datatypes.S k + i)%nat with (k + Datatypes.S i)%nat by lia. exact H.
Qed.

Lemma upd_at {A} (done rest : list A) (y v : A) : upd (done ++ y :: rest) (length done) v = done ++ v :: rest.
Proof.
  unfold upd. rewrite firstn_app, firstn_all, Nat.sub_diag. cbn [firstn]. rewrite app_nil_r. f_equal.
  replace (Datatypes.S (length done)) with (length (done ++ [y])) by (rewrite app_length; cbn [length]; lia).
  replace (done ++ y :: rest) with ((done ++ [y]) ++ rest) by (rewrite <- app_assoc; reflexivity).
  rewrite skipn_app, skipn_all, Nat.sub_diag. reflexivity.
Qed.

(** ** a [range] loop over [xs] that writes [g i x] at position [i] of a buffer as long as [xs] *)
Lemma go_range_fill_at {R} (g : nat -> byte -> byte) (body : Z -> byte -> bytes -> M (ctl bytes R)) :
  forall (xs pre done rest : bytes),
  length done = length pre -> length rest = length xs ->
  (forall i x buf, nth_error (pre ++ xs) i = Some x -> length buf = length (pre ++ xs) ->
     body (Z.of_nat i) x buf = Val (Next (upd buf i (g i x)))) ->
  go_range xs (Z.of_nat (length pre)) (done ++ rest) body = Val (Fall (done ++ mapi g (length pre) xs)).
Proof.
  induction xs as [|x r IH]; intros pre done rest Hd Hr Hb.
  - destruct rest; [|discriminate]. reflexivity.
  - destruct rest as [|y rest']; [discriminate|]. cbn [go_range mapi].
    rewrite (Hb (length pre) x (done ++ y :: rest')).
    2:{ rewrite nth_error_app2 by lia. rewrite Nat.sub_diag. reflexivity. }
    2:{ rewrite !app_length. cbn [length] in *. lia. }
    cbn [bind]. rewrite <- Hd, upd_at.
    replace (Z.of_nat (length done) + 1) with (Z.of_nat (length (pre ++ [x]))) by (rewrite app_length; cbn [length]; lia).
    replace (done ++ g (length done) x :: rest') with ((done ++ [g (length done) x]) ++ rest') by (rewrite <- app_assoc; reflexivity).
    rewrite (IH (pre ++ [x]) (done ++ [g (length done) x]) rest').
    + rewrite <- app_assoc. cbn [app]. rewrite app_length. cbn [length]. rewrite Hd.
      replace (length pre + 1)%nat with (Datatypes.S (length pre)) by lia. reflexivity.
    + rewrite !app_length. cbn [length]. lia.
    + cbn [length] in Hr. lia.
    + intros i z buf Hi Hl. rewrite <- app_assoc in Hi, Hl. cbn [app] in Hi, Hl. apply Hb; assumption.
Qed.

Lemma go_range_fill {R} (g : nat -> byte -> byte) (body : Z -> byte -> bytes -> M (ctl bytes R)) (xs buf0 : bytes) :
  length buf0 = length xs ->
  (forall i x buf, nth_error xs i = Some x -> length buf = length xs -> body (Z.of_nat i) x buf = Val (Next (upd buf i (g i x)))) ->
  go_range xs 0 buf0 body = Val (Fall (mapi g 0 xs)).
Proof. intros Hl Hb. exact (go_range_fill_at g body xs [] [] buf0 eq_refl Hl Hb). Qed.

(** make([]byte, len(x)) for a slice that exists *)
Lemma go_make_bytes_len (x : bytes) : (lenN x <= 281474976710656)%N ->
  go_make_bytes (go_len x) = Val (repeat_byte (length x) x00).
Proof.
  intros H. unfold go_make_bytes, go_max_alloc, go_len, lenN in *.
  replace ((0 <=? Z.of_nat (length x)) && (Z.of_nat (length x) <=? 281474976710656)) with true by lia.
  rewrite Nat2Z.id. reflexivity.
Qed.

(** ** the byte operations of the bitwise handlers, on bytes *)
Lemma Z_lxor_of_N a b : Z.lxor (Z.of_N a) (Z.of_N b) = Z.of_N (N.lxor a b).
Proof. destruct a, b; reflexivity. Qed.
Lemma z2b_mod z : z2b (z mod 256) = z2b z.
Proof. unfold z2b. rewrite Z.mod_mod by lia. reflexivity. Qed.
Lemma z2b_and (x y : byte) : z2b (go_and (b2z x) (b2z y)) = n2b (N.land (b2n x) (b2n y)).
Proof. unfold go_and, b2z. rewrite Z_land_of_N. apply z2b_of_N. Qed.
Lemma z2b_or (x y : byte) : z2b (go_or (b2z x) (b2z y)) = n2b (N.lor (b2n x) (b2n y)).
Proof. unfold go_or, b2z. rewrite Z_lor_of_N. apply z2b_of_N. Qed.
Lemma z2b_xor (x y : byte) : z2b (go_xor U8 (b2z x) (b2z y)) = n2b (N.lxor (b2n x) (b2n y)).
Proof. unfold go_xor, go_wrap, b2z. rewrite Z_lxor_of_N, z2b_mod. apply z2b_of_N. Qed.

(** the model's [bytes_map2] is [mapi] reading the second operand by position *)
Lemma mapi_map2 (f : N -> N -> N) : forall (a b bpre : bytes),
  length a = length b ->
  mapi (fun i x => n2b (f (b2n x) (b2n (nth i (bpre ++ b) x00)))) (length bpre) a =
  map (fun xy => n2b (f (b2n (fst xy)) (b2n (snd xy)))) (combine a b).
Proof.
  induction a as [|x a IH]; intros b bpre Hl; [reflexivity|].
  destruct b as [|y b]; [discriminate|]. cbn [mapi combine map fst snd]. f_equal.
  - rewrite app_nth2 by lia. rewrite Nat.sub_diag. reflexivity.
  - replace (bpre ++ y :: b) with ((bpre ++ [y]) ++ b) by (rewrite <- app_assoc; reflexivity).
    replace (Datatypes.S (length bpre)) with (length (bpre ++ [y])) by (rewrite app_length; cbn [length]; lia).
    apply IH. cbn [length] in Hl. lia.
Qed.

(** ** hypothesis of the handlers that allocate: every item at most 2^48 bytes long (Go's maxAlloc on linux/amd64;
    lib/GoSem.v lets [make] panic above it; no longer slice exists in a running program) *)
Definition items_alloc (d : list bytes) : Prop := Forall (fun x => (lenN x <= 281474976710656)%N) d.
Ltac h_alloc :=
  repeat match goal with
  | H : items_alloc (_ :: _) |- _ => unfold items_alloc in H
  | H : Forall (fun x => (lenN x <= _)%N) (_ :: _) |- _ =>
      let H1 := fresh "Hal" in let H2 := fresh "Hals" in pose proof (Forall_inv H) as H1; pose proof (Forall_inv_tail H) as H2; clear H; cbv beta in H1
  end.
