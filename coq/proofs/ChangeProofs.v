(** Proofs about model/Change.v (C10): what a successful change operation does to outputs, totals and the
    fee left, for every transaction / quote / destination satisfying the no-overflow hypothesis. *)
From Coq Require Import List NArith ZArith Lia Bool ZifyN ZifyNat ZifyBool.
From Coq Require Import Strings.Byte.
From GoBT Require Import lib.Bytes lib.Parse lib.VarInt model.Tx proofs.TxProofs gen.Consts spec.FeeSpec
  model.Fees proofs.FeesProofs model.Change.
Import ListNotations.
Ltac Zify.zify_post_hook ::= Z.div_mod_to_equations.
Local Open Scope N_scope.
Local Open Scope bool_scope.

(** ** the output-count varint grows by exactly UpperLimitInc *)
Lemma varint_growth n : n + 1 < two64 ->
  upper_limit_inc n <> (-1)%Z /\ varint_len (n + 1) = varint_len n + Z.to_N (upper_limit_inc n).
Proof.
  intros H. unfold upper_limit_inc, varint_len, two16, two32, two64 in *.
  repeat match goal with
         | |- context [?x =? ?y] => destruct (N.eqb_spec x y)
         | |- context [?x <? ?y] => destruct (N.ltb_spec x y)
         end.
  all: split. all: try lia. all: try discriminate.
Qed.

Lemma upper_limit_inc_le n : upper_limit_inc n <> (-1)%Z -> Z.to_N (upper_limit_inc n) <= 4.
Proof.
  unfold upper_limit_inc.
  repeat match goal with |- context [?x =? ?y] => destruct (N.eqb_spec x y) end; intros; lia.
Qed.

Lemma varint_len_le9 n : 1 <= varint_len n <= 9.
Proof. unfold varint_len. repeat match goal with |- context [?x <? ?y] => destruct (x <? y) end; lia. Qed.

(** ** sizes after appending an output *)
Lemma tx_size_add_output t o :
  tx_size (add_output t o) + varint_len (N.of_nat (length (tx_outs t))) =
  tx_size t + varint_len (N.of_nat (length (tx_outs t)) + 1) + lenN (output_bytes o).
Proof.
  rewrite !tx_size_eq. cbn [add_output tx_ins tx_outs]. rewrite app_length, outs_len_app. cbn [length].
  replace (N.of_nat (length (tx_outs t) + 1)) with (N.of_nat (length (tx_outs t)) + 1) by lia.
  assert (E : outs_len [o] = lenN (output_bytes o)) by (unfold outs_len; cbn [map concat]; rewrite app_nil_r; reflexivity).
  rewrite E. lia.
Qed.

Lemma wf_add_output t o : wf_tx t -> wf_output o -> N.of_nat (length (tx_outs t)) + 1 < two64 ->
  wf_tx (add_output t o) /\ ~ ambiguous (add_output t o).
Proof.
  intros (V & L & I & O & NI & NO) Wo Hn. split.
  - unfold wf_tx. cbn [add_output tx_version tx_lock tx_ins tx_outs]. repeat split; auto.
    + apply Forall_app. split; [exact O|constructor; [exact Wo|constructor]].
    + rewrite app_length. cbn [length]. lia.
  - intros (_ & H & _). cbn [add_output tx_outs] in H. destruct (tx_outs t); discriminate.
Qed.

Lemma est_add_output t te o : wf_tx t -> ~ ambiguous t -> wf_output o ->
  N.of_nat (length (tx_outs t)) + 1 < two64 ->
  estimated_final_tx t = FOk te -> estimated_final_tx (add_output t o) = FOk (add_output te o).
Proof.
  intros W A Wo Hn E. destruct (wf_add_output t o W Wo Hn) as [W' A'].
  apply (proj1 (estimate_errors t W A)) in E. destruct E as [F ->].
  apply (proj1 (estimate_errors _ W' A')). split; [exact F|reflexivity].
Qed.

Definition data_part (s : bytes) : N := if is_data s then lenN s else 0.

Lemma size_add_output te o :
  let n := N.of_nat (length (tx_outs te)) in
  let sz := size_with_types te in
  let sz' := size_with_types (add_output te o) in
  sz_total sz' + varint_len n = sz_total sz + varint_len (n + 1) + 8 + varint_len (lenN (out_script o)) + lenN (out_script o) /\
  sz_data sz' = sz_data sz + data_part (out_script o) /\
  sz_std sz' + sz_data sz' = sz_total sz' /\ sz_std sz + sz_data sz = sz_total sz.
Proof.
  cbv zeta. unfold size_with_types. cbn [sz_total sz_std sz_data].
  pose proof (tx_size_add_output te o) as H. rewrite lenN_output_bytes in H.
  pose proof (data_le_size te). pose proof (data_le_size (add_output te o)) as H2.
  cbn [add_output tx_outs] in *. rewrite data_len_app in *.
  unfold data_part. change (data_len [o]) with (fold_left (fun a o0 => if is_data (out_script o0) then a + lenN (out_script o0) else a) [o] 0) in *.
  cbn [fold_left] in *. destruct (is_data (out_script o)); lia.
Qed.

(** the size of a transaction does not depend on output amounts *)
Lemma output_bytes_len_sats v v' s : lenN (output_bytes (mkOutput v s)) = lenN (output_bytes (mkOutput v' s)).
Proof. rewrite !lenN_output_bytes. reflexivity. Qed.

Lemma size_add_output_sats te v v' s :
  size_with_types (add_output te (mkOutput v s)) = size_with_types (add_output te (mkOutput v' s)).
Proof.
  unfold size_with_types. rewrite !tx_size_eq. cbn [add_output tx_ins tx_outs].
  rewrite !app_length, !outs_len_app, !data_len_app.
  assert (E1 : outs_len [mkOutput v s] = outs_len [mkOutput v' s]).
  { unfold outs_len. cbn [map concat]. rewrite !app_nil_r. apply output_bytes_len_sats. }
  assert (E2 : data_len [mkOutput v s] = data_len [mkOutput v' s]) by reflexivity.
  rewrite E1, E2. reflexivity.
Qed.

(** ** totals *)
Lemma total_out_add_output t o : total_out (add_output t o) = add64 (total_out t) (out_sats o).
Proof. unfold total_out. cbn [add_output tx_outs]. rewrite fold_left_app. reflexivity. Qed.

Lemma sum_out_add_output t o : sum_out (add_output t o) = sum_out t + out_sats o.
Proof. unfold sum_out. cbn [add_output tx_outs]. rewrite fold_left_app. reflexivity. Qed.

Lemma total_lt_two64 {A} (f : A -> N) l : fold_left (fun a x => add64 a (f x)) l 0 < two64.
Proof.
  assert (G : forall a, a < two64 -> fold_left (fun a x => add64 a (f x)) l a < two64).
  { induction l as [|x l IH]; intros a Ha; cbn [fold_left]; [exact Ha|]. apply IH. unfold add64.
    apply N.mod_lt. discriminate. }
  apply G. reflexivity.
Qed.

(** ** unpacking the no-overflow hypothesis *)
Lemma no_overflow_inv q t extra : no_overflow q t extra = true ->
  sum_in t < two64 /\ sum_out t < two64 /\ N.of_nat (length (tx_outs t)) + 1 < two64 /\
  size_bound t extra < two64 /\
  size_bound t extra * sat_of (q_std q) + size_bound t extra * sat_of (q_data q) + sum_out t < two64.
Proof. unfold no_overflow. intros H. repeat (apply andb_prop in H; destruct H as [H ?]). repeat split; lia. Qed.

Lemma size_bound_extra t extra : size_bound t extra = size_bound t 0 + extra.
Proof. unfold size_bound. lia. Qed.

(** the fee the code computes for byte counts below the bound is the quoted fee of the specification *)
Lemma fee_of_quoted B sb db sf df s d :
  sb <= B -> db <= B -> B * r_sat sf + B * r_sat df < two64 ->
  fee_of sb sf = FOk s -> fee_of db df = FOk d ->
  r_bytes sf <> 0 /\ r_bytes df <> 0 /\ s = floor_fee sb sf /\ d = floor_fee db df /\
  add64 s d = quoted_fee sf df sb db /\ quoted_fee sf df sb db <= B * r_sat sf + B * r_sat df.
Proof.
  intros H1 H2 HB. unfold fee_of.
  destruct (N.eqb_spec (r_bytes sf) 0) as [E1|E1]; [discriminate|].
  destruct (N.eqb_spec (r_bytes df) 0) as [E2|E2]; [discriminate|].
  intros [= <-] [= <-].
  assert (P1 : sb * r_sat sf <= B * r_sat sf) by nia.
  assert (P2 : db * r_sat df <= B * r_sat df) by nia.
  rewrite !N.mod_small by lia.
  pose proof (floor_fee_le sb sf E1). pose proof (floor_fee_le db df E2).
  unfold quoted_fee, add64. fold (floor_fee sb sf). fold (floor_fee db df).
  rewrite N.mod_small by lia. repeat split; auto. lia.
Qed.

(** ** Tx.change with a new output: what it returns, in terms of the specification *)
Definition avail (t : tx) : N := total_in t - total_out t.

Theorem change_some_spec t q s a has t' :
  wf_tx t -> ~ ambiguous t -> lenN s < two64 -> no_overflow q t (21 + lenN s) = true ->
  change t q (Some s) = FOk (a, has, t') ->
  total_out t <= total_in t /\
  exists sf df szc, q_std q = Some sf /\ q_data q = Some df /\ r_bytes sf <> 0 /\ r_bytes df <> 0 /\
    (forall v, v < two64 -> estimate_size_with_types (add_output t (mkOutput v s)) = FOk szc) /\
    sz_total szc <= size_bound t (21 + lenN s) /\ sz_std szc + sz_data szc = sz_total szc /\
    let fee := quoted_fee sf df (sz_std szc) (sz_data szc) in
    fee <= size_bound t (21 + lenN s) * r_sat sf + size_bound t (21 + lenN s) * r_sat df /\
    (has = false -> t' = t /\ avail t <= fee + dust_limit) /\
    (has = true -> fee + dust_limit < avail t /\ a = avail t - fee /\ t' = add_output t (mkOutput (avail t - fee) s)).
Proof.
  intros W A Ws NO. apply no_overflow_inv in NO. destruct NO as (Hin & Hout & Hn & HB & HS).
  unfold change.
  destruct (N.ltb_spec (total_in t) (total_out t)) as [L|L]; [discriminate|].
  unfold estimate_size_with_types.
  destruct (estimated_final_tx t) as [te| | |] eqn:E; cbn [obind]; try discriminate.
  destruct (q_std q) as [sf|] eqn:Qs; cbn [get_fee obind]; [|discriminate].
  destruct (q_data q) as [df|] eqn:Qd; cbn [get_fee obind]; [|discriminate].
  cbn [sat_of] in HS.
  destruct (est_outs t te W A E) as (Eo & _ & _ & _).
  pose proof (est_size_le_bound t te W A E) as Hte.
  set (n := N.of_nat (length (tx_outs t))) in *.
  destruct (varint_growth n Hn) as [G1 G2].
  destruct (Z.eqb_spec (upper_limit_inc n) (-1)) as [G|_]; [contradiction|].
  pose proof (upper_limit_inc_le n G1) as G3.
  pose proof (varint_len_le9 (lenN s)) as V9.
  (* the sizes of the transaction with the change output appended *)
  pose proof (size_add_output te (mkOutput 0 s)) as SZ. cbv zeta in SZ. rewrite Eo in SZ. fold n in SZ.
  cbn [out_script] in SZ. destruct SZ as (S1 & S2 & S3 & S4).
  set (sz := size_with_types te) in *. set (szc := size_with_types (add_output te (mkOutput 0 s))) in *.
  assert (T0 : sz_total sz = tx_size te) by reflexivity.
  rewrite size_bound_extra in HB, HS |- *.
  set (B := size_bound t 0 + (21 + lenN s)) in *.
  assert (Tc : sz_total szc <= B) by (unfold B; lia).
  assert (EST : forall v, v < two64 -> estimate_size_with_types (add_output t (mkOutput v s)) = FOk szc).
  { intros v Hv. unfold estimate_size_with_types.
    assert (X : estimated_final_tx (add_output t (mkOutput v s)) = FOk (add_output te (mkOutput v s))).
    { apply est_add_output; auto. split; [exact Hv|exact Ws]. }
    rewrite X. cbn [obind]. f_equal. apply size_add_output_sats. }
  (* the byte counts the code prices are those sizes *)
  assert (BY : (if is_data s
                then (add64 (sz_std sz) (add64 (add64 8 (varint_len (lenN s))) (Z.to_N (upper_limit_inc n))),
                      add64 (sz_data sz) (lenN s))
                else (add64 (add64 (sz_std sz) (add64 (add64 8 (varint_len (lenN s))) (Z.to_N (upper_limit_inc n)))) (lenN s),
                      sz_data sz)) = (sz_std szc, sz_data szc)).
  { unfold data_part in S2. unfold add64. unfold two64 in *.
    destruct (is_data s); f_equal; rewrite ?N.mod_small; try lia;
      rewrite ?N.mod_small; try lia; rewrite ?N.mod_small; lia. }
  rewrite BY.
  destruct (fee_of (sz_std szc) sf) as [sfee| | |] eqn:F1; cbn [obind]; try discriminate.
  destruct (fee_of (sz_data szc) df) as [dfee| | |] eqn:F2; cbn [obind]; try discriminate.
  destruct (fee_of_quoted B (sz_std szc) (sz_data szc) sf df sfee dfee ltac:(lia) ltac:(lia) ltac:(lia) F1 F2)
    as (R1 & R2 & _ & _ & -> & Hq).
  set (fee := quoted_fee sf df (sz_std szc) (sz_data szc)) in *.
  intros H. split; [exact L|]. exists sf, df, szc.
  split; [reflexivity|]. split; [reflexivity|]. split; [exact R1|]. split; [exact R2|].
  split; [exact EST|]. split; [exact Tc|]. split; [exact S3|]. cbv zeta. fold fee.
  split; [exact Hq|]. unfold avail. split.
  - intros ->.
    destruct ((total_in t - total_out t <=? fee) || (total_in t - total_out t - fee <=? dust_limit)) eqn:D.
    + injection H as _ <-. split; [reflexivity|]. apply orb_true_iff in D. lia.
    + discriminate H.
  - intros ->.
    destruct ((total_in t - total_out t <=? fee) || (total_in t - total_out t - fee <=? dust_limit)) eqn:D.
    + discriminate H.
    + injection H as <- <-. apply orb_false_iff in D. split; [lia|]. split; reflexivity.
Qed.

(** ** the named C10 theorems for Change / ChangeToAddress *)

(** every pre-existing output (and everything else) is untouched, whatever the verdict;
    at most one output with the destination script is appended, exactly when change was added *)
Theorem change_preserves_outputs t q s r t' :
  change_new t q s = (r, t') ->
  tx_version t' = tx_version t /\ tx_ins t' = tx_ins t /\ tx_lock t' = tx_lock t /\
  ((r <> FOk true /\ t' = t) \/ (r = FOk true /\ exists v, tx_outs t' = tx_outs t ++ [mkOutput v s])).
Proof.
  unfold change_new. destruct (change t q (Some s)) as [[[a has] t1]| e | |] eqn:E;
    try (intros [= <- <-]; repeat split; left; split; [discriminate|reflexivity]).
  intros [= <- <-]. revert E. unfold change.
  destruct (total_in t <? total_out t); [discriminate|].
  destruct (estimate_size_with_types t); cbn [obind]; try discriminate.
  destruct (get_fee (q_std q)); cbn [obind]; try discriminate.
  destruct (get_fee (q_data q)); cbn [obind]; try discriminate.
  destruct (upper_limit_inc _ =? -1)%Z.
  { intros [= <- <- <-]. repeat split. left. split; [discriminate|reflexivity]. }
  destruct (if is_data s then _ else _) as [sb db].
  destruct (fee_of sb _); cbn [obind]; try discriminate.
  destruct (fee_of db _); cbn [obind]; try discriminate.
  destruct (_ || _).
  - intros [= <- <- <-]. repeat split. left. split; [discriminate|reflexivity].
  - intros [= <- <- <-]. repeat split. right. split; [reflexivity|]. eexists. reflexivity.
Qed.

Definition change_hyps (q : quote) (t : tx) (s : bytes) : Prop :=
  wf_tx t /\ ~ ambiguous t /\ lenN s < two64 /\ no_overflow q t (21 + lenN s) = true.

Lemma change_new_inv t q s has t' : change_new t q s = (FOk has, t') ->
  exists a, change t q (Some s) = FOk (a, has, t').
Proof.
  unfold change_new. destruct (change t q (Some s)) as [[[a h] t1]| | |]; try discriminate.
  intros [= <- <-]. eauto.
Qed.

(** what a successful Change leaves behind, exactly *)
Theorem change_new_exact t q s t' : change_hyps q t s ->
  change_new t q s = (FOk true, t') ->
  exists sf df sz', q_std q = Some sf /\ q_data q = Some df /\
    estimate_size_with_types t' = FOk sz' /\
    let fee := quoted_fee sf df (sz_std sz') (sz_data sz') in
    tx_outs t' = tx_outs t ++ [mkOutput (avail t - fee) s] /\ dust_limit < avail t - fee /\
    total_in t' = total_in t /\ total_out t' = total_out t + (avail t - fee) /\
    total_out t' <= total_in t' /\ total_in t' - total_out t' = fee.
Proof.
  intros (W & A & Ws & NO) H. destruct (change_new_inv _ _ _ _ _ H) as [a C].
  destruct (change_some_spec t q s a true t' W A Ws NO C) as (L & sf & df & szc & Qs & Qd & _ & _ & EST & _ & _ & _ & _ & Ht).
  destruct (Ht eq_refl) as (D & -> & ->). exists sf, df, szc.
  pose proof (total_lt_two64 in_sats (tx_ins t)) as Ti. fold (total_in t) in Ti.
  unfold avail in *. split; [exact Qs|]. split; [exact Qd|].
  split; [apply EST; lia|]. cbv zeta.
  split; [reflexivity|]. split; [lia|]. split; [reflexivity|].
  rewrite total_out_add_output. cbn [out_sats]. unfold add64. rewrite N.mod_small by lia.
  change (total_in (add_output t _)) with (total_in t). repeat split; lia.
Qed.

(** total outputs never exceed total inputs after a successful change operation *)
Theorem change_no_value_created t q s has t' : change_hyps q t s ->
  change_new t q s = (FOk has, t') -> total_out t' <= total_in t'.
Proof.
  intros Hy H. destruct has.
  - destruct (change_new_exact t q s t' Hy H) as (sf & df & sz' & _ & _ & _ & X). cbv zeta in X. tauto.
  - destruct Hy as (W & A & Ws & NO). destruct (change_new_inv _ _ _ _ _ H) as [a C].
    destruct (change_some_spec t q s a false t' W A Ws NO C) as (L & sf & df & szc & _ & _ & _ & _ & _ & _ & _ & _ & Hf & _).
    destruct (Hf eq_refl) as [-> _]. exact L.
Qed.

(** if change was added, the fee left is at least the quoted fee for the estimated final size ... *)
Theorem change_fee_lower t q s t' : change_hyps q t s ->
  change_new t q s = (FOk true, t') ->
  exists sf df sz', q_std q = Some sf /\ q_data q = Some df /\ estimate_size_with_types t' = FOk sz' /\
    quoted_fee sf df (sz_std sz') (sz_data sz') <= total_in t' - total_out t'.
Proof.
  intros Hy H. destruct (change_new_exact t q s t' Hy H) as (sf & df & sz' & Qs & Qd & E & X). cbv zeta in X.
  exists sf, df, sz'. repeat split; auto. lia.
Qed.

(** ... and exceeds it by no more than the slack (in fact by nothing) *)
Theorem change_fee_upper t q s t' : change_hyps q t s ->
  change_new t q s = (FOk true, t') ->
  exists sf df sz', q_std q = Some sf /\ q_data q = Some df /\ estimate_size_with_types t' = FOk sz' /\
    total_in t' - total_out t' <= quoted_fee sf df (sz_std sz') (sz_data sz') + slack sf.
Proof.
  intros Hy H. destruct (change_new_exact t q s t' Hy H) as (sf & df & sz' & Qs & Qd & E & X). cbv zeta in X.
  exists sf, df, sz'. repeat split; auto. lia.
Qed.

(** no change is added exactly when what remains after the fee a change output would require is at or
    below the dust limit, and then the transaction is unchanged *)
Theorem no_change_iff_dust t q s has t' : change_hyps q t s ->
  change_new t q s = (FOk has, t') ->
  exists sf df szc, q_std q = Some sf /\ q_data q = Some df /\
    estimate_size_with_types (add_output t (mkOutput 0 s)) = FOk szc /\
    (has = false <-> avail t <= quoted_fee sf df (sz_std szc) (sz_data szc) + dust) /\
    (has = false -> t' = t).
Proof.
  intros (W & A & Ws & NO) H. destruct (change_new_inv _ _ _ _ _ H) as [a C].
  destruct (change_some_spec t q s a has t' W A Ws NO C) as (L & sf & df & szc & Qs & Qd & _ & _ & EST & _ & _ & _ & Hf & Ht).
  exists sf, df, szc. split; [exact Qs|]. split; [exact Qd|]. split; [apply EST; reflexivity|].
  unfold dust. split; [split|].
  - intros ->. apply Hf. reflexivity.
  - intros D. destruct has; [|reflexivity]. destruct (Ht eq_refl) as (X & _). lia.
  - intros ->. apply Hf. reflexivity.
Qed.

(** ChangeToAddress is Change with the script the address decodes to; an undecodable address leaves the
    transaction alone *)
Theorem change_to_address_spec t q d :
  change_to_address t q d = match d with Some s => change_new t q s | None => (FErr ErrBadAddress, t) end.
Proof. destruct d; reflexivity. Qed.

(** ** ChangeToExistingOutput *)
Lemma add_sats_at_length outs i v : length (add_sats_at outs i v) = length outs.
Proof. revert i. induction outs as [|o r IH]; intros [|i]; cbn; auto. Qed.

Lemma add_sats_at_nth outs i v j d : j <> i -> nth j (add_sats_at outs i v) d = nth j outs d.
Proof.
  revert i j. induction outs as [|o r IH]; intros [|i] [|j] H; cbn; auto; try congruence.
Qed.

Lemma add_sats_at_target outs i v d : (i < length outs)%nat ->
  nth i (add_sats_at outs i v) d = mkOutput (add64 (out_sats (nth i outs d)) v) (out_script (nth i outs d)).
Proof.
  revert i. induction outs as [|o r IH]; intros [|i] H; cbn in *; try lia; auto. apply IH. lia.
Qed.

Lemma add_sats_at_scripts outs i v : map out_script (add_sats_at outs i v) = map out_script outs.
Proof. revert i. induction outs as [|o r IH]; intros [|i]; cbn; auto. f_equal. apply IH. Qed.

Lemma outs_len_scripts a b : map out_script a = map out_script b -> outs_len a = outs_len b /\ data_len a = data_len b.
Proof.
  revert b. induction a as [|x a IH]; intros [|y b] H; try discriminate; [split; reflexivity|].
  cbn [map] in H. injection H as H1 H2. destruct (IH b H2) as [I1 I2].
  rewrite !outs_len_cons, !data_len_cons, !lenN_output_bytes, H1, I1, I2. split; reflexivity.
Qed.

Lemma sum_add_sats_at outs i v : (i < length outs)%nat ->
  fold_left (fun a o => a + out_sats o) outs 0 + v < two64 ->
  fold_left (fun a o => a + out_sats o) (add_sats_at outs i v) 0 = fold_left (fun a o => a + out_sats o) outs 0 + v.
Proof.
  revert i. induction outs as [|o r IH]; intros [|i] H Hs; cbn [length] in H; try lia.
  - cbn [add_sats_at fold_left] in *. rewrite (fold_plus_acc out_sats r (0 + out_sats o)) in Hs.
    rewrite (fold_plus_acc out_sats r (0 + out_sats o)), (fold_plus_acc out_sats r (0 + out_sats (mkOutput _ _))).
    cbn [out_sats]. unfold add64. rewrite N.mod_small by lia. lia.
  - cbn [add_sats_at fold_left] in *. rewrite (fold_plus_acc out_sats r (0 + out_sats o)) in Hs.
    rewrite (fold_plus_acc out_sats r (0 + out_sats o)), (fold_plus_acc out_sats (add_sats_at r i v) (0 + out_sats o)).
    rewrite IH by lia. lia.
Qed.

Lemma wf_add_sats_at outs i v : Forall wf_output outs -> Forall wf_output (add_sats_at outs i v).
Proof.
  intros Wo. revert i. induction Wo as [|o r Ho Hr IH]; intros [|i]; cbn [add_sats_at]; constructor; auto.
  destruct Ho as [_ Hs]. split; [|exact Hs]. cbn [out_sats]. unfold add64. apply N.mod_lt. discriminate.
Qed.

Lemma nth_le_sum outs i d : (i < length outs)%nat ->
  out_sats (nth i outs d) <= fold_left (fun a o => a + out_sats o) outs 0.
Proof.
  revert i. induction outs as [|o r IH]; intros [|i] Hi; cbn [length] in Hi; try lia.
  - cbn [nth fold_left]. rewrite fold_plus_acc. lia.
  - cbn [nth fold_left]. rewrite fold_plus_acc. specialize (IH i ltac:(lia)). lia.
Qed.

Theorem change_none_spec t q a has t' :
  wf_tx t -> ~ ambiguous t -> no_overflow q t 0 = true ->
  change t q None = FOk (a, has, t') ->
  t' = t /\ total_out t <= total_in t /\
  exists sf df sz, q_std q = Some sf /\ q_data q = Some df /\ estimate_size_with_types t = FOk sz /\
    let fee := quoted_fee sf df (sz_std sz) (sz_data sz) in
    (has = false -> avail t <= fee + dust_limit) /\
    (has = true -> fee + dust_limit < avail t /\ a = avail t - fee).
Proof.
  intros W A NO. apply no_overflow_inv in NO. destruct NO as (Hin & Hout & Hn & HB & HS).
  unfold change.
  destruct (N.ltb_spec (total_in t) (total_out t)) as [L|L]; [discriminate|].
  unfold estimate_size_with_types.
  destruct (estimated_final_tx t) as [te| | |] eqn:E; cbn [obind]; try discriminate.
  destruct (q_std q) as [sf|] eqn:Qs; cbn [get_fee obind]; [|discriminate].
  destruct (q_data q) as [df|] eqn:Qd; cbn [get_fee obind]; [|discriminate].
  cbn [sat_of] in HS.
  pose proof (est_size_le_bound t te W A E) as Hte.
  destruct (varint_growth _ Hn) as [G1 _].
  destruct (Z.eqb_spec (upper_limit_inc (N.of_nat (length (tx_outs t)))) (-1)) as [G|_]; [contradiction|].
  set (sz := size_with_types te) in *.
  pose proof (size_partition te) as (_ & P & _). cbv zeta in P. fold sz in P.
  assert (T0 : sz_total sz = tx_size te) by reflexivity.
  destruct (fee_of (sz_std sz) sf) as [sfee| | |] eqn:F1; cbn [obind]; try discriminate.
  destruct (fee_of (sz_data sz) df) as [dfee| | |] eqn:F2; cbn [obind]; try discriminate.
  destruct (fee_of_quoted (size_bound t 0) (sz_std sz) (sz_data sz) sf df sfee dfee ltac:(lia) ltac:(lia) ltac:(lia) F1 F2)
    as (R1 & R2 & _ & _ & -> & Hq).
  set (fee := quoted_fee sf df (sz_std sz) (sz_data sz)) in *.
  unfold avail.
  destruct ((total_in t - total_out t <=? fee) || (total_in t - total_out t - fee <=? dust_limit)) eqn:D.
  - intros [= <- <- <-]. split; [reflexivity|]. split; [exact L|]. exists sf, df, sz. repeat split; auto.
    + intros _. apply orb_true_iff in D. lia.
    + discriminate.
    + discriminate.
  - intros [= <- <- <-]. split; [reflexivity|]. split; [exact L|]. exists sf, df, sz. repeat split; auto.
    + discriminate.
    + apply orb_false_iff in D. lia.
Qed.

(** adding to an existing output changes the amount of that output only; everything else — every other
    output, the target's script, inputs, version, locktime — is what it was; the fee left is exactly the
    quoted fee for the (unchanged) estimated size *)
Theorem existing_output_only_target_changes t q idx has t' :
  wf_tx t -> ~ ambiguous t -> no_overflow q t 0 = true ->
  change_existing t q idx = (FOk has, t') ->
  tx_version t' = tx_version t /\ tx_ins t' = tx_ins t /\ tx_lock t' = tx_lock t /\
  length (tx_outs t') = length (tx_outs t) /\ (has = true -> idx < N.of_nat (length (tx_outs t))) /\
  (forall j d, j <> N.to_nat idx -> nth j (tx_outs t') d = nth j (tx_outs t) d) /\
  map out_script (tx_outs t') = map out_script (tx_outs t) /\
  (has = false -> t' = t) /\
  exists sf df sz, q_std q = Some sf /\ q_data q = Some df /\
    estimate_size_with_types t = FOk sz /\ estimate_size_with_types t' = FOk sz /\
    let fee := quoted_fee sf df (sz_std sz) (sz_data sz) in
    (has = false <-> avail t <= fee + dust) /\
    (has = true ->
       out_sats (nth (N.to_nat idx) (tx_outs t') (mkOutput 0 [])) =
         out_sats (nth (N.to_nat idx) (tx_outs t) (mkOutput 0 [])) + (avail t - fee) /\
       total_in t' = total_in t /\ total_out t' <= total_in t' /\ total_in t' - total_out t' = fee).
Proof.
  intros W A NO. unfold change_existing.
  destruct (Z.gtb_spec (uint_to_int idx) (Z.of_nat (length (tx_outs t)) - 1)) as [G|G]; [discriminate|].
  destruct (change t q None) as [[[a h] t1]| | |] eqn:C; try discriminate.
  destruct (change_none_spec t q a h t1 W A NO C) as (-> & L & sf & df & sz & Qs & Qd & E & Hf & Ht). cbv zeta in Hf, Ht.
  pose proof (no_overflow_inv _ _ _ NO) as (Hin & Hout & Hn & HB & HS).
  destruct h.
  - destruct (N.ltb_spec idx (N.of_nat (length (tx_outs t)))) as [I|I]; [|discriminate].
    intros [= <- <-]. cbn [tx_version tx_ins tx_outs tx_lock].
    destruct (Ht eq_refl) as (D & ->).
    set (fee := quoted_fee sf df (sz_std sz) (sz_data sz)) in *.
    set (i := N.to_nat idx). assert (Hi : (i < length (tx_outs t))%nat) by lia.
    set (t2 := mkTx (tx_version t) (tx_ins t) (add_sats_at (tx_outs t) i (avail t - fee)) (tx_lock t)).
    pose proof (total_in_sum t Hin) as Ti. pose proof (total_out_sum t Hout) as To.
    unfold avail in *.
    (* the target's new amount does not wrap: it is part of a total below the inputs *)
    assert (Hnth : out_sats (nth i (tx_outs t) (mkOutput 0 [])) <= sum_out t).
    { apply nth_le_sum. exact Hi. }
    assert (S2 : sum_out t2 = sum_out t + (total_in t - total_out t - fee)).
    { unfold sum_out, t2. cbn [tx_outs]. apply sum_add_sats_at; [exact Hi|]. fold (sum_out t). lia. }
    assert (W2 : wf_tx t2 /\ ~ ambiguous t2).
    { destruct W as (V & Lk & Wi & Wo & NI & NOu). split.
      - unfold wf_tx, t2. cbn [tx_version tx_ins tx_outs tx_lock]. rewrite add_sats_at_length. repeat split; auto.
        apply wf_add_sats_at. exact Wo.
      - intros (_ & H & _). unfold t2 in H. cbn [tx_outs] in H.
        assert (length (add_sats_at (tx_outs t) i (total_in t - total_out t - fee)) = 0%nat) by (rewrite H; reflexivity).
        rewrite add_sats_at_length in *. lia. }
    destruct W2 as [W2 A2].
    assert (E2 : estimate_size_with_types t2 = FOk sz).
    { revert E. unfold estimate_size_with_types. rewrite (est_final_wf t W A), (est_final_wf t2 W2 A2).
      unfold t2 at 1. cbn [tx_ins]. destruct (fill_dummy (tx_ins t)) as [ins| | |]; cbn [obind]; try discriminate.
      intros [= <-]. f_equal. unfold size_with_types.
      destruct (outs_len_scripts (tx_outs (set_ins t2 ins)) (tx_outs (set_ins t ins))) as [O1 O2].
      { cbn [set_ins tx_outs t2]. apply add_sats_at_scripts. }
      rewrite !tx_size_eq, O1, O2. cbn [set_ins tx_ins tx_outs t2]. rewrite add_sats_at_length. reflexivity. }
    split; [reflexivity|]. split; [reflexivity|]. split; [reflexivity|].
    split; [apply add_sats_at_length|]. split; [intros _; exact I|].
    split; [intros j d Hj; apply add_sats_at_nth; exact Hj|].
    split; [apply add_sats_at_scripts|]. split; [discriminate|].
    exists sf, df, sz. split; [exact Qs|]. split; [exact Qd|]. split; [exact E|]. split; [exact E2|].
    cbv zeta. fold fee. split.
    { split; [discriminate|]. unfold dust. intros; lia. }
    intros _. split.
    { rewrite add_sats_at_target by exact Hi. cbn [out_sats]. unfold add64. apply N.mod_small. lia. }
    change (total_in t2) with (total_in t). rewrite (total_out_sum t2) by lia.
    split; [reflexivity|]. split; lia.
  - intros [= <- <-].
    split; [reflexivity|]. split; [reflexivity|]. split; [reflexivity|]. split; [reflexivity|].
    split; [discriminate|].
    split; [intros; reflexivity|]. split; [reflexivity|]. split; [intros _; reflexivity|].
    exists sf, df, sz. split; [exact Qs|]. split; [exact Qd|]. split; [exact E|]. split; [exact E|].
    cbv zeta. split; [|discriminate].
    split; [intros _; unfold dust; apply Hf; reflexivity|intros _; reflexivity].
Qed.
