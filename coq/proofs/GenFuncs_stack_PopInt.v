(** stack.PopInt (bscript/interpreter/stack.go), as printed from the Go source: removes the top item and converts it with makeScriptNumber ([sn_make] of lib/GoInterp.v, i.e. [ScriptNum.make_num]).
    The Go stack is [rev d], [d] being the stack of model/Interp.v (top first). *)
From Coq Require Import List ZArith NArith Bool Lia ZifyN ZifyNat ZifyBool.
From Coq Require Import Strings.Byte.
From GoBT Require Import lib.Bytes lib.GoSem lib.GoInterp gen.Funcs proofs.GenFuncsTac proofs.GenFuncsInterpTac proofs.GenFuncs_stack_PopByteArray.
From GoBT Require model.Interp model.ScriptNum.
Import ListNotations.
Ltac Zify.zify_post_hook ::= Z.div_mod_to_equations.
Local Open Scope Z_scope.

Lemma stack_PopInt_spec (mx : Z) (mn ag : bool) (d : list bytes) : Interp.lenZ d < 2147483648 ->
  stack_PopInt mx mn ag (rev d) =
  Val (match d with [] => (rev [], (sn_nil, true)) | x :: r => (rev r, sn_make x mx mn ag) end).
Proof.
  intros Hd. unfold stack_PopInt. rewrite stack_PopByteArray_spec by exact Hd.
  destruct d as [|x r]; reflexivity.
Qed.

#[global] Hint Rewrite stack_PopInt_spec using stk_small : stk.
