(** The multisig trace / flag table on a RUNNING script (C06): when the current script is a parse result the
    script code of every signature unparses and hashes ([sig_digestable] is a theorem, not a hypothesis), and
    the pair predicate is the one over the SPECIFICATION's digest ([pair_ok_spec], proofs/AuditB_C06b.v). *)
From Coq Require Import List NArith ZArith Lia Bool Arith ZifyN ZifyNat ZifyBool.
From Coq Require Import Strings.Byte.
From GoBT Require Import lib.Bytes lib.VarInt model.Tx model.SigHash model.SigHashWire model.ScriptNum model.Interp model.CheckSig
  spec.DigestSpec spec.MultisigSpec spec.MultisigTraceSpec proofs.SigHashProofs proofs.InterpTotal proofs.CheckSigProofs
  proofs.DerProofs proofs.MultisigProofs proofs.SigOpProofs proofs.AuditB_C06 proofs.AuditB_C06b proofs.MultisigTrace.
Import ListNotations.

Section Running.
Variable orc : sig_oracle.
Variable t : tx.
Variable i : N.
Variable inp : input.
Variable c : ctx.
Variable s : st.
Variable e : bool.
Variable bs : bytes.
Variable sigs : list bytes.
Hypothesis Hp : parse_script e bs = Some (cur s).
Hypothesis Hbs : (lenN bs < two64)%N.
Hypothesis Hwf : wf_tx t.
Hypothesis Hin : nth_error (tx_ins t) (N.to_nat i) = Some inp.
Hypothesis Hi : (i < 2147483648)%N.
Hypothesis Hout : (N.of_nat (length (tx_outs t)) < 2147483648)%N.

Lemma sig_digestable_running raw : sig_digestable t i c (multisig_code_ops c s sigs) raw.
Proof.
  unfold sig_digestable. destruct (split_last raw) as [[sg hb]|]; [|exact I].
  destruct (multisig_code_unparses e bs c s sigs (b2n hb) Hp) as (up & Hup & Hl).
  exists up. eexists. split; [exact Hup|].
  apply (sighash_for_spec t i up (b2n hb) inp Hwf Hin Hi Hout); [unfold lenN in *; lia|apply b2n_lt].
Qed.

Lemma pair_ok_spec_running raw pk :
  pair_ok orc t i c (multisig_code_ops c s sigs) raw pk =
  pair_ok_spec orc (wire_tx t) (N.to_nat i) (in_sats inp) c (multisig_code_ops c s sigs) raw pk.
Proof.
  unfold pair_ok, pair_ok_spec. destruct (split_last raw) as [[sg hb]|]; [|reflexivity].
  destruct (multisig_code_unparses e bs c s sigs (b2n hb) Hp) as (up & Hup & Hl). rewrite Hup.
  rewrite (sighash_for_spec t i up (b2n hb) inp Hwf Hin Hi Hout); [reflexivity|unfold lenN in *; lia|apply b2n_lt].
Qed.
End Running.

(** "signature j verifies under key i" over the specification's digest, by position (loop order) *)
Definition ms_ok_spec (orc : sig_oracle) (wt : transaction) (n : nat) (amount : N) (c : ctx) (script : list pop)
    (sigs pks : list bytes) (j i : nat) : bool :=
  pair_ok_spec orc wt n amount c script (nth j sigs []) (nth i pks []).

(** OP_CHECKMULTISIG on a running script, complete: it is a script error exactly for a non-empty dummy under
    STRICTMULTISIG, an EXAMINED pair with an element failing an enabled check, or NULLFAIL with a non-empty
    signature when the signatures cannot be matched -- the walk and the matching over the specification's digest;
    no hypothesis on the encodings *)
Theorem checkmultisig_error_iff_running : forall orc t i c s idx nk pks ns sigs dummy rest a b inp e bs,
  oracle_total orc ->
  parse_script e bs = Some (cur s) -> (lenN bs < two64)%N ->
  wf_tx t -> nth_error (tx_ins t) (N.to_nat i) = Some inp -> (i < 2147483648)%N ->
  (N.of_nat (length (tx_outs t)) < 2147483648)%N ->
  ds s = nk :: pks ++ ns :: sigs ++ dummy :: rest ->
  pop_count c nk = Some a -> to_int32 a = Z.of_nat (length pks) ->
  pop_count c ns = Some b -> to_int32 b = Z.of_nat (length sigs) ->
  (length sigs <= length pks)%nat -> (Z.of_nat (length pks) <= max_pubkeys c)%Z ->
  (nops s + Z.of_nat (length pks) <= max_ops c)%Z ->
  let script := multisig_code_ops c s sigs in
  let ok := ms_ok_spec orc (wire_tx t) (N.to_nat i) (in_sats inp) c script sigs pks in
  (checkmultisig_run orc t i c s idx false = Some OErr <->
   (has_flag c F_STRICTMULTISIG = true /\ dummy <> []) \/
   (exists j k raw pk, In (j, k) (examined ok (length sigs) (length pks)) /\
                       nth_error sigs j = Some raw /\ nth_error pks k = Some pk /\
                       (sig_fails c raw \/ check_pubkey_enc c pk = false)) \/
   (has_flag c F_NULLFAIL = true /\ (exists sg, In sg sigs /\ sg <> []) /\
    ~ monotone_matching (fun sg k => pair_ok_spec orc (wire_tx t) (N.to_nat i) (in_sats inp) c script sg k = true) sigs pks)).
Proof.
  intros orc t i c s idx nk pks ns sigs dummy rest a b inp e bs Horc Hp Hbs Hwf Hin Hi Hout Hds Ha Ha' Hb Hb' Hle Hmax Hops script ok.
  assert (Hd : Forall (sig_digestable t i c script) sigs).
  { apply Forall_forall. intros raw _. apply (sig_digestable_running t i inp c s e bs sigs Hp Hbs Hwf Hin Hi Hout). }
  rewrite (checkmultisig_error_iff orc t i c s idx nk pks ns sigs dummy rest a b Hds Ha Ha' Hb Hb' Hle Hmax Hops Horc Hd).
  fold script.
  assert (Hpo : forall raw pk, pair_ok orc t i c script raw pk =
                               pair_ok_spec orc (wire_tx t) (N.to_nat i) (in_sats inp) c script raw pk).
  { intros raw pk. apply (pair_ok_spec_running orc t i inp c s e bs sigs Hp Hbs Hwf Hin Hi Hout). }
  assert (Htr : ms_trace orc t i c script sigs pks = examined ok (length sigs) (length pks)).
  { unfold ms_trace, examined. symmetry. apply examined_from_ext. intros [j k] _. cbn [fst snd].
    unfold ok, ms_ok_spec, ms_ok, okf, at_pos. symmetry. apply Hpo. }
  assert (Hmm : monotone_matching (fun sg k => pair_ok orc t i c script sg k = true) sigs pks <->
                monotone_matching (fun sg k => pair_ok_spec orc (wire_tx t) (N.to_nat i) (in_sats inp) c script sg k = true) sigs pks).
  { split; apply mm_ext_in; intros sg k _; rewrite Hpo; reflexivity. }
  unfold bad_pair_examined. rewrite Htr, Hmm. reflexivity.
Qed.
