(** Proofs about model/AddressTx.v (C15): the verdict of the transaction methods that accept an address string
    (AddP2PKHOutputFromAddress / PayToAddress / ChangeToAddress) on the STRING does not depend on the transaction
    they are called on nor on the fee quote; a string NewP2PKHFromAddress refuses is refused on every transaction
    and leaves it exactly as it was; whatever they accept is Base58 of 25 bytes with a supported version, and
    the output appended carries the script of NewP2PKHFromAddress. *)
From Coq Require Import String List NArith ZArith Bool.
From Coq Require Import Strings.Byte.
From GoBT Require Import lib.Bytes lib.Str lib.VarInt model.Tx gen.Consts spec.FeeSpec model.Fees model.Change proofs.ChangeProofs.
From GoBT Require Import lib.Base58 model.Address spec.Base58Check proofs.AddressProofs model.AddressTx.
Import ListNotations.
Local Open Scope N_scope.

(** ** the change arithmetic never objects to the address: ErrBadAddress comes from the decoding step only *)
Lemma fill_dummy_not_bad_address ins : fill_dummy ins <> FErr ErrBadAddress.
Proof.
  induction ins as [|i r IH]; cbn [fill_dummy]; [discriminate|].
  destruct (in_script i); [|discriminate].
  destruct (negb _); [discriminate|].
  destruct (fill_dummy r) as [r'|e| |]; cbn [obind]; try discriminate.
  intros [= ->]. apply IH. reflexivity.
Qed.

Lemma estimate_size_with_types_not_bad_address t : estimate_size_with_types t <> FErr ErrBadAddress.
Proof.
  unfold estimate_size_with_types, estimated_final_tx.
  destruct (clone t); cbn [obind]; try discriminate.
  pose proof (fill_dummy_not_bad_address (tx_ins a)) as H.
  destruct (fill_dummy (tx_ins a)) as [r'|e| |]; cbn [obind]; try discriminate.
  intros [= ->]. apply H. reflexivity.
Qed.

Lemma get_fee_not_bad_address o : get_fee o <> FErr ErrBadAddress.
Proof. destruct o; cbn; discriminate. Qed.

Lemma fee_of_not_err n f e : fee_of n f <> FErr e.
Proof. unfold fee_of. destruct (r_bytes f =? 0); discriminate. Qed.

Lemma change_not_bad_address t q d : change t q d <> FErr ErrBadAddress.
Proof.
  unfold change.
  destruct (total_in t <? total_out t); [discriminate|].
  pose proof (estimate_size_with_types_not_bad_address t) as HS.
  destruct (estimate_size_with_types t) as [sz|e| |]; cbn [obind]; try discriminate;
    [|intros [= ->]; apply HS; reflexivity].
  pose proof (get_fee_not_bad_address (q_std q)) as H1.
  destruct (get_fee (q_std q)) as [sf|e| |]; cbn [obind]; try discriminate;
    [|intros [= ->]; apply H1; reflexivity].
  pose proof (get_fee_not_bad_address (q_data q)) as H2.
  destruct (get_fee (q_data q)) as [df|e| |]; cbn [obind]; try discriminate;
    [|intros [= ->]; apply H2; reflexivity].
  destruct (upper_limit_inc _ =? -1)%Z; [discriminate|].
  destruct (match d with Some s => _ | None => _ end) as [sb db].
  pose proof (fee_of_not_err sb sf) as F1.
  destruct (fee_of sb sf) as [x|e| |]; cbn [obind]; try discriminate; [|exfalso; eapply F1; reflexivity].
  pose proof (fee_of_not_err db df) as F2.
  destruct (fee_of db df) as [y|e| |]; cbn [obind]; try discriminate; [|exfalso; eapply F2; reflexivity].
  destruct (_ || _); [discriminate|].
  destruct d; discriminate.
Qed.

Lemma change_new_not_bad_address t q s : refused_as_address (fst (change_new t q s)) = false.
Proof.
  unfold change_new. pose proof (change_not_bad_address t q (Some s)) as H.
  destruct (change t q (Some s)) as [[[a has] t1]|e| |]; cbn; try reflexivity.
  destruct e; try reflexivity. exfalso. apply H. reflexivity.
Qed.

(** ** ChangeToAddress refuses the string as an address exactly when NewP2PKHFromAddress refuses it — on EVERY
    transaction (empty, inputs = outputs, inputs above or below the outputs) and EVERY quote *)
Theorem change_to_address_refusal_iff t q addr :
  refused_as_address (fst (change_to_address_str t q addr)) = true <-> exists e, p2pkh_from_address addr = Err e.
Proof.
  unfold change_to_address_str. destruct (p2pkh_from_address addr) as [s|e|].
  - cbn [change_to_address]. rewrite change_new_not_bad_address. split; [discriminate|intros [e [=]]].
  - cbn. split; [eauto|reflexivity].
  - cbn. split; [discriminate|intros [e [=]]].
Qed.

Theorem change_to_address_refusal_state_independent t q t' q' addr :
  refused_as_address (fst (change_to_address_str t q addr)) =
  refused_as_address (fst (change_to_address_str t' q' addr)).
Proof.
  unfold change_to_address_str. destruct (p2pkh_from_address addr) as [s|e|]; cbn [change_to_address].
  - now rewrite !change_new_not_bad_address.
  - reflexivity.
  - reflexivity.
Qed.

Theorem add_output_verdict_state_independent t sats t' sats' addr :
  fst (add_p2pkh_output_from_address t addr sats) = fst (add_p2pkh_output_from_address t' addr sats').
Proof. unfold add_p2pkh_output_from_address. destruct (p2pkh_from_address addr); reflexivity. Qed.

(** ** a string NewP2PKHFromAddress does not accept is accepted by no transaction method, whatever the transaction and
    the quote, and the transaction is afterwards the one the method was called on *)
Theorem rejected_string_rejected_on_every_tx addr : (forall s, p2pkh_from_address addr <> Ok s) ->
  forall t q sats,
    fst (add_p2pkh_output_from_address t addr sats) <> Ok tt /\ snd (add_p2pkh_output_from_address t addr sats) = t /\
    fst (pay_to_address t addr sats) <> Ok tt /\ snd (pay_to_address t addr sats) = t /\
    (forall b, fst (change_to_address_str t q addr) <> FOk b) /\ snd (change_to_address_str t q addr) = t.
Proof.
  intros H t q sats. unfold pay_to_address, add_p2pkh_output_from_address, change_to_address_str.
  destruct (p2pkh_from_address addr) as [s|e|]; [exfalso; eapply H; reflexivity| |]; cbn;
    repeat split; try discriminate; try (intros b; discriminate).
Qed.

(** ** accept => Base58 of 25 bytes with version 00/6f (everything but the checksum, cf. the known finding), on every
    transaction; and what an accepting call leaves behind *)
Theorem tx_acceptors_accept_only_base58_25 t q addr sats :
  (fst (add_p2pkh_output_from_address t addr sats) = Ok tt -> is_base58_25 (bytes_of_string addr)) /\
  (fst (pay_to_address t addr sats) = Ok tt -> is_base58_25 (bytes_of_string addr)) /\
  (forall b, fst (change_to_address_str t q addr) = FOk b -> is_base58_25 (bytes_of_string addr)).
Proof.
  destruct (from_address_accept_partial_lemma addr) as [_ [H _]].
  unfold pay_to_address, add_p2pkh_output_from_address, change_to_address_str.
  destruct (p2pkh_from_address addr) as [s|e|].
  - assert (G : is_base58_25 (bytes_of_string addr)) by (apply H; eauto). repeat split; intros; exact G.
  - cbn. repeat split; try discriminate; try (intros b; discriminate).
  - cbn. repeat split; try discriminate; try (intros b; discriminate).
Qed.

Theorem add_output_exact t addr sats r t' : add_p2pkh_output_from_address t addr sats = (r, t') ->
  (r = Ok tt /\ exists s, p2pkh_from_address addr = Ok s /\ t' = add_output t (mkOutput sats s)) \/
  (r <> Ok tt /\ t' = t).
Proof.
  unfold add_p2pkh_output_from_address. destruct (p2pkh_from_address addr) as [s|e|]; intros [= <- <-].
  - left. split; [reflexivity|]. eauto.
  - right. split; [discriminate|reflexivity].
  - right. split; [discriminate|reflexivity].
Qed.

(** version, inputs, lock time and every earlier output are untouched whatever the verdict; an output is appended only
    when change was added, and its script is the one NewP2PKHFromAddress builds from the string *)
Theorem change_to_address_str_preserves t q addr r t' : change_to_address_str t q addr = (r, t') ->
  tx_version t' = tx_version t /\ tx_ins t' = tx_ins t /\ tx_lock t' = tx_lock t /\
  ((r <> FOk true /\ t' = t) \/
   (r = FOk true /\ exists s v, p2pkh_from_address addr = Ok s /\ tx_outs t' = tx_outs t ++ [mkOutput v s])).
Proof.
  unfold change_to_address_str. destruct (p2pkh_from_address addr) as [s|e|].
  - cbn [change_to_address]. intros E. destruct (change_preserves_outputs t q s r t' E) as [A [B [C D]]].
    repeat split; try assumption. destruct D as [D|[D [v Dv]]]; [left; exact D|right]. split; [exact D|]. eauto.
  - cbn. intros [= <- <-]. repeat split. left. split; [discriminate|reflexivity].
  - intros [= <- <-]. repeat split. left. split; [discriminate|reflexivity].
Qed.
