(** Proofs about the pointer-level model of the signature-hash functions (model/SigHeap.v):
    frame (no cell that existed before the call is changed), refinement of the value-level model
    (model/SigHash.v), and the shallow-clone counterexample that shows the frame statement can fail
    on this machine. *)
From Coq Require Import List NArith ZArith Lia Bool.
From Coq Require Import Strings.Byte.
From GoBT Require Import lib.Bytes lib.Parse lib.VarInt lib.Sha256 model.Tx model.SigHash model.SigHeap
  proofs.SigHashProofs.
Import ListNotations.
Local Open Scope N_scope.

Lemma in_firstn_in {A} (x : A) n l : In x (firstn n l) -> In x l.
Proof. revert l; induction n as [|n IH]; intros [|y r]; cbn; intuition. Qed.
Lemma in_skipn_in {A} (x : A) n l : In x (skipn n l) -> In x l.
Proof. revert l; induction n as [|n IH]; intros [|y r]; cbn; intuition. Qed.

(** * preservation relations between heaps *)
(** every cell outside [W] is still there with the same contents *)
Definition pres (W : addr -> Prop) (h h1 : heap) : Prop :=
  forall a c, cell h a = Some c -> ~ W a -> cell h1 a = Some c.
(** script cells are never overwritten *)
Definition sext (h h1 : heap) : Prop :=
  forall a b, cell h a = Some (CScript b) -> cell h1 a = Some (CScript b).

Lemma pres_refl W h : pres W h h.
Proof. intros a c H _. exact H. Qed.
Lemma pres_trans W h1 h2 h3 : pres W h1 h2 -> pres W h2 h3 -> pres W h1 h3.
Proof. intros A B a c H Hw. apply B; [apply A; assumption|assumption]. Qed.
Lemma pres_weaken (W W' : addr -> Prop) h h1 : (forall a, W a -> W' a) -> pres W h h1 -> pres W' h h1.
Proof. intros I A a c H Hw. apply A; [assumption|]. intro. apply Hw. auto. Qed.
Lemma sext_refl h : sext h h.
Proof. intros a b H. exact H. Qed.
Lemma sext_trans h1 h2 h3 : sext h1 h2 -> sext h2 h3 -> sext h1 h3.
Proof. intros A B a b H. apply B, A, H. Qed.

Lemma cell_lt h a c : cell h a = Some c -> (a < length h)%nat.
Proof. unfold cell. intros H. apply nth_error_Some. congruence. Qed.
Lemma cell_app_old h e a x : cell h a = Some x -> cell (h ++ e) a = Some x.
Proof. unfold cell. intros H. rewrite nth_error_app1; [exact H|]. apply nth_error_Some. congruence. Qed.
Lemma cell_alloc_new h c : cell (h ++ [c]) (length h) = Some c.
Proof. unfold cell. rewrite nth_error_app2, Nat.sub_diag by lia. reflexivity. Qed.
Lemma cell_set_same h a c x : cell h a = Some x -> cell (set_nth h a c) a = Some c.
Proof.
  unfold cell. revert a; induction h as [|y r IH]; intros [|a] H; cbn in *; try discriminate; auto.
Qed.
Lemma cell_set_other h a c a' : a' <> a -> cell (set_nth h a c) a' = cell h a'.
Proof.
  unfold cell. revert a a'; induction h as [|y r IH]; intros [|a] [|a'] H; cbn; try reflexivity; try congruence.
  apply IH. congruence.
Qed.
Lemma length_set_nth h a c : length (set_nth h a c) = length h.
Proof. revert a; induction h as [|y r IH]; intros [|a]; cbn; auto. Qed.

Lemma pres_app W h e : pres W h (h ++ e).
Proof. intros a c H _. apply cell_app_old, H. Qed.
Lemma sext_app h e : sext h (h ++ e).
Proof. intros a b H. apply cell_app_old, H. Qed.
Lemma pres_set h a c : pres (eq a) h (set_nth h a c).
Proof. intros a' x H Hw. rewrite cell_set_other by congruence. exact H. Qed.
Lemma sext_set h a c : (forall b, cell h a <> Some (CScript b)) -> sext h (set_nth h a c).
Proof.
  intros N a' b H. destruct (Nat.eq_dec a' a) as [->|Hne]; [destruct (N b H)|].
  rewrite cell_set_other by exact Hne. exact H.
Qed.

Lemma upd_input_frame h a f h1 : upd_input h a f = Some h1 -> pres (eq a) h h1 /\ sext h h1.
Proof.
  unfold upd_input, get_input. destruct (cell h a) as [[| | |]|] eqn:E; try discriminate.
  intros [= <-]. split; [apply pres_set|apply sext_set]. intros b; rewrite E; discriminate.
Qed.
Lemma upd_output_frame h a f h1 : upd_output h a f = Some h1 -> pres (eq a) h h1 /\ sext h h1.
Proof.
  unfold upd_output, get_output. destruct (cell h a) as [[| | |]|] eqn:E; try discriminate.
  intros [= <-]. split; [apply pres_set|apply sext_set]. intros b; rewrite E; discriminate.
Qed.
Lemma upd_tx_frame h a f h1 : upd_tx h a f = Some h1 -> pres (eq a) h h1 /\ sext h h1.
Proof.
  unfold upd_tx, get_tx. destruct (cell h a) as [[| | |]|] eqn:E; try discriminate.
  intros [= <-]. split; [apply pres_set|apply sext_set]. intros b; rewrite E; discriminate.
Qed.

(** * frame of the loops (any heap, any outcome) *)
Definition body_frame (body : N -> addr -> heap -> option heap) : Prop :=
  forall j a h h1, body j a h = Some h1 -> pres (eq a) h h1 /\ sext h h1.

Lemma for_range_frame body : body_frame body -> forall l k h h' ok,
  for_range body k l h = (h', ok) -> pres (fun a => In a l) h h' /\ sext h h'.
Proof.
  intros Hb. induction l as [|a r IH]; intros k h h' ok; cbn [for_range].
  - intros [= <- <-]. split; [apply pres_refl|apply sext_refl].
  - destruct (body k a h) as [h1|] eqn:E.
    + intros H. destruct (Hb _ _ _ _ E) as [P1 S1]. destruct (IH _ _ _ _ H) as [P2 S2]. split.
      * eapply pres_trans; eapply pres_weaken; [|exact P1| |exact P2]; cbn; intuition.
      * eapply sext_trans; eassumption.
    + intros [= <- <-]. split; [apply pres_refl|apply sext_refl].
Qed.

Lemma blank_body_frame p i : body_frame (blank_body p i).
Proof.
  intros j a h h1. unfold blank_body. destruct (j =? i).
  - destruct (get_tx h p); [|discriminate]. destruct (nthN _ i); [|discriminate].
    destruct (get_input h a0); [|discriminate]. apply upd_input_frame.
  - unfold alloc. intros H. apply upd_input_frame in H. destruct H as [P S]. split.
    + eapply pres_trans; [apply pres_app|]. eapply pres_trans; [apply pres_app|]. exact P.
    + eapply sext_trans; [apply sext_app|]. eapply sext_trans; [apply sext_app|]. exact S.
Qed.
Lemma zero_seq_body_frame i : body_frame (zero_seq_body i).
Proof.
  intros j a h h1. unfold zero_seq_body. destruct (negb (j =? i)).
  - apply upd_input_frame.
  - intros [= <-]. split; [apply pres_refl|apply sext_refl].
Qed.
Lemma blank_out_body_frame i : body_frame (blank_out_body i).
Proof.
  intros j a h h1. unfold blank_out_body. destruct (j <? i).
  - unfold alloc. intros H. apply upd_output_frame in H. destruct H as [P S]. split.
    + eapply pres_trans; [apply pres_app|]. exact P.
    + eapply sext_trans; [apply sext_app|]. exact S.
  - intros [= <-]. split; [apply pres_refl|apply sext_refl].
Qed.

(** the clone's footprint: its transaction cell, the cells its Inputs / Outputs point to *)
Definition footprint (q : addr) (tq : tx_rec) (a : addr) : Prop :=
  a = q \/ In a (tr_ins tq) \/ In a (tr_outs tq).

Lemma flags_phase_frame h q ia oa i ht next h' oa' ok :
  flags_phase h q ia oa i ht next = (h', oa', ok) ->
  pres (fun a => a = q \/ In a ia \/ In a oa) h h' /\ sext h h'.
Proof.
  unfold flags_phase. destruct (flag_has_with_mask ht sh_none).
  - destruct (upd_tx h q _) as [ha|] eqn:E.
    + destruct (for_range (zero_seq_body i) 0 ia ha) as [hb okb] eqn:F. intros [= <- <- <-].
      apply upd_tx_frame in E. destruct E as [P1 S1].
      destruct (for_range_frame _ (zero_seq_body_frame i) _ _ _ _ _ F) as [P2 S2]. split.
      * eapply pres_trans; eapply pres_weaken; [|exact P1| |exact P2]; cbn; intuition.
      * eapply sext_trans; eassumption.
    + intros [= <- <- <-]. split; [apply pres_refl|apply sext_refl].
  - destruct (flag_has_with_mask ht sh_single).
    + destruct (_ || _). { intros [= <- <- <-]. split; [apply pres_refl|apply sext_refl]. }
      destruct (upd_tx h q _) as [ha|] eqn:E; [|intros [= <- <- <-]; split; [apply pres_refl|apply sext_refl]].
      apply upd_tx_frame in E. destruct E as [P1 S1].
      destruct (for_range (blank_out_body i) 0 _ ha) as [hb okb] eqn:F.
      destruct (for_range_frame _ (blank_out_body_frame i) _ _ _ _ _ F) as [P2 S2].
      assert (P12 : pres (fun a => a = q \/ In a ia \/ In a oa) h hb).
      { eapply pres_trans; eapply pres_weaken; [|exact P1| |exact P2]; cbn; [intuition|].
        intros a Ha. right; right. eapply in_firstn_in, Ha. }
      destruct (negb okb).
      * intros [= <- <- <-]. split; [exact P12|eapply sext_trans; eassumption].
      * destruct (for_range (zero_seq_body i) 0 ia hb) as [hc okc] eqn:G. intros [= <- <- <-].
        destruct (for_range_frame _ (zero_seq_body_frame i) _ _ _ _ _ G) as [P3 S3]. split.
        -- eapply pres_trans; [exact P12|]. eapply pres_weaken; [|exact P3]. cbn; intuition.
        -- eapply sext_trans; [eapply sext_trans|]; eassumption.
    + intros [= <- <- <-]. split; [apply pres_refl|apply sext_refl].
Qed.

Lemma acp_phase_frame h q ia i ht next h' ok :
  acp_phase h q ia i ht next = (h', ok) -> pres (eq q) h h' /\ sext h h'.
Proof.
  unfold acp_phase. destruct (negb _).
  - destruct (_ || _). { intros [= <- <-]. split; [apply pres_refl|apply sext_refl]. }
    destruct (upd_tx h q _) eqn:E; intros [= <- <-].
    + apply upd_tx_frame in E. exact E.
    + split; [apply pres_refl|apply sext_refl].
  - intros [= <- <-]. split; [apply pres_refl|apply sext_refl].
Qed.

Lemma serialise_heap h p q ht : fst (serialise h p q ht) = h.
Proof.
  unfold serialise. destruct (get_tx h p), (get_tx h q) as [tq|]; try reflexivity.
  destruct (ser_inputs h (tr_ins tq)), (ser_outputs h (tr_outs tq)); reflexivity.
Qed.

(** everything after the clone writes only inside the clone's footprint (or allocates) *)
Lemma legacy_body_frame h1 p q i ht h' r tq :
  get_tx h1 q = Some tq -> legacy_body h1 p q i ht = (h', r) ->
  pres (footprint q tq) h1 h' /\ sext h1 h'.
Proof.
  intros Hq. unfold legacy_body. rewrite Hq.
  destruct (for_range (blank_body p i) 0 (tr_ins tq) h1) as [h2 ok] eqn:F1.
  destruct (for_range_frame _ (blank_body_frame p i) _ _ _ _ _ F1) as [P1 S1].
  assert (P1' : pres (footprint q tq) h1 h2)
    by (eapply pres_weaken; [|exact P1]; unfold footprint; cbn; intuition).
  destruct (negb ok). { intros [= <- <-]. split; assumption. }
  cbv zeta. destruct (flags_phase h2 q (tr_ins tq) (tr_outs tq) i ht ((i + 1) mod two32)) as [[h3 oa] ok3] eqn:F2.
  destruct (flags_phase_frame _ _ _ _ _ _ _ _ _ _ F2) as [P2 S2].
  assert (P2' : pres (footprint q tq) h1 h3) by (eapply pres_trans; [exact P1'|exact P2]).
  assert (S2' : sext h1 h3) by (eapply sext_trans; eassumption).
  destruct (negb ok3). { intros [= <- <-]. split; assumption. }
  destruct (acp_phase h3 q (tr_ins tq) i ht ((i + 1) mod two32)) as [h4 ok4] eqn:F3.
  destruct (acp_phase_frame _ _ _ _ _ _ _ _ F3) as [P3 S3].
  assert (P3' : pres (footprint q tq) h1 h4).
  { eapply pres_trans; [exact P2'|]. eapply pres_weaken; [|exact P3]. unfold footprint; intuition. }
  assert (S3' : sext h1 h4) by (eapply sext_trans; eassumption).
  destruct (negb ok4). { intros [= <- <-]. split; assumption. }
  intros H. pose proof (serialise_heap h4 p q ht) as E. rewrite H in E. cbn in E. subst h'.
  split; assumption.
Qed.

(** * the frame theorem *)
(** what the frame needs from a clone: it writes nothing that existed, and everything its result
    points to (directly) is new *)
Definition fresh_clone (clone : heap -> addr -> clone_res) : Prop :=
  forall h p h1 q, clone h p = COk h1 q ->
    pres (fun _ => False) h h1 /\
    forall tq, get_tx h1 q = Some tq -> forall a, footprint q tq a -> (length h <= a)%nat.

Theorem legacy_frame_fresh clone : fresh_clone clone -> forall h p i ht h' r,
  legacy_preimage_heap clone h p i ht = (h', r) ->
  forall a, (a < heap_size h)%nat -> cell h' a = cell h a.
Proof.
  intros Hc h p i ht h' r H.
  assert (P : pres (fun a => (length h <= a)%nat) h h').
  { revert H. unfold legacy_preimage_heap.
    repeat match goal with
           | |- (h, _) = _ -> _ => intros [= <- <-]; apply pres_refl
           | |- match ?x with _ => _ end = _ -> _ => destruct x eqn:?
           | |- (if ?c then _ else _) = _ -> _ => destruct c
           end.
    destruct (Hc _ _ _ _ Heqc) as [P0 Hfp].
    destruct (get_tx h0 q) as [tq|] eqn:Hq.
    - intros H. destruct (legacy_body_frame _ _ _ _ _ _ _ _ Hq H) as [P1 _].
      eapply pres_trans; [eapply pres_weaken; [|exact P0]; intuition|].
      eapply pres_weaken; [|exact P1]. intros a' Ha'. exact (Hfp _ eq_refl _ Ha').
    - unfold legacy_body. rewrite Hq. intros [= <- <-]. eapply pres_weaken; [|exact P0]. intuition. }
  intros a Ha. unfold heap_size in Ha. destruct (cell h a) as [c|] eqn:E.
  - apply P; [exact E|lia].
  - exfalso. apply nth_error_None in E. lia.
Qed.

(** allocation only appends *)
Definition falloc {A} (f : heap -> A -> heap * addr) : Prop :=
  forall h x h1 a, f h x = (h1, a) -> exists e, h1 = h ++ e /\ (length h <= a)%nat.
Lemma alloc_input_falloc : falloc alloc_input.
Proof.
  intros h x h1 a. unfold alloc_input, alloc. intros [= <- <-].
  eexists. rewrite <- app_assoc. split; [reflexivity|]. rewrite app_length. lia.
Qed.
Lemma alloc_output_falloc : falloc alloc_output.
Proof.
  intros h x h1 a. unfold alloc_output, alloc. intros [= <- <-].
  eexists. rewrite <- app_assoc. split; [reflexivity|]. rewrite app_length. lia.
Qed.
Lemma alloc_many_ext {A} (f : heap -> A -> heap * addr) : falloc f -> forall l h h1 al,
  alloc_many f h l = (h1, al) -> exists e, h1 = h ++ e /\ Forall (fun a => (length h <= a)%nat) al.
Proof.
  intros Hf. induction l as [|x r IH]; intros h h1 al; cbn [alloc_many].
  - intros [= <- <-]. exists []. rewrite app_nil_r. split; [reflexivity|constructor].
  - destruct (f h x) as [ha a] eqn:E. destruct (alloc_many f ha r) as [hb al'] eqn:F. intros [= <- <-].
    destruct (Hf _ _ _ _ E) as (e1 & -> & La). destruct (IH _ _ _ F) as (e2 & -> & Lr).
    exists (e1 ++ e2). rewrite app_assoc. split; [reflexivity|]. constructor; [exact La|].
    eapply Forall_impl; [|exact Lr]. cbn. intros a'. rewrite app_length. lia.
Qed.

Lemma clone_deep_fresh : fresh_clone clone_deep.
Proof.
  intros h p h1 q. unfold clone_deep.
  destruct (get_tx h p) as [tr|]; [|discriminate].
  destruct (get_inputs h (tr_ins tr)) as [recs|]; [|discriminate].
  destruct (abs_tx h p) as [t|]; [|discriminate].
  destruct (tx_from_bytes _) as [pr| |]; try discriminate.
  destruct (alloc_many alloc_input h _) as [ha ia] eqn:E1.
  destruct (alloc_many alloc_output ha _) as [hb oa] eqn:E2.
  unfold alloc. intros [= <- <-].
  destruct (alloc_many_ext _ alloc_input_falloc _ _ _ _ E1) as (e1 & -> & L1).
  destruct (alloc_many_ext _ alloc_output_falloc _ _ _ _ E2) as (e2 & -> & L2).
  split.
  - rewrite <- !app_assoc. apply pres_app.
  - intros tq. unfold get_tx. rewrite cell_alloc_new. intros [= <-]. unfold footprint. cbn.
    rewrite Forall_forall in L1, L2. rewrite !app_length in *.
    intros a [-> | [Ha | Ha]]; [lia|apply L1, Ha|apply L2 in Ha; lia].
Qed.

(** (1) FRAME.  CalcInputPreimageLegacy with Clone as written: whatever the heap, the pointer, the
    index and the hash type, and whatever the outcome (bytes, one of the errors, a panic, log.Fatal),
    every cell that existed before the call holds afterwards what it held before. *)
Theorem legacy_frame_deep h p i ht h' r :
  legacy_preimage_heap clone_deep h p i ht = (h', r) ->
  forall a, (a < heap_size h)%nat -> cell h' a = cell h a.
Proof. apply legacy_frame_fresh, clone_deep_fresh. Qed.

(** * refinement: the loops compute the [mapi]s of the value model *)
Lemma get_script_sext h h1 s b : sext h h1 -> get_script h s = Some b -> get_script h1 s = Some b.
Proof.
  unfold get_script. intros S. destruct (cell h s) as [[b'| | |]|] eqn:E; try discriminate.
  intros [= ->]. rewrite (S _ _ E). reflexivity.
Qed.
Lemma deref_unlock_sext h h1 o u : sext h h1 -> deref_unlock h o = Some u -> deref_unlock h1 o = Some u.
Proof. destruct o; cbn; [apply get_script_sext|auto]. Qed.
Lemma deref_prev_sext h h1 o u : sext h h1 -> deref_prev h o = Some u -> deref_prev h1 o = Some u.
Proof.
  destruct o; cbn; [|auto]. intros S. destruct (get_script h a) eqn:E; [|discriminate].
  rewrite (get_script_sext _ _ _ _ S E). auto.
Qed.
Lemma abs_ir_inv h r v : abs_ir h r = Some v ->
  exists u ps, deref_unlock h (ir_unlock r) = Some u /\ deref_prev h (ir_prev r) = Some ps /\
               v = mkInput (ir_txid r) (ir_vout r) u (ir_seq r) (ir_sats r) ps.
Proof.
  unfold abs_ir. destruct (deref_unlock _ _) as [u|]; [|discriminate].
  destruct (deref_prev _ _) as [ps|]; [|discriminate]. intros [= <-]. eauto.
Qed.
Lemma abs_ir_intro h r u ps : deref_unlock h (ir_unlock r) = Some u -> deref_prev h (ir_prev r) = Some ps ->
  abs_ir h r = Some (mkInput (ir_txid r) (ir_vout r) u (ir_seq r) (ir_sats r) ps).
Proof. unfold abs_ir. intros -> ->. reflexivity. Qed.
Lemma abs_ir_sext h h1 r v : sext h h1 -> abs_ir h r = Some v -> abs_ir h1 r = Some v.
Proof.
  intros S H. apply abs_ir_inv in H. destruct H as (u & ps & U & P & ->).
  apply abs_ir_intro; [eapply deref_unlock_sext|eapply deref_prev_sext]; eassumption.
Qed.
Lemma abs_or_sext h h1 r v : sext h h1 -> abs_or h r = Some v -> abs_or h1 r = Some v.
Proof.
  unfold abs_or. intros S. destruct (or_lock r) as [s|]; [|discriminate].
  destruct (get_script h s) eqn:E; [|discriminate]. rewrite (get_script_sext _ _ _ _ S E). auto.
Qed.

Section LoopSpec.
  Context {R A : Type} (inj : R -> hcell) (absr : heap -> R -> option A).
  Hypothesis absr_stable : forall h h1 r v, sext h h1 -> absr h r = Some v -> absr h1 r = Some v.

  (** the cell at [a] is a record of this kind denoting [v] *)
  Definition rel (h : heap) (a : addr) (v : A) : Prop :=
    exists r, cell h a = Some (inj r) /\ absr h r = Some v.

  Lemma rel_stable W h h1 a v : rel h a v -> pres W h h1 -> ~ W a -> sext h h1 -> rel h1 a v.
  Proof. intros (r & C & Ab) P Hw S. exists r. split; [apply P; assumption|eapply absr_stable; eassumption]. Qed.
  Lemma Forall2_rel_stable W h h1 l vs : Forall2 (rel h) l vs -> pres W h h1 ->
    (forall a, In a l -> ~ W a) -> sext h h1 -> Forall2 (rel h1) l vs.
  Proof.
    intros F P Hw S. induction F as [|a v l vs Hr F IH]; constructor.
    - eapply rel_stable; try eassumption. apply Hw. left; reflexivity.
    - apply IH. intros a' Ha'. apply Hw. right; exact Ha'.
  Qed.

  Variable Inv : heap -> Prop.
  Variable l0 : list addr.
  Hypothesis Inv_stable : forall h h1, Inv h -> sext h h1 -> pres (fun a => In a l0) h h1 -> Inv h1.
  Variable body : N -> addr -> heap -> option heap.
  Variable g : N -> A -> A.
  Hypothesis body_fr : body_frame body.
  Hypothesis body_ok : forall j a h v, Inv h -> rel h a v ->
    exists h1, body j a h = Some h1 /\ rel h1 a (g j v).

  Lemma for_range_ok : forall l vs k h, incl l l0 -> NoDup l -> Inv h -> Forall2 (rel h) l vs ->
    exists h', for_range body k l h = (h', true) /\ Forall2 (rel h') l (mapi_from g k vs) /\ Inv h'.
  Proof.
    induction l as [|a r IH]; intros vs k h Hincl Hnd HI HF; inversion HF; subst; cbn [for_range mapi_from].
    - exists h. repeat split; [constructor|assumption].
    - match goal with H : rel h a ?y |- _ => rename H into Hr; rename y into v end.
      match goal with H : Forall2 (rel h) r ?y |- _ => rename H into Hrs; rename y into vs' end.
      destruct (body_ok k a h v HI Hr) as (h1 & E & R1). rewrite E.
      destruct (body_fr _ _ _ _ E) as [P1 S1]. inversion Hnd; subst.
      assert (HI1 : Inv h1).
      { eapply Inv_stable; try eassumption. eapply pres_weaken; [|exact P1].
        intros a' <-. apply Hincl. left; reflexivity. }
      assert (HF1 : Forall2 (rel h1) r vs').
      { eapply Forall2_rel_stable; try eassumption. intros a' Ha' <-. contradiction. }
      destruct (IH vs' (k + 1) h1) as (h' & F & FR & I'); try assumption.
      { intros a' Ha'. apply Hincl. right; exact Ha'. }
      exists h'. split; [exact F|]. split; [|exact I'].
      destruct (for_range_frame _ body_fr _ _ _ _ _ F) as [P2 S2].
      constructor; [|exact FR]. eapply rel_stable; eassumption.
  Qed.
End LoopSpec.

Definition in_rel := rel CInput abs_ir.
Definition out_rel := rel COutput abs_or.

Lemma in_rel_get h a v : in_rel h a v -> exists r, get_input h a = Some r /\ abs_ir h r = Some v.
Proof. intros (r & C & Ab). exists r. unfold get_input. rewrite C. auto. Qed.
Lemma out_rel_get h a v : out_rel h a v -> exists r, get_output h a = Some r /\ abs_or h r = Some v.
Proof. intros (r & C & Ab). exists r. unfold get_output. rewrite C. auto. Qed.

Lemma upd_input_some h a r f : get_input h a = Some r ->
  exists h1, upd_input h a f = Some h1 /\ cell h1 a = Some (CInput (f r)).
Proof.
  unfold upd_input. intros E. rewrite E. eexists. split; [reflexivity|].
  unfold get_input in E. destruct (cell h a) eqn:C; [|discriminate]. eapply cell_set_same, C.
Qed.
Lemma upd_output_some h a r f : get_output h a = Some r ->
  exists h1, upd_output h a f = Some h1 /\ cell h1 a = Some (COutput (f r)).
Proof.
  unfold upd_output. intros E. rewrite E. eexists. split; [reflexivity|].
  unfold get_output in E. destruct (cell h a) eqn:C; [|discriminate]. eapply cell_set_same, C.
Qed.
Lemma upd_tx_some h a r f : get_tx h a = Some r ->
  exists h1, upd_tx h a f = Some h1 /\ get_tx h1 a = Some (f r).
Proof.
  unfold upd_tx. intros E. rewrite E. eexists. split; [reflexivity|].
  unfold get_tx in *. destruct (cell h a) eqn:C; [|discriminate]. erewrite cell_set_same by exact C. reflexivity.
Qed.
Lemma get_input_app h e a r : get_input h a = Some r -> get_input (h ++ e) a = Some r.
Proof.
  unfold get_input. destruct (cell h a) as [c|] eqn:C; [|discriminate].
  rewrite (cell_app_old _ e _ _ C). auto.
Qed.
Lemma get_output_app h e a r : get_output h a = Some r -> get_output (h ++ e) a = Some r.
Proof.
  unfold get_output. destruct (cell h a) as [c|] eqn:C; [|discriminate].
  rewrite (cell_app_old _ e _ _ C). auto.
Qed.

(** the blanking loop *)
Section Blank.
  Variables (p : addr) (i : N) (trp : tx_rec) (ai : addr) (ri : input_rec) (inp : input).
  Definition caller_inv (h : heap) : Prop :=
    get_tx h p = Some trp /\ nthN (tr_ins trp) i = Some ai /\ get_input h ai = Some ri /\ abs_ir h ri = Some inp.

  Lemma blank_body_ok j a h v : caller_inv h -> in_rel h a v ->
    exists h1, blank_body p i j a h = Some h1 /\
      in_rel h1 a ((fun j x => if j =? i then set_prev_script x (in_script inp) else blank_input x) j v).
  Proof.
    intros (Hp & Hn & Hai & Hri) Hr. destruct (in_rel_get _ _ _ Hr) as (r & G & Ab).
    unfold blank_body. cbv beta. destruct (j =? i).
    - rewrite Hp, Hn, Hai.
      destruct (upd_input_some h a r (fun r0 => set_ir_prev r0 (ir_prev ri)) G) as (h1 & U & C).
      exists h1. split; [exact U|]. eexists. split; [exact C|].
      destruct (upd_input_frame _ _ _ _ U) as [_ S].
      apply abs_ir_inv in Ab. destruct Ab as (u & ps & Hu & Hps & ->).
      apply abs_ir_inv in Hri. destruct Hri as (u' & ps' & Hu' & Hps' & ->).
      unfold set_prev_script. cbn [in_txid in_vout in_unlock in_seq in_sats in_script].
      apply (abs_ir_intro h1 (set_ir_prev r (ir_prev ri))); cbn.
      + eapply deref_unlock_sext; eassumption.
      + eapply deref_prev_sext; eassumption.
    - unfold alloc. set (h2 := (h ++ [CScript []]) ++ [CScript []]).
      assert (G2 : get_input h2 a = Some r) by (unfold h2; rewrite <- app_assoc; apply get_input_app, G).
      destruct (upd_input_some h2 a r
                  (fun r0 => set_ir_prev (set_ir_unlock r0 (Some (length h))) (Some (length (h ++ [CScript []])))) G2)
        as (h3 & U & C).
      exists h3. split; [exact U|]. eexists. split; [exact C|].
      destruct (upd_input_frame _ _ _ _ U) as [_ S].
      apply abs_ir_inv in Ab. destruct Ab as (u & ps & Hu & Hps & ->).
      unfold blank_input. cbn [in_txid in_vout in_unlock in_seq in_sats in_script].
      apply (abs_ir_intro h3 (set_ir_prev (set_ir_unlock r (Some (length h))) (Some (length (h ++ [CScript []]))))); cbn.
      + apply (get_script_sext h2 h3 _ _ S). unfold get_script, h2.
        rewrite (cell_app_old _ _ _ _ (cell_alloc_new h (CScript []))). reflexivity.
      + erewrite (get_script_sext h2 h3 _ _ S); [reflexivity|]. unfold get_script, h2.
        rewrite cell_alloc_new. reflexivity.
  Qed.
End Blank.

Lemma zero_seq_body_ok i j a h v : True -> in_rel h a v ->
  exists h1, zero_seq_body i j a h = Some h1 /\
    in_rel h1 a ((fun j x => if negb (j =? i) then zero_seq x else x) j v).
Proof.
  intros _ Hr. unfold zero_seq_body. cbv beta. destruct (negb (j =? i)); [|exists h; auto].
  destruct (in_rel_get _ _ _ Hr) as (r & G & Ab).
  destruct (upd_input_some h a r (fun r0 => set_ir_seq r0 0) G) as (h1 & U & C).
  exists h1. split; [exact U|]. eexists. split; [exact C|].
  destruct (upd_input_frame _ _ _ _ U) as [_ S].
  apply abs_ir_inv in Ab. destruct Ab as (u & ps & Hu & Hps & ->).
  unfold zero_seq. cbn [in_txid in_vout in_unlock in_seq in_sats in_script].
  apply (abs_ir_intro h1 (set_ir_seq r 0)); cbn;
    [eapply deref_unlock_sext|eapply deref_prev_sext]; eassumption.
Qed.

Lemma blank_out_body_ok i j a h v : True -> out_rel h a v ->
  exists h1, blank_out_body i j a h = Some h1 /\
    out_rel h1 a ((fun j o => if j <? i then mkOutput max_u64 [] else o) j v).
Proof.
  intros _ Hr. unfold blank_out_body. cbv beta. destruct (j <? i); [|exists h; auto].
  destruct (out_rel_get _ _ _ Hr) as (r & G & Ab). unfold alloc.
  assert (G2 : get_output (h ++ [CScript []]) a = Some r) by (apply get_output_app, G).
  destruct (upd_output_some _ a r (fun r0 => set_or_lock (set_or_sats r0 max_u64) (Some (length h))) G2)
    as (h1 & U & C).
  exists h1. split; [exact U|]. eexists. split; [exact C|].
  destruct (upd_output_frame _ _ _ _ U) as [_ S].
  unfold abs_or. cbn. erewrite (get_script_sext _ h1 _ _ S); [reflexivity|].
  unfold get_script. rewrite cell_alloc_new. reflexivity.
Qed.

(** * the clone's state between the phases *)
Lemma Forall2_In_l {A B} (R : A -> B -> Prop) l vs a : Forall2 R l vs -> In a l -> exists v, R a v.
Proof. intros F. induction F as [|x v l vs Hr F IH]; cbn; [tauto|]. intros [<-|H]; eauto. Qed.
Lemma Forall2_len {A B} (R : A -> B -> Prop) l vs : Forall2 R l vs -> length l = length vs.
Proof. intros F. induction F; cbn; congruence. Qed.
Lemma Forall2_imp {A B} (R R' : A -> B -> Prop) l vs :
  (forall a v, R a v -> R' a v) -> Forall2 R l vs -> Forall2 R' l vs.
Proof. intros I F. induction F; constructor; auto. Qed.
Lemma Forall2_firstn {A B} (R : A -> B -> Prop) n l vs : Forall2 R l vs -> Forall2 R (firstn n l) (firstn n vs).
Proof. intros F. revert n. induction F; intros [|n]; cbn; constructor; auto. Qed.
Lemma Forall2_skipn {A B} (R : A -> B -> Prop) n l vs : Forall2 R l vs -> Forall2 R (skipn n l) (skipn n vs).
Proof. intros F. revert n. induction F; intros [|n]; cbn; try constructor; auto. Qed.
Lemma NoDup_firstn' {A} n (l : list A) : NoDup l -> NoDup (firstn n l).
Proof.
  intros H. revert n. induction H as [|x l Hx H IH]; intros [|n]; cbn; try constructor; auto.
  intros Hin. apply Hx. eapply in_firstn_in, Hin.
Qed.
Lemma NoDup_skipn' {A} n (l : list A) : NoDup l -> NoDup (skipn n l).
Proof.
  intros H. revert n. induction H as [|x l Hx H IH]; intros [|n]; cbn; try constructor; auto.
Qed.

Definition CS (h : heap) (q : addr) (ia oa : list addr) (ver lock : N) (ins : list input) (outs : list output) : Prop :=
  get_tx h q = Some (mkTR ia oa ver lock) /\ NoDup ia /\ NoDup oa /\
  Forall2 (in_rel h) ia ins /\ Forall2 (out_rel h) oa outs.

Lemma in_rel_not_tx h a v x : in_rel h a v -> get_tx h a = Some x -> False.
Proof. intros (r & C & _). unfold get_tx. rewrite C. discriminate. Qed.
Lemma out_rel_not_tx h a v x : out_rel h a v -> get_tx h a = Some x -> False.
Proof. intros (r & C & _). unfold get_tx. rewrite C. discriminate. Qed.
Lemma in_out_rel_disj h a v w : in_rel h a v -> out_rel h a w -> False.
Proof. intros (r & C & _) (r' & C' & _). congruence. Qed.

Lemma get_tx_pres W h h1 q x : pres W h h1 -> ~ W q -> get_tx h q = Some x -> get_tx h1 q = Some x.
Proof.
  unfold get_tx. intros P Hw. destruct (cell h q) as [c|] eqn:C; [|discriminate].
  rewrite (P _ _ C Hw). auto.
Qed.

Lemma CS_upd_tx h q ia oa ver lock ins outs f h1 ia' oa' ins' outs' :
  CS h q ia oa ver lock ins outs -> upd_tx h q f = Some h1 ->
  f (mkTR ia oa ver lock) = mkTR ia' oa' ver lock -> NoDup ia' -> NoDup oa' ->
  Forall2 (in_rel h) ia' ins' -> Forall2 (out_rel h) oa' outs' ->
  CS h1 q ia' oa' ver lock ins' outs'.
Proof.
  intros (Hq & _ & _ & _ & _) U Hf N1 N2 F1 F2.
  destruct (upd_tx_some h q _ f Hq) as (h1' & U' & G). rewrite U in U'. injection U' as <-.
  destruct (upd_tx_frame _ _ _ _ U) as [P S].
  split; [rewrite G, Hf; reflexivity|]. split; [exact N1|]. split; [exact N2|]. split.
  - eapply (Forall2_rel_stable CInput abs_ir abs_ir_sext); try eassumption.
    intros a Ha <-. destruct (Forall2_In_l _ _ _ _ F1 Ha) as (v & Hv). eapply in_rel_not_tx; eassumption.
  - eapply (Forall2_rel_stable COutput abs_or abs_or_sext); try eassumption.
    intros a Ha <-. destruct (Forall2_In_l _ _ _ _ F2 Ha) as (v & Hv). eapply out_rel_not_tx; eassumption.
Qed.

Lemma CS_after_in_loop h h' q ia oa ver lock ins ins' outs body k ok :
  CS h q ia oa ver lock ins outs -> body_frame body -> for_range body k ia h = (h', ok) ->
  Forall2 (in_rel h') ia ins' -> CS h' q ia oa ver lock ins' outs.
Proof.
  intros (Hq & N1 & N2 & F1 & F2) Hb F FR. destruct (for_range_frame _ Hb _ _ _ _ _ F) as [P S].
  split; [|split; [exact N1|split; [exact N2|split; [exact FR|]]]].
  - eapply get_tx_pres; try eassumption. cbn. intros Hin.
    destruct (Forall2_In_l _ _ _ _ F1 Hin) as (v & Hv). eapply in_rel_not_tx; eassumption.
  - eapply (Forall2_rel_stable COutput abs_or abs_or_sext); try eassumption.
    cbn. intros a Ha Hin. destruct (Forall2_In_l _ _ _ _ F1 Hin) as (v & Hv).
    destruct (Forall2_In_l _ _ _ _ F2 Ha) as (w & Hw). eapply in_out_rel_disj; eassumption.
Qed.
Lemma CS_after_out_loop h h' q ia oa ver lock ins outs outs' body k ok :
  CS h q ia oa ver lock ins outs -> body_frame body -> for_range body k oa h = (h', ok) ->
  Forall2 (out_rel h') oa outs' -> CS h' q ia oa ver lock ins outs'.
Proof.
  intros (Hq & N1 & N2 & F1 & F2) Hb F FR. destruct (for_range_frame _ Hb _ _ _ _ _ F) as [P S].
  split; [|split; [exact N1|split; [exact N2|split; [|exact FR]]]].
  - eapply get_tx_pres; try eassumption. cbn. intros Hin.
    destruct (Forall2_In_l _ _ _ _ F2 Hin) as (v & Hv). eapply out_rel_not_tx; eassumption.
  - eapply (Forall2_rel_stable CInput abs_ir abs_ir_sext); try eassumption.
    cbn. intros a Ha Hin. destruct (Forall2_In_l _ _ _ _ F2 Hin) as (v & Hv).
    destruct (Forall2_In_l _ _ _ _ F1 Ha) as (w & Hw). eapply in_out_rel_disj; eassumption.
Qed.

(** the value model's three steps after the blanking loop, named *)
Definition v_zero_others (i : N) : list input -> list input :=
  mapi (fun j x => if negb (j =? i) then zero_seq x else x).
Definition v_edited (i ht next : N) (ins : list input) (outs : list output) : option (list input * list output) :=
  if flag_has_with_mask ht sh_none then Some (v_zero_others i ins, [])
  else if flag_has_with_mask ht sh_single then
    if (N.of_nat (length outs) <? next) || (next <? i) then None
    else Some (v_zero_others i ins,
               mapi (fun j o => if j <? i then mkOutput max_u64 [] else o) (firstn (N.to_nat next) outs))
  else Some (ins, outs).
Definition v_ins3 (i ht next : N) (ins2 : list input) : option (list input) :=
  if negb (N.land ht sh_anyonecanpay =? 0) then
    if (next <? i) || (N.of_nat (length ins2) <? next) then None
    else Some (firstn (N.to_nat (next - i)) (skipn (N.to_nat i) ins2))
  else Some ins2.

Lemma zero_seq_loop h q ia oa ver lock ins outs i :
  CS h q ia oa ver lock ins outs ->
  exists h', for_range (zero_seq_body i) 0 ia h = (h', true) /\ CS h' q ia oa ver lock (v_zero_others i ins) outs.
Proof.
  intros C. pose proof C as (Hq & N1 & N2 & F1 & F2).
  destruct (for_range_ok CInput abs_ir abs_ir_sext (fun _ => True) ia (fun _ _ _ _ _ => I)
              (zero_seq_body i) (fun j x => if negb (j =? i) then zero_seq x else x)
              (zero_seq_body_frame i) (zero_seq_body_ok i) ia ins 0 h) as (h' & F & FR & _);
    try assumption; [apply incl_refl|exact I|].
  exists h'. split; [exact F|]. eapply CS_after_in_loop; try eassumption. apply zero_seq_body_frame.
Qed.

Lemma flags_phase_ok h q ia oa ver lock ins outs i ht next :
  CS h q ia oa ver lock ins outs ->
  match v_edited i ht next ins outs with
  | None => exists h' oa', flags_phase h q ia oa i ht next = (h', oa', false)
  | Some (ins2, outs2) =>
      exists h' oa', flags_phase h q ia oa i ht next = (h', oa', true) /\ CS h' q ia oa' ver lock ins2 outs2
  end.
Proof.
  intros C. pose proof C as (Hq & N1 & N2 & F1 & F2). unfold v_edited, flags_phase.
  destruct (flag_has_with_mask ht sh_none).
  - destruct (upd_tx_some h q _ (fun t => set_tr_outs t []) Hq) as (ha & U & _). rewrite U.
    assert (Ca : CS ha q ia [] ver lock ins []).
    { eapply CS_upd_tx; try eassumption; try reflexivity; constructor. }
    destruct (zero_seq_loop _ _ _ _ _ _ _ _ i Ca) as (hb & F & Cb). rewrite F.
    exists hb, []. split; [reflexivity|exact Cb].
  - destruct (flag_has_with_mask ht sh_single); [|exists h, oa; split; [reflexivity|exact C]].
    rewrite (Forall2_len _ _ _ F2). destruct (_ || _); [exists h, oa; reflexivity|].
    set (oa1 := firstn (N.to_nat next) oa).
    destruct (upd_tx_some h q _ (fun t => set_tr_outs t oa1) Hq) as (ha & U & _). rewrite U.
    assert (Ca : CS ha q ia oa1 ver lock ins (firstn (N.to_nat next) outs)).
    { eapply CS_upd_tx; try eassumption; try reflexivity;
        [apply NoDup_firstn', N2|apply Forall2_firstn, F2]. }
    pose proof Ca as (Hqa & N1a & N2a & F1a & F2a).
    destruct (for_range_ok COutput abs_or abs_or_sext (fun _ => True) oa1 (fun _ _ _ _ _ => I)
                (blank_out_body i) (fun j o => if j <? i then mkOutput max_u64 [] else o)
                (blank_out_body_frame i) (blank_out_body_ok i) oa1 (firstn (N.to_nat next) outs) 0 ha) as (hb & F & FR & _);
      try eassumption; [apply incl_refl|exact I|].
    rewrite F. cbn [negb].
    assert (Cb : CS hb q ia oa1 ver lock ins
                   (mapi (fun j o => if j <? i then mkOutput max_u64 [] else o) (firstn (N.to_nat next) outs))).
    { eapply CS_after_out_loop; try eassumption. apply blank_out_body_frame. }
    destruct (zero_seq_loop _ _ _ _ _ _ _ _ i Cb) as (hc & G & Cc). rewrite G.
    exists hc, oa1. split; [reflexivity|exact Cc].
Qed.

Lemma acp_phase_ok h q ia oa ver lock ins outs i ht next :
  CS h q ia oa ver lock ins outs ->
  match v_ins3 i ht next ins with
  | None => exists h', acp_phase h q ia i ht next = (h', false)
  | Some ins3 => exists h' ia', acp_phase h q ia i ht next = (h', true) /\ CS h' q ia' oa ver lock ins3 outs
  end.
Proof.
  intros C. pose proof C as (Hq & N1 & N2 & F1 & F2). unfold v_ins3, acp_phase.
  destruct (negb _); [|exists h, ia; split; [reflexivity|exact C]].
  rewrite (Forall2_len _ _ _ F1). destruct (_ || _); [exists h; reflexivity|].
  set (ia1 := firstn (N.to_nat (next - i)) (skipn (N.to_nat i) ia)).
  destruct (upd_tx_some h q _ (fun t => set_tr_ins t ia1) Hq) as (ha & U & _). rewrite U.
  exists ha, ia1. split; [reflexivity|].
  eapply CS_upd_tx; try eassumption; try reflexivity.
  - apply NoDup_firstn', NoDup_skipn', N1.
  - apply Forall2_firstn, Forall2_skipn, F1.
Qed.

Lemma ser_inputs_ok h ia ins : Forall2 (in_rel h) ia ins -> ser_inputs h ia = legacy_inputs_bytes ins.
Proof.
  intros F. induction F as [|a v l vs Hr F IH]; [reflexivity|]. cbn [ser_inputs legacy_inputs_bytes].
  destruct (in_rel_get _ _ _ Hr) as (r & G & Ab). rewrite G.
  apply abs_ir_inv in Ab. destruct Ab as (u & ps & Hu & Hps & ->). cbn [in_script in_txid in_vout in_seq].
  destruct (ir_prev r) as [sp|]; cbn in Hps.
  - destruct (get_script h sp) as [s|]; [|discriminate]. injection Hps as <-. rewrite IH. reflexivity.
  - injection Hps as <-. reflexivity.
Qed.
Lemma ser_outputs_ok h oa outs : Forall2 (out_rel h) oa outs ->
  ser_outputs h oa = Some (concat (map legacy_output_bytes outs)).
Proof.
  intros F. induction F as [|a v l vs Hr F IH]; [reflexivity|]. cbn [ser_outputs map concat].
  destruct (out_rel_get _ _ _ Hr) as (r & G & Ab). rewrite G. unfold abs_or in Ab.
  destruct (or_lock r) as [sp|]; [|discriminate]. destruct (get_script h sp) as [s|]; [|discriminate].
  injection Ab as <-. rewrite IH. reflexivity.
Qed.

Lemma serialise_ok h p q trp ia oa ver lock ins outs ht :
  CS h q ia oa ver lock ins outs -> get_tx h p = Some trp ->
  serialise h p q ht =
  (h, match legacy_inputs_bytes ins with
      | None => SPanic
      | Some ib => SOk (le_enc 4 (tr_ver trp) ++
                        varint_bytes (N.of_nat (length ins)) ++ ib ++
                        varint_bytes (N.of_nat (length outs)) ++ concat (map legacy_output_bytes outs) ++
                        le_enc 4 (tr_lock trp) ++ le_enc 4 ht)
      end).
Proof.
  intros (Hq & _ & _ & F1 & F2) Hp. unfold serialise. rewrite Hp, Hq. cbn [tr_ins tr_outs].
  rewrite (ser_inputs_ok _ _ _ F1), (ser_outputs_ok _ _ _ F2), (Forall2_len _ _ _ F1), (Forall2_len _ _ _ F2).
  destruct (legacy_inputs_bytes ins); reflexivity.
Qed.

(** * Clone builds a state of that shape out of fresh cells *)
Lemma abs_list_Forall2 {A} (f : addr -> option A) l vs :
  abs_list f l = Some vs -> Forall2 (fun a v => f a = Some v) l vs.
Proof.
  revert vs; induction l as [|a r IH]; intros vs; cbn.
  - intros [= <-]. constructor.
  - destruct (f a) as [v|] eqn:E; [|discriminate]. destruct (abs_list f r) as [vs'|]; [|discriminate].
    intros [= <-]. constructor; auto.
Qed.
Lemma abs_in_rel h a v : abs_in h a = Some v -> in_rel h a v.
Proof.
  unfold abs_in, get_input. destruct (cell h a) as [[| r | |]|] eqn:C; try discriminate.
  intros H. exists r. auto.
Qed.
Lemma abs_out_rel h a v : abs_out h a = Some v -> out_rel h a v.
Proof.
  unfold abs_out, get_output. destruct (cell h a) as [[| | r |]|] eqn:C; try discriminate.
  intros H. exists r. auto.
Qed.
Lemma abs_tx_inv h p t : abs_tx h p = Some t ->
  exists trp, get_tx h p = Some trp /\ Forall2 (in_rel h) (tr_ins trp) (tx_ins t) /\
              Forall2 (out_rel h) (tr_outs trp) (tx_outs t) /\
              tx_version t = tr_ver trp /\ tx_lock t = tr_lock trp.
Proof.
  unfold abs_tx. destruct (get_tx h p) as [trp|]; [|discriminate].
  destruct (abs_list (abs_in h) _) as [ins|] eqn:E1; [|discriminate].
  destruct (abs_list (abs_out h) _) as [outs|] eqn:E2; [|discriminate].
  intros [= <-]. exists trp. cbn. repeat split.
  - eapply Forall2_imp; [|apply abs_list_Forall2, E1]. apply abs_in_rel.
  - eapply Forall2_imp; [|apply abs_list_Forall2, E2]. apply abs_out_rel.
Qed.
Lemma get_inputs_ok h ia ins : Forall2 (in_rel h) ia ins ->
  exists recs, get_inputs h ia = Some recs /\ Forall2 (fun r v => abs_ir h r = Some v) recs ins.
Proof.
  intros F. induction F as [|a v l vs Hr F (recs & E & FR)]; [exists []; split; [reflexivity|constructor]|].
  destruct (in_rel_get _ _ _ Hr) as (r & G & Ab). exists (r :: recs). cbn. rewrite G, E.
  split; [reflexivity|constructor; assumption].
Qed.

Section AllocMany.
  Context {X R A : Type} (inj : R -> hcell) (absr : heap -> R -> option A).
  Hypothesis absr_stable : forall h h1 r v, sext h h1 -> absr h r = Some v -> absr h1 r = Some v.
  Variable f : heap -> X -> heap * addr.
  Variable P : heap -> X -> A -> Prop.
  Hypothesis P_stable : forall h e x v, P h x v -> P (h ++ e) x v.
  Hypothesis f_ok : forall h x v, P h x v ->
    exists e a, f h x = (h ++ e, a) /\ (length h <= a < length (h ++ e))%nat /\ rel inj absr (h ++ e) a v.

  Lemma rel_app h e a v : rel inj absr h a v -> rel inj absr (h ++ e) a v.
  Proof.
    intros H. eapply (rel_stable inj absr absr_stable (fun _ => False)); try eassumption;
      [apply pres_app|tauto|apply sext_app].
  Qed.

  Lemma alloc_many_ok : forall xs vs h h1 al, Forall2 (P h) xs vs -> alloc_many f h xs = (h1, al) ->
    exists e, h1 = h ++ e /\ NoDup al /\ Forall (fun a => (length h <= a < length h1)%nat) al /\
              Forall2 (rel inj absr h1) al vs.
  Proof.
    induction xs as [|x r IH]; intros vs h h1 al F; inversion F; subst; cbn [alloc_many].
    - intros [= <- <-]. exists []. rewrite app_nil_r. repeat split; constructor.
    - match goal with H : P h x ?y |- _ => rename H into Hx; rename y into v end.
      match goal with H : Forall2 (P h) r ?y |- _ => rename H into Hr; rename y into vs' end.
      destruct (f_ok _ _ _ Hx) as (e1 & a & E & La & Ra). rewrite E.
      destruct (alloc_many f (h ++ e1) r) as [hb al'] eqn:G. intros [= <- <-].
      destruct (IH vs' (h ++ e1) hb al') as (e2 & -> & ND & Lr & FR); [|exact G|].
      { eapply Forall2_imp; [|exact Hr]. intros; apply P_stable; assumption. }
      exists (e1 ++ e2). rewrite app_assoc. split; [reflexivity|]. rewrite Forall_forall in Lr. split; [|split].
      + constructor; [|exact ND]. intros Hin. apply Lr in Hin. lia.
      + constructor; [rewrite ?app_length in *; lia|]. apply Forall_forall. intros a' Ha'. apply Lr in Ha'.
        rewrite ?app_length in *. lia.
      + constructor; [apply rel_app, Ra|exact FR].
  Qed.
End AllocMany.

Definition clone_input (ab : input * input) : input :=
  mkInput (in_txid (fst ab)) (in_vout (fst ab)) (in_unlock (fst ab)) (in_seq (fst ab))
          (in_sats (snd ab)) (in_script (snd ab)).

Lemma alloc_input_ok h (x : input * input_rec) v :
  (exists tv, abs_ir h (snd x) = Some tv /\ v = clone_input (fst x, tv)) ->
  exists e a, alloc_input h x = (h ++ e, a) /\ (length h <= a < length (h ++ e))%nat /\ in_rel (h ++ e) a v.
Proof.
  intros (tv & Ab & ->). unfold alloc_input, alloc.
  set (c1 := CScript (in_unlock (fst x))). set (c2 := CInput _).
  exists [c1; c2], (length (h ++ [c1])).
  split; [rewrite <- app_assoc; reflexivity|]. split; [rewrite !app_length; cbn; lia|].
  assert (C2 : cell (h ++ [c1; c2]) (length (h ++ [c1])) = Some c2).
  { change [c1; c2] with ([c1] ++ [c2]). rewrite app_assoc. apply cell_alloc_new. }
  assert (C1 : cell (h ++ [c1; c2]) (length h) = Some c1).
  { change [c1; c2] with ([c1] ++ [c2]). rewrite app_assoc. apply cell_app_old, cell_alloc_new. }
  eexists. split; [exact C2|].
  apply abs_ir_inv in Ab. destruct Ab as (u & ps & Hu & Hps & ->).
  unfold clone_input. cbn [fst snd in_sats in_script].
  match goal with |- abs_ir ?hh ?rr = _ => apply (abs_ir_intro hh rr) end; cbn.
  - unfold get_script. rewrite C1. reflexivity.
  - eapply deref_prev_sext; [apply sext_app|exact Hps].
Qed.

Lemma alloc_output_ok h (x v : output) : x = v ->
  exists e a, alloc_output h x = (h ++ e, a) /\ (length h <= a < length (h ++ e))%nat /\ out_rel (h ++ e) a v.
Proof.
  intros <-. unfold alloc_output, alloc.
  set (c1 := CScript (out_script x)). set (c2 := COutput _).
  exists [c1; c2], (length (h ++ [c1])).
  split; [rewrite <- app_assoc; reflexivity|]. split; [rewrite !app_length; cbn; lia|].
  assert (C2 : cell (h ++ [c1; c2]) (length (h ++ [c1])) = Some c2).
  { change [c1; c2] with ([c1] ++ [c2]). rewrite app_assoc. apply cell_alloc_new. }
  assert (C1 : cell (h ++ [c1; c2]) (length h) = Some c1).
  { change [c1; c2] with ([c1] ++ [c2]). rewrite app_assoc. apply cell_app_old, cell_alloc_new. }
  eexists. split; [exact C2|].
  unfold abs_or. cbn. unfold get_script. rewrite C1. destruct x; reflexivity.
Qed.

Lemma combine_P h : forall (pvs : list input) recs tvs,
  Forall2 (fun r v => abs_ir h r = Some v) recs tvs ->
  Forall2 (fun (x : input * input_rec) v => exists tv, abs_ir h (snd x) = Some tv /\ v = clone_input (fst x, tv))
          (combine pvs recs) (map clone_input (combine pvs tvs)).
Proof.
  induction pvs as [|x r IH]; intros recs tvs F; [constructor|].
  inversion F; subst; cbn; constructor; [eauto|apply IH; assumption].
Qed.

Lemma clone_deep_ok h p t : abs_tx h p = Some t ->
  match clone t with
  | RErr => clone_deep h p = CFatal
  | RFuel => clone_deep h p = CFuel
  | ROk cp =>
      exists e q ia oa, clone_deep h p = COk (h ++ e) q /\ (length h <= q)%nat /\
        Forall (fun a => (length h <= a)%nat) ia /\
        CS (h ++ e) q ia oa (tx_version cp) (tx_lock cp) (tx_ins cp) (tx_outs cp)
  end.
Proof.
  intros H. destruct (abs_tx_inv _ _ _ H) as (trp & Hp & F1 & F2 & Hv & Hl).
  destruct (get_inputs_ok _ _ _ F1) as (recs & GI & FR).
  unfold clone, clone_deep. rewrite Hp, GI, H.
  destruct (tx_from_bytes (tx_bytes false t)) as [pr| |]; try reflexivity.
  destruct (alloc_many alloc_input h _) as [ha ia] eqn:E1.
  destruct (alloc_many alloc_output ha _) as [hb oa] eqn:E2.
  destruct (alloc_many_ok CInput abs_ir abs_ir_sext alloc_input
              (fun h (x : input * input_rec) v => exists tv, abs_ir h (snd x) = Some tv /\ v = clone_input (fst x, tv)))
    with (xs := combine (tx_ins (p_tx pr)) recs) (vs := map clone_input (combine (tx_ins (p_tx pr)) (tx_ins t)))
         (h := h) (h1 := ha) (al := ia) as (e1 & -> & ND1 & L1 & FI).
  { intros h0 e x v (tv & Ab & ->). exists tv. split; [eapply abs_ir_sext; [apply sext_app|exact Ab]|reflexivity]. }
  { apply alloc_input_ok. }
  { apply combine_P, FR. }
  { exact E1. }
  destruct (alloc_many_ok COutput abs_or abs_or_sext alloc_output (fun _ (x v : output) => x = v))
    with (xs := tx_outs (p_tx pr)) (vs := tx_outs (p_tx pr)) (h := h ++ e1) (h1 := hb) (al := oa)
    as (e2 & -> & ND2 & L2 & FO).
  { auto. }
  { apply alloc_output_ok. }
  { clear. induction (tx_outs (p_tx pr)); constructor; auto. }
  { exact E2. }
  unfold alloc. exists (e1 ++ e2 ++ [CTx (mkTR ia oa (tx_version (p_tx pr)) (tx_lock (p_tx pr)))]).
  exists (length ((h ++ e1) ++ e2)), ia, oa. split; [rewrite !app_assoc; reflexivity|].
  split; [rewrite !app_length; lia|]. split.
  { eapply Forall_impl; [|exact L1]. cbn. intros; lia. }
  replace (h ++ e1 ++ e2 ++ [CTx (mkTR ia oa (tx_version (p_tx pr)) (tx_lock (p_tx pr)))])
    with (((h ++ e1) ++ e2) ++ [CTx (mkTR ia oa (tx_version (p_tx pr)) (tx_lock (p_tx pr)))])
    by (rewrite <- !app_assoc; reflexivity).
  split; [unfold get_tx; rewrite cell_alloc_new; reflexivity|]. cbn [tx_version tx_lock tx_ins tx_outs].
  split; [exact ND1|]. split; [exact ND2|]. split.
  - eapply Forall2_imp; [|exact FI]. intros a v Hr.
    apply (rel_app CInput abs_ir abs_ir_sext), (rel_app CInput abs_ir abs_ir_sext), Hr.
  - eapply Forall2_imp; [|exact FO]. intros a v Hr. apply (rel_app COutput abs_or abs_or_sext), Hr.
Qed.

(** * refinement of the value model *)
Lemma Forall2_nthN {A B} (R : A -> B -> Prop) l vs i : Forall2 R l vs ->
  match nthN l i, nthN vs i with
  | Some a, Some v => R a v
  | None, None => True
  | _, _ => False
  end.
Proof.
  intros F. revert i. induction F as [|a v l vs Hr F IH]; intros i; cbn [nthN]; [trivial|].
  destruct (i =? 0); [exact Hr|apply IH].
Qed.

Definition v_blank (i : N) (inp : input) : list input -> list input :=
  mapi (fun j x => if j =? i then set_prev_script x (in_script inp) else blank_input x).

Lemma legacy_body_ok h1 p q i ht trp ai ri inp ia oa ver lock ins outs :
  CS h1 q ia oa ver lock ins outs -> caller_inv p i trp ai ri inp h1 -> p <> q -> ~ In ai ia ->
  snd (legacy_body h1 p q i ht) =
  let next := (i + 1) mod two32 in
  match v_edited i ht next (v_blank i inp ins) outs with
  | None => SPanic
  | Some (ins2, outs2) =>
    match v_ins3 i ht next ins2 with
    | None => SPanic
    | Some ins3 =>
      match legacy_inputs_bytes ins3 with
      | None => SPanic
      | Some ib => SOk (le_enc 4 (tr_ver trp) ++
                        varint_bytes (N.of_nat (length ins3)) ++ ib ++
                        varint_bytes (N.of_nat (length outs2)) ++ concat (map legacy_output_bytes outs2) ++
                        le_enc 4 (tr_lock trp) ++ le_enc 4 ht)
      end
    end
  end.
Proof.
  intros C HI Hpq Hai. pose proof C as (Hq & N1 & N2 & F1 & F2). pose proof HI as (Hp & _).
  assert (Hpia : ~ In p ia).
  { intros Hin. destruct (Forall2_In_l _ _ _ _ F1 Hin) as (v & Hv). eapply in_rel_not_tx; eassumption. }
  assert (Hpoa : ~ In p oa).
  { intros Hin. destruct (Forall2_In_l _ _ _ _ F2 Hin) as (v & Hv). eapply out_rel_not_tx; eassumption. }
  unfold legacy_body. rewrite Hq. cbn [tr_ins tr_outs]. cbv zeta.
  destruct (for_range_ok CInput abs_ir abs_ir_sext (caller_inv p i trp ai ri inp) ia) with
    (body := blank_body p i)
    (g := fun j x => if j =? i then set_prev_script x (in_script inp) else blank_input x)
    (l := ia) (vs := ins) (k := 0) (h := h1) as (h2 & F & FR & HI2); try assumption.
  { intros h h' (A1 & A2 & A3 & A4) S P. split; [|split; [exact A2|split]].
    - eapply get_tx_pres; eassumption.
    - unfold get_input in *. destruct (cell h ai) as [c|] eqn:Cc; [|discriminate].
      rewrite (P _ _ Cc Hai). exact A3.
    - eapply abs_ir_sext; eassumption. }
  { apply blank_body_frame. }
  { apply blank_body_ok. }
  { apply incl_refl. }
  rewrite F. cbn [negb].
  assert (C2 : CS h2 q ia oa ver lock (v_blank i inp ins) outs).
  { eapply CS_after_in_loop; try eassumption. apply blank_body_frame. }
  destruct HI2 as (Hp2 & _).
  pose proof (flags_phase_ok _ _ _ _ _ _ _ _ i ht ((i + 1) mod two32) C2) as FP.
  destruct (v_edited i ht ((i + 1) mod two32) (v_blank i inp ins) outs) as [[ins2 outs2]|].
  2:{ destruct FP as (h3 & oa' & E). rewrite E. reflexivity. }
  destruct FP as (h3 & oa' & E & C3). rewrite E. cbn [negb].
  destruct (flags_phase_frame _ _ _ _ _ _ _ _ _ _ E) as [P3 _].
  assert (Hp3 : get_tx h3 p = Some trp).
  { eapply get_tx_pres; [exact P3| |exact Hp2]. cbn. intuition. }
  pose proof (acp_phase_ok _ _ _ _ _ _ _ _ i ht ((i + 1) mod two32) C3) as AP.
  destruct (v_ins3 i ht ((i + 1) mod two32) ins2) as [ins3|].
  2:{ destruct AP as (h4 & E4). rewrite E4. reflexivity. }
  destruct AP as (h4 & ia' & E4 & C4). rewrite E4. cbn [negb].
  destruct (acp_phase_frame _ _ _ _ _ _ _ _ E4) as [P4 _].
  assert (Hp4 : get_tx h4 p = Some trp).
  { eapply get_tx_pres; [exact P4| |exact Hp3]. cbn. congruence. }
  rewrite (serialise_ok _ _ _ _ _ _ _ _ _ _ ht C4 Hp4). reflexivity.
Qed.

(** (2) REFINEMENT.  On a heap in which the pointer [p] denotes the transaction [t] (every pointer of
    the graph leads to a cell of its kind), the outcome of the heap program with Clone as written is
    the outcome of the value-level model on [t]: the same bytes, the same error, the same panic. *)
Theorem legacy_heap_refines h p t i ht : abs_tx h p = Some t ->
  snd (legacy_preimage_heap clone_deep h p i ht) = fst (calc_input_preimage_legacy t i ht).
Proof.
  intros H. destruct (abs_tx_inv _ _ _ H) as (trp & Hp & F1 & F2 & Hv & Hl).
  unfold legacy_preimage_heap, calc_input_preimage_legacy. rewrite Hp.
  unfold input_idx_h, input_idx. rewrite (Forall2_len _ _ _ F1).
  destruct (Z.of_N i >? Z.of_nat (length (tx_ins t)) - 1)%Z; [reflexivity|].
  pose proof (Forall2_nthN _ _ _ i F1) as Hn.
  destruct (nthN (tr_ins trp) i) as [ai|] eqn:En, (nthN (tx_ins t) i) as [inp|]; try contradiction; [|reflexivity].
  destruct (in_rel_get _ _ _ Hn) as (ri & G & Ab). rewrite G.
  pose proof Ab as Ab'. apply abs_ir_inv in Ab'. destruct Ab' as (u & ps & Hu & Hps & Einp).
  assert (Etx : in_txid inp = ir_txid ri) by (rewrite Einp; reflexivity).
  assert (Esc : in_script inp = ps) by (rewrite Einp; reflexivity).
  rewrite Etx. destruct (length (ir_txid ri) =? 0)%nat; [reflexivity|].
  rewrite Esc. destruct (ir_prev ri) as [sp|]; cbn in Hps.
  2:{ injection Hps as <-. reflexivity. }
  destruct (get_script h sp) as [s|]; [|discriminate]. injection Hps as <-.
  rewrite (Forall2_len _ _ _ F2).
  destruct (flag_has_with_mask ht sh_single && _); [reflexivity|].
  pose proof (clone_deep_ok _ _ _ H) as CL. destruct (clone t) as [cp| |]; [|rewrite CL; reflexivity..].
  destruct CL as (e & q & ia & oa & -> & Lq & Lia & C).
  rewrite (legacy_body_ok (h ++ e) p q i ht trp ai ri inp ia oa _ _ _ _ C).
  - rewrite <- Esc, <- Hv, <- Hl. unfold v_edited, v_ins3, v_zero_others, v_blank. cbv zeta.
    destruct (flag_has_with_mask ht sh_none).
    { destruct (negb (N.land ht sh_anyonecanpay =? 0)); [destruct (_ || _); [reflexivity|]|];
        destruct (legacy_inputs_bytes _); reflexivity. }
    destruct (flag_has_with_mask ht sh_single).
    { destruct (_ || _); [reflexivity|].
      destruct (negb (N.land ht sh_anyonecanpay =? 0)); [destruct (_ || _); [reflexivity|]|];
        destruct (legacy_inputs_bytes _); reflexivity. }
    destruct (negb (N.land ht sh_anyonecanpay =? 0)); [destruct (_ || _); [reflexivity|]|];
      destruct (legacy_inputs_bytes _); reflexivity.
  - split; [|split; [exact En|split]].
    + eapply get_tx_pres; [apply (pres_app (fun _ => False))|tauto|exact Hp].
    + apply get_input_app, G.
    + eapply abs_ir_sext; [apply sext_app|exact Ab].
  - unfold get_tx in Hp. destruct (cell h p) eqn:Cp; [|discriminate]. apply cell_lt in Cp. lia.
  - intros Hin. rewrite Forall_forall in Lia. apply Lia in Hin.
    unfold get_input in G. destruct (cell h ai) eqn:Ca; [|discriminate]. apply cell_lt in Ca. lia.
Qed.

(** the caller's transaction still denotes the same value afterwards (a corollary of the frame) *)
Lemma abs_list_pres {A} (f f' : addr -> option A) l vs :
  (forall a v, f a = Some v -> f' a = Some v) -> abs_list f l = Some vs -> abs_list f' l = Some vs.
Proof.
  intros I. revert vs. induction l as [|a r IH]; intros vs; cbn; [auto|].
  destruct (f a) as [v|] eqn:E; [|discriminate]. destruct (abs_list f r) as [vs'|]; [|discriminate].
  intros [= <-]. rewrite (I _ _ E), (IH _ eq_refl). reflexivity.
Qed.
Lemma abs_tx_pres h h' p t : pres (fun _ => False) h h' -> abs_tx h p = Some t -> abs_tx h' p = Some t.
Proof.
  intros P. assert (S : sext h h') by (intros a b Hc; apply P; [exact Hc|tauto]).
  unfold abs_tx. destruct (get_tx h p) as [trp|] eqn:Hp; [|discriminate].
  rewrite (get_tx_pres _ _ _ _ _ P (fun x => x) Hp).
  destruct (abs_list (abs_in h) _) as [ins|] eqn:E1; [|discriminate].
  destruct (abs_list (abs_out h) _) as [outs|] eqn:E2; [|discriminate].
  assert (I1 : forall a v, abs_in h a = Some v -> abs_in h' a = Some v).
  { intros a v. unfold abs_in, get_input. destruct (cell h a) as [c|] eqn:C; [|discriminate].
    rewrite (P _ _ C (fun x => x)). destruct c; try discriminate. apply abs_ir_sext, S. }
  assert (I2 : forall a v, abs_out h a = Some v -> abs_out h' a = Some v).
  { intros a v. unfold abs_out, get_output. destruct (cell h a) as [c|] eqn:C; [|discriminate].
    rewrite (P _ _ C (fun x => x)). destruct c; try discriminate. apply abs_or_sext, S. }
  rewrite (abs_list_pres _ _ _ _ I1 E1), (abs_list_pres _ _ _ _ I2 E2). auto.
Qed.

Theorem legacy_deep_keeps_callers_tx h p t i ht :
  abs_tx h p = Some t -> abs_tx (fst (legacy_preimage_heap clone_deep h p i ht)) p = Some t.
Proof.
  intros H. destruct (legacy_preimage_heap clone_deep h p i ht) as [h' r] eqn:E. cbn [fst].
  eapply abs_tx_pres; [|exact H]. intros a c Hc _.
  rewrite (legacy_frame_deep _ _ _ _ _ _ E a (cell_lt _ _ _ Hc)). exact Hc.
Qed.

(** (4) the FORKID function on the same machine *)
Theorem forkid_frame h p i ht h' r : forkid_preimage_heap h p i ht = (h', r) ->
  forall a, (a < heap_size h)%nat -> cell h' a = cell h a.
Proof.
  unfold forkid_preimage_heap. destruct (get_tx h p); [destruct (abs_tx h p)|]; intros [= <- <-]; reflexivity.
Qed.
Theorem forkid_heap_refines h p t i ht : abs_tx h p = Some t ->
  snd (forkid_preimage_heap h p i ht) = fst (calc_input_preimage t i ht).
Proof.
  intros H. unfold forkid_preimage_heap. rewrite H.
  destruct (abs_tx_inv _ _ _ H) as (trp & -> & _). reflexivity.
Qed.

(** (3) REFUTATION: the same program with a clone that copies only the struct.  A 2-in / 2-out
    transaction laid out in eleven cells; NONE on input 0 zeroes the caller's second input's sequence
    number and replaces its scripts, SINGLE on input 1 blanks the caller's first output. *)
Definition ex_heap : heap :=
  [ CScript [x51];                                                            (* 0 *)
    CScript [x76; xa9];                                                       (* 1 *)
    CInput (mkIR (repeat_byte 32 xab) 5000 (Some 1%nat) (Some 0%nat) 3 4294967295);   (* 2 *)
    CScript [x52];                                                            (* 3 *)
    CScript [x51];                                                            (* 4 *)
    CInput (mkIR (repeat_byte 32 xcd) 1 (Some 4%nat) (Some 3%nat) 0 7);       (* 5 *)
    CScript [x6a];                                                            (* 6 *)
    COutput (mkOR 1000 (Some 6%nat));                                         (* 7 *)
    CScript [x6a; x6a];                                                       (* 8 *)
    COutput (mkOR 2000 (Some 8%nat));                                         (* 9 *)
    CTx (mkTR [2%nat; 5%nat] [7%nat; 9%nat] 1 0) ].                           (* 10 *)
Definition ex_ptr : addr := 10%nat.

Lemma ex_heap_denotes :
  abs_tx ex_heap ex_ptr =
  Some (mkTx 1 [mkInput (repeat_byte 32 xab) 3 [x51] 4294967295 5000 (Some [x76; xa9]);
                mkInput (repeat_byte 32 xcd) 0 [x52] 7 1 (Some [x51])]
             [mkOutput 1000 [x6a]; mkOutput 2000 [x6a; x6a]] 0).
Proof. vm_compute. reflexivity. Qed.

Lemma shallow_clone_writes_none :
  let '(h', r) := legacy_preimage_heap clone_shallow ex_heap ex_ptr 0 2 in
  r = snd (legacy_preimage_heap clone_deep ex_heap ex_ptr 0 2) /\ (exists b, r = SOk b) /\
  (5 < heap_size ex_heap)%nat /\ cell h' 5%nat <> cell ex_heap 5%nat /\
  get_input h' 5%nat = Some (mkIR (repeat_byte 32 xcd) 1 (Some 13%nat) (Some 12%nat) 0 0) /\
  abs_tx h' ex_ptr <> abs_tx ex_heap ex_ptr.
Proof. vm_compute. repeat split; try discriminate; try lia. eexists; reflexivity. Qed.

Lemma shallow_clone_writes_single :
  let '(h', r) := legacy_preimage_heap clone_shallow ex_heap ex_ptr 1 3 in
  r = snd (legacy_preimage_heap clone_deep ex_heap ex_ptr 1 3) /\ (exists b, r = SOk b) /\
  (7 < heap_size ex_heap)%nat /\ cell h' 7%nat <> cell ex_heap 7%nat /\
  abs_tx h' ex_ptr <> abs_tx ex_heap ex_ptr.
Proof. vm_compute. repeat split; try discriminate; try lia. eexists; reflexivity. Qed.

(** and on the same inputs Clone as written changes nothing: the frame theorem is not vacuous *)
Lemma deep_clone_example :
  forall a, (a < heap_size ex_heap)%nat ->
    cell (fst (legacy_preimage_heap clone_deep ex_heap ex_ptr 0 2)) a = cell ex_heap a.
Proof.
  intros a Ha. destruct (legacy_preimage_heap clone_deep ex_heap ex_ptr 0 2) as [h' r] eqn:E.
  exact (legacy_frame_deep _ _ _ _ _ _ E a Ha).
Qed.
