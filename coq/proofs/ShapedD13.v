(** Property C13, template-SHAPED scripts: a decoder that recognises a standard template by the script's length
    and its first bytes and hands out the parts without reading the rest is right on the template and wrong on
    its neighbours of the same length.  The model has no such short cut, and these statements say so:

    [decode_head_independent]: what DecodeParts makes of the bytes behind a well-formed head is what it makes of
    those bytes alone - the head contributes its own tokens and nothing else (neither its length nor its shape
    decides how the tail is cut).
    [p2pkh_shaped_decode]: OP_DUP OP_HASH160 <20 bytes> followed by ANY bytes (two of them give the 25 bytes of a
    P2PKH script) is DUP, HASH160, the hash, and then whatever those bytes are.
    [p2pkh_shaped_truncated_tail]: ... and an error when they are a push cut short.
    [shaped_tail_agree]: both tokenisers agree on every such script that has no OP_RETURN at a token boundary. *)
From Coq Require Import List NArith Lia ZifyN ZifyNat ZifyBool ZArith Bool String.
From Coq Require Import Strings.Byte.
From GoBT Require Import lib.Bytes lib.Hex lib.Checked model.Push model.Parser model.Asm
  spec.PushSpec spec.TemplateSpec proofs.PushProofs proofs.ParserProofs proofs.TokenProofs proofs.AuditD13.
Import ListNotations.
Local Open Scope N_scope.

Theorem decode_head_independent : forall pre, tokens pre ->
  exists l, forall rest, decode_parts (pre ++ rest) = fold_right dcons (decode_parts rest) l.
Proof.
  induction 1 as [|b r Hb Hr IH|hdr data r Hh Hr IH].
  - exists []. reflexivity.
  - destruct IH as [l IH]. exists ([b] :: l). intros rest.
    cbn [app fold_right]. rewrite decode_parts_op by assumption. rewrite IH. reflexivity.
  - destruct IH as [l IH]. exists (data :: l). intros rest.
    rewrite <- !app_assoc. rewrite decode_parts_push by assumption. cbn [fold_right]. rewrite IH. reflexivity.
Qed.

Lemma p2pkh_head_tokens (h : bytes) : List.length h = 20%nat -> tokens ([x76; xa9; x14] ++ h).
Proof.
  intros Hl. cbn [app].
  apply tok_op; [right; vm_compute; reflexivity|].
  apply tok_op; [right; vm_compute; reflexivity|].
  replace (x14 :: h) with ([x14] ++ h ++ []) by (cbn [app]; rewrite app_nil_r; reflexivity).
  apply tok_push; [|constructor].
  unfold lenN. rewrite Hl. change [x14] with [n2b 20]. apply ph_direct. lia.
Qed.

Theorem p2pkh_shaped_decode : forall (h rest : bytes), List.length h = 20%nat ->
  decode_parts ([x76; xa9; x14] ++ h ++ rest) = dcons [x76] (dcons [xa9] (dcons h (decode_parts rest))).
Proof.
  intros h rest Hl. cbn [app].
  rewrite decode_parts_op by (right; vm_compute; reflexivity).
  rewrite decode_parts_op by (right; vm_compute; reflexivity).
  change (x14 :: h ++ rest) with ([x14] ++ h ++ rest).
  rewrite decode_parts_push; [reflexivity|].
  unfold lenN. rewrite Hl. change [x14] with [n2b 20]. apply ph_direct. lia.
Qed.

Theorem p2pkh_shaped_truncated_tail : forall (h t : bytes), List.length h = 20%nat -> truncated_push t ->
  dres_ok (decode_parts ([x76; xa9; x14] ++ h ++ t)) = false /\
  exists pre, to_asm ([x76; xa9; x14] ++ h ++ t) = Ok (pre ++ "[error]")%string.
Proof.
  intros h t Hl Ht.
  assert (E : dres_ok (decode_parts ([x76; xa9; x14] ++ h ++ t)) = false).
  { rewrite app_assoc. apply truncated_push_rejected_decode; [apply p2pkh_head_tokens; assumption|assumption]. }
  split; [exact E|]. apply to_asm_marks_undecodable. exact E.
Qed.

(** ** agreement of the two tokenisers behind any OP_RETURN-free head *)
Lemma no_return_head pre rest : tokens_no_return pre -> op_return_at_boundary (pre ++ rest) ->
  op_return_at_boundary rest.
Proof.
  induction 1 as [|b r Hb Hne Hr IH|hdr data r Hh Hr IH]; intros Hor.
  - exact Hor.
  - cbn [app] in Hor.
    inversion Hor as [r0 E|b' r0 Hb' Hr0 E|hdr' data' r0 Hh' Hr0 E].
    + subst. contradiction.
    + subst. apply IH. assumption.
    + destruct (push_header_first _ _ Hh') as (h0 & htl & -> & Hrange). cbn [app] in E.
      injection E as E0 _. subst h0. unfold non_push in Hb. exfalso. lia.
  - rewrite <- !app_assoc in Hor.
    destruct (push_header_first _ _ Hh) as (h0 & htl & Ehdr & Hrange).
    inversion Hor as [r0 E|b' r0 Hb' Hr0 E|hdr' data' r0 Hh' Hr0 E].
    + rewrite Ehdr in E. cbn [app] in E. injection E as E0 _. subst h0. exfalso. change (b2n x6a) with 106 in Hrange. lia.
    + rewrite Ehdr in E. cbn [app] in E. injection E as E0 _. subst b'. unfold non_push in Hb'. exfalso. lia.
    + pose proof (decode_step_push hdr data (r ++ rest) Hh) as S1.
      pose proof (decode_step_push hdr' data' r0 Hh') as S2.
      rewrite E in S2. rewrite S1 in S2. injection S2 as _ Er. apply IH. rewrite Er. exact Hr0.
Qed.

Theorem shaped_tail_agree : forall pre rest, tokens_no_return pre -> ~ op_return_at_boundary rest ->
  agree (pre ++ rest).
Proof.
  intros pre rest Hpre Hno. apply tokenisers_agree. intros Hor. apply Hno.
  eapply no_return_head; eassumption.
Qed.

Lemma p2pkh_head_no_return (h : bytes) : List.length h = 20%nat -> tokens_no_return ([x76; xa9; x14] ++ h).
Proof.
  intros Hl. cbn [app].
  apply tnr_op; [right; vm_compute; reflexivity|discriminate|].
  apply tnr_op; [right; vm_compute; reflexivity|discriminate|].
  replace (x14 :: h) with ([x14] ++ h ++ []) by (cbn [app]; rewrite app_nil_r; reflexivity).
  apply tnr_push; [|constructor].
  unfold lenN. rewrite Hl. change [x14] with [n2b 20]. apply ph_direct. lia.
Qed.

Theorem p2pkh_shaped_agree : forall (h rest : bytes), List.length h = 20%nat -> ~ op_return_at_boundary rest ->
  agree ([x76; xa9; x14] ++ h ++ rest).
Proof.
  intros h rest Hl Hno. rewrite app_assoc. apply shaped_tail_agree; [apply p2pkh_head_no_return; exact Hl|exact Hno].
Qed.
