(** bscript.EncodeParts (bscript/oppushdata.go), as printed from the Go source, is [encode_parts] of model/Push.v
    (C13; the inscription builder of C20 uses the same model function).  The printed function calls the PRINTED
    PushDataPrefix.  The hypothesis is Go's: every part has fewer than 2^63 bytes.  The loop is a [range]: it is
    compared with a pure step function written in the shape of the model (proofs/GenFuncsLoopTac.v). *)
From Coq Require Import List ZArith NArith Bool Lia ZifyN ZifyNat ZifyBool.
From Coq Require Import Strings.Byte.
From GoBT Require Import lib.Bytes lib.GoSem gen.Funcs proofs.GenFuncsTac proofs.GenFuncsLoopTac proofs.GenFuncs_PushDataPrefix.
From GoBT Require model.Push.
Import ListNotations.
Ltac Zify.zify_post_hook ::= Z.div_mod_to_equations.
Local Open Scope Z_scope.

Definition part_fits (p : bytes) : Prop := (lenN p < 9223372036854775808)%N.

(** one iteration in the shape of the model: the prefix of the part, then the part *)
Definition encode_step (_ : nat) (part : bytes) (b : bytes) : ctl bytes (bytes * bool) :=
  match Push.push_data_prefix part with
  | None => Return ([], true)
  | Some pd => Next (b ++ pd ++ part)
  end.

Lemma encode_step_model : forall (parts : list bytes) (k : nat) (b : bytes),
  range_pure encode_step parts k b =
  match Push.encode_parts parts with Some t => Fall (b ++ t) | None => Returned ([], true) end.
Proof.
  induction parts as [|p r IH]; intros k b; cbn [range_pure Push.encode_parts]; [rewrite app_nil_r; reflexivity|].
  unfold encode_step at 1. destruct (Push.push_data_prefix p) as [pd|]; [|reflexivity].
  rewrite IH. destruct (Push.encode_parts r) as [t|]; [|reflexivity].
  rewrite <- !app_assoc. reflexivity.
Qed.

Lemma EncodeParts_is_model (parts : list bytes) : Forall part_fits parts ->
  EncodeParts parts = Val (of_option (Push.encode_parts parts)).
Proof.
  intros Hfit. unfold EncodeParts. cbv zeta.
  change (go_make_bytes 0) with (Val (@nil byte)). cbn [bind].
  rewrite (go_range_pure encode_step).
  - cbn [bind]. rewrite encode_step_model. destruct (Push.encode_parts parts) as [t|]; reflexivity.
  - intros i x s Hi. apply nth_error_In in Hi. rewrite Forall_forall in Hfit. specialize (Hfit x Hi).
    rewrite (PushDataPrefix_is_model x Hfit). unfold encode_step, of_option.
    destruct (Push.push_data_prefix x) as [pd|]; cbn [bind]; cbv beta iota; [|reflexivity].
    rewrite <- ?app_assoc. reflexivity.
Qed.

(** non-vacuity / sanity: parts of boundary lengths *)
Example EncodeParts_example :
  EncodeParts [[]; [x01]; repeat x07 75; repeat x07 76] =
  Val ([x00; x01; x01; x4b] ++ repeat x07 75 ++ [x4c; x4c] ++ repeat x07 76, false).
Proof. vm_compute. reflexivity. Qed.
