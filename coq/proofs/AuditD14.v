(** Audit D, property C14.
    [not_wellformed_not_keybearing]: "undecodable" read against the independent grammar: a byte string
    that is not a sequence of complete tokens is never reported as a key-bearing type.
    [script_type_empty_iff]: reported empty exactly for the empty script.
    [p2pk_reported_iff]: the exact set of scripts reported "pubkey", at byte level: a push (ANY of the
    four forms) of a key of valid version and length, followed by the opcode OP_CHECKSIG or by a push
    (any form) of data that merely starts with the byte 0xac.  The second alternative is library
    behaviour (IsP2PK looks at parts[1][0] only), recorded here rather than hidden. *)
From Coq Require Import List NArith Lia ZifyN ZifyNat ZifyBool ZArith Bool String.
From Coq Require Import Strings.Byte.
From GoBT Require Import lib.Bytes lib.Hex lib.Checked model.Push model.Asm model.Classify
  spec.PushSpec spec.TemplateSpec
  proofs.PushProofs proofs.TokenProofs proofs.ClassifyProofs proofs.TemplateProofs proofs.AuditD13.
Import ListNotations.
Local Open Scope N_scope.

Theorem not_wellformed_not_keybearing s : ~ tokens s ->
  script_type s <> Ok TPubKey /\ script_type s <> Ok TPubKeyHash /\ script_type s <> Ok TMultiSig /\
  script_type s <> Ok TInscription.
Proof.
  intros Hnt. apply undecodable_not_keybearing.
  destruct (dres_ok (decode_parts s)) eqn:E; [|reflexivity].
  exfalso. apply Hnt. apply decode_ok_iff_tokens. exact E.
Qed.

Theorem script_type_empty_iff s : script_type s = Ok TEmpty <-> s = [].
Proof.
  split.
  - intros H. apply script_type_cases in H. destruct s; [reflexivity|]. rewrite lenN_cons in H. lia.
  - intros ->. reflexivity.
Qed.

(** ** the first token of a script DecodeParts accepts *)
Lemma decode_ok_cons_inv s p ps : decode_parts s = DOk (p :: ps) ->
  exists tok rest, s = tok ++ rest /\ decode_parts rest = DOk ps /\
    ((exists b, non_push b /\ tok = [b] /\ p = [b]) \/ (exists hdr, push_header hdr (lenN p) /\ tok = hdr ++ p)).
Proof.
  intros D. destruct s as [|b0 r]; [rewrite decode_parts_nil in D; discriminate|].
  rewrite decode_parts_cons in D.
  destruct (decode_step_clean (b0 :: r)) as [q rest| |] eqn:Estep; try discriminate D.
  apply dcons_ok_inv in D as (l' & Drest & E). injection E as -> ->.
  destruct (decode_step_inv _ _ _ _ Estep) as [(Hnp & -> & -> & _)|(hdr & Hhdr & Es & _)].
  - exists [b0], r. split; [reflexivity|]. split; [exact Drest|]. left. exists b0. auto.
  - exists (hdr ++ q), rest. split; [rewrite Es, <- app_assoc; reflexivity|]. split; [exact Drest|].
    right. exists hdr. auto.
Qed.

Lemma decode_ok_nil_inv s : decode_parts s = DOk [] -> s = [].
Proof.
  destruct s as [|b0 r]; [reflexivity|]. intros D. exfalso. exact (decode_ok_nonempty _ _ _ D eq_refl).
Qed.

Definition p2pk_shape (s : bytes) : Prop :=
  exists hk k tail, push_header hk (lenN k) /\ valid_pubkey k /\
    (tail = [xac] \/ exists h2 d, push_header h2 (1 + lenN d) /\ tail = h2 ++ xac :: d) /\
    s = hk ++ k ++ tail.

Lemma xac_of c : b2n c = 172 -> c = xac.
Proof. intros H. apply b2n_inj. rewrite H. reflexivity. Qed.

Lemma is_p2pk_shape_true s : p2pk_shape s -> is_p2pk s = Ok true.
Proof.
  intros (hk & k & tail & Hhk & Hk & Htail & ->).
  assert (exists cr, decode_parts (hk ++ k ++ tail) = DOk [k; xac :: cr]) as [cr D].
  { destruct Htail as [-> | (h2 & d & Hh2 & ->)].
    - exists []. rewrite decode_parts_push by exact Hhk.
      rewrite decode_parts_op by (right; vm_compute; reflexivity). rewrite decode_parts_nil. reflexivity.
    - exists d. rewrite decode_parts_push by exact Hhk.
      replace (h2 ++ xac :: d) with (h2 ++ (xac :: d) ++ []) by (rewrite app_nil_r; reflexivity).
      rewrite decode_parts_push by (rewrite lenN_cons; exact Hh2). rewrite decode_parts_nil. reflexivity. }
  unfold is_p2pk. rewrite (decoded_of _ _ D). cbn [obind].
  unfold valid_pubkey in Hk. destruct k as [|v kr]; [contradiction|].
  unfold part_nonempty, part_len, part_byte_is, part_byte.
  change (idx [v :: kr; xac :: cr] 0) with (Some (v :: kr)).
  change (idx [v :: kr; xac :: cr] 1) with (Some (xac :: cr)).
  change (idx (xac :: cr) 0) with (Some xac). change (idx (v :: kr) 0) with (Some v).
  change (lenNg [v :: kr; xac :: cr] =? 2) with true.
  cbn [chk obind oand]. rewrite !lenN_cons.
  replace (0 <? 1 + lenN kr) with true by lia. cbn [obind].
  replace (0 <? 1 + lenN cr) with true by lia. cbn [obind].
  change (idx (xac :: cr) 0) with (Some xac). cbn [chk obind oand].
  change (b2n xac =? OpCHECKSIG) with true. cbn [obind].
  change (idx (v :: kr) 0) with (Some v). cbn [chk].
  replace (1 + lenN kr) with (lenN (v :: kr)) by (rewrite lenN_cons; reflexivity).
  unfold lenN. destruct Hk as [[Hl Hv]|[Hl Hv]]; rewrite Hl.
  - change (N.of_nat 33 =? 65) with false. change (N.of_nat 33 =? 33) with true. rewrite andb_false_r, andb_true_r.
    replace ((b2n v =? 3) || (b2n v =? 2)) with true by lia. reflexivity.
  - change (N.of_nat 65 =? 65) with true. rewrite andb_true_r.
    replace ((b2n v =? 4) || (b2n v =? 6) || (b2n v =? 7)) with true by lia. reflexivity.
Qed.

Lemma is_p2pk_true_shape s : is_p2pk s = Ok true -> p2pk_shape s.
Proof.
  intros H. apply is_p2pk_true_inv in H as (k & v & kr & c & cr & D & Ek & Hc & Hv).
  apply decode_ok_cons_inv in D as (tok1 & rest1 & -> & D1 & Hk1).
  apply decode_ok_cons_inv in D1 as (tok2 & rest2 & -> & D2 & Hk2).
  apply decode_ok_nil_inv in D2. subst rest2. rewrite app_nil_r.
  assert (valid_pubkey k) as Hvalid.
  { rewrite Ek. cbn [valid_pubkey]. rewrite Ek in Hv. unfold lenN in Hv.
    destruct Hv as [[Hver Hl]|[Hver Hl]]; [right|left]; (split; [lia|lia]). }
  destruct Hk1 as [(b & _ & _ & Eb)|(hk & Hhk & ->)].
  { exfalso. rewrite Eb in Hv. unfold lenN in Hv. cbn [List.length] in Hv. lia. }
  apply xac_of in Hc. subst c.
  exists hk, k, tok2. split; [exact Hhk|]. split; [exact Hvalid|]. split; [|rewrite <- app_assoc; reflexivity].
  destruct Hk2 as [(b & _ & -> & Eb)|(h2 & Hh2 & ->)].
  - left. injection Eb as <- _. reflexivity.
  - right. exists h2, cr. rewrite lenN_cons in Hh2. auto.
Qed.

Theorem p2pk_reported_iff s : script_type s = Ok TPubKey <-> p2pk_shape s.
Proof.
  split.
  - intros H. apply script_type_cases in H. apply is_p2pk_true_shape. exact H.
  - intros Hs. pose proof (is_p2pk_shape_true s Hs) as Hp.
    destruct Hs as (hk & k & tail & Hhk & _ & _ & ->).
    destruct (push_header_first _ _ Hhk) as (h0 & htl & -> & Hh0).
    unfold script_type. cbn [app]. rewrite lenN_cons.
    replace (1 + lenN (htl ++ k ++ tail) =? 0) with false by lia.
    rewrite is_p2pkh_first by lia. cbn [obind]. cbn [app] in Hp. rewrite Hp. reflexivity.
Qed.
