(** opcodeAdd (bscript/interpreter/operations.go), as printed from the Go source, is the branch of [Interp.exec_handler]
    for OP_ADD: for every context and state (data stack of fewer than 2^31 - 16 items), the printed
    function applied to the thread fields it uses -- the data stack in Go order, [rev (ds s)], the limits of the stack's number conversion --
    yields the model's outcome (ok with the new stack / script error / panic), and never runs out of fuel. *)
From Coq Require Import List ZArith NArith Bool Lia ZifyN ZifyNat ZifyBool.
From Coq Require Import Strings.Byte.
From GoBT Require Import lib.Bytes lib.GoSem lib.GoInterp gen.Funcs proofs.GenFuncsTac proofs.GenFuncsInterpTac proofs.GenFuncs_stack_PopInt proofs.GenFuncs_stack_PushInt.
From GoBT Require model.Interp model.ScriptNum.
Import ListNotations.
Ltac Zify.zify_post_hook ::= Z.div_mod_to_equations.
Local Open Scope Z_scope.

(** the branch of the model this handler is compared with (opcode OP_ADD; proofs/DispatchProofs.v ties the table) *)
Lemma exec_at_opcodeAdd so c p idx s : Interp.p_real p = true -> Interp.p_val p = Interp.OP_ADD ->
  Interp.exec_handler so c p idx s = Interp.binary_num c s (fun v0 v1 => Some (v0 + v1)).
Proof. intros Hr Hv. unfold Interp.exec_handler. rewrite Hr, Hv. reflexivity. Qed.

Lemma opcodeAdd_is_model so c p idx s : small (Interp.ds s) -> Interp.p_real p = true -> Interp.p_val p = Interp.OP_ADD ->
  h_view s (opcodeAdd (Interp.max_numlen c) (Interp.has_flag c Interp.F_MINIMALDATA) (Interp.after_genesis c) (rev (Interp.ds s))) = Some (Interp.exec_handler so c p idx s).
Proof.
  intros Hs Hr Hv. rewrite (exec_at_opcodeAdd so c p idx s Hr Hv).
  destruct s as [d a cd el no ls ea cu]. cbn [Interp.ds Interp.als] in *. h_model.
  go_list_cases d 2%nat; unfold opcodeAdd, sn_div, sn_mod, sn_lt, sn_le, sn_gt, sn_ge, sn_eq, sn_is_zero; stk_run; h_nums;
    repeat (go_split; stk_run); try h_done; try (exfalso; lia).
Qed.
