(** Lemmas and tactics for the equivalence proofs of printed Go functions that contain loops or index a
    slice relative to its end (proofs/GenFuncs_asBool.v, _thread_shouldExec.v, _ScriptFlag_HasAny.v,
    _checkMinimalDataEncoding.v, _minimallyEncode.v, ...).

    A printed [range] loop [go_range xs 0 s body] is compared with a PURE step function [f] chosen by the proof
    (written in the shape of the model, not of the printed body): once every iteration of the printed body is
    shown to return [Val (f i x s)] -- by unfolding, case analysis and [lia], never by matching the body's shape
    -- the loop is [range_pure f], and the rest of the proof is an induction about [f] alone. *)
From Coq Require Import List ZArith NArith Bool Lia ZifyN ZifyNat ZifyBool.
From Coq Require Import Strings.Byte.
From GoBT Require Import lib.Bytes lib.GoSem proofs.GenFuncsTac.
Import ListNotations.
Ltac Zify.zify_post_hook ::= Z.div_mod_to_equations.
Local Open Scope Z_scope.

(** ** range loops *)
Fixpoint range_pure {A S R} (f : nat -> A -> S -> ctl S R) (xs : list A) (i : nat) (s : S) : after S R :=
  match xs with
  | [] => Fall s
  | x :: r =>
      match f i x s with
      | Next s' => range_pure f r (Datatypes.S i) s'
      | Break s' => Fall s'
      | Return v => Returned v
      end
  end.

Lemma go_range_pure_at {A S R} (f : nat -> A -> S -> ctl S R) (body : Z -> A -> S -> M (ctl S R)) :
  forall (xs pre : list A) (s : S),
  (forall i x s, nth_error (pre ++ xs) i = Some x -> body (Z.of_nat i) x s = Val (f i x s)) ->
  go_range xs (Z.of_nat (length pre)) s body = Val (range_pure f xs (length pre) s).
Proof.
  induction xs as [|x r IH]; intros pre s Hb; [reflexivity|].
  cbn [go_range range_pure].
  rewrite (Hb (length pre) x s).
  2:{ rewrite nth_error_app2 by lia. rewrite Nat.sub_diag. reflexivity. }
  cbn [bind]. destruct (f (length pre) x s) as [s'|s'|v]; try reflexivity.
  replace (Z.of_nat (length pre) + 1) with (Z.of_nat (length (pre ++ [x]))) by (rewrite app_length; cbn [length]; lia).
  replace (Datatypes.S (length pre)) with (length (pre ++ [x])) by (rewrite app_length; cbn [length]; lia).
  apply IH. intros i y s0 Hi. apply Hb. rewrite <- app_assoc in Hi. exact Hi.
Qed.

Lemma go_range_pure {A S R} (f : nat -> A -> S -> ctl S R) (body : Z -> A -> S -> M (ctl S R)) (xs : list A) (s : S) :
  (forall i x s, nth_error xs i = Some x -> body (Z.of_nat i) x s = Val (f i x s)) ->
  go_range xs 0 s body = Val (range_pure f xs 0 s).
Proof. intros Hb. exact (go_range_pure_at f body xs [] s Hb). Qed.

(** ** indexing *)
Lemma go_index_b_nth (l : bytes) (n : nat) :
  go_index_b l (Z.of_nat n) = match nth_error l n with Some a => Val (b2z a) | None => Panic end.
Proof. unfold go_index_b. rewrite go_index_nth. destruct (nth_error l n); reflexivity. Qed.

(** an index given by any integer expression [e], once [e] is known to be the position [n] *)
Lemma go_index_at {A} (l : list A) (e : Z) (n : nat) (a : A) :
  nth_error l n = Some a -> e = Z.of_nat n -> go_index l e = Val a.
Proof. intros H ->. rewrite go_index_nth, H. reflexivity. Qed.
Lemma go_index_b_at (l : bytes) (e : Z) (n : nat) (a : byte) :
  nth_error l n = Some a -> e = Z.of_nat n -> go_index_b l e = Val (b2z a).
Proof. intros H ->. rewrite go_index_b_nth, H. reflexivity. Qed.
Lemma go_index_out {A} (l : list A) (e : Z) : e < 0 \/ go_len l <= e -> go_index l e = Panic.
Proof.
  intros H. unfold go_index. destruct ((0 <=? e) && (e <? go_len l)) eqn:E; [exfalso; lia|reflexivity].
Qed.
Lemma go_index_b_out (l : bytes) (e : Z) : e < 0 \/ go_len l <= e -> go_index_b l e = Panic.
Proof. intros H. unfold go_index_b. rewrite go_index_out by exact H. reflexivity. Qed.

Lemma nth_error_snoc_last {A} (l : list A) (a : A) : nth_error (l ++ [a]) (length l) = Some a.
Proof. rewrite nth_error_app2 by lia. rewrite Nat.sub_diag. reflexivity. Qed.
Lemma nth_error_snoc2_prev {A} (l : list A) (a b : A) : nth_error ((l ++ [a]) ++ [b]) (length l) = Some a.
Proof. rewrite nth_error_app1 by (rewrite app_length; cbn [length]; lia). apply nth_error_snoc_last. Qed.

Lemma go_len_app {A} (l r : list A) : go_len (l ++ r) = go_len l + go_len r.
Proof. unfold go_len. rewrite app_length. lia. Qed.
Lemma go_len_1 {A} (a : A) : go_len [a] = 1.
Proof. reflexivity. Qed.

(** the width-64 wrap is the identity on the range of a slice length and its neighbours *)
Lemma go_wrap_I64_id z : -9223372036854775808 <= z < 9223372036854775808 -> go_wrap I64 z = z.
Proof. intros H. unfold go_wrap. lia. Qed.

(** the arithmetic facts [lia] needs about the wrap operations once their arguments are bounded *)
Ltac go_arith := unfold go_sub, go_add, go_conv, go_wrap, b2z in *.

(** evaluate the monadic plumbing and split on every condition; the leaves are closed by [reflexivity] or by
    contradiction of the collected conditions *)
Ltac go_cases :=
  repeat (cbn [bind]; cbv beta;
          match goal with
          | |- context [if ?c then _ else _] => let E := fresh "E" in destruct c eqn:E
          end);
  cbn [bind]; cbv beta.

Ltac go_close := first [ reflexivity | exfalso; go_arith; lia | apply Val_inj; go_arith; lia | (repeat f_equal); go_arith; lia ].

(** ** a slice seen from its end: empty, one element, or (at least) two last elements *)
Lemma list_end_cases {A} (l : list A) :
  l = [] \/ (exists a, l = [a]) \/ (exists l' p a, l = l' ++ [p; a]).
Proof.
  destruct l as [|x r _] using rev_ind; [left; reflexivity|right].
  destruct r as [|y r' _] using rev_ind; [left; exists x; reflexivity|right].
  exists r', y, x. rewrite <- app_assoc. reflexivity.
Qed.
Lemma nth_error_end2_prev {A} (l : list A) (p a : A) : nth_error (l ++ [p; a]) (length l) = Some p.
Proof. rewrite nth_error_app2 by lia. rewrite Nat.sub_diag. reflexivity. Qed.
Lemma nth_error_end2_last {A} (l : list A) (p a : A) : nth_error (l ++ [p; a]) (Datatypes.S (length l)) = Some a.
Proof. rewrite nth_error_app2 by lia. replace (Datatypes.S (length l) - length l)%nat with 1%nat by lia. reflexivity. Qed.

(** ** the two masks of the script-number code on a byte *)
Lemma byte_land_127 (b : byte) : Z.land (b2z b) 127 = Z.of_N (b2n b mod 128).
Proof. destruct b; vm_compute; reflexivity. Qed.
Lemma byte_land_128 (b : byte) : Z.land (b2z b) 128 = if (128 <=? b2n b)%N then 128 else 0.
Proof. destruct b; vm_compute; reflexivity. Qed.
Lemma byte_land_128_is0 (b : byte) : (Z.land (b2z b) 128 =? 0) = negb (128 <=? b2n b)%N.
Proof. destruct b; vm_compute; reflexivity. Qed.
Lemma byte_land_128_is128 (b : byte) : (Z.land (b2z b) 128 =? 128) = (128 <=? b2n b)%N.
Proof. destruct b; vm_compute; reflexivity. Qed.
Ltac byte_masks :=
  unfold go_and, go_or;
  repeat first [ rewrite byte_land_127 | rewrite byte_land_128_is0 | rewrite byte_land_128_is128 | rewrite byte_land_128
               | rewrite (Z.land_comm 127 (b2z _)) | rewrite (Z.land_comm 128 (b2z _)) ].

(** ** in-place writes and prefixes, at positions given by arbitrary integer expressions *)
Definition upd {A} (l : list A) (i : nat) (v : A) : list A := firstn i l ++ v :: skipn (Datatypes.S i) l.
Lemma upd_length {A} (l : list A) i v : (i < length l)%nat -> length (upd l i v) = length l.
Proof. intros H. unfold upd. rewrite app_length. cbn [length]. rewrite firstn_length, skipn_length. lia. Qed.
Lemma go_set_index_at (l : bytes) (e : Z) (n : nat) (v : Z) :
  e = Z.of_nat n -> (n < length l)%nat -> go_set_index l e v = Val (upd l n (z2b v)).
Proof.
  intros -> H. unfold go_set_index, go_len, upd.
  replace ((0 <=? Z.of_nat n) && (Z.of_nat n <? Z.of_nat (length l))) with true by lia.
  rewrite Nat2Z.id. replace (Z.to_nat (Z.of_nat n + 1)) with (Datatypes.S n) by lia. reflexivity.
Qed.
Lemma go_slice_to_at {A} (l : list A) (e : Z) (n : nat) :
  e = Z.of_nat n -> (n <= length l)%nat -> go_slice_to l e = Val (firstn n l).
Proof.
  intros -> H. unfold go_slice_to, go_slice, go_len.
  replace ((0 <=? 0) && (0 <=? Z.of_nat n) && (Z.of_nat n <=? Z.of_nat (length l))) with true by lia.
  replace (Z.to_nat (Z.of_nat n - 0)) with n by lia. reflexivity.
Qed.
Lemma z2b_lor (x y : byte) : z2b (Z.lor (b2z x) (b2z y)) = n2b (N.lor (b2n x) (b2n y)).
Proof. unfold b2z. rewrite Z_lor_of_N. apply z2b_of_N. Qed.

(** ** three-clause loops: a pure step function, as for [range] *)
Section ForPure.
  Context {S R : Type}.
  Variables (inv : S -> Prop) (measure : S -> nat).
  Variables (cond : S -> M bool) (body : S -> M (ctl S R)) (post : S -> M S).
  Variables (pcond : S -> bool) (pbody : S -> ctl S R) (ppost : S -> S).
  Fixpoint for_pure (fuel : nat) (s : S) : after S R :=
    if negb (pcond s) then Fall s else
    match fuel with
    | O => Fall s
    | Datatypes.S k =>
        match pbody s with
        | Next s' => for_pure k (ppost s')
        | Break s' => Fall s'
        | Return v => Returned v
        end
    end.
  Hypothesis Hcond : forall s, inv s -> cond s = Val (pcond s).
  Hypothesis Hbody : forall s, inv s -> pcond s = true -> body s = Val (pbody s).
  Hypothesis Hpost : forall s s', inv s -> pcond s = true -> pbody s = Next s' ->
                     post s' = Val (ppost s') /\ inv (ppost s') /\ (measure (ppost s') < measure s)%nat.
  Hypothesis Hzero : forall s, inv s -> measure s = 0%nat -> pcond s = false.
  (** with fuel at least the measure the printed loop is the pure loop and never runs out of fuel *)
  Lemma go_for_pure : forall fuel s, inv s -> (measure s <= fuel)%nat ->
    go_for fuel s cond body post = Val (for_pure fuel s).
  Proof.
    induction fuel as [|k IH]; intros s Hi Hm.
    - cbn [go_for for_pure]. rewrite (Hcond s Hi). cbn [bind]. rewrite (Hzero s Hi) by lia. reflexivity.
    - cbn [go_for for_pure]. rewrite (Hcond s Hi). cbn [bind]. destruct (pcond s) eqn:Ec; [|reflexivity].
      cbn [negb]. rewrite (Hbody s Hi Ec). cbn [bind]. destruct (pbody s) as [s'|s'|v] eqn:Eb; try reflexivity.
      destruct (Hpost s s' Hi Ec Eb) as [Hp [Hi' Hm']]. rewrite Hp. cbn [bind]. apply IH; [exact Hi'|lia].
  Qed.
End ForPure.
