(** The interpreter model's named constants (era limits, flag bit positions) equal the values REGENERATED
    from config.go / scriptflag.go on every run (gen/InterpConsts.v): changing a limit or re-ordering the
    flag iota block in the Go source breaks these theorems at build time. *)
From Coq Require Import List NArith ZArith String Bool.
From GoBT Require Import model.Interp gen.InterpConsts.
Import ListNotations.
Local Open Scope string_scope.

Definition lookup (t : list (string * Z)) (k : string) : option Z :=
  match find (fun kv => String.eqb (fst kv) k) t with Some kv => Some (snd kv) | None => None end.

Definition pre_genesis_ctx : ctx := mkCtx 0 false 0 0 0 true.

Theorem config_limits_match :
  lookup config_consts "MaxOpsBeforeGenesis" = Some (max_ops pre_genesis_ctx) /\
  lookup config_consts "MaxStackSizeBeforeGenesis" = Some (max_stack pre_genesis_ctx) /\
  lookup config_consts "MaxScriptSizeBeforeGenesis" = Some (max_script_size pre_genesis_ctx) /\
  lookup config_consts "MaxScriptElementSizeBeforeGenesis" = Some (max_elem pre_genesis_ctx) /\
  lookup config_consts "MaxScriptNumberLengthBeforeGenesis" = Some (max_numlen pre_genesis_ctx) /\
  lookup config_consts "MaxPubKeysPerMultiSigBeforeGenesis" = Some (max_pubkeys pre_genesis_ctx).
Proof. vm_compute. repeat split; reflexivity. Qed.

(** ... and what the methods of BOTH era configurations return (literals and math.MaxInt32 inside method bodies, not
    named constants: 750 * 1000 for the post-Genesis number length), evaluated by the translator *)
Definition post_genesis_ctx : ctx := mkCtx (N.shiftl 1 F_GENESIS) false 0 0 0 true.

Theorem config_methods_match :
  after_genesis pre_genesis_ctx = false /\ after_genesis post_genesis_ctx = true /\
  lookup config_methods "beforeGenesisConfig.AfterGenesis" = Some 0%Z /\
  lookup config_methods "afterGenesisConfig.AfterGenesis" = Some 1%Z /\
  lookup config_methods "beforeGenesisConfig.MaxOps" = Some (max_ops pre_genesis_ctx) /\
  lookup config_methods "beforeGenesisConfig.MaxStackSize" = Some (max_stack pre_genesis_ctx) /\
  lookup config_methods "beforeGenesisConfig.MaxScriptSize" = Some (max_script_size pre_genesis_ctx) /\
  lookup config_methods "beforeGenesisConfig.MaxScriptElementSize" = Some (max_elem pre_genesis_ctx) /\
  lookup config_methods "beforeGenesisConfig.MaxScriptNumberLength" = Some (max_numlen pre_genesis_ctx) /\
  lookup config_methods "beforeGenesisConfig.MaxPubKeysPerMultiSig" = Some (max_pubkeys pre_genesis_ctx) /\
  lookup config_methods "afterGenesisConfig.MaxOps" = Some (max_ops post_genesis_ctx) /\
  lookup config_methods "afterGenesisConfig.MaxStackSize" = Some (max_stack post_genesis_ctx) /\
  lookup config_methods "afterGenesisConfig.MaxScriptSize" = Some (max_script_size post_genesis_ctx) /\
  lookup config_methods "afterGenesisConfig.MaxScriptElementSize" = Some (max_elem post_genesis_ctx) /\
  lookup config_methods "afterGenesisConfig.MaxScriptNumberLength" = Some (max_numlen post_genesis_ctx) /\
  lookup config_methods "afterGenesisConfig.MaxPubKeysPerMultiSig" = Some (max_pubkeys post_genesis_ctx).
Proof. vm_compute. repeat split; reflexivity. Qed.

Definition flag_bit_ok (name : string) (bit : N) : bool :=
  match lookup flag_consts name with Some v => (v =? Z.of_N (N.shiftl 1 bit))%Z | None => false end.

Theorem flag_bits_match :
  flag_bit_ok "Bip16" F_BIP16 && flag_bit_ok "StrictMultiSig" F_STRICTMULTISIG &&
  flag_bit_ok "DiscourageUpgradableNops" F_DISCOURAGE_NOPS && flag_bit_ok "VerifyCheckLockTimeVerify" F_CLTV &&
  flag_bit_ok "VerifyCheckSequenceVerify" F_CSV && flag_bit_ok "VerifyCleanStack" F_CLEANSTACK &&
  flag_bit_ok "VerifyDERSignatures" F_DERSIG && flag_bit_ok "VerifyLowS" F_LOWS &&
  flag_bit_ok "VerifyMinimalData" F_MINIMALDATA && flag_bit_ok "VerifyNullFail" F_NULLFAIL &&
  flag_bit_ok "VerifySigPushOnly" F_SIGPUSHONLY && flag_bit_ok "EnableSighashForkID" F_FORKID &&
  flag_bit_ok "VerifyStrictEncoding" F_STRICTENC && flag_bit_ok "VerifyBip143SigHash" F_BIP143 &&
  flag_bit_ok "UTXOAfterGenesis" F_GENESIS && flag_bit_ok "VerifyMinimalIf" F_MINIMALIF = true.
Proof. vm_compute. reflexivity. Qed.

(** the locktime / sequence constants the CLTV and CSV handlers use (literals in model/Interp.v) *)
Theorem locktime_consts_match :
  lookup consensus_consts "LockTimeThreshold" = Some 500000000%Z /\
  lookup sequence_consts "MaxTxInSequenceNum" = Some 4294967295%Z /\
  lookup sequence_consts "SequenceLockTimeDisabled" = Some (2 ^ 31)%Z /\
  lookup sequence_consts "SequenceLockTimeIsSeconds" = Some 4194304%Z /\
  lookup sequence_consts "SequenceLockTimeMask" = Some 65535%Z /\
  (4194304 + 65535 = 4259839)%Z.
Proof. vm_compute. repeat split; reflexivity. Qed.
