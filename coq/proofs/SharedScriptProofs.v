(** C18 — proofs about model/SharedScript.v: writing into a shared script object and restoring it is invisible
    sequentially, observable concurrently, and rejected by [confined]. *)
From Coq Require Import List String Bool Arith PeanoNat NArith.
From GoBT Require Import model.Locks spec.RaceSpec model.SharedScript proofs.LocksProofs.
Import ListNotations.
Local Open Scope list_scope.

(** [confined] rejects the shape whenever the script is not a location the scan reports as written (the tables
    regenerated from the source never list a caller's script: it is not a package-level variable at all) *)
Lemma restoring_not_confined : forall G F t k tmp orig,
  existsb (String.eqb script_bytes) G = false -> confined G F t (restoring k tmp orig) = false.
Proof.
  intros G F t k tmp orig HG. unfold restoring. cbn [confined].
  unfold writable at 1. cbn [fst script_obj]. rewrite HG. reflexivity.
Qed.

(** ... while only reading the shared script is confined, whatever the tables say *)
Lemma reading_confined : forall G F t k, confined G F t (reading k) = true.
Proof.
  intros. unfold reading. cbn [confined]. unfold readable. cbn [fst script_obj ty_eqb].
  rewrite orb_true_r. reflexivity.
Qed.

(** ALONE (either order of the two validations, each run to completion): the rearranging validation reads its
    rearranged bytes, the other one reads the original bytes, the script is left as it was - exactly what
    [seq_log] (each program run by itself from the initial memory) gives *)
Lemma restoring_invisible_sequentially : forall k tmp orig g,
  let P := two (restoring k tmp orig) (reading k) in
  let m0 := fun _ : loc => orig in
  (* first 0, then 1 *)
  option_map (fun s => (log (thr s 0), log (thr s 1), cval (mem s (script_loc k))))
    (run (init_state m0 P) [(0,g);(0,g);(0,g);(0,g);(0,g);(1,g)])
    = Some (seq_log m0 (P 0) [], seq_log m0 (P 1) [], orig) /\
  (* first 1, then 0 *)
  option_map (fun s => (log (thr s 0), log (thr s 1), cval (mem s (script_loc k))))
    (run (init_state m0 P) [(1,g);(0,g);(0,g);(0,g);(0,g);(0,g)])
    = Some (seq_log m0 (P 0) [], seq_log m0 (P 1) [], orig).
Proof.
  intros k tmp orig g P m0. subst P m0. unfold script_loc, script_obj, script_bytes, restoring, reading, two.
  split; cbn; unfold upd_loc, upd_thr, loc_eqb, obj_eqb; cbn; rewrite ?Nat.eqb_refl; cbn; reflexivity.
Qed.

(** CONCURRENTLY: there is a schedule in which the other validation reads the rearranged bytes ... *)
Lemma restoring_observable : forall k tmp orig g,
  let P := two (restoring k tmp orig) (reading k) in
  option_map (fun s => (prog (thr s 1), log (thr s 1)))
    (run (init_state (fun _ => orig) P) [(0,g);(0,g);(1,g)])
    = Some ([], [(script_loc k, tmp)]).
Proof.
  intros k tmp orig g P. subst P. unfold script_loc, script_obj, script_bytes, restoring, reading, two.
  cbn; unfold upd_loc, upd_thr, loc_eqb, obj_eqb; cbn; rewrite ?Nat.eqb_refl; cbn; reflexivity.
Qed.

(** ... and one in which it reads ANY value [g] whatsoever (it reads while the bytes are being written) *)
Lemma restoring_observable_torn : forall k tmp orig g,
  let P := two (restoring k tmp orig) (reading k) in
  option_map (fun s => (prog (thr s 1), log (thr s 1)))
    (run (init_state (fun _ => orig) P) [(0,g);(1,g)])
    = Some ([], [(script_loc k, g)]).
Proof.
  intros k tmp orig g P. subst P. unfold script_loc, script_obj, script_bytes, restoring, reading, two.
  cbn; unfold upd_loc, upd_thr, loc_eqb, obj_eqb; cbn; rewrite ?Nat.eqb_refl; cbn; reflexivity.
Qed.

(** Put together: the hypothesis "every validation is confined" of concurrent_equals_sequential cannot be dropped
    for writes that are undone. Whenever the rearranged bytes differ from the original ones there is a reachable
    state in which a validation that only READS the shared script has finished with a log different from the one it
    has alone. *)
Theorem write_and_restore_breaks_equality : forall k tmp orig, tmp <> orig ->
  let P := two (restoring k tmp orig) (reading k) in
  let m0 := fun _ : loc => orig in
  confined [] [] 1 (P 1) = true /\
  exists s, reachable (init_state m0 P) s /\ prog (thr s 1) = [] /\ log (thr s 1) <> seq_log m0 (P 1) [].
Proof.
  intros k tmp orig Hne P m0. split; [apply reading_confined|].
  pose proof (restoring_observable k tmp orig 0) as H. cbv zeta in H. fold P in H.
  match type of H with option_map _ ?r = _ => destruct r as [s|] eqn:Hrun end;
    cbn [option_map] in H; [|discriminate H].
  exists s. assert (Hp : prog (thr s 1) = []) by congruence.
  assert (Hl : log (thr s 1) = [(script_loc k, tmp)]) by congruence. clear H.
  split; [|split; [exact Hp|]].
  - exact (run_reachable _ _ _ Hrun).
  - rewrite Hl. subst P m0. unfold two, reading, script_loc. cbn. intros Heq. injection Heq as Heq. auto.
Qed.

Lemma read_only_ok_spec : forall p f, read_only_ok p f = true <-> f = 0%N /\ (0 < p)%N.
Proof.
  intros p f. unfold read_only_ok. rewrite andb_true_iff, N.eqb_eq, N.ltb_lt. tauto.
Qed.
