(** C18 — proofs about model/Locks.v: a well-locked table is race free and its reads see the
    newest write, for any number of threads and every schedule (invariant over reachable states);
    confined lock-free programs (the script engine) behave concurrently as they do alone. *)
From Coq Require Import List String Bool Arith PeanoNat Lia.
From GoBT Require Import model.Locks spec.RaceSpec.
Import ListNotations.
Local Open Scope list_scope.

(* ------------------------------------------------------------------------------------------ *)
(** * Decidable equalities *)

Lemma mode_eqb_eq : forall a b, mode_eqb a b = true <-> a = b.
Proof. intros [] []; simpl; split; congruence. Qed.
Lemma ty_eqb_eq : forall a b, ty_eqb a b = true <-> a = b.
Proof. intros [] []; simpl; split; congruence. Qed.
Lemma oref_eqb_eq : forall a b, oref_eqb a b = true <-> a = b.
Proof. intros [] []; simpl; split; congruence. Qed.
Lemma obj_eqb_eq : forall a b, obj_eqb a b = true <-> a = b.
Proof.
  intros [t1 n1] [t2 n2]; unfold obj_eqb; simpl. rewrite andb_true_iff, ty_eqb_eq, Nat.eqb_eq.
  split; [intros [-> ->]; reflexivity | intros H; inversion H; auto].
Qed.
Lemma loc_eqb_eq : forall a b, loc_eqb a b = true <-> a = b.
Proof.
  intros [o1 f1] [o2 f2]; unfold loc_eqb; simpl. rewrite andb_true_iff, obj_eqb_eq, String.eqb_eq.
  split; [intros [-> ->]; reflexivity | intros H; inversion H; auto].
Qed.
Lemma obj_eqb_refl : forall a, obj_eqb a a = true.
Proof. intros; apply obj_eqb_eq; reflexivity. Qed.
Lemma loc_eqb_refl : forall a, loc_eqb a a = true.
Proof. intros; apply loc_eqb_eq; reflexivity. Qed.
Lemma obj_eqb_neq : forall a b, a <> b -> obj_eqb a b = false.
Proof. intros a b H; destruct (obj_eqb a b) eqn:E; auto. apply obj_eqb_eq in E; contradiction. Qed.
Lemma loc_eqb_neq : forall a b, a <> b -> loc_eqb a b = false.
Proof. intros a b H; destruct (loc_eqb a b) eqn:E; auto. apply loc_eqb_eq in E; contradiction. Qed.
Lemma obj_eq_dec : forall a b : obj, {a = b} + {a <> b}.
Proof. intros a b; destruct (obj_eqb a b) eqn:E; [left; apply obj_eqb_eq; auto | right; intros ->; rewrite obj_eqb_refl in E; discriminate]. Qed.
Lemma loc_eq_dec : forall a b : loc, {a = b} + {a <> b}.
Proof. intros a b; destruct (loc_eqb a b) eqn:E; [left; apply loc_eqb_eq; auto | right; intros ->; rewrite loc_eqb_refl in E; discriminate]. Qed.

(* ------------------------------------------------------------------------------------------ *)
(** * The discipline checker, generically *)

Section DisciplineFacts.
  Context {K : Type} (keqb : K -> K -> bool).
  Hypothesis keqb_eq : forall a b, keqb a b = true <-> a = b.

  Lemma keqb_refl : forall a, keqb a a = true.
  Proof. intros; apply keqb_eq; reflexivity. Qed.

  Lemma holds_In : forall k m h, holds keqb k m h = true <-> In (k, m) h.
  Proof.
    intros k m h; unfold holds; rewrite existsb_exists; split.
    - intros ([k' m'] & Hin & Hb); simpl in Hb. apply andb_true_iff in Hb as [Hk Hm].
      apply keqb_eq in Hk; apply mode_eqb_eq in Hm; subst; auto.
    - intros Hin; exists (k, m); split; auto; simpl. rewrite keqb_refl; simpl. apply mode_eqb_eq; reflexivity.
  Qed.

  Lemma holds_obj_In : forall k h, holds_obj keqb k h = true <-> exists m, In (k, m) h.
  Proof.
    intros k h; unfold holds_obj; rewrite existsb_exists; split.
    - intros ([k' m'] & Hin & Hb); simpl in Hb. apply keqb_eq in Hb; subst; eauto.
    - intros (m & Hin); exists (k, m); split; auto; simpl; apply keqb_refl.
  Qed.

  Lemma holds_obj_notin : forall k h, holds_obj keqb k h = false -> ~ In k (map fst h).
  Proof.
    intros k h Hf Hin. apply in_map_iff in Hin as ([k' m] & Heq & Hin); simpl in Heq; subst.
    assert (holds_obj keqb k h = true) by (apply holds_obj_In; eauto). congruence.
  Qed.

  Lemma remove1_subset : forall k m h x, In x (remove1 keqb k m h) -> In x h.
  Proof.
    intros k m h; induction h as [|y r IH]; simpl; intros x Hin; auto.
    destruct (keqb (fst y) k && mode_eqb (snd y) m); auto.
    destruct Hin; auto.
  Qed.

  Lemma remove1_map_subset : forall k m h x, In x (map fst (remove1 keqb k m h)) -> In x (map fst h).
  Proof.
    intros k m h x Hin. apply in_map_iff in Hin as (y & <- & Hy). apply in_map. eapply remove1_subset; eauto.
  Qed.

  Lemma remove1_nodup : forall k m h, NoDup (map fst h) -> NoDup (map fst (remove1 keqb k m h)).
  Proof.
    intros k m h; induction h as [|y r IH]; simpl; intros Hnd; auto.
    inversion Hnd; subst.
    destruct (keqb (fst y) k && mode_eqb (snd y) m); auto.
    simpl; constructor; auto. intros Hin; apply remove1_map_subset in Hin; contradiction.
  Qed.

  Lemma remove1_gone : forall k m m' h, NoDup (map fst h) -> In (k, m) h -> ~ In (k, m') (remove1 keqb k m h).
  Proof.
    intros k m m' h; induction h as [|y r IH]; simpl; intros Hnd Hin; auto.
    inversion Hnd; subst.
    destruct (keqb (fst y) k && mode_eqb (snd y) m) eqn:E.
    - apply andb_true_iff in E as [Hk _]. apply keqb_eq in Hk. intros Hin'.
      apply H1. rewrite Hk. change k with (fst (k, m')). apply in_map; auto.
    - destruct Hin as [-> | Hin].
      + simpl in E. rewrite keqb_refl in E. simpl in E.
        assert (mode_eqb m m = true) by (apply mode_eqb_eq; reflexivity). congruence.
      + intros [Heq | Hin'].
        * subst y. simpl in *. apply H1. change k with (fst (k, m)). apply in_map; auto.
        * revert Hin'. apply IH; auto.
  Qed.

  Lemma next_is_wend_app : forall k f p q, next_is_wend keqb k f p = true -> next_is_wend keqb k f (p ++ q) = true.
  Proof. intros k f [|[] r] q; simpl; auto; discriminate. Qed.

  Lemma next_is_wend_inv : forall k f p, next_is_wend keqb k f p = true -> exists v r, p = GWEnd k f v :: r.
  Proof.
    intros k f [|[] r]; simpl; try discriminate. intros H.
    apply andb_true_iff in H as [Hk Hf]. apply keqb_eq in Hk. apply String.eqb_eq in Hf. subst; eauto.
  Qed.

  Lemma wl_app : forall p q h h', wl keqb h p = Some h' -> wl keqb h (p ++ q) = wl keqb h' q.
  Proof.
    induction p as [|a r IH]; simpl; intros q h h' H.
    - inversion H; reflexivity.
    - destruct a; simpl in *.
      + destruct (holds_obj keqb k h); try discriminate; auto.
      + destruct (holds keqb k m h); try discriminate; auto.
      + destruct (holds_obj keqb k h); try discriminate; auto.
      + destruct (holds keqb k MW h); simpl in *; try discriminate.
        destruct (next_is_wend keqb k f r) eqn:E; try discriminate.
        rewrite (next_is_wend_app _ _ _ q E); auto.
      + destruct (holds keqb k MW h); try discriminate; auto.
  Qed.
End DisciplineFacts.

(** renaming objects injectively preserves the verdict of the checker *)
Section Renaming.
  Context {K K' : Type} (keqb : K -> K -> bool) (keqb' : K' -> K' -> bool) (rho : K -> K').
  Hypothesis rho_inj : forall a b, keqb' (rho a) (rho b) = keqb a b.

  Definition hmap (h : list (K * mode)) : list (K' * mode) := map (fun x => (rho (fst x), snd x)) h.

  Lemma holds_obj_hmap : forall k h, holds_obj keqb' (rho k) (hmap h) = holds_obj keqb k h.
  Proof. intros k h; induction h as [|x r IH]; simpl; auto. rewrite rho_inj, IH; reflexivity. Qed.
  Lemma holds_hmap : forall k m h, holds keqb' (rho k) m (hmap h) = holds keqb k m h.
  Proof. intros k m h; induction h as [|x r IH]; simpl; auto. rewrite rho_inj, IH; reflexivity. Qed.
  Lemma remove1_hmap : forall k m h, remove1 keqb' (rho k) m (hmap h) = hmap (remove1 keqb k m h).
  Proof.
    intros k m h; induction h as [|x r IH]; simpl; auto. rewrite rho_inj.
    destruct (keqb (fst x) k && mode_eqb (snd x) m); simpl; auto. rewrite IH; reflexivity.
  Qed.
  Lemma next_is_wend_gmap : forall k f v p,
    next_is_wend keqb' (rho k) f (map (gmap rho v) p) = next_is_wend keqb k f p.
  Proof. intros k f v [|[] r]; simpl; auto. rewrite rho_inj; reflexivity. Qed.

  Lemma wl_rename : forall v p h h', wl keqb h p = Some h' ->
    wl keqb' (hmap h) (map (gmap rho v) p) = Some (hmap h').
  Proof.
    induction p as [|a r IH]; simpl; intros h h' H.
    - inversion H; reflexivity.
    - destruct a; simpl in *.
      + rewrite holds_obj_hmap. destruct (holds_obj keqb k h); try discriminate.
        apply (IH ((k, m) :: h)); auto.
      + rewrite holds_hmap. destruct (holds keqb k m h); try discriminate.
        rewrite remove1_hmap. apply IH; auto.
      + rewrite holds_obj_hmap. destruct (holds_obj keqb k h); try discriminate. apply IH; auto.
      + rewrite holds_hmap, next_is_wend_gmap.
        destruct (holds keqb k MW h && next_is_wend keqb k f r); try discriminate. apply IH; auto.
      + rewrite holds_hmap. destruct (holds keqb k MW h); try discriminate. apply IH; auto.
  Qed.
End Renaming.

(* ------------------------------------------------------------------------------------------ *)
(** * From the checker's verdict on the table to the threads' programs *)

Lemma path_ok_nil : path_ok [] = true.
Proof. reflexivity. Qed.

Lemma lookup_path_ok : forall tbl T n k, well_locked tbl = true -> path_ok (lookup_path (flat_table tbl) T n k) = true.
Proof.
  intros tbl T n k Hwl. unfold lookup_path.
  destruct (find _ (flat_table tbl)) as [e|] eqn:Hf; [|apply path_ok_nil].
  apply find_some in Hf as [Hin _]. unfold flat_table in Hin. apply in_map_iff in Hin as (m & <- & Hm).
  unfold well_locked in Hwl. rewrite forallb_forall in Hwl. specialize (Hwl m Hm).
  unfold method_ok in Hwl. unfold flat_method; simpl.
  destruct (expand_method tbl m) as [ps|]; try discriminate.
  destruct (nth_in_or_default k ps []) as [Hin | ->]; [|apply path_ok_nil].
  rewrite forallb_forall in Hwl. apply Hwl; auto.
Qed.

Lemma rho_inj : forall c, call_ok c = true -> forall a b, obj_eqb (rho c a) (rho c b) = oref_eqb a b.
Proof.
  intros c Hok a b. unfold call_ok in Hok. apply negb_true_iff in Hok.
  destruct a, b; simpl; try apply obj_eqb_refl; auto.
  destruct (obj_eqb (rho c Elem) (rho c Self)) eqn:E; auto.
  apply obj_eqb_eq in E. rewrite E, obj_eqb_refl in Hok. discriminate.
Qed.

Lemma inst_wl : forall tbl c, well_locked tbl = true -> call_ok c = true ->
  wl obj_eqb [] (inst (flat_table tbl) c) = Some [].
Proof.
  intros tbl c Hwl Hok. unfold inst.
  pose proof (lookup_path_ok tbl (c_ty c) (c_name c) (c_path c) Hwl) as Hp.
  unfold path_ok in Hp.
  destruct (wl oref_eqb [] (lookup_path (flat_table tbl) (c_ty c) (c_name c) (c_path c))) as [[|x r]|] eqn:E; try discriminate.
  apply (wl_rename oref_eqb obj_eqb (rho c) (rho_inj c Hok) (c_val c)) in E. exact E.
Qed.

Lemma call_progs_wl : forall tbl cs, well_locked tbl = true -> forallb call_ok cs = true ->
  wl obj_eqb [] (flat_map (inst (flat_table tbl)) cs) = Some [].
Proof.
  intros tbl cs Hwl; induction cs as [|c r IH]; simpl; intros Hok; auto.
  apply andb_true_iff in Hok as [Hc Hr].
  rewrite (wl_app obj_eqb _ _ [] [] (inst_wl tbl c Hwl Hc)). auto.
Qed.

(* ------------------------------------------------------------------------------------------ *)
(** * The invariant of well-locked programs *)

Lemma upd_thr_same : forall f t x, upd_thr f t x t = x.
Proof. intros; unfold upd_thr; rewrite Nat.eqb_refl; reflexivity. Qed.
Lemma upd_thr_other : forall f t x t', t' <> t -> upd_thr f t x t' = f t'.
Proof. intros; unfold upd_thr. destruct (Nat.eqb_spec t' t); congruence. Qed.
Lemma upd_lk_same : forall f o x, upd_lk f o x o = x.
Proof. intros; unfold upd_lk; rewrite obj_eqb_refl; reflexivity. Qed.
Lemma upd_lk_other : forall f o x o', o' <> o -> upd_lk f o x o' = f o'.
Proof. intros; unfold upd_lk; rewrite obj_eqb_neq; auto. Qed.
Lemma upd_loc_same : forall A (f : loc -> A) l x, upd_loc f l x l = x.
Proof. intros; unfold upd_loc; rewrite loc_eqb_refl; reflexivity. Qed.
Lemma upd_loc_other : forall A (f : loc -> A) l x l', l' <> l -> upd_loc f l x l' = f l'.
Proof. intros; unfold upd_loc; rewrite loc_eqb_neq; auto. Qed.

Lemma remove_tid_other : forall t t' l, t' <> t -> In t' l -> In t' (remove_tid t l).
Proof.
  intros t t' l Hne; induction l as [|x r IH]; simpl; auto.
  intros Hin. destruct (Nat.eqb_spec x t) as [->|Hx].
  - destruct Hin as [E|Hin]; [congruence|auto].
  - destruct Hin as [->|Hin]; simpl; auto.
Qed.
Lemma remove_all_tid_In : forall t t' l, In t' (remove_all_tid t l) <-> In t' l /\ t' <> t.
Proof.
  intros; unfold remove_all_tid; rewrite filter_In, negb_true_iff, Nat.eqb_neq; tauto.
Qed.
Lemma existsb_eqb_In : forall t l, existsb (Nat.eqb t) l = true <-> In t l.
Proof.
  intros; rewrite existsb_exists; split.
  - intros (x & Hin & E); apply Nat.eqb_eq in E; subst; auto.
  - intros; exists t; split; auto; apply Nat.eqb_refl.
Qed.

Section Invariant.
  Variable mem0 : loc -> value.

  Record Inv (s : state) : Prop := mkInv {
    inv_wl : forall t, wl obj_eqb (held (thr s t)) (prog (thr s t)) = Some [];
    inv_w : forall t o, In (o, MW) (held (thr s t)) -> lw (lk s o) = Some t;
    inv_r : forall t o, In (o, MR) (held (thr s t)) -> lw (lk s o) = None /\ In t (lr (lk s o));
    inv_nd : forall t, NoDup (map fst (held (thr s t)));
    inv_wr : forall l t, In t (cwr (mem s l)) -> exists v r, prog (thr s t) = GWEnd (fst l) (snd l) v :: r;
    inv_val : forall l, cval (mem s l) = hd (mem0 l) (written s l)
  }.

  (** two threads cannot hold the same mutex when one of them holds it as a writer *)
  Lemma exclusion : forall s t1 t2 o m, Inv s ->
    In (o, MW) (held (thr s t1)) -> In (o, m) (held (thr s t2)) -> t1 = t2.
  Proof.
    intros s t1 t2 o m HI H1 H2. apply (inv_w s HI) in H1. destruct m.
    - apply (inv_r s HI) in H2 as [H2 _]. congruence.
    - apply (inv_w s HI) in H2. congruence.
  Qed.

  Lemma held_of_head : forall s t a rest, Inv s -> prog (thr s t) = a :: rest ->
    match a with
    | GRead o f => exists m, In (o, m) (held (thr s t))
    | GWBegin o f | GWEnd o f _ => In (o, MW) (held (thr s t))
    | _ => True
    end.
  Proof.
    intros s t a rest HI Hp. pose proof (inv_wl s HI t) as Hwl. rewrite Hp in Hwl.
    destruct a; simpl in Hwl; auto.
    - destruct (holds_obj obj_eqb k (held (thr s t))) eqn:E; try discriminate.
      apply (holds_obj_In obj_eqb obj_eqb_eq) in E; auto.
    - destruct (holds obj_eqb k MW (held (thr s t))) eqn:E; simpl in Hwl; try discriminate.
      apply (holds_In obj_eqb obj_eqb_eq) in E; auto.
    - destruct (holds obj_eqb k MW (held (thr s t))) eqn:E; simpl in Hwl; try discriminate.
      apply (holds_In obj_eqb obj_eqb_eq) in E; auto.
  Qed.

  (** nobody is in the middle of a write to a location whose mutex thread [t] holds, except [t] itself *)
  Lemma no_write_in_flight : forall s t o f m t', Inv s ->
    In (o, m) (held (thr s t)) -> In t' (cwr (mem s (o, f))) -> t' = t.
  Proof.
    intros s t o f m t' HI Hh Hin. apply (inv_wr s HI) in Hin as (v & r & Hp). simpl in Hp.
    pose proof (held_of_head s t' _ _ HI Hp) as Hw. simpl in Hw.
    eapply exclusion; eauto.
  Qed.

  Lemma not_writing : forall s t a rest l, Inv s -> prog (thr s t) = a :: rest ->
    (forall o f v, a <> GWEnd o f v) -> ~ In t (cwr (mem s l)).
  Proof.
    intros s t a rest l HI Hp Hne Hin. apply (inv_wr s HI) in Hin as (v & r & Hp').
    rewrite Hp in Hp'. inversion Hp'. eapply Hne; eauto.
  Qed.

  Lemma init_inv : forall progs, (forall t, wl obj_eqb [] (progs t) = Some []) -> Inv (init_state mem0 progs).
  Proof.
    intros progs H. constructor; simpl; auto; try contradiction.
    intros; constructor.
  Qed.

  Lemma step_inv : forall s t g s', Inv s -> step s t g = Some s' -> Inv s'.
  Proof.
    intros s t g s' HI Hs. unfold step in Hs.
    destruct (prog (thr s t)) as [|a rest] eqn:Hp; try discriminate.
    pose proof (inv_wl s HI t) as Hwl. rewrite Hp in Hwl.
    assert (Hother : forall l, (forall o f v, a <> GWEnd o f v) -> ~ In t (cwr (mem s l)))
      by (intros; eapply not_writing; eauto).
    destruct a as [o m|o m|o f|o f|o f v]; simpl in Hwl.
    - (* acquire *)
      destruct (holds_obj obj_eqb o (held (thr s t))) eqn:Hh; try discriminate.
      assert (Hno : forall m', ~ In (o, m') (held (thr s t))).
      { intros m' Hin. assert (holds_obj obj_eqb o (held (thr s t)) = true) by (apply (holds_obj_In obj_eqb obj_eqb_eq); eauto). congruence. }
      destruct m.
      + (* RLock *)
        destruct (lw (lk s o)) eqn:Hlw; try discriminate. inversion Hs; subst s'; clear Hs.
        constructor; simpl.
        * intros t'. destruct (Nat.eq_dec t' t) as [->|Hne]; [rewrite upd_thr_same; simpl; auto | rewrite upd_thr_other; auto; apply HI].
        * intros t' o' Hin. destruct (Nat.eq_dec t' t) as [->|Hne].
          -- rewrite upd_thr_same in Hin; simpl in Hin. destruct Hin as [Heq|Hin]; [inversion Heq|].
             pose proof (inv_w s HI t o' Hin) as Hw.
             destruct (obj_eq_dec o' o) as [->|Hno']; [congruence|]. rewrite upd_lk_other; auto.
          -- rewrite upd_thr_other in Hin; auto. pose proof (inv_w s HI t' o' Hin) as Hw.
             destruct (obj_eq_dec o' o) as [->|Hno']; [congruence|]. rewrite upd_lk_other; auto.
        * intros t' o' Hin. destruct (Nat.eq_dec t' t) as [->|Hne].
          -- rewrite upd_thr_same in Hin; simpl in Hin. destruct Hin as [Heq|Hin].
             ++ inversion Heq; subst o'. rewrite upd_lk_same; simpl; auto.
             ++ destruct (obj_eq_dec o' o) as [->|Hno']; [exfalso; eapply Hno; eauto|].
                rewrite upd_lk_other; auto. apply (inv_r s HI); auto.
          -- rewrite upd_thr_other in Hin; auto. pose proof (inv_r s HI t' o' Hin) as [Hw Hr].
             destruct (obj_eq_dec o' o) as [->|Hno']; [rewrite upd_lk_same; simpl; auto | rewrite upd_lk_other; auto].
        * intros t'. destruct (Nat.eq_dec t' t) as [->|Hne]; [rewrite upd_thr_same; simpl | rewrite upd_thr_other; auto; apply HI].
          constructor; [apply (holds_obj_notin obj_eqb obj_eqb_eq); auto | apply HI].
        * intros l t' Hin. destruct (Nat.eq_dec t' t) as [->|Hne]; [exfalso; eapply Hother; eauto; discriminate | rewrite upd_thr_other; auto; apply HI; auto].
        * apply HI.
      + (* Lock *)
        destruct (lw (lk s o)) eqn:Hlw; try discriminate.
        destruct (lr (lk s o)) eqn:Hlr; try discriminate. inversion Hs; subst s'; clear Hs.
        constructor; simpl.
        * intros t'. destruct (Nat.eq_dec t' t) as [->|Hne]; [rewrite upd_thr_same; simpl; auto | rewrite upd_thr_other; auto; apply HI].
        * intros t' o' Hin. destruct (Nat.eq_dec t' t) as [->|Hne].
          -- rewrite upd_thr_same in Hin; simpl in Hin. destruct Hin as [Heq|Hin].
             ++ inversion Heq; subst o'. rewrite upd_lk_same; reflexivity.
             ++ destruct (obj_eq_dec o' o) as [->|Hno']; [exfalso; eapply Hno; eauto|].
                rewrite upd_lk_other; auto. apply (inv_w s HI); auto.
          -- rewrite upd_thr_other in Hin; auto. pose proof (inv_w s HI t' o' Hin) as Hw.
             destruct (obj_eq_dec o' o) as [->|Hno']; [congruence|]. rewrite upd_lk_other; auto.
        * intros t' o' Hin. destruct (Nat.eq_dec t' t) as [->|Hne].
          -- rewrite upd_thr_same in Hin; simpl in Hin. destruct Hin as [Heq|Hin]; [inversion Heq|].
             destruct (obj_eq_dec o' o) as [->|Hno']; [exfalso; eapply Hno; eauto|].
             rewrite upd_lk_other; auto. apply (inv_r s HI); auto.
          -- rewrite upd_thr_other in Hin; auto. pose proof (inv_r s HI t' o' Hin) as [Hw Hr].
             destruct (obj_eq_dec o' o) as [->|Hno']; [rewrite Hlr in Hr; contradiction | rewrite upd_lk_other; auto].
        * intros t'. destruct (Nat.eq_dec t' t) as [->|Hne]; [rewrite upd_thr_same; simpl | rewrite upd_thr_other; auto; apply HI].
          constructor; [apply (holds_obj_notin obj_eqb obj_eqb_eq); auto | apply HI].
        * intros l t' Hin. destruct (Nat.eq_dec t' t) as [->|Hne]; [exfalso; eapply Hother; eauto; discriminate | rewrite upd_thr_other; auto; apply HI; auto].
        * apply HI.
    - (* release *)
      destruct (holds obj_eqb o m (held (thr s t))) eqn:Hh; try discriminate.
      apply (holds_In obj_eqb obj_eqb_eq) in Hh.
      pose proof (inv_nd s HI t) as Hnd.
      destruct m.
      + (* RUnlock *)
        destruct (existsb (Nat.eqb t) (lr (lk s o))) eqn:Hex; try discriminate.
        inversion Hs; subst s'; clear Hs.
        constructor; simpl.
        * intros t'. destruct (Nat.eq_dec t' t) as [->|Hne]; [rewrite upd_thr_same; simpl; auto | rewrite upd_thr_other; auto; apply HI].
        * intros t' o' Hin. destruct (Nat.eq_dec t' t) as [->|Hne].
          -- rewrite upd_thr_same in Hin; simpl in Hin. apply remove1_subset in Hin.
             pose proof (inv_w s HI t o' Hin) as Hw.
             destruct (obj_eq_dec o' o) as [->|Hno']; [rewrite upd_lk_same; simpl; auto | rewrite upd_lk_other; auto].
          -- rewrite upd_thr_other in Hin; auto. pose proof (inv_w s HI t' o' Hin) as Hw.
             destruct (obj_eq_dec o' o) as [->|Hno']; [rewrite upd_lk_same; simpl; auto | rewrite upd_lk_other; auto].
        * intros t' o' Hin. destruct (Nat.eq_dec t' t) as [->|Hne].
          -- rewrite upd_thr_same in Hin; simpl in Hin.
             destruct (obj_eq_dec o' o) as [->|Hno'].
             ++ exfalso. revert Hin. apply (remove1_gone obj_eqb obj_eqb_eq); auto.
             ++ apply remove1_subset in Hin. rewrite upd_lk_other; auto. apply (inv_r s HI); auto.
          -- rewrite upd_thr_other in Hin; auto. pose proof (inv_r s HI t' o' Hin) as [Hw Hr].
             destruct (obj_eq_dec o' o) as [->|Hno']; [rewrite upd_lk_same; simpl; split; auto; apply remove_tid_other; auto | rewrite upd_lk_other; auto].
        * intros t'. destruct (Nat.eq_dec t' t) as [->|Hne]; [rewrite upd_thr_same; simpl; apply remove1_nodup; auto | rewrite upd_thr_other; auto; apply HI].
        * intros l t' Hin. destruct (Nat.eq_dec t' t) as [->|Hne]; [exfalso; eapply Hother; eauto; discriminate | rewrite upd_thr_other; auto; apply HI; auto].
        * apply HI.
      + (* Unlock *)
        destruct (lw (lk s o)) as [tw|] eqn:Hlw; try discriminate.
        destruct (Nat.eqb_spec tw t) as [->|]; try discriminate.
        inversion Hs; subst s'; clear Hs.
        constructor; simpl.
        * intros t'. destruct (Nat.eq_dec t' t) as [->|Hne]; [rewrite upd_thr_same; simpl; auto | rewrite upd_thr_other; auto; apply HI].
        * intros t' o' Hin. destruct (Nat.eq_dec t' t) as [->|Hne].
          -- rewrite upd_thr_same in Hin; simpl in Hin.
             destruct (obj_eq_dec o' o) as [->|Hno'].
             ++ exfalso. revert Hin. apply (remove1_gone obj_eqb obj_eqb_eq); auto.
             ++ apply remove1_subset in Hin. rewrite upd_lk_other; auto. apply (inv_w s HI); auto.
          -- rewrite upd_thr_other in Hin; auto. pose proof (inv_w s HI t' o' Hin) as Hw.
             destruct (obj_eq_dec o' o) as [->|Hno']; [congruence | rewrite upd_lk_other; auto].
        * intros t' o' Hin. destruct (Nat.eq_dec t' t) as [->|Hne].
          -- rewrite upd_thr_same in Hin; simpl in Hin. apply remove1_subset in Hin.
             pose proof (inv_r s HI t o' Hin) as [Hw Hr].
             destruct (obj_eq_dec o' o) as [->|Hno']; [congruence | rewrite upd_lk_other; auto].
          -- rewrite upd_thr_other in Hin; auto. pose proof (inv_r s HI t' o' Hin) as [Hw Hr].
             destruct (obj_eq_dec o' o) as [->|Hno']; [congruence | rewrite upd_lk_other; auto].
        * intros t'. destruct (Nat.eq_dec t' t) as [->|Hne]; [rewrite upd_thr_same; simpl; apply remove1_nodup; auto | rewrite upd_thr_other; auto; apply HI].
        * intros l t' Hin. destruct (Nat.eq_dec t' t) as [->|Hne]; [exfalso; eapply Hother; eauto; discriminate | rewrite upd_thr_other; auto; apply HI; auto].
        * apply HI.
    - (* read *)
      destruct (holds_obj obj_eqb o (held (thr s t))) eqn:Hh; try discriminate.
      inversion Hs; subst s'; clear Hs.
      constructor; simpl.
      * intros t'. destruct (Nat.eq_dec t' t) as [->|Hne]; [rewrite upd_thr_same; simpl; auto | rewrite upd_thr_other; auto; apply HI].
      * intros t' o' Hin. destruct (Nat.eq_dec t' t) as [->|Hne]; [rewrite upd_thr_same in Hin | rewrite upd_thr_other in Hin; auto]; apply (inv_w s HI) in Hin; auto.
      * intros t' o' Hin. destruct (Nat.eq_dec t' t) as [->|Hne]; [rewrite upd_thr_same in Hin | rewrite upd_thr_other in Hin; auto]; apply (inv_r s HI) in Hin; auto.
      * intros t'. destruct (Nat.eq_dec t' t) as [->|Hne]; [rewrite upd_thr_same; simpl | rewrite upd_thr_other; auto]; apply HI.
      * intros l t' Hin. destruct (Nat.eq_dec t' t) as [->|Hne]; [exfalso; eapply Hother; eauto; discriminate | rewrite upd_thr_other; auto; apply HI; auto].
      * apply HI.
    - (* begin of a write *)
      destruct (holds obj_eqb o MW (held (thr s t))) eqn:Hh; simpl in Hwl; try discriminate.
      destruct (next_is_wend obj_eqb o f rest) eqn:Hnx; try discriminate.
      apply (next_is_wend_inv obj_eqb obj_eqb_eq) in Hnx as (v & r & ->).
      inversion Hs; subst s'; clear Hs.
      constructor; simpl.
      * intros t'. destruct (Nat.eq_dec t' t) as [->|Hne]; [rewrite upd_thr_same; simpl; auto | rewrite upd_thr_other; auto; apply HI].
      * intros t' o' Hin. destruct (Nat.eq_dec t' t) as [->|Hne]; [rewrite upd_thr_same in Hin | rewrite upd_thr_other in Hin; auto]; apply (inv_w s HI) in Hin; auto.
      * intros t' o' Hin. destruct (Nat.eq_dec t' t) as [->|Hne]; [rewrite upd_thr_same in Hin | rewrite upd_thr_other in Hin; auto]; apply (inv_r s HI) in Hin; auto.
      * intros t'. destruct (Nat.eq_dec t' t) as [->|Hne]; [rewrite upd_thr_same; simpl | rewrite upd_thr_other; auto]; apply HI.
      * intros l t' Hin. destruct (loc_eq_dec l (o, f)) as [->|Hnl].
        -- rewrite upd_loc_same in Hin; simpl in Hin.
           destruct (Nat.eq_dec t' t) as [->|Hne]; [rewrite upd_thr_same; simpl; eauto|].
           destruct Hin as [Heq|Hin]; [congruence|]. rewrite upd_thr_other; auto. apply (inv_wr s HI (o, f)); auto.
        -- rewrite upd_loc_other in Hin; auto.
           destruct (Nat.eq_dec t' t) as [->|Hne]; [exfalso; eapply Hother; eauto; discriminate | rewrite upd_thr_other; auto; apply HI; auto].
      * intros l. destruct (loc_eq_dec l (o, f)) as [->|Hnl]; [rewrite upd_loc_same; simpl | rewrite upd_loc_other; auto]; apply HI.
    - (* end of a write *)
      destruct (holds obj_eqb o MW (held (thr s t))) eqn:Hh; try discriminate.
      apply (holds_In obj_eqb obj_eqb_eq) in Hh.
      inversion Hs; subst s'; clear Hs.
      constructor; simpl.
      * intros t'. destruct (Nat.eq_dec t' t) as [->|Hne]; [rewrite upd_thr_same; simpl; auto | rewrite upd_thr_other; auto; apply HI].
      * intros t' o' Hin. destruct (Nat.eq_dec t' t) as [->|Hne]; [rewrite upd_thr_same in Hin | rewrite upd_thr_other in Hin; auto]; apply (inv_w s HI) in Hin; auto.
      * intros t' o' Hin. destruct (Nat.eq_dec t' t) as [->|Hne]; [rewrite upd_thr_same in Hin | rewrite upd_thr_other in Hin; auto]; apply (inv_r s HI) in Hin; auto.
      * intros t'. destruct (Nat.eq_dec t' t) as [->|Hne]; [rewrite upd_thr_same; simpl | rewrite upd_thr_other; auto]; apply HI.
      * intros l t' Hin. destruct (loc_eq_dec l (o, f)) as [->|Hnl].
        -- rewrite upd_loc_same in Hin; simpl in Hin. apply remove_all_tid_In in Hin as [Hin Hne].
           rewrite upd_thr_other; auto. apply (inv_wr s HI (o, f)); auto.
        -- rewrite upd_loc_other in Hin; auto.
           destruct (Nat.eq_dec t' t) as [->|Hne]; [|rewrite upd_thr_other; auto; apply HI; auto].
           exfalso. apply (inv_wr s HI) in Hin as (v' & r' & Hp'). rewrite Hp in Hp'. inversion Hp'; subst.
           apply Hnl. destruct l; reflexivity.
      * intros l. destruct (loc_eq_dec l (o, f)) as [->|Hnl]; [|rewrite !upd_loc_other; auto; apply HI].
        rewrite !upd_loc_same; simpl.
        assert (Hclean : forallb (Nat.eqb t) (cwr (mem s (o, f))) = true).
        { apply forallb_forall. intros t' Hin. apply Nat.eqb_eq. symmetry. eapply no_write_in_flight; eauto. }
        rewrite Hclean; reflexivity.
  Qed.

  Lemma reachable_inv : forall s0 s, Inv s0 -> reachable s0 s -> Inv s.
  Proof. intros s0 s H0 Hr; induction Hr; auto. eapply step_inv; eauto. Qed.
End Invariant.

(* ------------------------------------------------------------------------------------------ *)
(** * Race freedom and reads-see-writes for well-locked programs *)

Lemma inv_not_racy : forall mem0 s, Inv mem0 s -> ~ racy s.
Proof.
  intros mem0 s HI (t1 & t2 & l & w1 & w2 & Hne & (a1 & r1 & Hp1 & Ha1) & (a2 & r2 & Hp2 & Ha2) & Hw).
  pose proof (held_of_head mem0 s t1 _ _ HI Hp1) as H1.
  pose proof (held_of_head mem0 s t2 _ _ HI Hp2) as H2.
  destruct l as [o f].
  assert (Hany : forall t a r w, prog (thr s t) = a :: r -> access a = Some ((o, f), w) ->
            match a with GRead o f => exists m, In (o, m) (held (thr s t)) | GWBegin o f | GWEnd o f _ => In (o, MW) (held (thr s t)) | _ => True end ->
            (exists m, In (o, m) (held (thr s t))) /\ (w = true -> In (o, MW) (held (thr s t)))).
  { intros t a r w _ Ha Hh. destruct a; simpl in Ha; inversion Ha; subst; split; eauto; try discriminate. }
  destruct (Hany t1 a1 r1 w1 Hp1 Ha1 H1) as [(m1 & Hm1) Hw1].
  destruct (Hany t2 a2 r2 w2 Hp2 Ha2 H2) as [(m2 & Hm2) Hw2].
  destruct Hw as [-> | ->].
  - apply Hne. eapply exclusion; eauto.
  - apply Hne. symmetry. eapply exclusion; eauto.
Qed.

Theorem well_locked_race_free_proof : forall tbl, well_locked tbl = true ->
  forall (mem0 : loc -> value) (P : tid -> list call), (forall t, forallb call_ok (P t) = true) ->
  forall s, reachable (init_state mem0 (call_progs tbl P)) s -> ~ racy s.
Proof.
  intros tbl Hwl mem0 P Hok s Hr. apply (inv_not_racy mem0).
  eapply reachable_inv; eauto. apply init_inv. intros t. apply call_progs_wl; auto.
Qed.

(** a read performed by a well-locked program returns the newest completed write (or the
    initial value when there is none) — never the arbitrary value [g] *)
Lemma read_sees_newest : forall mem0 s t g s' o f rest, Inv mem0 s ->
  prog (thr s t) = GRead o f :: rest -> step s t g = Some s' ->
  log (thr s' t) = ((o, f), newest mem0 s (o, f)) :: log (thr s t).
Proof.
  intros mem0 s t g s' o f rest HI Hp Hs. unfold step in Hs. rewrite Hp in Hs.
  inversion Hs; subst s'; clear Hs. simpl. rewrite upd_thr_same; simpl.
  pose proof (held_of_head mem0 s t _ _ HI Hp) as (m & Hm). simpl in Hm.
  destruct (cwr (mem s (o, f))) as [|t' r] eqn:Hc.
  - unfold newest. rewrite (inv_val mem0 s HI). reflexivity.
  - exfalso. assert (Hin : In t' (cwr (mem s (o, f)))) by (rewrite Hc; left; reflexivity).
    pose proof (no_write_in_flight mem0 s t o f m t' HI Hm Hin) as ->.
    eapply (not_writing mem0 s t); eauto. discriminate.
Qed.

Lemma step_written_mono : forall s t g s' l v, step s t g = Some s' -> In v (written s l) -> In v (written s' l).
Proof.
  intros s t g s' l v Hs Hin. unfold step in Hs.
  destruct (prog (thr s t)) as [|a rest]; try discriminate.
  destruct a as [o m|o m|o f|o f|o f v'].
  - destruct m; [destruct (lw (lk s o)) | destruct (lw (lk s o)); [|destruct (lr (lk s o))]]; inversion Hs; subst; auto.
  - destruct m; [destruct (existsb _ _) | destruct (lw (lk s o)) as [tw|]; [destruct (tw =? t)%nat|]]; inversion Hs; subst; auto.
  - inversion Hs; subst; auto.
  - inversion Hs; subst; auto.
  - inversion Hs; subst; simpl. destruct (loc_eq_dec l (o, f)) as [->|Hn]; [rewrite upd_loc_same; right; auto | rewrite upd_loc_other; auto].
Qed.

Lemma step_log : forall s t g s' t', step s t g = Some s' ->
  log (thr s' t') = log (thr s t') \/
  (t' = t /\ exists o f rest, prog (thr s t) = GRead o f :: rest /\ exists v, log (thr s' t) = ((o, f), v) :: log (thr s t)).
Proof.
  intros s t g s' t' Hs. pose proof Hs as Hs0. unfold step in Hs.
  destruct (prog (thr s t)) as [|a rest] eqn:Hp; try discriminate.
  destruct (Nat.eq_dec t' t) as [->|Hne].
  2:{ left. destruct a as [o m|o m|o f|o f|o f v'].
      - destruct m; [destruct (lw (lk s o)) | destruct (lw (lk s o)); [|destruct (lr (lk s o))]]; inversion Hs; subst; simpl; rewrite ?upd_thr_other; auto.
      - destruct m; [destruct (existsb _ _) | destruct (lw (lk s o)) as [tw|]; [destruct (tw =? t)%nat|]]; inversion Hs; subst; simpl; rewrite ?upd_thr_other; auto.
      - inversion Hs; subst; simpl; rewrite upd_thr_other; auto.
      - inversion Hs; subst; simpl; rewrite upd_thr_other; auto.
      - inversion Hs; subst; simpl; rewrite upd_thr_other; auto. }
  destruct a as [o m|o m|o f|o f|o f v'].
  - left. destruct m; [destruct (lw (lk s o)) | destruct (lw (lk s o)); [|destruct (lr (lk s o))]]; inversion Hs; subst; simpl; rewrite ?upd_thr_same; auto.
  - left. destruct m; [destruct (existsb _ _) | destruct (lw (lk s o)) as [tw|]; [destruct (tw =? t)%nat|]]; inversion Hs; subst; simpl; rewrite ?upd_thr_same; auto.
  - right. split; auto. exists o, f, rest. split; auto. inversion Hs; subst; simpl. rewrite upd_thr_same; simpl. eauto.
  - left. inversion Hs; subst; simpl; rewrite upd_thr_same; auto.
  - left. inversion Hs; subst; simpl; rewrite upd_thr_same; auto.
Qed.

Lemma hd_in : forall (d : value) l, hd d l = d \/ In (hd d l) l.
Proof. intros d [|x r]; simpl; auto. Qed.

Lemma reads_from_writes_inv : forall mem0 s0 s, Inv mem0 s0 -> reads_from_writes mem0 s0 ->
  reachable s0 s -> reads_from_writes mem0 s.
Proof.
  intros mem0 s0 s H0 Hrw0 Hr. induction Hr as [|s t g s' Hr IH Hs]; auto.
  pose proof (reachable_inv mem0 s0 s H0 Hr) as HI.
  intros t' l v Hin.
  destruct (step_log s t g s' t' Hs) as [Heq | (-> & o & f & rest & Hp & v' & Hlog)].
  - rewrite Heq in Hin. destruct (IH t' l v Hin) as [|Hw]; auto. right. eapply step_written_mono; eauto.
  - rewrite (read_sees_newest mem0 s t g s' o f rest HI Hp Hs) in Hin. destruct Hin as [Heq | Hin].
    + inversion Heq; subst. unfold newest. destruct (hd_in (mem0 (o, f)) (written s (o, f))) as [->|Hh]; auto.
      right. eapply step_written_mono; eauto.
    + destruct (IH t l v Hin) as [|Hw]; auto. right. eapply step_written_mono; eauto.
Qed.

Theorem reads_see_writes_proof : forall tbl, well_locked tbl = true ->
  forall (mem0 : loc -> value) (P : tid -> list call), (forall t, forallb call_ok (P t) = true) ->
  forall s, reachable (init_state mem0 (call_progs tbl P)) s -> reads_from_writes mem0 s.
Proof.
  intros tbl Hwl mem0 P Hok s Hr.
  eapply reads_from_writes_inv; eauto.
  - apply init_inv. intros t. apply call_progs_wl; auto.
  - intros t l v Hin. simpl in Hin. contradiction.
Qed.

(** linearizability of each guarded location: every read step returns the newest completed write *)
Theorem reads_see_newest_proof : forall tbl, well_locked tbl = true ->
  forall (mem0 : loc -> value) (P : tid -> list call), (forall t, forallb call_ok (P t) = true) ->
  forall s, reachable (init_state mem0 (call_progs tbl P)) s ->
  forall t g s' o f rest, prog (thr s t) = GRead o f :: rest -> step s t g = Some s' ->
  log (thr s' t) = ((o, f), newest mem0 s (o, f)) :: log (thr s t).
Proof.
  intros tbl Hwl mem0 P Hok s Hr t g s' o f rest Hp Hs.
  eapply read_sees_newest; eauto. eapply reachable_inv; eauto.
  apply init_inv. intros t0. apply call_progs_wl; auto.
Qed.

Lemma run_reachable : forall sched s s', run s sched = Some s' -> reachable s s'.
Proof.
  intros sched s s' H.
  assert (G : forall s0, reachable s0 s -> reachable s0 s').
  { revert s H. induction sched as [|[t g] r IH]; simpl; intros s H s0 Hr.
    - inversion H; subst; auto.
    - destruct (step s t g) as [s1|] eqn:Hs; try discriminate.
      eapply IH; eauto. eapply reach_step; eauto. }
  apply G. constructor.
Qed.

(* ------------------------------------------------------------------------------------------ *)
(** * Confined lock-free programs (the script engine): race free, and each thread observes
      exactly what it observes when run alone *)

Lemma writable_nil : forall t o f, writable [] [] t o f = true -> o = (TPrivate, t).
Proof.
  intros t [T n] f; unfold writable; simpl. destruct T; simpl; try discriminate.
  intros H; apply Nat.eqb_eq in H; subst; reflexivity.
Qed.
Lemma readable_nil : forall t o f, readable [] [] t o f = true -> o = (TPrivate, t) \/ fst o = TGlobal.
Proof.
  intros t o f H. unfold readable in H. apply orb_true_iff in H as [H|H].
  - left; eapply writable_nil; eauto.
  - right; apply ty_eqb_eq; auto.
Qed.
Lemma readable_private : forall t t' f, readable [] [] t (TPrivate, t') f = true -> t' = t.
Proof. intros t t' f H. apply readable_nil in H as [H|H]; [inversion H; auto | discriminate]. Qed.

Lemma seq_log_ext : forall p m m' acc, (forall l, m l = m' l) -> seq_log m p acc = seq_log m' p acc.
Proof.
  induction p as [|a r IH]; simpl; intros m m' acc H; auto.
  destruct a; auto.
  - rewrite H; auto.
  - apply IH. intros l; unfold upd_loc; destruct (loc_eqb l (k, f)); auto.
Qed.

Lemma seq_log_agree : forall t p m m' acc, confined [] [] t p = true ->
  (forall o f, readable [] [] t o f = true -> m (o, f) = m' (o, f)) -> seq_log m p acc = seq_log m' p acc.
Proof.
  induction p as [|a r IH]; simpl; intros m m' acc Hc H; auto.
  destruct a; try discriminate.
  - apply andb_true_iff in Hc as [Hr Hc]. rewrite (H _ _ Hr). auto.
  - apply andb_true_iff in Hc as [_ Hc]. auto.
  - apply andb_true_iff in Hc as [_ Hc]. apply IH; auto.
    intros o f' Hr. unfold upd_loc. destruct (loc_eqb (o, f') (k, f)); auto.
Qed.

Section Confined.
  Variable mem0 : loc -> value.
  Variable P : tid -> list mact.

  Record EInv (s : state) : Prop := mkEInv {
    e_conf : forall t, confined [] [] t (prog (thr s t)) = true;
    e_wr : forall o f t, In t (cwr (mem s (o, f))) -> o = (TPrivate, t) /\ exists v r, prog (thr s t) = GWEnd o f v :: r;
    e_seq : forall t, seq_log (fun l => cval (mem s l)) (prog (thr s t)) (log (thr s t)) = seq_log mem0 (P t) []
  }.

  Lemma einit_inv : (forall t, confined [] [] t (P t) = true) -> EInv (init_state mem0 P).
  Proof. intros H; constructor; simpl; auto. intros; contradiction. Qed.

  Lemma estep_inv : forall s t g s', EInv s -> step s t g = Some s' -> EInv s'.
  Proof.
    intros s t g s' HI Hs. unfold step in Hs.
    destruct (prog (thr s t)) as [|a rest] eqn:Hp; try discriminate.
    pose proof (e_conf s HI t) as Hc. rewrite Hp in Hc.
    destruct a as [o m|o m|o f|o f|o f v]; simpl in Hc; try discriminate.
    - (* read *)
      apply andb_true_iff in Hc as [Hr Hc].
      assert (Hnil : cwr (mem s (o, f)) = []).
      { destruct (cwr (mem s (o, f))) as [|t' r] eqn:E; auto. exfalso.
        assert (Hin : In t' (cwr (mem s (o, f)))) by (rewrite E; left; reflexivity).
        apply (e_wr s HI) in Hin as (-> & v & r' & Hp').
        apply readable_private in Hr; subst t'. rewrite Hp in Hp'. discriminate. }
      rewrite Hnil in Hs. inversion Hs; subst s'; clear Hs.
      constructor; simpl.
      + intros t'. destruct (Nat.eq_dec t' t) as [->|Hne]; [rewrite upd_thr_same; auto | rewrite upd_thr_other; auto; apply HI].
      + intros o' f' t' Hin. apply (e_wr s HI) in Hin as (-> & v & r & Hp'). split; auto.
        destruct (Nat.eq_dec t' t) as [->|Hne]; [rewrite Hp in Hp'; discriminate | rewrite upd_thr_other; eauto].
      + intros t'. destruct (Nat.eq_dec t' t) as [->|Hne]; [rewrite upd_thr_same; simpl | rewrite upd_thr_other; auto; apply HI].
        rewrite <- (e_seq s HI t), Hp. reflexivity.
    - (* begin of a write *)
      apply andb_true_iff in Hc as [Hc Hc2]. apply andb_true_iff in Hc as [Hw Hnx].
      apply (next_is_wend_inv obj_eqb obj_eqb_eq) in Hnx as (v & r & ->).
      inversion Hs; subst s'; clear Hs.
      assert (Hcv : forall l, cval (upd_loc (mem s) (o, f) (mkCell (cval (mem s (o, f))) (t :: cwr (mem s (o, f)))) l) = cval (mem s l)).
      { intros l. destruct (loc_eq_dec l (o, f)) as [->|Hn]; [rewrite upd_loc_same | rewrite upd_loc_other]; auto. }
      constructor; simpl.
      + intros t'. destruct (Nat.eq_dec t' t) as [->|Hne]; [rewrite upd_thr_same; auto | rewrite upd_thr_other; auto; apply HI].
      + intros o' f' t' Hin. destruct (loc_eq_dec (o', f') (o, f)) as [Heq|Hn].
        * inversion Heq; subst o' f'. rewrite upd_loc_same in Hin; simpl in Hin.
          destruct (Nat.eq_dec t' t) as [->|Hne].
          -- split; [eapply writable_nil; eauto|]. rewrite upd_thr_same; simpl; eauto.
          -- destruct Hin as [E|Hin]; [congruence|]. rewrite upd_thr_other; auto. apply (e_wr s HI); auto.
        * rewrite upd_loc_other in Hin; auto. apply (e_wr s HI) in Hin as (-> & v' & r' & Hp'). split; auto.
          destruct (Nat.eq_dec t' t) as [->|Hne]; [rewrite Hp in Hp'; discriminate | rewrite upd_thr_other; eauto].
      + intros t'. rewrite (seq_log_ext _ _ (fun l => cval (mem s l)) _ Hcv).
        destruct (Nat.eq_dec t' t) as [->|Hne]; [rewrite upd_thr_same; simpl | rewrite upd_thr_other; auto; apply HI].
        rewrite <- (e_seq s HI t), Hp. reflexivity.
    - (* end of a write *)
      apply andb_true_iff in Hc as [Hw Hc]. pose proof (writable_nil _ _ _ Hw) as Ho.
      assert (Hclean : forallb (Nat.eqb t) (cwr (mem s (o, f))) = true).
      { apply forallb_forall. intros t' Hin. apply Nat.eqb_eq.
        apply (e_wr s HI) in Hin as (Ho' & _). rewrite Ho in Ho'. inversion Ho'; auto. }
      rewrite Hclean in Hs. inversion Hs; subst s'; clear Hs.
      assert (Hcv : forall l, cval (upd_loc (mem s) (o, f) (mkCell v (remove_all_tid t (cwr (mem s (o, f))))) l)
                              = upd_loc (fun l => cval (mem s l)) (o, f) v l).
      { intros l. unfold upd_loc. destruct (loc_eqb l (o, f)); auto. }
      constructor; simpl.
      + intros t'. destruct (Nat.eq_dec t' t) as [->|Hne]; [rewrite upd_thr_same; auto | rewrite upd_thr_other; auto; apply HI].
      + intros o' f' t' Hin. destruct (loc_eq_dec (o', f') (o, f)) as [Heq|Hn].
        * inversion Heq; subst o' f'. rewrite upd_loc_same in Hin; simpl in Hin.
          apply remove_all_tid_In in Hin as [Hin Hne]. rewrite upd_thr_other; auto. apply (e_wr s HI); auto.
        * rewrite upd_loc_other in Hin; auto. apply (e_wr s HI) in Hin as (-> & v' & r' & Hp'). split; auto.
          destruct (Nat.eq_dec t' t) as [->|Hne]; [|rewrite upd_thr_other; eauto].
          exfalso. rewrite Hp in Hp'. inversion Hp'; subst. apply Hn; reflexivity.
      + intros t'. rewrite (seq_log_ext _ _ _ _ Hcv).
        destruct (Nat.eq_dec t' t) as [->|Hne].
        * rewrite upd_thr_same; simpl. rewrite <- (e_seq s HI t), Hp. reflexivity.
        * rewrite upd_thr_other; auto. rewrite <- (e_seq s HI t').
          apply (seq_log_agree t'); [apply HI|].
          intros o' f' Hr. unfold upd_loc. destruct (loc_eqb (o', f') (o, f)) eqn:E; auto.
          apply loc_eqb_eq in E. inversion E; subst o' f'. rewrite Ho in Hr.
          apply readable_private in Hr. congruence.
  Qed.

  Lemma ereachable_inv : forall s, EInv (init_state mem0 P) -> reachable (init_state mem0 P) s -> EInv s.
  Proof. intros s H0 Hr; induction Hr; auto. eapply estep_inv; eauto. Qed.

  Lemma einv_not_racy : forall s, EInv s -> ~ racy s.
  Proof.
    intros s HI (t1 & t2 & l & w1 & w2 & Hne & (a1 & r1 & Hp1 & Ha1) & (a2 & r2 & Hp2 & Ha2) & Hw).
    pose proof (e_conf s HI t1) as C1. rewrite Hp1 in C1.
    pose proof (e_conf s HI t2) as C2. rewrite Hp2 in C2.
    destruct l as [o f].
    assert (Hany : forall t a r w, confined [] [] t (a :: r) = true -> access a = Some ((o, f), w) ->
              readable [] [] t o f = true /\ (w = true -> writable [] [] t o f = true)).
    { intros t a r w C Ha. destruct a; simpl in Ha; inversion Ha; subst; simpl in C.
      - apply andb_true_iff in C as [Hr _]. split; auto; discriminate.
      - apply andb_true_iff in C as [C _]. apply andb_true_iff in C as [Hw' _]. unfold readable; rewrite Hw'; auto.
      - apply andb_true_iff in C as [Hw' _]. unfold readable; rewrite Hw'; auto. }
    destruct (Hany _ _ _ _ C1 Ha1) as [R1 W1]. destruct (Hany _ _ _ _ C2 Ha2) as [R2 W2].
    destruct Hw as [-> | ->].
    - pose proof (writable_nil _ _ _ (W1 eq_refl)) as ->. apply readable_private in R2. congruence.
    - pose proof (writable_nil _ _ _ (W2 eq_refl)) as ->. apply readable_private in R1. congruence.
  Qed.
End Confined.

Lemma shares_nothing_nil : forall gl ef fr, shares_nothing gl ef fr = true -> mutated_names gl = [] /\ ef = [].
Proof.
  intros gl ef fr H. unfold shares_nothing in H.
  apply andb_true_iff in H as [H _]. apply andb_true_iff in H as [H _]. apply andb_true_iff in H as [Hg He].
  split; [|destruct ef; auto; discriminate].
  unfold mutated_names. rewrite forallb_forall in Hg.
  assert (Hf : filter g_mutated gl = []).
  { induction gl as [|g r IH]; simpl; auto.
    assert (Hx := Hg g (or_introl eq_refl)). apply andb_true_iff in Hx as [Hm _].
    apply negb_true_iff in Hm. rewrite Hm. apply IH. intros x Hx; apply Hg; right; auto. }
  rewrite Hf; reflexivity.
Qed.

Theorem concurrent_equals_sequential_proof : forall gl ef fr, shares_nothing gl ef fr = true ->
  forall (mem0 : loc -> value) (P : tid -> list mact),
  (forall t, confined (mutated_names gl) ef t (P t) = true) ->
  forall s, reachable (init_state mem0 P) s ->
  ~ racy s /\ forall t, prog (thr s t) = [] -> log (thr s t) = seq_log mem0 (P t) [].
Proof.
  intros gl ef fr Hsn mem0 P Hc s Hr.
  destruct (shares_nothing_nil gl ef fr Hsn) as [Hg He]. rewrite Hg, He in Hc.
  pose proof (ereachable_inv mem0 P s (einit_inv mem0 P Hc) Hr) as HI.
  split; [eapply einv_not_racy; eauto|].
  intros t Hp. pose proof (e_seq mem0 P s HI t) as Hq. rewrite Hp in Hq. exact Hq.
Qed.
