(** opcodeLShift (bscript/interpreter/operations.go), as printed from the Go source, is the branch of [Interp.exec_handler]
    for OP_LSHIFT: for every context and state (data stack of fewer than 2^31 - 16 items, items not longer than 2^48 bytes --
    Go's maxAlloc: the handler allocates the result), the printed
    function applied to the thread fields it uses -- the data stack in Go order, [rev (ds s)], the limits of the stack's number conversion --
    yields the model's outcome (ok with the new stack / script error / panic), and never runs out of fuel. *)
From Coq Require Import List ZArith NArith Bool Lia ZifyN ZifyNat ZifyBool.
From Coq Require Import Strings.Byte.
From GoBT Require Import lib.Bytes lib.GoSem lib.GoInterp gen.Funcs proofs.GenFuncsTac proofs.GenFuncsLoopTac proofs.GenFuncsInterpTac proofs.GenFuncsBytesTac proofs.GenFuncsShiftTac proofs.GenFuncs_stack_PopInt proofs.GenFuncs_stack_PopByteArray proofs.GenFuncs_stack_PushByteArray proofs.GenFuncs_shiftCount.
From GoBT Require model.Interp model.ScriptNum.
Import ListNotations.
Ltac Zify.zify_post_hook ::= Z.div_mod_to_equations.
Local Open Scope Z_scope.

(** the branch of the model this handler is compared with (opcode OP_LSHIFT; proofs/DispatchProofs.v ties the table) *)
Lemma exec_at_opcodeLShift so c p idx s : Interp.p_real p = true -> Interp.p_val p = Interp.OP_LSHIFT ->
  Interp.exec_handler so c p idx s =
  match Interp.ds s with
  | nb :: r =>
      match Interp.pop_num c nb with
      | None => Interp.OErr
      | Some n =>
          if n <? 0 then Interp.OErr
          else match r with
               | x :: r' =>
                   let bits := 8 * Interp.lenZ x in
                   let k := if n <? bits then n else bits in
                   Interp.push (Interp.set_ds s r') (Interp.shl_bytes x (Z.to_nat k))
               | [] => Interp.OErr
               end
      end
  | [] => Interp.OErr
  end.
Proof. intros Hr Hv. unfold Interp.exec_handler. rewrite Hr, Hv. reflexivity. Qed.

(** the byte the loop writes at position [i]: [x[i+bs] << bit | x[i+bs+1] >> (8 - bit)], the second part only when that byte exists *)
Definition shl_at (x : bytes) (bs : nat) (bit : N) (i : nat) : byte :=
  n2b (N.lor (N.shiftl (b2n (nth (bs + i) x x00)) bit mod 256)
             (N.shiftr (match nth_error x (Datatypes.S (bs + i)) with Some y => b2n y | None => 0%N end) (8 - bit))).

Lemma nth_skipn {A} (l : list A) d : forall n i, nth i (skipn n l) d = nth (n + i) l d.
Proof. induction l as [|a l IH]; intros [|n] i; cbn [skipn nth Nat.add]; try reflexivity; [destruct i; reflexivity|apply IH]. Qed.
Lemma nth_error_skipn' {A} (l : list A) : forall n i, nth_error (skipn n l) i = nth_error l (n + i).
Proof. induction l as [|a l IH]; intros [|n] i; cbn [skipn nth_error Nat.add]; try reflexivity; [destruct i; reflexivity|apply IH]. Qed.

Lemma shl_bytes_as_map (x : bytes) (n : nat) : (n / 8 <= length x)%nat ->
  Interp.shl_bytes x n =
  map (shl_at x (n / 8) (N.of_nat (n mod 8))) (seq 0 (length x - n / 8)) ++ repeat_byte (length x - (length x - n / 8)) x00.
Proof.
  intros H. unfold Interp.shl_bytes. cbv zeta. rewrite skipn_length. f_equal.
  apply map_ext. intros i. unfold shl_at. rewrite nth_skipn, nth_error_skipn'. reflexivity.
Qed.

(** decide the conditions of a loop body that are arithmetic facts about positions and the shift *)
Ltac sh_dec :=
  repeat match goal with
  | |- context [if ?c then _ else _] =>
      first [ replace c with true by (symmetry; unfold go_wrap, go_len; lia)
            | replace c with false by (symmetry; unfold go_wrap, go_len; lia) ]; cbv iota
  end.

Lemma skipn_repeat_byte (k n : nat) b : skipn k (repeat_byte n b) = repeat_byte (n - k) b.
Proof. revert k. induction n as [|n IH]; intros [|k]; cbn [skipn repeat_byte Nat.sub]; try reflexivity. apply IH. Qed.

Lemma opcodeLShift_is_model so c p idx s : small (Interp.ds s) -> items_alloc (Interp.ds s) -> Interp.p_real p = true -> Interp.p_val p = Interp.OP_LSHIFT ->
  h_view s (opcodeLShift (Interp.max_numlen c) (Interp.has_flag c Interp.F_MINIMALDATA) (Interp.after_genesis c) (rev (Interp.ds s))) = Some (Interp.exec_handler so c p idx s).
Proof.
  intros Hs Hi Hr Hv. rewrite (exec_at_opcodeLShift so c p idx s Hr Hv).
  destruct s as [d a cd el no ls ea cu]. cbn [Interp.ds Interp.als] in *. h_model.
  go_list_cases d 2%nat; h_alloc; unfold opcodeLShift, sn_lt; stk_run; h_nums; try h_done.
  all: destruct (z <? 0) eqn:Ez; stk_run; try h_done.
  rewrite shiftCount_is_model by (assumption || lia). cbv zeta. stk_run.
  (* the shift count: a natural number [n] not above the number of bits *)
  assert (HL : 0 <= Interp.lenZ x0 <= 281474976710656) by (unfold Interp.lenZ, lenN in *; lia).
  assert (Hk : exists n : nat, (if z <? 8 * Interp.lenZ x0 then z else 8 * Interp.lenZ x0) = Z.of_nat n /\ (n <= 8 * length x0)%nat).
  { exists (Z.to_nat (if z <? 8 * Interp.lenZ x0 then z else 8 * Interp.lenZ x0)).
    destruct (z <? 8 * Interp.lenZ x0) eqn:E; unfold Interp.lenZ in *; lia. }
  destruct Hk as [n [-> Hn]]. rewrite Nat2Z.id.
  assert (Hbs : (n / 8 <= length x0)%nat) by (pose proof (Nat.div_mod_eq n 8); lia).
  assert (Hbit : (n mod 8 < 8)%nat) by (apply Nat.mod_upper_bound; lia).
  rewrite (shl_bytes_as_map x0 n Hbs).
  unfold go_div, go_rem. change (8 =? 0) with false. cbv iota.
  rewrite Z.quot_div_nonneg, Z.rem_mod_nonneg by lia.
  replace (Z.of_nat n / 8) with (Z.of_nat (n / 8)) by (rewrite Nat2Z.inj_div; reflexivity).
  replace (Z.of_nat n mod 8) with (Z.of_nat (n mod 8)) by (rewrite Nat2Z.inj_mod; reflexivity).
  set (bs := (n / 8)%nat) in *. set (bit := (n mod 8)%nat) in *. clearbody bs bit. clear Hn.
  unfold Interp.lenZ in HL.
  rewrite (go_wrap_I64_in (Z.of_nat bs)) by lia. stk_beta.
  rewrite (go_wrap_I64_in (Z.of_nat bit)) by lia. stk_beta.
  replace (go_wrap U64 (Z.of_nat bit)) with (Z.of_nat bit) by (unfold go_wrap; lia).
  rewrite go_make_bytes_len by assumption. stk_beta.
  (* the loop *)
  match goal with |- context [go_for ?fuel (0, ?buf) ?cnd ?bdy ?pst] =>
    set (CND := cnd); set (BDY := bdy); set (PST := pst); set (FUEL := fuel)
  end.
  assert (HF := go_for_fill_up (R := list bytes * bool) (shl_at x0 bs (N.of_nat bit)) (length x0 - bs) (length x0) CND BDY PST).
  specialize (HF ltac:(lia)).
  assert (Hc : forall (i : nat) (buf : bytes), (i <= length x0 - bs)%nat -> length buf = length x0 ->
            CND (Z.of_nat i, buf) = Val (Nat.ltb i (length x0 - bs))).
  { intros i buf Hi Hb. subst CND. cbv beta iota. apply Val_inj. unfold go_wrap, go_len. lia. }
  specialize (HF Hc).
  assert (Hbd : forall (i : nat) (buf : bytes), (i < length x0 - bs)%nat -> length buf = length x0 ->
            BDY (Z.of_nat i, buf) = Val (Next (Z.of_nat i, upd buf i (shl_at x0 bs (N.of_nat bit) i)))).
  { intros i buf Hi Hb. subst BDY. cbv beta iota.
    assert (Hxa : nth_error x0 (bs + i) = Some (nth (bs + i) x0 x00)) by (apply nth_error_nth_some; lia).
    unfold shl_at. remember (nth (bs + i) x0 x00) as xa eqn:Exa. clear Exa.
    assert (Hb8 : (bit = 0 \/ bit = 1 \/ bit = 2 \/ bit = 3 \/ bit = 4 \/ bit = 5 \/ bit = 6 \/ bit = 7)%nat) by lia.
    unfold go_shl, go_shr.
    destruct (nth_error x0 (Datatypes.S (bs + i))) as [xb|] eqn:Hxb.
    - assert (Hlt : (Datatypes.S (bs + i) < length x0)%nat) by (apply nth_error_Some; congruence).
      repeat (sh_dec; cbn [bind];
        repeat match goal with
        | |- context [go_index_b (upd buf i ?v) ?e] =>
            rewrite (go_index_b_at (upd buf i v) e i v (nth_error_upd_same buf i v ltac:(lia))) by lia
        | |- context [go_index_b x0 ?e] =>
            first [ rewrite (go_index_b_at x0 e (bs + i) xa Hxa) by (unfold go_wrap, go_len; lia)
                  | rewrite (go_index_b_at x0 e (Datatypes.S (bs + i)) xb Hxb) by (unfold go_wrap, go_len; lia) ]
        | |- context [go_set_index (upd buf i ?u) ?e ?v] => rewrite (go_set_index_at (upd buf i u) e i v) by (rewrite ?upd_length; lia)
        | |- context [go_set_index buf ?e ?v] => rewrite (go_set_index_at buf e i v) by lia
        end).
      rewrite ?upd_upd by lia. apply next_upd_eq.
      clear - Hb8. destruct Hb8 as [->|[->|[->|[->|[->|[->|[->| ->]]]]]]]; byte_sweep2 xa xb.
    - apply nth_error_None in Hxb.
      repeat (sh_dec; cbn [bind];
        repeat match goal with
        | |- context [go_index_b x0 ?e] => rewrite (go_index_b_at x0 e (bs + i) xa Hxa) by (unfold go_wrap, go_len; lia)
        | |- context [go_set_index buf ?e ?v] => rewrite (go_set_index_at buf e i v) by lia
        end).
      apply next_upd_eq.
      clear - Hb8. destruct Hb8 as [->|[->|[->|[->|[->|[->|[->| ->]]]]]]]; byte_sweep1 xa. }
  specialize (HF Hbd).
  assert (Hp : forall (i : nat) (buf : bytes), (i < length x0 - bs)%nat -> length buf = length x0 ->
            PST (Z.of_nat i, buf) = Val (Z.of_nat (Datatypes.S i), buf)).
  { intros i buf Hi Hb. subst PST. cbv beta iota. apply Val_inj. f_equal. unfold go_wrap. lia. }
  specialize (HF Hp FUEL 0%nat [] (repeat_byte (length x0) x00) ltac:(lia) eq_refl).
  rewrite repeat_byte_length in HF. specialize (HF ltac:(lia)).
  cbn [app Z.of_nat] in HF. rewrite HF by (subst FUEL; unfold go_len; lia).
  stk_run. cbn [h_view]. h_model. rewrite rev_involutive, Nat.sub_0_r, skipn_repeat_byte. reflexivity.
Qed.
