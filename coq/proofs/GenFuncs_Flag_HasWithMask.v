(** sighash.Flag.HasWithMask (sighash/flag.go), as printed from the Go source, is [flag_has_with_mask] of model/SigHash.v on every pair of
    uint8 values (65 536-case sweep). *)
From Coq Require Import List ZArith NArith Bool Lia ZifyN ZifyNat ZifyBool.
From Coq Require Import Strings.Byte.
From GoBT Require Import lib.Bytes lib.GoSem gen.Funcs proofs.GenFuncsTac.
Import ListNotations.
Ltac Zify.zify_post_hook ::= Z.div_mod_to_equations.
Local Open Scope Z_scope.

From GoBT Require model.SigHash.

Lemma Flag_HasWithMask_is_model (f shf : N) : (f < 256)%N -> (shf < 256)%N -> Flag_HasWithMask (Z.of_N f) (Z.of_N shf) = Val (SigHash.flag_has_with_mask f shf).
Proof.
  intros Hf Hs. apply M_eqb_bool_eq.
  refine (all256_spec (fun s => M_eqb Bool.eqb (Flag_HasWithMask (Z.of_N f) (Z.of_N s)) (Val (SigHash.flag_has_with_mask f s))) _ shf Hs).
  refine (all256_spec (fun f => all256 (fun s => M_eqb Bool.eqb (Flag_HasWithMask (Z.of_N f) (Z.of_N s)) (Val (SigHash.flag_has_with_mask f s)))) _ f Hf).
  vm_compute. reflexivity.
Qed.
