(** Properties of the signature opcodes proved about model/CheckSig.v (C06), part 3:
    - the digest is the specification's digest (spec/DigestSpec.v) of the script code;
    - the script code: the opcodes after the last executed separator, minus the opcodes that ARE the push of
      a signature not hashed with the FORKID digest (exact, FindAndDelete), and for the original digest minus
      the separators; FORKID flag + bit: untouched; which opcodes move the start;
    - OP_CHECKMULTISIG consumes exactly n + m + 3 items; the run on a well-shaped stack;
    - the flag table: which defects of a (signature, key) pair are hard failures under which flags. *)
From Coq Require Import List NArith ZArith Lia Bool ZifyN ZifyNat ZifyBool.
From Coq Require Import Strings.Byte.
From GoBT Require Import lib.Bytes lib.VarInt lib.Sha256 model.Tx model.SigHash model.SigHashWire model.ScriptNum model.Interp model.CheckSig
  spec.DigestSpec spec.MultisigSpec proofs.TxProofs proofs.SigHashProofs proofs.InterpTotal proofs.InterpFrame proofs.CheckSigProofs proofs.DerProofs proofs.MultisigProofs.
Import ListNotations.


(** ** the digest is the specification's digest of the script code *)
Definition digest_spec (tx : transaction) (n : nat) (code : bytes) (amount ht : N) : bytes :=
  if has_forkid ht
  then match forkid_sighash tx n code amount ht with Some h => h | None => [] end
  else legacy_sighash code tx n ht.

Lemma wire_strip t : wire_tx (strip_tx t) = wire_tx t.
Proof.
  unfold wire_tx, strip_tx. cbn [tx_version tx_ins tx_outs tx_lock]. rewrite map_map.
  replace (map (fun x => wire_in (strip_input x)) (tx_ins t)) with (map wire_in (tx_ins t))
    by (apply map_ext; intros x; reflexivity).
  reflexivity.
Qed.

Lemma set_input_script_wf t i up t' : wf_tx t -> (lenN up < two64)%N -> set_input_script t i up = Some t' -> wf_tx t'.
Proof.
  intros (Hv & Hl & Hins & Houts & Hni & Hno) Hup. unfold set_input_script.
  destruct (nthN (tx_ins t) i); [|discriminate]. intros [= <-].
  unfold wf_tx. cbn [tx_version tx_ins tx_outs tx_lock]. rewrite mapi_length.
  split; [exact Hv|]. split; [exact Hl|]. split; [|split; [exact Houts|split; assumption]].
  unfold mapi. apply mapi_from_Forall2; [exact Hins|].
  intros j x (H1 & H2 & H3 & H4 & H5 & H6). destruct (j =? i)%N; [|repeat split; assumption].
  unfold wf_input, set_prev_script. cbn [in_txid in_vout in_seq in_sats in_unlock in_script]. repeat split; assumption.
Qed.

Theorem sighash_for_spec t i up shf inp :
  wf_tx t -> nth_error (tx_ins t) (N.to_nat i) = Some inp -> (i < 2147483648)%N ->
  (N.of_nat (length (tx_outs t)) < 2147483648)%N -> (lenN up < two64)%N -> (shf < 256)%N ->
  sighash_for t i up shf = SOk (digest_spec (wire_tx t) (N.to_nat i) up (in_sats inp) shf).
Proof.
  intros Hwf Hn Hi Ho Hup Hs.
  assert (Hne : tx_ins t <> []) by (intros E; rewrite E in Hn; destruct (N.to_nat i); discriminate).
  unfold sighash_for. rewrite (clone_eq_weak t (wf_strip t Hwf) Hne).
  destruct (set_input_script_some t i up inp Hn) as (t' & Es & Hst & Hn' & Hout & _). rewrite Es.
  pose proof (set_input_script_wf t i up t' Hwf Hup Es) as Hwf'.
  replace (i mod two32)%N with i by (symmetry; apply N.mod_small; unfold two32; lia).
  assert (Hw : wire_tx t' = wire_tx t) by (rewrite <- (wire_strip t'), Hst, wire_strip; reflexivity).
  assert (Hx : in_txid (set_prev_script inp (Some up)) <> []).
  { pose proof (wf_tx_txid t inp _ Hwf Hn) as H32. cbn. intros E. rewrite E in H32. discriminate. }
  unfold digest_spec. destruct (has_forkid shf) eqn:Ef.
  - pose proof (forkid_sighash_is_spec t' i shf (set_prev_script inp (Some up)) up Hs Ef) as H.
    rewrite Hw, Hout in H. cbn [set_prev_script in_sats] in H.
    specialize (H ltac:(unfold two32; lia) ltac:(unfold two31; lia) Hn' Hx eq_refl).
    destruct (forkid_sighash (wire_tx t) (N.to_nat i) up (in_sats inp) shf); cbn [option_map] in H; [|discriminate].
    injection H as <-. reflexivity.
  - rewrite (legacy_sighash_is_spec t' i shf (set_prev_script inp (Some up)) up Hwf' Hs Ef ltac:(unfold two32; lia) Hn' eq_refl).
    rewrite Hw. reflexivity.
Qed.

(** ** the script code *)
Definition is_sep (p : pop) : bool := (p_val p =? OP_CODESEPARATOR)%N.
(** the opcode is the push of the signature: its serialisation is, byte for byte, what a script
    serialises the signature with (FindAndDelete's pattern [CScript() << vchSig]) *)
Definition is_sig_push (sig : bytes) (p : pop) : bool :=
  match push_prefix sig with Some pre => is_push_of (pre ++ sig) p | None => false end.
(** kept in the script code of an original-digest OP_CHECKSIG: neither a separator nor the push of the signature *)
Definition kept (sig : bytes) (p : pop) : bool := negb (is_sep p) && negb (is_sig_push sig p).

Lemma filter_filter {A} (f g : A -> bool) l : filter g (filter f l) = filter (fun x => f x && g x) l.
Proof. induction l as [|x l IH]; cbn; [reflexivity|]. destruct (f x); cbn; [destruct (g x)|]; rewrite IH; reflexivity. Qed.

Lemma filter_true {A} (l : list A) : filter (fun _ => true) l = l.
Proof. induction l; cbn; [reflexivity|f_equal; assumption]. Qed.

Lemma remove_by_data_spec ops sig : remove_by_data ops sig = filter (fun p => negb (is_sig_push sig p)) ops.
Proof.
  unfold remove_by_data, is_sig_push. destruct (push_prefix sig); [reflexivity|]. symmetry. apply filter_true.
Qed.

Lemma strip_sig_spec ops sig : strip_sig ops sig = filter (kept sig) ops.
Proof.
  unfold strip_sig, remove_opcode. rewrite remove_by_data_spec, filter_filter. apply filter_ext.
  intros p. unfold kept, is_sep. apply andb_comm.
Qed.

(** removal is exact: an opcode is removed exactly when its serialisation (pop.bytes) is the push of the
    signature *)
Theorem is_sig_push_spec sig p :
  is_sig_push sig p = true <-> exists pre, push_prefix sig = Some pre /\ pop_bytes p = Some (pre ++ sig).
Proof.
  unfold is_sig_push, is_push_of. destruct (push_prefix sig) as [pre|].
  - destruct (pop_bytes p) as [b|].
    + rewrite bytes_eqb_eq. split; [intros ->; eauto|intros (pre' & [= <-] & [= ->]); reflexivity].
    + split; [discriminate|intros (pre' & _ & H); discriminate].
  - split; [discriminate|intros (pre' & H & _); discriminate].
Qed.

(** the push a script serialises [sig] with: one length byte below 76 bytes (the single byte 00 = OP_0
    for the empty signature), OP_PUSHDATA1/2/4 with a 1/2/4-byte little-endian length above *)
Theorem push_prefix_spec sig :
  let l := N.of_nat (length sig) in
  push_prefix sig =
    if (l <? 76)%N then Some [n2b l]
    else if (l <? 256)%N then Some [x4c; n2b l]
    else if (l <? 65536)%N then Some (x4d :: le_enc 2 l)
    else if (l <? 4294967296)%N then Some (x4e :: le_enc 4 l)
    else None.
Proof.
  cbv zeta. unfold push_prefix.
  change (n2b OP_PUSHDATA1) with x4c. change (n2b OP_PUSHDATA2) with x4d. change (n2b OP_PUSHDATA4) with x4e.
  destruct (N.leb_spec (N.of_nat (length sig)) 75); destruct (N.ltb_spec (N.of_nat (length sig)) 76); try lia; [reflexivity|].
  destruct (N.leb_spec (N.of_nat (length sig)) 255); destruct (N.ltb_spec (N.of_nat (length sig)) 256); try lia; [reflexivity|].
  destruct (N.leb_spec (N.of_nat (length sig)) 65535); destruct (N.ltb_spec (N.of_nat (length sig)) 65536); try lia; [reflexivity|].
  destruct (N.leb_spec (N.of_nat (length sig)) 4294967295); destruct (N.ltb_spec (N.of_nat (length sig)) 4294967296); try lia; reflexivity.
Qed.

(** serialisations of a single byte: only opcodes without data *)
Lemma pop_bytes_single p v : pop_bytes p = Some [v] -> v = n2b (p_val p) /\ p_data p = [] /\ p_len p = 1%Z.
Proof.
  unfold pop_bytes. destruct (Z.eqb_spec (p_len p) 1) as [E|E].
  - destruct (p_data p); [|discriminate]. intros [= <-]. auto.
  - destruct (Z.eqb_spec (p_len p) (-1)); [|destruct (Z.eqb_spec (p_len p) (-2)); [|destruct (Z.eqb_spec (p_len p) (-4))]].
    all: cbv beta iota zeta.
    all: match goal with |- (if ?b then _ else _) = _ -> _ => destruct b eqn:Eb; [|discriminate] end.
    all: intros H; injection H as Hv Hrest.
    1-3: discriminate Hrest.
    apply Z.eqb_eq in Eb. destruct (p_data p); [|discriminate].
    unfold lenZ in Eb. cbn in Eb. lia.
Qed.

(** an empty signature removes OP_0 opcodes only: the one-byte serialisation 00 *)
Theorem empty_sig_removes_op0_only p :
  is_sig_push [] p = true <-> pop_bytes p = Some [x00].
Proof.
  rewrite is_sig_push_spec. cbn. split.
  - intros (pre & [= <-] & H). exact H.
  - intros H. exists [x00]. auto.
Qed.

Corollary empty_sig_removed_opcode p : is_sig_push [] p = true -> n2b (p_val p) = x00 /\ p_data p = [].
Proof.
  intros H. apply empty_sig_removes_op0_only in H. apply pop_bytes_single in H. destruct H as (H1 & H2 & _). auto.
Qed.

(** an opcode that serialises to one byte other than 00 (OP_1NEGATE, OP_1 .. OP_16, every non-push
    opcode) is never removed, whatever the signature *)
Theorem single_byte_opcode_kept sig p v : pop_bytes p = Some [v] -> v <> x00 -> is_sig_push sig p = false.
Proof.
  intros Hp Hv. destruct (is_sig_push sig p) eqn:E; [|reflexivity]. exfalso.
  apply is_sig_push_spec in E. destruct E as (pre & Hpre & Hb). rewrite Hp in Hb. injection Hb as Hb.
  pose proof (push_prefix_spec sig) as Hs. cbv zeta in Hs. rewrite Hpre in Hs.
  destruct sig as [|s0 sig].
  - cbn in Hs. injection Hs as ->. cbn in Hb. injection Hb as ->. apply Hv. reflexivity.
  - assert (Hl : (length pre >= 1)%nat).
    { repeat match type of Hs with Some _ = (if ?b then _ else _) => destruct b end; try discriminate;
        injection Hs as ->; cbn [length]; lia. }
    apply (f_equal (@length byte)) in Hb. rewrite app_length in Hb. cbn [length] in Hb. lia.
Qed.

(** a push instruction of the opcode table (the parser's [op_length]) is removed only if it pushes
    exactly the signature with the smallest instruction: a push that merely CONTAINS the signature, or
    that pushes it with a longer instruction, stays *)
Definition push_opcode (n : nat) : N :=
  let l := N.of_nat n in
  if (l <? 76)%N then l else if (l <? 256)%N then OP_PUSHDATA1 else if (l <? 65536)%N then OP_PUSHDATA2 else OP_PUSHDATA4.

Lemma n2b_inj_small a b : (a < 256)%N -> (b < 256)%N -> n2b a = n2b b -> a = b.
Proof. intros Ha Hb H. apply (f_equal b2n) in H. rewrite !b2n_n2b_small in H by assumption. exact H. Qed.

Lemma n2b_eq_byte a x : (a < 256)%N -> n2b a = x -> a = b2n x.
Proof. intros Ha <-. symmetry. apply b2n_n2b_small. exact Ha. Qed.

Lemma app_inv_len {A} (a b c d : list A) : length a = length c -> a ++ b = c ++ d -> a = c /\ b = d.
Proof.
  revert c. induction a as [|x a IH]; intros [|y c] Hl H; cbn in *; try discriminate; [auto|].
  injection H as -> H. destruct (IH c ltac:(lia) H) as [-> ->]. auto.
Qed.

(** ParsedOpcode.bytes for the four kinds of opcodes of the table *)
Lemma pop_bytes_nodata p : p_len p = 1%Z ->
  pop_bytes p = match p_data p with [] => Some [n2b (p_val p)] | _ => None end.
Proof. intros H. unfold pop_bytes. rewrite H. reflexivity. Qed.

Lemma pop_bytes_direct p : p_len p <> 1%Z -> (0 < p_len p)%Z ->
  pop_bytes p = if (lenZ (n2b (p_val p) :: p_data p) =? p_len p)%Z then Some (n2b (p_val p) :: p_data p) else None.
Proof.
  intros H1 H2. unfold pop_bytes.
  replace (p_len p =? 1)%Z with false by lia. replace (p_len p =? -1)%Z with false by lia.
  replace (p_len p =? -2)%Z with false by lia. replace (p_len p =? -4)%Z with false by lia. reflexivity.
Qed.

Lemma pop_bytes_pushdata p k : (k = 1 \/ k = 2 \/ k = 4)%nat -> p_len p = (- Z.of_nat k)%Z ->
  pop_bytes p =
  let h := le_enc k (N.of_nat (length (p_data p))) in
  if (lenZ (n2b (p_val p) :: h ++ p_data p) =? Z.of_N (le_dec h) + (Z.of_nat k + 1))%Z
  then Some (n2b (p_val p) :: h ++ p_data p) else None.
Proof.
  intros Hk H. unfold pop_bytes. rewrite H. destruct Hk as [-> | [-> | ->]]; reflexivity.
Qed.

Theorem removed_push_is_exact sig p :
  p_len p = op_length (p_val p) -> (p_val p < 256)%N ->
  is_sig_push sig p = true -> p_data p = sig /\ p_val p = push_opcode (length sig).
Proof.
  intros Hlen Hv H. apply is_sig_push_spec in H. destruct H as (pre & Hpre & Hb).
  pose proof (push_prefix_spec sig) as Hs. cbv zeta in Hs. rewrite Hpre in Hs. clear Hpre.
  unfold push_opcode. set (l := N.of_nat (length sig)) in *.
  unfold op_length in Hlen.
  (* the first byte of the push decides the range of the signature's length *)
  assert (Hfirst : forall v rest, Some (v :: rest) = Some (pre ++ sig) ->
            ((l <? 76)%N = true /\ v = n2b l /\ rest = sig) \/
            ((l <? 76)%N = false /\ (l <? 256)%N = true /\ v = x4c /\ rest = n2b l :: sig) \/
            ((l <? 76)%N = false /\ (l <? 256)%N = false /\ (l <? 65536)%N = true /\ v = x4d /\ rest = le_enc 2 l ++ sig) \/
            ((l <? 76)%N = false /\ (l <? 256)%N = false /\ (l <? 65536)%N = false /\ v = x4e /\ rest = le_enc 4 l ++ sig)).
  { intros v rest Hvr. injection Hvr as Hvr.
    destruct (l <? 76)%N; [injection Hs as ->; cbn [app] in Hvr; injection Hvr as Hq1 Hq2; subst v rest; left; auto|].
    destruct (l <? 256)%N; [injection Hs as ->; cbn [app] in Hvr; injection Hvr as Hq1 Hq2; subst v rest; right; left; auto|].
    destruct (l <? 65536)%N; [injection Hs as ->; cbn [app] in Hvr; injection Hvr as Hq1 Hq2; subst v rest; right; right; left; repeat split; reflexivity|].
    destruct (l <? 4294967296)%N; [|discriminate].
    injection Hs as ->; cbn [app] in Hvr; injection Hvr as Hq1 Hq2; subst v rest; right; right; right; repeat split; reflexivity. }
  destruct ((1 <=? p_val p)%N && (p_val p <=? 75)%N) eqn:Edirect.
  - (* OP_DATA_1 .. OP_DATA_75 *)
    apply andb_true_iff in Edirect. destruct Edirect as [E1 E2]. apply N.leb_le in E1, E2.
    rewrite pop_bytes_direct in Hb by lia.
    destruct (lenZ _ =? _)%Z; [|discriminate].
    destruct (Hfirst _ _ Hb) as [(L1 & Hn & Hd)|[(L1 & L2 & Hn & Hd)|[(L1 & L2 & L3 & Hn & Hd)|(L1 & L2 & L3 & Hn & Hd)]]].
    + rewrite L1. apply N.ltb_lt in L1. apply n2b_inj_small in Hn; [|lia|lia]. auto.
    + exfalso. apply n2b_eq_byte in Hn; [|lia]. cbv [b2n Byte.to_N] in Hn. lia.
    + exfalso. apply n2b_eq_byte in Hn; [|lia]. cbv [b2n Byte.to_N] in Hn. lia.
    + exfalso. apply n2b_eq_byte in Hn; [|lia]. cbv [b2n Byte.to_N] in Hn. lia.
  - destruct (p_val p =? 76)%N eqn:E76; [|destruct (p_val p =? 77)%N eqn:E77; [|destruct (p_val p =? 78)%N eqn:E78]].
    + (* OP_PUSHDATA1 *)
      apply N.eqb_eq in E76. rewrite (pop_bytes_pushdata p 1) in Hb by (auto; lia). cbv zeta in Hb.
      destruct (lenZ _ =? _)%Z; [|discriminate]. rewrite E76 in Hb. change (n2b 76) with x4c in Hb.
      destruct (Hfirst _ _ Hb) as [(L1 & Hn & Hd)|[(L1 & L2 & Hn & Hd)|[(L1 & L2 & L3 & Hn & Hd)|(L1 & L2 & L3 & Hn & Hd)]]].
      * exfalso. apply N.ltb_lt in L1. symmetry in Hn. apply n2b_eq_byte in Hn; [|lia]. cbv [b2n Byte.to_N] in Hn. lia.
      * rewrite L1, L2. cbn [le_enc app] in Hd. injection Hd as _ Hd. split; [exact Hd|exact E76].
      * discriminate.
      * discriminate.
    + (* OP_PUSHDATA2 *)
      apply N.eqb_eq in E77. rewrite (pop_bytes_pushdata p 2) in Hb by (auto; lia). cbv zeta in Hb.
      destruct (lenZ _ =? _)%Z; [|discriminate]. rewrite E77 in Hb. change (n2b 77) with x4d in Hb.
      destruct (Hfirst _ _ Hb) as [(L1 & Hn & Hd)|[(L1 & L2 & Hn & Hd)|[(L1 & L2 & L3 & Hn & Hd)|(L1 & L2 & L3 & Hn & Hd)]]].
      * exfalso. apply N.ltb_lt in L1. symmetry in Hn. apply n2b_eq_byte in Hn; [|lia]. cbv [b2n Byte.to_N] in Hn. lia.
      * discriminate.
      * rewrite L1, L2, L3. apply app_inv_len in Hd; [|rewrite !le_enc_length; reflexivity]. destruct Hd as [_ Hd].
        split; [exact Hd|exact E77].
      * discriminate.
    + (* OP_PUSHDATA4 *)
      apply N.eqb_eq in E78. rewrite (pop_bytes_pushdata p 4) in Hb by (auto; lia). cbv zeta in Hb.
      destruct (lenZ _ =? _)%Z; [|discriminate]. rewrite E78 in Hb. change (n2b 78) with x4e in Hb.
      destruct (Hfirst _ _ Hb) as [(L1 & Hn & Hd)|[(L1 & L2 & Hn & Hd)|[(L1 & L2 & L3 & Hn & Hd)|(L1 & L2 & L3 & Hn & Hd)]]].
      * exfalso. apply N.ltb_lt in L1. symmetry in Hn. apply n2b_eq_byte in Hn; [|lia]. cbv [b2n Byte.to_N] in Hn. lia.
      * discriminate.
      * discriminate.
      * rewrite L1, L2, L3. apply app_inv_len in Hd; [|rewrite !le_enc_length; reflexivity]. destruct Hd as [_ Hd].
        split; [exact Hd|exact E78].
    + (* an opcode without data: only OP_0 can be the push of a signature, the empty one *)
      rewrite pop_bytes_nodata in Hb by exact Hlen. destruct (p_data p) eqn:Ed; [|discriminate].
      destruct (Hfirst _ _ Hb) as [(L1 & Hn & Hd)|[(L1 & L2 & Hn & Hd)|[(L1 & L2 & L3 & Hn & Hd)|(L1 & L2 & L3 & Hn & Hd)]]];
        try discriminate.
      rewrite L1. apply N.ltb_lt in L1. apply n2b_inj_small in Hn; [|lia|lia]. auto.
Qed.

(** conversely the smallest push of the signature is removed *)
Theorem exact_push_is_removed sig p :
  p_len p = op_length (p_val p) -> p_data p = sig -> p_val p = push_opcode (length sig) ->
  (N.of_nat (length sig) < 4294967296)%N -> is_sig_push sig p = true.
Proof.
  intros Hlen Hd Hv Hl. apply is_sig_push_spec.
  pose proof (push_prefix_spec sig) as Hs. cbv zeta in Hs. rewrite Hs. clear Hs.
  unfold push_opcode in Hv. set (l := N.of_nat (length sig)) in *.
  assert (Hfin : forall k v, (k = 1 \/ k = 2 \/ k = 4)%nat -> p_val p = v -> p_len p = (- Z.of_nat k)%Z -> (l < 256 ^ N.of_nat k)%N ->
            pop_bytes p = Some ((n2b v :: le_enc k l) ++ sig)).
  { intros k v Hk Hpv Hpl Hlt. rewrite (pop_bytes_pushdata p k Hk Hpl). cbv zeta. rewrite Hd, Hpv. fold l.
    rewrite le_dec_enc by exact Hlt. unfold lenZ. cbn [length]. rewrite app_length, le_enc_length.
    match goal with |- (if ?b then _ else _) = _ => replace b with true by lia end. reflexivity. }
  destruct (l <? 76)%N eqn:L1.
  - apply N.ltb_lt in L1. eexists. split; [reflexivity|].
    destruct (N.eq_dec l 0) as [E0|E0].
    + assert (Hs0 : sig = []) by (destruct sig; [reflexivity|cbn in l; lia]).
      rewrite pop_bytes_nodata by (rewrite Hlen, Hv, E0; reflexivity). rewrite Hd, Hv, E0, Hs0. reflexivity.
    + assert (Hpl : p_len p = (Z.of_N l + 1)%Z).
      { rewrite Hlen, Hv. unfold op_length. replace ((1 <=? l)%N && (l <=? 75)%N) with true by lia. reflexivity. }
      rewrite pop_bytes_direct by lia. rewrite Hd, Hpl, Hv. unfold lenZ. cbn [length].
      replace (Z.of_nat (S (length sig)) =? Z.of_N l + 1)%Z with true by lia. reflexivity.
  - apply N.ltb_ge in L1. destruct (l <? 256)%N eqn:L2.
    + apply N.ltb_lt in L2. eexists. split; [reflexivity|].
      apply (Hfin 1%nat 76%N); [auto|exact Hv|rewrite Hlen, Hv; reflexivity|cbn; lia].
    + apply N.ltb_ge in L2. destruct (l <? 65536)%N eqn:L3.
      * apply N.ltb_lt in L3. eexists. split; [reflexivity|].
        apply (Hfin 2%nat 77%N); [auto|exact Hv|rewrite Hlen, Hv; reflexivity|cbn; lia].
      * apply N.ltb_ge in L3. replace (l <? 4294967296)%N with true by lia. eexists. split; [reflexivity|].
        apply (Hfin 4%nat 78%N); [auto|exact Hv|rewrite Hlen, Hv; reflexivity|cbn; lia].
Qed.

(** OP_CHECKSIG: untouched under (FORKID flag and FORKID bit), otherwise minus that signature's push and the separators *)
Theorem checksig_code_spec c s full shf :
  checksig_code_ops c s full shf =
  if has_flag c F_FORKID && flag_has shf sh_forkid then skipn (last_sep s) (cur s)
  else filter (kept full) (skipn (last_sep s) (cur s)).
Proof.
  unfold checksig_code_ops, sub_script. rewrite strip_sig_spec.
  destruct (has_flag c F_FORKID); destruct (flag_has shf sh_forkid); reflexivity.
Qed.

(** OP_CHECKMULTISIG: the pushes of the signatures that are not (FORKID flag and FORKID bit) -- an empty
    signature is one of them: it removes OP_0 opcodes -- are removed one after the other; separators are
    not touched here *)
Definition strips (c : ctx) (raw : bytes) : bool :=
  match split_last raw with
  | Some (_, hb) => negb (has_flag c F_FORKID && flag_has (b2n hb) sh_forkid)
  | None => true
  end.

Lemma multisig_strip_one_spec c ops raw :
  multisig_strip_one c ops raw = if strips c raw then filter (fun p => negb (is_sig_push raw p)) ops else ops.
Proof.
  unfold multisig_strip_one, strips. rewrite remove_by_data_spec.
  destruct (split_last raw) as [[sg hb]|]; [|reflexivity].
  destruct (has_flag c F_FORKID && flag_has (b2n hb) sh_forkid); reflexivity.
Qed.

Theorem multisig_code_spec c s sigs :
  multisig_code_ops c s sigs =
  filter (fun p => forallb (fun raw => negb (strips c raw) || negb (is_sig_push raw p)) sigs) (skipn (last_sep s) (cur s)).
Proof.
  unfold multisig_code_ops, sub_script. generalize (skipn (last_sep s) (cur s)) as ops.
  induction sigs as [|raw sigs IH]; intros ops; cbn [fold_left forallb].
  - symmetry. apply filter_true.
  - rewrite IH, multisig_strip_one_spec. destruct (strips c raw); cbn [negb orb].
    + rewrite filter_filter. apply filter_ext. intros p. reflexivity.
    + reflexivity.
Qed.

(** the script code hashed for ONE signature of the multisig: the separators go only for a signature
    that is hashed with the original digest; a FORKID signature sees them, whatever the others are *)
Theorem sig_code_spec c script shf :
  sig_code_ops c script shf =
  if has_flag c F_FORKID && flag_has shf sh_forkid then script else filter (fun p => negb (is_sep p)) script.
Proof.
  unfold sig_code_ops, remove_opcode, is_sep.
  destruct (has_flag c F_FORKID); destruct (flag_has shf sh_forkid); reflexivity.
Qed.

(** Unparse: the concatenation of the opcodes' serialisations *)
Theorem unparse_spec ops b : unparse ops = Some b ->
  exists bs, Forall2 (fun p x => pop_bytes p = Some x) ops bs /\ b = concat bs.
Proof.
  revert b. induction ops as [|p ops IH]; intros b H; cbn [unparse] in H.
  - injection H as <-. exists []. split; [constructor|reflexivity].
  - destruct (pop_bytes p) as [x|] eqn:Ep; [|discriminate]. destruct (unparse ops) as [rest|]; [|discriminate].
    injection H as <-. destruct (IH rest eq_refl) as (bs & Hf & ->). exists (x :: bs). split; [constructor; assumption|reflexivity].
Qed.


(** ** OP_CHECKMULTISIG consumes exactly n + m + 3 items *)
Theorem multisig_pops orc t i c s idx vf s' :
  checkmultisig_run orc t i c s idx vf = Some (OOk s') ->
  exists nk pks ns sigs dummy rest b,
    ds s = nk :: pks ++ ns :: sigs ++ dummy :: rest /\
    option_map to_int32 (pop_count c nk) = Some (Z.of_nat (length pks)) /\
    option_map to_int32 (pop_count c ns) = Some (Z.of_nat (length sigs)) /\
    (length sigs <= length pks)%nat /\
    ds s' = (if vf then rest else from_bool b :: rest) /\ (vf = true -> b = true) /\
    nops s' = (nops s + Z.of_nat (length pks))%Z /\
    als s' = als s /\ cond s' = cond s /\ last_sep s' = last_sep s /\ cur s' = cur s.
Proof.
  unfold checkmultisig_run.
  destruct (ds s) as [|nk d1] eqn:Eds; [discriminate|].
  destruct (pop_count c nk) as [nkz|] eqn:Enk; [|discriminate]. cbv zeta.
  destruct (Z.ltb_spec (to_int32 nkz) 0) as [|Hnk]; [discriminate|].
  destruct (max_pubkeys c <? to_int32 nkz)%Z; [discriminate|].
  destruct (max_ops c <? nops s + to_int32 nkz)%Z; [discriminate|].
  destruct (pop_n (to_int32 nkz) d1) as [[pks d2]|] eqn:Ep; [|discriminate].
  destruct d2 as [|ns d3]; [discriminate|].
  destruct (pop_count c ns) as [nsz|] eqn:Ens; [|discriminate].
  destruct (Z.ltb_spec (to_int32 nsz) 0) as [|Hns]; [discriminate|].
  destruct (Z.ltb_spec (to_int32 nkz) (to_int32 nsz)) as [|Hle]; [discriminate|].
  destruct (pop_n (to_int32 nsz) d3) as [[sigs d4]|] eqn:Es; [|discriminate].
  destruct d4 as [|dummy d5]; [discriminate|].
  destruct (has_flag c F_STRICTMULTISIG && negb (Nat.eqb (length dummy) 0))%bool; [discriminate|].
  destruct (pop_n_length _ _ _ _ Hnk Ep) as [Lp ->]. destruct (pop_n_length _ _ _ _ Hns Es) as [Ls ->].
  intros H.
  assert (Hfin : forall b, Some (finish_verify vf (push_bool (set_nops (set_ds s d5) (nops s + to_int32 nkz)) b)) = Some (OOk s') ->
            ds s' = (if vf then d5 else from_bool b :: d5) /\ (vf = true -> b = true) /\
            nops s' = (nops s + to_int32 nkz)%Z /\ als s' = als s /\ cond s' = cond s /\ last_sep s' = last_sep s /\ cur s' = cur s).
  { intros b Hb. injection Hb as Hb. destruct vf; cbn [finish_verify push_bool push] in Hb.
    - unfold verify_top in Hb. cbn [ds set_ds] in Hb. destruct b; cbn in Hb; [|discriminate].
      injection Hb as <-. cbn. repeat split; reflexivity.
    - injection Hb as <-. cbn. repeat split; try reflexivity. discriminate. }
  exists nk, pks, ns, sigs, dummy, d5.
  destruct (ms_loop _ _ _ _ _ _ _ _ _ _ _ _ _) as [b| | | | |]; try discriminate.
  - destruct (negb b && has_flag c F_NULLFAIL && existsb _ sigs)%bool; [discriminate|].
    exists b. destruct (Hfin b H) as (A & B & C & D & E & F & G).
    rewrite Lp in *. repeat split; try assumption; try (rewrite Enk || rewrite Ens; cbn; f_equal; lia). lia.
  - exists false. destruct (Hfin false H) as (A & B & C & D & E & F & G).
    rewrite Lp in *. repeat split; try assumption; try (rewrite Enk || rewrite Ens; cbn; f_equal; lia). lia.
Qed.

(** an empty stack, a missing count, too few keys / signatures or a missing dummy element are errors *)
Lemma pop_n_app n a b : n = Z.of_nat (length a) -> pop_n n (a ++ b) = Some (a, b).
Proof.
  intros ->. unfold pop_n, lenZ. rewrite app_length.
  destruct (Z.ltb_spec (Z.of_nat (length a + length b)) (Z.of_nat (length a))); [lia|].
  rewrite Nat2Z.id, firstn_app, skipn_app, firstn_all, skipn_all, Nat.sub_diag. cbn. rewrite app_nil_r. reflexivity.
Qed.

(** the run on a stack of the right shape *)
Theorem multisig_eval orc t i c s idx vf nk pks ns sigs dummy rest a b :
  ds s = nk :: pks ++ ns :: sigs ++ dummy :: rest ->
  pop_count c nk = Some a -> to_int32 a = Z.of_nat (length pks) ->
  pop_count c ns = Some b -> to_int32 b = Z.of_nat (length sigs) ->
  (length sigs <= length pks)%nat -> (Z.of_nat (length pks) <= max_pubkeys c)%Z ->
  (nops s + Z.of_nat (length pks) <= max_ops c)%Z ->
  checkmultisig_run orc t i c s idx vf =
  if has_flag c F_STRICTMULTISIG && negb (Nat.eqb (length dummy) 0) then Some OErr else
  let s1 := set_nops (set_ds s rest) (nops s + Z.of_nat (length pks)) in
  match ms_struct orc t i c (multisig_code_ops c s sigs) pks None sigs with
  | LErr => Some OErr
  | LPanic | LFuel => Some OPanic
  | LMiss => None
  | LPushFalse => Some (finish_verify vf (push_bool s1 false))
  | LDone ok =>
      if negb ok && has_flag c F_NULLFAIL && existsb (fun sg => Nat.ltb 0 (length sg)) sigs then Some OErr
      else Some (finish_verify vf (push_bool s1 ok))
  end.
Proof.
  intros Hds Ha Ha' Hb Hb' Hle Hmax Hops. unfold checkmultisig_run. rewrite Hds, Ha. cbv zeta. rewrite Ha'.
  replace (Z.of_nat (length pks) <? 0)%Z with false by lia.
  replace (max_pubkeys c <? Z.of_nat (length pks))%Z with false by lia.
  replace (max_ops c <? nops s + Z.of_nat (length pks))%Z with false by lia.
  rewrite (pop_n_app _ pks _ eq_refl), Hb, Hb'.
  replace (Z.of_nat (length sigs) <? 0)%Z with false by lia.
  replace (Z.of_nat (length pks) <? Z.of_nat (length sigs))%Z with false by lia.
  rewrite (pop_n_app _ sigs _ eq_refl).
  destruct (has_flag c F_STRICTMULTISIG && negb (Nat.eqb (length dummy) 0))%bool; [reflexivity|].
  rewrite ms_loop_initial. reflexivity.
Qed.

(** ** hard failures of the matching loop come only from an examined element that fails an enabled check *)
Lemma ms_struct_err orc t i c script : forall keys m sigs,
  ms_struct orc t i c script keys m sigs = LErr ->
  (exists raw sg hb, In raw sigs /\ split_last raw = Some (sg, hb) /\
                     (check_hash_type c (b2n hb) = false \/ check_sig_enc c sg = EncErr)) \/
  (exists pk, In pk keys /\ check_pubkey_enc c pk = false).
Proof.
  induction keys as [|pk krest IH]; intros m [|raw srest]; cbn [ms_struct]; try discriminate.
  destruct (Nat.ltb _ _); [discriminate|].
  assert (Hk : forall m' sigs', incl sigs' (raw :: srest) -> ms_struct orc t i c script krest m' sigs' = LErr ->
     (exists raw0 sg hb, In raw0 (raw :: srest) /\ split_last raw0 = Some (sg, hb) /\
                         (check_hash_type c (b2n hb) = false \/ check_sig_enc c sg = EncErr)) \/
     (exists pk0, In pk0 (pk :: krest) /\ check_pubkey_enc c pk0 = false)).
  { intros m' sigs' Hincl H. destruct (IH m' sigs' H) as [(raw0 & sg & hb & Hin & Hs & Hc)|(pk0 & Hin & Hc)].
    - left. exists raw0, sg, hb. split; [apply Hincl; exact Hin|auto].
    - right. exists pk0. split; [right; exact Hin|exact Hc]. }
  assert (I1 : incl (raw :: srest) (raw :: srest)) by apply incl_refl.
  assert (I2 : incl srest (raw :: srest)) by (apply incl_tl, incl_refl).
  destruct (split_last raw) as [[sg hb]|] eqn:Esl.
  2:{ destruct (check_pubkey_enc c pk) eqn:Epk; cbn [negb]; [apply Hk; exact I1|].
      intros _. right. exists pk. split; [left; reflexivity|exact Epk]. }
  cbv zeta.
  assert (Hwp : forall p',
    (if negb (orc_parse_pub orc pk) then ms_struct orc t i c script krest p' (raw :: srest)
     else match unparse (sig_code_ops c script (b2n hb)) with
          | Some up =>
              match sighash_for t i up (b2n hb) with
              | SOk h =>
                  match orc_verify orc pk h sg (uses_der_parser c) with
                  | Some true => ms_struct orc t i c script krest None srest
                  | Some false => ms_struct orc t i c script krest p' (raw :: srest)
                  | None => LMiss
                  end
              | SigHash.SErr _ => LPushFalse
              | _ => LPanic
              end
          | None => LPushFalse
          end) = LErr ->
     (exists raw0 sg0 hb0, In raw0 (raw :: srest) /\ split_last raw0 = Some (sg0, hb0) /\
                         (check_hash_type c (b2n hb0) = false \/ check_sig_enc c sg0 = EncErr)) \/
     (exists pk0, In pk0 (pk :: krest) /\ check_pubkey_enc c pk0 = false)).
  { intros p'. destruct (negb (orc_parse_pub orc pk)); [apply Hk; exact I1|].
    destruct (unparse (sig_code_ops c script (b2n hb))); [|discriminate].
    destruct (sighash_for t i l (b2n hb)); try discriminate.
    destruct (orc_verify orc pk b sg (uses_der_parser c)) as [[|]|]; [apply Hk; exact I2|apply Hk; exact I1|discriminate]. }
  assert (Hpkerr : LErr = LErr ->
     (exists raw0 sg0 hb0, In raw0 (raw :: srest) /\ split_last raw0 = Some (sg0, hb0) /\
                         (check_hash_type c (b2n hb0) = false \/ check_sig_enc c sg0 = EncErr)) \/
     (exists pk0, In pk0 (pk :: krest) /\ check_pubkey_enc c pk0 = false) -> True) by auto.
  destruct m as [[|]|].
  - destruct (check_pubkey_enc c pk) eqn:Epk; cbn [negb]; [apply Hwp|].
    intros _. right. exists pk. split; [left; reflexivity|exact Epk].
  - destruct (check_pubkey_enc c pk) eqn:Epk; cbn [negb]; [apply Hk; exact I1|].
    intros _. right. exists pk. split; [left; reflexivity|exact Epk].
  - destruct (check_hash_type c (b2n hb)) eqn:Eht; cbn [negb].
    2:{ intros _. left. exists raw, sg, hb. split; [left; reflexivity|]. split; [exact Esl|left; exact Eht]. }
    destruct (check_sig_enc c sg) eqn:Ese; try discriminate.
    2:{ intros _. left. exists raw, sg, hb. split; [left; reflexivity|]. split; [exact Esl|right; exact Ese]. }
    destruct (check_pubkey_enc c pk) eqn:Epk; cbn [negb].
    2:{ intros _. right. exists pk. split; [left; reflexivity|exact Epk]. }
    destruct (orc_parse_sig orc (uses_der_parser c) sg); [apply Hwp|apply Hk; exact I1].
Qed.

(** ** the hash-type rule of STRICTENC, as coded, in readable form *)
Definition base_defined (shf : N) : bool := let b := N.land shf 63 in (1 <=? b)%N && (b <=? 3)%N.
Definition forkid_bit (shf : N) : bool := N.testbit shf 6.

(** (BIP143 flag off) STRICTENC demands a defined base type, and the FORKID bit exactly when the FORKID
    flag is set: SCRIPT_ERR_ILLEGAL_FORKID / SCRIPT_ERR_MUST_USE_FORKID of the node *)
Definition hash_type_rule (strictenc forkid : bool) (shf : N) : bool :=
  negb strictenc || (base_defined shf && Bool.eqb (forkid_bit shf) forkid).

Lemma check_hash_type_rule c shf : (shf < 256)%N -> has_flag c F_BIP143 = false ->
  check_hash_type c shf = hash_type_rule (has_flag c F_STRICTENC) (has_flag c F_FORKID) shf.
Proof.
  intros Hs Hb. unfold check_hash_type, hash_type_rule. rewrite Hb.
  destruct (has_flag c F_STRICTENC); [|reflexivity]. cbn [negb orb andb].
  destruct (has_flag c F_FORKID).
  - apply (below256 (fun s =>
      Bool.eqb (if false && (N.land s sh_forkid =? 0)%N then false
       else if negb (flag_has (N.land s 127) sh_forkid)
            then if (N.land s 127 <? sh_all)%N || (sh_single <? N.land s 127)%N then false
                 else if true && negb (flag_has s sh_forkid) then false else true
       else if (N.land s 127 <? 65)%N || (67 <? N.land s 127)%N then false
       else if negb true && flag_has s sh_forkid then false else true)
      (base_defined s && Bool.eqb (forkid_bit s) true))) in Hs; [apply eqb_prop; exact Hs|vm_compute; reflexivity].
  - apply (below256 (fun s =>
      Bool.eqb (if false && (N.land s sh_forkid =? 0)%N then false
       else if negb (flag_has (N.land s 127) sh_forkid)
            then if (N.land s 127 <? sh_all)%N || (sh_single <? N.land s 127)%N then false
                 else if false && negb (flag_has s sh_forkid) then false else true
       else if (N.land s 127 <? 65)%N || (67 <? N.land s 127)%N then false
       else if negb false && flag_has s sh_forkid then false else true)
      (base_defined s && Bool.eqb (forkid_bit s) false))) in Hs; [apply eqb_prop; exact Hs|vm_compute; reflexivity].
Qed.

(** ** what is wrong with a (signature, key) pair, and under which flags that is a hard failure *)
Inductive defect :=
| HashTypeUndefined        (* base type (hash type and 0x3f) not ALL / NONE / SINGLE *)
| ForkIdBit                (* hash type has bit 0x40 *)
| NoForkIdBit              (* hash type lacks bit 0x40 *)
| NotStrictDER             (* the bytes before the hash type are not BIP66 strict DER *)
| HighS                    (* strict DER, R and S below the group order, S above half of it *)
| PubKeyShape              (* key neither 33 bytes starting 02/03 nor 65 bytes starting 04 *)
| VerifyFails              (* key and signature parse (go-bk), ECDSA says no *)
| Unparsable.              (* key or signature does not parse (go-bk) *)

(** the flag table *)
Definition hard (c : ctx) (d : defect) : bool :=
  match d with
  | HashTypeUndefined => has_flag c F_STRICTENC
  | ForkIdBit => has_flag c F_STRICTENC && negb (has_flag c F_FORKID)
  | NoForkIdBit => has_flag c F_STRICTENC && has_flag c F_FORKID
  | NotStrictDER => has_flag c F_DERSIG || has_flag c F_LOWS || has_flag c F_STRICTENC
  | HighS => has_flag c F_LOWS
  | PubKeyShape => has_flag c F_STRICTENC
  | VerifyFails => has_flag c F_NULLFAIL
  | Unparsable => has_flag c F_NULLFAIL
  end.

Definition pubkey_shape_ok (pk : bytes) : Prop :=
  (length pk = 33%nat /\ exists r, pk = x02 :: r \/ pk = x03 :: r) \/ (length pk = 65%nat /\ exists r, pk = x04 :: r).

Section Table.
Variable orc : sig_oracle.
Variable c : ctx.

Definition has_defect (pk sig : bytes) (shf : N) (h : bytes) (d : defect) : Prop :=
  match d with
  | HashTypeUndefined => base_defined shf = false
  | ForkIdBit => forkid_bit shf = true
  | NoForkIdBit => forkid_bit shf = false
  | NotStrictDER => ~ strict_der sig
  | HighS => strict_der sig /\ ~ strict_der_low_s sig
  | PubKeyShape => ~ pubkey_shape_ok pk
  | VerifyFails => orc_parse_pub orc pk = true /\ orc_parse_sig orc (uses_der_parser c) sig = true /\
                   orc_verify orc pk h sig (uses_der_parser c) = Some false
  | Unparsable => orc_parse_pub orc pk = false \/ orc_parse_sig orc (uses_der_parser c) sig = false
  end.

Lemma check_pubkey_enc_spec pk : check_pubkey_enc c pk = true <-> (has_flag c F_STRICTENC = true -> pubkey_shape_ok pk).
Proof.
  unfold check_pubkey_enc, pubkey_shape_ok. destruct (has_flag c F_STRICTENC); cbn [negb].
  2:{ split; [intros _ H; discriminate|reflexivity]. }
  destruct pk as [|b0 r].
  - split; [discriminate|]. intros H. destruct (H eq_refl) as [[H1 _]|[H1 _]]; discriminate.
  - rewrite orb_true_iff, !andb_true_iff, orb_true_iff, !N.eqb_eq, !Nat.eqb_eq.
    change 2%N with (b2n x02). change 3%N with (b2n x03). change 4%N with (b2n x04).
    split.
    + intros [[H1 [H2|H2]]|[H1 H2]] _; apply b2n_inj in H2; subst b0; [left|left|right]; split; eauto.
    + intros H. destruct (H eq_refl) as [[H1 (r' & [E|E])]|[H1 (r' & E)]]; inversion E; subst; [left|left|right]; auto.
Qed.

Lemma check_sig_enc_rule sig :
  check_sig_enc c sig = EncOk <->
  ((has_flag c F_DERSIG || has_flag c F_LOWS || has_flag c F_STRICTENC = true -> strict_der sig) /\
   (has_flag c F_LOWS = true -> strict_der_low_s sig)).
Proof.
  fold (enc_flags_on c). destruct (enc_flags_on c) eqn:Ef.
  - rewrite (check_sig_enc_iff c sig Ef). unfold strict_der, strict_der_low_s. split.
    + intros (R & Sv & H1 & H2 & H3 & H4 & H5). split; [intros _; exists R, Sv; auto|].
      intros Hl. exists R, Sv. repeat split; auto.
    + intros [Ha Hb]. destruct (has_flag c F_LOWS) eqn:El.
      * destruct (Hb eq_refl) as (R & Sv & H1 & H2 & H3 & H4 & H5). exists R, Sv. repeat split; auto.
      * destruct (Ha eq_refl) as (R & Sv & H1 & H2 & H3 & H4). exists R, Sv. repeat split; auto. discriminate.
  - rewrite (check_sig_enc_off c sig Ef). split; [|reflexivity]. intros _. split; [discriminate|].
    intros Hl. unfold enc_flags_on in Ef. rewrite Hl in Ef. rewrite orb_true_r in Ef. discriminate.
Qed.

Variable t : tx.
Variable i : N.

(** OP_CHECKSIG on a non-empty signature: a hard failure exactly when a defect is present that the
    flags make hard; otherwise the ECDSA verdict is pushed *)
Theorem checksig_table s idx pk full r sig hb up h :
  ds s = pk :: full :: r -> split_last full = Some (sig, hb) -> has_flag c F_BIP143 = false ->
  unparse (checksig_code_ops c s full (b2n hb)) = Some up -> sighash_for t i up (b2n hb) = SOk h ->
  orc_verify orc pk h sig (uses_der_parser c) <> None ->
  let verdict := orc_parse_pub orc pk && orc_parse_sig orc (uses_der_parser c) sig &&
                 match orc_verify orc pk h sig (uses_der_parser c) with Some true => true | _ => false end in
  ((exists d, has_defect pk sig (b2n hb) h d /\ hard c d = true) ->
     checksig_run orc t i c s idx false = Some OErr) /\
  (~ (exists d, has_defect pk sig (b2n hb) h d /\ hard c d = true) ->
     checksig_run orc t i c s idx false = Some (push_bool (set_ds s r) verdict)).
Proof.
  intros Hds Hsl Hb Hup Hh Hv verdict.
  assert (Hshf : (b2n hb < 256)%N) by apply b2n_lt.
  unfold checksig_run. rewrite Hds, Hsl. cbn [option_map finish_verify].
  rewrite (check_hash_type_rule c (b2n hb) Hshf Hb).
  pose proof (check_sig_enc_rule sig) as Hse. pose proof (check_sig_enc_total c sig) as Htot.
  pose proof (check_pubkey_enc_spec pk) as Hpk.
  (* decide the three checks *)
  destruct (hash_type_rule (has_flag c F_STRICTENC) (has_flag c F_FORKID) (b2n hb)) eqn:Eht; cbn [negb option_map].
  2:{ split; [reflexivity|]. intros Hn. exfalso. apply Hn. unfold hash_type_rule in Eht.
      destruct (has_flag c F_STRICTENC) eqn:Es; [|discriminate]. cbn [negb orb] in Eht.
      destruct (base_defined (b2n hb)) eqn:Ebd; [|exists HashTypeUndefined; cbn; rewrite Es; auto].
      cbn [andb] in Eht. destruct (forkid_bit (b2n hb)) eqn:Efb; destruct (has_flag c F_FORKID) eqn:Efk; try discriminate.
      - exists ForkIdBit. cbn. rewrite Es, Efk. auto.
      - exists NoForkIdBit. cbn. rewrite Es, Efk. auto. }
  destruct (check_sig_enc c sig) eqn:Ese; cbn [option_map].
  2:{ split; [reflexivity|]. intros Hn. exfalso. apply Hn.
      destruct (has_flag c F_DERSIG || has_flag c F_LOWS || has_flag c F_STRICTENC) eqn:Ef.
      - destruct (has_flag c F_LOWS) eqn:El.
        + assert (Hns : ~ strict_der_low_s sig).
          { intros Hl. assert (EncErr = EncOk); [|discriminate]. apply Hse. split; [intros _|intros _; exact Hl].
            destruct Hl as (R & Sv & H1 & H2 & H3 & H4 & _). exists R, Sv. auto. }
          destruct (check_sig_enc_total (mkCtx (N.lor (N.shiftl 1 F_DERSIG) 0) false 0 0 0 false) sig) as [Eo|Ee].
          * exists HighS. cbn [has_defect hard]. split; [split; [|exact Hns]|exact El].
            apply (der_check_spec (mkCtx (N.lor (N.shiftl 1 F_DERSIG) 0) false 0 0 0 false) sig); [reflexivity|reflexivity|exact Eo].
          * exists NotStrictDER. cbn [has_defect hard]. split; [|rewrite El; exact Ef]. intros Hsd.
            apply (der_check_spec (mkCtx (N.lor (N.shiftl 1 F_DERSIG) 0) false 0 0 0 false) sig) in Hsd; [congruence|reflexivity|reflexivity].
        + exists NotStrictDER. cbn [has_defect hard]. split; [|rewrite El; exact Ef]. intros Hsd.
          assert (EncErr = EncOk); [|discriminate]. apply Hse. split; [intros _; exact Hsd|discriminate].
      - assert (EncErr = EncOk); [|discriminate]. apply Hse. split; [discriminate|]. intros Hl. rewrite Hl, orb_true_r in Ef. discriminate. }
  2:{ destruct Htot; congruence. }
  destruct (check_pubkey_enc c pk) eqn:Epk; cbn [negb option_map].
  2:{ split; [reflexivity|]. intros Hn. exfalso. apply Hn. exists PubKeyShape. cbn.
      destruct (has_flag c F_STRICTENC) eqn:Es.
      - split; [|reflexivity]. intros Hok. assert (false = true); [|discriminate]. apply Hpk. auto.
      - assert (false = true); [|discriminate]. apply Hpk. discriminate. }
  rewrite Hup, Hh.
  (* no encoding defect is hard here *)
  assert (Hnoenc : forall d, has_defect pk sig (b2n hb) h d -> hard c d = true ->
                   d = VerifyFails \/ d = Unparsable).
  { intros d Hd Hh'. destruct d; cbn in Hd, Hh'; try discriminate; try (left; reflexivity); try (right; reflexivity); exfalso.
    - unfold hash_type_rule in Eht. rewrite Hh', Hd in Eht. discriminate.
    - unfold hash_type_rule in Eht. apply andb_true_iff in Hh'. destruct Hh' as [H1 H2]. rewrite H1, Hd in Eht.
      destruct (has_flag c F_FORKID); [discriminate|]. rewrite andb_false_r in Eht. discriminate.
    - unfold hash_type_rule in Eht. apply andb_true_iff in Hh'. destruct Hh' as [H1 H2]. rewrite H1, H2, Hd in Eht.
      rewrite andb_false_r in Eht. discriminate.
    - apply Hd. apply Hse; [reflexivity|exact Hh'].
    - destruct Hd as [_ Hd]. apply Hd. apply Hse; [reflexivity|exact Hh'].
    - apply Hd. apply Hpk; [reflexivity|exact Hh']. }
  assert (Hfull : Nat.ltb 0 (length full) = true).
  { unfold split_last in Hsl. destruct full as [|f0 fr]; [discriminate|reflexivity]. }
  unfold verdict, checksig_failed. rewrite Hfull, andb_true_r.
  destruct (orc_parse_pub orc pk) eqn:Epp; cbn [negb andb].
  2:{ destruct (has_flag c F_NULLFAIL) eqn:Enf.
      - split; [reflexivity|]. intros Hn. exfalso. apply Hn. exists Unparsable. cbn. rewrite Enf. auto.
      - split; [|reflexivity]. intros (d & Hd & Hh'). specialize (Hnoenc d Hd Hh'). destruct Hnoenc as [-> | ->]; cbn in Hh'; congruence. }
  destruct (orc_parse_sig orc (uses_der_parser c) sig) eqn:Eps; cbn [negb andb].
  2:{ destruct (has_flag c F_NULLFAIL) eqn:Enf.
      - split; [reflexivity|]. intros Hn. exfalso. apply Hn. exists Unparsable. cbn. rewrite Enf. auto.
      - split; [|reflexivity]. intros (d & Hd & Hh'). specialize (Hnoenc d Hd Hh'). destruct Hnoenc as [-> | ->]; cbn in Hh'; congruence. }
  destruct (orc_verify orc pk h sig (uses_der_parser c)) as [[|]|] eqn:Ev; [| |congruence].
  - split; [|reflexivity]. intros (d & Hd & Hh'). specialize (Hnoenc d Hd Hh'). destruct Hnoenc as [-> | ->]; cbn in Hd.
    + destruct Hd as (_ & _ & Hd). congruence.
    + destruct Hd; congruence.
  - destruct (has_flag c F_NULLFAIL) eqn:Enf.
    + split; [reflexivity|]. intros Hn. exfalso. apply Hn. exists VerifyFails. cbn. rewrite Enf. auto.
    + split; [|reflexivity]. intros (d & Hd & Hh'). specialize (Hnoenc d Hd Hh'). destruct Hnoenc as [-> | ->]; cbn in Hh'; congruence.
Qed.
End Table.


(** ** which opcode moves the start of the script code *)
Definition same_code (s s' : st) : Prop := last_sep s' = last_sep s /\ cur s' = cur s.
Definition keeps_code (s : st) (o : outcome) : Prop :=
  forall s', (o = OOk s' \/ o = OReturn s') -> same_code s s'.

Lemma kc_ok s s' : same_code s s' -> keeps_code s (OOk s').
Proof. intros E s2 [H|H]; inversion H; subst; exact E. Qed.
Lemma kc_err s : keeps_code s OErr.
Proof. intros s2 [H|H]; discriminate. Qed.
Lemma kc_panic s : keeps_code s OPanic.
Proof. intros s2 [H|H]; discriminate. Qed.

Lemma kc_verify s s0 : same_code s s0 -> keeps_code s (verify_top s0).
Proof.
  intros [E1 E2]. unfold verify_top. destruct (ds s0); [apply kc_err|]. destruct (as_bool l); [|apply kc_err].
  apply kc_ok. split; cbn; assumption.
Qed.
Lemma kc_finish s vf o : keeps_code s o -> (forall s', o <> OReturn s') -> keeps_code s (finish_verify vf o).
Proof.
  intros H Hr. unfold finish_verify. destruct vf; [|exact H]. destruct o as [s1| | |]; try exact H.
  apply kc_verify. apply H. left. reflexivity.
Qed.

Lemma checksig_keeps_code orc t i c s idx vf :
  keeps_code s (match checksig_run orc t i c s idx vf with Some o => o | None => OErr end).
Proof.
  unfold checksig_run. destruct (ds s) as [|pk [|full r]]; try apply kc_err.
  assert (Hg : forall b, keeps_code s (finish_verify vf (push_bool (set_ds s r) b))).
  { intros b. apply kc_finish; [apply kc_ok; split; reflexivity|discriminate]. }
  assert (He : keeps_code s (finish_verify vf OErr)) by (apply kc_finish; [apply kc_err|discriminate]).
  assert (Hp : keeps_code s (finish_verify vf OPanic)) by (apply kc_finish; [apply kc_panic|discriminate]).
  destruct (split_last full) as [[sg hb]|]; cbn [option_map];
    [|destruct (negb _); cbn [option_map]; [exact He|apply Hg]].
  destruct (negb _); cbn [option_map]; [exact He|].
  destruct (check_sig_enc c sg); cbn [option_map]; [|exact He|exact Hp].
  destruct (negb _); cbn [option_map]; [exact He|].
  destruct (unparse _); cbn [option_map]; [|exact He].
  destruct (sighash_for t i l (b2n hb)); cbn [option_map]; try exact He; try exact Hp.
  assert (Hgf : keeps_code s (finish_verify vf (checksig_failed c (set_ds s r) full))).
  { unfold checksig_failed. destruct (_ && _)%bool; [exact He|apply Hg]. }
  destruct (negb _); cbn [option_map]; [exact Hgf|].
  destruct (negb _); cbn [option_map]; [exact Hgf|].
  destruct (orc_verify _ _ _ _ _) as [[|]|]; cbn [option_map]; [apply Hg|exact Hgf|apply kc_err].
Qed.

Lemma checkmultisig_keeps_code orc t i c s idx vf :
  keeps_code s (match checkmultisig_run orc t i c s idx vf with Some o => o | None => OErr end).
Proof.
  destruct (checkmultisig_run orc t i c s idx vf) as [o|] eqn:E; [|apply kc_err].
  destruct o as [s'|s'| |]; try (intros s2 [H|H]; discriminate).
  - apply multisig_pops in E. destruct E as (nk & pks & ns & sigs & dummy & rest & b & _ & _ & _ & _ & _ & _ & _ & _ & _ & A & B).
    apply kc_ok. split; assumption.
  - exfalso. unfold checkmultisig_run in E.
    repeat match type of E with
    | match ?x with _ => _ end = _ => destruct x; try discriminate
    | (if ?x then _ else _) = _ => destruct x; try discriminate
    | (let _ := _ in _) = _ => cbv zeta in E
    end;
    injection E as E; unfold finish_verify, push_bool, push, verify_top in E;
    repeat match type of E with
    | match ?x with _ => _ end = _ => destruct x; try discriminate
    | (if ?x then _ else _) = _ => destruct x; try discriminate
    end.
Qed.

Ltac kc_leaf :=
  repeat (first [break_match | break_if]);
  first [apply kc_err | apply kc_panic | apply kc_ok; split; reflexivity | apply kc_verify; split; reflexivity
        | (intros s2 [H|H]; inversion H; subst; split; reflexivity) ].

Theorem handler_keeps_code orc t i c p idx s :
  (p_val p =? OP_CODESEPARATOR)%N = false ->
  keeps_code s (exec_handler (mk_sigops orc t i) c p idx s).
Proof.
  intros Hsep. unfold exec_handler.
  cbn [mk_sigops so_checksig so_checkmultisig].
  destruct (negb (p_real p)); [apply kc_panic|].
  unfold push_num, push_bool, push, unary_num, binary_num, nop_like.
  repeat match goal with
  | |- keeps_code _ (if (?v =? OP_CODESEPARATOR)%N then _ else _) => rewrite Hsep
  | |- keeps_code _ (if (?v =? OP_CHECKSIG)%N then _ else _) => destruct (v =? OP_CHECKSIG)%N; [apply checksig_keeps_code|]
  | |- keeps_code _ (if (?v =? OP_CHECKSIGVERIFY)%N then _ else _) => destruct (v =? OP_CHECKSIGVERIFY)%N; [apply checksig_keeps_code|]
  | |- keeps_code _ (if (?v =? OP_CHECKMULTISIG)%N then _ else _) => destruct (v =? OP_CHECKMULTISIG)%N; [apply checkmultisig_keeps_code|]
  | |- keeps_code _ (if (?v =? OP_CHECKMULTISIGVERIFY)%N then _ else _) => destruct (v =? OP_CHECKMULTISIGVERIFY)%N; [apply checkmultisig_keeps_code|]
  | |- keeps_code _ (if ?b then _ else _) => destruct b eqn:?
  end.
  all: try solve [kc_leaf].
  - destruct (pop_if_bool c s) as [[ok s0]|] eqn:E; [|apply kc_err].
    apply pop_if_bool_frame in E. destruct E as (b & r & _ & ->). apply kc_ok. split; reflexivity.
  - unfold push_num, push. destruct (ds s) as [|a [|b r]]; [apply kc_err|destruct (pop_num c a); apply kc_err|].
    destruct (pop_num c a); [|apply kc_err]. destruct (pop_num c b); [|apply kc_err].
    apply kc_verify. split; reflexivity.
Qed.

(** thread.executeOpcode: only an EXECUTED OP_CODESEPARATOR moves the start of the script code, to the
    opcode after itself; every other step (including signature operations, skipped branches, pushes)
    leaves it and the current script alone *)
Theorem step_code_start orc t i c p idx s s' :
  execute_opcode (mk_sigops orc t i) c p idx s = OOk s' \/ execute_opcode (mk_sigops orc t i) c p idx s = OReturn s' ->
  cur s' = cur s /\
  last_sep s' = if (p_val p =? OP_CODESEPARATOR)%N && branch_executing s && should_exec c s (p_val p)
                then S idx else last_sep s.
Proof.
  unfold execute_opcode. intros H.
  destruct (max_elem c <? lenZ (p_data p))%Z; [destruct H; discriminate|].
  destruct (is_disabled (p_val p) && (negb (after_genesis c) || should_exec c s (p_val p)))%bool; [destruct H; discriminate|].
  destruct (always_illegal (p_val p) && negb (after_genesis c))%bool; [destruct H; discriminate|].
  set (s1 := if (OP_16 <? p_val p)%N then set_nops s (nops s + 1) else s) in *.
  assert (Hs1 : last_sep s1 = last_sep s /\ cur s1 = cur s /\ branch_executing s1 = branch_executing s /\
                should_exec c s1 (p_val p) = should_exec c s (p_val p)).
  { unfold s1. destruct (OP_16 <? p_val p)%N; repeat split; reflexivity. }
  destruct Hs1 as (L1 & C1 & B1 & X1).
  destruct ((OP_16 <? p_val p)%N && (max_ops c <? nops s1)%Z)%bool; [destruct H; discriminate|].
  rewrite <- B1.
  destruct (p_val p =? OP_CODESEPARATOR)%N eqn:Esep.
  - (* the separator: not a conditional, not a push *)
    apply N.eqb_eq in Esep.
    assert (Hc : is_conditional (p_val p) = false) by (rewrite Esep; reflexivity).
    rewrite Hc in H. cbn [negb andb] in H. rewrite andb_true_r in H.
    destruct (branch_executing s1) eqn:Eb; cbn [negb andb] in *.
    + replace ((p_val p <=? OP_PUSHDATA4)%N) with false in H by (rewrite Esep; reflexivity).
      rewrite !andb_false_r in H. cbn [andb] in H.
      destruct (should_exec c s (p_val p)) eqn:Ex; cbn [negb] in H.
      * unfold exec_handler in H. 
        destruct (negb (p_real p)); [destruct H; discriminate|].
        rewrite Esep in H. cbn in H. destruct H as [H|H]; inversion H; subst. cbn. split; [exact C1|reflexivity].
      * destruct H as [H|H]; inversion H; subst. split; [exact C1|exact L1].
    + destruct H as [H|H]; inversion H; subst. split; [exact C1|exact L1].
  - cbn [andb].
    assert (Hk : forall o, keeps_code s1 o -> (o = OOk s' \/ o = OReturn s') -> cur s' = cur s /\ last_sep s' = last_sep s).
    { intros o Hko Ho. destruct (Hko s' Ho) as [A B]. split; congruence. }
    destruct (negb (branch_executing s1) && negb (is_conditional (p_val p)))%bool; [apply (Hk (OOk s1)); [apply kc_ok; split; reflexivity|exact H]|].
    destruct (has_flag c F_MINIMALDATA && branch_executing s1 && (p_val p <=? OP_PUSHDATA4)%N && should_exec c s (p_val p) && negb (minimal_push_ok p))%bool;
      [destruct H; discriminate|].
    destruct (negb (should_exec c s (p_val p)) && negb (is_conditional (p_val p)))%bool; [apply (Hk (OOk s1)); [apply kc_ok; split; reflexivity|exact H]|].
    apply (Hk _ (handler_keeps_code orc t i c p idx s1 Esep) H).
Qed.

(** ** OP_CHECKSIG: when the three encoding checks pass, the result is go-bk's verdict on the
    specification's digest of the script code *)
Theorem checksig_result orc t i c s idx pk full r sig hb up inp :
  ds s = pk :: full :: r -> split_last full = Some (sig, hb) ->
  check_hash_type c (b2n hb) = true -> check_sig_enc c sig = EncOk -> check_pubkey_enc c pk = true ->
  unparse (checksig_code_ops c s full (b2n hb)) = Some up -> (lenN up < two64)%N ->
  wf_tx t -> nth_error (tx_ins t) (N.to_nat i) = Some inp -> (i < 2147483648)%N ->
  (N.of_nat (length (tx_outs t)) < 2147483648)%N ->
  let h := digest_spec (wire_tx t) (N.to_nat i) up (in_sats inp) (b2n hb) in
  checksig_run orc t i c s idx false =
  if orc_parse_pub orc pk && orc_parse_sig orc (uses_der_parser c) sig then
    match orc_verify orc pk h sig (uses_der_parser c) with
    | None => None
    | Some true => Some (push_bool (set_ds s r) true)
    | Some false => Some (checksig_failed c (set_ds s r) full)
    end
  else Some (checksig_failed c (set_ds s r) full).
Proof.
  intros Hds Hsl H1 H2 H3 Hup Hlen Hwf Hn Hi Ho h.
  unfold checksig_run. rewrite Hds, Hsl, H1, H2, H3, Hup. cbn [negb].
  rewrite (sighash_for_spec t i up (b2n hb) inp Hwf Hn Hi Ho Hlen (b2n_lt hb)). fold h.
  destruct (orc_parse_pub orc pk); cbn [negb andb option_map finish_verify]; [|reflexivity].
  destruct (orc_parse_sig orc (uses_der_parser c) sig); cbn [negb option_map finish_verify]; [|reflexivity].
  destruct (orc_verify orc pk h sig (uses_der_parser c)) as [[|]|]; reflexivity.
Qed.

(** an empty signature: the key encoding is still checked (STRICTENC), then false is pushed *)
Theorem checksig_empty orc t i c s idx pk r :
  ds s = pk :: [] :: r ->
  checksig_run orc t i c s idx false =
  if check_pubkey_enc c pk then Some (push_bool (set_ds s r) false) else Some OErr.
Proof. intros Hds. unfold checksig_run. rewrite Hds. cbn [split_last rev]. destruct (check_pubkey_enc c pk); reflexivity. Qed.

(** a key or signature count longer than 4 bytes is an error, before and after genesis, with or without MINIMALDATA *)
Theorem multisig_long_key_count orc t i c s idx vf nk d :
  ds s = nk :: d -> (4 < length nk)%nat -> checkmultisig_run orc t i c s idx vf = Some OErr.
Proof.
  intros Hds Hl. unfold checkmultisig_run, pop_count, make_num. rewrite Hds.
  replace (4 <? Z.of_nat (length nk))%Z with true by lia. reflexivity.
Qed.

Theorem multisig_long_sig_count orc t i c s idx vf nk pks ns d a :
  ds s = nk :: pks ++ ns :: d -> pop_count c nk = Some a -> to_int32 a = Z.of_nat (length pks) ->
  (4 < length ns)%nat -> checkmultisig_run orc t i c s idx vf = Some OErr.
Proof.
  intros Hds Ha Ha' Hl. unfold checkmultisig_run. rewrite Hds, Ha. cbv zeta. rewrite Ha'.
  replace (Z.of_nat (length pks) <? 0)%Z with false by lia.
  destruct (max_pubkeys c <? Z.of_nat (length pks))%Z; [reflexivity|].
  destruct (max_ops c <? nops s + Z.of_nat (length pks))%Z; [reflexivity|].
  rewrite (pop_n_app _ pks _ eq_refl). unfold pop_count, make_num.
  replace (4 <? Z.of_nat (length ns))%Z with true by lia. reflexivity.
Qed.

(** the counts are read with the 4-byte limit whatever the era: [pop_count] does not look at it *)
Theorem pop_count_spec c b :
  pop_count c b = if (4 <? Z.of_nat (length b))%Z then None
                  else if has_flag c F_MINIMALDATA && negb (is_minimal b) then None else Some (num_dec b).
Proof.
  unfold pop_count, make_num. destruct (4 <? Z.of_nat (length b))%Z; [reflexivity|].
  destruct (has_flag c F_MINIMALDATA && negb (is_minimal b)); reflexivity.
Qed.

(** the loop at the level opcodeCheckMultiSig runs it: hard failures only from an element that fails an enabled check *)
Theorem ms_loop_err orc t i c script pks sigs :
  ms_loop orc t i c script pks sigs (S (length pks)) (repeat None (length sigs)) (-1)
          (Z.of_nat (length pks) + 1) 0 (Z.of_nat (length sigs)) = LErr ->
  (exists raw sg hb, In raw sigs /\ split_last raw = Some (sg, hb) /\
                     (check_hash_type c (b2n hb) = false \/ check_sig_enc c sg = EncErr)) \/
  (exists pk, In pk pks /\ check_pubkey_enc c pk = false).
Proof. rewrite ms_loop_initial. apply ms_struct_err. Qed.

(** ** the table for the 64 subsets, the refutation of the unconditional sigops_ok, and example data *)
Definition flags_of (strictenc dersig lows nulldummy nullfail forkid : bool) : ctx :=
  let bit (b : bool) (k : N) := if b then N.shiftl 1 k else 0%N in
  mkCtx (normalise_flags (N.lor (bit strictenc F_STRICTENC) (N.lor (bit dersig F_DERSIG) (N.lor (bit lows F_LOWS)
          (N.lor (bit nulldummy F_STRICTMULTISIG) (N.lor (bit nullfail F_NULLFAIL) (bit forkid F_FORKID)))))))
        true 0 1 0 false.

Lemma flag_table_64 : forall se de lo nd nf fk,
  let c := flags_of se de lo nd nf fk in
  hard c HashTypeUndefined = (se || fk) /\
  hard c ForkIdBit = ((se || fk) && negb fk) /\
  hard c NoForkIdBit = fk /\
  hard c NotStrictDER = (de || lo || se || fk) /\
  hard c HighS = lo /\
  hard c PubKeyShape = (se || fk) /\
  hard c VerifyFails = nf /\
  hard c Unparsable = nf.
Proof. intros [|] [|] [|] [|] [|] [|]; vm_compute; repeat split. Qed.

Definition bad_tx : tx := mkTx 1 [mkInput [] 0 [] 0 0 None] [] 0.
Definition any_oracle : sig_oracle := mkOracle (fun _ => true) (fun _ _ => true) (fun _ _ _ _ => Some true).
(** a transaction whose input has no previous txid does not survive Tx.Clone's re-parse (log.Fatal in Go) *)
Lemma sigops_ok_unconditional_refuted : exists orc t i, ~ sigops_ok (mk_sigops orc t i).
Proof.
  exists any_oracle, bad_tx, 0%N. intros H.
  destruct (H (mkCtx 0 true 0 1 0 false) (mkSt [[x02]; [x30; x01]] [] [] [] 0 0 false []) 0%nat false) as [Hp _].
  apply Hp. vm_compute. reflexivity.
Qed.

Definition ex_tx : tx :=
  mkTx 1 [mkInput (repeat_byte 32 xab) 3 [x51] 4294967295 5000 (Some [x76; xa9; x88; xac]);
          mkInput (repeat_byte 32 xcd) 0 [] 7 1 (Some [])]
         [mkOutput 1000 [x6a]] 0.

Lemma matching_hypotheses_example :
  oracle_total any_oracle /\
  Forall (key_well_encoded (flags_of false false false false false false)) [[x02]] /\
  Forall (sig_well_encoded ex_tx 1 (flags_of false false false false false false) []) [[x30; x01]].
Proof.
  split; [intros pk h sg der; discriminate|]. split; [repeat constructor|].
  constructor; [|constructor]. unfold sig_well_encoded. cbn [split_last rev app].
  split; [reflexivity|]. split; [reflexivity|].
  eexists. eexists. split; [reflexivity|]. vm_compute. reflexivity.
Qed.
