(** Input.Bytes (input.go), as printed from the Go source, is [input_bytes false] of model/Tx.v: with [clear = false]
    on the input itself (a nil and an empty UnlockingScript both give the length byte 0), with [clear = true] on the
    input with an empty unlocking script.  The previous output's satoshis and script are not read. *)
From Coq Require Import List ZArith NArith Bool Lia ZifyN ZifyNat ZifyBool.
From Coq Require Import Strings.Byte.
From GoBT Require Import lib.Bytes lib.VarInt lib.GoSem lib.GoTx gen.Funcs proofs.GenFuncsTac proofs.GenFuncsTxTac model.Tx.
From GoBT Require Import proofs.GenFuncs_LittleEndianBytes.
Import ListNotations.
Ltac Zify.zify_post_hook ::= Z.div_mod_to_equations.
Local Open Scope Z_scope.

Ltac tx_extra ::= rewrite LittleEndianBytes_4.

Lemma Input_Bytes_is_model (clear : bool) txid vout us sq sats ps : u32 vout -> u32 sq -> len_ok (script_of us) ->
  Input_Bytes clear txid vout us sq =
  Val (input_bytes false (mkInput txid (Z.to_N vout) (if clear then [] else script_of us) (Z.to_N sq) sats ps)).
Proof.
  intros Hv Hq Hl. unfold Input_Bytes.
  destruct clear; [|destruct us as [s|]]; cbn [script_of] in *; tx_norm; apply Val_inj;
    unfold input_bytes, script_bytes, lenN, varint_bytes;
    cbn [in_txid in_vout in_unlock in_seq length N.of_nat N.ltb N.compare]; tx_bytes_eq.
Qed.

(** over the printed record *)
Lemma Input_Bytes_go (g : go_Input) : go_input_ok g ->
  Input_Bytes false (Input_previousTxID g) (Input_PreviousTxOutIndex g) (Input_UnlockingScript g) (Input_SequenceNumber g) =
  Val (input_bytes false (input_of_go g)).
Proof.
  intros (Hv & Hq & _ & Hl & _). unfold input_of_go. apply (Input_Bytes_is_model false); assumption.
Qed.
