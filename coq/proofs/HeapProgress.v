(** RUN-level progress of the sharing machine of model/Heap.v (C08, continuing proofs/HeapRefine.v, Part B).

    HeapRefine.v proves that ONE step of the heap machine is not stuck provided a data push's slice of the
    script reads back the parsed opcode's data.  Here that hypothesis is discharged from the parser
    ([pushes_ok]), carried along a whole script ([h_run_ops_not_stuck]), through the drivers (including the
    pay-to-script-hash re-entry, where the script is a saved stack item) up to [h_engine_execute]. *)
From Coq Require Import List NArith ZArith Lia Bool.
From Coq Require Import Strings.Byte.
From GoBT Require Import lib.Bytes model.ScriptNum model.Interp model.Heap.
From GoBT Require Import proofs.InterpTotal proofs.InterpFrame proofs.HeapRefine.
Import ListNotations.
Local Open Scope Z_scope.

(** * 1. The parser: every data push is a view of the script *)

(** a real data-push opcode (OP_0 pushes nil and views nothing) *)
Definition is_data_push (p : pop) : bool :=
  p_real p && (p_val p <=? OP_PUSHDATA4)%N && (0 <? p_val p)%N.

(** walking [ops] over [bs] from byte offset [off]: the data of every push is what the script holds at the
    position [rebuild] cuts, and that position lies inside the script *)
Fixpoint pushes_ok (bs : bytes) (off : nat) (ops : list pop) : Prop :=
  match ops with
  | [] => True
  | p :: rest =>
      (is_data_push p = true ->
       firstn (length (p_data p)) (skipn (off + data_off p) bs) = p_data p /\
       (off + data_off p + length (p_data p) <= length bs)%nat) /\
      pushes_ok bs (off + op_size p) rest
  end.

Lemma skipn_cons_eq {A} (off : nat) (l : list A) x r : skipn off l = x :: r -> skipn (off + 1) l = r.
Proof. intros H. rewrite skipn_add, H. reflexivity. Qed.

Lemma skipn_length_eq {A} (off : nat) (l tl : list A) :
  skipn off l = tl -> (off <= length l)%nat -> (length l = off + length tl)%nat.
Proof. intros <- Hle. rewrite skipn_length. lia. Qed.

Lemma op_length_one_not_push v : op_length v = 1 -> (v <=? OP_PUSHDATA4)%N && (0 <? v)%N = false.
Proof.
  unfold op_length, OP_PUSHDATA4. intros H.
  destruct ((1 <=? v)%N && (v <=? 75)%N) eqn:E1.
  { apply andb_true_iff in E1. destruct E1 as [E1 _]. apply N.leb_le in E1. lia. }
  destruct (v =? 76)%N eqn:E2; [discriminate H|].
  destruct (v =? 77)%N eqn:E3; [discriminate H|].
  destruct (v =? 78)%N eqn:E4; [discriminate H|].
  apply N.eqb_neq in E2, E3, E4.
  destruct (v <=? 78)%N eqn:L1; [|reflexivity]. destruct (0 <? v)%N eqn:L2; [|reflexivity].
  apply N.leb_le in L1. apply N.ltb_lt in L2. exfalso.
  apply andb_false_iff in E1. destruct E1 as [E1|E1]; [apply N.leb_gt in E1|apply N.leb_gt in E1]; lia.
Qed.

Lemma parse_ops_pushes_ok eoc : forall fuel tl depth ops,
  parse_ops fuel eoc tl depth = Some ops ->
  forall bs off, skipn off bs = tl -> (off <= length bs)%nat -> pushes_ok bs off ops.
Proof.
  induction fuel as [|f IH]; intros tl depth ops H bs off Htl Hoff; cbn [parse_ops] in H.
  - destruct tl; [|discriminate H]. injection H as <-. exact I.
  - destruct tl as [|b r]; [injection H as <-; exact I|].
    pose proof (skipn_length_eq _ _ _ Htl Hoff) as Hlen. cbn [length] in Hlen.
    pose proof (skipn_cons_eq _ _ _ _ Htl) as Hr.
    set (v := b2n b) in *.
    destruct (eoc && requires_tx v); [discriminate H|].
    set (depth' := if (v =? OP_IF)%N || (v =? OP_NOTIF)%N then depth + 1
                   else if (v =? OP_ENDIF)%N then depth - 1 else depth) in *.
    destruct ((v =? OP_RETURN)%N && (depth =? 0)) eqn:Eret.
    + (* top-level OP_RETURN, then at most one synthetic opcode that is not real *)
      apply andb_true_iff in Eret. destruct Eret as [Ev _]. apply N.eqb_eq in Ev.
      injection H as <-. cbn [pushes_ok]. split.
      * unfold is_data_push. cbn [p_real p_val]. rewrite Ev. intros HH. discriminate HH.
      * destruct r as [|x [|y r']]; cbn [pushes_ok]; [exact I| |];
          (split; [|exact I]); unfold is_data_push; cbn [p_real andb]; intros HH; discriminate HH.
    + remember (op_length v) as l eqn:El.
      destruct (l =? 1) eqn:E1.
      * (* a one-byte opcode: not a data push *)
        apply Z.eqb_eq in E1. subst l.
        destruct (parse_ops f eoc r depth') as [ops'|] eqn:Ep; [|discriminate H].
        injection H as <-. cbn [pushes_ok]. split.
        -- unfold is_data_push. cbn [p_real p_val andb].
           rewrite (op_length_one_not_push v E1). intros HH. discriminate HH.
        -- unfold op_size. cbn [p_len p_data]. cbn [Z.ltb Z.compare Z.to_nat Pos.to_nat Pos.iter_op].
           eapply IH; [exact Ep|exact Hr|lia].
      * destruct (1 <? l) eqn:E2.
        -- (* a direct push of l-1 bytes *)
           apply Z.ltb_lt in E2.
           set (n := Z.to_nat (l - 1)) in *.
           destruct (Nat.ltb (length r) n) eqn:En; [discriminate H|]. apply PeanoNat.Nat.ltb_ge in En.
           destruct (parse_ops f eoc (skipn n r) depth') as [ops'|] eqn:Ep; [|discriminate H].
           injection H as <-. cbn [pushes_ok].
           assert (Hpos : (0 <? l) = true) by (apply Z.ltb_lt; lia).
           assert (Hdo : data_off (mkPop v l (firstn n r) true) = 1%nat)
             by (unfold data_off; cbn [p_len]; rewrite Hpos; reflexivity).
           assert (Hsz : op_size (mkPop v l (firstn n r) true) = (1 + n)%nat)
             by (unfold op_size; cbn [p_len]; rewrite Hpos; subst n; lia).
           rewrite Hdo, Hsz. cbn [p_data]. rewrite firstn_length_le by exact En. split.
           ++ intros _. rewrite Hr. split; [reflexivity|lia].
           ++ eapply IH; [exact Ep| |lia].
              rewrite PeanoNat.Nat.add_assoc, skipn_add, Hr. reflexivity.
        -- (* OP_PUSHDATA1/2/4: a length field of -l bytes, then the data *)
           apply Z.ltb_ge in E2.
           set (n := Z.to_nat (- l)) in *.
           destruct (Nat.ltb (length r) n) eqn:En; [discriminate H|]. apply PeanoNat.Nat.ltb_ge in En.
           set (dlN := le_dec (firstn n r)) in *.
           destruct (N.of_nat (length (skipn n r)) <? dlN)%N eqn:Ed; [discriminate H|]. apply N.ltb_ge in Ed.
           set (dl := N.to_nat dlN) in *.
           destruct (parse_ops f eoc (skipn dl (skipn n r)) depth') as [ops'|] eqn:Ep; [|discriminate H].
           injection H as <-. cbn [pushes_ok].
           assert (Hdl : (dl <= length (skipn n r))%nat) by (subst dl; lia).
           assert (Hneg : (0 <? l) = false) by (apply Z.ltb_ge; apply Z.eqb_neq in E1; lia).
           assert (Hdo : data_off (mkPop v l (firstn dl (skipn n r)) true) = (1 + n)%nat)
             by (unfold data_off; cbn [p_len]; rewrite Hneg; reflexivity).
           assert (Hsz : op_size (mkPop v l (firstn dl (skipn n r)) true) = (1 + n + dl)%nat).
           { unfold op_size. cbn [p_len p_data]. rewrite Hneg, firstn_length_le by exact Hdl. reflexivity. }
           rewrite Hdo, Hsz. cbn [p_data]. rewrite firstn_length_le by exact Hdl.
           assert (Hsk : skipn (off + (1 + n)) bs = skipn n r).
           { rewrite PeanoNat.Nat.add_assoc, skipn_add, Hr. reflexivity. }
           rewrite skipn_length in Hdl. split.
           ++ intros _. rewrite Hsk. split; [reflexivity|lia].
           ++ eapply IH; [exact Ep| |lia].
              replace (off + (1 + n + dl))%nat with (off + (1 + n) + dl)%nat by lia.
              rewrite skipn_add, Hsk. reflexivity.
Qed.

Theorem parse_script_pushes_ok : forall eoc bs ops, parse_script eoc bs = Some ops -> pushes_ok bs 0 ops.
Proof.
  intros eoc bs ops H. unfold parse_script in H.
  eapply parse_ops_pushes_ok; [exact H|reflexivity|lia].
Qed.

(** * 2. One script *)

(** no REAL opcode is a signature check.  (The synthetic "Unformatted Data" opcode after a top-level
    OP_RETURN has no handler: whatever its value, executing it is a Go panic, not a signature check.) *)
Definition op_sigop_free (p : pop) : bool := negb (p_real p && is_sigop (p_val p)).
Definition sigop_free (ops : list pop) : bool := forallb op_sigop_free ops.

(** the stronger, simpler condition implies it *)
Lemma sigop_free_of_all ops : forallb (fun p => negb (is_sigop (p_val p))) ops = true -> sigop_free ops = true.
Proof.
  unfold sigop_free. rewrite !forallb_forall. intros H p Hp. specialize (H p Hp).
  unfold op_sigop_free. destruct (is_sigop (p_val p)); [discriminate H|]. rewrite andb_false_r. reflexivity.
Qed.

(** the synthetic opcode: an error, a skipped opcode, or a panic — never stuck *)
Lemma h_step_unreal_not_stuck so c sc off p idx s hs :
  p_real p = false -> reads hs (ds s) (als s) = true -> h_step so c sc off p idx s hs <> HStuck.
Proof.
  intros Hreal Hr. unfold h_step.
  destruct (execute_opcode_cases so c p idx s) as [E|[(Hreach & s1 & E & Hd1 & Ha1)|(Hreach & n & E)]].
  - rewrite E. discriminate.
  - rewrite E, (rebuild_not_reached _ _ _ _ _ _ _ Hreach), Hd1, Ha1, Hr. discriminate.
  - rewrite E. unfold exec_handler. rewrite Hreal. cbn [negb]. discriminate.
Qed.

(** one step, with the push hypothesis of [h_step_not_stuck] in the parser's terms *)
Lemma h_step_progress so c sc bs off p idx s hs :
  op_sigop_free p = true -> reads hs (ds s) (als s) = true ->
  in_bounds (h_heap hs) sc = true -> rd (h_heap hs) sc = bs ->
  (is_data_push p = true ->
   firstn (length (p_data p)) (skipn (off + data_off p) bs) = p_data p /\
   (off + data_off p + length (p_data p) <= length bs)%nat) ->
  (1 <= length (h_heap hs))%nat ->
  h_step so c sc off p idx s hs <> HStuck.
Proof.
  intros Hsf Hr Hin Hrd Hpush Hlen.
  destruct (p_real p) eqn:Hreal; [|apply h_step_unreal_not_stuck; assumption].
  apply h_step_not_stuck; try assumption.
  - unfold op_sigop_free in Hsf. rewrite Hreal in Hsf. cbn [andb] in Hsf.
    destruct (is_sigop (p_val p)); [discriminate Hsf|reflexivity].
  - intros E1 E2. destruct Hpush as [Hd Hb].
    { unfold is_data_push. rewrite Hreal, E1, E2. reflexivity. }
    assert (Hsl : sl_len sc = length bs) by (rewrite <- Hrd; symmetry; apply rd_length; exact Hin).
    split.
    + rewrite rd_sub by lia. rewrite Hrd. exact Hd.
    + apply in_bounds_sub; [exact Hin|lia].
Qed.

Lemma extends_length h h' : extends h h' -> (length h <= length h')%nat.
Proof. intros [e ->]. rewrite app_length. lia. Qed.

Lemma rd_extends' h h' x : extends h h' -> in_bounds h x = true -> rd h' x = rd h x.
Proof. intros [e ->]. apply rd_extends. Qed.

Lemma in_bounds_extends' h h' x : extends h h' -> in_bounds h x = true -> in_bounds h' x = true.
Proof. intros [e ->]. apply in_bounds_extends. Qed.

(** the script slice [sc] holds [bs] throughout, because the heap only grows *)
Theorem h_run_ops_not_stuck so c sc bs : forall ops idx off s hs hacc,
  in_bounds (h_heap hs) sc = true -> rd (h_heap hs) sc = bs ->
  pushes_ok bs off ops -> sigop_free ops = true ->
  reads hs (ds s) (als s) = true -> (1 <= length (h_heap hs))%nat ->
  fst (h_run_ops so c sc ops idx off s hs hacc) <> HSStuck.
Proof.
  induction ops as [|p rest IH]; intros idx off s hs hacc Hin Hrd Hp Hsf Hr Hlen; cbn [h_run_ops].
  - cbn [fst]. discriminate.
  - cbn [pushes_ok] in Hp. destruct Hp as [Hp1 Hp2].
    unfold sigop_free in Hsf. cbn [forallb] in Hsf. apply andb_true_iff in Hsf. destruct Hsf as [Hsf1 Hsf2].
    pose proof (h_step_progress so c sc bs off p idx s hs Hsf1 Hr Hin Hrd Hp1 Hlen) as Hns.
    pose proof (h_step_sound_match so c sc off p idx s hs) as Hc.
    destruct (h_step so c sc off p idx s hs) as [s1 hs1|s1 hs1| | |]; cbn [fst]; try discriminate;
      [|congruence].
    destruct Hc as (_ & Hx & Hr1).
    destruct (max_stack c <? lenZ (ds s1) + lenZ (als s1)); [cbn [fst]; discriminate|].
    destruct rest as [|p2 rest2]; [cbn [fst]; discriminate|].
    apply IH; try assumption.
    + eapply in_bounds_extends'; eauto.
    + rewrite (rd_extends' _ _ _ Hx Hin). exact Hrd.
    + pose proof (extends_length _ _ Hx). lia.
Qed.

(** what a script run leaves behind when it is not stuck (the part of [h_run_ops_refines] that does not
    mention snapshots, for any two accumulators) *)
Lemma h_run_ops_end so c sc : forall ops idx off s hs hacc,
  reads hs (ds s) (als s) = true ->
  match fst (h_run_ops so c sc ops idx off s hs hacc) with
  | HSEnd s2 hs2 =>
      reads hs2 (ds s2) (als s2) = true /\ extends (h_heap hs) (h_heap hs2) /\
      forall acc, fst (run_ops so c ops idx s acc) = SEnd s2
  | HSReturn s2 hs2 => reads hs2 (ds s2) (als s2) = true /\ extends (h_heap hs) (h_heap hs2)
  | _ => True
  end.
Proof.
  induction ops as [|p rest IH]; intros idx off s hs hacc Hr; cbn [h_run_ops run_ops].
  - cbn [fst]. split; [exact Hr|]. split; [apply extends_refl|reflexivity].
  - pose proof (h_step_sound_match so c sc off p idx s hs) as Hc.
    destruct (h_step so c sc off p idx s hs) as [s1 hs1|s1 hs1| | |]; cbn [fst]; try exact I.
    + destruct Hc as (Ee & Hx & Hr1). rewrite Ee.
      destruct (max_stack c <? lenZ (ds s1) + lenZ (als s1)); [exact I|].
      destruct rest as [|p2 rest2].
      * cbn [fst]. split; [exact Hr1|]. split; [exact Hx|reflexivity].
      * specialize (IH (S idx) (off + op_size p)%nat s1 hs1 (hsnap hs1 :: hacc) Hr1).
        destruct (fst (h_run_ops so c sc (p2 :: rest2) (S idx) (off + op_size p) s1 hs1 (hsnap hs1 :: hacc)))
          as [s2 hs2|s2 hs2| | |]; try exact I.
        -- destruct IH as (A & B & C). split; [exact A|]. split; [eapply extends_trans; eauto|].
           intros acc. apply C.
        -- destruct IH as (A & B). split; [exact A|eapply extends_trans; eauto].
    + destruct Hc as (_ & Hx & Hr1). split; assumption.
Qed.

(** * 3. The drivers *)

(** every parse of [bs] under the parser flag [e] is free of signature checks *)
Definition script_ok (e : bool) (bs : bytes) : Prop :=
  forall ops, parse_script e bs = Some ops -> sigop_free ops = true.

(** the condition on the saved first stack: its top item, should it be run as a script *)
Definition saved_ok (e : bool) (saved : list bytes) : Prop :=
  match saved with script :: _ => script_ok e script | [] => True end.

Lemma h_finish_not_stuck c d hs acc : h_finish c d hs acc <> HResStuck.
Proof. unfold h_finish. discriminate. Qed.

Lemma h_run_redeem_not_stuck so c saved hsaved s hs hacc :
  reads hs (ds s) (als s) = true ->
  all_in (h_heap hs) hsaved -> map (rd (h_heap hs)) hsaved = saved ->
  (1 <= length (h_heap hs))%nat ->
  saved_ok (c_err_on_checksig c) saved ->
  h_run_redeem so c saved hsaved s hs hacc <> HResStuck.
Proof.
  intros Hr Hin Hmap Hlen Hok. unfold h_run_redeem.
  destruct (negb (check_error_condition c false (ds s))); [discriminate|].
  destruct saved as [|script below]; [discriminate|].
  destruct hsaved as [|hscript hbelow]; [discriminate Hmap|].
  cbn [saved_ok] in Hok.
  destruct (parse_script (c_err_on_checksig c) script) as [ops|] eqn:Ep; [|discriminate].
  cbv zeta.
  set (s' := set_ds (shift_script s ops) below).
  set (hs' := mkH (h_heap hs) hbelow (h_as hs)).
  destruct ops as [|p0 ops0]; [apply h_finish_not_stuck|].
  cbn [map] in Hmap. injection Hmap as Hscript Hbelow.
  inversion Hin as [|? ? Bscript Hin']; subst.
  assert (Hr' : reads hs' (ds s') (als s') = true).
  { apply reads_spec in Hr. destruct Hr as (H1 & H2 & H3 & H4).
    apply reads_spec. subst hs' s'. cbn [h_heap h_ds h_as ds als set_ds shift_script]. auto. }
  pose proof (h_run_ops_not_stuck so c hscript (rd (h_heap hs) hscript) (p0 :: ops0) 0 0 s' hs' (hsnap hs' :: hacc)
                Bscript eq_refl (parse_script_pushes_ok _ _ _ Ep) (Hok _ Ep) Hr' Hlen) as Hns.
  destruct (h_run_ops so c hscript (p0 :: ops0) 0 0 s' hs' (hsnap hs' :: hacc)) as [e hacc'].
  cbn [fst] in Hns.
  destruct e as [s2 hs2|s2 hs2|h|h|]; try discriminate; try apply h_finish_not_stuck; [|congruence].
  destruct (end_script s2); [apply h_finish_not_stuck|discriminate].
Qed.

Lemma h_run_lock_not_stuck so c bip16 saved hsaved sc lb lock s hs hacc :
  reads hs (ds s) (als s) = true ->
  all_in (h_heap hs) hsaved -> map (rd (h_heap hs)) hsaved = saved ->
  in_bounds (h_heap hs) sc = true -> rd (h_heap hs) sc = lb ->
  pushes_ok lb 0 lock -> sigop_free lock = true ->
  (1 <= length (h_heap hs))%nat ->
  (bip16 && negb (after_genesis c) = true -> saved_ok (c_err_on_checksig c) saved) ->
  h_run_lock so c bip16 saved hsaved sc lock s hs hacc <> HResStuck.
Proof.
  intros Hr Hin Hmap Bsc Hrd Hp Hsf Hlen Hok. unfold h_run_lock.
  pose proof (h_run_ops_not_stuck so c sc lb lock 0 0 s hs hacc Bsc Hrd Hp Hsf Hr Hlen) as Hns.
  pose proof (h_run_ops_end so c sc lock 0 0 s hs hacc Hr) as Hend.
  destruct (h_run_ops so c sc lock 0 0 s hs hacc) as [e hacc'].
  cbn [fst] in Hns, Hend.
  destruct e as [s2 hs2|s2 hs2|h|h|]; try discriminate; try apply h_finish_not_stuck; [|congruence].
  destruct Hend as (Hr2 & Hx & _).
  destruct (end_script s2) as [s3|] eqn:Ees; [|discriminate].
  apply end_script_some in Ees. subst s3.
  destruct (bip16 && negb (after_genesis c)); [|apply h_finish_not_stuck].
  apply h_run_redeem_not_stuck.
  - cbn [ds als set_als]. eapply reads_clear_alt. exact Hr2.
  - cbn [clear_alt h_heap]. eapply all_in_extends; eauto.
  - cbn [clear_alt h_heap]. rewrite (map_rd_extends _ _ _ Hx Hin). exact Hmap.
  - cbn [clear_alt h_heap]. pose proof (extends_length _ _ Hx). lia.
  - apply Hok. reflexivity.
Qed.

Lemma whole_in_bounds0 ub lb : in_bounds [ub; lb] (whole 0 ub) = true.
Proof. apply in_bounds_spec. cbn. lia. Qed.
Lemma whole_in_bounds1 ub lb : in_bounds [ub; lb] (whole 1 lb) = true.
Proof. apply in_bounds_spec. cbn. lia. Qed.
Lemma whole_rd0 ub lb : rd [ub; lb] (whole 0 ub) = ub.
Proof. unfold rd, whole. cbn [sl_arr sl_off sl_len nth skipn]. apply firstn_all. Qed.
Lemma whole_rd1 ub lb : rd [ub; lb] (whole 1 lb) = lb.
Proof. unfold rd, whole. cbn [sl_arr sl_off sl_len nth skipn]. apply firstn_all. Qed.

(** [top_ok]: the condition on the redeem script, stated on the value machine's run of the unlocking script *)
Theorem h_execute_not_stuck so c bip16 ub lb unlock lock :
  pushes_ok ub 0 unlock -> sigop_free unlock = true ->
  pushes_ok lb 0 lock -> sigop_free lock = true ->
  (bip16 && negb (after_genesis c) = true ->
   forall s1, fst (run_ops so c unlock 0 (init_st unlock) []) = SEnd s1 ->
              saved_ok (c_err_on_checksig c) (ds s1)) ->
  h_execute so c bip16 ub lb unlock lock <> HResStuck.
Proof.
  intros Hpu Hsu Hpl Hsl Hok. unfold h_execute. cbv zeta.
  set (hs0 := mkH [ub; lb] [] []).
  assert (Hlen0 : (1 <= length (h_heap hs0))%nat) by (cbn; lia).
  destruct unlock as [|u0 unlock0].
  { destruct lock as [|l0 lock0]; [discriminate|].
    apply (h_run_lock_not_stuck so c bip16 [] [] (whole 1 lb) lb);
      [apply reads_init|constructor|reflexivity|apply whole_in_bounds1|apply whole_rd1
      |exact Hpl|exact Hsl|exact Hlen0|intros _; exact I]. }
  pose proof (h_run_ops_not_stuck so c (whole 0 ub) ub (u0 :: unlock0) 0 0 (init_st (u0 :: unlock0)) hs0 []
                (whole_in_bounds0 ub lb) (whole_rd0 ub lb) Hpu Hsu (reads_init ub lb _) Hlen0) as Hns.
  pose proof (h_run_ops_end so c (whole 0 ub) (u0 :: unlock0) 0 0 (init_st (u0 :: unlock0)) hs0 []
                (reads_init ub lb _)) as Hend.
  destruct (h_run_ops so c (whole 0 ub) (u0 :: unlock0) 0 0 (init_st (u0 :: unlock0)) hs0 []) as [e hacc'].
  cbn [fst] in Hns, Hend.
  destruct e as [s1 hs1|s1 hs1|h|h|]; try discriminate; [| |congruence].
  - destruct Hend as (Hr1 & Hx & Hval).
    destruct (end_script s1) as [s2|] eqn:Ees; [|discriminate].
    apply end_script_some in Ees. subst s2.
    destruct lock as [|l0 lock0]; [apply h_finish_not_stuck|].
    set (s3 := shift_script (set_als s1 []) (l0 :: lock0)).
    set (hs3 := clear_alt hs1).
    assert (Hr3 : reads hs3 (ds s3) (als s3) = true) by (eapply reads_clear_alt; exact Hr1).
    pose proof Hr3 as Hr3'. apply reads_spec in Hr3'. destruct Hr3' as (H1 & H2 & H3 & H4).
    apply (h_run_lock_not_stuck so c bip16 (ds s3) (h_ds hs3) (whole 1 lb) lb);
      [exact Hr3|exact H1|exact H3| | |exact Hpl|exact Hsl| |].
    + apply (in_bounds_extends' [ub; lb]); [exact Hx|apply whole_in_bounds1].
    + change (h_heap hs3) with (h_heap hs1).
      rewrite (rd_extends' [ub; lb] _ _ Hx (whole_in_bounds1 ub lb)). apply whole_rd1.
    + change (h_heap hs3) with (h_heap hs1). pose proof (extends_length _ _ Hx) as Hl. cbn in Hl. lia.
    + intros Hb. apply (Hok Hb s1). apply Hval.
  - destruct Hend as (Hr1 & Hx).
    destruct lock as [|l0 lock0]; [apply h_finish_not_stuck|].
    set (s2 := shift_script (set_als s1 []) (l0 :: lock0)).
    set (hs2 := clear_alt hs1).
    assert (Hr2 : reads hs2 (ds s2) (als s2) = true) by (eapply reads_clear_alt; exact Hr1).
    apply (h_run_lock_not_stuck so c bip16 [] [] (whole 1 lb) lb);
      [exact Hr2|constructor|reflexivity| | |exact Hpl|exact Hsl| |intros _; exact I].
    + apply (in_bounds_extends' [ub; lb]); [exact Hx|apply whole_in_bounds1].
    + change (h_heap hs2) with (h_heap hs1).
      rewrite (rd_extends' [ub; lb] _ _ Hx (whole_in_bounds1 ub lb)). apply whole_rd1.
    + change (h_heap hs2) with (h_heap hs1). pose proof (extends_length _ _ Hx) as Hl. cbn in Hl. lia.
Qed.

(** * 4. Pay-to-script-hash: which item is the redeem script *)

(** what a push-only opcode (value <= OP_16) leaves on the stack *)
Definition push_val (p : pop) : bytes :=
  if (p_val p =? OP_0)%N then []
  else if (p_val p <=? OP_PUSHDATA4)%N then p_data p
  else if (p_val p =? OP_1NEGATE)%N then num_enc (-1)
  else [n2b (p_val p - 80)].

Definition pop_dummy : pop := mkPop 0 1 [] true.

(** the redeem script of a P2SH spend: what the LAST opcode of the (push-only) unlocking script pushes *)
Definition redeem_of (u : list pop) : bytes := push_val (last u pop_dummy).

Lemma push_only_step so c p idx s s' :
  (p_val p <=? OP_16)%N = true -> after_genesis c = false -> cond s = [] ->
  execute_opcode so c p idx s = OOk s' -> cond s' = [] /\ ds s' = push_val p :: ds s.
Proof.
  intros Hv Hg Hc. unfold execute_opcode. cbv zeta.
  assert (H16 : (OP_16 <? p_val p)%N = false) by (apply N.ltb_ge; apply N.leb_le; exact Hv).
  rewrite H16.
  assert (Hbe : branch_executing s = true) by (unfold branch_executing; rewrite Hc; reflexivity).
  assert (Hse : should_exec c s (p_val p) = true) by (unfold should_exec; rewrite Hg; reflexivity).
  rewrite Hbe, Hse. cbn [negb andb].
  destruct (max_elem c <? lenZ (p_data p)); [discriminate|].
  destruct (is_disabled (p_val p) && _); [discriminate|].
  destruct (always_illegal (p_val p) && _); [discriminate|].
  destruct (has_flag c F_MINIMALDATA && _ && _ && _ && _); [discriminate|].
  unfold exec_handler, push_val, push_num, push.
  destruct (p_real p); cbn [negb]; [|discriminate].
  destruct (p_val p =? OP_0)%N; [intros [= <-]; split; [exact Hc|reflexivity]|].
  destruct (p_val p <=? OP_PUSHDATA4)%N; [intros [= <-]; split; [exact Hc|reflexivity]|].
  destruct (p_val p =? OP_1NEGATE)%N; [intros [= <-]; split; [exact Hc|reflexivity]|].
  destruct (p_val p =? OP_RESERVED)%N; [discriminate|].
  rewrite Hv. intros [= <-]; split; [exact Hc|reflexivity].
Qed.

Lemma push_only_run so c : after_genesis c = false -> forall ops idx s acc s',
  is_push_only ops = true -> ops <> [] -> cond s = [] ->
  fst (run_ops so c ops idx s acc) = SEnd s' ->
  exists below, ds s' = redeem_of ops :: below.
Proof.
  intros Hg. induction ops as [|p rest IH]; intros idx s acc s' Hpo Hne Hc; [contradiction|].
  unfold is_push_only in Hpo. cbn [forallb] in Hpo. apply andb_true_iff in Hpo. destruct Hpo as [Hv Hpo].
  cbn [run_ops].
  destruct (execute_opcode so c p idx s) as [s1|s1| |] eqn:Ee; cbn [fst]; try discriminate.
  destruct (push_only_step so c p idx s s1 Hv Hg Hc Ee) as [Hc1 Hd1].
  destruct (max_stack c <? lenZ (ds s1) + lenZ (als s1)); [cbn [fst]; discriminate|].
  destruct rest as [|p2 rest2].
  - cbn [fst]. intros [= <-]. exists (ds s). exact Hd1.
  - intros H. apply (IH (S idx) s1 _ s' Hpo) in H; [|discriminate|exact Hc1].
    exact H.
Qed.

(** * 5. The engine *)
Definition engine_ctx (i : exec_input) : ctx :=
  mkCtx (normalise_flags (ei_flags i)) (ei_has_tx i) (ei_tx_lock i) (ei_tx_version i) (ei_in_seq i)
        (negb (ei_has_tx i) || negb (ei_has_prevout i)).

(** the engine runs in pay-to-script-hash mode *)
Definition engine_p2sh (i : exec_input) : bool :=
  has_flag (engine_ctx i) F_BIP16 && negb (after_genesis (engine_ctx i)) && is_p2sh (ei_lock i).

Definition h_engine_body (so : sigops) (c : ctx) (ub lb : bytes) : hresult :=
  if has_flag c F_CLEANSTACK && negb (has_flag c F_BIP16) then HRes VErr [] [ub; lb]
  else if (max_script_size c <? lenZ ub) || (max_script_size c <? lenZ lb) then HRes VErr [] [ub; lb]
  else match parse_script (c_err_on_checksig c) ub with
       | None => HRes VErr [] [ub; lb]
       | Some u =>
           match parse_script (c_err_on_checksig c) lb with
           | None => HRes VErr [] [ub; lb]
           | Some l =>
               if has_flag c F_SIGPUSHONLY && negb (is_push_only u) then HRes VErr [] [ub; lb]
               else
                 let p2sh := has_flag c F_BIP16 && negb (after_genesis c) && is_p2sh lb in
                 if p2sh && negb (is_push_only u) then HRes VErr [] [ub; lb]
                 else h_execute so c p2sh ub lb u l
           end
       end.

Lemma h_engine_execute_body so i :
  h_engine_execute so i = HRes VErr [] [ei_unlock i; ei_lock i] \/
  h_engine_execute so i = h_engine_body so (engine_ctx i) (ei_unlock i) (ei_lock i).
Proof.
  unfold h_engine_execute, h_engine_body, engine_ctx. cbv zeta.
  destruct (ei_unlock i) as [|u0 ur]; [destruct (ei_lock i) as [|l0 lr]; [left; reflexivity|]|];
    right; reflexivity.
Qed.

Lemma h_engine_body_not_stuck so c ub lb :
  script_ok (c_err_on_checksig c) ub -> script_ok (c_err_on_checksig c) lb ->
  (has_flag c F_BIP16 && negb (after_genesis c) && is_p2sh lb = true ->
   forall u, parse_script (c_err_on_checksig c) ub = Some u -> script_ok (c_err_on_checksig c) (redeem_of u)) ->
  h_engine_body so c ub lb <> HResStuck.
Proof.
  intros Hu Hl Hred. unfold h_engine_body.
  destruct (has_flag c F_CLEANSTACK && negb (has_flag c F_BIP16)); [discriminate|].
  destruct ((max_script_size c <? lenZ ub) || (max_script_size c <? lenZ lb)); [discriminate|].
  destruct (parse_script (c_err_on_checksig c) ub) as [u|] eqn:Eu; [|discriminate].
  destruct (parse_script (c_err_on_checksig c) lb) as [l|] eqn:El; [|discriminate].
  destruct (has_flag c F_SIGPUSHONLY && negb (is_push_only u)); [discriminate|].
  cbv zeta.
  destruct (has_flag c F_BIP16 && negb (after_genesis c) && is_p2sh lb) eqn:Ep2sh.
  - (* P2SH mode: the unlocking script is push-only, so its last push is the redeem script *)
    cbn [andb]. destruct (is_push_only u) eqn:Epo; cbn [negb]; [|discriminate].
    apply andb_true_iff in Ep2sh. destruct Ep2sh as [Ep2sh _].
    apply andb_true_iff in Ep2sh. destruct Ep2sh as [_ Hg]. apply negb_true_iff in Hg.
    apply h_execute_not_stuck;
      [exact (parse_script_pushes_ok _ _ _ Eu)|exact (Hu _ Eu)|exact (parse_script_pushes_ok _ _ _ El)
      |exact (Hl _ El)|].
    intros _ s1 Hrun.
    destruct u as [|u0 ur].
    + cbn in Hrun. injection Hrun as <-. exact I.
    + destruct (push_only_run so c Hg (u0 :: ur) 0 (init_st (u0 :: ur)) [] s1 Epo) as [below Hds];
        [discriminate|reflexivity|exact Hrun|].
      rewrite Hds. cbn [saved_ok]. apply (Hred eq_refl). reflexivity.
  - cbn [andb].
    apply h_execute_not_stuck;
      [exact (parse_script_pushes_ok _ _ _ Eu)|exact (Hu _ Eu)|exact (parse_script_pushes_ok _ _ _ El)
      |exact (Hl _ El)|].
    intros Hb. discriminate Hb.
Qed.

(** the general form: for the parser flag the engine uses *)
Theorem h_engine_execute_not_stuck_gen : forall so i,
  script_ok (c_err_on_checksig (engine_ctx i)) (ei_unlock i) ->
  script_ok (c_err_on_checksig (engine_ctx i)) (ei_lock i) ->
  (engine_p2sh i = true ->
   forall u, parse_script (c_err_on_checksig (engine_ctx i)) (ei_unlock i) = Some u ->
             script_ok (c_err_on_checksig (engine_ctx i)) (redeem_of u)) ->
  h_engine_execute so i <> HResStuck.
Proof.
  intros so i Hu Hl Hred.
  destruct (h_engine_execute_body so i) as [E|E]; rewrite E; [discriminate|].
  apply h_engine_body_not_stuck; assumption.
Qed.

(** ** Conditions stated without the parser flag *)

(** the flag only makes the parser reject more: a parse with it is a parse without it *)
Lemma parse_ops_flag : forall fuel bs depth ops,
  parse_ops fuel true bs depth = Some ops -> parse_ops fuel false bs depth = Some ops.
Proof.
  induction fuel as [|f IH]; intros bs depth ops H; cbn [parse_ops] in *; [exact H|].
  destruct bs as [|b r]; [exact H|].
  cbn [andb] in *.
  destruct (requires_tx (b2n b)); [discriminate H|].
  destruct ((b2n b =? OP_RETURN)%N && (depth =? 0)); [exact H|].
  destruct (op_length (b2n b) =? 1).
  { destruct (parse_ops f true r _) as [l|] eqn:E; [|discriminate H]. rewrite (IH _ _ _ E). exact H. }
  destruct (1 <? op_length (b2n b)).
  { destruct (Nat.ltb _ _); [discriminate H|].
    destruct (parse_ops f true _ _) as [l|] eqn:E; [|discriminate H]. rewrite (IH _ _ _ E). exact H. }
  destruct (Nat.ltb _ _); [discriminate H|].
  destruct (_ <? _)%N; [discriminate H|].
  destruct (parse_ops f true _ _) as [l|] eqn:E; [|discriminate H]. rewrite (IH _ _ _ E). exact H.
Qed.

Lemma parse_script_flag e bs ops : parse_script e bs = Some ops -> parse_script false bs = Some ops.
Proof. destruct e; [apply parse_ops_flag|exact (fun H => H)]. Qed.

(** with the flag the parser itself rejects signature checks (and OP_CHECKSEQUENCEVERIFY) *)
Lemma requires_tx_sigop v : requires_tx v = false -> is_sigop v = false.
Proof.
  unfold requires_tx, is_sigop, OP_CHECKSIG, OP_CHECKSIGVERIFY, OP_CHECKMULTISIG, OP_CHECKMULTISIGVERIFY.
  intros H. repeat (apply orb_false_iff in H; destruct H as [H ?]).
  repeat match goal with E : (_ =? _)%N = false |- _ => apply N.eqb_neq in E end.
  apply andb_false_iff. destruct (172 <=? v)%N eqn:L; [right|left; reflexivity].
  apply N.leb_le in L. apply N.leb_gt. lia.
Qed.

Lemma parse_ops_true_sigop_free : forall fuel bs depth ops,
  parse_ops fuel true bs depth = Some ops -> sigop_free ops = true.
Proof.
  induction fuel as [|f IH]; intros bs depth ops H; cbn [parse_ops] in H.
  - destruct bs; [|discriminate H]. injection H as <-. reflexivity.
  - destruct bs as [|b r]; [injection H as <-; reflexivity|].
    cbn [andb] in H.
    destruct (requires_tx (b2n b)) eqn:Ereq; [discriminate H|].
    assert (Hop : forall l d, op_sigop_free (mkPop (b2n b) l d true) = true).
    { intros l d. unfold op_sigop_free. cbn [p_real p_val andb]. rewrite (requires_tx_sigop _ Ereq). reflexivity. }
    destruct ((b2n b =? OP_RETURN)%N && (depth =? 0)).
    { injection H as <-. unfold sigop_free. cbn [forallb]. rewrite Hop. cbn [andb].
      destruct r as [|x [|y r']]; reflexivity. }
    destruct (op_length (b2n b) =? 1).
    { destruct (parse_ops f true r _) as [l|] eqn:E; [|discriminate H]. injection H as <-.
      unfold sigop_free. cbn [forallb]. rewrite Hop. exact (IH _ _ _ E). }
    destruct (1 <? op_length (b2n b)).
    { destruct (Nat.ltb _ _); [discriminate H|].
      destruct (parse_ops f true _ _) as [l|] eqn:E; [|discriminate H]. injection H as <-.
      unfold sigop_free. cbn [forallb]. rewrite Hop. exact (IH _ _ _ E). }
    destruct (Nat.ltb _ _); [discriminate H|].
    destruct (_ <? _)%N; [discriminate H|].
    destruct (parse_ops f true _ _) as [l|] eqn:E; [|discriminate H]. injection H as <-.
    unfold sigop_free. cbn [forallb]. rewrite Hop. exact (IH _ _ _ E).
Qed.

Lemma script_ok_true bs : script_ok true bs.
Proof. intros ops H. exact (parse_ops_true_sigop_free _ _ _ _ H). Qed.

(** [bs] parsed as a script (without the flag) contains no real signature-check opcode;
    a script that does not parse is never run *)
Definition no_sigops_in (bs : bytes) : bool :=
  match parse_script false bs with Some ops => sigop_free ops | None => true end.

Lemma no_sigops_in_ok e bs : no_sigops_in bs = true -> script_ok e bs.
Proof.
  unfold no_sigops_in. intros H ops Hp. rewrite (parse_script_flag e bs ops Hp) in H. exact H.
Qed.

(** the stronger reading of the hypothesis: NO parsed opcode has a signature-check value *)
Lemma no_sigops_in_of_all bs :
  (forall ops, parse_script false bs = Some ops -> forallb (fun p => negb (is_sigop (p_val p))) ops = true) ->
  no_sigops_in bs = true.
Proof.
  intros H. unfold no_sigops_in. destruct (parse_script false bs) as [ops|]; [|reflexivity].
  apply sigop_free_of_all. apply H. reflexivity.
Qed.

(** the redeem script of a P2SH spend — the data of the unlocking script's last push — is free of
    signature checks too *)
Definition redeem_sigop_free (i : exec_input) : bool :=
  match parse_script false (ei_unlock i) with
  | Some u => no_sigops_in (redeem_of u)
  | None => true
  end.

(** ** The headline: the sharing machine is never stuck on scripts without signature checks *)
Theorem h_engine_execute_not_stuck : forall so i,
  no_sigops_in (ei_unlock i) = true -> no_sigops_in (ei_lock i) = true ->
  (engine_p2sh i = true -> redeem_sigop_free i = true) ->
  h_engine_execute so i <> HResStuck.
Proof.
  intros so i Hu Hl Hred. apply h_engine_execute_not_stuck_gen.
  - apply no_sigops_in_ok. exact Hu.
  - apply no_sigops_in_ok. exact Hl.
  - intros Hp u Eu. apply no_sigops_in_ok. specialize (Hred Hp). unfold redeem_sigop_free in Hred.
    rewrite (parse_script_flag _ _ _ Eu) in Hred. exact Hred.
Qed.

(** outside pay-to-script-hash mode nothing is asked of the data *)
Corollary h_engine_execute_not_stuck_no_p2sh : forall so i,
  no_sigops_in (ei_unlock i) = true -> no_sigops_in (ei_lock i) = true ->
  engine_p2sh i = false ->
  h_engine_execute so i <> HResStuck.
Proof.
  intros so i Hu Hl Hp. apply h_engine_execute_not_stuck; try assumption.
  rewrite Hp. intros H. discriminate H.
Qed.

(** without a transaction or previous output the parser rejects signature checks (in the redeem script as
    well): no hypothesis on the scripts at all *)
Corollary h_engine_execute_not_stuck_no_tx : forall so i,
  ei_has_tx i = false \/ ei_has_prevout i = false ->
  h_engine_execute so i <> HResStuck.
Proof.
  intros so i Hno.
  assert (He : c_err_on_checksig (engine_ctx i) = true).
  { cbn [engine_ctx c_err_on_checksig]. destruct Hno as [-> | ->]; [reflexivity|apply orb_true_r]. }
  apply h_engine_execute_not_stuck_gen; rewrite He; try apply script_ok_true.
  intros _ u _. apply script_ok_true.
Qed.

(** ** Progress + refinement: the sharing machine computes the value machine's result *)
Lemma total_refinement_of so i : h_engine_execute so i <> HResStuck ->
  exists v sn h, h_engine_execute so i = HRes v sn h /\
                 engine_execute so i = (v, map (abs_snap h) sn) /\
                 nth 0 h [] = ei_unlock i /\ nth 1 h [] = ei_lock i.
Proof.
  intros Hns. destruct (h_engine_execute so i) as [v sn h|] eqn:E; [|contradiction].
  exists v, sn, h. split; [reflexivity|]. apply h_engine_execute_refines. exact E.
Qed.

Corollary sharing_machine_total_refinement : forall so i,
  no_sigops_in (ei_unlock i) = true -> no_sigops_in (ei_lock i) = true ->
  (engine_p2sh i = true -> redeem_sigop_free i = true) ->
  exists v sn h, h_engine_execute so i = HRes v sn h /\
                 engine_execute so i = (v, map (abs_snap h) sn) /\
                 nth 0 h [] = ei_unlock i /\ nth 1 h [] = ei_lock i.
Proof. intros so i Hu Hl Hred. apply total_refinement_of. apply h_engine_execute_not_stuck; assumption. Qed.

Corollary sharing_machine_total_refinement_no_tx : forall so i,
  ei_has_tx i = false \/ ei_has_prevout i = false ->
  exists v sn h, h_engine_execute so i = HRes v sn h /\
                 engine_execute so i = (v, map (abs_snap h) sn) /\
                 nth 0 h [] = ei_unlock i /\ nth 1 h [] = ei_lock i.
Proof. intros so i Hno. apply total_refinement_of. apply h_engine_execute_not_stuck_no_tx. exact Hno. Qed.

Print Assumptions parse_script_pushes_ok.
Print Assumptions h_run_ops_not_stuck.
Print Assumptions h_engine_execute_not_stuck.
Print Assumptions h_engine_execute_not_stuck_no_tx.
Print Assumptions sharing_machine_total_refinement.
Print Assumptions sharing_machine_total_refinement_no_tx.
