(** checkMinimalDataEncoding (bscript/interpreter/number.go), as printed from the Go source, is the negation of
    [is_minimal] of model/ScriptNum.v: the Go function returns an error (printed as [true]) exactly when the
    encoding is not minimal.  The hypothesis is Go's: a slice has fewer than 2^63 elements (the function
    computes [len(v)-1] and [len(v)-2] in [int]). *)
From Coq Require Import List ZArith NArith Bool Lia ZifyN ZifyNat ZifyBool.
From Coq Require Import Strings.Byte.
From GoBT Require Import lib.Bytes lib.GoSem gen.Funcs proofs.GenFuncsTac proofs.GenFuncsLoopTac.
From GoBT Require model.ScriptNum.
Import ListNotations.
Ltac Zify.zify_post_hook ::= Z.div_mod_to_equations.
Local Open Scope Z_scope.

Lemma checkMinimalDataEncoding_is_model (v : bytes) : (lenN v < 9223372036854775808)%N ->
  checkMinimalDataEncoding v = Val (negb (ScriptNum.is_minimal v)).
Proof.
  intros Hl. unfold checkMinimalDataEncoding, ScriptNum.is_minimal, ScriptNum.hi_bit, go_orelse, go_andthen.
  destruct (list_end_cases v) as [->|[[a ->]|[l [p [a ->]]]]].
  - vm_compute. reflexivity.
  - cbn [rev app]. change (go_len [a]) with 1.
    repeat match goal with
    | |- context [go_index_b [a] ?e] =>
        first [ rewrite (go_index_b_at [a] e 0 a eq_refl) by (go_arith; lia)
              | rewrite (go_index_b_out [a] e) by (change (go_len [a]) with 1; go_arith; lia) ]
    end.
    cbn [bind]. byte_masks. go_cases; go_close.
  - rewrite rev_app_distr. cbn [rev app].
    assert (Hlen : go_len (l ++ [p; a]) = Z.of_nat (length l) + 2) by (unfold go_len; rewrite app_length; cbn [length]; lia).
    unfold lenN in Hl. rewrite app_length in Hl. cbn [length] in Hl.
    repeat match goal with
    | |- context [go_index_b (l ++ [p; a]) ?e] =>
        first [ rewrite (go_index_b_at (l ++ [p; a]) e (Datatypes.S (length l)) a (nth_error_end2_last l p a)) by (rewrite ?Hlen; go_arith; lia)
              | rewrite (go_index_b_at (l ++ [p; a]) e (length l) p (nth_error_end2_prev l p a)) by (rewrite ?Hlen; go_arith; lia) ]
    end.
    rewrite ?Hlen. cbn [bind]. byte_masks. go_cases; go_close.
Qed.
