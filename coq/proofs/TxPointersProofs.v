(** Proofs about model/TxPointers.v: the original-digest preparation of a signature check allocates and writes only
    objects of its own clones; every script object, input struct and output struct the caller's transaction graph
    consisted of holds afterwards what it held. *)
From Coq Require Import List NArith Arith Lia.
From Coq Require Import Strings.Byte.
From GoBT Require Import lib.Bytes model.TxPointers.
Import ListNotations.

Lemma upd_length : forall X (l : list X) i x, length (upd l i x) = length l.
Proof. induction l as [|h t IH]; intros [|i] x; simpl; auto. Qed.

Lemma firstn_upd_ge : forall X (l : list X) i n x, n <= i -> firstn n (upd l i x) = firstn n l.
Proof.
  induction l as [|h t IH]; intros i n x Hn; simpl; auto.
  destruct i as [|i]; destruct n as [|n]; simpl; auto; try lia. f_equal. apply IH. lia.
Qed.

Lemma firstn_snoc_le : forall X (l : list X) n x, n <= length l -> firstn n (l ++ [x]) = firstn n l.
Proof. intros. rewrite firstn_app. replace (n - length l) with 0 by lia. simpl. apply app_nil_r. Qed.

(** everything of h0 is still there, unchanged, and nothing was taken away *)
Definition inv (h0 h : heap) : Prop :=
  keeps h0 h /\ length (h_scripts h0) <= length (h_scripts h) /\ length (h_inputs h0) <= length (h_inputs h) /\
  length (h_outputs h0) <= length (h_outputs h).

Lemma inv_refl : forall h, inv h h.
Proof. intros h. unfold inv, keeps. rewrite !firstn_all. repeat split; auto. Qed.

Lemma inv_new_script : forall h0 h b, inv h0 h -> inv h0 (fst (new_script h b)).
Proof.
  intros h0 h b ((K1 & K2 & K3) & L1 & L2 & L3). unfold inv, keeps, new_script. simpl.
  rewrite firstn_snoc_le by lia. rewrite app_length. simpl. repeat split; auto; lia.
Qed.
Lemma inv_new_input : forall h0 h i, inv h0 h -> inv h0 (fst (new_input h i)) /\ length (h_inputs h0) <= snd (new_input h i).
Proof.
  intros h0 h i ((K1 & K2 & K3) & L1 & L2 & L3). unfold inv, keeps, new_input. simpl.
  rewrite firstn_snoc_le by lia. rewrite app_length. simpl. repeat split; auto; lia.
Qed.
Lemma inv_new_output : forall h0 h o, inv h0 h -> inv h0 (fst (new_output h o)) /\ length (h_outputs h0) <= snd (new_output h o).
Proof.
  intros h0 h o ((K1 & K2 & K3) & L1 & L2 & L3). unfold inv, keeps, new_output. simpl.
  rewrite firstn_snoc_le by lia. rewrite app_length. simpl. repeat split; auto; lia.
Qed.
Lemma inv_set_input : forall h0 h p i, inv h0 h -> length (h_inputs h0) <= p -> inv h0 (set_input h p i).
Proof.
  intros h0 h p i ((K1 & K2 & K3) & L1 & L2 & L3) Hp. unfold inv, keeps, set_input. simpl.
  rewrite firstn_upd_ge by lia. rewrite upd_length. repeat split; auto.
Qed.
Lemma inv_set_output : forall h0 h p o, inv h0 h -> length (h_outputs h0) <= p -> inv h0 (set_output h p o).
Proof.
  intros h0 h p o ((K1 & K2 & K3) & L1 & L2 & L3) Hp. unfold inv, keeps, set_output. simpl.
  rewrite firstn_upd_ge by lia. rewrite upd_length. repeat split; auto.
Qed.

Definition fresh_ins (h0 : heap) (qs : list nat) := Forall (fun q => length (h_inputs h0) <= q) qs.
Definition fresh_outs (h0 : heap) (qs : list nat) := Forall (fun q => length (h_outputs h0) <= q) qs.

Lemma clone_ins_inv : forall h0 ps h, inv h0 h ->
  inv h0 (fst (clone_ins h ps)) /\ fresh_ins h0 (snd (clone_ins h ps)).
Proof.
  induction ps as [|p t IH]; intros h I; cbn [clone_ins]; [split; [exact I|constructor]|].
  set (i := nth p (h_inputs h) dflt_in).
  pose proof (inv_new_script h0 h (script_at h (pi_unlock i)) I) as I1.
  destruct (new_script h (script_at h (pi_unlock i))) as [h1 u]. cbn [fst] in I1.
  match goal with |- context [new_input h1 ?x] => pose proof (inv_new_input h0 h1 x I1) as (I2 & F2); destruct (new_input h1 x) as [h2 q] end.
  cbn [fst snd] in *.
  destruct (IH h2 I2) as (I3 & F3). destruct (clone_ins h2 t) as [h3 qs]. cbn [fst snd] in *.
  split; [exact I3|]. constructor; assumption.
Qed.

Lemma clone_outs_inv : forall h0 ps h, inv h0 h ->
  inv h0 (fst (clone_outs h ps)) /\ fresh_outs h0 (snd (clone_outs h ps)).
Proof.
  induction ps as [|p t IH]; intros h I; cbn [clone_outs]; [split; [exact I|constructor]|].
  set (o := nth p (h_outputs h) dflt_out).
  pose proof (inv_new_script h0 h (script_at h (po_lock o)) I) as I1.
  destruct (new_script h (script_at h (po_lock o))) as [h1 l]. cbn [fst] in I1.
  match goal with |- context [new_output h1 ?x] => pose proof (inv_new_output h0 h1 x I1) as (I2 & F2); destruct (new_output h1 x) as [h2 q] end.
  cbn [fst snd] in *.
  destruct (IH h2 I2) as (I3 & F3). destruct (clone_outs h2 t) as [h3 qs]. cbn [fst snd] in *.
  split; [exact I3|]. constructor; assumption.
Qed.

Lemma clone_inv : forall h0 h t, inv h0 h ->
  inv h0 (fst (clone h t)) /\ fresh_ins h0 (pt_ins (snd (clone h t))) /\ fresh_outs h0 (pt_outs (snd (clone h t))).
Proof.
  intros h0 h t I. unfold clone.
  destruct (clone_ins_inv h0 (pt_ins t) h I) as (I1 & F1). destruct (clone_ins h (pt_ins t)) as [h1 ins]. cbn [fst snd] in *.
  destruct (clone_outs_inv h0 (pt_outs t) h1 I1) as (I2 & F2). destruct (clone_outs h1 (pt_outs t)) as [h2 outs]. cbn [fst snd] in *.
  auto.
Qed.

Lemma blank_others_inv : forall h0 idx z ps h k, inv h0 h -> fresh_ins h0 ps -> inv h0 (blank_others h ps k idx z).
Proof.
  induction ps as [|p t IH]; intros h k I F; cbn [blank_others]; [exact I|].
  inversion F as [|? ? Fp Ft]; subst.
  destruct (Nat.eqb k idx); [apply IH; assumption|].
  pose proof (inv_new_script h0 h [] I) as I1. destruct (new_script h []) as [h1 u]. cbn [fst] in I1.
  pose proof (inv_new_script h0 h1 [] I1) as I2. destruct (new_script h1 []) as [h2 s]. cbn [fst] in I2.
  apply IH; [|assumption]. apply inv_set_input; assumption.
Qed.

Lemma blank_outputs_inv : forall h0 ps n h, inv h0 h -> fresh_outs h0 ps -> inv h0 (blank_outputs h ps n).
Proof.
  induction ps as [|p t IH]; intros n h I F; cbn [blank_outputs]; [destruct n; exact I|].
  destruct n as [|n]; [exact I|].
  inversion F as [|? ? Fp Ft]; subst.
  pose proof (inv_new_script h0 h [] I) as I1. destruct (new_script h []) as [h1 l]. cbn [fst] in I1.
  apply IH; [|assumption]. apply inv_set_output; assumption.
Qed.

Lemma legacy_prepare_inv : forall h0 h t idx bt, inv h0 h -> inv h0 (fst (legacy_prepare h t idx bt)).
Proof.
  intros h0 h t idx bt I. unfold legacy_prepare.
  destruct (clone_inv h0 h t I) as (I1 & F1 & F2). destruct (clone h t) as [h1 c]. cbn [fst snd] in *.
  pose proof (blank_others_inv h0 idx (match bt with BAll => false | _ => true end) (pt_ins c) h1 0 I1 F1) as I2.
  destruct bt; cbn [fst]; try exact I2.
  apply blank_outputs_inv; assumption.
Qed.

(** the clone and the preparation of the original digest leave every object of the caller's graph as it was ... *)
Theorem legacy_prepare_keeps_the_callers_graph : forall h t idx bt, keeps h (fst (legacy_prepare h t idx bt)).
Proof. intros. apply (legacy_prepare_inv h h t idx bt (inv_refl h)). Qed.

(** ... and so does the whole path of a signature opcode: clone, script code on the clone's input, digest *)
Theorem checksig_digest_keeps_the_callers_graph : forall h t idx code bt, keeps h (fst (checksig_digest h t idx code bt)).
Proof.
  intros h t idx code bt. unfold checksig_digest.
  destruct (clone_inv h h t (inv_refl h)) as (I1 & F1 & F2). destruct (clone h t) as [h1 c]. cbn [fst snd] in *.
  destruct (nth_error (pt_ins c) idx) as [p|] eqn:E; [|exact (proj1 I1)].
  pose proof (inv_new_script h h1 code I1) as I2. destruct (new_script h1 code) as [h2 s]. cbn [fst] in I2.
  apply legacy_prepare_inv. apply inv_set_input; [exact I2|].
  unfold fresh_ins in F1. rewrite Forall_forall in F1. apply F1. eapply nth_error_In; eauto.
Qed.

Lemma nth_firstn_below : forall X (l : list X) n a d, a < n -> nth a (firstn n l) d = nth a l d.
Proof.
  induction l as [|h t IH]; intros n a d Ha; [rewrite firstn_nil; reflexivity|].
  destruct n as [|n]; [lia|]. destruct a as [|a]; cbn [firstn nth]; [reflexivity|]. apply IH. lia.
Qed.

(** reading an object that existed, through any pointer the caller holds *)
Corollary checksig_digest_keeps_every_script : forall h t idx code bt a,
  a < length (h_scripts h) -> nth a (h_scripts (fst (checksig_digest h t idx code bt))) [] = nth a (h_scripts h) [].
Proof.
  intros h t idx code bt a Ha. destruct (checksig_digest_keeps_the_callers_graph h t idx code bt) as (K & _ & _).
  set (X := h_scripts (fst (checksig_digest h t idx code bt))) in *.
  transitivity (nth a (firstn (length (h_scripts h)) X) []); [symmetry; apply nth_firstn_below; exact Ha|].
  rewrite K. reflexivity.
Qed.

(** ** the alternative writes the caller's objects: two inputs, the first one holding the script 75 of the output it
    spends (script object 1), the second one checked: emptying the other inputs' scripts of the clone through their
    pointers empties the caller's object *)
Example blanking_through_the_pointer_reaches_the_callers_script :
  let h := mkHeap [[x51; x52]; [x75]; [x51]; [x51]]
                  [mkPin ([], 0%N) (Some 0) 0%N 500%N (Some 1); mkPin ([], 1%N) (Some 2) 0%N 0%N None]
                  [mkPout 1%N (Some 3)] in
  let t := mkPtx [0; 1] [0] in
  let '(h1, c) := clone h t in
  nth 1 (h_scripts (blank_through_pointer h1 (pt_ins c) 0 1)) [] = [] /\ nth 1 (h_scripts h) [] = [x75] /\
  nth 1 (h_scripts (fst (checksig_digest h t 1 [xac] BAll))) [] = [x75].
Proof. vm_compute. repeat split; reflexivity. Qed.
