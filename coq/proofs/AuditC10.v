(** Audit C additions for C10 (Change): success characterisation, the bridge to EstimateIsFeePaidEnough,
    value conservation over the un-wrapped sums.  Only lemmas of proofs/FeesProofs.v and proofs/ChangeProofs.v
    are used. *)
From Coq Require Import List NArith ZArith Lia Bool.
From Coq Require Import Strings.Byte.
From GoBT Require Import lib.Bytes lib.VarInt model.Tx gen.Consts spec.FeeSpec model.Fees model.Change
  proofs.FeesProofs proofs.ChangeProofs.
Import ListNotations.
Local Open Scope N_scope.

(* P1 (C10/C11 bridge): after a successful Change that added change, EstimateIsFeePaidEnough is true *)
Theorem change_then_estimate_enough t q s t' : change_hyps q t s ->
  change_new t q s = (FOk true, t') -> estimate_is_fee_paid_enough t' q = FOk true.
Proof.
  intros (W & A & Ws & NO) H. destruct (change_new_inv _ _ _ _ _ H) as [a C].
  destruct (change_some_spec t q s a true t' W A Ws NO C)
    as (L & sf & df & szc & Qs & Qd & R1 & R2 & EST & Tc & Sp & Hq & _ & Ht).
  cbv zeta in Hq, Ht. destruct (Ht eq_refl) as (D & -> & ->).
  pose proof (no_overflow_inv _ _ _ NO) as (Hin & Hout & Hn & HB & HS).
  rewrite Qs, Qd in HS. cbn [sat_of] in HS.
  set (fee := quoted_fee sf df (sz_std szc) (sz_data szc)) in *.
  pose proof (total_lt_two64 in_sats (tx_ins t)) as Ti. fold (total_in t) in Ti.
  unfold avail in *.
  assert (Hv : total_in t - total_out t - fee < two64) by lia.
  specialize (EST _ Hv).
  set (o := mkOutput (total_in t - total_out t - fee) s) in *.
  assert (Wo : wf_output o) by (split; [exact Hv|exact Ws]).
  destruct (wf_add_output t o W Wo Hn) as [W' A'].
  unfold estimate_is_fee_paid_enough.
  unfold estimate_size_with_types in EST.
  destruct (estimated_final_tx (add_output t o)) as [te| | |] eqn:E; cbn [obind] in EST |- *; try discriminate.
  injection EST as EST.
  destruct (est_outs _ te W' A' E) as (_ & _ & Ie & Oe).
  unfold is_fee_paid_enough. rewrite EST.
  unfold fees_paid. rewrite Qs, Qd. cbn [get_fee obind].
  destruct (fee_of (sz_std szc) sf) as [sfee| | |] eqn:F1;
    [|unfold fee_of in F1; destruct (N.eqb_spec (r_bytes sf) 0); [contradiction|discriminate]..].
  destruct (fee_of (sz_data szc) df) as [dfee| | |] eqn:F2;
    [|unfold fee_of in F2; destruct (N.eqb_spec (r_bytes df) 0); [contradiction|discriminate]..].
  cbn [obind fee_total].
  destruct (fee_of_quoted (size_bound t (21 + lenN s)) (sz_std szc) (sz_data szc) sf df sfee dfee
              ltac:(lia) ltac:(lia) ltac:(lia) F1 F2) as (_ & _ & _ & _ & -> & _).
  fold fee. rewrite Ie, Oe.
  rewrite total_out_add_output. cbn [out_sats o]. change (total_in (add_output t o)) with (total_in t).
  unfold add64. rewrite N.mod_small by lia.
  destruct (N.ltb_spec (total_in t) (total_out t + (total_in t - total_out t - fee))); [lia|].
  f_equal. apply N.leb_le. lia.
Qed.

(* P2: the un-wrapped (mathematical) sums *)
Theorem change_no_value_created_sums t q s has t' : change_hyps q t s ->
  change_new t q s = (FOk has, t') -> sum_out t' <= sum_in t' /\ sum_in t' = sum_in t.
Proof.
  intros Hy H. pose proof Hy as (W & A & Ws & NO).
  pose proof (no_overflow_inv _ _ _ NO) as (Hin & Hout & _).
  pose proof (total_in_sum t Hin) as Ti. pose proof (total_out_sum t Hout) as To.
  destruct has.
  - destruct (change_new_exact t q s t' Hy H) as (sf & df & sz' & _ & _ & _ & X). cbv zeta in X.
    destruct X as (Ho & Dd & I' & O' & Le & Eq).
    assert (sum_in t' = sum_in t) as Si.
    { unfold sum_in. destruct (change_preserves_outputs _ _ _ _ _ H) as (_ & -> & _). reflexivity. }
    split; [|exact Si]. rewrite Si.
    unfold sum_out. rewrite Ho. rewrite fold_left_app. cbn [fold_left out_sats]. fold (sum_out t).
    unfold avail in *. lia.
  - destruct (change_preserves_outputs _ _ _ _ _ H) as (_ & _ & _ & [[_ ->]|[X _]]); [|discriminate].
    pose proof (change_no_value_created t q s false t Hy H). split; [lia|reflexivity].
Qed.

(* C10-P3: when does Change succeed?  (all C10 theorems are conditional on [FOk]) *)
Theorem change_new_succeeds t q s sf df : wf_tx t -> ~ ambiguous t ->
  N.of_nat (length (tx_outs t)) + 1 < two64 ->
  q_std q = Some sf -> q_data q = Some df -> r_bytes sf <> 0 -> r_bytes df <> 0 ->
  Forall input_ok (tx_ins t) -> total_out t <= total_in t ->
  exists has t', change_new t q s = (FOk has, t').
Proof.
  intros W A Hn Qs Qd R1 R2 F L. unfold change_new, change.
  destruct (N.ltb_spec (total_in t) (total_out t)); [lia|].
  unfold estimate_size_with_types.
  assert (E : estimated_final_tx t = FOk (set_ins t (map fill_one (tx_ins t)))).
  { apply (proj1 (estimate_errors t W A)). split; [exact F|reflexivity]. }
  rewrite E, Qs, Qd. cbn [obind get_fee].
  destruct (varint_growth _ Hn) as [G _].
  destruct (Z.eqb_spec (upper_limit_inc (N.of_nat (length (tx_outs t)))) (-1)); [contradiction|].
  destruct (is_data s); unfold fee_of;
    destruct (N.eqb_spec (r_bytes sf) 0); try contradiction;
    destruct (N.eqb_spec (r_bytes df) 0); try contradiction; cbn [obind];
    destruct (_ || _); eauto.
Qed.

(* and the two error results of Change itself *)
Theorem change_new_insufficient t q s : total_in t < total_out t ->
  change_new t q s = (FErr ErrInsufficientInputs, t).
Proof.
  intros L. unfold change_new, change. destruct (N.ltb_spec (total_in t) (total_out t)); [reflexivity|lia].
Qed.

(* C10-P4: Change is idempotent: once change has been added, a second Change (to any script) adds nothing
   and leaves the transaction alone - what is left is exactly the fee, which a further output only raises *)
Theorem change_idempotent t q s t' s2 has t'' : change_hyps q t s ->
  change_new t q s = (FOk true, t') -> change_hyps q t' s2 ->
  change_new t' q s2 = (FOk has, t'') -> has = false /\ t'' = t'.
Proof.
  intros Hy H Hy2 H2.
  destruct (change_new_exact t q s t' Hy H) as (sf & df & sz' & Qs & Qd & E' & X). cbv zeta in X.
  destruct X as (_ & _ & _ & _ & Le & Eq).
  destruct Hy2 as (W' & A' & Ws2 & NO2).
  destruct (change_new_inv _ _ _ _ _ H2) as [a C].
  destruct (change_some_spec t' q s2 a has t'' W' A' Ws2 NO2 C)
    as (_ & sf2 & df2 & szc & Qs2 & Qd2 & R1 & R2 & EST & _ & _ & _ & Hf & Ht). cbv zeta in Hf, Ht.
  rewrite Qs in Qs2. rewrite Qd in Qd2. injection Qs2 as <-. injection Qd2 as <-.
  pose proof (no_overflow_inv _ _ _ NO2) as (_ & _ & Hn & _).
  (* the sizes with one more output dominate the sizes of t' *)
  assert (M : sz_std sz' <= sz_std szc /\ sz_data sz' <= sz_data szc).
  { specialize (EST 0 ltac:(reflexivity)). unfold estimate_size_with_types in E', EST.
    destruct (estimated_final_tx t') as [te| | |] eqn:Ete; cbn [obind] in E'; try discriminate.
    injection E' as <-.
    assert (Wo : wf_output (mkOutput 0 s2)) by (split; [reflexivity|exact Ws2]).
    rewrite (est_add_output t' te (mkOutput 0 s2) W' A' Wo Hn Ete) in EST. cbn [obind] in EST. injection EST as <-.
    pose proof (size_add_output te (mkOutput 0 s2)) as S. cbv zeta in S. cbn [out_script] in S.
    destruct S as (S1 & S2 & S3 & S4).
    pose proof (varint_len_mono (N.of_nat (length (tx_outs te))) (N.of_nat (length (tx_outs te)) + 1) ltac:(lia)).
    assert (data_part s2 <= lenN s2) by (unfold data_part; destruct (is_data s2); lia).
    split; lia. }
  destruct M as [M1 M2].
  assert (Fm : quoted_fee sf df (sz_std sz') (sz_data sz') <= quoted_fee sf df (sz_std szc) (sz_data szc)).
  { unfold quoted_fee. pose proof (floor_fee_mono _ _ sf M1). pose proof (floor_fee_mono _ _ df M2). lia. }
  destruct has.
  - exfalso. destruct (Ht eq_refl) as (D & _). unfold avail in D. lia.
  - split; [reflexivity|]. destruct (Hf eq_refl) as [-> _]. reflexivity.
Qed.
