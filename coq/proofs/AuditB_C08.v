(** Audit B, C08: what thread.apply does to the caller's transaction, and what [frame_rel] says. *)
From Coq Require Import List NArith ZArith Lia Bool.
From Coq Require Import Strings.Byte.
From GoBT Require Import lib.Bytes model.Tx model.SigHash model.ScriptNum model.Interp model.CheckSig
  proofs.InterpTotal proofs.InterpFrame proofs.CheckSigProofs.
Import ListNotations.

(** thread.apply (thread.go): tx.InputIdx(i).PreviousTxScript / PreviousTxSatoshis := the previous output's *)
Definition record_prevout (t : tx) (i : N) (lock : bytes) (sats : N) : tx :=
  mkTx (tx_version t)
       (mapi (fun j x => if (j =? i)%N then mkInput (in_txid x) (in_vout x) (in_unlock x) (in_seq x) sats (Some lock) else x)
             (tx_ins t))
       (tx_outs t) (tx_lock t).

Theorem record_prevout_keeps_serialisation : forall t i lock sats,
  tx_bytes false (record_prevout t i lock sats) = tx_bytes false t.
Proof.
  intros t i lock sats. rewrite <- tx_bytes_std_strip, <- (tx_bytes_std_strip t). f_equal.
  unfold strip_tx, record_prevout. cbn [tx_version tx_ins tx_outs tx_lock]. f_equal.
  unfold mapi. apply mapi_from_strip. intros j x. destruct (j =? i)%N; reflexivity.
Qed.

Theorem record_prevout_touches_one_input : forall t i lock sats j x,
  nth_error (tx_ins t) (N.to_nat j) = Some x -> j <> i ->
  nth_error (tx_ins (record_prevout t i lock sats)) (N.to_nat j) = Some x.
Proof.
  intros t i lock sats j x H Hne. unfold record_prevout. cbn [tx_ins].
  rewrite (mapi_nth _ _ _ _ H). rewrite N2Nat.id. destruct (N.eqb_spec j i); [contradiction|reflexivity].
Qed.

Theorem record_prevout_on_the_input : forall t i lock sats x,
  nth_error (tx_ins t) (N.to_nat i) = Some x ->
  nth_error (tx_ins (record_prevout t i lock sats)) (N.to_nat i) =
  Some (mkInput (in_txid x) (in_vout x) (in_unlock x) (in_seq x) sats (Some lock)).
Proof.
  intros t i lock sats x H. unfold record_prevout. cbn [tx_ins].
  rewrite (mapi_nth _ _ _ _ H). rewrite N2Nat.id, N.eqb_refl. reflexivity.
Qed.

Lemma mapi_from_ext_nth {A B} (f g : N -> A -> B) l : forall k,
  (forall n y, nth_error l n = Some y -> f (k + N.of_nat n)%N y = g (k + N.of_nat n)%N y) ->
  mapi_from f k l = mapi_from g k l.
Proof.
  induction l as [|a l IH]; intros k H; cbn [mapi_from]; [reflexivity|]. f_equal.
  - specialize (H 0%nat a eq_refl). rewrite N.add_0_r in H. exact H.
  - apply IH. intros n y Hn. specialize (H (S n) y Hn).
    replace (k + 1 + N.of_nat n)%N with (k + N.of_nat (S n))%N by lia. exact H.
Qed.

(** the engine's transaction of model/CheckSig.v is that recording when the unlocking script is the input's own *)
Theorem engine_tx_is_record_prevout : forall t i x lock sats,
  nth_error (tx_ins t) (N.to_nat i) = Some x ->
  engine_tx t i (in_unlock x) lock sats = record_prevout t i lock sats.
Proof.
  intros t i x lock sats Hx. unfold engine_tx, record_prevout. f_equal. unfold mapi.
  apply mapi_from_ext_nth. intros n y Hn. rewrite N.add_0_l.
  destruct (N.eqb_spec (N.of_nat n) i) as [E|E]; [|reflexivity].
  subst i. rewrite Nat2N.id in Hx. rewrite Hx in Hn. injection Hn as <-. reflexivity.
Qed.

(** [frame_rel k d d'] says exactly: what lay under the top [k] items of [d] is a suffix of [d'] *)
Lemma frame_rel_iff k d d' : frame_rel k d d' <-> exists new, d' = new ++ skipn k d.
Proof.
  split.
  - intros [n H]. exists (firstn n d'). rewrite <- H. symmetry. apply firstn_skipn.
  - intros [new ->]. exists (length new). rewrite skipn_app, skipn_all, Nat.sub_diag. reflexivity.
Qed.
