(** C20 clause 1, the last open input: the seller's ordinal input of AcceptBidToBuy1SatOrdinal(2Dummies).

    The accept-bid flows end with ONE FillInput - on the ordinal input (index 1, resp. 2), SigHashFlags 0 = ALL|FORKID,
    the seller's unlocker - after which the transaction is returned.  So the transaction the unlocker was run on
    differs from the returned one in that input's unlocking script only, which a FORKID digest does not read
    ([fill_input_final] of proofs/OrdSignProofs.v): the seller's input of the RETURNED transaction [A] carries what
    unlocker.Simple around the seller's key returns on [A] itself ([accept_bid_seller_input_signs_final_tx(_2d)]),
    i.e. push(sig ++ [0x41]) push(key) with [sig] the key's signature over CalcInputSignatureHash(A, k, ALL|FORKID)
    ([accept_bid_seller_input_signed_over_final_digest(_2d)]); its recorded previous output is the ordinal UTXO
    handed to the flow; and the interpreter model run on [A] accepts it ([accept_bid_seller_input_accepted(_2d)]:
    C04_self_signed_input_accepted_forkid), relative to the ECDSA oracle.  Together with
    [bid_bidder_inputs_sign_final_tx(_2d)] every input of an accepted bid is covered.
    The statements hold for ANY partially signed bid [P] that AcceptBid accepts, not only for bids made by
    MakeBidToBuy1SatOrdinal. *)
From Coq Require Import List NArith ZArith Lia ZifyN ZifyNat ZifyBool Bool.
From Coq Require Import Strings.Byte.
From GoBT Require Import lib.Bytes lib.VarInt lib.Checked lib.Sha256 lib.Ripemd160 model.Tx gen.Consts spec.FeeSpec
  model.Fees model.Change spec.DigestSpec model.SigHash model.SigHashWire model.Push model.Classify model.ScriptNum
  model.Interp model.CheckSig model.Sign model.Ord proofs.TxProofs proofs.SigHashProofs proofs.ClassifyProofs
  proofs.CheckSigProofs proofs.P2PKHProofs proofs.AuditAC04 proofs.AuditASigHash proofs.SignProofs proofs.OrdProofs
  proofs.AuditC20 proofs.OrdSignProofs.
From GoBT Require model.Inscription proofs.InscribeAccept.
Import ListNotations.
Local Open Scope N_scope.
Local Open Scope bool_scope.

Local Opaque hash160 sha256 sha256d.

(** * the flows end with one FillInput on the ordinal input *)
Lemma accept_bid_last_fill signer ou bid eq P ss A : accept_bid signer ou bid eq P ss = Done A ->
  exists T, Ord.fill_input signer T 1 0 = Done A.
Proof.
  unfold accept_bid. destruct (validate_bid ou bid eq P) as [ok p']. destruct ok; cbn [negb]; [|discriminate].
  destruct (clone p') as [t| |]; try discriminate.
  destruct (is_fee_paid_enough _ eq) as [[|]| | |]; try discriminate.
  destruct (estimate_check _ eq) as [t1| |]; cbn [fbind]; try discriminate. eauto.
Qed.

Lemma accept_bid_2d_last_fill signer prevs bid eq P ss A : accept_bid_2d signer prevs bid eq P ss = Done A ->
  exists T, Ord.fill_input signer T 2 0 = Done A.
Proof.
  unfold accept_bid_2d. destruct (validate_bid_2d prevs bid eq P) as [ok p']. destruct ok; cbn [negb]; [|discriminate].
  destruct (negb (Fees.is_p2pkh ss)); [discriminate|].
  destruct (tx_from_bytes (tx_bytes false p')) as [pr| |]; try discriminate;
    destruct (nth_error prevs 2) as [ou|]; try discriminate.
  destruct (restore_prevs _ _ 0 2) as [ins|]; [|discriminate].
  destruct (estimate_check _ eq) as [t1| |]; cbn [fbind]; try discriminate. eauto.
Qed.

(** the ordinal input of the accepted transaction records the ordinal UTXO as its previous output *)
Lemma same_prev_nth : forall (l l' : list input) k a, Forall2 same_prev l l' -> nth_error l k = Some a ->
  exists b, nth_error l' k = Some b /\ same_prev a b.
Proof.
  induction l as [|x r IH]; intros l' k a F Hn; [destruct k; discriminate|].
  inversion F as [|? y ? r' Hxy Fr]; subst. destruct k as [|k]; cbn [nth_error] in *.
  - injection Hn as <-. eauto.
  - apply (IH r' k a Fr Hn).
Qed.

Lemma set_in_at_nth_here : forall (l : list input) k f a, nth_error l k = Some a ->
  nth_error (set_in_at l k f) k = Some (f a).
Proof.
  induction l as [|x r IH]; intros [|k] f a H; cbn [set_in_at nth_error] in *; try discriminate.
  - injection H as <-. reflexivity.
  - apply IH. exact H.
Qed.

(** * AcceptBidToBuy1SatOrdinal *)
Theorem accept_bid_seller_input_signs_final_tx key ou bid eq P ss A :
  accept_bid (simple_signer key) ou bid eq P ss = Done A -> wf_tx P -> bid < two64 ->
  exists seller_in, nth_error (tx_ins A) 1 = Some seller_in /\
    unlocking_script (key 1) A 1 0 = SgOk (in_unlock seller_in) /\
    in_script seller_in = Some (u_script ou) /\ in_sats seller_in = u_sats ou.
Proof.
  intros HA W Hb.
  destruct (accept_bid_last_fill _ _ _ _ _ _ _ HA) as [T HT].
  destruct (fill_input_final key T 1 0 A HT ltac:(reflexivity) ltac:(reflexivity)) as (si & Hsi & Hu).
  change (N.to_nat 1) with 1%nat in Hsi.
  exists si. split; [exact Hsi|]. split; [exact Hu|].
  destruct (accept_bid_shape (simple_signer key) _ _ _ _ _ _ HA W Hb _ eq_refl) as (_ & _ & _ & _ & SA & _ & _ & LI & _).
  cbn [accepted_unsigned tx_ins] in SA.
  destruct (nth_error (tx_ins P) 1) as [oi|] eqn:EI; [|apply nth_error_None in EI; lia].
  pose proof (set_in_at_nth_here (tx_ins P) 1 (fun i => with_prev i (u_script ou) (u_sats ou)) oi EI) as H1.
  destruct (same_prev_nth _ _ 1%nat _ SA H1) as (b & Hb1 & (_ & _ & _ & S4 & S5)).
  rewrite Hsi in Hb1. injection Hb1 as <-. cbn [with_prev in_sats in_script] in S4, S5. split; congruence.
Qed.

(** * AcceptBidToBuy1SatOrdinal2Dummies: the ordinal is input 2 and its UTXO is PreviousUTXOs[2] *)
Theorem accept_bid_2d_seller_input_signs_final_tx key prevs bid eq P ss A :
  accept_bid_2d (simple_signer key) prevs bid eq P ss = Done A -> wf_tx P -> bid < two64 ->
  exists seller_in ou, nth_error prevs 2 = Some ou /\ nth_error (tx_ins A) 2 = Some seller_in /\
    unlocking_script (key 2) A 2 0 = SgOk (in_unlock seller_in) /\
    in_script seller_in = Some (u_script ou) /\ in_sats seller_in = u_sats ou.
Proof.
  intros HA W Hb.
  destruct (accept_bid_2d_last_fill _ _ _ _ _ _ _ HA) as [T HT].
  destruct (fill_input_final key T 2 0 A HT ltac:(reflexivity) ltac:(reflexivity)) as (si & Hsi & Hu).
  change (N.to_nat 2) with 2%nat in Hsi.
  destruct (accept_bid_2d_shape (simple_signer key) _ _ _ _ _ _ HA W Hb) as (ou & Hou & HS).
  exists si, ou. split; [exact Hou|]. split; [exact Hsi|]. split; [exact Hu|].
  destruct (HS _ eq_refl) as (_ & _ & _ & _ & SA & _ & _ & LI & _).
  cbn [accepted_unsigned tx_ins] in SA.
  destruct (nth_error (tx_ins P) 2) as [oi|] eqn:EI; [|apply nth_error_None in EI; lia].
  pose proof (set_in_at_nth_here (tx_ins P) 2 (fun i => with_prev i (u_script ou) (u_sats ou)) oi EI) as H1.
  destruct (same_prev_nth _ _ 2%nat _ SA H1) as (b & Hb1 & (_ & _ & _ & S4 & S5)).
  rewrite Hsi in Hb1. injection Hb1 as <-. cbn [with_prev in_sats in_script] in S4, S5. split; congruence.
Qed.

(** unfolded with a go-bk-shaped key: the seller's script is push(sig ++ [0x41]) push(key), [sig] the key's signature
    over CalcInputSignatureHash of the RETURNED transaction for ALL|FORKID, the byte opcodeCheckSig reads *)
Corollary accept_bid_seller_input_signed_over_final_digest key ou bid eq P ss A :
  accept_bid (simple_signer key) ou bid eq P ss = Done A -> wf_tx P -> bid < two64 -> signer_ok (key 1) ->
  exists seller_in sig h, nth_error (tx_ins A) 1 = Some seller_in /\
    fst (calc_input_signature_hash A 1 65) = SOk h /\ sg_sign (key 1) h = Some sig /\
    in_unlock seller_in = p2pkh_unlock sig 65 (sg_pub (key 1)) /\
    carried_signature (in_unlock seller_in) = Some sig /\ carried_hash_type (in_unlock seller_in) = Some 65.
Proof.
  intros HA W Hb Hok.
  destruct (accept_bid_seller_input_signs_final_tx key ou bid eq P ss A HA W Hb) as (si & Hn & Hu & _).
  destruct (self_signed_is_signature_over_own_digest (key 1) A 1 0 si ltac:(lia) Hok Hu) as (sig & h & H1 & H2 & H3 & H4 & H5).
  exists si, sig, h. change (default_type 0) with 65 in *. repeat split; assumption.
Qed.
Corollary accept_bid_2d_seller_input_signed_over_final_digest key prevs bid eq P ss A :
  accept_bid_2d (simple_signer key) prevs bid eq P ss = Done A -> wf_tx P -> bid < two64 -> signer_ok (key 2) ->
  exists seller_in sig h, nth_error (tx_ins A) 2 = Some seller_in /\
    fst (calc_input_signature_hash A 2 65) = SOk h /\ sg_sign (key 2) h = Some sig /\
    in_unlock seller_in = p2pkh_unlock sig 65 (sg_pub (key 2)) /\
    carried_signature (in_unlock seller_in) = Some sig /\ carried_hash_type (in_unlock seller_in) = Some 65.
Proof.
  intros HA W Hb Hok.
  destruct (accept_bid_2d_seller_input_signs_final_tx key prevs bid eq P ss A HA W Hb) as (si & ou & _ & Hn & Hu & _).
  destruct (self_signed_is_signature_over_own_digest (key 2) A 2 0 si ltac:(lia) Hok Hu) as (sig & h & H1 & H2 & H3 & H4 & H5).
  exists si, sig, h. change (default_type 0) with 65 in *. repeat split; assumption.
Qed.

(** * interpreter acceptance of the seller's input, run on the returned transaction *)
Section SellerAccepted.
Local Open Scope Z_scope.

(** the ordinal UTXO's script pays to the seller's key: P2PKH, or P2PKH followed by an inscription envelope *)
Theorem accept_bid_seller_input_accepted : forall (orc : sig_oracle) key ou bid eq P ss (A : tx)
    (flags : N) (body : bytes) (insc : bool) (bops : list pop),
  let s := key 1%N in
  let pk := sg_pub s in
  let lock := p2pkh_lock (hash160 pk) ++ (if insc then inscription_suffix body else []) in
  accept_bid (simple_signer key) ou bid eq P ss = Done A -> wf_tx P -> (bid < two64)%N ->
  wf_tx A -> u_script ou = lock -> signer_ok s ->
  exists seller_in, nth_error (tx_ins A) 1 = Some seller_in /\ in_script seller_in = Some lock /\
    in_sats seller_in = u_sats ou /\
    let c := mkCtx (normalise_flags flags) true (Z.of_N (tx_lock A)) (Z.of_N (tx_version A)) (Z.of_N (in_seq seller_in)) false in
    (has_flag c F_FORKID = true ->
     (has_flag c F_CLEANSTACK = true -> has_flag c F_BIP16 = true) ->
     lenZ lock <= max_script_size c ->
     (insc = true -> parse_ops (length body) false body 1 = Some bops /\ is_push_only bops = true /\
                     Forall (fun p => lenZ (p_data p) <= max_elem c) bops) ->
     (forall h, fst (calc_input_signature_hash A 1 65) = SOk h -> oracle_accepts_signer orc c s h) ->
     fst (engine_execute (mk_sigops orc (engine_tx A 1 (in_unlock seller_in) lock (in_sats seller_in)) 1)
            (mkExecInput (in_unlock seller_in) lock flags true true (Z.of_N (tx_lock A)) (Z.of_N (tx_version A))
                         (Z.of_N (in_seq seller_in)))) = VOk).
Proof.
  intros orc key ou bid eq P ss A flags body insc bops s pk lock HA W Hb WA Hlock Hok.
  destruct (accept_bid_seller_input_signs_final_tx key ou bid eq P ss A HA W Hb) as (si & Hn & Hu & Hsc & Hsa).
  rewrite Hlock in Hsc. exists si. split; [exact Hn|]. split; [exact Hsc|]. split; [exact Hsa|].
  intros c Hfk Hcs Hsz Hbody Horc.
  apply (self_signed_input_accepted_forkid orc s A 1%N si flags 0%N body insc bops); try assumption.
  - unfold two32. lia.
  - left. reflexivity.
  - rewrite nthN_nth_error. exact Hn.
Qed.

Theorem accept_bid_2d_seller_input_accepted : forall (orc : sig_oracle) key prevs bid eq P ss (A : tx)
    (flags : N) (body : bytes) (insc : bool) (bops : list pop),
  let s := key 2%N in
  let pk := sg_pub s in
  let lock := p2pkh_lock (hash160 pk) ++ (if insc then inscription_suffix body else []) in
  accept_bid_2d (simple_signer key) prevs bid eq P ss = Done A -> wf_tx P -> (bid < two64)%N ->
  wf_tx A -> (forall ou, nth_error prevs 2 = Some ou -> u_script ou = lock) -> signer_ok s ->
  exists seller_in ou, nth_error prevs 2 = Some ou /\ nth_error (tx_ins A) 2 = Some seller_in /\
    in_script seller_in = Some lock /\ in_sats seller_in = u_sats ou /\
    let c := mkCtx (normalise_flags flags) true (Z.of_N (tx_lock A)) (Z.of_N (tx_version A)) (Z.of_N (in_seq seller_in)) false in
    (has_flag c F_FORKID = true ->
     (has_flag c F_CLEANSTACK = true -> has_flag c F_BIP16 = true) ->
     lenZ lock <= max_script_size c ->
     (insc = true -> parse_ops (length body) false body 1 = Some bops /\ is_push_only bops = true /\
                     Forall (fun p => lenZ (p_data p) <= max_elem c) bops) ->
     (forall h, fst (calc_input_signature_hash A 2 65) = SOk h -> oracle_accepts_signer orc c s h) ->
     fst (engine_execute (mk_sigops orc (engine_tx A 2 (in_unlock seller_in) lock (in_sats seller_in)) 2)
            (mkExecInput (in_unlock seller_in) lock flags true true (Z.of_N (tx_lock A)) (Z.of_N (tx_version A))
                         (Z.of_N (in_seq seller_in)))) = VOk).
Proof.
  intros orc key prevs bid eq P ss A flags body insc bops s pk lock HA W Hb WA Hlock Hok.
  destruct (accept_bid_2d_seller_input_signs_final_tx key prevs bid eq P ss A HA W Hb) as (si & ou & Hou & Hn & Hu & Hsc & Hsa).
  rewrite (Hlock ou Hou) in Hsc. exists si, ou. split; [exact Hou|]. split; [exact Hn|]. split; [exact Hsc|]. split; [exact Hsa|].
  intros c Hfk Hcs Hsz Hbody Horc.
  apply (self_signed_input_accepted_forkid orc s A 2%N si flags 0%N body insc bops); try assumption.
  - unfold two32. lia.
  - left. reflexivity.
  - rewrite nthN_nth_error. exact Hn.
Qed.
End SellerAccepted.

Print Assumptions accept_bid_seller_input_signs_final_tx.
Print Assumptions accept_bid_2d_seller_input_signs_final_tx.
Print Assumptions accept_bid_seller_input_accepted.
Print Assumptions accept_bid_2d_seller_input_accepted.

(** * every input of an accepted bid: the bidder's (SINGLE|FORKID, made on the bid) and the seller's (ALL|FORKID) *)
Theorem bid_every_input_signs_final_tx kb ks bid otx ov us buyer dummy chg q dprev dpay P ou eq ss A :
  make_bid (simple_signer kb) bid otx ov us buyer dummy chg q dprev dpay = Done P ->
  accept_bid (simple_signer ks) ou bid eq P ss = Done A -> wf_tx P -> bid < two64 ->
  N.of_nat (length (tx_outs P)) < two31 -> N.of_nat (length (tx_ins P)) < two32 ->
  forall j inp, nth_error (tx_ins A) j = Some inp ->
    unlocking_script (if Nat.eqb j 1 then ks 1 else kb (N.of_nat j)) A (N.of_nat j) (if Nat.eqb j 1 then 0 else 67) =
    SgOk (in_unlock inp).
Proof.
  intros HM HA W Hb Ho Hi j inp Hn. destruct (Nat.eqb_spec j 1) as [->|Hj].
  - destruct (accept_bid_seller_input_signs_final_tx ks ou bid eq P ss A HA W Hb) as (si & Hsi & Hu & _).
    rewrite Hn in Hsi. injection Hsi as <-. exact Hu.
  - exact (bid_bidder_inputs_sign_final_tx kb (simple_signer ks) bid otx ov us buyer dummy chg q dprev dpay P ou eq ss A
             HM HA W Hb Ho Hi j inp Hj Hn).
Qed.
Theorem bid_2d_every_input_signs_final_tx kb ks bid otx ov us buyer dummy chg q dprev dpay P prevs eq ss A :
  make_bid_2d (simple_signer kb) bid otx ov us buyer dummy chg q dprev dpay = Done P ->
  accept_bid_2d (simple_signer ks) prevs bid eq P ss = Done A -> wf_tx P -> bid < two64 ->
  N.of_nat (length (tx_outs P)) < two31 -> N.of_nat (length (tx_ins P)) < two32 ->
  forall j inp, nth_error (tx_ins A) j = Some inp ->
    unlocking_script (if Nat.eqb j 2 then ks 2 else kb (N.of_nat j)) A (N.of_nat j) (if Nat.eqb j 2 then 0 else 67) =
    SgOk (in_unlock inp).
Proof.
  intros HM HA W Hb Ho Hi j inp Hn. destruct (Nat.eqb_spec j 2) as [->|Hj].
  - destruct (accept_bid_2d_seller_input_signs_final_tx ks prevs bid eq P ss A HA W Hb) as (si & ou & _ & Hsi & Hu & _).
    rewrite Hn in Hsi. injection Hsi as <-. exact Hu.
  - exact (bid_2d_bidder_inputs_sign_final_tx kb (simple_signer ks) bid otx ov us buyer dummy chg q dprev dpay P prevs eq ss A
             HM HA W Hb Ho Hi j inp Hj Hn).
Qed.

(** * non-vacuity: the flows run with unlocker.Simple around a fixed key; the ordinal UTXO pays to that key *)
Definition ex_p2pkh (b : byte) : bytes := [x76; xa9; x14] ++ repeat_byte 20 b ++ [x88; xac].
Definition ex_quote : quote := mkQuote (Some (mkRate 50 1000)) (Some (mkRate 50 1000)).
Definition ex_ord_utxo : utxo := mkUtxo (repeat_byte 32 xaa) 0 (p2pkh_lock (hash160 ex_pk)) 1.
Definition ex_funding : list utxo :=
  [mkUtxo (repeat_byte 32 xbb) 1 (ex_p2pkh x02) 100; mkUtxo (repeat_byte 32 xcc) 0 (ex_p2pkh x02) 1500].
Definition ex_key : N -> Sign.signer := fun _ => ex_signer.

Ltac wfs := repeat match goal with
  | |- _ /\ _ => split
  | |- Forall _ _ => constructor
  | |- True => exact I
  | |- _ => vm_compute; reflexivity
  end.

Example accept_bid_seller_example :
  exists P A si,
    make_bid (simple_signer ex_key) 1000 (repeat_byte 32 xaa) 0 ex_funding (ex_p2pkh x04) (ex_p2pkh x05) (ex_p2pkh x06)
      ex_quote (ex_p2pkh x07) (ex_p2pkh x08) = Done P /\
    accept_bid (simple_signer ex_key) ex_ord_utxo 1000 ex_quote P (ex_p2pkh x03) = Done A /\
    wf_tx P /\ wf_tx A /\ nth_error (tx_ins A) 1 = Some si /\
    unlocking_script ex_signer A 1 0 = SgOk (in_unlock si) /\
    in_script si = Some (p2pkh_lock (hash160 ex_pk)) /\
    fst (engine_execute (mk_sigops ex_orc (engine_tx A 1 (in_unlock si) (p2pkh_lock (hash160 ex_pk)) (in_sats si)) 1)
           (mkExecInput (in_unlock si) (p2pkh_lock (hash160 ex_pk)) FLAGS_FORKID_GENESIS true true
                        (Z.of_N (tx_lock A)) (Z.of_N (tx_version A)) (Z.of_N (in_seq si)))) = VOk.
Proof.
  eexists. eexists. eexists.
  split; [vm_compute; reflexivity|]. split; [vm_compute; reflexivity|].
  split; [unfold wf_tx, wf_input, wf_output, wf_script;
          cbn [tx_version tx_lock tx_ins tx_outs length in_txid in_vout in_seq in_sats in_unlock in_script out_sats out_script]; wfs|].
  split; [unfold wf_tx, wf_input, wf_output, wf_script;
          cbn [tx_version tx_lock tx_ins tx_outs length in_txid in_vout in_seq in_sats in_unlock in_script out_sats out_script]; wfs|].
  split; [reflexivity|]. split; [vm_compute; reflexivity|]. split; [vm_compute; reflexivity|]. vm_compute. reflexivity.
Qed.

(** * the ordinal as Tx.Inscribe made it: P2PKH of the seller's key, the inscription envelope, optionally OP_RETURN data.
    After Genesis the seller's input of the accepted bid is accepted with no hypothesis on content type, payload or
    OP_RETURN items (proofs/InscribeAccept.v) *)
Section SellerInscribedAccepted.
Local Open Scope Z_scope.

Theorem accept_bid_seller_inscribed_input_accepted : forall (orc : sig_oracle) key ou bid eq P ss (A : tx)
    (flags : N) (ct data : bytes) (enriched : option (list bytes)),
  let s := key 1%N in
  let pk := sg_pub s in
  accept_bid (simple_signer key) ou bid eq P ss = Done A -> wf_tx P -> (bid < two64)%N ->
  wf_tx A -> Inscription.inscribe_script (p2pkh_lock (hash160 pk)) ct data enriched = Some (u_script ou) -> signer_ok s ->
  exists seller_in, nth_error (tx_ins A) 1 = Some seller_in /\ in_script seller_in = Some (u_script ou) /\
    in_sats seller_in = u_sats ou /\
    let c := mkCtx (normalise_flags flags) true (Z.of_N (tx_lock A)) (Z.of_N (tx_version A)) (Z.of_N (in_seq seller_in)) false in
    (has_flag c F_FORKID = true -> after_genesis c = true ->
     (has_flag c F_CLEANSTACK = true -> has_flag c F_BIP16 = true) ->
     lenZ (u_script ou) <= max_script_size c ->
     (forall h, fst (calc_input_signature_hash A 1 65) = SOk h -> oracle_accepts_signer orc c s h) ->
     fst (engine_execute (mk_sigops orc (engine_tx A 1 (in_unlock seller_in) (u_script ou) (in_sats seller_in)) 1)
            (mkExecInput (in_unlock seller_in) (u_script ou) flags true true (Z.of_N (tx_lock A)) (Z.of_N (tx_version A))
                         (Z.of_N (in_seq seller_in)))) = VOk).
Proof.
  intros orc key ou bid eq P ss A flags ct data enriched s pk HA W Hb WA Hi Hok.
  destruct (accept_bid_seller_input_signs_final_tx key ou bid eq P ss A HA W Hb) as (si & Hn & Hu & Hsc & Hsa).
  exists si. split; [exact Hn|]. split; [exact Hsc|]. split; [exact Hsa|].
  intros c Hfk Hag Hcs Hsz Horc.
  apply (InscribeAccept.self_signed_inscribed_input_accepted orc s A 1%N si flags 0%N ct data enriched (u_script ou)); try assumption.
  - unfold two32. lia.
  - left. reflexivity.
  - rewrite nthN_nth_error. exact Hn.
Qed.

Theorem accept_bid_2d_seller_inscribed_input_accepted : forall (orc : sig_oracle) key prevs bid eq P ss (A : tx)
    (flags : N) (ct data : bytes) (enriched : option (list bytes)),
  let s := key 2%N in
  let pk := sg_pub s in
  accept_bid_2d (simple_signer key) prevs bid eq P ss = Done A -> wf_tx P -> (bid < two64)%N ->
  wf_tx A ->
  (forall ou, nth_error prevs 2 = Some ou ->
     Inscription.inscribe_script (p2pkh_lock (hash160 pk)) ct data enriched = Some (u_script ou)) -> signer_ok s ->
  exists seller_in ou, nth_error prevs 2 = Some ou /\ nth_error (tx_ins A) 2 = Some seller_in /\
    in_script seller_in = Some (u_script ou) /\ in_sats seller_in = u_sats ou /\
    let c := mkCtx (normalise_flags flags) true (Z.of_N (tx_lock A)) (Z.of_N (tx_version A)) (Z.of_N (in_seq seller_in)) false in
    (has_flag c F_FORKID = true -> after_genesis c = true ->
     (has_flag c F_CLEANSTACK = true -> has_flag c F_BIP16 = true) ->
     lenZ (u_script ou) <= max_script_size c ->
     (forall h, fst (calc_input_signature_hash A 2 65) = SOk h -> oracle_accepts_signer orc c s h) ->
     fst (engine_execute (mk_sigops orc (engine_tx A 2 (in_unlock seller_in) (u_script ou) (in_sats seller_in)) 2)
            (mkExecInput (in_unlock seller_in) (u_script ou) flags true true (Z.of_N (tx_lock A)) (Z.of_N (tx_version A))
                         (Z.of_N (in_seq seller_in)))) = VOk).
Proof.
  intros orc key prevs bid eq P ss A flags ct data enriched s pk HA W Hb WA Hi Hok.
  destruct (accept_bid_2d_seller_input_signs_final_tx key prevs bid eq P ss A HA W Hb) as (si & ou & Hou & Hn & Hu & Hsc & Hsa).
  exists si, ou. split; [exact Hou|]. split; [exact Hn|]. split; [exact Hsc|]. split; [exact Hsa|].
  intros c Hfk Hag Hcs Hsz Horc.
  apply (InscribeAccept.self_signed_inscribed_input_accepted orc s A 2%N si flags 0%N ct data enriched (u_script ou)); try assumption.
  - unfold two32. lia.
  - left. reflexivity.
  - rewrite nthN_nth_error. exact Hn.
  - apply Hi. exact Hou.
Qed.
End SellerInscribedAccepted.
Print Assumptions accept_bid_seller_inscribed_input_accepted.
Print Assumptions accept_bid_2d_seller_inscribed_input_accepted.
