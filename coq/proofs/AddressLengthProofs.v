(** No long string is an address. Whatever the acceptors of model/Address.v accept is the Base58 text of
    25 bytes, and such a text has at most 35 characters (58^35 > 256^25; every leading zero byte costs one
    character and removes one byte from the number). Hence the verdict on a string of hundreds or
    thousands of characters - a run of '1's before an address, an address repeated, a long body - is
    "reject" whatever its length is modulo 2^8 or 2^16: the model counts in nat / N, the Go code in int;
    the correspondence (family long/... of harness/cmd/c15) compares the two on such strings. *)
From Coq Require Import String List NArith ZArith Bool Lia ZifyN ZifyNat ZifyBool.
From Coq Require Import Strings.Byte.
From GoBT Require Import lib.Bytes lib.Str lib.Numeral lib.Base58.
From GoBT Require Import model.Address spec.Base58Check proofs.AddressProofs.
Import ListNotations.
Local Open Scope N_scope.

(** a canonical non-empty digit list of length n is worth at least B^(n-1) *)
Lemma canonical_value_ge B ds : 2 <= B -> canonical B ds -> ds <> [] ->
  B ^ N.of_nat (List.length ds - 1) <= value B ds.
Proof.
  intros HB [_ Hnz] Hne. destruct ds as [|d r]; [congruence|]. cbn in Hnz.
  rewrite value_cons by exact HB. cbn [List.length]. rewrite Nat.sub_succ, Nat.sub_0_r.
  pose proof (pow_pos B HB (N.of_nat (List.length r))). nia.
Qed.

(** a number below B^k has at most k digits *)
Lemma digits_length_le B v k : 2 <= B -> v < B ^ N.of_nat k -> (List.length (digits B v) <= k)%nat.
Proof.
  intros HB Hv. destruct (Nat.le_gt_cases (List.length (digits B v)) k) as [H|H]; [exact H|exfalso].
  assert (Hne : digits B v <> []) by (intros E; rewrite E in H; cbn in H; lia).
  pose proof (canonical_value_ge B (digits B v) HB (digits_canonical B HB v) Hne) as Hge.
  rewrite value_digits in Hge by exact HB.
  assert (B ^ N.of_nat k <= B ^ N.of_nat (List.length (digits B v) - 1)) by (apply N.pow_le_mono_r; lia).
  lia.
Qed.

Lemma count_leading_split z (b : bytes) :
  b = repeat z (count_leading z b) ++ skipn (count_leading z b) b.
Proof.
  induction b as [|c r IH]; [reflexivity|]. cbn [count_leading].
  destruct (Byte.eqb c z) eqn:E; [|reflexivity].
  apply Byte.byte_dec_bl in E. subst c. cbn [repeat skipn app]. f_equal. exact IH.
Qed.

Lemma count_leading_le z (b : bytes) : (count_leading z b <= List.length b)%nat.
Proof. induction b as [|c r IH]; cbn; [lia|]. destruct (Byte.eqb c z); lia. Qed.

(** leading zero bytes do not count: the number is below 256^(length - leading zeros) *)
Lemma bval_lt_leading b :
  bval b < 256 ^ N.of_nat (List.length b - count_leading x00 b).
Proof.
  set (z := count_leading x00 b). pose proof (count_leading_split x00 b) as E. fold z in E.
  assert (Hv : bval b = bval (skipn z b)).
  { rewrite E at 1. unfold bval. rewrite map_app, map_b2n_repeat0. apply value_repeat0. lia. }
  rewrite Hv. pose proof (bval_lt (skipn z b)) as H. rewrite skipn_length in H. exact H.
Qed.

Lemma pow_256_58 m : (m <= 25)%nat -> 256 ^ N.of_nat m <= 58 ^ N.of_nat (m + 10).
Proof.
  intros H.
  assert (A : forallb (fun m => 256 ^ N.of_nat m <=? 58 ^ N.of_nat (m + 10)) (seq 0 26) = true) by (vm_compute; reflexivity).
  rewrite forallb_forall in A. specialize (A m). rewrite N.leb_le in A. apply A. apply in_seq. lia.
Qed.

(** Base58 of at most 25 bytes has at most 35 characters *)
Theorem b58_encode_length_le_35 b : (List.length b <= 25)%nat -> (List.length (b58_encode b) <= 35)%nat.
Proof.
  intros Hl. unfold b58_encode. rewrite app_length, repeat_length, map_length.
  pose proof (count_leading_le x00 b) as Hz. set (z := count_leading x00 b) in *.
  fold (bval b). pose proof (bval_lt_leading b) as Hv. fold z in Hv.
  assert (Hd : (List.length (digits 58 (bval b)) <= (List.length b - z) + 10)%nat).
  { apply digits_length_le; [lia|]. eapply N.lt_le_trans; [exact Hv|]. apply pow_256_58. lia. }
  lia.
Qed.

Theorem base58_25_length_le_35 s : is_base58_25 s -> (List.length s <= 35)%nat.
Proof.
  intros (v & rest & _ & Hr & ->). apply b58_encode_length_le_35. cbn [List.length]. lia.
Qed.

Lemma length_bytes_of_string s : List.length (bytes_of_string s) = String.length s.
Proof.
  unfold bytes_of_string. induction s as [|c r IH]; [reflexivity|]. cbn. f_equal. exact IH.
Qed.

(** every acceptor rejects every string of more than 35 characters (the BIP276 branch of
    ValidateAddress, which belongs to C17, aside) *)
Theorem accepted_strings_are_short s :
  (has_prefix "bitcoin-script:" s = false -> validate_address s = true -> (String.length s <= 35)%nat) /\
  ((exists a, new_address_from_string s = Ok a) -> (String.length s <= 35)%nat) /\
  ((exists sc, p2pkh_from_address s = Ok sc) -> (String.length s <= 35)%nat) /\
  ((exists sc, pay_to_address_script s = Ok sc) -> (String.length s <= 35)%nat).
Proof.
  rewrite <- length_bytes_of_string.
  destruct (from_address_accept_partial_lemma s) as (H1 & H2 & _).
  repeat split.
  - intros Hp Hv. apply base58_25_length_le_35, p2pkh_address_is_base58_25.
    apply (validate_accept_iff_base58check_lemma s Hp). exact Hv.
  - intros H. apply base58_25_length_le_35, H1, H.
  - intros H. apply base58_25_length_le_35, H2, H.
  - intros H. apply base58_25_length_le_35, H2, H.
Qed.

(** the instances the changed library got wrong: 256 k or 65536 characters '1' before a string never
    make an accepted one (any k >= 1, any string) *)
Corollary ones_prepended_rejected n s : (36 <= n)%nat ->
  has_prefix "bitcoin-script:" (String.append (string_of_bytes (repeat x31 n)) s) = false ->
  validate_address (String.append (string_of_bytes (repeat x31 n)) s) = false.
Proof.
  intros Hn Hp. destruct (validate_address _) eqn:E; [exfalso|reflexivity].
  destruct (accepted_strings_are_short (String.append (string_of_bytes (repeat x31 n)) s)) as (H & _).
  specialize (H Hp E). rewrite <- length_bytes_of_string in H. unfold bytes_of_string, string_of_bytes in H.
  assert (L : forall a b, List.length (list_byte_of_string (String.append a b)) =
                          (List.length (list_byte_of_string a) + List.length (list_byte_of_string b))%nat).
  { induction a as [|c r IH]; intros b0; [reflexivity|]. cbn. f_equal. apply IH. }
  rewrite L in H. rewrite list_byte_of_string_of_list_byte, repeat_length in H. lia.
Qed.
