(** The refined sharing observable of model/HeapViews.v (zero-length views shown where they lie) against the one
    of model/Heap.v (zero-length items erased): same numbering of the arrays, and erasing the zero-length
    entries of the refined trace gives the old trace back - for every heap, table and list of snapshots.  So a
    correspondence case checked with [canon_trace_z] checks everything a case with [canon_trace] checks. *)
From Coq Require Import List NArith ZArith Lia Bool.
From Coq Require Import Strings.Byte.
From GoBT Require Import lib.Bytes model.ScriptNum model.Interp model.Heap model.HeapViews.
Import ListNotations.
Local Open Scope Z_scope.

Lemma canon1z_refines : forall h tbl x,
  fst (canon1z h tbl x) = fst (canon1 tbl x) /\ erase (snd (canon1z h tbl x)) = snd (canon1 tbl x).
Proof.
  intros h tbl x. unfold canon1z, canon1.
  destruct (Nat.eqb (sl_len x) 0) eqn:El.
  - destruct (is_nil_slice x).
    + split; reflexivity.
    + destruct (lookup tbl (sl_arr x) 1) as [[k base]|]; split; reflexivity.
  - apply Nat.eqb_neq in El.
    destruct (lookup tbl (sl_arr x) 1) as [[k base]|]; cbn [fst snd]; split; try reflexivity;
      unfold erase; cbn [fst];
      destruct (Z.of_nat (sl_len x) =? 0) eqn:Ez; try reflexivity; apply Z.eqb_eq in Ez; lia.
Qed.

Lemma canon_list_z_refines : forall h xs tbl,
  fst (canon_list_z h tbl xs) = fst (canon_list tbl xs) /\
  map erase (snd (canon_list_z h tbl xs)) = snd (canon_list tbl xs).
Proof.
  intros h xs. induction xs as [|x r IH]; intro tbl; [split; reflexivity|].
  cbn [canon_list_z canon_list].
  destruct (canon1z_refines h tbl x) as [Ht Hy].
  destruct (canon1z h tbl x) as [t1 y]. destruct (canon1 tbl x) as [t1' y']. cbn [fst snd] in Ht, Hy. subst t1' y'.
  destruct (IH t1) as [Ht2 Hys].
  destruct (canon_list_z h t1 r) as [t2 ys]. destruct (canon_list t1 r) as [t2' ys']. cbn [fst snd] in Ht2, Hys |- *.
  subst t2' ys'. split; reflexivity.
Qed.

Definition erase_snap (e : list expect * list expect) : list ztriple * list ztriple :=
  (map erase (fst e), map erase (snd e)).

Lemma canon_snaps_z_refines : forall h sn tbl,
  map erase_snap (canon_snaps_z h tbl sn) = canon_snaps tbl sn.
Proof.
  intros h sn. induction sn as [|[d a] r IH]; intro tbl; [reflexivity|].
  cbn [canon_snaps_z canon_snaps].
  destruct (canon_list_z_refines h d tbl) as [Ht1 Hd].
  destruct (canon_list_z h tbl d) as [t1 cd]. destruct (canon_list tbl d) as [t1' cd']. cbn [fst snd] in Ht1, Hd. subst t1' cd'.
  destruct (canon_list_z_refines h a t1) as [Ht2 Ha].
  destruct (canon_list_z h t1 a) as [t2 ca]. destruct (canon_list t1 a) as [t2' ca']. cbn [fst snd] in Ht2, Ha. subst t2' ca'.
  cbn [map]. rewrite IH. reflexivity.
Qed.

(** erasing the zero-length views of the refined trace gives the trace of model/Heap.v *)
Theorem canon_trace_z_refines : forall h ub lb sn,
  map erase_snap (canon_trace_z h ub lb sn) = canon_trace ub lb sn.
Proof.
  intros. unfold canon_trace_z, canon_trace.
  destruct (canon_list [] [whole 0 ub; whole 1 lb]) as [t0 ?]. apply canon_snaps_z_refines.
Qed.

(** a zero-length view that starts strictly inside its array, the array seen before: exactly one report is
    accepted, the array's number and the view's offset *)
Lemma canon1z_inside_is_exact : forall h tbl x k base,
  sl_len x = 0%nat -> is_nil_slice x = false -> lookup tbl (sl_arr x) 1 = Some (k, base) ->
  (sl_off x < length (nth (sl_arr x) h []))%nat ->
  snd (canon1z h tbl x) =
    ((Z.of_nat k, Z.of_nat (sl_off x) - Z.of_nat base, 0), (Z.of_nat k, Z.of_nat (sl_off x) - Z.of_nat base, 0)).
Proof.
  intros h tbl x k base Hl Hn Hk Hin. unfold canon1z. rewrite Hl, Hn, Hk. cbn [Nat.eqb snd].
  unfold room. destruct (Nat.ltb 0 (length (nth (sl_arr x) h []) - sl_off x)) eqn:E; [reflexivity|].
  apply Nat.ltb_ge in E. lia.
Qed.

(** [meets] with an exact expectation is equality *)
Lemma meets_exact : forall t o, meets (t, t) o = true -> o = t.
Proof.
  intros [[a b] c] [[a' b'] c'] H. unfold meets, ztriple_eqb in H. cbn [fst snd] in H.
  rewrite orb_diag in H. apply andb_prop in H as [H H3]. apply andb_prop in H as [H1 H2].
  apply Z.eqb_eq in H1, H2, H3. subst. reflexivity.
Qed.
