(** Proofs about the inscription codec (model/Inscription.v over the push codec model/Push.v):
    a token-level description of scripts, isOpZeroPart's meaning on every tokenised script,
    Inscribe-then-ParseInscription round trip, rangeAbove. *)
From Coq Require Import List NArith Lia ZifyN ZifyNat ZifyBool ZArith Bool.
From Coq Require Import Strings.Byte.
From GoBT Require Import lib.Bytes lib.Checked lib.VarInt model.Tx model.Push spec.PushSpec proofs.PushProofs
  model.Inscription.
From GoBT Require model.Fees.
Import ListNotations.
Local Open Scope N_scope.
Local Open Scope bool_scope.
Ltac Zify.zify_post_hook ::= Z.div_mod_to_equations.

(** ** tokens: a one-byte non-push opcode, or a push header followed by the data it announces *)
Inductive token := TOp (b : byte) | TPush (hdr data : bytes).
Definition tok_bytes (t : token) : bytes := match t with TOp b => [b] | TPush h d => h ++ d end.
Definition tok_part (t : token) : bytes := match t with TOp b => [b] | TPush _ d => d end.
Definition tok_ok (t : token) : Prop :=
  match t with TOp b => non_push b | TPush h d => push_header h (lenN d) end.
Definition toks_bytes (ts : list token) : bytes := concat (map tok_bytes ts).
Definition tok_is_op0 (t : token) : bool := match t with TOp b => b2n b =? 0 | TPush _ _ => false end.

Lemma toks_bytes_cons t ts : toks_bytes (t :: ts) = tok_bytes t ++ toks_bytes ts.
Proof. reflexivity. Qed.
Lemma toks_bytes_app a b : toks_bytes (a ++ b) = toks_bytes a ++ toks_bytes b.
Proof. unfold toks_bytes. rewrite map_app, concat_app. reflexivity. Qed.

(** DecodeParts of a tokenised script returns the tokens' parts *)
Theorem decode_toks ts : Forall tok_ok ts -> decode_parts (toks_bytes ts) = DOk (map tok_part ts).
Proof.
  induction 1 as [|t ts Ht _ IH]; [reflexivity|].
  rewrite toks_bytes_cons. destruct t as [b|h d]; cbn [tok_bytes tok_part map tok_ok] in *.
  - cbn [app]. rewrite decode_parts_op by assumption. rewrite IH. reflexivity.
  - rewrite <- app_assoc. rewrite decode_parts_push by assumption. rewrite IH. reflexivity.
Qed.

(** conversely every script DecodeParts accepts is a token sequence (so the statements below cover
    every script ParseInscription can get past its first check) *)
Theorem decode_ok_toks : forall b ps, decode_parts b = DOk ps ->
  exists ts, Forall tok_ok ts /\ b = toks_bytes ts /\ ps = map tok_part ts.
Proof.
  induction b as [b IH] using bytes_len_ind. intros ps H.
  destruct b as [|b0 r].
  - rewrite decode_parts_nil in H. injection H as <-. exists []. repeat split. constructor.
  - rewrite decode_parts_cons in H.
    destruct (decode_step_clean (b0 :: r)) as [p rest| |] eqn:S; try discriminate.
    pose proof (decode_step_clean_shorter _ _ _ S) as Hlen.
    destruct (decode_parts rest) as [ps'| | |] eqn:D; cbn [dcons] in H; try discriminate.
    injection H as <-. destruct (IH rest Hlen ps' D) as (ts & Hts & -> & ->).
    apply decode_step_inv in S. destruct S as [(Hnp & -> & Er & _)|(hdr & Hh & E & _)].
    + exists (TOp b0 :: ts). split; [constructor; assumption|]. split; [|reflexivity].
      rewrite toks_bytes_cons. cbn [tok_bytes app]. congruence.
    + exists (TPush hdr p :: ts). split; [constructor; assumption|]. split; [|reflexivity].
      rewrite toks_bytes_cons. cbn [tok_bytes]. rewrite <- app_assoc. exact E.
Qed.

(** ** isOpZeroPart on a tokenised script *)
Lemma idx_app_here (pre : bytes) x r : idx (pre ++ x :: r) (lenN pre) = Some x.
Proof.
  unfold idx, lenNg, lenN. rewrite app_length. cbn [length].
  replace (N.of_nat (length pre) <? N.of_nat (length pre + S (length r))) with true by lia.
  rewrite Nnat.Nat2N.id. rewrite nth_error_app2 by lia. rewrite Nat.sub_diag. reflexivity.
Qed.

Lemma idx_app_end (pre : bytes) : idx pre (lenN pre) = None.
Proof. unfold idx, lenNg, lenN. replace (N.of_nat (length pre) <? N.of_nat (length pre)) with false by lia. reflexivity. Qed.

Lemma push_header_first hdr n : push_header hdr n ->
  exists b t, hdr = b :: t /\ 1 <= b2n b <= 78 /\
    (if (1 <=? b2n b) && (b2n b <=? 75) then lenN hdr = 1
     else if b2n b =? OP_PUSHDATA1 then lenN hdr = 2
     else if b2n b =? OP_PUSHDATA2 then lenN hdr = 3
     else if b2n b =? OP_PUSHDATA4 then lenN hdr = 5 else False).
Proof.
  intros H. inversion H as [m Hm|m Hm|m Hm|m Hm]; subst.
  - exists (n2b n), []. rewrite b2n_n2b_small by lia. split; [reflexivity|]. split; [lia|].
    replace ((1 <=? n) && (n <=? 75)) with true by lia. reflexivity.
  - exists x4c, [n2b n]. split; [reflexivity|]. change (b2n x4c) with 76. split; [lia|]. reflexivity.
  - exists x4d, (le_enc 2 n). split; [reflexivity|]. change (b2n x4d) with 77. split; [lia|].
    cbn [andb N.leb N.eqb N.compare Pos.compare Pos.compare_cont Pos.eqb OP_PUSHDATA1 OP_PUSHDATA2].
    rewrite lenN_cons, lenN_le_enc. reflexivity.
  - exists x4e, (le_enc 4 n). split; [reflexivity|]. change (b2n x4e) with 78. split; [lia|].
    cbn [andb N.leb N.eqb N.compare Pos.compare Pos.compare_cont Pos.eqb OP_PUSHDATA1 OP_PUSHDATA2 OP_PUSHDATA4].
    rewrite lenN_cons, lenN_le_enc. reflexivity.
Qed.

Lemma tok_ok_nonempty t : tok_ok t -> exists b r, tok_bytes t = b :: r.
Proof.
  destruct t as [b|h d]; cbn [tok_ok tok_bytes]; intros H; [eauto|].
  destruct (push_header_nonempty _ _ H) as (b & r & ->). cbn [app]. eauto.
Qed.

(** one step of the walk: a complete token moves the position to the start of the next token *)
Lemma op_zero_pos_step pre t rest ps n : tok_ok t ->
  op_zero_pos (pre ++ tok_bytes t ++ rest) (tok_part t :: ps) (S n) (lenN pre) =
  op_zero_pos ((pre ++ tok_bytes t) ++ rest) ps n (lenN (pre ++ tok_bytes t)).
Proof.
  intros H. cbn [op_zero_pos]. rewrite <- app_assoc.
  destruct t as [b|h d]; cbn [tok_ok tok_bytes tok_part] in *.
  - cbn [app]. rewrite idx_app_here.
    replace ((1 <=? b2n b) && (b2n b <=? 75)) with false by (unfold non_push in H; lia).
    replace (b2n b =? OP_PUSHDATA1) with false by (unfold non_push, OP_PUSHDATA1 in *; lia).
    replace (b2n b =? OP_PUSHDATA2) with false by (unfold non_push, OP_PUSHDATA2 in *; lia).
    replace (b2n b =? OP_PUSHDATA4) with false by (unfold non_push, OP_PUSHDATA4 in *; lia).
    rewrite lenN_app, lenN_cons, lenN_nil. f_equal; lia.
  - destruct (push_header_first _ _ H) as (b & t & -> & Hb & Hl). cbn [app]. rewrite idx_app_here.
    f_equal. rewrite lenN_app. change (b :: t ++ d) with ((b :: t) ++ d). rewrite lenN_app.
    destruct ((1 <=? b2n b) && (b2n b <=? 75)); [lia|].
    destruct (b2n b =? OP_PUSHDATA1); [lia|]. destruct (b2n b =? OP_PUSHDATA2); [lia|].
    destruct (b2n b =? OP_PUSHDATA4); [lia|contradiction].
Qed.

Lemma op_zero_pos_toks : forall ts, Forall tok_ok ts -> forall pre n, (n <= length ts)%nat ->
  op_zero_pos (pre ++ toks_bytes ts) (map tok_part ts) n (lenN pre) =
  Some (lenN (pre ++ toks_bytes (firstn n ts))).
Proof.
  induction 1 as [|t ts Ht Hts IH]; intros pre n Hn.
  - cbn [length] in Hn. replace n with O by lia. cbn [op_zero_pos firstn toks_bytes map concat].
    rewrite app_nil_r. reflexivity.
  - destruct n as [|n]; [cbn [op_zero_pos firstn toks_bytes map concat]; rewrite app_nil_r; reflexivity|].
    cbn [length] in Hn. rewrite toks_bytes_cons. cbn [map]. rewrite op_zero_pos_step by assumption.
    rewrite IH by lia. cbn [firstn]. rewrite toks_bytes_cons, app_assoc. reflexivity.
Qed.

(** isOpZeroPart(b, parts, n) on a tokenised script: in range for every token index, and true exactly
    when token [n] is the opcode OP_0 (a push header never starts with 0x00) *)
Theorem is_op_zero_part_toks ts n t : Forall tok_ok ts -> nth_error ts n = Some t ->
  is_op_zero_part (toks_bytes ts) (map tok_part ts) n = Some (tok_is_op0 t).
Proof.
  intros Hts Hn. unfold is_op_zero_part.
  assert (n < length ts)%nat as Hlt by (apply nth_error_Some; congruence).
  pose proof (op_zero_pos_toks ts Hts [] n ltac:(lia)) as P.
  change ([] ++ toks_bytes ts) with (toks_bytes ts) in P. change (lenN []) with 0 in P.
  change ([] ++ toks_bytes (firstn n ts)) with (toks_bytes (firstn n ts)) in P. rewrite P.
  destruct (nth_error_split _ _ Hn) as (l1 & l2 & -> & Hl).
  rewrite firstn_app, Hl, Nat.sub_diag, firstn_O, app_nil_r, firstn_all2 by lia.
  rewrite toks_bytes_app, toks_bytes_cons.
  apply Forall_app in Hts as [_ Hts]. inversion Hts as [|? ? Ht _]; subst.
  destruct t as [b|h d]; cbn [tok_bytes tok_is_op0 tok_ok] in *.
  - cbn [app]. rewrite idx_app_here. reflexivity.
  - destruct (push_header_first _ _ Ht) as (b & r & -> & Hb & _). cbn [app]. rewrite idx_app_here.
    f_equal. lia.
Qed.

Corollary is_op_zero_part_total b ps n : decode_parts b = DOk ps -> (n < length ps)%nat ->
  is_op_zero_part b ps n <> None.
Proof.
  intros D Hn. destruct (decode_ok_toks _ _ D) as (ts & Hts & -> & ->).
  rewrite map_length in Hn. destruct (nth_error ts n) as [t|] eqn:E; [|apply nth_error_None in E; lia].
  rewrite (is_op_zero_part_toks ts n t Hts E). discriminate.
Qed.

(** ** what AppendPushData appends: the token of a pushed item *)
Definition push_tok (d : bytes) : token :=
  match d with
  | [] => TOp x00
  | _ => TPush (match push_data_prefix d with Some p => p | None => [] end) d
  end.

Lemma push_tok_ok d : lenN d < 4294967296 -> tok_ok (push_tok d).
Proof.
  intros H. destruct d as [|x r]; [left; reflexivity|].
  cbn [push_tok tok_ok]. destruct (push_prefix_some (x :: r) H) as (p & E). rewrite E.
  apply push_prefix_header; [assumption|]. rewrite lenN_cons. lia.
Qed.

Lemma encode_parts_toks : forall dd, Forall (fun d => lenN d < 4294967296) dd ->
  encode_parts dd = Some (toks_bytes (map push_tok dd)).
Proof.
  induction 1 as [|d dd Hd _ IH]; [reflexivity|].
  cbn [encode_parts map]. rewrite IH, toks_bytes_cons. destruct d as [|x r].
  - reflexivity.
  - destruct (push_prefix_some (x :: r) Hd) as (p & E). cbn [push_tok tok_bytes]. rewrite E.
    rewrite <- app_assoc. reflexivity.
Qed.

Lemma encode_parts_too_big dd : Exists (fun d => 4294967296 <= lenN d) dd -> encode_parts dd = None.
Proof.
  induction 1 as [d dd Hd|d dd _ IH]; cbn [encode_parts].
  - apply push_prefix_none_iff in Hd. rewrite Hd. reflexivity.
  - rewrite IH. destruct (push_data_prefix d); reflexivity.
Qed.

(** the part DecodeParts returns for a pushed item: the item, except that the empty item comes back as [00] *)
Definition part_of (d : bytes) : bytes := match d with [] => [x00] | _ => d end.
Lemma tok_part_push d : tok_part (push_tok d) = part_of d.
Proof. destruct d; reflexivity. Qed.
Lemma tok_is_op0_push d : tok_is_op0 (push_tok d) = match d with [] => true | _ => false end.
Proof. destruct d; reflexivity. Qed.

(** ** the token sequence of an inscription script *)
Definition p2pkh_toks (h20 : bytes) : list token :=
  [TOp x76; TOp xa9; TPush [x14] h20; TOp x88; TOp xac].
Definition envelope_toks (ct data : bytes) : list token :=
  [TOp x00; TOp x63; TPush [x03] ordinals_prefix; TOp x51; push_tok ct; TOp x00; push_tok data; TOp x68].
Definition enriched_toks (enriched : option (list bytes)) : list token :=
  match enriched with Some ((_ :: _) as dd) => TOp x6a :: map push_tok dd | _ => [] end.
Definition inscription_toks (h20 ct data : bytes) (enriched : option (list bytes)) : list token :=
  p2pkh_toks h20 ++ envelope_toks ct data ++ enriched_toks enriched.

Definition enriched_ok (enriched : option (list bytes)) : Prop :=
  match enriched with Some dd => Forall (fun d => lenN d < 4294967296) dd | None => True end.

Lemma np b : (b2n b =? 0) || (78 <? b2n b) = true -> non_push b.
Proof. unfold non_push. lia. Qed.

Lemma inscription_toks_ok h20 ct data enriched : length h20 = 20%nat ->
  lenN ct < 4294967296 -> lenN data < 4294967296 -> enriched_ok enriched ->
  Forall tok_ok (inscription_toks h20 ct data enriched).
Proof.
  intros H20 Hct Hd He. unfold inscription_toks. apply Forall_app; split; [|apply Forall_app; split].
  - unfold p2pkh_toks.
    apply Forall_cons; [apply np; reflexivity|]. apply Forall_cons; [apply np; reflexivity|].
    apply Forall_cons.
    { cbn [tok_ok]. replace [x14] with [n2b (lenN h20)] by (unfold lenN; rewrite H20; reflexivity).
      apply ph_direct. unfold lenN. rewrite H20. lia. }
    apply Forall_cons; [apply np; reflexivity|]. apply Forall_cons; [apply np; reflexivity|]. apply Forall_nil.
  - unfold envelope_toks.
    apply Forall_cons; [apply np; reflexivity|]. apply Forall_cons; [apply np; reflexivity|].
    apply Forall_cons.
    { cbn [tok_ok]. change [x03] with [n2b (lenN ordinals_prefix)]. apply ph_direct. cbn. lia. }
    apply Forall_cons; [apply np; reflexivity|]. apply Forall_cons; [apply push_tok_ok; assumption|].
    apply Forall_cons; [apply np; reflexivity|]. apply Forall_cons; [apply push_tok_ok; assumption|].
    apply Forall_cons; [apply np; reflexivity|]. apply Forall_nil.
  - destruct enriched as [[|d dd]|]; cbn [enriched_toks]; try apply Forall_nil.
    apply Forall_cons; [apply np; reflexivity|].
    cbn [enriched_ok] in He. apply Forall_map. eapply Forall_impl; [|exact He].
    intros a Ha. apply push_tok_ok. exact Ha.
Qed.

Lemma append_ign_2 s : append_opcodes_ign s [OpFALSE; OpIF] = s ++ [x00; x63]. Proof. reflexivity. Qed.
Lemma append_ign_1 s : append_opcodes_ign s [Op1] = s ++ [x51]. Proof. reflexivity. Qed.
Lemma append_ign_0 s : append_opcodes_ign s [Op0] = s ++ [x00]. Proof. reflexivity. Qed.
Lemma append_ign_e s : append_opcodes_ign s [OpENDIF] = s ++ [x68]. Proof. reflexivity. Qed.
Lemma append_ign_r s : append_opcodes_ign s [OpRETURN] = s ++ [x6a]. Proof. reflexivity. Qed.

Lemma append_push_data_tok s d : lenN d < 4294967296 ->
  append_push_data s d = Some (s ++ tok_bytes (push_tok d)).
Proof.
  intros H. unfold append_push_data, append_push_data_array.
  rewrite (encode_parts_toks [d]) by (constructor; [assumption|constructor]).
  cbn [map toks_bytes concat]. rewrite app_nil_r. reflexivity.
Qed.

(** Inscribe builds exactly that token sequence, and fails only on an item of 2^32 bytes or more *)
Theorem inscribe_script_toks h20 ct data enriched :
  lenN ct < 4294967296 -> lenN data < 4294967296 -> enriched_ok enriched ->
  inscribe_script (p2pkh_script h20) ct data enriched = Some (toks_bytes (inscription_toks h20 ct data enriched)).
Proof.
  intros Hct Hd He. unfold inscribe_script.
  rewrite append_ign_2. rewrite (append_push_data_tok _ ordinals_prefix) by (cbn; lia).
  rewrite append_ign_1. rewrite (append_push_data_tok _ ct Hct).
  rewrite append_ign_0. rewrite (append_push_data_tok _ data Hd). rewrite append_ign_e.
  assert (forall tail, (((((((p2pkh_script h20 ++ [x00; x63]) ++ tok_bytes (push_tok ordinals_prefix)) ++ [x51]) ++
             tok_bytes (push_tok ct)) ++ [x00]) ++ tok_bytes (push_tok data)) ++ [x68]) ++ tail =
          toks_bytes (p2pkh_toks h20 ++ envelope_toks ct data) ++ tail) as E.
  { intros tail. rewrite toks_bytes_app. unfold toks_bytes, p2pkh_toks, envelope_toks, p2pkh_script.
    cbn [map concat tok_bytes]. repeat rewrite <- app_assoc. reflexivity. }
  destruct enriched as [[|d dd]|]; cbn [enriched_toks].
  - rewrite <- (app_nil_r (_ ++ [x68])), E. unfold inscription_toks. cbn [enriched_toks].
    rewrite !toks_bytes_app. cbn [toks_bytes map concat]. rewrite !app_nil_r, <- toks_bytes_app. reflexivity.
  - rewrite append_ign_r. unfold append_push_data_array. cbn [enriched_ok] in He.
    rewrite (encode_parts_toks (d :: dd) He). f_equal.
    rewrite <- app_assoc. rewrite E. unfold inscription_toks. cbn [enriched_toks].
    rewrite (app_assoc (p2pkh_toks h20)). rewrite (toks_bytes_app (_ ++ _)).
    f_equal.
  - rewrite <- (app_nil_r (_ ++ [x68])), E. unfold inscription_toks. cbn [enriched_toks].
    rewrite !toks_bytes_app. cbn [toks_bytes map concat]. rewrite !app_nil_r, <- toks_bytes_app. reflexivity.
Qed.

Theorem inscribe_script_too_big prefix ct data enriched :
  4294967296 <= lenN ct \/ 4294967296 <= lenN data -> inscribe_script prefix ct data enriched = None.
Proof.
  intros H. unfold inscribe_script.
  destruct (append_push_data _ ordinals_prefix) as [s1|]; [|reflexivity].
  unfold append_push_data at 1, append_push_data_array.
  destruct (N.ltb_spec (lenN ct) 4294967296) as [Hc|Hc].
  - destruct (encode_parts [ct]) as [p|]; [|reflexivity].
    unfold append_push_data, append_push_data_array.
    rewrite (encode_parts_too_big [data]) by (constructor; lia). reflexivity.
  - rewrite (encode_parts_too_big [ct]) by (constructor; lia). reflexivity.
Qed.

(** ** the round trip *)
Lemma p2pkh_len h20 : length h20 = 20%nat -> length (p2pkh_script h20) = 25%nat.
Proof. intros H. unfold p2pkh_script. rewrite !app_length, H. reflexivity. Qed.

Lemma toks_prefix h20 ct data enriched :
  toks_bytes (inscription_toks h20 ct data enriched) =
  p2pkh_script h20 ++ toks_bytes (envelope_toks ct data ++ enriched_toks enriched).
Proof.
  unfold inscription_toks. rewrite toks_bytes_app. f_equal;
  unfold toks_bytes, p2pkh_toks, p2pkh_script; cbn [map concat tok_bytes]; repeat rewrite <- app_assoc; reflexivity.
Qed.

Lemma helper_true h20 ct data enriched :
  Fees.is_p2pkh_inscription_parts (map tok_part (inscription_toks h20 ct data enriched)) = true.
Proof.
  unfold inscription_toks, p2pkh_toks, envelope_toks. cbn [app map tok_part]. rewrite !tok_part_push.
  destruct enriched as [[|d dd]|]; cbn [enriched_toks map app tok_part];
    destruct ct, data; reflexivity.
Qed.

(** parsing what Inscribe built (P2PKH prefix; any content type, any data, with or without the
    enriched OP_RETURN tail) returns the content type, the data and the prefix *)
Theorem parse_inscribe_toks h20 ct data enriched : length h20 = 20%nat ->
  lenN ct < 4294967296 -> lenN data < 4294967296 -> enriched_ok enriched ->
  parse_inscription (toks_bytes (inscription_toks h20 ct data enriched)) = PIOk ct data (p2pkh_script h20).
Proof.
  intros H20 Hct Hd He. pose proof (inscription_toks_ok h20 ct data enriched H20 Hct Hd He) as Hok.
  unfold parse_inscription. rewrite (decode_toks _ Hok). rewrite helper_true.
  pose proof (p2pkh_len h20 H20) as HL.
  assert (25 <= lenN (toks_bytes (inscription_toks h20 ct data enriched))) as Hlen.
  { rewrite toks_prefix, lenN_app. unfold lenN at 1. rewrite HL. lia. }
  replace (lenN (toks_bytes (inscription_toks h20 ct data enriched)) <? 25) with false by lia.
  assert (Hfirst : firstn 25 (toks_bytes (inscription_toks h20 ct data enriched)) = p2pkh_script h20).
  { rewrite toks_prefix. rewrite firstn_app, HL, Nat.sub_diag, firstn_O, app_nil_r. apply firstn_all2. lia. }
  assert (Hp2 : Fees.is_p2pkh (p2pkh_script h20) = true).
  { unfold Fees.is_p2pkh. rewrite HL. unfold p2pkh_script.
    destruct h20 as [|b0 [|b1 [|b2 [|b3 [|b4 [|b5 [|b6 [|b7 [|b8 [|b9 [|b10 [|b11 [|b12 [|b13 [|b14 [|b15 [|b16 [|b17 [|b18 [|b19 [|b20 r]]]]]]]]]]]]]]]]]]]]];
      try (cbn in H20; discriminate). reflexivity. }
  rewrite Hfirst, Hp2.
  cbn [orb negb].
  rewrite (is_op_zero_part_toks _ 11 (push_tok data) Hok) by reflexivity.
  rewrite (is_op_zero_part_toks _ 9 (push_tok ct) Hok) by reflexivity.
  assert (idx (map tok_part (inscription_toks h20 ct data enriched)) 11 = Some (part_of data)) as ->.
  { unfold idx. rewrite <- tok_part_push.
    destruct enriched as [[|d dd]|]; unfold inscription_toks, enriched_toks; cbn [app map p2pkh_toks envelope_toks];
      unfold lenNg; cbn [length]; rewrite ?map_length; cbn [nth_error N.to_nat Pos.to_nat Pos.iter_op Nat.add];
      match goal with |- (if ?c then _ else _) = _ => replace c with true by lia end; reflexivity. }
  assert (idx (map tok_part (inscription_toks h20 ct data enriched)) 9 = Some (part_of ct)) as ->.
  { unfold idx. rewrite <- tok_part_push.
    destruct enriched as [[|d dd]|]; unfold inscription_toks, enriched_toks; cbn [app map p2pkh_toks envelope_toks];
      unfold lenNg; cbn [length]; rewrite ?map_length; cbn [nth_error N.to_nat Pos.to_nat Pos.iter_op Nat.add];
      match goal with |- (if ?c then _ else _) = _ => replace c with true by lia end; reflexivity. }
  assert (slice (toks_bytes (inscription_toks h20 ct data enriched)) 0 25 = Some (p2pkh_script h20)) as ->.
  { rewrite slice_ok by (rewrite ?lenNg_lenN; lia). f_equal.
    rewrite toks_prefix. change (N.to_nat 0) with 0%nat. cbn [skipn].
    change (N.to_nat (25 - 0)) with 25%nat. rewrite firstn_app, HL, Nat.sub_diag, firstn_O, app_nil_r.
    apply firstn_all2. lia. }
  rewrite !tok_is_op0_push. destruct ct, data; reflexivity.
Qed.

Theorem inscription_roundtrip h20 ct data enriched : length h20 = 20%nat ->
  lenN ct < 4294967296 -> lenN data < 4294967296 -> enriched_ok enriched ->
  exists s, inscribe_script (p2pkh_script h20) ct data enriched = Some s /\
            parse_inscription s = PIOk ct data (p2pkh_script h20).
Proof.
  intros H20 Hct Hd He. eexists. split; [apply inscribe_script_toks; assumption|].
  apply parse_inscribe_toks; assumption.
Qed.

(** ParseInscription never indexes out of range, whatever the script *)
Theorem parse_inscription_total s : parse_inscription s <> PIPanic.
Proof.
  unfold parse_inscription. pose proof (decode_parts_total s) as [Hp Hf].
  destruct (decode_parts s) as [p|p| |] eqn:D; try congruence; try discriminate.
  destruct (lenN s <? 25) eqn:L; cbn [orb]; [discriminate|].
  destruct (Fees.is_p2pkh (firstn 25 s)); cbn [negb orb]; [|discriminate].
  destruct (Fees.is_p2pkh_inscription_parts p) eqn:Hh; cbn [negb]; [|discriminate].
  assert (13 <= length p)%nat as H13.
  { unfold Fees.is_p2pkh_inscription_parts in Hh. destruct (Nat.ltb_spec (length p) 13); [discriminate|assumption]. }
  destruct (idx_some p 11 ltac:(unfold lenNg; lia)) as (d & ->).
  destruct (idx_some p 9 ltac:(unfold lenNg; lia)) as (c & ->).
  pose proof (is_op_zero_part_total s p 11 D ltac:(lia)) as Z11.
  pose proof (is_op_zero_part_total s p 9 D ltac:(lia)) as Z9.
  destruct (is_op_zero_part s p 11); [|congruence]. destruct (is_op_zero_part s p 9); [|congruence].
  rewrite slice_ok by (rewrite ?lenNg_lenN; lia). discriminate.
Qed.


(** what ParseInscription returns as the locking-script prefix is the first 25 bytes of the script, and those
    are a P2PKH script (so a prefix that merely decodes to the same parts — the hash pushed through OP_PUSHDATA1,
    the opcode bytes pushed as data — is not reported with one of its bytes missing) *)
Theorem parse_inscription_prefix s ct d pre :
  parse_inscription s = PIOk ct d pre -> pre = firstn 25 s /\ Fees.is_p2pkh pre = true.
Proof.
  unfold parse_inscription. destruct (decode_parts s) as [p|p| |]; try discriminate.
  destruct (lenN s <? 25) eqn:L; cbn [orb]; [discriminate|].
  destruct (Fees.is_p2pkh (firstn 25 s)) eqn:Hp; cbn [negb orb]; [|discriminate].
  destruct (Fees.is_p2pkh_inscription_parts p); cbn [negb]; [|discriminate].
  destruct (idx p 11); [|discriminate]. destruct (idx p 9); [|discriminate].
  destruct (is_op_zero_part s p 11); [|discriminate]. destruct (is_op_zero_part s p 9); [|discriminate].
  rewrite slice_ok by (rewrite ?lenNg_lenN; lia).
  intros [= _ _ <-]. change (N.to_nat 0) with 0%nat. cbn [skipn]. change (N.to_nat (25 - 0)) with 25%nat.
  split; [reflexivity|exact Hp].
Qed.
